/-
C20 helper: the element scanner of the reader model (`JsonFrame.scanValue` = `scanStr` / `scanNested` / `scanScalar`)
returns exactly the element for EVERY well-formed JSON text (`JsonText.JT.wf`), whatever insignificant white space
the text carries inside; `jsonLex` therefore tokenises every well-formed array / object document — with white space
at every legal position, nested values, strings holding brackets / commas / quotes / escapes, keys with escapes —
into "[" (or "{"), one token per element (key + value per entry), "]" (or "}").
-/
import ShpanVerif.Model.JsonText
import ShpanVerif.Proofs.JsonLexLemmas

set_option autoImplicit false
namespace ShpanVerif.Proofs.JsonScan
open List ShpanVerif.Model.JsonFrame ShpanVerif.Model.JsonText ShpanVerif.Proofs.JsonLex

/-! ## byte classes -/

theorem forall_u8 (P : UInt8 → Bool) (h : ∀ n : Fin 256, P (UInt8.ofNat n.val) = true) : ∀ b, P b = true := by
  intro b
  have := h ⟨b.toNat, UInt8.toNat_lt b⟩
  simpa using this

/-- a byte the bracket scanner passes over outside strings without changing its state -/
def neutral (b : UInt8) : Bool := b != bQuote && b != bLBr && b != bLBc && b != bRBr && b != bRBc

/-- a byte the string scanners pass over inside a string -/
def plain (b : UInt8) : Bool := b != bQuote && b != bBackslash

/-- a byte of a number token -/
def numByte (b : UInt8) : Bool := isDigit b || b == 0x2D || b == 0x2B || b == 0x2E || b == 0x65 || b == 0x45

theorem ws_neutral : ∀ b, (!isWs b || neutral b) = true := forall_u8 _ (by decide +kernel)
theorem ws_scalarEnd : ∀ b, (!isWs b || isScalarEnd b) = true := forall_u8 _ (by decide +kernel)
theorem scalarByte_neutral : ∀ b, (!scalarByte b || neutral b) = true := forall_u8 _ (by decide +kernel)
theorem numByte_scalarByte : ∀ b, (!numByte b || scalarByte b) = true := forall_u8 _ (by decide +kernel)
theorem hex_plain : ∀ b, (!isHex b || plain b) = true := forall_u8 _ (by decide +kernel)
theorem numStep_numByte : ∀ (s : NumSt) (b : UInt8), ((numStep s b).isSome → numByte b = true) := by
  intro s
  have : ∀ b, (!(numStep s b).isSome || numByte b) = true := by
    cases s <;> exact forall_u8 _ (by decide +kernel)
  intro b hb
  have := this b
  simpa [hb] using this

theorem neutral_of_ws {b : UInt8} (h : isWs b = true) : neutral b = true := by
  have := ws_neutral b; simpa [h] using this

theorem neutral_comma : neutral bComma = true := by decide
theorem neutral_colon : neutral bColon = true := by decide

theorem neutral_facts {b : UInt8} (h : neutral b = true) :
    (b == bQuote) = false ∧ (b == bLBr) = false ∧ (b == bLBc) = false ∧ (b == bRBr) = false ∧ (b == bRBc) = false := by
  simp only [neutral, Bool.and_eq_true, bne_iff_ne, ne_eq] at h
  obtain ⟨⟨⟨⟨h1, h2⟩, h3⟩, h4⟩, h5⟩ := h
  refine ⟨?_, ?_, ?_, ?_, ?_⟩ <;> simpa using ‹_›

theorem plain_facts {b : UInt8} (h : plain b = true) : (b == bQuote) = false ∧ (b == bBackslash) = false := by
  simp only [plain, Bool.and_eq_true, bne_iff_ne, ne_eq] at h
  exact ⟨by simpa using h.1, by simpa using h.2⟩

/-! ## the bracket scanner passes over complete texts -/

/-- `x` is passed over by `scanNested` outside a string, at every depth ≥ 1, and leaves the scanner in the state it
was in -/
def Skips (x : Bytes) : Prop :=
  ∀ (d : Nat), 1 ≤ d → ∀ (rest acc : Bytes),
    scanNested d false false (x ++ rest) acc = scanNested d false false rest (x.reverse ++ acc)

theorem skips_nil : Skips [] := by intro d _ rest acc; simp

theorem skips_append {x y : Bytes} (hx : Skips x) (hy : Skips y) : Skips (x ++ y) := by
  intro d hd rest acc
  rw [append_assoc, hx d hd, hy d hd]
  simp

theorem skips_byte {b : UInt8} (h : neutral b = true) : Skips [b] := by
  intro d _ rest acc
  obtain ⟨h1, h2, h3, h4, h5⟩ := neutral_facts h
  simp only [singleton_append, reverse_singleton]
  rw [scanNested]
  simp [h1, h2, h3, h4, h5]

theorem skips_neutral : ∀ (x : Bytes), (∀ b ∈ x, neutral b = true) → Skips x
  | [], _ => skips_nil
  | b :: x, h => by
    have : b :: x = [b] ++ x := rfl
    rw [this]
    exact skips_append (skips_byte (h b (by simp))) (skips_neutral x (fun b' hb' => h b' (by simp [hb'])))

theorem skips_ws {w : Bytes} (h : allWs w = true) : Skips w := by
  apply skips_neutral
  intro b hb
  simp only [allWs, all_eq_true] at h
  exact neutral_of_ws (h b hb)

theorem skips_sep (last : Bool) : Skips (sepOf last) := by
  cases last
  · exact skips_byte neutral_comma
  · exact skips_nil

/-- inside a string: a scanner-level version of `strBodyOk` (what the scanners need: no bare quote, every backslash
followed by a byte) -/
def strScanOk : Bytes → Bool
  | [] => true
  | [b] => plain b
  | b :: c :: r => if b == bBackslash then strScanOk r else b != bQuote && strScanOk (c :: r)

theorem strScanOk_plain {b : UInt8} (r : Bytes) (h : plain b = true) : strScanOk (b :: r) = strScanOk r := by
  obtain ⟨h1, h2⟩ := plain_facts h
  cases r with
  | nil => simp [strScanOk, h]
  | cons c r =>
    have hne : b ≠ bQuote := by simpa using h1
    simp [strScanOk, h2, hne]

theorem strScanOk_esc (c : UInt8) (r : Bytes) : strScanOk (bBackslash :: c :: r) = strScanOk r := by
  simp [strScanOk]

theorem strBodyOk_scanOk : ∀ (n : Nat) (s : Bytes), s.length ≤ n → strBodyOk s = true → strScanOk s = true
  | _, [], _, _ => rfl
  | 0, _ :: _, hl, _ => by simp at hl
  | n + 1, b :: r, hl, h => by
    unfold strBodyOk at h
    by_cases hb : (b == bBackslash) = true
    · have hbe : b = bBackslash := by simpa using hb
      subst hbe
      simp only [beq_self_eq_true, if_true] at h
      match r, hl, h with
      | [], _, h => simp at h
      | c :: r', hl, h =>
        simp only at h
        rw [strScanOk_esc]
        by_cases hc : (c == 0x75) = true
        · simp only [hc, if_true] at h
          match r', hl, h with
          | h1 :: h2 :: h3 :: h4 :: r'', hl, h =>
            simp only [Bool.and_eq_true] at h
            obtain ⟨⟨⟨⟨e1, e2⟩, e3⟩, e4⟩, h⟩ := h
            have p (x : UInt8) (hx : isHex x = true) : plain x = true := by
              have := hex_plain x; simpa [hx] using this
            rw [strScanOk_plain _ (p h1 e1), strScanOk_plain _ (p h2 e2), strScanOk_plain _ (p h3 e3),
              strScanOk_plain _ (p h4 e4)]
            exact strBodyOk_scanOk n r'' (by simp at hl; omega) h
          | [], _, h => simp at h
          | [_], _, h => simp at h
          | [_, _], _, h => simp at h
          | [_, _, _], _, h => simp at h
        · simp only [hc, Bool.false_eq_true, if_false, Bool.and_eq_true] at h
          exact strBodyOk_scanOk n r' (by simp at hl; omega) h.2
    · simp only [hb, Bool.false_eq_true, if_false, Bool.and_eq_true, bne_iff_ne, ne_eq, decide_eq_true_eq] at h
      have hp : plain b = true := by
        simp only [plain, Bool.and_eq_true, bne_iff_ne, ne_eq]
        exact ⟨h.1.1, by simpa using hb⟩
      rw [strScanOk_plain _ hp]
      exact strBodyOk_scanOk n r (by simp at hl; omega) h.2

theorem strScanOk_of_body {s : Bytes} (h : strBodyOk s = true) : strScanOk s = true :=
  strBodyOk_scanOk s.length s (Nat.le_refl _) h

/-- `scanNested` inside a string runs to the closing quote -/
theorem scanNested_string : ∀ (n : Nat) (s : Bytes), s.length ≤ n → strScanOk s = true →
    ∀ (d : Nat) (rest acc : Bytes),
      scanNested d true false (s ++ bQuote :: rest) acc = scanNested d false false rest (bQuote :: s.reverse ++ acc)
  | _, [], _, _, d, rest, acc => by
    have hq : (bQuote == bBackslash) = false := by decide
    simp only [nil_append, reverse_nil]
    rw [scanNested]
    simp [hq]
  | 0, _ :: _, hl, _, _, _, _ => by simp at hl
  | n + 1, [b], _, h, d, rest, acc => by
    obtain ⟨h1, h2⟩ := plain_facts (by simpa [strScanOk] using h)
    simp only [cons_append, nil_append]
    rw [scanNested]
    simp only [h1, h2, Bool.false_eq_true, if_false]
    have := scanNested_string n [] (by simp) rfl d rest (b :: acc)
    simpa using this
  | n + 1, b :: c :: r, hl, h, d, rest, acc => by
    rw [strScanOk] at h
    by_cases hb : (b == bBackslash) = true
    · simp only [hb, if_true] at h
      simp only [cons_append]
      rw [scanNested]
      simp only [hb, if_true]
      rw [scanNested]
      have := scanNested_string n r (by simp at hl; omega) h d rest (c :: b :: acc)
      simpa using this
    · simp only [hb, Bool.false_eq_true, if_false, Bool.and_eq_true, bne_iff_ne, ne_eq] at h
      have hq : (b == bQuote) = false := by simpa using h.1
      simp only [cons_append]
      rw [scanNested]
      simp only [hb, hq, Bool.false_eq_true, if_false]
      have := scanNested_string n (c :: r) (by simp at hl; omega) h.2 d rest (b :: acc)
      simpa using this

/-- a quoted string is passed over -/
theorem skips_string {s : Bytes} (h : strScanOk s = true) : Skips (bQuote :: s ++ [bQuote]) := by
  intro d _ rest acc
  simp only [cons_append, append_assoc]
  rw [scanNested]
  simp only [beq_self_eq_true, if_true]
  rw [scanNested_string s.length s (Nat.le_refl _) h]
  simp

/-- an opening bracket, something that is passed over, a closing bracket: passed over -/
theorem skips_bracketed {o c : UInt8} {x : Bytes} (ho : o = bLBr ∨ o = bLBc) (hc : c = bRBr ∨ c = bRBc)
    (hx : Skips x) : Skips (o :: x ++ [c]) := by
  intro d hd rest acc
  have ho' : (o == bQuote) = false ∧ (o == bLBr || o == bLBc) = true := by
    rcases ho with rfl | rfl <;> decide
  have hc' : (c == bQuote) = false ∧ (c == bLBr || c == bLBc) = false ∧ (c == bRBr || c == bRBc) = true := by
    rcases hc with rfl | rfl <;> decide
  simp only [cons_append, append_assoc]
  rw [scanNested]
  simp only [ho'.1, ho'.2, Bool.false_eq_true, if_false, if_true]
  rw [hx (d + 1) (by omega)]
  rw [scanNested]
  have hd2 : ¬ (d + 1 ≤ 1) := by omega
  simp only [hc'.1, hc'.2.1, hc'.2.2, Bool.false_eq_true, if_false, if_true, hd2]
  simp

theorem scalarElem_skips {e : Bytes} (h : ScalarElem e) : Skips e := by
  apply skips_neutral
  intro b hb
  have := scalarByte_neutral b
  simpa [h.2 b hb] using this

/-! ## tokens -/

theorem numRun_bytes : ∀ (tok : Bytes) (s s' : NumSt), numRun s tok = some s' → ∀ b ∈ tok, numByte b = true
  | [], _, _, _ => by simp
  | c :: r, s, s', h => by
    rw [numRun] at h
    cases hs : numStep s c with
    | none => simp [hs] at h
    | some s2 =>
      simp only [hs] at h
      intro b hb
      rcases mem_cons.mp hb with rfl | hb
      · exact numStep_numByte s b (by simp [hs])
      · exact numRun_bytes r s2 s' h b hb

theorem isNumber_scalarElem {tok : Bytes} (h : isNumber tok = true) : ScalarElem tok := by
  unfold isNumber at h
  cases hr : numRun .start tok with
  | none => simp [hr] at h
  | some s =>
    constructor
    · rintro rfl
      simp [numRun] at hr
      subst hr
      simp [numRun, NumSt.accepting] at h
    · intro b hb
      have := numByte_scalarByte b
      simpa [numRun_bytes tok _ _ hr b hb] using this

theorem nullLit_scalarElem : ScalarElem nullLit := by decide
theorem trueLit_scalarElem : ScalarElem trueLit := by decide
theorem falseLit_scalarElem : ScalarElem falseLit := by decide

/-! ## every well-formed text is passed over -/

mutual
theorem skips_render : ∀ (v : JT), v.wf = true → Skips (render v)
  | .null, _ => by simpa [render] using scalarElem_skips nullLit_scalarElem
  | .bool b, _ => by
    cases b
    · simpa [render] using scalarElem_skips falseLit_scalarElem
    · simpa [render] using scalarElem_skips trueLit_scalarElem
  | .num tok, h => by
    have h : isNumber tok = true := by simpa [JT.wf] using h
    simpa [render] using scalarElem_skips (isNumber_scalarElem h)
  | .str body, h => by
    have h : strBodyOk body = true := by simpa [JT.wf] using h
    simpa [render] using skips_string (strScanOk_of_body h)
  | .arr w0 is, h => by
    simp only [JT.wf, Bool.and_eq_true] at h
    have := skips_bracketed (o := bLBr) (c := bRBr) (Or.inl rfl) (Or.inl rfl)
      (skips_append (skips_ws h.1) (skips_items is h.2))
    simpa [render] using this
  | .obj w0 es, h => by
    simp only [JT.wf, Bool.and_eq_true] at h
    have := skips_bracketed (o := bLBc) (c := bRBc) (Or.inr rfl) (Or.inr rfl)
      (skips_append (skips_ws h.1) (skips_ents es h.2))
    simpa [render] using this
theorem skips_items : ∀ (is : JItems), is.wf = true → Skips (renderItems is)
  | .nil, _ => skips_nil
  | .cons l v t rest, h => by
    simp only [JItems.wf, Bool.and_eq_true] at h
    obtain ⟨⟨⟨hl, hv⟩, ht⟩, hr⟩ := h
    rw [renderItems]
    exact skips_append (skips_append (skips_append (skips_append (skips_ws hl) (skips_render v hv)) (skips_ws ht))
      (skips_sep _)) (skips_items rest hr)
theorem skips_ents : ∀ (es : JEnts), es.wf = true → Skips (renderEnts es)
  | .nil, _ => skips_nil
  | .cons l k m c v t rest, h => by
    simp only [JEnts.wf, Bool.and_eq_true] at h
    obtain ⟨⟨⟨⟨⟨⟨hl, hk⟩, hm⟩, hc⟩, hv⟩, ht⟩, hr⟩ := h
    rw [renderEnts]
    exact skips_append (skips_append (skips_append (skips_append (skips_append (skips_append (skips_append
      (skips_append (skips_ws hl) (skips_string (strScanOk_of_body hk))) (skips_ws hm)) (skips_byte neutral_colon))
      (skips_ws hc)) (skips_render v hv)) (skips_ws ht)) (skips_sep _)) (skips_ents rest hr)
end

/-! ## the element scanner returns exactly the element -/

/-- `scanStr` (the string scanner of `scanValue` and of the key position) runs to the closing quote -/
theorem scanStr_spec : ∀ (n : Nat) (s : Bytes), s.length ≤ n → strScanOk s = true → ∀ (rest acc : Bytes),
    scanStr (s ++ bQuote :: rest) acc = some (acc.reverse ++ s ++ [bQuote], rest)
  | _, [], _, _, rest, acc => by
    cases rest with
    | nil => simp [scanStr]
    | cons c r => simp [scanStr]
  | 0, _ :: _, hl, _, _, _ => by simp at hl
  | n + 1, [b], _, h, rest, acc => by
    obtain ⟨h1, h2⟩ := plain_facts (by simpa [strScanOk] using h)
    simp only [cons_append, nil_append]
    rw [scanStr]
    simp only [h1, h2, Bool.false_eq_true, if_false]
    have := scanStr_spec n [] (by simp) rfl rest (b :: acc)
    simpa using this
  | n + 1, b :: c :: r, hl, h, rest, acc => by
    rw [strScanOk] at h
    by_cases hb : (b == bBackslash) = true
    · have hq : (b == bQuote) = false := by
        have : b = bBackslash := by simpa using hb
        subst this; decide
      simp only [hb, if_true] at h
      simp only [cons_append]
      rw [scanStr]
      simp only [hb, hq, Bool.false_eq_true, if_false, if_true]
      have := scanStr_spec n r (by simp at hl; omega) h rest (c :: b :: acc)
      simpa using this
    · simp only [hb, Bool.false_eq_true, if_false, Bool.and_eq_true, bne_iff_ne, ne_eq] at h
      have hq : (b == bQuote) = false := by simpa using h.1
      simp only [cons_append]
      rw [scanStr]
      simp only [hb, hq, Bool.false_eq_true, if_false]
      have := scanStr_spec n (c :: r) (by simp at hl; omega) h.2 rest (b :: acc)
      simpa using this

theorem scanNested_close {c : UInt8} (hc : c = bRBr ∨ c = bRBc) (rest acc : Bytes) :
    scanNested 1 false false (c :: rest) acc = some ((c :: acc).reverse, rest) := by
  have hc' : (c == bQuote) = false ∧ (c == bLBr || c == bLBc) = false ∧ (c == bRBr || c == bRBc) = true := by
    rcases hc with rfl | rfl <;> decide
  rw [scanNested]
  simp [hc'.1, hc'.2.1, hc'.2.2]

/-- the first byte of a well-formed text starts a value: it is no white space, no delimiter, no colon -/
theorem render_head : ∀ (v : JT), v.wf = true →
    ∃ c tl, render v = c :: tl ∧ isScalarEnd c = false ∧ (c == bColon) = false
  | .null, _ => ⟨0x6E, [0x75, 0x6C, 0x6C], by simp [render, nullLit], by decide, by decide⟩
  | .bool true, _ => ⟨0x74, [0x72, 0x75, 0x65], by simp [render, trueLit], by decide, by decide⟩
  | .bool false, _ => ⟨0x66, [0x61, 0x6C, 0x73, 0x65], by simp [render, falseLit], by decide, by decide⟩
  | .num tok, h => by
    have h : isNumber tok = true := by simpa [JT.wf] using h
    obtain ⟨hne, hb⟩ := isNumber_scalarElem h
    cases tok with
    | nil => exact absurd rfl hne
    | cons c tl =>
      obtain ⟨h1, _, _, _, _, _, _, _, h9⟩ := scalarByte_facts (hb c (by simp))
      exact ⟨c, tl, by simp [render], h1, h9⟩
  | .str body, _ => ⟨bQuote, body ++ [bQuote], by simp [render], by decide, by decide⟩
  | .arr w0 is, _ => ⟨bLBr, w0 ++ renderItems is ++ [bRBr], by simp [render], by decide, by decide⟩
  | .obj w0 es, _ => ⟨bLBc, w0 ++ renderEnts es ++ [bRBc], by simp [render], by decide, by decide⟩

/-- **The element scanner returns exactly the element**: for every well-formed JSON text `render v` (any nesting, any
string content, any inner white space) followed by a byte that ends a scalar (white space, `,`, `]`, `}` — what follows
a value inside every array and object), `scanValue` returns the text and leaves the rest. -/
theorem scanValue_render (v : JT) (h : v.wf = true) (c : UInt8) (tl : Bytes) (hc : isScalarEnd c = true) :
    scanValue (render v ++ c :: tl) = some (render v, c :: tl) := by
  have hqb : (bQuote == bBackslash) = false := by decide
  match v, h with
  | .null, _ => simpa [render] using scanValue_scalar nullLit_scalarElem c tl hc
  | .bool true, _ => simpa [render] using scanValue_scalar trueLit_scalarElem c tl hc
  | .bool false, _ => simpa [render] using scanValue_scalar falseLit_scalarElem c tl hc
  | .num tok, h =>
    have h : isNumber tok = true := by simpa [JT.wf] using h
    simpa [render] using scanValue_scalar (isNumber_scalarElem h) c tl hc
  | .str body, h =>
    have h : strBodyOk body = true := by simpa [JT.wf] using h
    simp only [render, cons_append, append_assoc, nil_append]
    rw [scanValue]
    simp only [beq_self_eq_true, if_true]
    rw [scanStr_spec body.length body (Nat.le_refl _) (strScanOk_of_body h)]
    simp
  | .arr w0 is, h =>
    simp only [JT.wf, Bool.and_eq_true] at h
    have hs := skips_append (skips_ws h.1) (skips_items is h.2)
    have h1 : (bLBr == bQuote) = false := by decide
    simp only [render, cons_append, append_assoc, nil_append]
    rw [scanValue]
    simp only [h1, beq_self_eq_true, Bool.true_or, Bool.false_eq_true, if_false, if_true]
    have := hs 1 (Nat.le_refl _) (bRBr :: c :: tl) [bLBr]
    simp only [append_assoc] at this
    rw [this, scanNested_close (Or.inl rfl)]
    simp
  | .obj w0 es, h =>
    simp only [JT.wf, Bool.and_eq_true] at h
    have hs := skips_append (skips_ws h.1) (skips_ents es h.2)
    have h1 : (bLBc == bQuote) = false := by decide
    have h2 : (bLBc == bLBr) = false := by decide
    simp only [render, cons_append, append_assoc, nil_append]
    rw [scanValue]
    simp only [h1, h2, beq_self_eq_true, Bool.or_true, Bool.false_eq_true, if_false, if_true]
    have := hs 1 (Nat.le_refl _) (bRBc :: c :: tl) [bLBc]
    simp only [append_assoc] at this
    rw [this, scanNested_close (Or.inr rfl)]
    simp

/-! ## the lexer on array and object documents -/

theorem skipWs_ws_append : ∀ (w x : Bytes), allWs w = true → skipWs (w ++ x) = skipWs x
  | [], _, _ => rfl
  | b :: w, x, h => by
    simp only [allWs, all_cons, Bool.and_eq_true] at h
    simp only [cons_append, skipWs, h.1, if_true]
    exact skipWs_ws_append w x (by simpa [allWs] using h.2)

theorem scalarEnd_false_facts {c : UInt8} (h : isScalarEnd c = false) :
    isWs c = false ∧ (c == bComma) = false ∧ (c == bRBr) = false ∧ (c == bRBc) = false := by
  simp only [isScalarEnd, Bool.or_eq_false_iff] at h
  exact ⟨h.2, h.1.1.1, h.1.1.2, h.1.2⟩

/-- white space followed by a byte that ends a scalar starts with a byte that ends a scalar -/
theorem ws_then_end (t : Bytes) (ht : allWs t = true) (x : UInt8) (xs : Bytes) (hx : isScalarEnd x = true) :
    ∃ c' tl', t ++ x :: xs = c' :: tl' ∧ isScalarEnd c' = true := by
  cases t with
  | nil => exact ⟨x, xs, rfl, hx⟩
  | cons b t =>
    simp only [allWs, all_cons, Bool.and_eq_true] at ht
    have := ws_scalarEnd b
    exact ⟨b, t ++ x :: xs, rfl, by simpa [ht.1] using this⟩

/-- value position of an array: white space, a well-formed text, then something that ends a scalar -/
theorem lexArr_value (fuel : Nat) (first : Bool) (w : Bytes) (hw : allWs w = true) (v : JT) (hv : v.wf = true)
    (R : Bytes) (hR : ∃ c' tl', R = c' :: tl' ∧ isScalarEnd c' = true) :
    lexArr (fuel + 1) true first (w ++ render v ++ R) = Tok.val (render v) :: lexArr fuel false false R := by
  obtain ⟨c', tl', rfl, hc'⟩ := hR
  obtain ⟨c, tl, hrv, hc1, _⟩ := render_head v hv
  obtain ⟨hcw, _, hcr, hcc⟩ := scalarEnd_false_facts hc1
  have hsv := scanValue_render v hv c' tl' hc'
  rw [lexArr, append_assoc, skipWs_ws_append _ _ hw]
  rw [hrv] at hsv ⊢
  simp only [cons_append] at hsv ⊢
  rw [skipWs_cons_of_not_ws _ hcw]
  simp only [hcr, hcc, Bool.false_and, Bool.false_eq_true, if_false, if_true]
  rw [hsv]

theorem lexArr_comma (fuel : Nat) (t : Bytes) (ht : allWs t = true) (xs : Bytes) :
    lexArr (fuel + 1) false false (t ++ bComma :: xs) = lexArr fuel true false xs := by
  have hws : isWs bComma = false := by decide
  rw [lexArr, skipWs_ws_append _ _ ht, skipWs_cons_of_not_ws _ hws]
  simp

theorem lexArr_close (fuel : Nat) (t : Bytes) (ht : allWs t = true) (post : Bytes) :
    lexArr (fuel + 1) false false (t ++ bRBr :: post) = [Tok.arrClose] := by
  have hws : isWs bRBr = false := by decide
  have hc : (bRBr == bComma) = false := by decide
  rw [lexArr, skipWs_ws_append _ _ ht, skipWs_cons_of_not_ws _ hws]
  simp [hc]

theorem lexArr_empty (fuel : Nat) (w : Bytes) (hw : allWs w = true) (post : Bytes) :
    lexArr (fuel + 1) true true (w ++ bRBr :: post) = [Tok.arrClose] := by
  have hws : isWs bRBr = false := by decide
  rw [lexArr, skipWs_ws_append _ _ hw, skipWs_cons_of_not_ws _ hws]
  simp

theorem isScalarEnd_rbc : isScalarEnd bRBc = true := by decide

/-- **The array lexer on the items of any well-formed array text**: one value token per item, holding exactly the
item's text (surrounding white space dropped, inner white space kept), then the closing token. -/
theorem lexArr_items : ∀ (is : JItems), is.wf = true → ∀ (fuel : Nat) (first : Bool) (w post : Bytes),
    allWs w = true → (is.isNil = true → first = true) →
    (w ++ renderItems is ++ bRBr :: post).length < fuel →
    lexArr fuel true first (w ++ renderItems is ++ bRBr :: post) =
      is.values.map (fun v => Tok.val (render v)) ++ [Tok.arrClose]
  | .nil, _, fuel, first, w, post, hw, hfirst, hf => by
    obtain ⟨fuel, rfl⟩ : ∃ k, fuel = k + 1 := ⟨fuel - 1, by omega⟩
    have : first = true := hfirst rfl
    subst this
    simpa [renderItems, JItems.values] using lexArr_empty fuel w hw post
  | .cons l v t .nil, h, fuel, first, w, post, hw, _, hf => by
    simp only [JItems.wf, Bool.and_eq_true] at h
    obtain ⟨⟨⟨hl, hv⟩, ht⟩, _⟩ := h
    obtain ⟨c, tl, hrv, _⟩ := render_head v hv
    have hlen : (render v).length ≥ 1 := by rw [hrv]; simp
    simp only [renderItems, JItems.isNil, sepOf, if_true, append_nil, length_append, length_cons] at hf
    obtain ⟨fuel, rfl⟩ : ∃ k, fuel = k + 2 := ⟨fuel - 2, by omega⟩
    have hwl : allWs (w ++ l) = true := by simp only [allWs, all_append, Bool.and_eq_true] at *; exact ⟨hw, hl⟩
    have h1 := lexArr_value (fuel + 1) first (w ++ l) hwl v hv (t ++ bRBr :: post)
      (ws_then_end t ht bRBr post isScalarEnd_rbr)
    have h2 := lexArr_close fuel t ht post
    simp only [renderItems, JItems.isNil, sepOf, if_true, append_nil, JItems.values, map_cons, map_nil]
    simp only [append_assoc] at h1 ⊢
    rw [h1, h2]
    simp
  | .cons l v t (.cons l2 v2 t2 rest), h, fuel, first, w, post, hw, _, hf => by
    have hr : (JItems.cons l2 v2 t2 rest).wf = true := by
      simp only [JItems.wf, Bool.and_eq_true] at h ⊢; exact h.2
    simp only [JItems.wf, Bool.and_eq_true] at h
    obtain ⟨⟨⟨hl, hv⟩, ht⟩, _⟩ := h
    obtain ⟨c, tl, hrv, _⟩ := render_head v hv
    have hlen : (render v).length ≥ 1 := by rw [hrv]; simp
    rw [renderItems] at hf ⊢
    simp only [JItems.isNil, sepOf, Bool.false_eq_true, if_false] at hf ⊢
    simp only [length_append, length_cons, length_nil] at hf
    obtain ⟨fuel, rfl⟩ : ∃ k, fuel = k + 2 := ⟨fuel - 2, by omega⟩
    have hwl : allWs (w ++ l) = true := by simp only [allWs, all_append, Bool.and_eq_true] at *; exact ⟨hw, hl⟩
    have h1 := lexArr_value (fuel + 1) first (w ++ l) hwl v hv
      (t ++ bComma :: (renderItems (.cons l2 v2 t2 rest) ++ bRBr :: post))
      (ws_then_end t ht bComma _ isScalarEnd_comma)
    have h2 := lexArr_comma fuel t ht (renderItems (.cons l2 v2 t2 rest) ++ bRBr :: post)
    have ih := lexArr_items (.cons l2 v2 t2 rest) hr fuel false [] post rfl (by simp [JItems.isNil])
      (by simp only [nil_append, length_append, length_cons]; omega)
    simp only [nil_append] at ih
    simp only [JItems.values, map_cons]
    simp only [append_assoc, cons_append, nil_append] at h1 ⊢
    rw [h1, h2, ih]
    simp [JItems.values]

/-- **`jsonLex` on any well-formed array document**: white space before, any text after the closing bracket. -/
theorem jsonLex_array (pre w0 : Bytes) (is : JItems) (post : Bytes) (hpre : allWs pre = true)
    (h : (JT.arr w0 is).wf = true) :
    jsonLex (pre ++ render (.arr w0 is) ++ post) =
      Tok.arrOpen :: is.values.map (fun v => Tok.val (render v)) ++ [Tok.arrClose] := by
  simp only [JT.wf, Bool.and_eq_true] at h
  have hws : isWs bLBr = false := by decide
  rw [jsonLex, append_assoc, skipWs_ws_append _ _ hpre]
  simp only [render, cons_append, append_assoc, nil_append]
  rw [skipWs_cons_of_not_ws _ hws]
  simp only [beq_self_eq_true, if_true, cons.injEq, true_and]
  have := lexArr_items is h.2 ((pre ++ bLBr :: (w0 ++ (renderItems is ++ bRBr :: post))).length + 1) true w0 post h.1
    (fun _ => rfl) (by simp only [length_append, length_cons]; omega)
  simpa [append_assoc] using this

/-! ### objects -/

theorem lexObj_entry (fuel : Nat) (first : Bool) (l k m c : Bytes) (v : JT) (hl : allWs l = true)
    (hk : strBodyOk k = true) (hm : allWs m = true) (hc : allWs c = true) (hv : v.wf = true)
    (R : Bytes) (hR : ∃ c' tl', R = c' :: tl' ∧ isScalarEnd c' = true) :
    lexObj (fuel + 1) true first (l ++ (bQuote :: k ++ [bQuote]) ++ m ++ [bColon] ++ c ++ render v ++ R) =
      Tok.key (bQuote :: k ++ [bQuote]) :: Tok.val (render v) :: lexObj fuel false false R := by
  obtain ⟨c', tl', rfl, hc'⟩ := hR
  obtain ⟨c0, tl0, hrv, hc1, _⟩ := render_head v hv
  obtain ⟨hcw, _, _, _⟩ := scalarEnd_false_facts hc1
  have hsv := scanValue_render v hv c' tl' hc'
  have hq : isWs bQuote = false := by decide
  have hq1 : (bQuote == bRBc) = false := by decide
  have hq2 : (bQuote == bRBr) = false := by decide
  have hcol : isWs bColon = false := by decide
  have hstr := scanStr_spec k.length k (Nat.le_refl _) (strScanOk_of_body hk)
    (m ++ bColon :: (c ++ (render v ++ c' :: tl'))) [bQuote]
  rw [lexObj]
  simp only [append_assoc, cons_append, nil_append]
  rw [skipWs_ws_append _ _ hl, skipWs_cons_of_not_ws _ hq]
  simp only [hq1, hq2, Bool.false_and, Bool.false_eq_true, if_false, beq_self_eq_true, if_true]
  rw [hstr]
  simp only [reverse_singleton, cons_append, nil_append]
  rw [skipWs_ws_append _ _ hm, skipWs_cons_of_not_ws _ hcol]
  simp only [beq_self_eq_true, if_true]
  rw [skipWs_ws_append _ _ hc]
  rw [hrv] at hsv ⊢
  simp only [cons_append] at hsv ⊢
  rw [skipWs_cons_of_not_ws _ hcw, hsv]

theorem lexObj_comma (fuel : Nat) (t : Bytes) (ht : allWs t = true) (xs : Bytes) :
    lexObj (fuel + 1) false false (t ++ bComma :: xs) = lexObj fuel true false xs := by
  have hws : isWs bComma = false := by decide
  rw [lexObj, skipWs_ws_append _ _ ht, skipWs_cons_of_not_ws _ hws]
  simp

theorem lexObj_close (fuel : Nat) (t : Bytes) (ht : allWs t = true) (post : Bytes) :
    lexObj (fuel + 1) false false (t ++ bRBc :: post) = [Tok.objClose] := by
  have hws : isWs bRBc = false := by decide
  have hc : (bRBc == bComma) = false := by decide
  rw [lexObj, skipWs_ws_append _ _ ht, skipWs_cons_of_not_ws _ hws]
  simp [hc]

theorem lexObj_empty (fuel : Nat) (w : Bytes) (hw : allWs w = true) (post : Bytes) :
    lexObj (fuel + 1) true true (w ++ bRBc :: post) = [Tok.objClose] := by
  have hws : isWs bRBc = false := by decide
  rw [lexObj, skipWs_ws_append _ _ hw, skipWs_cons_of_not_ws _ hws]
  simp

/-- the tokens of the entries: key (raw text with its quotes), value -/
def entToks (es : JEnts) : List Tok := es.entries.flatMap (fun kv => [Tok.key kv.1, Tok.val (render kv.2)])

/-- **The object lexer on the entries of any well-formed object text** (keys with escapes, repeated keys, white
space around keys, colons and values). -/
theorem lexObj_ents : ∀ (es : JEnts), es.wf = true → ∀ (fuel : Nat) (first : Bool) (w post : Bytes),
    allWs w = true → (es.isNil = true → first = true) →
    (w ++ renderEnts es ++ bRBc :: post).length < fuel →
    lexObj fuel true first (w ++ renderEnts es ++ bRBc :: post) = entToks es ++ [Tok.objClose]
  | .nil, _, fuel, first, w, post, hw, hfirst, hf => by
    obtain ⟨fuel, rfl⟩ : ∃ k, fuel = k + 1 := ⟨fuel - 1, by omega⟩
    have : first = true := hfirst rfl
    subst this
    simpa [renderEnts, entToks, JEnts.entries] using lexObj_empty fuel w hw post
  | .cons l k m c v t .nil, h, fuel, first, w, post, hw, _, hf => by
    simp only [JEnts.wf, Bool.and_eq_true] at h
    obtain ⟨⟨⟨⟨⟨⟨hl, hk⟩, hm⟩, hc⟩, hv⟩, ht⟩, _⟩ := h
    simp only [renderEnts, JEnts.isNil, sepOf, if_true, append_nil, length_append, length_cons] at hf
    obtain ⟨fuel, rfl⟩ : ∃ k, fuel = k + 2 := ⟨fuel - 2, by omega⟩
    have hwl : allWs (w ++ l) = true := by simp only [allWs, all_append, Bool.and_eq_true] at *; exact ⟨hw, hl⟩
    have h1 := lexObj_entry (fuel + 1) first (w ++ l) k m c v hwl hk hm hc hv (t ++ bRBc :: post)
      (ws_then_end t ht bRBc post isScalarEnd_rbc)
    have h2 := lexObj_close fuel t ht post
    simp only [renderEnts, JEnts.isNil, sepOf, if_true, append_nil, entToks, JEnts.entries, flatMap_cons, flatMap_nil]
    simp only [append_assoc, cons_append, nil_append] at h1 ⊢
    rw [h1, h2]
  | .cons l k m c v t (.cons l2 k2 m2 c2 v2 t2 rest), h, fuel, first, w, post, hw, _, hf => by
    have hr : (JEnts.cons l2 k2 m2 c2 v2 t2 rest).wf = true := by
      simp only [JEnts.wf, Bool.and_eq_true] at h ⊢; exact h.2
    simp only [JEnts.wf, Bool.and_eq_true] at h
    obtain ⟨⟨⟨⟨⟨⟨hl, hk⟩, hm⟩, hc⟩, hv⟩, ht⟩, _⟩ := h
    rw [renderEnts] at hf ⊢
    simp only [JEnts.isNil, sepOf, Bool.false_eq_true, if_false] at hf ⊢
    simp only [length_append, length_cons, length_nil] at hf
    obtain ⟨fuel, rfl⟩ : ∃ k, fuel = k + 2 := ⟨fuel - 2, by omega⟩
    have hwl : allWs (w ++ l) = true := by simp only [allWs, all_append, Bool.and_eq_true] at *; exact ⟨hw, hl⟩
    have h1 := lexObj_entry (fuel + 1) first (w ++ l) k m c v hwl hk hm hc hv
      (t ++ bComma :: (renderEnts (.cons l2 k2 m2 c2 v2 t2 rest) ++ bRBc :: post))
      (ws_then_end t ht bComma _ isScalarEnd_comma)
    have h2 := lexObj_comma fuel t ht (renderEnts (.cons l2 k2 m2 c2 v2 t2 rest) ++ bRBc :: post)
    have ih := lexObj_ents (.cons l2 k2 m2 c2 v2 t2 rest) hr fuel false [] post rfl (by simp [JEnts.isNil])
      (by simp only [nil_append, length_append, length_cons]; omega)
    simp only [nil_append] at ih
    have hent : entToks (.cons l k m c v t (.cons l2 k2 m2 c2 v2 t2 rest)) =
        Tok.key (bQuote :: k ++ [bQuote]) :: Tok.val (render v) :: entToks (.cons l2 k2 m2 c2 v2 t2 rest) := by
      simp [entToks, JEnts.entries]
    rw [hent]
    simp only [append_assoc, cons_append, nil_append] at h1 ⊢
    rw [h1, h2, ih]

/-- **`jsonLex` on any well-formed object document.** -/
theorem jsonLex_object (pre w0 : Bytes) (es : JEnts) (post : Bytes) (hpre : allWs pre = true)
    (h : (JT.obj w0 es).wf = true) :
    jsonLex (pre ++ render (.obj w0 es) ++ post) = Tok.objOpen :: entToks es ++ [Tok.objClose] := by
  simp only [JT.wf, Bool.and_eq_true] at h
  have hws : isWs bLBc = false := by decide
  have hne : (bLBc == bLBr) = false := by decide
  rw [jsonLex, append_assoc, skipWs_ws_append _ _ hpre]
  simp only [render, cons_append, append_assoc, nil_append]
  rw [skipWs_cons_of_not_ws _ hws]
  simp only [hne, Bool.false_eq_true, if_false, beq_self_eq_true, if_true, cons.injEq, true_and]
  have := lexObj_ents es h.2 ((pre ++ bLBc :: (w0 ++ (renderEnts es ++ bRBc :: post))).length + 1) true w0 post h.1
    (fun _ => rfl) (by simp only [length_append, length_cons]; omega)
  simpa [append_assoc] using this

/-! ## byte-level well-formedness and the documents of the harness -/

/-- the decidable predicate is sound by construction: an accepted text is the rendering of a well-formed tree -/
theorem witness_sound {e : Bytes} {t : JT} (h : witness e = some t) : t.wf = true ∧ render t = e := by
  unfold witness at h
  split at h
  · split at h
    · rename_i hc
      simp only [Option.some.injEq] at h
      subst h
      simpa using hc
    · simp at h
  · simp at h

theorem isJsonText_sound {e : Bytes} (h : isJsonText e = true) : ∃ t, t.wf = true ∧ render t = e := by
  unfold isJsonText at h
  obtain ⟨t, ht⟩ := Option.isSome_iff_exists.mp h
  exact ⟨t, witness_sound ht⟩

/-- a list of accepted texts is the rendering of a list of well-formed trees -/
theorem witness_list : ∀ (es : List Bytes), (∀ e ∈ es, isJsonText e = true) →
    ∃ ts : List JT, (∀ t ∈ ts, t.wf = true) ∧ ts.map render = es
  | [], _ => ⟨[], by simp, rfl⟩
  | e :: es, h => by
    obtain ⟨t, ht, hr⟩ := isJsonText_sound (h e (by simp))
    obtain ⟨ts, hts, hrs⟩ := witness_list es (fun e' he' => h e' (by simp [he']))
    refine ⟨t :: ts, ?_, by simp [hr, hrs]⟩
    intro t' ht'
    rcases mem_cons.mp ht' with rfl | ht'
    · exact ht
    · exact hts t' ht'

/-- the items of a harness array document -/
def itemsAt (wsf : Nat → Bytes) : Nat → List JT → JItems
  | _, [] => .nil
  | i, t :: r => .cons (wsf i) t (wsf (i + 1)) (itemsAt wsf (i + 2) r)

theorem renderItems_itemsAt (wsf : Nat → Bytes) : ∀ (ts : List JT) (i : Nat),
    renderItems (itemsAt wsf i ts) = arrDocGo wsf i (ts.map render)
  | [], _ => rfl
  | [t], i => by simp [itemsAt, renderItems, arrDocGo, JItems.isNil, sepOf]
  | t :: t2 :: r, i => by
    have ih := renderItems_itemsAt wsf (t2 :: r) (i + 2)
    simp only [itemsAt] at ih ⊢
    rw [renderItems, ih]
    simp [arrDocGo, JItems.isNil, sepOf]

theorem itemsAt_values (wsf : Nat → Bytes) : ∀ (ts : List JT) (i : Nat), (itemsAt wsf i ts).values = ts
  | [], _ => rfl
  | t :: r, i => by simp [itemsAt, JItems.values, itemsAt_values wsf r (i + 2)]

theorem itemsAt_wf (wsf : Nat → Bytes) (hws : ∀ i, allWs (wsf i) = true) : ∀ (ts : List JT) (i : Nat),
    (∀ t ∈ ts, t.wf = true) → (itemsAt wsf i ts).wf = true
  | [], _, _ => rfl
  | t :: r, i, h => by
    simp [itemsAt, JItems.wf, hws, h t (by simp), itemsAt_wf wsf hws r (i + 2) (fun t' ht' => h t' (by simp [ht']))]

/-- a harness array document is a well-formed array text between white space -/
theorem arrDoc_eq (wsf : Nat → Bytes) (ts : List JT) :
    arrDoc wsf (ts.map render) =
      wsf 7 ++ render (.arr (if ts.isEmpty then wsf 3 else []) (itemsAt wsf 0 ts)) ++ wsf 5 := by
  cases ts with
  | nil => simp [arrDoc, render, itemsAt, renderItems, arrDocGo]
  | cons t r =>
    simp only [arrDoc, render, renderItems_itemsAt]
    simp

/-- the entries of a harness object document -/
def entsAt (wsf : Nat → Bytes) : Nat → List (Bytes × JT) → JEnts
  | _, [] => .nil
  | i, kv :: r => .cons (wsf i) kv.1 (wsf (i + 1)) (wsf (i + 2)) kv.2 (wsf (i + 3)) (entsAt wsf (i + 4) r)

theorem renderEnts_entsAt (wsf : Nat → Bytes) : ∀ (kts : List (Bytes × JT)) (i : Nat),
    renderEnts (entsAt wsf i kts) = objDocGo wsf i (kts.map (fun kv => (kv.1, render kv.2)))
  | [], _ => rfl
  | [kv], i => by simp [entsAt, renderEnts, objDocGo, objEnt, JEnts.isNil, sepOf]
  | kv :: kv2 :: r, i => by
    have ih := renderEnts_entsAt wsf (kv2 :: r) (i + 4)
    simp only [entsAt] at ih ⊢
    rw [renderEnts, ih]
    simp [objDocGo, objEnt, JEnts.isNil, sepOf]

theorem entsAt_entries (wsf : Nat → Bytes) : ∀ (kts : List (Bytes × JT)) (i : Nat),
    (entsAt wsf i kts).entries = kts.map (fun kv => (bQuote :: kv.1 ++ [bQuote], kv.2))
  | [], _ => rfl
  | kv :: r, i => by simp [entsAt, JEnts.entries, entsAt_entries wsf r (i + 4)]

theorem entsAt_wf (wsf : Nat → Bytes) (hws : ∀ i, allWs (wsf i) = true) : ∀ (kts : List (Bytes × JT)) (i : Nat),
    (∀ kv ∈ kts, strBodyOk kv.1 = true ∧ kv.2.wf = true) → (entsAt wsf i kts).wf = true
  | [], _, _ => rfl
  | kv :: r, i, h => by
    simp [entsAt, JEnts.wf, hws, (h kv (by simp)).1, (h kv (by simp)).2,
      entsAt_wf wsf hws r (i + 4) (fun kv' hkv' => h kv' (by simp [hkv']))]

theorem objDoc_eq (wsf : Nat → Bytes) (kts : List (Bytes × JT)) :
    objDoc wsf (kts.map (fun kv => (kv.1, render kv.2))) =
      wsf 7 ++ render (.obj (if kts.isEmpty then wsf 3 else []) (entsAt wsf 0 kts)) ++ wsf 5 := by
  cases kts with
  | nil => simp [objDoc, render, entsAt, renderEnts, objDocGo]
  | cons kv r =>
    simp only [objDoc, render, renderEnts_entsAt]
    simp

/-- a list of entries with accepted value texts is the rendering of a list of entries with well-formed trees -/
theorem witness_entries : ∀ (es : List (Bytes × Bytes)), (∀ kv ∈ es, isJsonText kv.2 = true) →
    ∃ kts : List (Bytes × JT), (∀ kv ∈ kts, kv.2.wf = true) ∧ kts.map (fun kv => (kv.1, render kv.2)) = es
  | [], _ => ⟨[], by simp, rfl⟩
  | (k, e) :: es, h => by
    obtain ⟨t, ht, hr⟩ := isJsonText_sound (h (k, e) (by simp))
    obtain ⟨kts, hts, hrs⟩ := witness_entries es (fun e' he' => h e' (by simp [he']))
    refine ⟨(k, t) :: kts, ?_, by simp [hr, hrs]⟩
    intro t' ht'
    rcases mem_cons.mp ht' with rfl | ht'
    · exact ht
    · exact hts t' ht'

theorem wsOf_allWs (ws i : Nat) : allWs (wsOf ws i) = true := by
  unfold wsOf
  split
  · rfl
  · rfl
  · split <;> rfl
  · split <;> rfl

theorem joinBytes_eq_renderItems : ∀ (ts : List JT),
    joinBytes [bComma] (ts.map render) = renderItems (JItems.ofList ts)
  | [] => rfl
  | [t] => by simp [joinBytes, JItems.ofList, renderItems, JItems.isNil, sepOf]
  | t :: t2 :: r => by
    have ih := joinBytes_eq_renderItems (t2 :: r)
    simp only [map_cons, JItems.ofList] at ih ⊢
    rw [renderItems, ← ih]
    simp [joinBytes, JItems.isNil, sepOf]

/-- the framed document of the writers is the compact array text -/
theorem frame_eq_render (ts : List JT) : frame (ts.map render) = render (.arr [] (JItems.ofList ts)) := by
  simp [frame, render, joinBytes_eq_renderItems]

theorem ofList_values : ∀ (ts : List JT), (JItems.ofList ts).values = ts
  | [] => rfl
  | t :: r => by simp [JItems.ofList, JItems.values, ofList_values r]

theorem ofList_wf : ∀ (ts : List JT), (∀ t ∈ ts, t.wf = true) → (JItems.ofList ts).wf = true
  | [], _ => rfl
  | t :: r, h => by
    simp [JItems.ofList, JItems.wf, allWs, h t (by simp), ofList_wf r (fun t' ht' => h t' (by simp [ht']))]

end ShpanVerif.Proofs.JsonScan
