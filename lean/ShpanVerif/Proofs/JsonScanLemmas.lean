/-
C20 helper: the element scanner of the reader model (`JsonFrame.scanValue` = `scanStr` / `scanNested` / `scanScalar`)
returns exactly the element for EVERY well-formed JSON text (`JsonText.JT.wf`), whatever insignificant white space
the text carries inside; `jsonLex` therefore tokenises every well-formed array / object document — with white space
at every legal position, nested values, strings holding brackets / commas / quotes / escapes, keys with escapes —
into "[" (or "{"), one token per element (key + value per entry), "]" (or "}").
-/
import ShpanVerif.Model.JsonText
import ShpanVerif.Proofs.JsonLexLemmas

set_option autoImplicit false
namespace ShpanVerif.Proofs.JsonScan
open List ShpanVerif.Model.JsonFrame ShpanVerif.Model.JsonText ShpanVerif.Proofs.JsonLex

/-! ## byte classes -/

theorem forall_u8 (P : UInt8 → Bool) (h : ∀ n : Fin 256, P (UInt8.ofNat n.val) = true) : ∀ b, P b = true := by
  intro b
  have := h ⟨b.toNat, UInt8.toNat_lt b⟩
  simpa using this

/-- a byte the bracket scanner passes over outside strings without changing its state -/
def neutral (b : UInt8) : Bool := b != bQuote && b != bLBr && b != bLBc && b != bRBr && b != bRBc

/-- a byte the string scanners pass over inside a string -/
def plain (b : UInt8) : Bool := b != bQuote && b != bBackslash

/-- a byte of a number token -/
def numByte (b : UInt8) : Bool := isDigit b || b == 0x2D || b == 0x2B || b == 0x2E || b == 0x65 || b == 0x45

theorem ws_neutral : ∀ b, (!isWs b || neutral b) = true := forall_u8 _ (by decide +kernel)
theorem ws_scalarEnd : ∀ b, (!isWs b || isScalarEnd b) = true := forall_u8 _ (by decide +kernel)
theorem scalarByte_neutral : ∀ b, (!scalarByte b || neutral b) = true := forall_u8 _ (by decide +kernel)
theorem numByte_scalarByte : ∀ b, (!numByte b || scalarByte b) = true := forall_u8 _ (by decide +kernel)
theorem hex_plain : ∀ b, (!isHex b || plain b) = true := forall_u8 _ (by decide +kernel)
theorem numStep_numByte : ∀ (s : NumSt) (b : UInt8), ((numStep s b).isSome → numByte b = true) := by
  intro s
  have : ∀ b, (!(numStep s b).isSome || numByte b) = true := by
    cases s <;> exact forall_u8 _ (by decide +kernel)
  intro b hb
  have := this b
  simpa [hb] using this

theorem neutral_of_ws {b : UInt8} (h : isWs b = true) : neutral b = true := by
  have := ws_neutral b; simpa [h] using this

theorem neutral_comma : neutral bComma = true := by decide
theorem neutral_colon : neutral bColon = true := by decide

theorem neutral_facts {b : UInt8} (h : neutral b = true) :
    (b == bQuote) = false ∧ (b == bLBr) = false ∧ (b == bLBc) = false ∧ (b == bRBr) = false ∧ (b == bRBc) = false := by
  simp only [neutral, Bool.and_eq_true, bne_iff_ne, ne_eq] at h
  obtain ⟨⟨⟨⟨h1, h2⟩, h3⟩, h4⟩, h5⟩ := h
  refine ⟨?_, ?_, ?_, ?_, ?_⟩ <;> simpa using ‹_›

theorem plain_facts {b : UInt8} (h : plain b = true) : (b == bQuote) = false ∧ (b == bBackslash) = false := by
  simp only [plain, Bool.and_eq_true, bne_iff_ne, ne_eq] at h
  exact ⟨by simpa using h.1, by simpa using h.2⟩

/-! ## the bracket scanner passes over complete texts -/

/-- `x` is passed over by `scanNested` outside a string, at every depth ≥ 1, and leaves the scanner in the state it
was in -/
def Skips (x : Bytes) : Prop :=
  ∀ (d : Nat), 1 ≤ d → ∀ (rest acc : Bytes),
    scanNested d false false (x ++ rest) acc = scanNested d false false rest (x.reverse ++ acc)

theorem skips_nil : Skips [] := by intro d _ rest acc; simp

theorem skips_append {x y : Bytes} (hx : Skips x) (hy : Skips y) : Skips (x ++ y) := by
  intro d hd rest acc
  rw [append_assoc, hx d hd, hy d hd]
  simp

theorem skips_byte {b : UInt8} (h : neutral b = true) : Skips [b] := by
  intro d _ rest acc
  obtain ⟨h1, h2, h3, h4, h5⟩ := neutral_facts h
  simp only [singleton_append, reverse_singleton]
  rw [scanNested]
  simp [h1, h2, h3, h4, h5]

theorem skips_neutral : ∀ (x : Bytes), (∀ b ∈ x, neutral b = true) → Skips x
  | [], _ => skips_nil
  | b :: x, h => by
    have : b :: x = [b] ++ x := rfl
    rw [this]
    exact skips_append (skips_byte (h b (by simp))) (skips_neutral x (fun b' hb' => h b' (by simp [hb'])))

theorem skips_ws {w : Bytes} (h : allWs w = true) : Skips w := by
  apply skips_neutral
  intro b hb
  simp only [allWs, all_eq_true] at h
  exact neutral_of_ws (h b hb)

theorem skips_sep (last : Bool) : Skips (sepOf last) := by
  cases last
  · exact skips_byte neutral_comma
  · exact skips_nil

/-- inside a string: a scanner-level version of `strBodyOk` (what the scanners need: no bare quote, every backslash
followed by a byte) -/
def strScanOk : Bytes → Bool
  | [] => true
  | [b] => plain b
  | b :: c :: r => if b == bBackslash then strScanOk r else b != bQuote && strScanOk (c :: r)

theorem strScanOk_plain {b : UInt8} (r : Bytes) (h : plain b = true) : strScanOk (b :: r) = strScanOk r := by
  obtain ⟨h1, h2⟩ := plain_facts h
  cases r with
  | nil => simp [strScanOk, h]
  | cons c r =>
    have hne : b ≠ bQuote := by simpa using h1
    simp [strScanOk, h2, hne]

theorem strScanOk_esc (c : UInt8) (r : Bytes) : strScanOk (bBackslash :: c :: r) = strScanOk r := by
  simp [strScanOk]

theorem strBodyOk_scanOk : ∀ (n : Nat) (s : Bytes), s.length ≤ n → strBodyOk s = true → strScanOk s = true
  | _, [], _, _ => rfl
  | 0, _ :: _, hl, _ => by simp at hl
  | n + 1, b :: r, hl, h => by
    unfold strBodyOk at h
    by_cases hb : (b == bBackslash) = true
    · have hbe : b = bBackslash := by simpa using hb
      subst hbe
      simp only [beq_self_eq_true, if_true] at h
      match r, hl, h with
      | [], _, h => simp at h
      | c :: r', hl, h =>
        simp only at h
        rw [strScanOk_esc]
        by_cases hc : (c == 0x75) = true
        · simp only [hc, if_true] at h
          match r', hl, h with
          | h1 :: h2 :: h3 :: h4 :: r'', hl, h =>
            simp only [Bool.and_eq_true] at h
            obtain ⟨⟨⟨⟨e1, e2⟩, e3⟩, e4⟩, h⟩ := h
            have p (x : UInt8) (hx : isHex x = true) : plain x = true := by
              have := hex_plain x; simpa [hx] using this
            rw [strScanOk_plain _ (p h1 e1), strScanOk_plain _ (p h2 e2), strScanOk_plain _ (p h3 e3),
              strScanOk_plain _ (p h4 e4)]
            exact strBodyOk_scanOk n r'' (by simp at hl; omega) h
          | [], _, h => simp at h
          | [_], _, h => simp at h
          | [_, _], _, h => simp at h
          | [_, _, _], _, h => simp at h
        · simp only [hc, Bool.false_eq_true, if_false, Bool.and_eq_true] at h
          exact strBodyOk_scanOk n r' (by simp at hl; omega) h.2
    · simp only [hb, Bool.false_eq_true, if_false, Bool.and_eq_true, bne_iff_ne, ne_eq, decide_eq_true_eq] at h
      have hp : plain b = true := by
        simp only [plain, Bool.and_eq_true, bne_iff_ne, ne_eq]
        exact ⟨h.1.1, by simpa using hb⟩
      rw [strScanOk_plain _ hp]
      exact strBodyOk_scanOk n r (by simp at hl; omega) h.2

theorem strScanOk_of_body {s : Bytes} (h : strBodyOk s = true) : strScanOk s = true :=
  strBodyOk_scanOk s.length s (Nat.le_refl _) h

/-- `scanNested` inside a string runs to the closing quote -/
theorem scanNested_string : ∀ (n : Nat) (s : Bytes), s.length ≤ n → strScanOk s = true →
    ∀ (d : Nat) (rest acc : Bytes),
      scanNested d true false (s ++ bQuote :: rest) acc = scanNested d false false rest (bQuote :: s.reverse ++ acc)
  | _, [], _, _, d, rest, acc => by
    have hq : (bQuote == bBackslash) = false := by decide
    simp only [nil_append, reverse_nil]
    rw [scanNested]
    simp [hq]
  | 0, _ :: _, hl, _, _, _, _ => by simp at hl
  | n + 1, [b], _, h, d, rest, acc => by
    obtain ⟨h1, h2⟩ := plain_facts (by simpa [strScanOk] using h)
    simp only [cons_append, nil_append]
    rw [scanNested]
    simp only [h1, h2, Bool.false_eq_true, if_false]
    have := scanNested_string n [] (by simp) rfl d rest (b :: acc)
    simpa using this
  | n + 1, b :: c :: r, hl, h, d, rest, acc => by
    rw [strScanOk] at h
    by_cases hb : (b == bBackslash) = true
    · simp only [hb, if_true] at h
      simp only [cons_append]
      rw [scanNested]
      simp only [hb, if_true]
      rw [scanNested]
      have := scanNested_string n r (by simp at hl; omega) h d rest (c :: b :: acc)
      simpa using this
    · simp only [hb, Bool.false_eq_true, if_false, Bool.and_eq_true, bne_iff_ne, ne_eq] at h
      have hq : (b == bQuote) = false := by simpa using h.1
      simp only [cons_append]
      rw [scanNested]
      simp only [hb, hq, Bool.false_eq_true, if_false]
      have := scanNested_string n (c :: r) (by simp at hl; omega) h.2 d rest (b :: acc)
      simpa using this

/-- a quoted string is passed over -/
theorem skips_string {s : Bytes} (h : strScanOk s = true) : Skips (bQuote :: s ++ [bQuote]) := by
  intro d _ rest acc
  simp only [cons_append, append_assoc, singleton_append]
  rw [scanNested]
  simp only [beq_self_eq_true, if_true]
  rw [scanNested_string s.length s (Nat.le_refl _) h]
  simp

/-- an opening bracket, something that is passed over, a closing bracket: passed over -/
theorem skips_bracketed {o c : UInt8} {x : Bytes} (ho : o = bLBr ∨ o = bLBc) (hc : c = bRBr ∨ c = bRBc)
    (hx : Skips x) : Skips (o :: x ++ [c]) := by
  intro d hd rest acc
  have ho' : (o == bQuote) = false ∧ (o == bLBr || o == bLBc) = true := by
    rcases ho with rfl | rfl <;> decide
  have hc' : (c == bQuote) = false ∧ (c == bLBr || c == bLBc) = false ∧ (c == bRBr || c == bRBc) = true := by
    rcases hc with rfl | rfl <;> decide
  simp only [cons_append, append_assoc, singleton_append]
  rw [scanNested]
  simp only [ho'.1, ho'.2, Bool.false_eq_true, if_false, if_true]
  rw [hx (d + 1) (by omega)]
  rw [scanNested]
  have hd2 : ¬ (d + 1 ≤ 1) := by omega
  simp only [hc'.1, hc'.2.1, hc'.2.2, Bool.false_eq_true, if_false, if_true, hd2]
  simp

theorem scalarElem_skips {e : Bytes} (h : ScalarElem e) : Skips e := by
  apply skips_neutral
  intro b hb
  have := scalarByte_neutral b
  simpa [h.2 b hb] using this

/-! ## tokens -/

theorem numRun_bytes : ∀ (tok : Bytes) (s s' : NumSt), numRun s tok = some s' → ∀ b ∈ tok, numByte b = true
  | [], _, _, _ => by simp
  | c :: r, s, s', h => by
    rw [numRun] at h
    cases hs : numStep s c with
    | none => simp [hs] at h
    | some s2 =>
      simp only [hs] at h
      intro b hb
      rcases mem_cons.mp hb with rfl | hb
      · exact numStep_numByte s b (by simp [hs])
      · exact numRun_bytes r s2 s' h b hb

theorem isNumber_scalarElem {tok : Bytes} (h : isNumber tok = true) : ScalarElem tok := by
  unfold isNumber at h
  cases hr : numRun .start tok with
  | none => simp [hr] at h
  | some s =>
    constructor
    · rintro rfl
      simp [numRun] at hr
      subst hr
      simp [numRun, NumSt.accepting] at h
    · intro b hb
      have := numByte_scalarByte b
      simpa [numRun_bytes tok _ _ hr b hb] using this

theorem nullLit_scalarElem : ScalarElem nullLit := by decide
theorem trueLit_scalarElem : ScalarElem trueLit := by decide
theorem falseLit_scalarElem : ScalarElem falseLit := by decide

/-! ## every well-formed text is passed over -/

mutual
theorem skips_render : ∀ (v : JT), v.wf = true → Skips (render v)
  | .null, _ => by simpa [render] using scalarElem_skips nullLit_scalarElem
  | .bool b, _ => by
    cases b
    · simpa [render] using scalarElem_skips falseLit_scalarElem
    · simpa [render] using scalarElem_skips trueLit_scalarElem
  | .num tok, h => by
    have h : isNumber tok = true := by simpa [JT.wf] using h
    simpa [render] using scalarElem_skips (isNumber_scalarElem h)
  | .str body, h => by
    have h : strBodyOk body = true := by simpa [JT.wf] using h
    simpa [render] using skips_string (strScanOk_of_body h)
  | .arr w0 is, h => by
    simp only [JT.wf, Bool.and_eq_true] at h
    have := skips_bracketed (o := bLBr) (c := bRBr) (Or.inl rfl) (Or.inl rfl)
      (skips_append (skips_ws h.1) (skips_items is h.2))
    simpa [render] using this
  | .obj w0 es, h => by
    simp only [JT.wf, Bool.and_eq_true] at h
    have := skips_bracketed (o := bLBc) (c := bRBc) (Or.inr rfl) (Or.inr rfl)
      (skips_append (skips_ws h.1) (skips_ents es h.2))
    simpa [render] using this
theorem skips_items : ∀ (is : JItems), is.wf = true → Skips (renderItems is)
  | .nil, _ => skips_nil
  | .cons l v t rest, h => by
    simp only [JItems.wf, Bool.and_eq_true] at h
    obtain ⟨⟨⟨hl, hv⟩, ht⟩, hr⟩ := h
    rw [renderItems]
    exact skips_append (skips_append (skips_append (skips_append (skips_ws hl) (skips_render v hv)) (skips_ws ht))
      (skips_sep _)) (skips_items rest hr)
theorem skips_ents : ∀ (es : JEnts), es.wf = true → Skips (renderEnts es)
  | .nil, _ => skips_nil
  | .cons l k m c v t rest, h => by
    simp only [JEnts.wf, Bool.and_eq_true] at h
    obtain ⟨⟨⟨⟨⟨⟨hl, hk⟩, hm⟩, hc⟩, hv⟩, ht⟩, hr⟩ := h
    rw [renderEnts]
    exact skips_append (skips_append (skips_append (skips_append (skips_append (skips_append (skips_append
      (skips_append (skips_ws hl) (skips_string (strScanOk_of_body hk))) (skips_ws hm)) (skips_byte neutral_colon))
      (skips_ws hc)) (skips_render v hv)) (skips_ws ht)) (skips_sep _)) (skips_ents rest hr)
end

end ShpanVerif.Proofs.JsonScan
