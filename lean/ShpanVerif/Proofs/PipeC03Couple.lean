/-
C03 prefix, the two-run coupling ("same until the fault fires"): run 1 in a fault-free world, run 2 in the
same world with the fault plan `(pos, k)` (ANY kind, cancel included).  On the same operator state every
function of the mutual block of `Model/Pipe.lean` either stops run 2 (`fail`/`panic`), or returns the same
result and the same new operator state in both runs, in worlds that are related again.

The relation has two phases: before the plan fires (same call counter, same cancellation flag) and, for
`cancel` only, after it fired (run 2 is cancelled: it behaves like run 1 until its next ctx check fails it).
-/
import ShpanVerif.Proofs.PipeC03Base

namespace ShpanVerif.Proofs.PipeC03
open ShpanVerif.Model.Pipe

/-- coupling of the fault-free world `w₁` and the world `w₂` carrying the plan -/
def Rel (pos : Nat) (k : FaultKind) (w₁ w₂ : World) : Prop :=
  w₁.fault = none ∧ w₂.fault = some (pos, k) ∧
    ((w₁.calls = w₂.calls ∧ w₁.cancelled = w₂.cancelled) ∨ (k = .cancel ∧ w₂.cancelled = true))

/-- run 2 is over: an error or a panic is on its way up -/
def Stop {α : Type} : Res α → Prop
  | .fail _ => True
  | .panic _ => True
  | _ => False

@[simp, grind =] theorem Stop_val {α : Type} (a : α) : Stop (Res.val a) = False := rfl
@[simp, grind =] theorem Stop_eof {α : Type} : Stop (Res.eof : Res α) = False := rfl
@[simp, grind =] theorem Stop_oof {α : Type} : Stop (Res.oof : Res α) = False := rfl
@[simp, grind =] theorem Stop_fail {α : Type} (e : Root) : Stop (Res.fail e : Res α) = True := rfl
@[simp, grind =] theorem Stop_panic {α : Type} (b : Bool) : Stop (Res.panic b : Res α) = True := rfl

theorem Rel_start {pos : Nat} {k : FaultKind} (w : World) (h : w.fault = none) :
    Rel pos k w { w with fault := some (pos, k) } := ⟨h, rfl, .inl ⟨rfl, rfl⟩⟩

/-- a ctx check: same answer in both runs, or run 2 is cancelled -/
theorem Rel_cancelled {pos : Nat} {k : FaultKind} {w₁ w₂ : World} (h : Rel pos k w₁ w₂) :
    w₁.cancelled = w₂.cancelled ∨ w₂.cancelled = true := by
  unfold Rel at h; grind

/-- one probe call: run 1 is never hit; run 2 is hit (and did not just get cancelled), or the worlds are
    related again -/
theorem call_rel {pos : Nat} {k : FaultKind} {w₁ w₂ : World} (h : Rel pos k w₁ w₂) :
    (w₁.call).1 = .none ∧
      ((w₂.call).1 ≠ .none ∨ ((w₂.call).1 = .none ∧ Rel pos k (w₁.call).2 (w₂.call).2)) := by
  obtain ⟨h1, h2, h3⟩ := h
  unfold World.call Rel
  rw [h1, h2]
  by_cases hp : pos = w₂.calls
  · cases k <;> simp [hp] <;> grind
  · simp [hp]; grind

theorem userCall_rel {pos : Nat} {k : FaultKind} {w₁ w₂ : World} (h : Rel pos k w₁ w₂) :
    (userCall w₁).1 = .none ∧
      ((userCall w₂).1 ≠ .none ∨ ((userCall w₂).1 = .none ∧ Rel pos k (userCall w₁).2 (userCall w₂).2)) :=
  call_rel h

theorem emitRes_rel {pos : Nat} {k : FaultKind} (r : Nat) {w₁ w₂ : World} (h : Rel pos k w₁ w₂) :
    (emitRes r w₁).1 = .none ∧
      ((emitRes r w₂).1 ≠ .none ∨
        ((emitRes r w₂).1 = .none ∧ Rel pos k (emitRes r w₁).2 (emitRes r w₂).2)) := by
  have := call_rel h
  unfold emitRes
  generalize w₁.call = x₁ at *
  generalize w₂.call = x₂ at *
  obtain ⟨h₁, v₁⟩ := x₁
  obtain ⟨h₂, v₂⟩ := x₂
  unfold Rel at *
  simpa using this

theorem openRes_rel {pos : Nat} {k : FaultKind} (r : Nat) {w₁ w₂ : World} (h : Rel pos k w₁ w₂) :
    (openRes r w₁).1 = .val () ∧
      ((openRes r w₂).1 = .fail .user ∨ (∃ b, (openRes r w₂).1 = .panic b) ∨
        ((openRes r w₂).1 = .val () ∧ Rel pos k (openRes r w₁).2 (openRes r w₂).2)) := by
  have := call_rel h
  unfold openRes
  generalize w₁.call = x₁ at *
  generalize w₂.call = x₂ at *
  obtain ⟨h₁, v₁⟩ := x₁
  obtain ⟨h₂, v₂⟩ := x₂
  unfold Rel at *
  cases h₁ <;> cases h₂ <;> simp_all

theorem Rel_frame {pos : Nat} {k : FaultKind} {w₁ w₂ v₁ v₂ : World} (h : Rel pos k w₁ w₂)
    (f₁ : Frame w₁ v₁) (f₂ : Frame w₂ v₂) : Rel pos k v₁ v₂ := by
  unfold Rel Frame at *; grind

theorem closeP_rel {pos : Nat} {k : FaultKind} (p : Pipe) {w₁ w₂ : World} (h : Rel pos k w₁ w₂) :
    (closeP p w₁).1 = (closeP p w₂).1 ∧ Rel pos k (closeP p w₁).2 (closeP p w₂).2 :=
  ⟨closeP_indep p w₁ w₂, Rel_frame h (closeP_frame p w₁) (closeP_frame p w₂)⟩
theorem closeFirst_rel {pos : Nat} {k : FaultKind} (ps : PipeList) (n : Nat) {w₁ w₂ : World}
    (h : Rel pos k w₁ w₂) :
    (closeFirst ps n w₁).1 = (closeFirst ps n w₂).1 ∧ Rel pos k (closeFirst ps n w₁).2 (closeFirst ps n w₂).2 :=
  ⟨closeFirst_indep ps n w₁ w₂, Rel_frame h (closeFirst_frame ps n w₁) (closeFirst_frame ps n w₂)⟩
theorem closeAt_rel {pos : Nat} {k : FaultKind} (ps : PipeList) (n : Nat) {w₁ w₂ : World}
    (h : Rel pos k w₁ w₂) :
    (closeAt ps n w₁).1 = (closeAt ps n w₂).1 ∧ Rel pos k (closeAt ps n w₁).2 (closeAt ps n w₂).2 :=
  ⟨closeAt_indep ps n w₁ w₂, Rel_frame h (closeAt_frame ps n w₁) (closeAt_frame ps n w₂)⟩

grind_pattern Rel_cancelled => Rel pos k w₁ w₂
grind_pattern userCall_rel => userCall w₂, Rel pos k w₁ w₂
grind_pattern emitRes_rel => emitRes r w₂, Rel pos k w₁ w₂
grind_pattern openRes_rel => openRes r w₂, Rel pos k w₁ w₂
grind_pattern closeP_rel => closeP p w₂, Rel pos k w₁ w₂
grind_pattern closeFirst_rel => closeFirst ps n w₂, Rel pos k w₁ w₂
grind_pattern closeAt_rel => closeAt ps n w₂, Rel pos k w₁ w₂

/-- coupling of two (result, state, world) triples -/
@[reducible] def CoupT (pos : Nat) (k : FaultKind) {α σ : Type} (x₁ x₂ : Res α × σ × World) : Prop :=
  Stop x₂.1 ∨ (x₁.1 = x₂.1 ∧ x₁.2.1 = x₂.2.1 ∧ Rel pos k x₁.2.2 x₂.2.2)

/-- coupling of the 5-tuples of the cluster helpers -/
@[reducible] def CoupC (pos : Nat) (k : FaultKind) {α σ₁ σ₂ σ₃ : Type} (x₁ x₂ : Res α × σ₁ × σ₂ × σ₃ × World) : Prop :=
  Stop x₂.1 ∨ (x₁.1 = x₂.1 ∧ x₁.2.1 = x₂.2.1 ∧ x₁.2.2.1 = x₂.2.2.1 ∧ x₁.2.2.2.1 = x₂.2.2.2.1 ∧
    Rel pos k x₁.2.2.2.2 x₂.2.2.2.2)

/-- the coupling for all functions of the mutual block at one fuel level -/
structure AllCoup (pos : Nat) (k : FaultKind) (fuel : Nat) : Prop where
  h_openP : ∀ p w₁ w₂, Rel pos k w₁ w₂ → CoupT pos k (openP fuel p w₁) (openP fuel p w₂)
  h_openList : ∀ ps i w₁ w₂, Rel pos k w₁ w₂ → CoupT pos k (openList fuel ps i w₁) (openList fuel ps i w₂)
  h_emitP : ∀ p w₁ w₂, Rel pos k w₁ w₂ → CoupT pos k (emitP fuel p w₁) (emitP fuel p w₂)
  h_skipLoop : ∀ n p w₁ w₂, Rel pos k w₁ w₂ → CoupT pos k (skipLoop fuel n p w₁) (skipLoop fuel n p w₂)
  h_zipRow : ∀ ps i acc w₁ w₂, Rel pos k w₁ w₂ →
    CoupT pos k (zipRow fuel ps i acc w₁) (zipRow fuel ps i acc w₂)
  h_mergeRefill : ∀ ps i sl w₁ w₂, Rel pos k w₁ w₂ →
    CoupT pos k (mergeRefill fuel ps i sl w₁) (mergeRefill fuel ps i sl w₂)
  h_windowFill : ∀ s st o buf so p w₁ w₂, Rel pos k w₁ w₂ →
    CoupT pos k (windowFill fuel s st o buf so p w₁) (windowFill fuel s st o buf so p w₂)
  h_clusterRead : ∀ k' cls want acc nxt last p w₁ w₂, Rel pos k w₁ w₂ →
    CoupC pos k (clusterRead fuel k' cls want acc nxt last p w₁) (clusterRead fuel k' cls want acc nxt last p w₂)
  h_clusterSkip : ∀ k' cls nxt last p w₁ w₂, Rel pos k w₁ w₂ →
    CoupC pos k (clusterSkip fuel k' cls nxt last p w₁) (clusterSkip fuel k' cls nxt last p w₂)
  h_clusterSkipLoop : ∀ k' cls nc nxt last p w₁ w₂, Rel pos k w₁ w₂ →
    CoupC pos k (clusterSkipLoop fuel k' cls nc nxt last p w₁) (clusterSkipLoop fuel k' cls nc nxt last p w₂)

theorem allCoup_zero {pos : Nat} {k : FaultKind} : AllCoup pos k 0 := by
  constructor <;> intros <;> simp [openP, openList, emitP, skipLoop, zipRow, mergeRefill, windowFill,
    clusterRead, clusterSkip, clusterSkipLoop, CoupT, CoupC, *]

/-! ### the induction step: one lemma per function, the induction hypothesis as `grind` lemmas -/

theorem ih_openP {pos : Nat} {k : FaultKind} {fuel : Nat} (ih : AllCoup pos k fuel) (p : _) (w₁ w₂ : World)
    (h : Rel pos k w₁ w₂) : CoupT pos k (openP fuel p w₁) (openP fuel p w₂) := ih.h_openP p w₁ w₂ h
grind_pattern ih_openP => AllCoup pos k fuel, openP fuel p w₂, Rel pos k w₁ w₂

theorem ih_openList {pos : Nat} {k : FaultKind} {fuel : Nat} (ih : AllCoup pos k fuel) (ps i : _) (w₁ w₂ : World)
    (h : Rel pos k w₁ w₂) : CoupT pos k (openList fuel ps i w₁) (openList fuel ps i w₂) := ih.h_openList ps i w₁ w₂ h
grind_pattern ih_openList => AllCoup pos k fuel, openList fuel ps i w₂, Rel pos k w₁ w₂

theorem ih_emitP {pos : Nat} {k : FaultKind} {fuel : Nat} (ih : AllCoup pos k fuel) (p : _) (w₁ w₂ : World)
    (h : Rel pos k w₁ w₂) : CoupT pos k (emitP fuel p w₁) (emitP fuel p w₂) := ih.h_emitP p w₁ w₂ h
grind_pattern ih_emitP => AllCoup pos k fuel, emitP fuel p w₂, Rel pos k w₁ w₂

theorem ih_skipLoop {pos : Nat} {k : FaultKind} {fuel : Nat} (ih : AllCoup pos k fuel) (n p : _) (w₁ w₂ : World)
    (h : Rel pos k w₁ w₂) : CoupT pos k (skipLoop fuel n p w₁) (skipLoop fuel n p w₂) := ih.h_skipLoop n p w₁ w₂ h
grind_pattern ih_skipLoop => AllCoup pos k fuel, skipLoop fuel n p w₂, Rel pos k w₁ w₂

theorem ih_zipRow {pos : Nat} {k : FaultKind} {fuel : Nat} (ih : AllCoup pos k fuel) (ps i acc : _) (w₁ w₂ : World)
    (h : Rel pos k w₁ w₂) : CoupT pos k (zipRow fuel ps i acc w₁) (zipRow fuel ps i acc w₂) := ih.h_zipRow ps i acc w₁ w₂ h
grind_pattern ih_zipRow => AllCoup pos k fuel, zipRow fuel ps i acc w₂, Rel pos k w₁ w₂

theorem ih_mergeRefill {pos : Nat} {k : FaultKind} {fuel : Nat} (ih : AllCoup pos k fuel) (ps i sl : _) (w₁ w₂ : World)
    (h : Rel pos k w₁ w₂) : CoupT pos k (mergeRefill fuel ps i sl w₁) (mergeRefill fuel ps i sl w₂) := ih.h_mergeRefill ps i sl w₁ w₂ h
grind_pattern ih_mergeRefill => AllCoup pos k fuel, mergeRefill fuel ps i sl w₂, Rel pos k w₁ w₂

theorem ih_windowFill {pos : Nat} {k : FaultKind} {fuel : Nat} (ih : AllCoup pos k fuel) (s st o buf so p : _) (w₁ w₂ : World)
    (h : Rel pos k w₁ w₂) : CoupT pos k (windowFill fuel s st o buf so p w₁) (windowFill fuel s st o buf so p w₂) := ih.h_windowFill s st o buf so p w₁ w₂ h
grind_pattern ih_windowFill => AllCoup pos k fuel, windowFill fuel s st o buf so p w₂, Rel pos k w₁ w₂

theorem ih_clusterRead {pos : Nat} {k : FaultKind} {fuel : Nat} (ih : AllCoup pos k fuel) (k' cls want acc nxt last p : _) (w₁ w₂ : World)
    (h : Rel pos k w₁ w₂) : CoupC pos k (clusterRead fuel k' cls want acc nxt last p w₁) (clusterRead fuel k' cls want acc nxt last p w₂) := ih.h_clusterRead k' cls want acc nxt last p w₁ w₂ h
grind_pattern ih_clusterRead => AllCoup pos k fuel, clusterRead fuel k' cls want acc nxt last p w₂, Rel pos k w₁ w₂

theorem ih_clusterSkip {pos : Nat} {k : FaultKind} {fuel : Nat} (ih : AllCoup pos k fuel) (k' cls nxt last p : _) (w₁ w₂ : World)
    (h : Rel pos k w₁ w₂) : CoupC pos k (clusterSkip fuel k' cls nxt last p w₁) (clusterSkip fuel k' cls nxt last p w₂) := ih.h_clusterSkip k' cls nxt last p w₁ w₂ h
grind_pattern ih_clusterSkip => AllCoup pos k fuel, clusterSkip fuel k' cls nxt last p w₂, Rel pos k w₁ w₂

theorem ih_clusterSkipLoop {pos : Nat} {k : FaultKind} {fuel : Nat} (ih : AllCoup pos k fuel) (k' cls nc nxt last p : _) (w₁ w₂ : World)
    (h : Rel pos k w₁ w₂) : CoupC pos k (clusterSkipLoop fuel k' cls nc nxt last p w₁) (clusterSkipLoop fuel k' cls nc nxt last p w₂) := ih.h_clusterSkipLoop k' cls nc nxt last p w₁ w₂ h
grind_pattern ih_clusterSkipLoop => AllCoup pos k fuel, clusterSkipLoop fuel k' cls nc nxt last p w₂, Rel pos k w₁ w₂

/-- split run 2 into its branches; a branch that ends in `fail`/`panic` is done (`Stop`); in the others put
    run 1 back and let `grind` follow it with the coupling of the callees -/
local macro "c03_leaves" : tactic => `(tactic| (
  repeat' split
  all_goals first
    | exact Or.inl trivial
    | (subst_vars; grind (splits := 40) (gen := 20))))

section succ
variable {pos : Nat} {k : FaultKind} (fuel : Nat) (ih : AllCoup pos k fuel)
include ih

theorem c_openP : ∀ p w₁ w₂, Rel pos k w₁ w₂ → CoupT pos k (openP (fuel+1) p w₁) (openP (fuel+1) p w₂) := by
  intro p w₁ w₂ h
  generalize hA : openP (fuel+1) p w₁ = x₁
  cases p
  case src => (first | simp only [openP] at hA ⊢ | (rw [openP.eq_def] at hA ⊢; simp only [] at hA ⊢)); c03_leaves
  case lc => (first | simp only [openP] at hA ⊢ | (rw [openP.eq_def] at hA ⊢; simp only [] at hA ⊢)); c03_leaves
  case map => (first | simp only [openP] at hA ⊢ | (rw [openP.eq_def] at hA ⊢; simp only [] at hA ⊢)); c03_leaves
  case filter => (first | simp only [openP] at hA ⊢ | (rw [openP.eq_def] at hA ⊢; simp only [] at hA ⊢)); c03_leaves
  case limit => (first | simp only [openP] at hA ⊢ | (rw [openP.eq_def] at hA ⊢; simp only [] at hA ⊢)); c03_leaves
  case skip => (first | simp only [openP] at hA ⊢ | (rw [openP.eq_def] at hA ⊢; simp only [] at hA ⊢)); c03_leaves
  case concat => (first | simp only [openP] at hA ⊢ | (rw [openP.eq_def] at hA ⊢; simp only [] at hA ⊢)); c03_leaves
  case zip => (first | simp only [openP] at hA ⊢ | (rw [openP.eq_def] at hA ⊢; simp only [] at hA ⊢)); c03_leaves
  case merge => (first | simp only [openP] at hA ⊢ | (rw [openP.eq_def] at hA ⊢; simp only [] at hA ⊢)); c03_leaves
  case window => (first | simp only [openP] at hA ⊢ | (rw [openP.eq_def] at hA ⊢; simp only [] at hA ⊢)); c03_leaves
  case cluster => (first | simp only [openP] at hA ⊢ | (rw [openP.eq_def] at hA ⊢; simp only [] at hA ⊢)); c03_leaves

theorem c_openList : ∀ ps i w₁ w₂, Rel pos k w₁ w₂ → CoupT pos k (openList (fuel+1) ps i w₁) (openList (fuel+1) ps i w₂) := by
  intro ps i w₁ w₂ h
  generalize hA : openList (fuel+1) ps i w₁ = x₁
  (first | simp only [openList] at hA ⊢ | (rw [openList.eq_def] at hA ⊢; simp only [] at hA ⊢))
  c03_leaves

theorem c_emitP : ∀ p w₁ w₂, Rel pos k w₁ w₂ → CoupT pos k (emitP (fuel+1) p w₁) (emitP (fuel+1) p w₂) := by
  intro p w₁ w₂ h
  generalize hA : emitP (fuel+1) p w₁ = x₁
  cases p
  case src => (first | simp only [emitP] at hA ⊢ | (rw [emitP.eq_def] at hA ⊢; simp only [] at hA ⊢)); c03_leaves
  case lc => (first | simp only [emitP] at hA ⊢ | (rw [emitP.eq_def] at hA ⊢; simp only [] at hA ⊢)); c03_leaves
  case map => (first | simp only [emitP] at hA ⊢ | (rw [emitP.eq_def] at hA ⊢; simp only [] at hA ⊢)); c03_leaves
  case filter => (first | simp only [emitP] at hA ⊢ | (rw [emitP.eq_def] at hA ⊢; simp only [] at hA ⊢)); c03_leaves
  case limit => (first | simp only [emitP] at hA ⊢ | (rw [emitP.eq_def] at hA ⊢; simp only [] at hA ⊢)); c03_leaves
  case skip => (first | simp only [emitP] at hA ⊢ | (rw [emitP.eq_def] at hA ⊢; simp only [] at hA ⊢)); c03_leaves
  case concat => (first | simp only [emitP] at hA ⊢ | (rw [emitP.eq_def] at hA ⊢; simp only [] at hA ⊢)); c03_leaves
  case zip => (first | simp only [emitP] at hA ⊢ | (rw [emitP.eq_def] at hA ⊢; simp only [] at hA ⊢)); c03_leaves
  case merge => (first | simp only [emitP] at hA ⊢ | (rw [emitP.eq_def] at hA ⊢; simp only [] at hA ⊢)); c03_leaves
  case window => (first | simp only [emitP] at hA ⊢ | (rw [emitP.eq_def] at hA ⊢; simp only [] at hA ⊢)); c03_leaves
  case cluster => (first | simp only [emitP] at hA ⊢ | (rw [emitP.eq_def] at hA ⊢; simp only [] at hA ⊢)); c03_leaves

theorem c_skipLoop : ∀ n p w₁ w₂, Rel pos k w₁ w₂ → CoupT pos k (skipLoop (fuel+1) n p w₁) (skipLoop (fuel+1) n p w₂) := by
  intro n p w₁ w₂ h
  generalize hA : skipLoop (fuel+1) n p w₁ = x₁
  cases n <;> (first | simp only [skipLoop] at hA ⊢ | (rw [skipLoop.eq_def] at hA ⊢; simp only [] at hA ⊢)) <;> c03_leaves

theorem c_zipRow : ∀ ps i acc w₁ w₂, Rel pos k w₁ w₂ → CoupT pos k (zipRow (fuel+1) ps i acc w₁) (zipRow (fuel+1) ps i acc w₂) := by
  intro ps i acc w₁ w₂ h
  generalize hA : zipRow (fuel+1) ps i acc w₁ = x₁
  (first | simp only [zipRow] at hA ⊢ | (rw [zipRow.eq_def] at hA ⊢; simp only [] at hA ⊢))
  c03_leaves

theorem c_mergeRefill : ∀ ps i sl w₁ w₂, Rel pos k w₁ w₂ → CoupT pos k (mergeRefill (fuel+1) ps i sl w₁) (mergeRefill (fuel+1) ps i sl w₂) := by
  intro ps i sl w₁ w₂ h
  generalize hA : mergeRefill (fuel+1) ps i sl w₁ = x₁
  (first | simp only [mergeRefill] at hA ⊢ | (rw [mergeRefill.eq_def] at hA ⊢; simp only [] at hA ⊢))
  c03_leaves

theorem c_windowFill : ∀ s st o buf so p w₁ w₂, Rel pos k w₁ w₂ → CoupT pos k (windowFill (fuel+1) s st o buf so p w₁) (windowFill (fuel+1) s st o buf so p w₂) := by
  intro s st o buf so p w₁ w₂ h
  generalize hA : windowFill (fuel+1) s st o buf so p w₁ = x₁
  (first | simp only [windowFill] at hA ⊢ | (rw [windowFill.eq_def] at hA ⊢; simp only [] at hA ⊢))
  c03_leaves

theorem c_clusterRead : ∀ k' cls want acc nxt last p w₁ w₂, Rel pos k w₁ w₂ → CoupC pos k (clusterRead (fuel+1) k' cls want acc nxt last p w₁) (clusterRead (fuel+1) k' cls want acc nxt last p w₂) := by
  intro k' cls want acc nxt last p w₁ w₂ h
  generalize hA : clusterRead (fuel+1) k' cls want acc nxt last p w₁ = x₁
  rw [clusterRead.eq_def] at hA ⊢; simp only [] at hA ⊢
  c03_leaves

theorem c_clusterSkip : ∀ k' cls nxt last p w₁ w₂, Rel pos k w₁ w₂ → CoupC pos k (clusterSkip (fuel+1) k' cls nxt last p w₁) (clusterSkip (fuel+1) k' cls nxt last p w₂) := by
  intro k' cls nxt last p w₁ w₂ h
  generalize hA : clusterSkip (fuel+1) k' cls nxt last p w₁ = x₁
  rw [clusterSkip.eq_def] at hA ⊢; simp only [] at hA ⊢
  c03_leaves

theorem c_clusterSkipLoop : ∀ k' cls nc nxt last p w₁ w₂, Rel pos k w₁ w₂ → CoupC pos k (clusterSkipLoop (fuel+1) k' cls nc nxt last p w₁) (clusterSkipLoop (fuel+1) k' cls nc nxt last p w₂) := by
  intro k' cls nc nxt last p w₁ w₂ h
  generalize hA : clusterSkipLoop (fuel+1) k' cls nc nxt last p w₁ = x₁
  rw [clusterSkipLoop.eq_def] at hA ⊢; simp only [] at hA ⊢
  c03_leaves

end succ

theorem allCoup (pos : Nat) (k : FaultKind) : ∀ fuel, AllCoup pos k fuel
  | 0 => allCoup_zero
  | fuel+1 =>
    have ih := allCoup pos k fuel
    ⟨c_openP fuel ih, c_openList fuel ih, c_emitP fuel ih, c_skipLoop fuel ih, c_zipRow fuel ih,
     c_mergeRefill fuel ih, c_windowFill fuel ih, c_clusterRead fuel ih, c_clusterSkip fuel ih,
     c_clusterSkipLoop fuel ih⟩

/-! ### the pull loop and `consume` -/

/-- `b` extends `a` at the front (the accumulator of the pull loop is reversed) -/
def Ext (a b : List V) : Prop := ∃ l, b = l ++ a

theorem Ext_refl (a : List V) : Ext a a := ⟨[], rfl⟩
theorem Ext_of_cons {v : V} {a b : List V} (h : Ext (v :: a) b) : Ext a b := by
  obtain ⟨l, rfl⟩ := h; exact ⟨l ++ [v], by simp⟩
theorem Ext_prefix {a b : List V} (h : Ext a b) : a.reverse <+: b.reverse := by
  obtain ⟨l, rfl⟩ := h; simp

grind_pattern Ext_refl => Ext a a
grind_pattern Ext_of_cons => Ext (v :: a) b

/-- the pull loop only ever pushes onto its accumulator -/
theorem pullLoop_ext : ∀ fuel c p acc w, Ext acc (pullLoop fuel c p acc w).2.1
  | 0, c, p, acc, w => by simp [pullLoop, Ext_refl]
  | fuel+1, c, p, acc, w => by
    have ih := pullLoop_ext fuel
    simp only [pullLoop]
    repeat' split
    all_goals first
      | exact Ext_refl _
      | exact Ext_of_cons (ih _ _ _ _)

grind_pattern pullLoop_ext => pullLoop fuel c p acc w

/-- coupling of two pull loops: what run 2 delivered, run 1 delivered too (before anything else) -/
def PCoup {α σ : Type} (x₁ x₂ : Res α × List V × σ × World) : Prop :=
  x₁.1 = .oof ∨ x₂.1 = .oof ∨ Ext x₂.2.1 x₁.2.1

theorem pullLoop_coup {pos : Nat} {k : FaultKind} : ∀ fuel c p acc w₁ w₂, Rel pos k w₁ w₂ →
    PCoup (pullLoop fuel c p acc w₁) (pullLoop fuel c p acc w₂)
  | 0, c, p, acc, w₁, w₂, _ => by simp [pullLoop, PCoup]
  | fuel+1, c, p, acc, w₁, w₂, h => by
    have ih := pullLoop_coup (pos := pos) (k := k) fuel
    have ia := allCoup pos k fuel
    have hE := pullLoop_ext (fuel+1) c p acc w₁
    generalize hA : pullLoop (fuel+1) c p acc w₁ = x₁ at hE
    simp only [pullLoop] at hA ⊢
    simp only [PCoup] at ih ⊢
    repeat' split
    all_goals (subst_vars; grind (splits := 40) (gen := 20))

@[simp, grind =] theorem delivered_ok (d : List V) : (Outcome.ok d).delivered = d := rfl
@[simp, grind =] theorem delivered_err (e : Root) (d : List V) : (Outcome.err e d).delivered = d := rfl
@[simp, grind =] theorem delivered_oof : Outcome.oof.delivered = [] := rfl

/-- `consume` in the two coupled worlds: run 2's delivery is a prefix of run 1's -/
theorem consume_coup {pos : Nat} {k : FaultKind} (fuel : Nat) (c : Consumer) (p : Pipe) (w₁ w₂ : World)
    (h : Rel pos k w₁ w₂) :
    (consume fuel c p w₁).1 = .oof ∨ (consume fuel c p w₂).1 = .oof ∨
      (consume fuel c p w₂).1.delivered <+: (consume fuel c p w₁).1.delivered := by
  have ia := allCoup pos k fuel
  have ip := pullLoop_coup (pos := pos) (k := k) fuel
  have ep := @Ext_prefix
  simp only [PCoup] at ip
  generalize hA : consume fuel c p w₁ = x₁
  unfold consume at hA ⊢
  repeat' split
  all_goals (subst_vars; grind (splits := 40) (gen := 20))

end ShpanVerif.Proofs.PipeC03
