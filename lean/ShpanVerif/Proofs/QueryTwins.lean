/-
C11 helper: the datasource-package value/filter implementations and their report-package twins compute the same
thing on a one-field result.
-/
import ShpanVerif.Model.QueryRef
import ShpanVerif.Proofs.QueryDs

namespace ShpanVerif.Proofs.Query
open ShpanVerif.Model.Query ShpanVerif.Model.Query.Ref List

variable {D : Type} (O : Ops D)

/-- a datasource-package planned value and a report-package planned value over the one-field schema agree -/
def Twin (p : Planned (Val D) D) (q : Planned (List (Val D)) D) : Prop :=
  p.1 = q.1 ∧ ∀ x, q.2 [x] = p.2 x

/-- same error, or both succeed as twins -/
def TwinE (r : Except PlanErr (Planned (Val D) D)) (r' : Except PlanErr (Planned (List (Val D)) D)) : Prop :=
  (∃ e, r = .error e ∧ r' = .error e) ∨ ∃ p q, r = .ok p ∧ r' = .ok q ∧ Twin p q

theorem twin_const (vm : ValueMeta) (c : Val D) : TwinE (constK O vm c) (constK O vm c) := by
  cases c with
  | nil =>
    simp only [constK]
    split
    · exact Or.inl ⟨_, rfl, rfl⟩
    · exact Or.inr ⟨_, _, rfl, rfl, rfl, fun _ => rfl⟩
  | int _ | dec _ | str _ | bool _ | ts _ =>
    simp only [constK]
    split
    · exact Or.inl ⟨_, rfl, rfl⟩
    · exact Or.inr ⟨_, _, rfl, rfl, rfl, fun _ => rfl⟩

theorem twin_ref (fm : FieldMeta) : TwinE (refD (D := D) fm) (refR fm.urn [fm]) := by
  refine Or.inr ⟨(fm.toValueMeta, fun v => some v), (fm.toValueMeta, fun row => row[0]?), rfl, ?_, rfl, fun _ => rfl⟩
  simp [Model.Query.refR, findField]

theorem twin_cast (t : DataType) {p : Planned (Val D) D} {q : Planned (List (Val D)) D} (h : Twin p q) :
    TwinE (castK O t p) (castK O t q) := by
  obtain ⟨hm, hf⟩ := h
  simp only [castK, ← hm]
  cases castFunc O p.1.dt t with
  | none => exact Or.inl ⟨_, rfl, rfl⟩
  | some cf => exact Or.inr ⟨_, _, rfl, rfl, rfl, fun x => by simp [hf]⟩

theorem twin_cond (op : CondOp) {pa pb : Planned (Val D) D} {qa qb : Planned (List (Val D)) D}
    (ha : Twin pa qa) (hb : Twin pb qb) : TwinE (condK O op pa pb) (condK O op qa qb) := by
  obtain ⟨hma, hfa⟩ := ha
  obtain ⟨hmb, hfb⟩ := hb
  simp only [condK, ← hma, ← hmb]
  split
  · exact Or.inl ⟨_, rfl, rfl⟩
  · cases condFunc O op pa.1.dt with
    | none => exact Or.inl ⟨_, rfl, rfl⟩
    | some cf => exact Or.inr ⟨_, _, rfl, rfl, rfl, fun x => by simp [hfa, hfb]⟩

theorem twin_num (op : BinOp) {pa pb : Planned (Val D) D} {qa qb : Planned (List (Val D)) D}
    (ha : Twin pa qa) (hb : Twin pb qb) : TwinE (numK O op pa pb) (numK O op qa qb) := by
  obtain ⟨hma, hfa⟩ := ha
  obtain ⟨hmb, hfb⟩ := hb
  simp only [numK, ← hma, ← hmb]
  split
  · exact Or.inl ⟨_, rfl, rfl⟩
  split
  · exact Or.inl ⟨_, rfl, rfl⟩
  split
  · exact Or.inl ⟨_, rfl, rfl⟩
  split
  · exact Or.inl ⟨_, rfl, rfl⟩
  cases binFunc O op pa.1.dt with
  | none => exact Or.inl ⟨_, rfl, rfl⟩
  | some f => exact Or.inr ⟨_, _, rfl, rfl, rfl, fun x => by simp [hfa, hfb]⟩

theorem twin_un (op : UnOp) {p : Planned (Val D) D} {q : Planned (List (Val D)) D} (h : Twin p q) :
    TwinE (unK O op p) (unK O op q) := by
  obtain ⟨hm, hf⟩ := h
  simp only [unK, ← hm]
  split
  · exact Or.inl ⟨_, rfl, rfl⟩
  · cases unFunc O op p.1.dt with
    | none => exact Or.inl ⟨_, rfl, rfl⟩
    | some f => exact Or.inr ⟨_, _, rfl, rfl, rfl, fun x => by simp [hf]⟩

theorem twin_logic (op : LogicOp) {pa pb : Planned (Val D) D} {qa qb : Planned (List (Val D)) D}
    (ha : Twin pa qa) (hb : Twin pb qb) : TwinE (logicK op pa pb) (logicK op qa qb) := by
  obtain ⟨hma, hfa⟩ := ha
  obtain ⟨hmb, hfb⟩ := hb
  simp only [logicK, ← hma, ← hmb]
  split
  · exact Or.inl ⟨_, rfl, rfl⟩
  split
  · exact Or.inl ⟨_, rfl, rfl⟩
  split
  · exact Or.inl ⟨_, rfl, rfl⟩
  split
  · exact Or.inl ⟨_, rfl, rfl⟩
  cases logicFunc (D := D) op with
  | none => exact Or.inl ⟨_, rfl, rfl⟩
  | some f => exact Or.inr ⟨_, _, rfl, rfl, rfl, fun x => by simp [hfa, hfb]⟩

theorem twin_nvl {ps pa : Planned (Val D) D} {qs qa : Planned (List (Val D)) D}
    (hs : Twin ps qs) (ha : Twin pa qa) : TwinE (nvlK ps pa) (nvlK qs qa) := by
  obtain ⟨hms, hfs⟩ := hs
  obtain ⟨hma, hfa⟩ := ha
  simp only [nvlK, ← hms, ← hma]
  split
  · exact Or.inl ⟨_, rfl, rfl⟩
  split
  · exact Or.inl ⟨_, rfl, rfl⟩
  exact Or.inr ⟨_, _, rfl, rfl, rfl, fun x => by simp [hfs, hfa]⟩

theorem twin_sel {pc pt pf : Planned (Val D) D} {qc qt qf : Planned (List (Val D)) D}
    (hc : Twin pc qc) (ht : Twin pt qt) (hf : Twin pf qf) : TwinE (selK pc pt pf) (selK qc qt qf) := by
  obtain ⟨hmc, hfc⟩ := hc
  obtain ⟨hmt, hft⟩ := ht
  obtain ⟨hmf, hff⟩ := hf
  simp only [selK, ← hmc, ← hmt, ← hmf]
  split
  · exact Or.inl ⟨_, rfl, rfl⟩
  split
  · exact Or.inl ⟨_, rfl, rfl⟩
  split
  · exact Or.inl ⟨_, rfl, rfl⟩
  split
  · exact Or.inl ⟨_, rfl, rfl⟩
  split
  · exact Or.inl ⟨_, rfl, rfl⟩
  exact Or.inr ⟨_, _, rfl, rfl, rfl, fun x => by simp [hfc, hft, hff]⟩

/-- bind two `TwinE` results through twin-preserving continuations -/
theorem TwinE.bind {r : Except PlanErr (Planned (Val D) D)} {r' : Except PlanErr (Planned (List (Val D)) D)}
    {k : Planned (Val D) D → Except PlanErr (Planned (Val D) D)}
    {k' : Planned (List (Val D)) D → Except PlanErr (Planned (List (Val D)) D)}
    (h : TwinE r r') (hk : ∀ p q, Twin p q → TwinE (k p) (k' q)) : TwinE (r >>= k) (r' >>= k') := by
  rcases h with ⟨e, rfl, rfl⟩ | ⟨p, q, rfl, rfl, hpq⟩
  · exact Or.inl ⟨e, rfl, rfl⟩
  · exact hk p q hpq

/-- `C11_twins` at value level: a datasource-package value and its report-package lift plan alike -/
theorem planDVal_twin (fm : FieldMeta) : ∀ (v : DVal D),
    TwinE (planDVal O v fm) (planRVal O (liftVal fm.urn v) [fm])
  | .const vm c => by simpa [planDVal, planRVal, liftVal] using twin_const O vm c
  | .ref => by simpa [planDVal, planRVal, liftVal] using twin_ref fm
  | .cast s t => by
    simp only [planDVal, planRVal, liftVal]
    exact (planDVal_twin fm s).bind fun p q h => twin_cast O t h
  | .cond op a b => by
    simp only [planDVal, planRVal, liftVal]
    exact (planDVal_twin fm a).bind fun pa qa ha => (planDVal_twin fm b).bind fun pb qb hb => twin_cond O op ha hb
  | .num op a b => by
    simp only [planDVal, planRVal, liftVal]
    exact (planDVal_twin fm a).bind fun pa qa ha => (planDVal_twin fm b).bind fun pb qb hb => twin_num O op ha hb
  | .un op a => by
    simp only [planDVal, planRVal, liftVal]
    exact (planDVal_twin fm a).bind fun p q h => twin_un O op h
  | .logic op a b => by
    simp only [planDVal, planRVal, liftVal]
    exact (planDVal_twin fm a).bind fun pa qa ha => (planDVal_twin fm b).bind fun pb qb hb => twin_logic op ha hb
  | .nvl s alt => by
    simp only [planDVal, planRVal, liftVal]
    exact (planDVal_twin fm s).bind fun ps qs hs => (planDVal_twin fm alt).bind fun pa qa ha => twin_nvl hs ha
  | .sel c t f => by
    simp only [planDVal, planRVal, liftVal]
    exact (planDVal_twin fm c).bind fun pc qc hc => (planDVal_twin fm t).bind fun pt qt ht =>
      (planDVal_twin fm f).bind fun pf qf hf => twin_sel hc ht hf

end ShpanVerif.Proofs.Query

namespace ShpanVerif.Proofs.Query
open ShpanVerif.Model.Query ShpanVerif.Model.Query.Ref List

variable {D : Type} (O : Ops D)

/-! ## filter level -/

/-- from_datasource.go: a datasource record as a one-cell report row -/
def wrapRec (x : DRec D) : Row D := { ts := x.ts, vals := [x.val] }

def wrapStream (s : DStream D) : RStream D := s.map fun e => e.map wrapRec

/-- a report result that is the one-field view of a datasource-package result -/
def Wrap (d : DResult D) (r : RResult D) : Prop := r.1 = [d.1] ∧ r.2 = wrapStream d.2

/-- same error, or both succeed and the report result is the one-field view of the datasource result -/
def TwinRes (a : Except PlanErr (DResult D)) (b : Except PlanErr (RResult D)) : Prop :=
  (∃ e, a = .error e ∧ b = .error e) ∨ ∃ d r, a = .ok d ∧ b = .ok r ∧ Wrap d r

theorem wrapStream_mapRecs (s : DStream D) (g : DRec D → Option (DRec D)) (g' : Row D → Option (Row D))
    (h : ∀ x, g' (wrapRec x) = (g x).map wrapRec) : mapRows g' (wrapStream s) = wrapStream (mapRecs g s) := by
  simp only [mapRows, wrapStream, mapRecs, map_map]
  apply map_congr_left
  intro e _
  cases e with
  | none => rfl
  | some x => simp [h]

theorem wrapStream_where (s : DStream D) (p : DRec D → Option (Val D)) (p' : Row D → Option (Val D))
    (h : ∀ x, p' (wrapRec x) = p x) : whereStream p' (wrapStream s) = wrapStream (whereStream p s) := by
  induction s with
  | nil => rfl
  | cons e s ih =>
    simp only [wrapStream, whereStream, map_cons, filterMap_cons] at ih ⊢
    cases e with
    | none => simp [ih]
    | some x =>
      simp only [Option.map_some, h]
      cases hp : p x with
      | none => simp [ih]
      | some v =>
        cases v with
        | bool b => cases b <;> simp [ih]
        | nil | int _ | dec _ | str _ | ts _ => simp [ih]

/-- `PrepareField` on twins gives the same field and twin row functions -/
theorem prepareK_twin (afm : AddFieldMeta) {p : Planned (Val D) D} {q : Planned (List (Val D)) D} (h : Twin p q) :
    (∃ e, prepareK afm p = .error e ∧ prepareK afm q = .error e) ∨
      ∃ fm fn fn', prepareK afm p = .ok (fm, fn) ∧ prepareK afm q = .ok (fm, fn') ∧ ∀ x, fn' [x] = fn x := by
  obtain ⟨hm, hf⟩ := h
  simp only [prepareK, ← hm]
  cases newFieldMeta afm.urn p.1.dt p.1.required (if afm.overrideUnit ≠ "" then afm.overrideUnit else p.1.unit)
      (mergeCustom p.1.custom afm.custom) with
  | error e => exact Or.inl ⟨e, rfl, rfl⟩
  | ok fm => exact Or.inr ⟨fm, _, _, rfl, rfl, hf⟩

theorem planPrepare_twin (v : DVal D) (afm : AddFieldMeta) (fm : FieldMeta) :
    (∃ e, (planDVal O v fm >>= prepareK afm) = .error e ∧
        (planRVal O (liftVal fm.urn v) [fm] >>= prepareK afm) = .error e) ∨
      ∃ fm' fn fn', (planDVal O v fm >>= prepareK afm) = .ok (fm', fn) ∧
        (planRVal O (liftVal fm.urn v) [fm] >>= prepareK afm) = .ok (fm', fn') ∧ ∀ x, fn' [x] = fn x := by
  rcases planDVal_twin O fm v with ⟨e, h1, h2⟩ | ⟨p, q, h1, h2, hpq⟩
  · rw [h1, h2]; exact Or.inl ⟨e, rfl, rfl⟩
  · rw [h1, h2]; exact prepareK_twin afm hpq

/-- the override filter may differ between the twins only in the custom metadata (D22) -/
def GivesCustom : DFilter D → Prop
  | .override _ _ c => ∃ l, c = some l ∧ l ≠ []
  | _ => True

theorem overrideCustom_eq {fix : Bool} {c : CustomMeta} {orig : FieldMeta}
    (h : fix = true ∨ ∃ l, c = some l ∧ l ≠ []) : overrideCustom fix c orig = keepCustom c orig := by
  rcases h with rfl | ⟨l, rfl, hl⟩
  · simp [overrideCustom]
  · cases fix
    · have : l.length > 0 := by cases l <;> simp_all
      simp [overrideCustom, keepCustom, this]
    · simp [overrideCustom]

/-- one datasource-package filter vs. its report-package rendering with `single` (form B) -/
theorem applyDF_twinB (fix : Bool) (f : DFilter D) (hf : fix = true ∨ GivesCustom f) {d : DResult D} {r : RResult D}
    (hw : Wrap d r) : TwinRes (applyDF O f d) (applyRF O fix (liftFilter d.1.urn f).1 r) := by
  obtain ⟨fm, s⟩ := d
  obtain ⟨rm, rs⟩ := r
  obtain ⟨h1, h2⟩ := hw
  simp only at h1 h2; subst h1; subst h2
  cases f with
  | fval v afm =>
    simp only [applyDF, fvalF, liftFilter, applyRF, singleF]
    rcases planPrepare_twin O v afm fm with ⟨e, e1, e2⟩ | ⟨fm', fn, fn', e1, e2, hfn⟩
    · rw [e1, e2]; exact Or.inl ⟨e, rfl, rfl⟩
    · rw [e1, e2]
      refine Or.inr ⟨_, _, rfl, rfl, rfl, ?_⟩
      exact wrapStream_mapRecs s _ _ fun x => by
        simp only [wrapRec, hfn, Option.map_map]
        rfl
  | where_ v =>
    simp only [applyDF, whereDF, liftFilter, applyRF, whereRF]
    rcases planDVal_twin O fm v with ⟨e, e1, e2⟩ | ⟨p, q, e1, e2, hm, hfn⟩
    · rw [e1, e2]; exact Or.inl ⟨e, rfl, rfl⟩
    · rw [e1, e2]
      simp only [← hm]
      split
      · exact Or.inl ⟨_, rfl, rfl⟩
      · split
        · exact Or.inl ⟨_, rfl, rfl⟩
        · refine Or.inr ⟨_, _, rfl, rfl, rfl, ?_⟩
          exact wrapStream_where s _ _ fun x => by simp [wrapRec, hfn]
  | override nu nn c =>
    simp only [applyDF, overrideDF, liftFilter, applyRF, overrideRF, findField, if_true]
    have hurn : overrideUrn [fm] fm nu = .ok (nu.getD fm.urn) := by
      cases nu with
      | none => rfl
      | some u =>
        simp only [overrideUrn, hasField, any_cons, any_nil, Bool.or_false, beq_iff_eq, Option.getD_some]
        by_cases hu : u = fm.urn
        · simp [hu]
        · have : ¬ fm.urn = u := fun h => hu h.symm
          simp [hu, this]
    rw [hurn]
    simp only
    rw [overrideCustom_eq (fix := fix) (c := c) (orig := fm) (by
      rcases hf with h | h
      · exact Or.inl h
      · exact Or.inr h)]
    cases newFieldMeta (nu.getD fm.urn) fm.dt fm.required (nn.getD fm.unit) (keepCustom c fm) with
    | error e => exact Or.inl ⟨e, rfl, rfl⟩
    | ok fm' => exact Or.inr ⟨(fm', s), ([fm'], wrapStream s), rfl, rfl, rfl, rfl⟩

/-- the urn bookkeeping of `liftFilter` is the urn of the filtered result -/
theorem liftFilter_urn (f : DFilter D) {d d' : DResult D} (h : applyDF O f d = .ok d') :
    (liftFilter d.1.urn f).2 = d'.1.urn := by
  obtain ⟨fm, s⟩ := d
  cases f with
  | fval v afm =>
    simp only [applyDF, fvalF] at h
    split at h
    · simp at h
    · rename_i fm' fn hp
      simp only [Except.ok.injEq] at h; subst h
      simp only [bind, Except.bind] at hp
      split at hp
      · simp at hp
      · obtain ⟨_, hu, _⟩ := prepareK_ok hp
        simp [liftFilter, hu]
  | where_ v =>
    simp only [applyDF, whereDF] at h
    split at h
    · simp at h
    · split at h
      · simp at h
      · split at h
        · simp at h
        · simp only [Except.ok.injEq] at h; subst h; rfl
  | override nu nn c =>
    simp only [applyDF, overrideDF] at h
    split at h
    · simp at h
    · rename_i fm' hfm
      simp only [Except.ok.injEq] at h; subst h
      obtain ⟨rfl, _, _⟩ := newFieldMeta_ok hfm
      cases nu <;> rfl

/-- a whole filter chain, form B -/
theorem applyDFs_twinB (fix : Bool) : ∀ (fs : List (DFilter D)), (fix = true ∨ ∀ f ∈ fs, GivesCustom f) →
    ∀ {d : DResult D} {r : RResult D}, Wrap d r →
    TwinRes (applyDFs O fs d) (applyRFs O fix (liftFilters d.1.urn fs) r)
  | [], _, d, r, hw => Or.inr ⟨d, r, rfl, rfl, hw⟩
  | f :: fs, hfs, d, r, hw => by
    simp only [applyDFs, liftFilters, applyRFs, bind, Except.bind]
    have hf : fix = true ∨ GivesCustom f := by
      rcases hfs with h | h
      · exact Or.inl h
      · exact Or.inr (h f (by simp))
    rcases applyDF_twinB O fix f hf hw with ⟨e, e1, e2⟩ | ⟨d', r', e1, e2, hw'⟩
    · rw [e1, e2]; exact Or.inl ⟨e, rfl, rfl⟩
    · rw [e1, e2]
      simp only
      rw [liftFilter_urn O f e1]
      exact applyDFs_twinB fix fs (by
        rcases hfs with h | h
        · exact Or.inl h
        · exact Or.inr fun g hg => h g (mem_cons_of_mem _ hg)) hw'

end ShpanVerif.Proofs.Query

namespace ShpanVerif.Proofs.Query
open ShpanVerif.Model.Query ShpanVerif.Model.Query.Ref List

variable {D : Type} (O : Ops D)

theorem liftFilterC_snd (cur : String) (f : DFilter D) : (liftFilterC cur f).2 = (liftFilter cur f).2 := by
  cases f <;> rfl

/-- one datasource-package filter vs. its report-package rendering with `replace` (form C) -/
theorem applyDF_twinC (fix : Bool) (f : DFilter D) (hf : fix = true ∨ GivesCustom f) {d : DResult D} {r : RResult D}
    (hw : Wrap d r) : TwinRes (applyDF O f d) (applyRF O fix (liftFilterC d.1.urn f).1 r) := by
  cases f with
  | fval v afm =>
    obtain ⟨fm, s⟩ := d
    obtain ⟨rm, rs⟩ := r
    obtain ⟨h1, h2⟩ := hw
    simp only at h1 h2; subst h1; subst h2
    simp only [applyDF, fvalF, liftFilterC, applyRF, replaceF, findField, if_true]
    rcases planPrepare_twin O v afm fm with ⟨e, e1, e2⟩ | ⟨fm', fn, fn', e1, e2, hfn⟩
    · rw [e1, e2]; exact Or.inl ⟨e, rfl, rfl⟩
    · rw [e1, e2]
      simp only
      have hnd : ¬ (fm'.urn ≠ fm.urn ∧ hasField [fm] fm'.urn = true) := by
        rintro ⟨hne, hh⟩
        simp only [hasField, any_cons, any_nil, Bool.or_false, beq_iff_eq] at hh
        exact hne hh.symm
      rw [if_neg hnd]
      refine Or.inr ⟨_, _, rfl, rfl, rfl, ?_⟩
      exact wrapStream_mapRecs s _ _ fun x => by
        simp only [wrapRec, hfn, length_cons, length_nil, Nat.zero_add, Nat.lt_one_iff, ↓reduceIte, set_cons_zero]
        cases fn x.val <;> rfl
  | where_ v => exact applyDF_twinB O fix (.where_ v) hf hw
  | override nu nn c => exact applyDF_twinB O fix (.override nu nn c) hf hw

theorem applyDFs_twinC (fix : Bool) : ∀ (fs : List (DFilter D)), (fix = true ∨ ∀ f ∈ fs, GivesCustom f) →
    ∀ {d : DResult D} {r : RResult D}, Wrap d r →
    TwinRes (applyDFs O fs d) (applyRFs O fix (liftFiltersC d.1.urn fs) r)
  | [], _, d, r, hw => Or.inr ⟨d, r, rfl, rfl, hw⟩
  | f :: fs, hfs, d, r, hw => by
    simp only [applyDFs, liftFiltersC, applyRFs, bind, Except.bind]
    have hf : fix = true ∨ GivesCustom f := by
      rcases hfs with h | h
      · exact Or.inl h
      · exact Or.inr (h f (by simp))
    rcases applyDF_twinC O fix f hf hw with ⟨e, e1, e2⟩ | ⟨d', r', e1, e2, hw'⟩
    · rw [e1, e2]; exact Or.inl ⟨e, rfl, rfl⟩
    · rw [e1, e2]
      simp only
      rw [liftFilterC_snd, liftFilter_urn O f e1]
      exact applyDFs_twinC fix fs (by
        rcases hfs with h | h
        · exact Or.inl h
        · exact Or.inr fun g hg => h g (mem_cons_of_mem _ hg)) hw'

/-- the statically tracked urn is the urn of the filtered result -/
theorem finalUrn_eq : ∀ (fs : List (DFilter D)) {d d' : DResult D}, applyDFs O fs d = .ok d' →
    finalUrn d.1.urn fs = d'.1.urn
  | [], d, d', h => by simp only [applyDFs, Except.ok.injEq] at h; subst h; rfl
  | f :: fs, d, d', h => by
    simp only [applyDFs, bind, Except.bind] at h
    split at h
    · simp at h
    · rename_i d1 h1
      simp only [finalUrn]
      rw [liftFilter_urn O f h1]
      exact finalUrn_eq fs h

/-- to_datasource.go on the one-field view gives the datasource result back -/
theorem unwrap_wrap (s : DStream D) :
    ((wrapStream s).map fun e => e.map fun row => ({ ts := row.ts, val := (row.vals[0]?).getD .nil } : DRec D)) = s := by
  simp only [wrapStream, map_map]
  conv => rhs; rw [← map_id s]
  apply map_congr_left
  intro e _
  cases e <;> rfl

end ShpanVerif.Proofs.Query
