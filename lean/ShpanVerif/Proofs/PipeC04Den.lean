/-
C04 proof vocabulary, part 2: the *denotation* of an opened operator state.

`Den p l` — the operator object `p`, in the state it is in *after a successful Open* (and after any number
of pulls), will from now on yield exactly the elements of `l`, in order, and then `EOF` for ever.
It is a structural invariant: for every operator it says how the denotation is obtained from the
denotations of the sub streams and the operator's own mutable state (counters, buffers, look-ahead).

`StepOK r l` — what one provider call may return in a clean world for a state denoting `l`:
out of fuel, or the head of `l` and a state denoting the tail, or (for `l = []`) `EOF` and a state that
still denotes `[]` (EOF is sticky: merge re-polls exhausted inputs, zip re-pulls after a short row).
-/
import ShpanVerif.Proofs.PipeC04Base
import ShpanVerif.Props.C08

namespace ShpanVerif.Proofs.PipeC04
open ShpanVerif.Model.Pipe ShpanVerif
open ShpanVerif.Props.C08 (views view SortedInputs leOf StrictWeak Filled)

/-- a sub stream that has not been opened yet: initial state, list-level meaning `l` -/
def RE (p : Pipe) (l : List V) : Prop := Ready p ∧ Spec.eval p = some l

/-- merge's comparator as a strict order on keys: `cmp(a, b) < 0` -/
def ltK : V → V → Bool := fun a b => decide (a.key < b.key)

/-- merge: `st` pairs every look-ahead slot with what its input still holds; every input (slot then rest)
    is sorted, the denotation is the stable sort of everything that is left -/
def MergeInv (s : List (Option V)) (st : List (Model.Merge.Input V)) (l : List V) : Prop :=
  s = st.map Prod.fst ∧ SortedInputs ltK st ∧ l = (views st).mergeSort (leOf ltK)

mutual
def Den : Pipe → List V → Prop
  | .src _ xs idx, l => l = (xs.drop idx).map V.int
  | .lc _ p, l => Den p l
  | .map f p, l => ∃ l0, Den p l0 ∧ l = l0.map f.app
  | .filter g p, l => ∃ l0, Den p l0 ∧ l = l0.filter g.app
  | .limit n c p, l => (n ≤ 0 ∧ l = []) ∨ (0 < n ∧ ∃ l0, Den p l0 ∧ l = l0.take (n + 1 - c).toNat)
  | .skip n d p, l => ∃ l0, Den p l0 ∧ l = if d = true then l0 else l0.drop n
  | .concat ps next curOpen _, l =>
      (curOpen = false ∧ l = []) ∨
      (curOpen = true ∧ 0 < next ∧ ∃ l0 ls, DenAt ps (next - 1) l0 ∧ All2 RE (ps.toList.drop next) ls ∧
        l = l0 ++ ls.flatten)
  | .zip ps _, l => ∃ ls, DenList ps ls ∧ l = Spec.zipRows ls
  | .merge ps _ slots, l =>
      (ps.length = 0 ∧ l = []) ∨
      ∃ st, DenList ps (st.map Prod.snd) ∧ MergeInv (slots.getD (List.replicate ps.length none)) st l
  | .window s st o buf d _ p, l =>
      windowParamsOk s st = true ∧
        ((d = true ∧ l = []) ∨ (d = false ∧ ∃ l0, Den p l0 ∧ l = winOut s st o (buf ++ l0)))
  | .cluster k fac nxt cls last _ p, l =>
      match nxt with
      | none => l = []
      | some item =>
        cls = classify k item ∧ ∃ l0, Den p l0 ∧ Spec.sortedBy (classify k) (item :: l0) = true ∧
          l = Spec.clusterOut k fac last (Spec.runs k (item :: l0))
def DenList : PipeList → List (List V) → Prop
  | .nil, ls => ls = []
  | .cons p ps, ls => ∃ l ls', ls = l :: ls' ∧ Den p l ∧ DenList ps ls'
def DenAt : PipeList → Nat → List V → Prop
  | .nil, _, _ => False
  | .cons p _, 0, l => Den p l
  | .cons _ ps, i+1, l => DenAt ps i l
end

theorem denList_iff : ∀ (ps : PipeList) (ls : List (List V)), DenList ps ls ↔ All2 Den ps.toList ls
  | .nil, ls => by
    simp only [DenList, PipeList.toList]
    constructor
    · rintro rfl; exact All2.nil
    · exact All2.nil_left
  | .cons p ps, ls => by
    simp only [DenList, PipeList.toList]
    constructor
    · rintro ⟨l, ls', rfl, h1, h2⟩
      exact All2.cons_iff.mpr ⟨h1, (denList_iff ps ls').mp h2⟩
    · intro h
      cases ls with
      | nil => have := h.1; simp at this
      | cons l ls' =>
        have := All2.cons_iff.mp h
        exact ⟨l, ls', rfl, this.1, (denList_iff ps ls').mpr this.2⟩

theorem denAt_iff : ∀ (ps : PipeList) (i : Nat) (l : List V),
    DenAt ps i l ↔ ∃ p, ps.get? i = some p ∧ Den p l
  | .nil, _, _ => by simp [DenAt, PipeList.get?]
  | .cons p _, 0, l => by simp [DenAt, PipeList.get?]
  | .cons _ ps, i+1, l => by simp only [DenAt, PipeList.get?]; exact denAt_iff ps i l

/-- result of one provider call on a state denoting `l`, in a clean world -/
def StepOK (r : Res V × Pipe × World) (l : List V) : Prop :=
  match r with
  | (.oof, _, _) => True
  | (.eof, p', w') => l = [] ∧ w'.Clean ∧ Den p' []
  | (.val x, p', w') => ∃ xs, l = x :: xs ∧ w'.Clean ∧ Den p' xs
  | (.fail _, _, _) => False
  | (.panic _, _, _) => False

/-- result of Open on a ready sub stream with list-level meaning `l`, in a clean world -/
def OpenStepOK (r : Res Unit × Pipe × World) (l : List V) : Prop :=
  match r with
  | (.oof, _, _) => True
  | (.val _, p', w') => w'.Clean ∧ Den p' l
  | (.eof, _, _) => False
  | (.fail _, _, _) => False
  | (.panic _, _, _) => False

def EmitOK (fuel : Nat) : Prop := ∀ p l w, Den p l → w.Clean → StepOK (emitP fuel p w) l
def OpenOK (fuel : Nat) : Prop := ∀ p l w, RE p l → w.Clean → OpenStepOK (openP fuel p w) l

/-- everything below `F` is known -/
def Below (F : Nat) : Prop := ∀ f, f < F → EmitOK f ∧ OpenOK f

theorem Below.mono {F G : Nat} (h : Below F) (hle : G ≤ F) : Below G :=
  fun f hf => h f (Nat.lt_of_lt_of_le hf hle)

theorem emitOK_zero : EmitOK 0 := by
  intro p l w _ _; rw [emitP]; trivial

theorem openOK_zero : OpenOK 0 := by
  intro p l w _ _; rw [openP]; trivial

/-! ### the operators without sub-loops -/

theorem emit_src {fuel : Nat} (r : Nat) (xs : List Int) (idx : Nat) (l : List V) (w : World)
    (hd : Den (.src r xs idx) l) (hw : w.Clean) : StepOK (emitP (fuel+1) (.src r xs idx) w) l := by
  rw [Den] at hd
  rw [emitP]
  obtain ⟨w', he, hc⟩ := emitRes_clean r hw
  rw [he]
  simp only
  cases hx : xs[idx]? with
  | none =>
    simp only [StepOK]
    have : xs.drop idx = [] := by
      rw [List.drop_eq_nil_iff]; exact List.getElem?_eq_none_iff.mp hx
    refine ⟨by rw [hd, this]; rfl, hc, ?_⟩
    rw [Den, this]; rfl
  | some x =>
    simp only [StepOK]
    have hlt : idx < xs.length := (List.getElem?_eq_some_iff.mp hx).1
    have : xs.drop idx = x :: xs.drop (idx+1) := by
      rw [List.drop_eq_getElem_cons hlt]
      congr 1
      exact (List.getElem?_eq_some_iff.mp hx).2
    refine ⟨(xs.drop (idx+1)).map V.int, by rw [hd, this]; rfl, hc, ?_⟩
    rw [Den]

theorem emit_lc {fuel : Nat} (ih : EmitOK fuel) (r : Nat) (p : Pipe) (l : List V) (w : World)
    (hd : Den (.lc r p) l) (hw : w.Clean) : StepOK (emitP (fuel+1) (.lc r p) w) l := by
  rw [Den] at hd
  have h := ih p l w hd hw
  rw [emitP]
  rcases he : emitP fuel p w with ⟨res, p', w'⟩
  rw [he] at h
  cases res <;> simp only [StepOK] at h ⊢
  · obtain ⟨xs, h1, h2, h3⟩ := h
    exact ⟨xs, h1, h2, by rw [Den]; exact h3⟩
  · exact ⟨h.1, h.2.1, by rw [Den]; exact h.2.2⟩

theorem emit_map {fuel : Nat} (ih : EmitOK fuel) (f : Fn) (p : Pipe) (l : List V) (w : World)
    (hd : Den (.map f p) l) (hw : w.Clean) : StepOK (emitP (fuel+1) (.map f p) w) l := by
  rw [Den] at hd
  obtain ⟨l0, hd0, rfl⟩ := hd
  have h := ih p l0 w hd0 hw
  rw [emitP]
  rcases he : emitP fuel p w with ⟨res, p', w'⟩
  rw [he] at h
  cases res <;> simp only [StepOK] at h ⊢
  · obtain ⟨xs, rfl, h2, h3⟩ := h
    obtain ⟨w'', hu, hc⟩ := userCall_clean h2
    rw [hu]
    exact ⟨xs.map f.app, rfl, hc, by rw [Den]; exact ⟨xs, h3, rfl⟩⟩
  · obtain ⟨rfl, h2, h3⟩ := h
    exact ⟨rfl, h2, by rw [Den]; exact ⟨[], h3, rfl⟩⟩

theorem emit_filter {fuel : Nat} (ih : EmitOK fuel) (g : Pred) (p : Pipe) (l : List V) (w : World)
    (hd : Den (.filter g p) l) (hw : w.Clean) : StepOK (emitP (fuel+1) (.filter g p) w) l := by
  rw [Den] at hd
  obtain ⟨l0, hd0, rfl⟩ := hd
  have h := ih p l0 w hd0 hw
  rw [emitP]
  rcases he : emitP fuel p w with ⟨res, p', w'⟩
  rw [he] at h
  cases res <;> simp only [StepOK] at h ⊢
  · obtain ⟨xs, rfl, h2, h3⟩ := h
    obtain ⟨w'', hu, hc⟩ := userCall_clean h2
    rw [hu]
    simp only
    rename_i x
    by_cases hg : g.app x = true
    · rw [if_pos hg]
      simp only
      exact ⟨xs.filter g.app, by simp [hg], hc, by rw [Den]; exact ⟨xs, h3, rfl⟩⟩
    · rw [if_neg hg]
      have : List.filter g.app (x :: xs) = xs.filter g.app := by simp [hg]
      rw [this]
      exact ih _ _ _ (by rw [Den]; exact ⟨xs, h3, rfl⟩) hc
  · obtain ⟨rfl, h2, h3⟩ := h
    exact ⟨rfl, h2, by rw [Den]; exact ⟨[], h3, rfl⟩⟩

theorem emit_limit {fuel : Nat} (ih : EmitOK fuel) (n c : Int) (p : Pipe) (l : List V) (w : World)
    (hd : Den (.limit n c p) l) (hw : w.Clean) : StepOK (emitP (fuel+1) (.limit n c p) w) l := by
  rw [emitP]
  rw [Den] at hd
  rcases hd with ⟨hn, rfl⟩ | ⟨hn, l0, hd0, rfl⟩
  · rw [if_pos hn]
    exact ⟨rfl, hw, by rw [Den]; exact Or.inl ⟨hn, rfl⟩⟩
  · rw [if_neg (by omega)]
    by_cases hc : c > n
    · rw [if_pos hc]
      have : (n + 1 - c).toNat = 0 := by omega
      simp only [StepOK, this, List.take_zero, true_and]
      exact ⟨hw, by rw [Den]; exact Or.inr ⟨hn, l0, hd0, by rw [this]; rfl⟩⟩
    · rw [if_neg hc]
      have h := ih p l0 w hd0 hw
      rcases he : emitP fuel p w with ⟨res, p', w'⟩
      rw [he] at h
      cases res <;> simp only [StepOK] at h ⊢
      · obtain ⟨xs, rfl, h2, h3⟩ := h
        have e : (n + 1 - c).toNat = (n + 1 - (c + 1)).toNat + 1 := by omega
        refine ⟨xs.take (n + 1 - (c + 1)).toNat, by rw [e]; rfl, h2, ?_⟩
        rw [Den]; exact Or.inr ⟨hn, xs, h3, rfl⟩
      · obtain ⟨rfl, h2, h3⟩ := h
        refine ⟨by simp, h2, ?_⟩
        rw [Den]; exact Or.inr ⟨hn, [], h3, by simp⟩

end ShpanVerif.Proofs.PipeC04
