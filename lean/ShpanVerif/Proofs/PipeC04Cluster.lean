/-
C04 proofs, part 5: ClusterSortedStream.

The operator keeps a look-ahead item `nxt`; together with what the source still holds (`l0`) it stands for
the remaining source `S = nxt.toList ++ l0`.  One emit = the factory's nested partial read (`clusterRead`:
takes `takeWant want (S.takeWhile inCls)`), then the skip loop (`clusterSkipLoop`: drops the rest of the
run), which leaves the look-ahead on the first element of the next run and `last` on the true last element
of the finished run — independent of how much the factory read.
-/
import ShpanVerif.Proofs.PipeC04Ops

namespace ShpanVerif.Proofs.PipeC04
open ShpanVerif.Model.Pipe ShpanVerif

/-- membership in the current cluster -/
def inCls (k cls : Int) : V → Bool := fun b => classify k b == cls

/-- what a nested terminal that wants `want` elements takes from the cluster `x` -/
def takeWant (want : Option Nat) (x : List V) : List V :=
  match want with
  | some n => x.take n
  | none => x

theorem takeWant_length_le (want : Option Nat) (x : List V) : (takeWant want x).length ≤ x.length := by
  cases want <;> simp [takeWant]
  omega

theorem takeWant_cons (want : Option Nat) (hw : want ≠ some 0) (a : V) (x : List V) :
    takeWant want (a :: x) = a :: takeWant (want.map (· - 1)) x := by
  cases want with
  | none => rfl
  | some n =>
    cases n with
    | zero => exact absurd rfl hw
    | succ n => simp [takeWant]

theorem takeWant_eq_take (want : Option Nat) (x : List V) :
    takeWant want x = x.take (takeWant want x).length := by
  cases want with
  | none => simp [takeWant]
  | some n =>
    simp only [takeWant, List.length_take]
    rw [List.take_eq_take_iff.mpr]
    omega

/-! ### the factory's nested read -/

def ReadOK (r : Res (List V) × Option V × Option V × Pipe × World) (k cls : Int) (want : Option Nat)
    (acc : List V) (S : List V) (last : Option V) : Prop :=
  match r with
  | (.oof, _, _, _, _) => True
  | (.val acc', nxt', last', p', w') => w'.Clean ∧
      acc' = (takeWant want (S.takeWhile (inCls k cls))).reverse ++ acc ∧
      last' = (takeWant want (S.takeWhile (inCls k cls))).getLast?.or last ∧
      ∃ l0', Den p' l0' ∧ nxt'.toList ++ l0' = S.drop (takeWant want (S.takeWhile (inCls k cls))).length ∧
        (nxt' = none → l0' = [])
  | (.eof, _, _, _, _) => False
  | (.fail _, _, _, _, _) => False
  | (.panic _, _, _, _, _) => False

theorem readOK_nothing (k cls : Int) (want : Option Nat) (acc : List V) (nxt last : Option V) (p : Pipe)
    (l0 : List V) (w : World) (hd : Den p l0) (hn : nxt = none → l0 = []) (hw : w.Clean)
    (h : takeWant want ((nxt.toList ++ l0).takeWhile (inCls k cls)) = []) :
    ReadOK (.val acc, nxt, last, p, w) k cls want acc (nxt.toList ++ l0) last := by
  simp only [ReadOK, h]
  exact ⟨hw, rfl, rfl, l0, hd, rfl, hn⟩

theorem clusterRead_ok {F : Nat} (hB : Below F) (k cls : Int) : ∀ fuel, fuel ≤ F →
    ∀ (want : Option Nat) (acc : List V) (nxt last : Option V) (p : Pipe) (l0 : List V) (w : World),
      Den p l0 → (nxt = none → l0 = []) → w.Clean →
      ReadOK (clusterRead fuel k cls want acc nxt last p w) k cls want acc (nxt.toList ++ l0) last
  | 0, _, _, _, _, _, _, _, _, _, _, _ => by rw [clusterRead]; trivial
  | fuel+1, hf, want, acc, nxt, last, p, l0, w, hd, hn, hw => by
    unfold clusterRead
    split
    · -- want = some 0
      rw [if_neg (not_cancelled hw)]
      exact readOK_nothing k cls (some 0) acc nxt last p l0 w hd hn hw (by simp [takeWant])
    · rename_i hw0
      have hw0' : want ≠ some 0 := fun h => hw0 h
      rw [if_neg (not_cancelled hw)]
      cases nxt with
      | none =>
        simp only
        have := hn rfl; subst this
        exact readOK_nothing k cls want acc none last p [] w hd hn hw (by cases want <;> simp [takeWant])
      | some item =>
        simp only
        by_cases hc : classify k item = cls
        · have hc1 : (classify k item != cls) = false := by simp [hc]
          rw [hc1]
          simp only [Bool.false_eq_true, if_false]
          have hin : inCls k cls item = true := by simp [inCls, hc]
          have h := (hB fuel (by omega)).1 p l0 w hd hw
          rcases he : emitP fuel p w with ⟨res, p', w'⟩
          rw [he] at h
          have key : ∀ (nxt1 : Option V) (l1 : List V) (p1 : Pipe) (w1 : World), Den p1 l1 → (nxt1 = none → l1 = []) →
              w1.Clean → nxt1.toList ++ l1 = l0 →
              ReadOK (clusterRead fuel k cls (want.map (· - 1)) (item :: acc) nxt1 (some item) p1 w1)
                k cls want acc ((some item).toList ++ l0) last := by
            intro nxt1 l1 p1 w1 hd1 hn1 hw1 hS
            have ih := clusterRead_ok hB k cls fuel (by omega) (want.map (· - 1)) (item :: acc) nxt1 (some item)
              p1 l1 w1 hd1 hn1 hw1
            rcases hr : clusterRead fuel k cls (want.map (· - 1)) (item :: acc) nxt1 (some item) p1 w1 with
              ⟨res2, nxt2, last2, p2, w2⟩
            rw [hr] at ih
            rw [hS] at ih
            have htw : takeWant want (((some item).toList ++ l0).takeWhile (inCls k cls)) =
                item :: takeWant (want.map (· - 1)) (l0.takeWhile (inCls k cls)) := by
              simp only [Option.toList_some, List.singleton_append, List.takeWhile_cons, hin, if_true]
              exact takeWant_cons want hw0' _ _
            cases res2 <;> simp only [ReadOK] at ih ⊢
            obtain ⟨hc2, hacc, hlast, l0', hd2, hS2, hn2⟩ := ih
            rw [htw]
            refine ⟨hc2, ?_, ?_, l0', hd2, ?_, hn2⟩
            · rw [hacc]; simp
            · rw [hlast, List.getLast?_cons]
              cases (takeWant (want.map (· - 1)) (l0.takeWhile (inCls k cls))).getLast? <;> simp
            · rw [hS2]; simp
          cases res <;> simp only [StepOK, ReadOK] at h ⊢
          · rename_i v
            obtain ⟨xs, rfl, h2, h3⟩ := h
            exact key (some v) xs p' w' h3 (by simp) h2 rfl
          · obtain ⟨rfl, h2, h3⟩ := h
            exact key none [] p' w' h3 (fun _ => rfl) h2 rfl
        · have hc1 : (classify k item != cls) = true := by simp [hc]
          rw [hc1]
          simp only [if_true]
          have hin : inCls k cls item = false := by simp [inCls, hc]
          exact readOK_nothing k cls want acc (some item) last p l0 w hd hn hw
            (by simp [hin]; cases want <;> simp [takeWant])

/-! ### skipping the rest of the run -/

def SkipLoopOK (r : Res Int × Option V × Option V × Pipe × World) (k cls : Int) (S : List V) (last : Option V) : Prop :=
  match r with
  | (.oof, _, _, _, _) => True
  | (.val cls', nxt', last', p', w') => w'.Clean ∧
      (∀ it, nxt' = some it → cls' = classify k it) ∧
      (nxt' ≠ none → last' = (S.takeWhile (inCls k cls)).getLast?.or last) ∧
      ∃ l0', Den p' l0' ∧ nxt'.toList ++ l0' = S.dropWhile (inCls k cls) ∧ (nxt' = none → l0' = [])
  | (.eof, _, _, _, _) => False
  | (.fail _, _, _, _, _) => False
  | (.panic _, _, _, _, _) => False

theorem clusterSkipLoop_ok {F : Nat} (hB : Below F) (k cls : Int) : ∀ fuel, fuel ≤ F →
    ∀ (nextCls : Int) (nxt last : Option V) (p : Pipe) (l0 : List V) (w : World),
      Den p l0 → (nxt = none → l0 = []) → (∀ it, nxt = some it → nextCls = classify k it) →
      (∀ b ∈ nxt.toList ++ l0, cls ≤ classify k b) → w.Clean →
      SkipLoopOK (clusterSkipLoop fuel k cls nextCls nxt last p w) k cls (nxt.toList ++ l0) last
  | 0, _, _, _, _, _, _, _, _, _, _, _, _ => by rw [clusterSkipLoop]; trivial
  | fuel+1, hf, nextCls, nxt, last, p, l0, w, hd, hn, hcl, hsorted, hw => by
    unfold clusterSkipLoop
    cases nxt with
    | none =>
      have := hn rfl; subst this
      simp only [SkipLoopOK]
      exact ⟨hw, by simp, by simp, [], hd, by simp, fun _ => rfl⟩
    | some item =>
      simp only
      have hnc := hcl item rfl
      by_cases hc : classify k item = cls
      · have hc1 : (nextCls != cls) = false := by simp [hnc, hc]
        rw [hc1]
        simp only [Bool.false_eq_true, if_false]
        have hin : inCls k cls item = true := by simp [inCls, hc]
        have h := (hB fuel (by omega)).1 p l0 w hd hw
        rcases he : emitP fuel p w with ⟨res, p', w'⟩
        rw [he] at h
        cases res <;> simp only [StepOK, SkipLoopOK] at h ⊢
        · rename_i v
          obtain ⟨xs, rfl, h2, h3⟩ := h
          have hv : cls ≤ classify k v := hsorted v (by simp)
          rw [if_neg (by omega)]
          have ih := clusterSkipLoop_ok hB k cls fuel (by omega) (classify k v) (some v) (some item) p' xs w'
            h3 (by simp) (by intro it hit; cases hit; rfl)
            (by intro b hb; exact hsorted b (by simp at hb ⊢; right; exact hb)) h2
          rcases hr : clusterSkipLoop fuel k cls (classify k v) (some v) (some item) p' w' with
            ⟨res2, nxt2, last2, p2, w2⟩
          rw [hr] at ih
          cases res2 <;> simp only [SkipLoopOK] at ih ⊢
          obtain ⟨hc2, hcl2, hlast, l0', hd2, hS2, hn2⟩ := ih
          refine ⟨hc2, hcl2, ?_, l0', hd2, ?_, hn2⟩
          · intro hne
            rw [hlast hne]
            simp only [Option.toList_some, List.singleton_append]
            rw [List.takeWhile_cons (a := item), if_pos hin, List.getLast?_cons]
            cases (List.takeWhile (inCls k cls) (v :: xs)).getLast? <;> simp
          · rw [hS2]
            simp only [Option.toList_some, List.singleton_append]
            rw [List.dropWhile_cons (x := item), if_pos hin]
        · obtain ⟨rfl, h2, h3⟩ := h
          refine ⟨h2, by simp, by simp, [], h3, ?_, fun _ => rfl⟩
          simp [hin]
      · have hc1 : (nextCls != cls) = true := by simp [hnc, hc]
        rw [hc1]
        simp only [if_true, SkipLoopOK]
        have hin : inCls k cls item = false := by simp [inCls, hc]
        refine ⟨hw, ?_, ?_, l0, hd, ?_, hn⟩
        · intro it hit; cases hit; exact hnc
        · intro _; simp [hin]
        · simp [hin]

theorem clusterSkip_ok {F : Nat} (hB : Below F) (k cls : Int) : ∀ fuel, fuel ≤ F →
    ∀ (nxt last : Option V) (p : Pipe) (l0 : List V) (w : World),
      Den p l0 → (nxt = none → l0 = []) → (∀ b ∈ nxt.toList ++ l0, cls ≤ classify k b) → w.Clean →
      SkipLoopOK (clusterSkip fuel k cls nxt last p w) k cls (nxt.toList ++ l0) last
  | 0, _, _, _, _, _, _, _, _, _, _ => by rw [clusterSkip]; trivial
  | fuel+1, hf, nxt, last, p, l0, w, hd, hn, hsorted, hw => by
    unfold clusterSkip
    cases nxt with
    | none =>
      have := hn rfl; subst this
      simp only [SkipLoopOK]
      exact ⟨hw, by simp, by simp, [], hd, by simp, fun _ => rfl⟩
    | some item =>
      simp only
      exact clusterSkipLoop_ok hB k cls fuel (by omega) (classify k item) (some item) last p l0 w hd hn
        (by intro it hit; cases hit; rfl) hsorted hw

/-! ### list facts for the composition of read and skip -/

theorem dropWhile_dropWhile (q : V → Bool) : ∀ (l : List V), (l.dropWhile q).dropWhile q = l.dropWhile q
  | [] => rfl
  | a :: l => by
    by_cases h : q a = true
    · simp only [List.dropWhile_cons, h, if_true]; exact dropWhile_dropWhile q l
    · simp [h]

theorem takeWhile_dropWhile (q : V → Bool) : ∀ (l : List V), (l.dropWhile q).takeWhile q = []
  | [] => rfl
  | a :: l => by
    by_cases h : q a = true
    · simp only [List.dropWhile_cons, h, if_true]; exact takeWhile_dropWhile q l
    · simp [h]

theorem mem_takeWhile_pos (q : V → Bool) : ∀ (l : List V) (a : V), a ∈ l.takeWhile q → q a = true
  | [], a, h => by simp at h
  | b :: l, a, h => by
    rw [List.takeWhile_cons] at h
    split at h
    · rcases List.mem_cons.mp h with rfl | h'
      · assumption
      · exact mem_takeWhile_pos q l a h'
    · simp at h

/-- after taking `n` elements of the run, what is left of the source: the rest of the run, then the other runs -/
theorem drop_split (q : V → Bool) (S : List V) (n : Nat) (hn : n ≤ (S.takeWhile q).length) :
    S.drop n = (S.takeWhile q).drop n ++ S.dropWhile q := by
  conv => lhs; rw [← List.takeWhile_append_dropWhile (p := q) (l := S)]
  exact List.drop_append_of_le_length hn

theorem dropWhile_drop (q : V → Bool) (S : List V) (n : Nat) (hn : n ≤ (S.takeWhile q).length) :
    (S.drop n).dropWhile q = S.dropWhile q := by
  rw [drop_split q S n hn, List.dropWhile_append_of_pos, dropWhile_dropWhile]
  intro a ha; exact mem_takeWhile_pos q S a (List.mem_of_mem_drop ha)

theorem takeWhile_drop (q : V → Bool) (S : List V) (n : Nat) (hn : n ≤ (S.takeWhile q).length) :
    (S.drop n).takeWhile q = (S.takeWhile q).drop n := by
  rw [drop_split q S n hn, List.takeWhile_append_of_pos, takeWhile_dropWhile, List.append_nil]
  intro a ha; exact mem_takeWhile_pos q S a (List.mem_of_mem_drop ha)

theorem getLast?_split (g : List V) (n : Nat) (last : Option V) (hg : g ≠ []) :
    (g.drop n).getLast?.or ((g.take n).getLast?.or last) = g.getLast? := by
  have h := List.getLast?_append (l := g.take n) (l' := g.drop n)
  rw [List.take_append_drop] at h
  obtain ⟨x, hx⟩ : ∃ x, g.getLast? = some x := by
    cases hgl : g.getLast? with
    | none => exact absurd (List.getLast?_eq_none_iff.mp hgl) hg
    | some x => exact ⟨x, rfl⟩
  rw [hx] at h ⊢
  cases h1 : (g.drop n).getLast? with
  | some y => rw [h1] at h; simpa using h.symm
  | none =>
    rw [h1] at h
    simp only [Option.none_or] at h ⊢
    rw [← h]; simp

theorem getLast?_takeWant (want : Option Nat) (g : List V) (last : Option V) (hg : g ≠ []) :
    (g.drop (takeWant want g).length).getLast?.or ((takeWant want g).getLast?.or last) = g.getLast? := by
  have h := takeWant_eq_take want g
  generalize (takeWant want g).length = m at h ⊢
  rw [h]
  exact getLast?_split g m last hg

theorem sortedBy_dropWhile (f : V → Int) (q : V → Bool) : ∀ (l : List V), Spec.sortedBy f l = true →
    Spec.sortedBy f (l.dropWhile q) = true
  | [], _ => rfl
  | a :: l, h => by
    have h' := (sortedBy_cons f a l).mp h
    by_cases hq : q a = true
    · simp only [List.dropWhile_cons, hq, if_true]; exact sortedBy_dropWhile f q l h'.2
    · simp only [List.dropWhile_cons, hq]; exact h

/-! ### one emit -/

theorem clusterOut_cons (k : Int) (fac : Fac) (prev : Option V) (item : V) (g : List V) (gs : List (List V)) :
    Spec.clusterOut k fac prev ((item :: g) :: gs) =
      facResult fac (classify k item) (takeWant (facWant fac) (item :: g)) prev ::
        Spec.clusterOut k fac (item :: g).getLast? gs := by
  simp only [Spec.clusterOut, takeWant]
  rfl

theorem emit_cluster {fuel : Nat} (hB : Below (fuel+1)) (k : Int) (fac : Fac) (nxt : Option V) (cls : Int)
    (last : Option V) (so : Bool) (p : Pipe) (l : List V) (w : World)
    (hd : Den (.cluster k fac nxt cls last so p) l) (hw : w.Clean) :
    StepOK (emitP (fuel+1) (.cluster k fac nxt cls last so p) w) l := by
  have hB' : Below fuel := hB.mono (Nat.le_succ _)
  cases nxt with
  | none =>
    rw [Den] at hd
    rw [emitP]
    exact ⟨hd, hw, by rw [Den]⟩
  | some item =>
    rw [Den] at hd
    obtain ⟨rfl, l0, hd0, hsorted, rfl⟩ := hd
    rw [emitP]
    obtain ⟨w1, hu, hc1⟩ := userCall_clean hw
    rw [hu]
    simp only
    -- abbreviations
    have hcons := (sortedBy_cons (classify k) item l0).mp hsorted
    have hinI : inCls k (classify k item) item = true := by simp [inCls]
    have hS : (some item).toList ++ l0 = item :: l0 := rfl
    have hg : (item :: l0).takeWhile (inCls k (classify k item)) =
        item :: l0.takeWhile (inCls k (classify k item)) := by
      rw [List.takeWhile_cons, if_pos hinI]
    have hrest : (item :: l0).dropWhile (inCls k (classify k item)) =
        l0.dropWhile (inCls k (classify k item)) := by
      rw [List.dropWhile_cons, if_pos hinI]
    -- the factory's read
    have hread : ReadOK (if fac = Fac.none then (Res.val [], some item, last, p, w1)
        else clusterRead fuel k (classify k item) (facWant fac) [] (some item) last p w1)
        k (classify k item) (facWant fac) [] ((some item).toList ++ l0) last := by
      by_cases hf : fac = Fac.none
      · rw [if_pos hf]; subst hf
        exact readOK_nothing k _ _ [] (some item) last p l0 w1 hd0 (by simp) hc1 (by simp [facWant, takeWant])
      · rw [if_neg hf]
        exact clusterRead_ok hB' k _ fuel (Nat.le_refl _) _ [] (some item) last p l0 w1 hd0 (by simp) hc1
    rcases hr : (if fac = Fac.none then (Res.val [], some item, last, p, w1)
        else clusterRead fuel k (classify k item) (facWant fac) [] (some item) last p w1) with
      ⟨res, nxt1, last1, p1, w2⟩
    rw [hr] at hread
    cases res <;> simp only [ReadOK, StepOK] at hread ⊢
    obtain ⟨hc2, hacc, hlast1, l1, hd1, hS1, hn1⟩ := hread
    rw [hS, hg] at hacc hlast1 hS1
    -- the skip
    have hnle : (takeWant (facWant fac) (item :: l0.takeWhile (inCls k (classify k item)))).length ≤
        ((item :: l0).takeWhile (inCls k (classify k item))).length := by
      rw [hg]; exact takeWant_length_le _ _
    have hsorted1 : ∀ b ∈ nxt1.toList ++ l1, classify k item ≤ classify k b := by
      intro b hb
      rw [hS1] at hb
      have := List.mem_of_mem_drop hb
      rcases List.mem_cons.mp this with rfl | hb'
      · exact Int.le_refl _
      · exact hcons.1 b hb'
    have hskip := clusterSkip_ok hB' k (classify k item) fuel (Nat.le_refl _) nxt1 last1 p1 l1 w2 hd1 hn1 hsorted1 hc2
    rcases hsk : clusterSkip fuel k (classify k item) nxt1 last1 p1 w2 with ⟨res2, nxt2, last2, p2, w3⟩
    rw [hsk] at hskip
    cases res2 <;> simp only [SkipLoopOK] at hskip ⊢
    obtain ⟨hc3, hcl2, hlast2, l2, hd2, hS2, hn2⟩ := hskip
    rw [hS1, dropWhile_drop _ _ _ hnle, hrest] at hS2
    rw [hS1, takeWhile_drop _ _ _ hnle, hg] at hlast2
    have hruns : Spec.runs k (item :: l0) = (item :: l0.takeWhile (inCls k (classify k item))) ::
        Spec.runs k (l0.dropWhile (inCls k (classify k item))) := runs_cons k item l0
    rw [hruns, clusterOut_cons]
    refine ⟨Spec.clusterOut k fac (item :: l0.takeWhile (inCls k (classify k item))).getLast?
      (Spec.runs k (l0.dropWhile (inCls k (classify k item)))), ?_, hc3, ?_⟩
    · congr 1
      rw [hacc]; simp
    · cases nxt2 with
      | none =>
        rw [Den]
        have : l0.dropWhile (inCls k (classify k item)) = [] := by rw [← hS2, hn2 rfl]; rfl
        show Spec.clusterOut k fac _ (Spec.runs k (l0.dropWhile (inCls k (classify k item)))) = []
        rw [this]; rfl
      | some it =>
        rw [Den]
        have hrest2 : l0.dropWhile (inCls k (classify k item)) = it :: l2 := by rw [← hS2]; rfl
        refine ⟨hcl2 it rfl, l2, hd2, ?_, ?_⟩
        · rw [← hrest2]; exact sortedBy_dropWhile _ _ l0 hcons.2
        · show Spec.clusterOut k fac _ (Spec.runs k (l0.dropWhile (inCls k (classify k item)))) = _
          rw [hrest2, hlast2 (by simp), hlast1]
          congr 1
          exact (getLast?_takeWant _ _ last (by simp)).symm

end ShpanVerif.Proofs.PipeC04
