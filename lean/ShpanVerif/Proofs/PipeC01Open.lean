/-
C01, part 3b: induction step for `openP` / `openList` (doOpenStream with roll-back):
from a closed pipeline, success leaves it opened (`Op`), failure or panic — at any element, at any depth —
leaves it closed again (`Cl`): whatever was opened before the failing element has been closed.
-/
import ShpanVerif.Proofs.PipeC01Spec

namespace ShpanVerif.Proofs.PipeC01
open ShpanVerif.Model.Pipe

/-! ### composing specs with a preceding step -/

theorem OpenOK.after {p p1 : Pipe} {w w1 : World} {x : Res Unit × Pipe × World}
    (hid : ids p1 = ids p) (hk : Keep (ids p) w w1) (h : OpenOK p1 w1 x) : OpenOK p w x := by
  intro hx
  obtain ⟨a, b, c⟩ := h hx
  exact ⟨a.trans hid, hk.trans (hid ▸ b), c⟩

theorem OpenLOK.after {ps ps1 : PipeList} {w w1 : World} {x : Res Unit × PipeList × World}
    (hid : idsList ps1 = idsList ps) (hlen : ps1.length = ps.length) (hk : Keep (idsList ps) w w1)
    (h : OpenLOK ps1 w1 x) : OpenLOK ps w x := by
  intro hx
  obtain ⟨a, l, b, c⟩ := h hx
  exact ⟨a.trans hid, l.trans hlen, hk.trans (hid ▸ b), c⟩

theorem EmitOK.after {α : Type} {p p1 : Pipe} {w w1 : World} {x : Res α × Pipe × World}
    (hid : ids p1 = ids p) (hk : Keep (ids p) w w1) (h : EmitOK p1 w1 x) : EmitOK p w x := by
  intro hx
  obtain ⟨a, b, c⟩ := h hx
  exact ⟨a.trans hid, hk.trans (hid ▸ b), c⟩

theorem EmitLOK.after {α : Type} {ps ps1 : PipeList} {w w1 : World} {x : Res α × PipeList × World}
    (hid : idsList ps1 = idsList ps) (hlen : ps1.length = ps.length) (hk : Keep (idsList ps) w w1)
    (h : EmitLOK ps1 w1 x) : EmitLOK ps w x := by
  intro hx
  obtain ⟨a, l, b, c⟩ := h hx
  exact ⟨a.trans hid, l.trans hlen, hk.trans (hid ▸ b), c⟩

theorem get?_some_lt : ∀ (ps : PipeList) (i : Nat) (p : Pipe), ps.get? i = some p → i < ps.length
  | .nil, _, _, h => by simp [PipeList.get?] at h
  | .cons _ _, 0, _, _ => by simp [PipeList.length]
  | .cons _ ps, i+1, p, h => by
    simp only [PipeList.get?] at h
    have := get?_some_lt ps i p h
    simp only [PipeList.length]; omega

theorem Cl_lc {r : Nat} {p : Pipe} {o : Nat → Bool} (h : Cl p o) (hr : o r = false) : Cl (.lc r p) o := by
  refine ⟨h.1, fun x hx => ?_⟩
  simp only [ids, List.mem_append, List.mem_singleton] at hx
  rcases hx with hx | rfl
  · exact h.2 x hx
  · exact hr

theorem St_of_ClL {ps : PipeList} {o : Nat → Bool} (h : ClL ps o) : St ps (fun _ => false) o :=
  (St_false ps (fun _ _ => rfl)).mpr h

/-! ### `openP`, constructor by constructor -/

theorem open_src (fuel r xs idx) (w : World) (hcl : Cl (.src r xs idx) w.isOpen) (hb : w.bad = false) :
    OpenOK (.src r xs idx) w (openP (fuel+1) (.src r xs idx) w) := by
  have ho : w.isOpen r = false := hcl.2 r (by simp [ids])
  have hk := openRes_keep (l := ids (.src r xs idx)) hb ho (by simp [ids])
  have hc := openRes_cases r w
  rw [openP]
  generalize openRes r w = x at hk hc
  obtain ⟨res, w1⟩ := x
  simp only at hk hc
  rcases hc with ⟨h1, h2, _⟩ | ⟨h1, h2, _⟩
  · subst h1; intro _
    refine ⟨rfl, hk, ?_⟩
    simp [Res.isVal, Op, h2, upd]
  · rcases h1 with ⟨e, rfl⟩ | ⟨b, rfl⟩ <;>
    · intro _
      refine ⟨rfl, hk, ?_⟩
      simp only [Res.isVal, Bool.false_eq_true, if_false]
      exact ⟨trivial, fun x hx => by rw [h2]; exact hcl.2 x hx⟩

theorem open_lc {fuel : Nat} (ih : AllSpec fuel) (r p) (w : World) (hcl : Cl (.lc r p) w.isOpen)
    (hn : (ids (.lc r p)).Nodup) (hb : w.bad = false) :
    OpenOK (.lc r p) w (openP (fuel+1) (.lc r p) w) := by
  have hclp : Cl p w.isOpen := ⟨hcl.1, fun x hx => hcl.2 x (by simp [ids, hx])⟩
  have hor : w.isOpen r = false := hcl.2 r (by simp [ids])
  simp only [ids] at hn
  obtain ⟨hnp, _, hdis⟩ := List.nodup_append.mp hn
  have hr : r ∉ ids p := fun h => hdis r h r (by simp) rfl
  have h1 := ih.openP p w hclp hnp hb
  rw [openP]
  generalize Model.Pipe.openP fuel p w = x at h1
  obtain ⟨res, p1, w1⟩ := x
  have hrest : ∀ res' : Res Unit, res'.isVal = false → OpenOK p w (res', p1, w1) →
      OpenOK (.lc r p) w (res', .lc r p1, w1) := by
    intro res' hv h1 hx
    obtain ⟨hid, hk, hc⟩ := h1 hx
    simp only [hv, Bool.false_eq_true, if_false] at hc ⊢
    refine ⟨by simp only [ids, hid], hk.mono (fun x hx => by simp [ids, hx]), Cl_lc hc ?_⟩
    rw [hk.frame r hr]; exact hor
  cases res with
  | val u =>
    obtain ⟨hid, hk, hop⟩ := h1 rfl
    simp only [Res.isVal, if_true] at hop
    have hr1 : r ∉ ids p1 := hid ▸ hr
    have ho1 : w1.isOpen r = false := by rw [hk.frame r hr]; exact hor
    have hk2 := openRes_keep (l := ids (.lc r p)) hk.bad ho1 (by simp [ids])
    have hc := openRes_cases r w1
    dsimp only
    generalize openRes r w1 = y at hk2 hc
    obtain ⟨res2, w2⟩ := y
    simp only at hk2 hc
    have hk12 := (hk.mono (l' := ids (.lc r p)) (fun x hx => by simp [ids, hx])).trans hk2
    rcases hc with ⟨h1, h2, _⟩ | ⟨h1, h2, _⟩
    · subst h1; intro _
      refine ⟨by simp only [ids, hid], hk12, ?_⟩
      simp only [Res.isVal, if_true, Op, h2]
      refine ⟨Op_congr p1 (fun x hx => ?_) hop, by simp [upd]⟩
      have : x ≠ r := fun h => hr1 (h ▸ hx)
      simp [upd, this]
    · have hop2 : Op p1 w2.isOpen := by rw [h2]; exact hop
      have hc := closeP_spec p1 w2 hop2 (hid ▸ hnp) hk2.bad
      have key : ∀ res' : Res Unit, res'.isVal = false →
          OpenOK (.lc r p) w (res', .lc r (closeP p1 w2).1, (closeP p1 w2).2) := by
        intro res' hv _
        obtain ⟨hid3, hk3, hcl3⟩ := hc
        simp only [hv, Bool.false_eq_true, if_false]
        refine ⟨by simp only [ids, hid3, hid], hk12.trans ((hid ▸ hk3).mono (fun x hx => by simp [ids, hx])),
          Cl_lc hcl3 ?_⟩
        rw [hk3.frame r hr1, h2]; exact ho1
      rcases h1 with ⟨e, rfl⟩ | ⟨b, rfl⟩
      · exact key _ rfl
      · exact key _ rfl
  | eof => exact hrest _ rfl h1
  | fail e => exact hrest _ rfl h1
  | panic b => exact hrest _ rfl h1
  | oof => intro h; simp [Res.isOof] at h

/-- the inline operators (`map`, `filter`, `limit n>0`, `skip`) just pass on the child's result -/
theorem open_inline {fuel : Nat} (ih : AllSpec fuel) (p : Pipe) (w : World) (mk : Pipe → Pipe)
    (hids : ∀ q, ids (mk q) = ids q) (hop : ∀ q o, Op (mk q) o ↔ Op q o)
    (hclosed : ∀ q, Closed (mk q) ↔ Closed q)
    (hcl : Cl (mk p) w.isOpen) (hn : (ids (mk p)).Nodup) (hb : w.bad = false) :
    OpenOK (mk p) w ((openP fuel p w).1, mk (openP fuel p w).2.1, (openP fuel p w).2.2) := by
  have hclp : Cl p w.isOpen := ⟨(hclosed p).mp hcl.1, fun x hx => hcl.2 x (by rw [hids]; exact hx)⟩
  rw [hids] at hn
  have h1 := ih.openP p w hclp hn hb
  intro hx
  obtain ⟨hid, hk, hc⟩ := h1 hx
  refine ⟨by rw [hids, hids, hid], by rw [hids]; exact hk, ?_⟩
  dsimp only at hc ⊢
  split
  · rename_i hv; rw [if_pos hv] at hc; exact (hop _ _).mpr hc
  · rename_i hv; rw [if_neg hv] at hc
    exact ⟨(hclosed _).mpr hc.1, fun x hx => hc.2 x (by rw [hids] at hx; exact hx)⟩

theorem open_map {fuel : Nat} (ih : AllSpec fuel) (f p) (w : World) (hcl : Cl (.map f p) w.isOpen)
    (hn : (ids (.map f p)).Nodup) (hb : w.bad = false) :
    OpenOK (.map f p) w (openP (fuel+1) (.map f p) w) := by
  rw [openP]
  exact open_inline ih p w (.map f) (fun _ => rfl) (fun _ _ => by simp only [Op]) (fun _ => by simp only [Closed])
    hcl hn hb

theorem open_filter {fuel : Nat} (ih : AllSpec fuel) (g p) (w : World) (hcl : Cl (.filter g p) w.isOpen)
    (hn : (ids (.filter g p)).Nodup) (hb : w.bad = false) :
    OpenOK (.filter g p) w (openP (fuel+1) (.filter g p) w) := by
  rw [openP]
  exact open_inline ih p w (.filter g) (fun _ => rfl) (fun _ _ => by simp only [Op]) (fun _ => by simp only [Closed])
    hcl hn hb

theorem open_skip {fuel : Nat} (ih : AllSpec fuel) (n d p) (w : World) (hcl : Cl (.skip n d p) w.isOpen)
    (hn : (ids (.skip n d p)).Nodup) (hb : w.bad = false) :
    OpenOK (.skip n d p) w (openP (fuel+1) (.skip n d p) w) := by
  rw [openP]
  exact open_inline ih p w (.skip n d) (fun _ => rfl) (fun _ _ => by simp only [Op]) (fun _ => by simp only [Closed])
    hcl hn hb

theorem open_limit {fuel : Nat} (ih : AllSpec fuel) (n c p) (w : World) (hcl : Cl (.limit n c p) w.isOpen)
    (hn : (ids (.limit n c p)).Nodup) (hb : w.bad = false) :
    OpenOK (.limit n c p) w (openP (fuel+1) (.limit n c p) w) := by
  rw [openP]
  split
  · rename_i h
    intro _
    refine ⟨rfl, Keep.refl hb, ?_⟩
    simp only [Res.isVal, if_true, Op, if_pos h]
    exact ⟨hcl.1, fun x hx => hcl.2 x hx⟩
  · rename_i h
    exact open_inline ih p w (.limit n c) (fun _ => rfl) (fun _ _ => by simp only [Op, if_neg h])
      (fun _ => by simp only [Closed]) hcl hn hb

theorem Cl_concat {ps : PipeList} {o : Nat → Bool} (n : Nat) : ClL ps o ↔ Cl (.concat ps n false false) o := by
  simp only [Cl, ClL, Closed, ids, true_and]

theorem ClL_of_Cl_concat {ps : PipeList} {o : Nat → Bool} {n a b} (h : Cl (.concat ps n a b) o) : ClL ps o := by
  simp only [Cl, Closed, ids] at h
  exact ⟨h.1.2.2, h.2⟩

theorem Cl_zip {ps : PipeList} {o : Nat → Bool} : ClL ps o ↔ Cl (.zip ps 0) o := by
  simp only [Cl, ClL, Closed, ids, true_and]

theorem ClL_of_Cl_zip {ps : PipeList} {o : Nat → Bool} {n} (h : Cl (.zip ps n) o) : ClL ps o := by
  simp only [Cl, Closed, ids] at h
  exact ⟨h.1.2, h.2⟩

theorem Cl_merge {ps : PipeList} {o : Nat → Bool} (s) : ClL ps o ↔ Cl (.merge ps 0 s) o := by
  simp only [Cl, ClL, Closed, ids, true_and]

theorem ClL_of_Cl_merge {ps : PipeList} {o : Nat → Bool} {n s} (h : Cl (.merge ps n s) o) : ClL ps o := by
  simp only [Cl, Closed, ids] at h
  exact ⟨h.1.2, h.2⟩

theorem open_concat {fuel : Nat} (ih : AllSpec fuel) (ps a b c) (w : World)
    (hcl : Cl (.concat ps a b c) w.isOpen) (hn : (ids (.concat ps a b c)).Nodup) (hb : w.bad = false) :
    OpenOK (.concat ps a b c) w (openP (fuel+1) (.concat ps a b c) w) := by
  have hcll := ClL_of_Cl_concat hcl
  simp only [ids] at hn
  rw [openP]
  split
  · intro _
    refine ⟨rfl, Keep.refl hb, ?_⟩
    simp only [Res.isVal, if_true, Op]
    exact St_congr_f ps (fun _ _ => by simp) (St_of_ClL hcll)
  split
  · intro _
    refine ⟨rfl, Keep.refl hb, ?_⟩
    simp only [Res.isVal, Bool.false_eq_true, if_false]
    exact (Cl_concat 0).mp hcll
  split
  · intro h; simp [Res.isOof] at h
  · rename_i p0 hget
    have hst := St_of_ClL hcll
    have hn0 := nodup_of_get ps 0 p0 hget hn
    have hsub := mem_idsList_of_get ps 0 p0 hget
    have h1 := ih.openP p0 w (St_get_cl hst hget rfl) hn0 hb
    generalize Model.Pipe.openP fuel p0 w = x at h1
    obtain ⟨res, p1, w1⟩ := x
    have hrest : ∀ res' : Res Unit, res'.isVal = false → OpenOK p0 w (res', p1, w1) →
        OpenOK (.concat ps a b c) w (res', .concat (ps.set 0 p1) 1 false false, w1) := by
      intro res' hv h1 hx
      obtain ⟨hid, hk, hc⟩ := h1 hx
      simp only [hv, Bool.false_eq_true, if_false] at hc ⊢
      refine ⟨by simp only [ids]; exact idsList_set ps 0 p0 p1 hget hid, hk.mono hsub, ?_⟩
      have := St_set_cl (g := fun _ => false) hst hget hn hk.frame hid hc rfl (fun _ _ => rfl)
      exact (Cl_concat 1).mp ((St_false _ (fun _ _ => rfl)).mp this)
    cases res with
    | val u =>
      intro _
      obtain ⟨hid, hk, hop⟩ := h1 rfl
      simp only [Res.isVal, if_true] at hop
      refine ⟨by simp only [ids]; exact idsList_set ps 0 p0 p1 hget hid, hk.mono hsub, ?_⟩
      simp only [Res.isVal, if_true, Op]
      exact St_set_op hst hget hn hk.frame hid hop (by simp) (fun j hj => by simp [hj])
    | eof => exact hrest _ rfl h1
    | fail e => exact hrest _ rfl h1
    | panic b => exact hrest _ rfl h1
    | oof => intro h; simp [Res.isOof] at h

theorem St_nil_len {ps : PipeList} {f : Nat → Bool} {o : Nat → Bool} (h : ps.length = 0) : St ps f o := by
  cases ps with
  | nil => simp only [St]
  | cons _ _ => simp [PipeList.length] at h

theorem open_zip {fuel : Nat} (ih : AllSpec fuel) (ps a) (w : World)
    (hcl : Cl (.zip ps a) w.isOpen) (hn : (ids (.zip ps a)).Nodup) (hb : w.bad = false) :
    OpenOK (.zip ps a) w (openP (fuel+1) (.zip ps a) w) := by
  have hcll := ClL_of_Cl_zip hcl
  simp only [ids] at hn
  rw [openP]
  split
  · rename_i hlen
    intro _
    refine ⟨rfl, Keep.refl hb, ?_⟩
    simp only [Res.isVal, if_true, Op]
    exact ⟨hlen.symm, St_nil_len hlen⟩
  · have h1 := ih.openList ps 0 w _ (fun _ _ => by simp) (St_of_ClL hcll) hn hb
    generalize Model.Pipe.openList fuel ps 0 w = x at h1
    obtain ⟨res, ps1, w1⟩ := x
    have hrest : ∀ res' : Res Unit, res'.isVal = false → OpenLOK ps w (res', ps1, w1) →
        OpenOK (.zip ps a) w (res', .zip ps1 0, w1) := by
      intro res' hv h1 hx
      obtain ⟨hid, _, hk, hc⟩ := h1 hx
      simp only [hv, Bool.false_eq_true, if_false] at hc ⊢
      exact ⟨hid, hk, Cl_zip.mp hc⟩
    cases res with
    | val u =>
      intro _
      obtain ⟨hid, _, hk, hop⟩ := h1 rfl
      simp only [Res.isVal, if_true] at hop
      refine ⟨hid, hk, ?_⟩
      simp only [Res.isVal, if_true, Op]
      exact ⟨trivial, hop⟩
    | eof => exact hrest _ rfl h1
    | fail e => exact hrest _ rfl h1
    | panic b => exact hrest _ rfl h1
    | oof => intro h; simp [Res.isOof] at h

theorem open_merge {fuel : Nat} (ih : AllSpec fuel) (ps a s) (w : World)
    (hcl : Cl (.merge ps a s) w.isOpen) (hn : (ids (.merge ps a s)).Nodup) (hb : w.bad = false) :
    OpenOK (.merge ps a s) w (openP (fuel+1) (.merge ps a s) w) := by
  have hcll := ClL_of_Cl_merge hcl
  simp only [ids] at hn
  rw [openP]
  split
  · rename_i hlen
    intro _
    refine ⟨rfl, Keep.refl hb, ?_⟩
    simp only [Res.isVal, if_true, Op]
    exact ⟨hlen.symm, St_nil_len hlen⟩
  · have h1 := ih.openList ps 0 w _ (fun _ _ => by simp) (St_of_ClL hcll) hn hb
    generalize Model.Pipe.openList fuel ps 0 w = x at h1
    obtain ⟨res, ps1, w1⟩ := x
    have hrest : ∀ res' : Res Unit, res'.isVal = false → OpenLOK ps w (res', ps1, w1) →
        OpenOK (.merge ps a s) w (res', .merge ps1 0 s, w1) := by
      intro res' hv h1 hx
      obtain ⟨hid, _, hk, hc⟩ := h1 hx
      simp only [hv, Bool.false_eq_true, if_false] at hc ⊢
      exact ⟨hid, hk, (Cl_merge s).mp hc⟩
    cases res with
    | val u =>
      intro _
      obtain ⟨hid, _, hk, hop⟩ := h1 rfl
      simp only [Res.isVal, if_true] at hop
      refine ⟨hid, hk, ?_⟩
      simp only [Res.isVal, if_true, Op]
      exact ⟨trivial, hop⟩
    | eof => exact hrest _ rfl h1
    | fail e => exact hrest _ rfl h1
    | panic b => exact hrest _ rfl h1
    | oof => intro h; simp [Res.isOof] at h

theorem open_window {fuel : Nat} (ih : AllSpec fuel) (s st o buf d so p) (w : World)
    (hcl : Cl (.window s st o buf d so p) w.isOpen) (hn : (ids (.window s st o buf d so p)).Nodup)
    (hb : w.bad = false) :
    OpenOK (.window s st o buf d so p) w (openP (fuel+1) (.window s st o buf d so p) w) := by
  have hclp : Cl p w.isOpen := ⟨hcl.1.2, hcl.2⟩
  simp only [ids] at hn
  rw [openP]
  split
  · intro _
    refine ⟨rfl, Keep.refl hb, ?_⟩
    simp only [Res.isVal, Bool.false_eq_true, if_false]
    exact ⟨⟨rfl, hclp.1⟩, hclp.2⟩
  · have h1 := ih.openP p w hclp hn hb
    generalize Model.Pipe.openP fuel p w = x at h1
    obtain ⟨res, p1, w1⟩ := x
    have hrest : ∀ res' : Res Unit, res'.isVal = false → OpenOK p w (res', p1, w1) →
        OpenOK (.window s st o buf d so p) w (res', .window s st o buf d false p1, w1) := by
      intro res' hv h1 hx
      obtain ⟨hid, hk, hc⟩ := h1 hx
      simp only [hv, Bool.false_eq_true, if_false] at hc ⊢
      exact ⟨hid, hk, ⟨rfl, hc.1⟩, hc.2⟩
    cases res with
    | val u =>
      intro _
      obtain ⟨hid, hk, hop⟩ := h1 rfl
      simp only [Res.isVal, if_true] at hop
      refine ⟨hid, hk, ?_⟩
      simp only [Res.isVal, if_true, Op]
      exact ⟨trivial, hop⟩
    | eof => exact hrest _ rfl h1
    | fail e => exact hrest _ rfl h1
    | panic b => exact hrest _ rfl h1
    | oof => intro h; simp [Res.isOof] at h

theorem open_cluster {fuel : Nat} (ih : AllSpec fuel) (k fac nxt cls last so p) (w : World)
    (hcl : Cl (.cluster k fac nxt cls last so p) w.isOpen)
    (hn : (ids (.cluster k fac nxt cls last so p)).Nodup) (hb : w.bad = false) :
    OpenOK (.cluster k fac nxt cls last so p) w (openP (fuel+1) (.cluster k fac nxt cls last so p) w) := by
  have hclp : Cl p w.isOpen := ⟨hcl.1.2, hcl.2⟩
  simp only [ids] at hn
  rw [openP]
  have h1 := ih.openP p w hclp hn hb
  generalize Model.Pipe.openP fuel p w = x at h1
  obtain ⟨res, p1, w1⟩ := x
  have hrest : ∀ res' : Res Unit, res'.isVal = false → OpenOK p w (res', p1, w1) →
      OpenOK (.cluster k fac nxt cls last so p) w (res', .cluster k fac nxt cls last false p1, w1) := by
    intro res' hv h1 hx
    obtain ⟨hid, hk, hc⟩ := h1 hx
    simp only [hv, Bool.false_eq_true, if_false] at hc ⊢
    exact ⟨hid, hk, ⟨rfl, hc.1⟩, hc.2⟩
  cases res with
  | val u =>
    obtain ⟨hid, hk, hop⟩ := h1 rfl
    simp only [Res.isVal, if_true] at hop
    have hn1 : (ids p1).Nodup := hid ▸ hn
    -- clusterSortedStream.Open pulls the first item
    have h2 := ih.emitP p1 w1 hop hn1 hk.bad
    dsimp only
    generalize Model.Pipe.emitP fuel p1 w1 = y at h2
    obtain ⟨res2, p2, w2⟩ := y
    have hfail : ∀ res' : Res Unit, res'.isVal = false → res2.isOof = false →
        OpenOK (.cluster k fac nxt cls last so p) w
          (res', .cluster k fac nxt cls last false (closeP p2 w2).1, (closeP p2 w2).2) := by
      intro res' hv ho2 _
      obtain ⟨hid2, hk2, hop2⟩ := h2 ho2
      obtain ⟨hid3, hk3, hcl3⟩ := closeP_spec p2 w2 hop2 (hid2 ▸ hn1) hk2.bad
      simp only [hv, Bool.false_eq_true, if_false]
      refine ⟨by simp only [ids, hid3, hid2, hid], ?_, ⟨rfl, hcl3.1⟩, hcl3.2⟩
      simp only [ids]
      exact hk.trans ((hid ▸ hk2).trans (hid ▸ hid2 ▸ hk3))
    cases res2 with
    | val v =>
      intro _
      obtain ⟨hid2, hk2, hop2⟩ := h2 rfl
      exact ⟨by simp only [ids, hid2, hid], hk.trans (hid ▸ hk2), by simp only [Res.isVal, if_true, Op]; exact ⟨trivial, hop2⟩⟩
    | eof =>
      intro _
      obtain ⟨hid2, hk2, hop2⟩ := h2 rfl
      exact ⟨by simp only [ids, hid2, hid], hk.trans (hid ▸ hk2), by simp only [Res.isVal, if_true, Op]; exact ⟨trivial, hop2⟩⟩
    | fail e => exact hfail _ rfl rfl
    | panic b => exact hfail _ rfl rfl
    | oof => intro h; simp [Res.isOof] at h
  | eof => exact hrest _ rfl h1
  | fail e => exact hrest _ rfl h1
  | panic b => exact hrest _ rfl h1
  | oof => intro h; simp [Res.isOof] at h

theorem openP_step {fuel : Nat} (ih : AllSpec fuel) : ∀ (p : Pipe) (w : World),
    Cl p w.isOpen → (ids p).Nodup → w.bad = false → OpenOK p w (openP (fuel+1) p w)
  | .src r xs idx, w, hcl, _, hb => open_src fuel r xs idx w hcl hb
  | .lc r p, w, hcl, hn, hb => open_lc ih r p w hcl hn hb
  | .map f p, w, hcl, hn, hb => open_map ih f p w hcl hn hb
  | .filter g p, w, hcl, hn, hb => open_filter ih g p w hcl hn hb
  | .limit n c p, w, hcl, hn, hb => open_limit ih n c p w hcl hn hb
  | .skip n d p, w, hcl, hn, hb => open_skip ih n d p w hcl hn hb
  | .concat ps a b c, w, hcl, hn, hb => open_concat ih ps a b c w hcl hn hb
  | .zip ps a, w, hcl, hn, hb => open_zip ih ps a w hcl hn hb
  | .merge ps a s, w, hcl, hn, hb => open_merge ih ps a s w hcl hn hb
  | .window s st o buf d so p, w, hcl, hn, hb => open_window ih s st o buf d so p w hcl hn hb
  | .cluster k fac nxt cls last so p, w, hcl, hn, hb => open_cluster ih k fac nxt cls last so p w hcl hn hb

/-! ### `openList`: open the sub streams left to right, roll back on failure -/

theorem openList_step {fuel : Nat} (ih : AllSpec fuel) (ps : PipeList) (i : Nat) (w : World) (f : Nat → Bool)
    (hf : ∀ j, j < ps.length → f j = decide (j < i)) (hst : St ps f w.isOpen)
    (hn : (idsList ps).Nodup) (hb : w.bad = false) : OpenLOK ps w (openList (fuel+1) ps i w) := by
  have hst' : St ps (fun j => decide (j < i)) w.isOpen := St_congr_f ps (fun j hj => (hf j hj).symm) hst
  rw [openList]
  split
  · rename_i hget
    have hlen := get?_none ps i hget
    intro _
    refine ⟨rfl, rfl, Keep.refl hb, ?_⟩
    simp only [Res.isVal, if_true]
    exact St_congr_f ps (fun j hj => by simp; omega) hst'
  · rename_i p hget
    have hnp := nodup_of_get ps i p hget hn
    have hsub := mem_idsList_of_get ps i p hget
    have h1 := ih.openP p w (St_get_cl hst' hget (by simp)) hnp hb
    generalize Model.Pipe.openP fuel p w = x at h1
    obtain ⟨res, p1, w1⟩ := x
    have hrest : ∀ res' : Res Unit, res'.isVal = false → OpenOK p w (res', p1, w1) →
        OpenLOK ps w (res', (closeFirst (ps.set i p1) i w1).1, (closeFirst (ps.set i p1) i w1).2) := by
      intro res' hv h1 hx
      obtain ⟨hid, hk, hc⟩ := h1 hx
      simp only [hv, Bool.false_eq_true, if_false] at hc ⊢
      have hids := idsList_set ps i p p1 hget hid
      have hst1 : St (ps.set i p1) (fun j => decide (j < i)) w1.isOpen :=
        St_set_cl hst' hget hn hk.frame hid hc (by simp) (fun _ _ => rfl)
      obtain ⟨hid2, hlen2, hk2, hcl2⟩ := closeFirst_spec (ps.set i p1) i w1 _ (fun _ _ => rfl) hst1 (hids ▸ hn) hk.bad
      exact ⟨hid2.trans hids, hlen2.trans (length_set ps i p1), (hk.mono hsub).trans (hids ▸ hk2), hcl2⟩
    cases res with
    | val u =>
      obtain ⟨hid, hk, hop⟩ := h1 rfl
      simp only [Res.isVal, if_true] at hop
      have hids := idsList_set ps i p p1 hget hid
      have hst1 : St (ps.set i p1) (fun j => decide (j < i + 1)) w1.isOpen :=
        St_set_op hst' hget hn hk.frame hid hop (by simp) (fun j hj => by simp; omega)
      dsimp only
      exact OpenLOK.after hids (length_set ps i p1) (hk.mono hsub)
        (ih.openList (ps.set i p1) (i+1) w1 _ (fun _ _ => rfl) hst1 (hids ▸ hn) hk.bad)
    | eof => exact hrest _ rfl h1
    | fail e => exact hrest _ rfl h1
    | panic b => exact hrest _ rfl h1
    | oof => intro h; simp [Res.isOof] at h

end ShpanVerif.Proofs.PipeC01
