/-
Join lifecycle model (`Model/JoinLife.lean`), C03.

* surfacing (`consumeJ_surface`): under a non-cancel fault plan every function keeps the plan in place and either leaves the
  ghost flag `fired` unchanged or returns the injected failure — vocabulary `Plan` / `Step` / `Good` of the static family;
* prefix (`consumeJ_prefix`): the run in ANY world against the run in a clean world: an emit program either fails or does
  exactly what it does in the clean world (same result, same captured variables, same read positions) — `runW_couple`;
  so the rows delivered in any world are a prefix of the rows delivered in the clean one.

Both for ANY emit program.
-/
import ShpanVerif.Proofs.JoinLifeInv
import ShpanVerif.Proofs.PipeDynC03
import ShpanVerif.Proofs.PipeC04Base

namespace ShpanVerif.Proofs.JoinLife
open ShpanVerif.Model.Pipe ShpanVerif.Model.JoinLife ShpanVerif.Proofs.PipeC03
open ShpanVerif.Model.PipeDyn (hitRes castRes noErr limOff)
open ShpanVerif.Proofs.PipeDyn (Good_hitRes' Good_hitRes_noErr Good_castRes)
open ShpanVerif.Proofs.PipeC01 (PrimInv)

/-! ### surfacing -/

section surface
variable {pos : Nat} {k : FaultKind}

attribute [local grind ←] Good_hitRes' Good_hitRes_noErr Good_castRes

theorem pullAt_step (i : Nat) (ins : List Inp) (w : World) (h : Plan pos k w) :
    Step pos k w (pullAt i ins w).1 (pullAt i ins w).2.2 := by
  unfold pullAt
  cases ins[i]? with
  | none => simp only [Step]; grind
  | some p =>
    have he := emitRes_step p.r w h
    simp only []
    generalize emitRes p.r w = x at he
    obtain ⟨hit, w1⟩ := x
    simp only at he
    cases hit with
    | none => cases p.rest <;> (simp only [Step]; grind)
    | err => simp only [Step]; grind
    | panic b => simp only [Step]; grind

theorem runW_step {σ : Type} (p : Prog σ) : ∀ (ins : List Inp) (w : World), Plan pos k w →
    Step pos k w (runW p ins w).1 (runW p ins w).2.2.2 := by
  induction p with
  | ret row s => intro ins w h; simp only [runW, Step]; grind
  | eof s => intro ins w h; simp only [runW, Step]; grind
  | fail e s => intro ins w h; simp only [runW, Step]; grind
  | oof s => intro ins w h; simp only [runW, Step]; grind
  | ctx s q ih =>
      intro ins w h
      simp only [runW]
      split
      · simp only [Step]; grind
      · exact ih ins w h
  | pull i s q ih =>
      intro ins w h
      have hp := pullAt_step i ins w h
      simp only [runW]
      generalize pullAt i ins w = x at hp
      obtain ⟨res, ins1, w1⟩ := x
      simp only [Step] at hp
      cases res with
      | val v => have := ih (some v) ins1 w1 hp.1; simp only [Step] at this ⊢; grind
      | eof => have := ih none ins1 w1 hp.1; simp only [Step] at this ⊢; grind
      | fail e => simp only [Step, castRes]; grind
      | panic b => simp only [Step, castRes]; grind
      | oof => simp only [Step, castRes]; grind
  | call s q ih =>
      intro ins w h
      have hu := userCall_step w h
      simp only [runW]
      generalize userCall w = x at hu
      obtain ⟨hit, w1⟩ := x
      simp only at hu
      cases hit with
      | none => have := ih ins w1 hu.1; simp only [Step] at this ⊢; grind
      | err => simp only [Step]; grind
      | panic b => simp only [Step]; grind

theorem openIns_step : ∀ (ps : List Inp) (w : World), Plan pos k w →
    Step pos k w (openIns ps w).1 (openIns ps w).2.2.2
  | [], w, h => by simp only [openIns, Step]; grind
  | p :: ps, w, h => by
      have ho := openRes_step p.r w h
      rcases hx : openRes p.r w with ⟨res, w1⟩
      rw [hx] at ho
      simp only [openIns, hx]
      simp only at ho
      cases res with
      | val u => have := openIns_step ps w1 ho.1; simp only [Step] at this ⊢; grind
      | eof => simp only [Step, castRes]; grind
      | fail e => simp only [Step, castRes]; grind
      | panic b => simp only [Step, castRes]; grind
      | oof => simp only [Step, castRes]; grind

theorem closeIns_quiet : ∀ (n : Nat) (ps : List Inp) (w : World), Plan pos k w →
    Plan pos k (closeIns n ps w).2 ∧ (closeIns n ps w).2.fired = w.fired
  | 0, ps, w, h => ⟨h, rfl⟩
  | n+1, [], w, h => ⟨h, rfl⟩
  | n+1, p :: ps, w, h => by
      have := closeIns_quiet n ps w h
      simp only [closeIns]
      exact ⟨this.1, this.2⟩

theorem emitT_step {σ : Type} (prog : σ → Prog σ) (lim : Option Int) (n : Int) (c : Obj σ) (w : World)
    (h : Plan pos k w) : Step pos k w (emitT prog lim n c w).1 (emitT prog lim n c w).2.2 := by
  have := runW_step (prog c.js) c.ins w h
  unfold emitT emitJ
  cases lim with
  | none => exact this
  | some m =>
    simp only []
    split
    · simp only [Step]; grind
    · exact this

theorem pullLoopJ_step {σ : Type} (prog : σ → Prog σ) : ∀ (fuel : Nat) (kc : Consumer) (lim : Option Int) (n : Int)
    (c : Obj σ) (acc : List Row) (w : World), Plan pos k w →
    Step pos k w (pullLoopJ prog fuel kc lim n c acc w).1 (pullLoopJ prog fuel kc lim n c acc w).2.2.2 := by
  intro fuel
  induction fuel with
  | zero => intro kc lim n c acc w h; simp only [pullLoopJ, Step]; grind
  | succ f ih =>
    intro kc lim n c acc w h
    simp only [pullLoopJ]
    split
    · simp only [Step]; grind
    · have he := emitT_step prog lim n c w h
      generalize emitT prog lim n c w = x at he
      obtain ⟨res, c1, w1⟩ := x
      simp only [Step] at he
      cases res with
      | val v =>
        cases kc with
        | collect => have := ih .collect lim (n + 1) c1 (v :: acc) w1 he.1; simp only [Step] at this ⊢; grind
        | user =>
          simp only []
          have hu := userCall_step w1 he.1
          generalize userCall w1 = y at hu
          obtain ⟨hit, w2⟩ := y
          simp only at hu
          cases hit with
          | none => have := ih .user lim (n + 1) c1 (v :: acc) w2 hu.1; simp only [Step] at this ⊢; grind
          | err => simp only [Step]; grind
          | panic b => simp only [Step]; grind
      | eof => simp only [Step]; grind
      | fail e => simp only [Step, castRes]; grind
      | panic b => simp only [Step, castRes]; grind
      | oof => simp only [Step, castRes]; grind

@[local grind =] theorem recovered_true' : recovered true = .user := rfl
@[local grind =] theorem recovered_false' : recovered false = .panicVal := rfl

/-- **surfacing**: a fired non-cancel fault makes the terminal return an error whose root is the injected one -/
theorem consumeJ_surface {σ : Type} (prog : σ → Prog σ) (fuel : Nat) (kc : Consumer) (lim : Option Int) (c : Obj σ)
    (w : World) (hf : w.fault = some (pos, k)) (hk : k ≠ .cancel) (hnf : w.fired = false) :
    (consumeJ prog fuel kc lim c w).1 = .oof ∨
    ((consumeJ prog fuel kc lim c w).2.2.fired = true →
      ∃ d, (consumeJ prog fuel kc lim c w).1 = .err (expectedRoot k) d) := by
  have h : Plan pos k w := ⟨hf, hk⟩
  unfold consumeJ
  split
  · right; intro hh; split at hh <;> simp [hnf] at hh
  · have ho := openIns_step c.ins w h
    unfold openC
    generalize openIns c.ins w = x at ho
    obtain ⟨res, ins1, n, w1⟩ := x
    simp only [Step] at ho
    have hc := closeIns_quiet n ins1 w1 ho.1
    cases res with
    | val u =>
      simp only []
      have hp := pullLoopJ_step prog fuel kc lim 1 ({ c with ins := ins1, opened := n } : Obj σ) [] w1 ho.1
      generalize pullLoopJ prog fuel kc lim 1 ({ c with ins := ins1, opened := n } : Obj σ) [] w1 = y at hp
      obtain ⟨res2, acc, c2, w2⟩ := y
      simp only [Step] at hp
      have hc2 := closeIns_quiet c2.opened c2.ins w2 hp.1
      cases res2 with
      | oof => left; rfl
      | val u => right; intro hh; simp only [closeFunc] at hh; grind
      | eof => right; intro hh; simp only [closeFunc] at hh; grind
      | fail e => right; intro hh; simp only [closeFunc] at hh; refine ⟨acc.reverse, ?_⟩; simp only [outcomeOf]; grind
      | panic b => right; intro hh; simp only [closeFunc] at hh; refine ⟨acc.reverse, ?_⟩; simp only [outcomeOf]; grind
    | eof => left; rfl
    | oof => left; rfl
    | fail e => right; intro hh; simp only [] at hh; refine ⟨[], ?_⟩; simp only []; grind
    | panic b => right; intro hh; simp only [] at hh; refine ⟨[], ?_⟩; simp only []; grind

end surface

/-! ### the clean world -/

theorem clean_prim : PrimInv World.Clean where
  call := fun w h => by obtain ⟨w', h1, h2⟩ := PipeC04.userCall_clean h; rw [h1]; exact h2
  openRes := fun r w h => by obtain ⟨w', h1, h2⟩ := PipeC04.openRes_clean r h; rw [h1]; exact h2
  closeRes := fun r w h => PipeC04.closeRes_clean r h
  emitRes := fun r w h => by obtain ⟨w', h1, h2⟩ := PipeC04.emitRes_clean r h; rw [h1]; exact h2

/-! ### any world against the clean world -/

/-- a result that ends the run without a value: a failure, a panic, or out of fuel -/
def IsBad {α : Type} : Res α → Prop
  | .fail _ => True
  | .panic _ => True
  | .oof => True
  | _ => False

theorem pullAt_couple (i : Nat) (ins : List Inp) (w wc : World) (hc : wc.Clean) :
    IsBad (pullAt i ins w).1 ∨
    ((pullAt i ins w).1 = (pullAt i ins wc).1 ∧ (pullAt i ins w).2.1 = (pullAt i ins wc).2.1) := by
  unfold pullAt
  cases ins[i]? with
  | none => left; trivial
  | some p =>
    obtain ⟨wc', h1, _⟩ := PipeC04.emitRes_clean p.r hc
    simp only [h1]
    generalize emitRes p.r w = x
    obtain ⟨hit, w1⟩ := x
    cases hit with
    | none => right; cases p.rest <;> exact ⟨rfl, rfl⟩
    | err => left; trivial
    | panic b => left; trivial

/-- an emit program in any world either ends badly or does what it does in the clean world -/
theorem runW_couple {σ : Type} (p : Prog σ) : ∀ (ins : List Inp) (w wc : World), wc.Clean →
    IsBad (runW p ins w).1 ∨
    ((runW p ins w).1 = (runW p ins wc).1 ∧ (runW p ins w).2.1 = (runW p ins wc).2.1 ∧
     (runW p ins w).2.2.1 = (runW p ins wc).2.2.1) := by
  induction p with
  | ret row s => intro ins w wc hc; right; exact ⟨rfl, rfl, rfl⟩
  | eof s => intro ins w wc hc; right; exact ⟨rfl, rfl, rfl⟩
  | fail e s => intro ins w wc hc; right; exact ⟨rfl, rfl, rfl⟩
  | oof s => intro ins w wc hc; left; trivial
  | ctx s q ih =>
      intro ins w wc hc
      simp only [runW, hc.2]
      split
      · left; trivial
      · exact ih ins w wc hc
  | pull i s q ih =>
      intro ins w wc hc
      have hp := pullAt_couple i ins w wc hc
      have hcl := pullAt_prim clean_prim i ins wc hc
      simp only [runW]
      generalize pullAt i ins w = x at hp
      generalize pullAt i ins wc = y at hp hcl
      obtain ⟨res, ins1, w1⟩ := x
      obtain ⟨resc, insc, wc1⟩ := y
      simp only at hp hcl
      rcases hp with hp | ⟨rfl, rfl⟩
      · left; cases res <;> simp_all [IsBad, castRes]
      · cases res with
        | val v => exact ih (some v) ins1 w1 wc1 hcl
        | eof => exact ih none ins1 w1 wc1 hcl
        | fail e => left; trivial
        | panic b => left; trivial
        | oof => left; trivial
  | call s q ih =>
      intro ins w wc hc
      obtain ⟨wc', h1, h2⟩ := PipeC04.userCall_clean hc
      simp only [runW, h1]
      generalize userCall w = x
      obtain ⟨hit, w1⟩ := x
      cases hit with
      | none => exact ih ins w1 wc' h2
      | err => left; trivial
      | panic b => left; trivial

theorem emitT_couple {σ : Type} (prog : σ → Prog σ) (lim : Option Int) (n : Int) (c : Obj σ) (w wc : World)
    (hc : wc.Clean) :
    IsBad (emitT prog lim n c w).1 ∨
    ((emitT prog lim n c w).1 = (emitT prog lim n c wc).1 ∧ (emitT prog lim n c w).2.1 = (emitT prog lim n c wc).2.1) := by
  have h := runW_couple (prog c.js) c.ins w wc hc
  unfold emitT emitJ
  have key : IsBad (runW (prog c.js) c.ins w).1 ∨
      (runW (prog c.js) c.ins w).1 = (runW (prog c.js) c.ins wc).1 ∧
      ({ c with ins := (runW (prog c.js) c.ins w).2.2.1, js := (runW (prog c.js) c.ins w).2.1 } : Obj σ) =
      { c with ins := (runW (prog c.js) c.ins wc).2.2.1, js := (runW (prog c.js) c.ins wc).2.1 } := by
    rcases h with h | ⟨h1, h2, h3⟩
    · exact Or.inl h
    · exact Or.inr ⟨h1, by rw [h2, h3]⟩
  cases lim with
  | none => exact key
  | some m =>
    simp only []
    split
    · right; exact ⟨rfl, rfl⟩
    · exact key

/-- the accumulator only grows -/
theorem pullLoopJ_acc {σ : Type} (prog : σ → Prog σ) : ∀ (fuel : Nat) (kc : Consumer) (lim : Option Int) (n : Int)
    (c : Obj σ) (acc : List Row) (w : World), ∃ l, (pullLoopJ prog fuel kc lim n c acc w).2.1 = l ++ acc := by
  intro fuel
  induction fuel with
  | zero => intro kc lim n c acc w; exact ⟨[], rfl⟩
  | succ f ih =>
    intro kc lim n c acc w
    simp only [pullLoopJ]
    split
    · exact ⟨[], rfl⟩
    · generalize emitT prog lim n c w = x
      obtain ⟨res, c1, w1⟩ := x
      cases res with
      | val v =>
        cases kc with
        | collect =>
          obtain ⟨l, hl⟩ := ih .collect lim (n + 1) c1 (v :: acc) w1
          exact ⟨l ++ [v], by simp only [hl]; simp⟩
        | user =>
          simp only []
          generalize userCall w1 = y
          obtain ⟨hit, w2⟩ := y
          cases hit with
          | none =>
            obtain ⟨l, hl⟩ := ih .user lim (n + 1) c1 (v :: acc) w2
            exact ⟨l ++ [v], by simp only [hl]; simp⟩
          | err => exact ⟨[], rfl⟩
          | panic b => exact ⟨[], rfl⟩
      | eof => exact ⟨[], rfl⟩
      | fail e => exact ⟨[], rfl⟩
      | panic b => exact ⟨[], rfl⟩
      | oof => exact ⟨[], rfl⟩

/-- what the pull loop has accumulated in any world is the tail end of what it accumulates in the clean world -/
theorem pullLoopJ_couple {σ : Type} (prog : σ → Prog σ) : ∀ (fuel : Nat) (kc : Consumer) (lim : Option Int) (n : Int)
    (c : Obj σ) (acc : List Row) (w wc : World), wc.Clean →
    ∃ l, (pullLoopJ prog fuel kc lim n c acc wc).2.1 = l ++ (pullLoopJ prog fuel kc lim n c acc w).2.1 := by
  intro fuel
  induction fuel with
  | zero => intro kc lim n c acc w wc hc; exact ⟨[], rfl⟩
  | succ f ih =>
    intro kc lim n c acc w wc hc
    have hA := pullLoopJ_acc prog (f + 1) kc lim n c acc wc
    have he := emitT_couple prog lim n c w wc hc
    have hcl := emitT_prim clean_prim prog lim n c wc hc
    simp only [pullLoopJ, hc.2, Bool.false_eq_true, if_false] at hA ⊢
    by_cases hw : w.cancelled = true
    · simp only [hw, if_true]; exact hA
    · simp only [hw]
      generalize emitT prog lim n c w = x at he
      generalize emitT prog lim n c wc = y at he hcl hA
      obtain ⟨res, c1, w1⟩ := x
      obtain ⟨resc, cc, wc1⟩ := y
      simp only at he hcl
      rcases he with he | ⟨rfl, rfl⟩
      · cases res <;> simp only [IsBad] at he <;> exact hA
      · cases res with
        | val v =>
          cases kc with
          | collect => exact ih .collect lim (n + 1) c1 (v :: acc) w1 wc1 hcl
          | user =>
            obtain ⟨wc', h1, h2⟩ := PipeC04.userCall_clean hcl
            simp only [h1] at hA ⊢
            generalize userCall w1 = z
            obtain ⟨hit, w2⟩ := z
            cases hit with
            | none => exact ih .user lim (n + 1) c1 (v :: acc) w2 wc' h2
            | err => exact hA
            | panic b => exact hA
        | eof => exact ⟨[], rfl⟩
        | fail e => exact ⟨[], rfl⟩
        | panic b => exact ⟨[], rfl⟩
        | oof => exact ⟨[], rfl⟩

/-- a successful open phase has opened (and rewound) every input -/
theorem openIns_val : ∀ (ps : List Inp) (w : World) (u : Unit), (openIns ps w).1 = .val u →
    (openIns ps w).2.1 = ps.map (fun p => { p with rest := p.xs }) ∧ (openIns ps w).2.2.1 = ps.length
  | [], w, u, _ => ⟨rfl, rfl⟩
  | p :: ps, w, u, h => by
      rcases hx : openRes p.r w with ⟨res, w1⟩
      simp only [openIns, hx] at h ⊢
      cases res with
      | val u' =>
        simp only at h ⊢
        have := openIns_val ps w1 u h
        exact ⟨by simp [this.1], by simp [this.2]⟩
      | eof => simp [castRes] at h
      | fail e => simp [castRes] at h
      | panic b => simp [castRes] at h
      | oof => simp [castRes] at h

theorem openIns_clean : ∀ (ps : List Inp) (w : World), w.Clean → (openIns ps w).1 = .val ()
  | [], w, _ => rfl
  | p :: ps, w, h => by
      obtain ⟨w', h1, h2⟩ := PipeC04.openRes_clean p.r h
      simp only [openIns, h1]
      exact openIns_clean ps w' h2

/-- **prefix**: whatever the world (any fault plan, cancelled or not), the rows delivered are a prefix of the rows the
    same terminal delivers in a clean world -/
theorem consumeJ_prefix {σ : Type} (prog : σ → Prog σ) (fuel : Nat) (kc : Consumer) (lim : Option Int) (c : Obj σ)
    (w wc : World) (hc : wc.Clean) :
    (consumeJ prog fuel kc lim c wc).1 = .oof ∨
    (consumeJ prog fuel kc lim c w).1.delivered <+: (consumeJ prog fuel kc lim c wc).1.delivered := by
  unfold consumeJ
  split
  · right
    simp only [hc.2]
    split <;> exact List.prefix_refl _
  · have hv := openIns_clean c.ins wc hc
    have hvc := openIns_val c.ins wc () hv
    have hcl := openIns_prim clean_prim c.ins wc hc
    have hvw := openIns_val c.ins w ()
    unfold openC
    generalize openIns c.ins wc = y at hv hvc hcl
    obtain ⟨resc, insc, nc, wc1⟩ := y
    simp only at hv hvc hcl
    subst hv
    obtain ⟨rfl, rfl⟩ := hvc
    generalize openIns c.ins w = x at hvw
    obtain ⟨res, ins1, n, w1⟩ := x
    simp only at hvw
    cases res with
    | val u =>
      obtain ⟨rfl, rfl⟩ := hvw rfl
      simp only []
      have hp := pullLoopJ_couple prog fuel kc lim 1
        ({ c with ins := c.ins.map (fun p => { p with rest := p.xs }), opened := c.ins.length } : Obj σ) [] w1 wc1 hcl
      generalize pullLoopJ prog fuel kc lim 1
        ({ c with ins := c.ins.map (fun p => { p with rest := p.xs }), opened := c.ins.length } : Obj σ) [] w1 = a at hp
      generalize pullLoopJ prog fuel kc lim 1
        ({ c with ins := c.ins.map (fun p => { p with rest := p.xs }), opened := c.ins.length } : Obj σ) [] wc1 = b at hp
      obtain ⟨ra, acca, ca, wa⟩ := a
      obtain ⟨rb, accb, cb, wb⟩ := b
      simp only at hp
      obtain ⟨l, rfl⟩ := hp
      have pre : acca.reverse <+: (l ++ acca).reverse := by simp
      cases rb with
      | oof => left; rfl
      | val u => right; cases ra <;> simp [outcomeOf, JOutcome.delivered]
      | eof => right; cases ra <;> simp [outcomeOf, JOutcome.delivered]
      | fail e => right; cases ra <;> simp [outcomeOf, JOutcome.delivered]
      | panic b => right; cases ra <;> simp [outcomeOf, JOutcome.delivered]
    | fail e => right; simp [JOutcome.delivered]
    | panic b => right; simp [JOutcome.delivered]
    | eof => right; simp [JOutcome.delivered]
    | oof => right; simp [JOutcome.delivered]

end ShpanVerif.Proofs.JoinLife
