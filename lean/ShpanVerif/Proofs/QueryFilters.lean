/-
C10 helper lemmas, filter level: every report / datasource filter preserves the soundness invariant of results
(unique non-empty URNs, valid types, conforming rows, strictly increasing timestamps).
-/
import ShpanVerif.Proofs.QuerySound

namespace ShpanVerif.Proofs.Query
open ShpanVerif.Model.Query List

variable {D : Type}

/-- the delivered records of a stream of pull results -/
def okRows {α : Type} (s : List (Option α)) : List α := s.filterMap id

/-- C10's invariant for a report result -/
structure RSound (res : RResult D) : Prop where
  nodup : (res.1.map (·.urn)).Nodup
  valid : ∀ m ∈ res.1, m.urn ≠ "" ∧ m.dt.valid = true
  rows : ∀ r ∈ okRows res.2, Conforms res.1 r.vals
  incr : ((okRows res.2).map (·.ts)).Pairwise (· < ·)

/-- C10's invariant for a datasource-package result -/
structure DSound (res : DResult D) : Prop where
  valid : res.1.urn ≠ "" ∧ res.1.dt.valid = true
  rows : ∀ r ∈ okRows res.2, tagOk res.1.dt res.1.required r.val
  incr : ((okRows res.2).map (·.ts)).Pairwise (· < ·)

/-! ## streams -/

theorem okRows_map_bind {α β : Type} (f : α → Option β) (s : List (Option α)) :
    okRows (s.map (·.bind f)) = (okRows s).filterMap f := by
  induction s with
  | nil => rfl
  | cons e s ih =>
    cases e with
    | none => simpa [okRows] using ih
    | some a =>
      simp only [okRows, map_cons, Option.bind_some, filterMap_cons, id_eq] at ih ⊢
      cases f a <;> simp [ih]

theorem filterMap_ts_sublist {α β : Type} (ta : α → Int) (tb : β → Int) (f : α → Option β)
    (hts : ∀ a b, f a = some b → tb b = ta a) (l : List α) :
    ((l.filterMap f).map tb) <+ (l.map ta) := by
  induction l with
  | nil => simp
  | cons a l ih =>
    simp only [filterMap_cons, map_cons]
    cases h : f a with
    | none => exact ih.cons _
    | some b => simp only [map_cons, hts a b h]; exact ih.cons_cons _

theorem okRows_whereStream_sublist {α : Type} (p : α → Option (Val D)) (s : List (Option α)) :
    okRows (whereStream p s) <+ okRows s := by
  induction s with
  | nil => simp [okRows, whereStream]
  | cons e s ih =>
    simp only [okRows, whereStream, filterMap_cons] at ih ⊢
    cases e with
    | none => simpa using ih
    | some a =>
      simp only [id_eq]
      cases hp : p a with
      | none => simpa using ih.cons a
      | some v =>
        cases v with
        | bool b =>
          cases b
          · simpa using ih.cons a
          · simpa using ih.cons_cons a
        | nil | int _ | dec _ | str _ | ts _ => simpa using ih.cons a

/-! ## list facts -/

theorem nodup_set {α : Type} [DecidableEq α] : ∀ {l : List α} {i : Nat} {x : α},
    l.Nodup → (x ∉ l ∨ l[i]? = some x) → (l.set i x).Nodup
  | [], _, _, _, _ => by simp
  | a :: l, 0, x, h, hx => by
    simp only [set_cons_zero, nodup_cons] at h ⊢
    rcases hx with hx | hx
    · exact ⟨fun hm => hx (mem_cons_of_mem _ hm), h.2⟩
    · simp at hx; subst hx; exact h
  | a :: l, i + 1, x, h, hx => by
    simp only [set_cons_succ, nodup_cons] at h ⊢
    refine ⟨fun hm => ?_, nodup_set h.2 ?_⟩
    · rcases mem_or_eq_of_mem_set hm with hm | rfl
      · exact h.1 hm
      · rcases hx with hx | hx
        · exact hx (by simp)
        · simp at hx; exact h.1 (mem_of_getElem? hx)
    · rcases hx with hx | hx
      · exact Or.inl fun hm => hx (mem_cons_of_mem _ hm)
      · exact Or.inr (by simpa using hx)

theorem Conforms.set_meta : ∀ {fms : List FieldMeta} {vs : List (Val D)} {i : Nat} {m m' : FieldMeta},
    fms[i]? = some m → m'.dt = m.dt → m'.required = m.required → Conforms fms vs → Conforms (fms.set i m') vs
  | [], _, _, _, _, h, _, _, _ => by simp at h
  | m0 :: ms, v :: vs, 0, m, m', h, hd, hr, hc => by
    simp at h; subst h
    exact ⟨by rw [hd, hr]; exact hc.1, hc.2⟩
  | m0 :: ms, v :: vs, i + 1, m, m', h, hd, hr, hc => by
    simp at h
    exact ⟨hc.1, Conforms.set_meta (fms := ms) h hd hr hc.2⟩
  | _ :: _, [], _, _, _, _, _, _, hc => by simp [Conforms] at hc

/-- picking cells by (field, index) pairs that point into the schema yields a row conforming to the picked fields -/
theorem Conforms.pick {fms : List FieldMeta} {vs : List (Val D)} (hc : Conforms fms vs) :
    ∀ {l : List (FieldMeta × Nat)} {out : List (Val D)}, (∀ p ∈ l, fms[p.2]? = some p.1) →
      (l.mapM fun p => vs[p.2]?) = some out → Conforms (l.map (·.1)) out
  | [], out, _, h => by simp at h; subst h; trivial
  | p :: l, out, hl, h => by
    simp only [mapM_cons, Option.bind_eq_bind, Option.bind_eq_some_iff, Option.pure_def, Option.some.injEq] at h
    obtain ⟨v, hv, vs', hvs', rfl⟩ := h
    obtain ⟨v', hv', htag⟩ := hc.get (hl p (by simp))
    rw [hv'] at hv
    simp only [Option.some.injEq] at hv; subst hv
    exact ⟨htag, Conforms.pick hc (fun q hq => hl q (by simp [hq])) hvs'⟩

theorem zipIdx_filter_map_fst_sublist {α : Type} (p : α × Nat → Bool) (l : List α) :
    ((l.zipIdx.filter p).map (·.1)) <+ l := by
  have := (filter_sublist (p := p) (l := l.zipIdx)).map Prod.fst
  rwa [zipIdx_map_fst] at this

/-! ## the generic step: a filter that maps rows one to one -/

theorem RSound.mapRows {fms fms' : List FieldMeta} {s : RStream D} {g : Row D → Option (Row D)}
    (hs : RSound (fms, s))
    (hnodup : (fms'.map (·.urn)).Nodup) (hvalid : ∀ m ∈ fms', m.urn ≠ "" ∧ m.dt.valid = true)
    (hts : ∀ r r', g r = some r' → r'.ts = r.ts)
    (hrow : ∀ r r', Conforms fms r.vals → g r = some r' → Conforms fms' r'.vals) :
    RSound (fms', mapRows g s) := by
  refine ⟨hnodup, hvalid, ?_, ?_⟩
  · intro r' hr'
    simp only [Model.Query.mapRows, okRows_map_bind, mem_filterMap] at hr'
    obtain ⟨r, hr, hg⟩ := hr'
    exact hrow r r' (hs.rows r hr) hg
  · simp only [Model.Query.mapRows, okRows_map_bind]
    exact hs.incr.sublist (filterMap_ts_sublist _ _ g hts _)

variable (O : Ops D)

/-- value planning + `PrepareField`: the new field is valid and every value it yields on a conforming row has its tag -/
theorem planPrepare_sound {v : RVal D} {afm : AddFieldMeta} {fms : List FieldMeta} {fm : FieldMeta}
    {fn : RowFn (List (Val D)) D} (h : (planRVal O v fms >>= prepareK afm) = .ok (fm, fn)) :
    fm.urn = afm.urn ∧ fm.urn ≠ "" ∧ fm.dt.valid = true ∧
      ∀ row x, Conforms fms row → fn row = some x → tagOk fm.dt fm.required x := by
  simp only [bind, Except.bind] at h
  split at h
  · simp at h
  · rename_i p hp
    obtain ⟨rfl, hu, hd, hr, hne, hv⟩ := prepareK_ok h
    refine ⟨hu, hne, hv, fun row x hrow hx => ?_⟩
    rw [hd, hr]
    exact planRVal_sound O v hp row hrow x hx

theorem not_hasField {fms : List FieldMeta} {urn : String} (h : hasField fms urn = false) :
    urn ∉ fms.map (·.urn) := by
  intro hm
  simp only [mem_map] at hm
  obtain ⟨m, hm, rfl⟩ := hm
  have : hasField fms m.urn = true := hasField_iff.mpr ⟨m, hm, rfl⟩
  simp [this] at h

theorem appendF_sound {v : RVal D} {afm : AddFieldMeta} {res res' : RResult D} (hs : RSound res)
    (h : appendF O v afm res = .ok res') : RSound res' := by
  obtain ⟨fms, s⟩ := res
  simp only [appendF] at h
  split at h
  · simp at h
  · rename_i fm fn hp
    split at h
    · simp at h
    · rename_i hdup
      simp only [Bool.not_eq_true] at hdup
      simp only [Except.ok.injEq] at h; subst h
      obtain ⟨hu, hne, hv, hval⟩ := planPrepare_sound O hp
      refine hs.mapRows ?_ ?_ ?_ ?_
      · simp only [map_append, map_cons, map_nil]
        refine nodup_append.mpr ⟨hs.nodup, by simp, ?_⟩
        intro a ha b hb
        simp only [mem_cons, not_mem_nil, or_false] at hb
        subst hb
        intro hab; subst hab
        exact not_hasField hdup (hu ▸ ha)
      · intro m hm
        rcases mem_append.mp hm with hm | hm
        · exact hs.valid m hm
        · simp only [mem_cons, not_mem_nil, or_false] at hm; subst hm; exact ⟨hne, hv⟩
      · intro r r' hg
        simp only [Option.map_eq_some_iff] at hg
        obtain ⟨x, _, rfl⟩ := hg
        rfl
      · intro r r' hc hg
        simp only [Option.map_eq_some_iff] at hg
        obtain ⟨x, hx, rfl⟩ := hg
        exact hc.append (Conforms.single (hval _ _ hc hx))

theorem dropF_sound {urns : List String} {res res' : RResult D} (hs : RSound res)
    (h : dropF urns res = .ok res') : RSound res' := by
  obtain ⟨fms, s⟩ := res
  simp only [dropF] at h
  split at h
  · simp at h
  · split at h
    · simp at h
    · simp only [Except.ok.injEq] at h; subst h
      have hsub := zipIdx_filter_map_fst_sublist (fun p : FieldMeta × Nat => !urns.eraseDups.contains p.1.urn) fms
      refine hs.mapRows ?_ ?_ ?_ ?_
      · exact hs.nodup.sublist (hsub.map _)
      · intro m hm
        exact hs.valid m (hsub.subset hm)
      · intro r r' hg
        simp only [Option.map_eq_some_iff] at hg
        obtain ⟨x, _, rfl⟩ := hg
        rfl
      · intro r r' hc hg
        simp only [Option.map_eq_some_iff] at hg
        obtain ⟨vs, hvs, rfl⟩ := hg
        refine hc.pick (fun p hp => ?_) hvs
        exact mem_zipIdx_iff_getElem?.mp (mem_filter.mp hp).1

theorem singleF_sound {v : RVal D} {afm : AddFieldMeta} {res res' : RResult D} (hs : RSound res)
    (h : singleF O v afm res = .ok res') : RSound res' := by
  obtain ⟨fms, s⟩ := res
  simp only [singleF] at h
  split at h
  · simp at h
  · rename_i fm fn hp
    simp only [Except.ok.injEq] at h; subst h
    obtain ⟨_, hne, hv, hval⟩ := planPrepare_sound O hp
    refine hs.mapRows (by simp) ?_ ?_ ?_
    · intro m hm
      simp only [mem_cons, not_mem_nil, or_false] at hm; subst hm; exact ⟨hne, hv⟩
    · intro r r' hg
      simp only [Option.map_eq_some_iff] at hg
      obtain ⟨x, _, rfl⟩ := hg
      rfl
    · intro r r' hc hg
      simp only [Option.map_eq_some_iff] at hg
      obtain ⟨x, hx, rfl⟩ := hg
      exact Conforms.single (hval _ _ hc hx)

theorem replaceF_sound {urn : String} {v : RVal D} {afm : AddFieldMeta} {res res' : RResult D} (hs : RSound res)
    (h : replaceF O urn v afm res = .ok res') : RSound res' := by
  obtain ⟨fms, s⟩ := res
  simp only [replaceF] at h
  split at h
  · simp at h
  · rename_i m idx hfind
    split at h
    · simp at h
    · rename_i fm fn hp
      split at h
      · simp at h
      · rename_i hdup
        simp only [Except.ok.injEq] at h; subst h
        obtain ⟨_, hne, hv, hval⟩ := planPrepare_sound O hp
        obtain ⟨hidx, hmu⟩ := findField_spec hfind
        refine hs.mapRows ?_ ?_ ?_ ?_
        · rw [map_set]
          refine nodup_set hs.nodup ?_
          by_cases heq : fm.urn = urn
          · right; simp [hidx, hmu, heq]
          · left
            have : hasField fms fm.urn = false := by
              cases hh : hasField fms fm.urn
              · rfl
              · exact absurd ⟨heq, hh⟩ hdup
            exact not_hasField this
        · intro m' hm'
          rcases mem_or_eq_of_mem_set hm' with hm' | rfl
          · exact hs.valid m' hm'
          · exact ⟨hne, hv⟩
        · intro r r' hg
          simp only [Option.bind_eq_some_iff] at hg
          obtain ⟨x, _, hg⟩ := hg
          split at hg
          · simp only [Option.some.injEq] at hg; subst hg; rfl
          · simp at hg
        · intro r r' hc hg
          simp only [Option.bind_eq_some_iff] at hg
          obtain ⟨x, hx, hg⟩ := hg
          split at hg
          · simp only [Option.some.injEq] at hg; subst hg
            exact hc.set (hval _ _ hc hx)
          · simp at hg

theorem overrideRF_sound {fix : Bool} {u : String} {nu nn : Option String} {c : CustomMeta} {res res' : RResult D}
    (hs : RSound res) (h : overrideRF fix u nu nn c res = .ok res') : RSound res' := by
  obtain ⟨fms, s⟩ := res
  simp only [overrideRF] at h
  split at h
  · simp at h
  · rename_i orig idx hfind
    obtain ⟨hidx, _⟩ := findField_spec hfind
    split at h
    · simp at h
    · rename_i u' hu'
      split at h
      · simp at h
      · rename_i fm hfm
        simp only [Except.ok.injEq] at h; subst h
        obtain ⟨rfl, hne, hv⟩ := newFieldMeta_ok hfm
        refine ⟨?_, ?_, ?_, hs.incr⟩
        · simp only [map_set]
          refine nodup_set hs.nodup ?_
          -- u' is the original urn, or a urn that is not in the result
          simp only [overrideUrn] at hu'
          cases nu with
          | none => simp only [Except.ok.injEq] at hu'; subst hu'; right; simp [hidx]
          | some w =>
            simp only at hu'
            split at hu'
            · split at hu'
              · simp at hu'
              · rename_i hnf
                simp only [Except.ok.injEq] at hu'; subst hu'
                left
                exact not_hasField (by simpa using hnf)
            · simp only [Except.ok.injEq] at hu'; subst hu'; right; simp [hidx]
        · intro m' hm'
          rcases mem_or_eq_of_mem_set hm' with hm' | rfl
          · exact hs.valid m' hm'
          · exact ⟨hne, hv⟩
        · intro r hr
          exact Conforms.set_meta hidx rfl rfl (hs.rows r hr)

theorem whereRF_sound {v : RVal D} {res res' : RResult D} (hs : RSound res)
    (h : whereRF O v res = .ok res') : RSound res' := by
  obtain ⟨fms, s⟩ := res
  simp only [whereRF] at h
  split at h
  · simp at h
  · split at h
    · simp at h
    · split at h
      · simp at h
      · rename_i vm fn _ _ _
        simp only [Except.ok.injEq] at h; subst h
        have hsub := okRows_whereStream_sublist (fun r : Row D => fn r.vals) s
        exact ⟨hs.nodup, hs.valid, fun r hr => hs.rows r (hsub.subset hr), hs.incr.sublist (hsub.map _)⟩

end ShpanVerif.Proofs.Query

namespace ShpanVerif.Proofs.Query
open ShpanVerif.Model.Query List

variable {D : Type} (O : Ops D)

theorem selectPlan_sound (fms : List FieldMeta) :
    ∀ (fs : List (RVal D × AddFieldMeta)) (seen : List String) (nm metas : List FieldMeta)
      (fns : List (RowFn (List (Val D)) D)),
      selectPlan O fms fs seen nm = .ok (metas, fns) →
      (∀ u, seen.contains u = true ↔ u ∈ nm.map (·.urn)) → (nm.map (·.urn)).Nodup →
      (∀ m ∈ nm, m.urn ≠ "" ∧ m.dt.valid = true) →
      (metas.map (·.urn)).Nodup ∧ (∀ m ∈ metas, m.urn ≠ "" ∧ m.dt.valid = true) ∧
        ∀ cur, Conforms (fms ++ nm) cur → ∀ out, selectRow fns cur = some out → Conforms (fms ++ metas) out
  | [], seen, nm, metas, fns, h, _, hnd, hv => by
    simp only [selectPlan, Except.ok.injEq, Prod.mk.injEq] at h
    obtain ⟨rfl, rfl⟩ := h
    refine ⟨hnd, hv, fun cur hc out ho => ?_⟩
    simp only [selectRow, Option.some.injEq] at ho
    subst ho; exact hc
  | (v, afm) :: rest, seen, nm, metas, fns, h, hseen, hnd, hv => by
    simp only [selectPlan] at h
    split at h
    · simp at h
    · rename_i hns
      split at h
      · simp at h
      · rename_i fm fn hp
        split at h
        · simp at h
        · rename_i metas' fns' hrec
          simp only [Except.ok.injEq, Prod.mk.injEq] at h
          obtain ⟨rfl, rfl⟩ := h
          obtain ⟨hu, hne, hval, htag⟩ := planPrepare_sound O hp
          have hnotin : afm.urn ∉ nm.map (·.urn) := fun hm => hns ((hseen _).mpr hm)
          obtain ⟨h1, h2, h3⟩ := selectPlan_sound fms rest (afm.urn :: seen) (nm ++ [fm]) _ _ hrec
            (by
              intro u
              simp only [contains_cons, Bool.or_eq_true, beq_iff_eq, map_append, map_cons, map_nil, mem_append,
                mem_cons, not_mem_nil, or_false, hu]
              rw [hseen u]
              exact or_comm)
            (by
              simp only [map_append, map_cons, map_nil]
              refine nodup_append.mpr ⟨hnd, by simp, ?_⟩
              intro a ha b hb
              simp only [mem_cons, not_mem_nil, or_false] at hb
              subst hb
              intro hab; subst hab
              exact hnotin (hu ▸ ha))
            (by
              intro m hm
              rcases mem_append.mp hm with hm | hm
              · exact hv m hm
              · simp only [mem_cons, not_mem_nil, or_false] at hm; subst hm; exact ⟨hne, hval⟩)
          refine ⟨h1, h2, fun cur hc out ho => ?_⟩
          simp only [selectRow, Option.bind_eq_some_iff] at ho
          obtain ⟨x, hx, ho⟩ := ho
          refine h3 (cur ++ [x]) ?_ out ho
          rw [← append_assoc]
          exact hc.append (Conforms.single (htag _ _ hc hx))

theorem selectRow_length : ∀ (fns : List (RowFn (List (Val D)) D)) (cur out : List (Val D)),
    selectRow fns cur = some out → cur.length ≤ out.length
  | [], cur, out, h => by simp [selectRow] at h; subst h; exact Nat.le_refl _
  | fn :: fns, cur, out, h => by
    simp only [selectRow, Option.bind_eq_some_iff] at h
    obtain ⟨x, _, h⟩ := h
    have := selectRow_length fns _ _ h
    simp at this; omega

theorem selectF_sound {fs : List (RVal D × AddFieldMeta)} {res res' : RResult D} (hs : RSound res)
    (h : selectF O fs res = .ok res') : RSound res' := by
  obtain ⟨fms, s⟩ := res
  simp only [selectF] at h
  split at h
  · simp at h
  · split at h
    · simp at h
    · rename_i metas fns hplan
      simp only [Except.ok.injEq] at h; subst h
      obtain ⟨h1, h2, h3⟩ := selectPlan_sound O fms fs [] [] metas fns hplan (by simp) (by simp) (by simp)
      refine hs.mapRows h1 h2 ?_ ?_
      · intro r r' hg
        simp only [Option.map_eq_some_iff] at hg
        obtain ⟨x, _, rfl⟩ := hg
        rfl
      · intro r r' hc hg
        simp only [Option.map_eq_some_iff] at hg
        obtain ⟨cur, hcur, rfl⟩ := hg
        have := h3 r.vals (by simpa using hc) cur hcur
        rw [hc.length_eq]
        exact this.drop_append

theorem applyRF_sound {fix : Bool} {f : RFilter D} {res res' : RResult D} (hs : RSound res)
    (h : applyRF O fix f res = .ok res') : RSound res' := by
  cases f with
  | append v afm => exact appendF_sound O hs h
  | drop urns => exact dropF_sound hs h
  | select fs => exact selectF_sound O hs h
  | replace urn v afm => exact replaceF_sound O hs h
  | single v afm => exact singleF_sound O hs h
  | override u nu nn c => exact overrideRF_sound hs h
  | where_ v => exact whereRF_sound O hs h

theorem applyRFs_sound {fix : Bool} : ∀ (fs : List (RFilter D)) {res res' : RResult D}, RSound res →
    applyRFs O fix fs res = .ok res' → RSound res'
  | [], res, res', hs, h => by simp only [applyRFs, Except.ok.injEq] at h; subst h; exact hs
  | f :: fs, res, res', hs, h => by
    simp only [applyRFs, bind, Except.bind] at h
    split at h
    · simp at h
    · rename_i r1 h1
      exact applyRFs_sound fs (applyRF_sound O hs h1) h

/-! ## datasource-package filters -/

theorem DSound.mapRecs {fm fm' : FieldMeta} {s : DStream D} {g : DRec D → Option (DRec D)}
    (hs : DSound (fm, s)) (hvalid : fm'.urn ≠ "" ∧ fm'.dt.valid = true)
    (hts : ∀ r r', g r = some r' → r'.ts = r.ts)
    (hrow : ∀ r r', tagOk fm.dt fm.required r.val → g r = some r' → tagOk fm'.dt fm'.required r'.val) :
    DSound (fm', mapRecs g s) := by
  refine ⟨hvalid, ?_, ?_⟩
  · intro r' hr'
    simp only [Model.Query.mapRecs, okRows_map_bind, mem_filterMap] at hr'
    obtain ⟨r, hr, hg⟩ := hr'
    exact hrow r r' (hs.rows r hr) hg
  · simp only [Model.Query.mapRecs, okRows_map_bind]
    exact hs.incr.sublist (filterMap_ts_sublist _ _ g hts _)

theorem fvalF_sound {v : DVal D} {afm : AddFieldMeta} {res res' : DResult D} (hs : DSound res)
    (h : fvalF O v afm res = .ok res') : DSound res' := by
  obtain ⟨fm0, s⟩ := res
  simp only [fvalF, bind, Except.bind] at h
  split at h
  · simp at h
  · rename_i fm fn hp
    simp only [Except.ok.injEq] at h; subst h
    split at hp
    · simp at hp
    · rename_i p hplan
      obtain ⟨rfl, _, hd, hr, hne, hv⟩ := prepareK_ok hp
      refine hs.mapRecs ⟨hne, hv⟩ ?_ ?_
      · intro r r' hg
        simp only [Option.map_eq_some_iff] at hg
        obtain ⟨x, _, rfl⟩ := hg
        rfl
      · intro r r' hc hg
        simp only [Option.map_eq_some_iff] at hg
        obtain ⟨x, hx, rfl⟩ := hg
        rw [hd, hr]
        exact planDVal_sound O v hplan r.val hc x hx

theorem whereDF_sound {v : DVal D} {res res' : DResult D} (hs : DSound res)
    (h : whereDF O v res = .ok res') : DSound res' := by
  obtain ⟨fm0, s⟩ := res
  simp only [whereDF] at h
  split at h
  · simp at h
  · split at h
    · simp at h
    · split at h
      · simp at h
      · rename_i vm fn _ _ _
        simp only [Except.ok.injEq] at h; subst h
        have hsub := okRows_whereStream_sublist (fun r : DRec D => fn r.val) s
        exact ⟨hs.valid, fun r hr => hs.rows r (hsub.subset hr), hs.incr.sublist (hsub.map _)⟩

theorem overrideDF_sound {nu nn : Option String} {c : CustomMeta} {res res' : DResult D} (hs : DSound res)
    (h : overrideDF nu nn c res = .ok res') : DSound res' := by
  obtain ⟨fm0, s⟩ := res
  simp only [overrideDF] at h
  split at h
  · simp at h
  · rename_i fm hfm
    simp only [Except.ok.injEq] at h; subst h
    obtain ⟨rfl, hne, hv⟩ := newFieldMeta_ok hfm
    exact ⟨⟨hne, hv⟩, hs.rows, hs.incr⟩

theorem applyDFs_sound : ∀ (fs : List (DFilter D)) {res res' : DResult D}, DSound res →
    applyDFs O fs res = .ok res' → DSound res'
  | [], res, res', hs, h => by simp only [applyDFs, Except.ok.injEq] at h; subst h; exact hs
  | f :: fs, res, res', hs, h => by
    simp only [applyDFs, bind, Except.bind] at h
    split at h
    · simp at h
    · rename_i r1 h1
      refine applyDFs_sound fs ?_ h
      cases f with
      | fval v afm => exact fvalF_sound O hs h1
      | where_ v => exact whereDF_sound O hs h1
      | override nu nn c => exact overrideDF_sound hs h1

end ShpanVerif.Proofs.Query
