/-
Lemmas about the slice heap (`Model/Slice.lean`): views under heap extension, `clip`, `reslice`,
and the master facts about `appendMany` (value, well-formedness, frame, ownership).
-/
import ShpanVerif.Model.Slice

namespace ShpanVerif.Proofs.SliceLemmas
open ShpanVerif.Model.Slice

variable {α : Type}

/-! ### arrays of an extended heap -/

theorem arrOf_of_ge {h : Heap α} {a : Nat} (ha : h.length ≤ a) : arrOf h a = [] := by
  simp [arrOf, List.getD_eq_getElem?_getD, List.getElem?_eq_none ha]

theorem arrOf_append_left {h e : Heap α} {a : Nat} (ha : a < h.length) :
    arrOf (h ++ e) a = arrOf h a := by
  simp [arrOf, List.getD_eq_getElem?_getD, List.getElem?_append_left ha]

theorem arrOf_append_new {h : Heap α} {x : List α} : arrOf (h ++ [x]) h.length = x := by
  simp [arrOf, List.getD_eq_getElem?_getD]

theorem arrOf_set_ne {h : Heap α} {a b : Nat} {x : List α} (hne : a ≠ b) :
    arrOf (h.set a x) b = arrOf h b := by
  simp [arrOf, List.getD_eq_getElem?_getD, hne]

theorem arrOf_set_self {h : Heap α} {a : Nat} {x : List α} (ha : a < h.length) :
    arrOf (h.set a x) a = x := by
  simp [arrOf, List.getD_eq_getElem?_getD, ha]

theorem extends_refl (h : Heap α) : Extends h h := ⟨[], by simp⟩

theorem extends_trans {h1 h2 h3 : Heap α} (a : Extends h1 h2) (b : Extends h2 h3) : Extends h1 h3 := by
  obtain ⟨e1, rfl⟩ := a
  obtain ⟨e2, rfl⟩ := b
  exact ⟨e1 ++ e2, by simp⟩

theorem extends_length_le {h h' : Heap α} (e : Extends h h') : h.length ≤ h'.length := by
  obtain ⟨e, rfl⟩ := e
  simp

theorem extends_arrOf {h h' : Heap α} (e : Extends h h') {a : Nat} (ha : a < h.length) :
    arrOf h' a = arrOf h a := by
  obtain ⟨e, rfl⟩ := e
  exact arrOf_append_left ha

/-- Every array of the old heap is literally still there (cells inside AND outside any slice). -/
theorem extends_take_eq {h h' : Heap α} (e : Extends h h') : h'.take h.length = h := by
  obtain ⟨e, rfl⟩ := e
  simp

theorem extends_push (h : Heap α) (x : List α) : Extends h (h ++ [x]) := ⟨[x], rfl⟩

/-! ### slices of an extended heap -/

theorem WF_degenerate {h : Heap α} {s : Slice} (w : s.WF h) (ha : h.length ≤ s.arr) :
    s.len = 0 ∧ s.cap = 0 ∧ s.off = 0 := by
  obtain ⟨w1, w2⟩ := w
  rw [arrOf_of_ge ha] at w2
  simp at w2
  omega

theorem view_extends {h h' : Heap α} {s : Slice} (e : Extends h h') (w : s.WF h) :
    view h' s = view h s := by
  by_cases ha : s.arr < h.length
  · simp [view, extends_arrOf e ha]
  · have := WF_degenerate w (Nat.le_of_not_lt ha)
    simp [view, this.1]

theorem extent_extends {h h' : Heap α} {s : Slice} (e : Extends h h') (w : s.WF h) :
    extent h' s = extent h s := by
  by_cases ha : s.arr < h.length
  · simp [extent, extends_arrOf e ha]
  · have := WF_degenerate w (Nat.le_of_not_lt ha)
    simp [extent, this.2.1]

theorem WF_extends {h h' : Heap α} {s : Slice} (e : Extends h h') (w : s.WF h) : s.WF h' := by
  by_cases ha : s.arr < h.length
  · simpa [Slice.WF, extends_arrOf e ha] using w
  · have := WF_degenerate w (Nat.le_of_not_lt ha)
    simp [Slice.WF, this]

theorem view_length {h : Heap α} {s : Slice} (w : s.WF h) : (view h s).length = s.len := by
  obtain ⟨w1, w2⟩ := w
  simp [view]
  omega

/-! ### nil, clip, reslice -/

theorem WF_nil (h : Heap α) : nilSlice.WF h := by simp [Slice.WF, nilSlice]
theorem view_nil (h : Heap α) : view h nilSlice = [] := by simp [view, nilSlice]
theorem owned_nil (b : Heap α) : Owned b nilSlice := Or.inl rfl

theorem WF_clip {h : Heap α} {s : Slice} (w : s.WF h) : (clip s).WF h := by
  obtain ⟨w1, w2⟩ := w
  simp [Slice.WF, clip]
  omega

theorem view_clip (h : Heap α) (s : Slice) : view h (clip s) = view h s := rfl

theorem owned_clip (b : Heap α) (s : Slice) : Owned b (clip s) := Or.inl rfl

theorem WF_reslice {h : Heap α} {s : Slice} {a b : Nat} (w : s.WF h) (hab : a ≤ b) (hb : b ≤ s.len) :
    (reslice s a b).WF h := by
  obtain ⟨w1, w2⟩ := w
  simp [Slice.WF, reslice]
  omega

theorem view_reslice_to_len {h : Heap α} {s : Slice} {a : Nat} :
    view h (reslice s a s.len) = (view h s).drop a := by
  simp only [view, reslice, List.drop_take, List.drop_drop]

/-! ### `appendMany` -/

section app
variable [Inhabited α]

omit [Inhabited α] in
theorem writeRange_nil (h : Heap α) (a i : Nat) : writeRange h a i [] = h := by
  unfold writeRange
  simp only [List.append_nil, List.length_nil, Nat.add_zero, List.take_append_drop]
  apply List.ext_getElem?
  intro j
  by_cases hj : a = j
  · subst hj
    by_cases hl : a < h.length
    · simp [hl, arrOf, List.getD_eq_getElem?_getD]
    · simp [hl]
  · simp [hj]

/-- substrate: a full slice makes `append` allocate; the old heap is a prefix of the new one. -/
theorem appendMany_fresh {h : Heap α} {s : Slice} {vs : List α} {g : Nat} (hfull : s.cap < s.len + vs.length) :
    appendMany h s vs g =
      (h ++ [view h s ++ vs ++ List.replicate g default],
       { arr := h.length, off := 0, len := s.len + vs.length, cap := s.len + vs.length + g }) := by
  simp [appendMany, Nat.not_le.mpr hfull]

/-- substrate: with spare capacity `append` writes in place and the result shares the array. -/
theorem appendMany_in_place {h : Heap α} {s : Slice} {vs : List α} {g : Nat} (hsp : s.len + vs.length ≤ s.cap) :
    appendMany h s vs g =
      (writeRange h s.arr (s.off + s.len) vs, { s with len := s.len + vs.length }) := by
  simp [appendMany, hsp]

theorem append_fresh_if_full {h : Heap α} {s : Slice} {v : α} {g : Nat} (hfull : s.len = s.cap) :
    append h s v g =
      (h ++ [view h s ++ [v] ++ List.replicate g default],
       { arr := h.length, off := 0, len := s.len + 1, cap := s.len + 1 + g }) := by
  unfold append
  rw [appendMany_fresh (by simp; omega)]
  simp

theorem append_in_place_if_spare {h : Heap α} {s : Slice} {v : α} {g : Nat} (hsp : s.len < s.cap) :
    append h s v g =
      (writeRange h s.arr (s.off + s.len) [v], { s with len := s.len + 1 }) := by
  unfold append
  rw [appendMany_in_place (by simp; omega)]
  simp

omit [Inhabited α] in
/-- In-place write: the written array seen through the enlarged slice. -/
theorem view_writeRange {h : Heap α} {s : Slice} {vs : List α} (w : s.WF h)
    (hsp : s.len + vs.length ≤ s.cap) :
    view (writeRange h s.arr (s.off + s.len) vs) { s with len := s.len + vs.length } = view h s ++ vs := by
  obtain ⟨w1, w2⟩ := w
  by_cases hlt : s.arr < h.length
  case neg =>
    rw [arrOf_of_ge (Nat.le_of_not_lt hlt)] at w2
    simp at w2
    have hv : vs = [] := List.eq_nil_of_length_eq_zero (by omega)
    subst hv
    simp [writeRange_nil, view]
  unfold view writeRange
  dsimp only
  rw [arrOf_set_self hlt]
  have hx : s.off + s.len ≤ (arrOf h s.arr).length := by omega
  have e1 : ((arrOf h s.arr).take (s.off + s.len)).length = s.off + s.len := by
    simp only [List.length_take]; omega
  have e2 : (List.take s.len (List.drop s.off (arrOf h s.arr))).length = s.len := by
    simp only [List.length_take, List.length_drop]; omega
  rw [List.append_assoc, List.drop_append_of_le_length (by omega), List.drop_take,
    Nat.add_sub_cancel_left, ← List.append_assoc,
    List.take_append_of_le_length (by simp only [List.length_append, e2]; omega),
    List.take_of_length_le (by simp only [List.length_append, e2]; omega)]


omit [Inhabited α] in
theorem WF_writeRange {h : Heap α} {s : Slice} {vs : List α} (w : s.WF h)
    (hsp : s.len + vs.length ≤ s.cap) :
    Slice.WF (writeRange h s.arr (s.off + s.len) vs) { s with len := s.len + vs.length } := by
  obtain ⟨w1, w2⟩ := w
  by_cases hlt : s.arr < h.length
  case neg =>
    rw [arrOf_of_ge (Nat.le_of_not_lt hlt)] at w2
    simp at w2
    have hv : vs = [] := List.eq_nil_of_length_eq_zero (by omega)
    subst hv
    simp only [writeRange_nil, Slice.WF, arrOf_of_ge (Nat.le_of_not_lt hlt)]
    simp
    omega
  unfold Slice.WF writeRange
  dsimp only
  rw [arrOf_set_self hlt]
  simp only [List.length_append, List.length_take, List.length_drop]
  omega

/-- Value of `append(s, vs...)`: the old contents followed by the new elements, whatever the capacity
    and whatever the growth oracle chose. -/
theorem view_appendMany {h : Heap α} {s : Slice} (vs : List α) (g : Nat) (w : s.WF h) :
    view (appendMany h s vs g).1 (appendMany h s vs g).2 = view h s ++ vs := by
  by_cases hsp : s.len + vs.length ≤ s.cap
  · rw [appendMany_in_place hsp]
    exact view_writeRange w hsp
  · rw [appendMany_fresh (Nat.lt_of_not_le hsp)]
    have hl := view_length w
    simp only [view, arrOf_append_new, List.drop_zero]
    rw [List.take_append_of_le_length (by simp [view] at hl ⊢; omega)]
    exact List.take_of_length_le (by simp [view] at hl ⊢; omega)

theorem WF_appendMany {h : Heap α} {s : Slice} (vs : List α) (g : Nat) (w : s.WF h) :
    (appendMany h s vs g).2.WF (appendMany h s vs g).1 := by
  by_cases hsp : s.len + vs.length ≤ s.cap
  · rw [appendMany_in_place hsp]
    exact WF_writeRange w hsp
  · rw [appendMany_fresh (Nat.lt_of_not_le hsp)]
    have hl := view_length w
    simp only [Slice.WF, arrOf_append_new, List.length_append, List.length_replicate, hl]
    omega

/-- Frame: `append` never touches an array other than the slice's own one. -/
theorem appendMany_other_arrays {h : Heap α} {s : Slice} (vs : List α) (g : Nat) {a : Nat}
    (ha : a < h.length) (hne : a ≠ s.arr) : arrOf (appendMany h s vs g).1 a = arrOf h a := by
  by_cases hsp : s.len + vs.length ≤ s.cap
  · rw [appendMany_in_place hsp]
    exact arrOf_set_ne (Ne.symm hne)
  · rw [appendMany_fresh (Nat.lt_of_not_le hsp)]
    exact arrOf_append_left ha

omit [Inhabited α] in
theorem extends_writeRange_owned {base h : Heap α} (e : Extends base h) {a : Nat} (ha : base.length ≤ a)
    (i : Nat) (vs : List α) : Extends base (writeRange h a i vs) := by
  obtain ⟨ex, rfl⟩ := e
  unfold writeRange
  rw [List.set_append, if_neg (Nat.not_lt.mpr ha)]
  exact ⟨_, rfl⟩

/-- The ownership step: on a slice that is full or whose array was allocated after `base`,
    `append` leaves every array of `base` untouched, and the result is again such a slice. -/
theorem appendMany_owned {base h : Heap α} {s : Slice} (vs : List α) (g : Nat)
    (e : Extends base h) (o : Owned base s) :
    Extends base (appendMany h s vs g).1 ∧ Owned base (appendMany h s vs g).2 := by
  by_cases hsp : s.len + vs.length ≤ s.cap
  · rw [appendMany_in_place hsp]
    rcases o with hfull | hown
    · have hv : vs = [] := List.eq_nil_of_length_eq_zero (by omega)
      subst hv
      exact ⟨by rw [writeRange_nil]; exact e, Or.inl (by simpa using hfull)⟩
    · exact ⟨extends_writeRange_owned e hown _ _, Or.inr hown⟩
  · rw [appendMany_fresh (Nat.lt_of_not_le hsp)]
    exact ⟨extends_trans e (extends_push _ _), Or.inr (extends_length_le e)⟩

/-- After `slices.Clip`, `append` never writes to an existing array: the new heap is the old heap plus
    one fresh array (so every cell visible through ANY other slice, and every spare cell, is unchanged). -/
theorem clip_append_fresh (h : Heap α) (s : Slice) (v : α) (g : Nat) :
    (append h (clip s) v g).1 = h ++ [view h s ++ [v] ++ List.replicate g default] ∧
    (append h (clip s) v g).2 = { arr := h.length, off := 0, len := s.len + 1, cap := s.len + 1 + g } := by
  rw [append_fresh_if_full (by simp [clip])]
  simp [clip, view]

/-- The frame property in the form used by clients: any well-formed slice reads the same cells before and
    after `append(slices.Clip(s), v)`. -/
theorem clip_append_frame {h : Heap α} (s : Slice) (v : α) (g : Nat) {t : Slice} (wt : t.WF h) :
    view (append h (clip s) v g).1 t = view h t ∧ extent (append h (clip s) v g).1 t = extent h t := by
  have e : Extends h (append h (clip s) v g).1 := by
    rw [(clip_append_fresh h s v g).1]; exact extends_push _ _
  exact ⟨view_extends e wt, extent_extends e wt⟩

end app

end ShpanVerif.Proofs.SliceLemmas
