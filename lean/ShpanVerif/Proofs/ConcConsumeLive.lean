/-
Concurrent consume: completeness of a successful result, the global decreasing measure, deadlock freedom.
-/
import ShpanVerif.Proofs.ConcConsumeInv

namespace ShpanVerif.Proofs.ConcConsume
open ShpanVerif.Model.Conc ShpanVerif.Model.ConcConsume

/-- With the producer done, all workers exited and a failure-free history, every element went to the callback. -/
theorem complete_of_joined {cfg : Cfg} {s : St} (hc : 0 < cfg.c) (hb : Basic cfg s) (he : Exact cfg s)
    (h1 : s.prod = .done) (h2 : s.wExit = cfg.c) : (∀ i, i < cfg.n → s.called.count i = 1) ∧ s.wCb = [] := by
  have hw := hb.workers
  have hm : s.wCb = [] := List.eq_nil_of_length_eq_zero (by omega)
  have hs : s.ch = [] := (he.exit_closed (by omega)).2
  have hcur : s.cursor = cfg.n := he.prod_eof (Or.inr h1)
  refine ⟨fun i hi => ?_, hm⟩
  have := he.cons i
  simp [cnt, inHand, h1, hs, hcur, hi] at this
  exact this

/-- `nil` from the terminal means (unless a failure was injected) that the callback ran for every element. -/
def OkComplete (cfg : Cfg) (s : St) : Prop :=
  s.res = some .ok → s.faulted = true ∨ ((∀ i, i < cfg.n → s.called.count i = 1) ∧ s.wCb = [])

set_option maxHeartbeats 2000000 in
theorem okComplete_step {cfg : Cfg} {s s' : St} {l : Label} (hc : 0 < cfg.c)
    (hb : Basic cfg s) (he : FF s → Exact cfg s) (h : OkComplete cfg s) (hs : step cfg s l = some s') :
    OkComplete cfg s' := by
  have hcomp : s.ctx0 = false → s.faulted = false → s.prod = .done → s.wExit = cfg.c →
      (∀ i, i < cfg.n → s.called.count i = 1) ∧ s.wCb = [] :=
    fun a b => complete_of_joined hc hb (he ⟨a, b⟩)
  clear he
  have hres := hb.res_iff
  have hwg := hb.term_wg
  have hpr := hb.term_prod
  have hw := hb.workers
  unfold OkComplete at *
  by_cases hl : l = .tResult
  · subst hl
    simp only [step] at hs
    split at hs
    · rename_i hg
      have h1 := hwg (by simp [hg])
      have h2 := hpr (by simp [hg]) (by simp [hg])
      simp only [Option.some.injEq] at hs
      subst hs
      simp only [Option.some.injEq]
      intro hok
      by_cases hf : s.faulted = true
      · exact Or.inl hf
      · simp only [Bool.not_eq_true] at hf
        refine Or.inr (hcomp ?_ hf h2 h1)
        cases hfe : s.firstErr <;> cases hcx : s.ctx0 <;> simp_all
    · simp at hs
  · step_cases hs <;> (first | exact absurd rfl hl | (simp_all; done) | (simp_all; grind [List.length_pos_of_mem]))

theorem okComplete {cfg : Cfg} {s : St} (hc : 0 < cfg.c) (hr : Reachable (sys cfg) s) : OkComplete cfg s := by
  have : Basic cfg s ∧ (FF s → Exact cfg s) ∧ OkComplete cfg s := by
    refine invariant (sys := sys cfg) (P := fun s => Basic cfg s ∧ (FF s → Exact cfg s) ∧ OkComplete cfg s) ?_ ?_ s hr
    · exact ⟨basic_init cfg, fun _ => by constructor <;> simp [sys, init, cnt, inHand], by simp [OkComplete, sys, init]⟩
    · intro s l s' h hs
      exact ⟨basic_step h.1 hs, exact_step h.1 h.2.1 hs, okComplete_step hc h.1 h.2.1 h.2.2 hs⟩
  exact this.2.2

/-! ### measure -/

def pW : PPc → Nat
  | .done => 0 | .closing => 1 | .inEmit => 2 | .check => 3 | .have _ => 11

def tW : TPc → Nat
  | .ret => 0 | .close1 => 1 | .close0 => 2 | .cancelW => 3 | .result => 4 | .waitProd => 5 | .waitWg => 6

def mu (cfg : Cfg) (s : St) : Nat :=
  20 * (cfg.n - s.cursor) + 20 * s.errBudget + pW s.prod + 7 * s.ch.length + 6 * s.wCb.length +
    2 * s.wIdle + s.wDrain + tW s.term + (if s.ctx0 then 0 else 1)

set_option maxHeartbeats 2000000 in
theorem mu_step {cfg : Cfg} {s s' : St} {l : Label} (hs : step cfg s l = some s') : mu cfg s' < mu cfg s := by
  step_cases hs <;> simp_all [mu, pW, tW, List.length_erase_of_mem] <;> grind [List.length_pos_of_mem]

theorem run_length_le {cfg : Cfg} : ∀ (ls : List Label) (s s' : St), run (step cfg) s ls = some s' →
    ls.length + mu cfg s' ≤ mu cfg s := by
  intro ls
  induction ls with
  | nil => intro s s' h; simp [run] at h; subst h; simp
  | cons l ls ih =>
    intro s s' h
    simp only [run] at h
    cases hst : step cfg s l with
    | none => simp [hst] at h
    | some s1 =>
      simp only [hst] at h
      have := ih s1 s' h
      have := mu_step hst
      simp only [List.length_cons]
      omega

/-! ### deadlock freedom -/

def obliged : Label → Bool
  | .cancel | .pEmitErr | .wCbErr _ => false
  | _ => true

/-- The producer can move unless it is done or blocked on a full channel with a live workerCtx. -/
theorem progress_prod {cfg : Cfg} {s : St} (hb : Basic cfg s) :
    s.prod = .done ∨ (∃ it, s.prod = .have it ∧ s.ch.length = cfg.c ∧ s.wctx = false) ∨
      ∃ l, obliged l = true ∧ (step cfg s l).isSome = true := by
  match hp : s.prod with
  | .done => exact Or.inl rfl
  | .check => exact Or.inr (Or.inr ⟨.pCheck, rfl, by by_cases h : s.wctx = true <;> simp [step, hp, h]⟩)
  | .inEmit =>
    have := hb.cursor_le
    by_cases h : s.cursor < cfg.n
    · exact Or.inr (Or.inr ⟨.pEmitVal, rfl, by simp [step, hp, h]⟩)
    · exact Or.inr (Or.inr ⟨.pEmitEof, rfl, by simp [step, hp]; omega⟩)
  | .closing => exact Or.inr (Or.inr ⟨.pClose, rfl, by simp [step, hp]⟩)
  | .have it =>
    by_cases hroom : s.ch.length < cfg.c
    · refine Or.inr (Or.inr ⟨.pSend, rfl, ?_⟩)
      cases it <;> simp [step, hp, hroom]
    · by_cases hctx : s.wctx = true
      · exact Or.inr (Or.inr ⟨.pDrop, rfl, by simp [step, hp, hctx]⟩)
      · have := hb.cap
        exact Or.inr (Or.inl ⟨it, rfl, by omega, by simpa using hctx⟩)

theorem progress {cfg : Cfg} {s : St} (hc : 0 < cfg.c) (hb : Basic cfg s) (hnf : final cfg s = false) :
    ∃ l, obliged l = true ∧ (step cfg s l).isSome = true := by
  have hw := hb.workers
  match ht : s.term with
  | .result => exact ⟨.tResult, rfl, by simp [step, ht]⟩
  | .cancelW => exact ⟨.tCancelW, rfl, by simp [step, ht]⟩
  | .close0 => exact ⟨.tClose0, rfl, by simp [step, ht]⟩
  | .close1 => exact ⟨.tClose1, rfl, by simp [step, ht]⟩
  | .ret =>
    have h1 := hb.term_wg (by simp [ht])
    have h2 := hb.term_prod (by simp [ht]) (by simp [ht])
    simp [final, ht, h1, h2] at hnf
  | .waitProd =>
    have h1 := hb.term_wg (by simp [ht])
    rcases progress_prod hb with h | ⟨it, hp, hfull, hctx⟩ | h
    · exact ⟨.tWaitProd, rfl, by simp [step, ht, h]⟩
    · -- all workers exited, yet workerCtx is live and the channel is open: impossible
      rcases hb.exit_why (by omega) with h | h
      · simp [hctx] at h
      · have := hb.chCl.mp h; simp [hp] at this
    · exact h
  | .waitWg =>
    by_cases hex : s.wExit = cfg.c
    · exact ⟨.tWaitWg, rfl, by simp [step, ht, hex]⟩
    · -- some worker is alive
      by_cases hcb : s.wCb = []
      case neg =>
        obtain ⟨i, r, hir⟩ := List.exists_cons_of_ne_nil hcb
        exact ⟨.wCbOk i, rfl, by simp [step, hir]⟩
      simp only [hcb, List.length_nil, Nat.add_zero] at hw
      -- idle or draining worker: can move unless the channel is empty and open
      have hchan : (s.ch = [] ∧ s.chClosed = false) ∨ ∃ l, obliged l = true ∧ (step cfg s l).isSome = true := by
        match hch : s.ch with
        | it :: r =>
          by_cases hi : 0 < s.wIdle
          · exact Or.inr ⟨.wRecv, rfl, by cases it <;> simp [step, hi, hch]⟩
          · exact Or.inr ⟨.wDrainRecv, rfl, by simp [step, hch]; omega⟩
        | [] =>
          by_cases hcl : s.chClosed = true
          · by_cases hi : 0 < s.wIdle
            · exact Or.inr ⟨.wExitClosed, rfl, by simp [step, hi, hch, hcl]⟩
            · exact Or.inr ⟨.wDrainExit, rfl, by simp [step, hch, hcl]; omega⟩
          · exact Or.inl ⟨rfl, by simpa using hcl⟩
      rcases hchan with ⟨he, hopen⟩ | h
      · rcases progress_prod hb with h | ⟨it, hp, hfull, hctx⟩ | h
        · have := hb.chCl.mpr h; simp [this] at hopen
        · simp [he] at hfull; omega
        · exact h
      · exact h

end ShpanVerif.Proofs.ConcConsume
