/-
Exclusivity over histories: if every materialisation is exclusive on its own, CONFINED (when its terminal has returned
none of its goroutines is inside Emit) and `returned` is stable, then over every history of materialisations of the same
stream value at most one goroutine is ever inside the provider's Emit.
-/
import ShpanVerif.Model.ConcHistory

namespace ShpanVerif.Proofs.ConcHistory
open ShpanVerif.Model.Conc

variable {σ L : Type}

structure Confined (sys : Sys σ L) (o : RunObs σ) : Prop where
  exclusive : ∀ s, Reachable sys s → o.emitting s ≤ 1
  confined : ∀ s, Reachable sys s → o.returned s = true → o.emitting s = 0
  stable : ∀ s l s', Reachable sys s → o.returned s = true → sys.step s l = some s' → o.returned s' = true

/-- the invariant: every run is a reachable state of the single-materialisation system, and all but the newest have
    returned -/
structure HInv (sys : Sys σ L) (o : RunObs σ) (rs : List σ) : Prop where
  reach : ∀ s ∈ rs, Reachable sys s
  older : ∀ s ∈ rs.tail, o.returned s = true

theorem sum_map_zero {f : σ → Nat} : ∀ (l : List σ), (∀ s ∈ l, f s = 0) → (l.map f).sum = 0
  | [], _ => rfl
  | a :: l, h => by
    simp only [List.map_cons, List.sum_cons]
    rw [h a (by simp), sum_map_zero l (fun s hs => h s (by simp [hs]))]

theorem hinv_step {sys : Sys σ L} {o : RunObs σ} (hc : Confined sys o) {rs rs' : List σ} {l : HLabel L}
    (h : HInv sys o rs) (hs : hstep sys o rs l = some rs') : HInv sys o rs' := by
  cases l with
  | start =>
    simp only [hstep] at hs
    cases rs with
    | nil =>
      simp only [Option.some.injEq] at hs; subst hs
      exact ⟨by intro s hm; simp at hm; subst hm; exact Reachable.init, by simp⟩
    | cons s0 rest =>
      simp only at hs
      split at hs
      · rename_i hret
        simp only [Option.some.injEq] at hs; subst hs
        refine ⟨?_, ?_⟩
        · intro s hm
          rcases List.mem_cons.mp hm with rfl | hm
          · exact Reachable.init
          · exact h.reach s hm
        · intro s hm
          simp only [List.tail_cons] at hm
          rcases List.mem_cons.mp hm with rfl | hm
          · exact hret
          · exact h.older s (by simpa using hm)
      · simp at hs
  | inner k l =>
    simp only [hstep] at hs
    cases hk : rs[k]? with
    | none => simp [hk] at hs
    | some s =>
      simp only [hk] at hs
      cases hst : sys.step s l with
      | none => simp [hst] at hs
      | some s' =>
        simp only [hst, Option.map_some, Option.some.injEq] at hs; subst hs
        have hmem : s ∈ rs := List.mem_of_getElem? hk
        have hr' : Reachable sys s' := Reachable.step (h.reach s hmem) hst
        refine ⟨?_, ?_⟩
        · intro x hx
          rcases List.mem_or_eq_of_mem_set hx with hx | rfl
          · exact h.reach x hx
          · exact hr'
        · intro x hx
          cases rs with
          | nil => simp at hk
          | cons s0 rest =>
            cases k with
            | zero =>
              simp only [List.set_cons_zero, List.tail_cons] at hx
              exact h.older x (by simpa using hx)
            | succ k =>
              simp only [List.set_cons_succ, List.tail_cons] at hx
              simp only [List.getElem?_cons_succ] at hk
              have hs_old : s ∈ rest := List.mem_of_getElem? hk
              rcases List.mem_or_eq_of_mem_set hx with hx | rfl
              · exact h.older x (by simpa using hx)
              · exact hc.stable s l _ (h.reach s hmem) (h.older s (by simpa using hs_old)) hst

theorem hinv {sys : Sys σ L} {o : RunObs σ} (hc : Confined sys o) {rs : List σ}
    (hr : Reachable (History sys o) rs) : HInv sys o rs :=
  invariant (sys := History sys o) (P := HInv sys o) ⟨by simp [History], by simp [History]⟩
    (fun _ _ _ h hs => hinv_step hc h hs) rs hr

/-- **Exclusivity over every history of materialisations.** -/
theorem history_exclusive {sys : Sys σ L} {o : RunObs σ} (hc : Confined sys o) {rs : List σ}
    (hr : Reachable (History sys o) rs) : totalEmitting o rs ≤ 1 := by
  have h := hinv hc hr
  unfold totalEmitting
  cases rs with
  | nil => simp
  | cons s0 rest =>
    simp only [List.map_cons, List.sum_cons]
    have h0 := hc.exclusive s0 (h.reach s0 (by simp))
    have hrest : (rest.map o.emitting).sum = 0 :=
      sum_map_zero rest (fun s hs => hc.confined s (h.reach s (by simp [hs])) (h.older s (by simpa using hs)))
    omega

end ShpanVerif.Proofs.ConcHistory
