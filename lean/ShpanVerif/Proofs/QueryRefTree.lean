/-
C11 helper: whole query trees (join-free, reduction-free) against the reference semantics.
-/
import ShpanVerif.Proofs.QueryRefEq
import ShpanVerif.Proofs.QueryTwins
import ShpanVerif.Props.C10

namespace ShpanVerif.Proofs.Query
open ShpanVerif.Model.Query ShpanVerif.Model.Query.Ref ShpanVerif.Props.C10 List

variable {D : Type} (O : Ops D)

/-- datasource-package result against the reference (a one-field table) -/
def ResRefD (r : Except PlanErr (DResult D)) (ref : RRes D) : Prop :=
  match r with
  | .ok (fm, s) => ref = some ([fm], collect (wrapStream s))
  | .error _ => ref = none

mutual
  /-- trees covered by the reference-equality theorem: no join, no reduction, report filters restricted by `RefFilter` -/
  def RefTreeR : RDs D → Prop
    | .static _ _ => True
    | .filtered ds fs => RefTreeR ds ∧ ∀ f ∈ fs, RefFilter f
    | .xfiltered _ _ => False
    | .join _ _ => False
    | .fromDs d => RefTreeD d
  def RefTreeD : DDs D → Prop
    | .static _ _ => True
    | .filtered d _ => RefTreeD d
    | .xfiltered _ _ => False
    | .reduction _ _ _ _ _ => False
    | .fromReport r _ => RefTreeR r
end

mutual
  theorem refTreeR_noRed : ∀ (q : RDs D), RefTreeR q → NoRedR q
    | .static _ _, _ => trivial
    | .filtered ds _, h => refTreeR_noRed ds h.1
    | .xfiltered _ _, h => by simp [RefTreeR] at h
    | .join _ _, h => by simp [RefTreeR] at h
    | .fromDs d, h => refTreeD_noRed d h
  theorem refTreeD_noRed : ∀ (q : DDs D), RefTreeD q → NoRedD q
    | .static _ _, _ => trivial
    | .filtered d _, h => refTreeD_noRed d h
    | .xfiltered _ _, h => by simp [RefTreeD] at h
    | .reduction _ _ _ _ _, h => by simp [RefTreeD] at h
    | .fromReport r _, h => refTreeR_noRed r h
end

theorem wrap_sound {fm : FieldMeta} {s : DStream D} (hs : DSound (fm, s)) : RSound ([fm], wrapStream s) :=
  fromDs_sound hs

mutual
  theorem execR_ref (fix : Bool) (from_ to : Int) : ∀ (q : RDs D), WfR q → RefTreeR q →
      ResRef (execR O fix from_ to q) (semR O fix from_ to q)
    | .static metas rows, hw, _ => by
      simp only [execR, semR]
      by_cases he : metas.isEmpty = true
      · simp [he, ResRef]
      · simp only [he, Bool.false_eq_true, if_false, Bool.false_or]
        by_cases hd : hasDupUrn metas [] = true
        · have hnd : ¬ (metas.map (·.urn)).Nodup := fun hn => by
            have := hasDupUrn_of_nodup (seen := []) hn (by simp)
            simp [this] at hd
          simp [hd, hnd, ResRef]
        · have hd' : hasDupUrn metas [] = false := by simpa using hd
          have hnd := (hasDupUrn_false hd').1
          simp only [hd', Bool.false_eq_true, if_false, hnd, decide_true, Bool.not_true, ResRef,
            collect_map_some]
          congr 4
          funext r
          simp [inRange]
    | .filtered ds fs, hw, ht => by
      have ih := execR_ref fix from_ to ds hw ht.1
      simp only [execR, semR, bind, Except.bind]
      cases hr : execR O fix from_ to ds with
      | error e => rw [hr] at ih; simp only [ResRef] at ih; simp [ResRef, ih]
      | ok r1 =>
        obtain ⟨fms, s⟩ := r1
        rw [hr] at ih
        simp only [ResRef] at ih
        simp only [ih, Option.bind_some]
        exact applyRFs_ref O fix fs ht.2 (soundR O fix from_ to ds _ hw hr)
    | .xfiltered _ _, _, ht => by simp [RefTreeR] at ht
    | .join _ _, _, ht => by simp [RefTreeR] at ht
    | .fromDs d, hw, ht => by
      have ih := execD_ref fix from_ to d hw ht
      simp only [execR, semR]
      cases hr : execD O fix from_ to d with
      | error e => rw [hr] at ih; simp only [ResRefD] at ih; simp [ResRef, ih]
      | ok r1 =>
        obtain ⟨fm, s⟩ := r1
        rw [hr] at ih
        simp only [ResRefD] at ih
        simp only [ResRef, ih]
        rfl
  theorem execD_ref (fix : Bool) (from_ to : Int) : ∀ (q : DDs D), WfD q → RefTreeD q →
      ResRefD (execD O fix from_ to q) (semD O fix from_ to q)
    | .static fm rows, _, _ => by
      simp only [execD, semD, ResRefD, wrapStream, map_map, collect_map_some]
      have : (rows.filter fun r => inRange from_ to r.ts) = rows.filter fun r => decide (from_ ≤ r.ts ∧ r.ts < to) := by
        congr 1; funext r; simp [inRange]
      rw [this]
      have h2 : collect (map ((fun e => Option.map wrapRec e) ∘ some)
          (filter (fun r => decide (from_ ≤ r.ts ∧ r.ts < to)) rows)) =
          some (map (fun r => ({ ts := r.ts, vals := [r.val] } : Row D))
            (filter (fun r => decide (from_ ≤ r.ts ∧ r.ts < to)) rows)) := by
        have := collect_map_some (map (fun r : DRec D => ({ ts := r.ts, vals := [r.val] } : Row D))
          (filter (fun r : DRec D => decide (from_ ≤ r.ts ∧ r.ts < to)) rows))
        simpa [map_map, Function.comp_def, wrapRec] using this
      rw [h2]
    | .filtered d fs, hw, ht => by
      have ih := execD_ref fix from_ to d hw ht
      simp only [execD, semD, bind, Except.bind]
      cases hr : execD O fix from_ to d with
      | error e => rw [hr] at ih; simp only [ResRefD] at ih; simp [ResRefD, ih]
      | ok r1 =>
        obtain ⟨fm, s⟩ := r1
        rw [hr] at ih
        simp only [ResRefD] at ih
        simp only [ih, Option.bind_some]
        have hsd := soundD O fix from_ to d _ hw hr
        have hw' : Wrap (fm, s) ([fm], wrapStream s) := ⟨rfl, rfl⟩
        have href := applyRFs_ref O true (liftFilters fm.urn fs) (liftFilters_refFilter fs fm.urn) (wrap_sound hsd)
        rcases applyDFs_twinB O true fs (Or.inl rfl) hw' with ⟨e, e1, e2⟩ | ⟨d', r', e1, e2, hwr⟩
        · simp only at e1 e2
          rw [e1]
          rw [e2] at href
          simp only [ResRef] at href
          simp [ResRefD, href]
        · simp only at e1 e2
          rw [e1]
          rw [e2] at href
          obtain ⟨fm', s'⟩ := d'
          obtain ⟨rm, rs⟩ := r'
          obtain ⟨h1, h2⟩ := hwr
          simp only at h1 h2; subst h1; subst h2
          simp only [ResRef] at href
          simp [ResRefD, href]
    | .xfiltered _ _, _, ht => by simp [RefTreeD] at ht
    | .reduction _ _ _ _ _, _, ht => by simp [RefTreeD] at ht
    | .fromReport r urn, hw, ht => by
      have ih := execR_ref fix from_ to r hw ht
      simp only [execD, semD]
      cases hr : execR O fix from_ to r with
      | error e => rw [hr] at ih; simp only [ResRef] at ih; simp [ResRefD, ih]
      | ok r1 =>
        obtain ⟨metas, s⟩ := r1
        rw [hr] at ih
        simp only [ResRef] at ih
        simp only [ih, Option.bind_some, findField_findIdx]
        cases hf : findField urn metas with
        | none => simp [ResRefD]
        | some p =>
          obtain ⟨m, idx⟩ := p
          obtain ⟨hidx, _⟩ := findField_spec hf
          simp only [Option.map_some, Option.bind_some, hidx, ResRefD, wrapStream, map_map]
          congr 2
          rw [← collect_map_map]
          congr 1
          apply map_congr_left
          intro e _
          cases e <;> rfl
end

end ShpanVerif.Proofs.Query
