/-
C10 helper lemmas: the aligner filter used by the reduction datasource and the reduction datasource itself preserve
the soundness invariant of datasource-package results.
-/
import ShpanVerif.Proofs.QueryJoinSound

namespace ShpanVerif.Proofs.Query
open ShpanVerif.Model.Query List

variable {D : Type} (O : Ops D)

/-! ## fixed alignment periods -/

theorem periodStart_eq (p t : Int) : periodStart p t = p * (t / p) := by
  simp only [periodStart, Int.emod_def]; omega

theorem periodStart_mono {p a b : Int} (hp : 0 < p) (h : a ≤ b) : periodStart p a ≤ periodStart p b := by
  rw [periodStart_eq, periodStart_eq]
  exact Int.mul_le_mul_of_nonneg_left (Int.ediv_le_ediv hp h) (Int.le_of_lt hp)

theorem periodStart_le (p t : Int) (hp : 0 < p) : periodStart p t ≤ t := by
  simp only [periodStart]
  have := Int.emod_nonneg t (Int.ne_of_gt hp)
  omega

/-- the two laws the stream machines need (`PeriodLaws`) hold for every positive fixed period -/
theorem fixed_periodLaws {p : Int} (hp : 0 < p) : PeriodLaws (periodStart p) (fun t => periodStart p t + p) :=
  ⟨fun _ _ h => periodStart_mono hp h, fun t => by
    simp only [periodStart]
    have := Int.emod_lt_of_pos t hp
    omega⟩

/-- … hence for every alignment period a well-formed query may carry (`PeriodK.ok`: fixed and positive, or a calendar
period whose zone obeys the laws — derived from C12 in Props/C10Cal.lean) -/
theorem PeriodK.ok_laws {P : PeriodK} (h : P.ok) : PeriodLaws P.start P.end_ := by
  cases P with
  | fixed p => exact fixed_periodLaws h
  | cal u z => exact h

/-! ## the aligner -/

theorem fromFloat64_tag {dt : DataType} {d : D} {v : Val D} (h : fromFloat64 O dt d = some v) : hasTag dt v := by
  cases dt <;> simp [fromFloat64] at h <;> subst h <;> rfl

/-- `timeWeightedAverage` yields one of its (conforming) operands or a non-nil value of the declared type -/
theorem timeWeightedAverage_tag {dt : DataType} {req : Bool} {target t1 t2 : Int} {v1 v2 v : Val D}
    (h : timeWeightedAverage O dt target t1 v1 t2 v2 = some v) (h1 : tagOk dt req v1) : tagOk dt req v := by
  simp only [timeWeightedAverage] at h
  split at h
  · split at h
    · simp only [Option.some.injEq] at h; subst h; exact h1
    · simp at h
  · split at h
    · simp at h
    · split at h
      · exact tagOk_weaken (fromFloat64_tag O h)
      · simp at h

theorem alignValue_tag {dt : DataType} {req : Bool} {start : Int} {prev : Option (DRec D)} {first out : DRec D}
    (h : alignValue O dt start prev first = some out) (hf : tagOk dt req first.val)
    (hp : ∀ r, prev = some r → tagOk dt req r.val) : out.ts = start ∧ tagOk dt req out.val := by
  cases prev with
  | none => simp only [alignValue, Option.some.injEq] at h; subst h; exact ⟨rfl, hf⟩
  | some pr =>
    simp only [alignValue] at h
    split at h
    · simp only [Option.some.injEq] at h; subst h; exact ⟨rfl, hf⟩
    · simp only [Option.map_eq_some_iff] at h
      obtain ⟨v, hv, rfl⟩ := h
      exact ⟨rfl, timeWeightedAverage_tag O hv (hp pr rfl)⟩

section cluster
variable {α : Type} (ts : α → Int)

/-- what the skipping loop returns: the next cluster's first record is later in the stream and in another period -/
theorem skipCluster_spec (S : Int → Int) (start : Int) : ∀ (cur : α) (rest : List (Option α))
    {last : α} {nxt : Option α} {rest' : List (Option α)},
    skipCluster ts S start cur rest = some (last, nxt, rest') →
    (last = cur ∨ last ∈ okRows rest) ∧
      match nxt with
      | some n => S (ts n) ≠ start ∧ (n :: okRows rest') <+ okRows rest
      | none => True
  | cur, [], last, nxt, rest', h => by
    simp only [skipCluster, Option.some.injEq, Prod.mk.injEq] at h
    obtain ⟨rfl, rfl, rfl⟩ := h
    exact ⟨Or.inl rfl, trivial⟩
  | cur, none :: _, _, _, _, h => by simp [skipCluster] at h
  | cur, some r :: t, last, nxt, rest', h => by
    simp only [skipCluster] at h
    split at h
    · obtain ⟨h1, h2⟩ := skipCluster_spec S start r t h
      refine ⟨Or.inr ?_, ?_⟩
      · rcases h1 with rfl | h1
        · simp [okRows]
        · simp only [okRows, filterMap_cons, id_eq, mem_cons]; exact Or.inr h1
      · cases nxt with
        | none => trivial
        | some n =>
          simp only at h2 ⊢
          refine ⟨h2.1, ?_⟩
          simp only [okRows, filterMap_cons, id_eq]
          exact h2.2.cons _
    · rename_i hne
      split at h
      · simp at h
      · simp only [Option.some.injEq, Prod.mk.injEq] at h
        obtain ⟨rfl, rfl, rfl⟩ := h
        exact ⟨Or.inl rfl, hne, by simp [okRows]⟩

theorem restOfCluster_spec (S : Int → Int) (start : Int) (first : α) (rest : List (Option α))
    {last : α} {nxt : Option α} {rest' : List (Option α)}
    (h : restOfCluster ts S start first rest = some (last, nxt, rest')) :
    (last = first ∨ last ∈ okRows rest) ∧
      match nxt with
      | some n => S (ts n) ≠ start ∧ (n :: okRows rest') <+ okRows rest
      | none => True := by
  cases rest with
  | nil =>
    simp only [restOfCluster, Option.some.injEq, Prod.mk.injEq] at h
    obtain ⟨rfl, rfl, rfl⟩ := h
    exact ⟨Or.inl rfl, trivial⟩
  | cons e t =>
    cases e with
    | none => simp [restOfCluster] at h
    | some r =>
      simp only [restOfCluster] at h
      split at h
      · obtain ⟨h1, h2⟩ := skipCluster_spec ts S start r t h
        refine ⟨Or.inr ?_, ?_⟩
        · rcases h1 with rfl | h1
          · simp [okRows]
          · simp only [okRows, filterMap_cons, id_eq, mem_cons]; exact Or.inr h1
        · cases nxt with
          | none => trivial
          | some n =>
            simp only at h2 ⊢
            refine ⟨h2.1, ?_⟩
            simp only [okRows, filterMap_cons, id_eq]
            exact h2.2.cons _
      · rename_i hne
        simp only [Option.some.injEq, Prod.mk.injEq] at h
        obtain ⟨rfl, rfl, rfl⟩ := h
        exact ⟨Or.inl rfl, hne, by simp [okRows]⟩

/-- the cluster machine with a factory `mk` that stamps the period start and preserves the invariant `P`:
every delivered record satisfies `P` and the timestamps are strictly increasing — for EVERY period whose
`GetStartTime` (`S`) is monotone (nothing else is needed of the period) -/
theorem alignLoop_sound {P : α → Prop} {mk : Int → Option α → α → Option α} {S : Int → Int}
    (hS : ∀ a b, a ≤ b → S a ≤ S b)
    (hmk : ∀ start prev first out, mk start prev first = some out → P first → (∀ r, prev = some r → P r) →
      ts out = start ∧ P out) :
    ∀ (fuel : Nat) (prev : Option α) (first : α) (rest : List (Option α)) (b : Int),
    (∀ r ∈ first :: okRows rest, P r) → (∀ r, prev = some r → P r) →
    ((first :: okRows rest).map ts).Pairwise (· < ·) → b < S (ts first) →
    (∀ r ∈ okRows (alignLoop ts mk S fuel prev first rest), P r) ∧
      (b :: (okRows (alignLoop ts mk S fuel prev first rest)).map ts).Pairwise (· < ·)
  | 0, _, _, _, _, _, _, _, _ => by simp [alignLoop, okRows]
  | fuel + 1, prev, first, rest, b, htag, hprev, hsrt, hb => by
    simp only [alignLoop]
    -- the pull made by `FindFirst`
    cases hhf : headFails rest with
    | true => simp [okRows]
    | false =>
      simp only [Bool.false_eq_true, ↓reduceIte]
      cases hav : mk (S (ts first)) prev first with
      | none => simp [okRows]
      | some out =>
        obtain ⟨hts, hout⟩ := hmk _ _ _ _ hav (htag first (by simp)) hprev
        simp only
        cases hrc : restOfCluster ts S (S (ts first)) first rest with
        | none => simp [okRows]
        | some tr =>
          obtain ⟨last, nxt, rest'⟩ := tr
          obtain ⟨hlast, hnxt⟩ := restOfCluster_spec ts S _ first rest hrc
          cases nxt with
          | none =>
            simp only [okRows, filterMap_cons, id_eq, filterMap_nil, mem_cons, not_mem_nil, or_false, forall_eq,
              map_cons, map_nil]
            exact ⟨hout, by simp [hts, hb]⟩
          | some n =>
            simp only at hnxt
            obtain ⟨hne', hsub⟩ := hnxt
            have hsub' : (n :: okRows rest') <+ first :: okRows rest := hsub.cons _
            have hnmem : n ∈ okRows rest := hsub.subset (by simp)
            have hlt : ts first < ts n := by
              simp only [map_cons, pairwise_cons] at hsrt
              exact hsrt.1 (ts n) (mem_map.mpr ⟨n, hnmem, rfl⟩)
            have hstart : S (ts first) < S (ts n) := by
              have := hS _ _ (Int.le_of_lt hlt)
              omega
            have ih := alignLoop_sound hS hmk fuel (some last) n rest' (S (ts first))
              (fun r hr => htag r (hsub'.subset hr))
              (by
                intro r hr
                simp only [Option.some.injEq] at hr; subst hr
                rcases hlast with rfl | hl
                · exact htag _ (by simp)
                · exact htag _ (mem_cons_of_mem _ hl))
              (hsrt.sublist (hsub'.map _)) hstart
            simp only [okRows, filterMap_cons, id_eq, mem_cons, forall_eq_or_imp, map_cons] at ih ⊢
            refine ⟨⟨hout, ih.1⟩, ?_⟩
            rw [hts]
            exact pairwise_cons_lt hb ih.2

theorem alignStreamG_sound {P : α → Prop} {mk : Int → Option α → α → Option α} {S : Int → Int}
    (hS : ∀ a b, a ≤ b → S a ≤ S b)
    (hmk : ∀ start prev first out, mk start prev first = some out → P first → (∀ r, prev = some r → P r) →
      ts out = start ∧ P out)
    {s : List (Option α)} (hrows : ∀ r ∈ okRows s, P r) (hincr : ((okRows s).map ts).Pairwise (· < ·)) :
    (∀ r ∈ okRows (alignStreamG ts mk S s), P r) ∧ ((okRows (alignStreamG ts mk S s)).map ts).Pairwise (· < ·) := by
  cases s with
  | nil => simp [alignStreamG, okRows]
  | cons e t =>
    cases e with
    | none => simp [alignStreamG, okRows]
    | some first =>
      simp only [alignStreamG]
      have hrows' : ∀ r ∈ first :: okRows t, P r := by
        intro r hr; exact hrows r (by simpa [okRows] using hr)
      have hsrt : ((first :: okRows t).map ts).Pairwise (· < ·) := by simpa [okRows] using hincr
      have := alignLoop_sound ts hS hmk ((some first :: t).length + 1) none first t (S (ts first) - 1) hrows'
        (by simp) hsrt (by omega)
      exact ⟨this.1, pairwise_tail this.2⟩

end cluster

/-- `AlignerFilter.Filter`: the aligned stream of a sound numeric result is sound (fixed and calendar periods) -/
theorem alignStream_sound {m : FieldMeta} {s : DStream D} {p : PeriodK} (hp : p.ok) (hs : DSound (m, s)) :
    DSound (m, alignStream O m.dt p s) := by
  have := alignStreamG_sound (fun r : DRec D => r.ts) (P := fun r => tagOk m.dt m.required r.val)
    (PeriodK.ok_laws hp).mono
    (fun start prev first out h hf hpv => alignValue_tag O h hf hpv) hs.rows hs.incr
  exact ⟨hs.valid, this.1, this.2⟩

/-! ## the reduction datasource -/

theorem reductionMeta_ok {rt : RedType} {afm : AddFieldMeta} {metas : List FieldMeta} {fm : FieldMeta} {dt : DataType}
    (h : reductionMeta rt afm metas = .ok (fm, dt)) :
    dt.isNumeric = true ∧ (∀ m ∈ metas, m.dt = dt ∧ m.required = true) ∧ fm.dt = redResultType rt dt ∧
      fm.required = true ∧ fm.urn ≠ "" ∧ fm.dt.valid = true := by
  cases metas with
  | nil => simp [reductionMeta] at h
  | cons m0 rest =>
    simp only [reductionMeta] at h
    split at h
    · simp at h
    rename_i hnum
    split at h
    · simp at h
    rename_i hreq
    split at h
    · simp at h
    rename_i hrest
    split at h
    · simp at h
    split at h
    · simp at h
    rename_i fm' hfm
    simp only [Except.ok.injEq, Prod.mk.injEq] at h
    obtain ⟨rfl, rfl⟩ := h
    obtain ⟨rfl, hne, hv⟩ := newFieldMeta_ok hfm
    have hnum' : m0.dt.isNumeric = true := by cases hh : m0.dt.isNumeric <;> simp_all
    have hreq' : m0.required = true := by cases hh : m0.required <;> simp_all
    refine ⟨hnum', ?_, rfl, rfl, hne, hv⟩
    intro m hm
    rcases mem_cons.mp hm with rfl | hm
    · exact ⟨rfl, hreq'⟩
    · exact reduceCheckRest_ok' hrest m hm
where
  reduceCheckRest_ok' {dt : DataType} : ∀ {ms : List FieldMeta}, reduceCheckRest dt ms = .ok () →
      ∀ m ∈ ms, m.dt = dt ∧ m.required = true
    | [], _, m, hm => by simp at hm
    | m0 :: ms, h, m, hm => by
      simp only [reduceCheckRest] at h
      split at h
      · simp at h
      · split at h
        · simp at h
        · rename_i h1 h2
          rcases mem_cons.mp hm with rfl | hm
          · exact ⟨by simpa using h1, by simpa using h2⟩
          · exact reduceCheckRest_ok' h m hm

/-- `timeseries.InnerJoinStreams(streams, reducer)`: reduced values have the result type, timestamps increase -/
theorem reduceStreams_sound {rt : RedType} {dt : DataType} {rf : List (Val D) → Option (Val D)} {fm : FieldMeta}
    (hnum : dt.isNumeric = true) (hrf : redFunc O rt dt = some rf) (hfm : fm.dt = redResultType rt dt)
    (hvalid : fm.urn ≠ "" ∧ fm.dt.valid = true) {streams : List (DStream D)}
    (hsrt : Srt (fun r : DRec D => r.ts) (streams.map okRows)) : DSound (fm, reduceStreams rf streams) := by
  refine ⟨hvalid, ?_, ?_⟩
  · intro r hr
    simp only [reduceStreams, okRows_map_bind, mem_filterMap] at hr
    obtain ⟨recs, _, hx⟩ := hr
    simp only [Option.map_eq_some_iff] at hx
    obtain ⟨x, hx, rfl⟩ := hx
    rw [hfm]
    exact tagOk_weaken (redFunc_tag O hnum hrf hx)
  · simp only [reduceStreams, okRows_map_bind]
    have hinner : ((okRows (innerJoin (fun r : DRec D => r.ts) streams)).map
        (tkey fun r : DRec D => r.ts)).Pairwise (· < ·) := by
      simp only [innerJoin]
      split
      · simp [okRows]
      · cases hi : initSrcs streams with
        | none => simp [okRows]
        | some st =>
          simp only
          have hel := initSrcs_elems hi
          exact pairwise_tail (innerLoop_incr (fun r : DRec D => r.ts) _ st
            (lowKey (fun r : DRec D => r.ts) (st.map elems)) (hel ▸ hsrt) (lowKey_LB _ _).1)
    refine hinner.sublist (filterMap_ts_sublist _ _ _ ?_ _)
    intro recs r hr
    simp only [Option.map_eq_some_iff] at hr
    obtain ⟨x, _, rfl⟩ := hr
    rfl

theorem alignedTimestamps_incr {p : Int} (hp : 0 < p) (from_ to : Int) : ∀ (fuel : Nat) (cur b : Int), b < cur →
    (b :: alignedTimestamps p from_ to fuel cur).Pairwise (· < ·)
  | 0, _, _, _ => by simp [alignedTimestamps]
  | fuel + 1, cur, b, hb => by
    simp only [alignedTimestamps]
    split
    · exact pairwise_cons_lt hb (alignedTimestamps_incr hp from_ to fuel (cur + p) cur (by omega))
    · simp

theorem reductionFallback_sound {afm : AddFieldMeta} {period from_ to : Int} (hp : 0 < period)
    {fb : Option (DVal D)} {res : DResult D} (h : reductionFallback O afm period from_ to fb = .ok res) :
    DSound res := by
  cases fb with
  | none => simp [reductionFallback] at h
  | some v =>
    cases v with
    | const vm c =>
      simp only [reductionFallback] at h
      split at h
      · simp at h
      split at h
      · simp at h
      rename_i m fn hk
      split at h
      · simp at h
      rename_i fm hfm
      simp only [Except.ok.injEq] at h; subst h
      obtain ⟨rfl, hne, hv⟩ := newFieldMeta_ok hfm
      have hsound : SoundP (fun _ : Val D => True) (m, fn) := constK_sound O hk
      refine ⟨⟨hne, hv⟩, ?_, ?_⟩
      · intro r hr
        simp only [okRows, mem_filterMap, mem_map, id_eq] at hr
        obtain ⟨e, ⟨t, _, rfl⟩, he⟩ := hr
        simp only [Option.map_eq_some_iff] at he
        obtain ⟨x, hx, rfl⟩ := he
        exact hsound .nil trivial x hx
      · have hsub : ((okRows ((alignedTimestamps period from_ to
            ((to - periodStart period from_) / period + 2).toNat (periodStart period from_)).map fun t =>
              (fn .nil).map fun x => ({ ts := t, val := x } : DRec D))).map (·.ts)) <+
            alignedTimestamps period from_ to ((to - periodStart period from_) / period + 2).toNat
              (periodStart period from_) := by
          generalize alignedTimestamps period from_ to _ _ = l
          induction l with
          | nil => simp [okRows]
          | cons t l ih =>
            simp only [okRows, map_cons, filterMap_cons, id_eq] at ih ⊢
            cases hfn : fn .nil with
            | none => simp only [hfn] at ih ⊢; simpa using ih.cons t
            | some x => simp only [hfn] at ih ⊢; simpa using ih.cons_cons t
        exact (pairwise_tail (alignedTimestamps_incr hp from_ to _ _ (periodStart period from_ - 1) (by omega))).sublist hsub
    | ref | cast _ _ | cond _ _ _ | num _ _ _ | un _ _ | logic _ _ _ | nvl _ _ | sel _ _ _ =>
      simp [reductionFallback] at h

end ShpanVerif.Proofs.Query
