/-
Facts that depend only on the shape of a pipeline: ids, Reusable, the list-level meaning; and
`Closed ∧ Reusable → Ready`.
-/
import ShpanVerif.Proofs.PipeShapeInv

namespace ShpanVerif.Proofs.PipeShape
open ShpanVerif.Model.Pipe ShpanVerif

mutual
theorem ids_shape : ∀ p : Pipe, ids (shape p) = ids p
  | .src .. => by simp [shape, ids]
  | .lc _ p => by simp [shape, ids, ids_shape p]
  | .map _ p => by simp [shape, ids, ids_shape p]
  | .filter _ p => by simp [shape, ids, ids_shape p]
  | .limit _ _ p => by simp [shape, ids, ids_shape p]
  | .skip _ _ p => by simp [shape, ids, ids_shape p]
  | .concat ps .. => by simp [shape, ids, idsList_shape ps]
  | .zip ps _ => by simp [shape, ids, idsList_shape ps]
  | .merge ps .. => by simp [shape, ids, idsList_shape ps]
  | .window _ _ _ _ _ _ p => by simp [shape, ids, ids_shape p]
  | .cluster _ _ _ _ _ _ p => by simp [shape, ids, ids_shape p]
theorem idsList_shape : ∀ ps : PipeList, idsList (shapeList ps) = idsList ps
  | .nil => by simp [shapeList, idsList]
  | .cons p ps => by simp [shapeList, idsList, ids_shape p, idsList_shape ps]
end

mutual
theorem reusable_shape : ∀ p : Pipe, Reusable (shape p) ↔ Reusable p
  | .src .. => by simp [shape, Reusable]
  | .lc _ p => by simp [shape, Reusable, reusable_shape p]
  | .map _ p => by simp [shape, Reusable, reusable_shape p]
  | .filter _ p => by simp [shape, Reusable, reusable_shape p]
  | .limit .. => by simp [shape, Reusable]
  | .skip .. => by simp [shape, Reusable]
  | .concat ps .. => by simp [shape, Reusable, reusableList_shape ps]
  | .zip ps _ => by simp [shape, Reusable, reusableList_shape ps]
  | .merge ps .. => by simp [shape, Reusable, reusableList_shape ps]
  | .window .. => by simp [shape, Reusable]
  | .cluster .. => by simp [shape, Reusable]
theorem reusableList_shape : ∀ ps : PipeList, ReusableList (shapeList ps) ↔ ReusableList ps
  | .nil => by simp [shapeList, ReusableList]
  | .cons p ps => by simp [shapeList, ReusableList, reusable_shape p, reusableList_shape ps]
end

mutual
theorem eval_shape : ∀ p : Pipe, Spec.eval (shape p) = Spec.eval p
  | .src .. => by simp [shape, Spec.eval]
  | .lc _ p => by simp [shape, Spec.eval, eval_shape p]
  | .map _ p => by simp [shape, Spec.eval, eval_shape p]
  | .filter _ p => by simp [shape, Spec.eval, eval_shape p]
  | .limit _ _ p => by simp [shape, Spec.eval, eval_shape p]
  | .skip _ _ p => by simp [shape, Spec.eval, eval_shape p]
  | .concat ps .. => by simp [shape, Spec.eval, evalList_shape ps]
  | .zip ps _ => by simp [shape, Spec.eval, evalList_shape ps]
  | .merge ps .. => by simp [shape, Spec.eval, evalList_shape ps]
  | .window _ _ _ _ _ _ p => by simp [shape, Spec.eval, eval_shape p]
  | .cluster _ _ _ _ _ _ p => by simp [shape, Spec.eval, eval_shape p]
theorem evalList_shape : ∀ ps : PipeList, Spec.evalList (shapeList ps) = Spec.evalList ps
  | .nil => by simp [shapeList, Spec.evalList]
  | .cons p ps => by simp [shapeList, Spec.evalList, eval_shape p, evalList_shape ps]
end

mutual
theorem ready_of_closed_reusable : ∀ p : Pipe, Closed p → Reusable p → Ready p
  | .src .., _, _ => by simp [Ready]
  | .lc _ p, hc, hr => by simp only [Closed, Reusable, Ready] at *; exact ready_of_closed_reusable p hc hr
  | .map _ p, hc, hr => by simp only [Closed, Reusable, Ready] at *; exact ready_of_closed_reusable p hc hr
  | .filter _ p, hc, hr => by simp only [Closed, Reusable, Ready] at *; exact ready_of_closed_reusable p hc hr
  | .limit .., _, hr => by simp [Reusable] at hr
  | .skip .., _, hr => by simp [Reusable] at hr
  | .concat ps .., hc, hr => by
      simp only [Closed, Reusable, Ready] at *
      exact ⟨hc.1, hc.2.1, readyList_of_closed_reusable ps hc.2.2 hr⟩
  | .zip ps _, hc, hr => by
      simp only [Closed, Reusable, Ready] at *
      exact ⟨hc.1, readyList_of_closed_reusable ps hc.2 hr⟩
  | .merge ps .., hc, hr => by
      simp only [Closed, Reusable, Ready] at *
      exact ⟨hc.1, readyList_of_closed_reusable ps hc.2 hr⟩
  | .window .., _, hr => by simp [Reusable] at hr
  | .cluster .., _, hr => by simp [Reusable] at hr
theorem readyList_of_closed_reusable : ∀ ps : PipeList, ClosedList ps → ReusableList ps → ReadyList ps
  | .nil, _, _ => by simp [ReadyList]
  | .cons p ps, hc, hr => by
      simp only [ClosedList, ReusableList, ReadyList] at *
      exact ⟨ready_of_closed_reusable p hc.1 hr.1, readyList_of_closed_reusable ps hc.2 hr.2⟩
end

/-- same shape ⇒ same ids / reusability / meaning -/
theorem ids_eq_of_shape {p q : Pipe} (h : shape p = shape q) : ids p = ids q := by
  rw [← ids_shape p, ← ids_shape q, h]
theorem reusable_of_shape {p q : Pipe} (h : shape p = shape q) (hq : Reusable q) : Reusable p := by
  rw [← reusable_shape p, h, reusable_shape q]; exact hq
theorem eval_eq_of_shape {p q : Pipe} (h : shape p = shape q) : Spec.eval p = Spec.eval q := by
  rw [← eval_shape p, ← eval_shape q, h]

end ShpanVerif.Proofs.PipeShape
