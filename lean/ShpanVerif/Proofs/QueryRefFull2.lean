/-
C11 helper (full reference equality, part 2): the `drop` and `select` filters, and every report filter with every
value kind against the whole-table reference (`applyRF_refN`, `applyRFs_refN`).
-/
import ShpanVerif.Proofs.QueryRefFull1

namespace ShpanVerif.Proofs.Query
open ShpanVerif.Model.Query ShpanVerif.Model.Query.Ref List

variable {D : Type} (O : Ops D)

/-! ## drop -/

theorem dropF_ref (urns : List String) {fms : List FieldMeta} {s : RStream D} (hnd : (fms.map (·.urn)).Nodup) :
    ResRef (dropF urns (fms, s)) (filterR O fix (.drop urns) (fms, collect s)) := by
  have hcount := found_count_iff fms urns (hnd.sublist (filter_sublist.map _))
  have hall := all_any_iff fms urns
  simp only [dropF, filterR, eraseDups_contains]
  generalize filter (fun p : FieldMeta × Nat => !urns.contains p.1.urn) fms.zipIdx = keep
  by_cases hk : keep.isEmpty = true
  · simp only [hk, if_true, Bool.true_or, ResRef]
  · simp only [hk, Bool.false_eq_true, if_false, Bool.false_or]
    by_cases ha : (urns.all fun u => fms.any fun m => m.urn == u) = true
    · have h1 := hcount.mpr (hall.mp ha)
      simp only [h1, bne_self_eq_false, Bool.false_eq_true, if_false, ha, Bool.not_true, ResRef]
      congr 2
      simp only [mapRows, collect_map_bind, mapTable]
    · have h1 : ((filter (fun m : FieldMeta => urns.contains m.urn) fms).length != urns.eraseDups.length) = true := by
        simp only [bne_iff_ne, ne_eq]
        intro heq
        exact ha (hall.mpr (hcount.mp heq))
      have ha' : (urns.all fun u => fms.any fun m => m.urn == u) = false := by simpa using ha
      simp only [h1, if_true, ha', Bool.not_false, ResRef]

/-! ## select -/

theorem selectPlan_ref (fms : List FieldMeta) :
    ∀ (fs : List (RVal D × AddFieldMeta)) (seen : List String) (nm : List FieldMeta),
      (∀ u, seen.contains u = true ↔ u ∈ nm.map (·.urn)) →
      match selectPlan O fms fs seen nm with
      | .ok (metas, fns) => selectMetas O fms fs nm = some metas ∧
          ∀ cur, Conforms (fms ++ nm) cur → selectRow fns cur = selectVals O fms fs nm cur
      | .error _ => selectMetas O fms fs nm = none
  | [], seen, nm, _ => by
    simp only [selectPlan, selectMetas, true_and]
    intro cur _
    rfl
  | (v, afm) :: rest, seen, nm, hseen => by
    have hany : nm.any (fun m => m.urn == afm.urn) = seen.contains afm.urn := by
      rw [Bool.eq_iff_iff, hseen]
      simp [any_eq_true]
    have hp := planPrepare_refN O v afm (fms ++ nm)
    simp only [selectPlan, selectMetas, hany]
    by_cases hs : seen.contains afm.urn = true
    · simp only [hs, if_true]
    · simp only [hs, Bool.false_eq_true, if_false]
      cases hq : planRVal O v (fms ++ nm) >>= prepareK afm with
      | error e =>
        rw [hq] at hp
        simp only at hp
        simp only
        rw [← Option.bind_assoc, hp]
        rfl
      | ok q =>
        obtain ⟨fm, fn⟩ := q
        rw [hq] at hp
        obtain ⟨hm, hev⟩ := hp
        obtain ⟨hu, _, _, htag⟩ := planPrepare_sound O hq
        have ih := selectPlan_ref fms rest (afm.urn :: seen) (nm ++ [fm])
          (by
            intro u
            simp only [contains_cons, Bool.or_eq_true, beq_iff_eq, map_append, map_cons, map_nil, mem_append,
              mem_cons, not_mem_nil, or_false, hu]
            rw [hseen u]
            exact or_comm)
        have hmeta : selectMetas O fms ((v, afm) :: rest) nm = selectMetas O fms rest (nm ++ [fm]) := by
          simp only [selectMetas, hany, hs, Bool.false_eq_true, if_false]
          rw [← Option.bind_assoc, hm]
          rfl
        simp only
        cases hr : selectPlan O fms rest (afm.urn :: seen) (nm ++ [fm]) with
        | error e =>
          rw [hr] at ih
          simp only at ih ⊢
          rw [← Option.bind_assoc, hm]
          exact ih
        | ok r =>
          obtain ⟨metas, fns⟩ := r
          rw [hr] at ih
          obtain ⟨ih1, ih2⟩ := ih
          simp only
          refine ⟨by rw [← Option.bind_assoc, hm]; exact ih1, fun cur hc => ?_⟩
          simp only [selectRow, selectVals, hm]
          rw [hev cur hc]
          cases hx : evalR O v (fms ++ nm) cur with
          | none => rfl
          | some x =>
            simp only [Option.bind_some]
            apply ih2
            rw [← append_assoc]
            exact hc.append (Conforms.single (htag cur x hc (by rw [hev cur hc, hx])))

theorem selectF_ref (fix : Bool) (fs : List (RVal D × AddFieldMeta)) {fms : List FieldMeta} {s : RStream D}
    (hconf : ∀ r ∈ okRows s, Conforms fms r.vals) :
    ResRef (selectF O fs (fms, s)) (filterR O fix (.select fs) (fms, collect s)) := by
  have hp := selectPlan_ref O fms fs [] [] (by simp)
  simp only [selectF, filterR]
  by_cases he : fs.isEmpty = true
  · simp [he, ResRef]
  · simp only [he, Bool.false_eq_true, if_false]
    cases hq : selectPlan O fms fs [] [] with
    | error e => rw [hq] at hp; simp only at hp; simp [ResRef, hp]
    | ok q =>
      obtain ⟨metas, fns⟩ := q
      rw [hq] at hp
      obtain ⟨hm, hev⟩ := hp
      simp only [hm, Option.map_some, ResRef]
      congr 2
      exact (collect_mapRows_ref hconf fun r hr => by rw [hev r.vals (by simpa using hr)]).symm

/-! ## every report filter -/

theorem applyRF_refN (fix : Bool) (f : RFilter D) {fms : List FieldMeta} {s : RStream D}
    (hs : RSound (fms, s)) :
    ResRef (applyRF O fix f (fms, s)) (filterR O fix f (fms, collect s)) := by
  have hconf := hs.rows
  have hnd : (fms.map (·.urn)).Nodup := hs.nodup
  cases f with
  | drop urns => exact dropF_ref O urns hnd
  | select fs => exact selectF_ref O fix fs hconf
  | override u nu nn c => exact applyRF_ref O fix (f := .override u nu nn c) trivial hconf (fun m hm => (hs.valid m hm).2)
  | append v afm =>
    have hp := planPrepare_refN O v afm fms
    simp only [applyRF, appendF, filterR, typeField]
    cases hq : planRVal O v fms >>= prepareK afm with
    | error e => rw [hq] at hp; simp only at hp; simp [ResRef, hp]
    | ok q =>
      obtain ⟨fm, fn⟩ := q
      rw [hq] at hp
      obtain ⟨hm, hev⟩ := hp
      simp only [hm, Option.bind_some, ← hasField_any]
      by_cases hh : hasField fms afm.urn = true
      · simp only [hh, if_true, ResRef]
      · simp only [hh, Bool.false_eq_true, if_false, ResRef]
        congr 2
        exact (collect_mapRows_ref hconf fun r hr => by rw [hev r.vals hr]).symm
  | single v afm =>
    have hp := planPrepare_refN O v afm fms
    simp only [applyRF, singleF, filterR, typeField]
    cases hq : planRVal O v fms >>= prepareK afm with
    | error e => rw [hq] at hp; simp only at hp; simp [ResRef, hp]
    | ok q =>
      obtain ⟨fm, fn⟩ := q
      rw [hq] at hp
      obtain ⟨hm, hev⟩ := hp
      simp only [hm, Option.map_some, ResRef]
      congr 2
      exact (collect_mapRows_ref hconf fun r hr => by rw [hev r.vals hr]).symm
  | replace urn v afm =>
    have hp := planPrepare_refN O v afm fms
    simp only [applyRF, replaceF, filterR, typeField, findField_findIdx]
    cases hfind : findField urn fms with
    | none => simp [ResRef]
    | some p0 =>
      obtain ⟨m0, idx⟩ := p0
      simp only [Option.map_some, Option.bind_some]
      cases hq : planRVal O v fms >>= prepareK afm with
      | error e => rw [hq] at hp; simp only at hp; simp [ResRef, hp]
      | ok q =>
        obtain ⟨fm, fn⟩ := q
        rw [hq] at hp
        obtain ⟨hm, hev⟩ := hp
        simp only [hm, Option.bind_some, ← hasField_any]
        by_cases hd : fm.urn ≠ urn ∧ hasField fms fm.urn = true
        · have : (fm.urn != urn && hasField fms fm.urn) = true := by simp [hd.1, hd.2]
          simp [hd, this, ResRef]
        · have : (fm.urn != urn && hasField fms fm.urn) = false := by
            by_cases h1 : fm.urn = urn
            · simp [h1]
            · have : hasField fms fm.urn = false := by
                cases hh : hasField fms fm.urn
                · rfl
                · exact absurd ⟨h1, hh⟩ hd
              simp [this]
          simp only [hd, this, if_false, Bool.false_eq_true, ResRef, setAt]
          congr 2
          exact (collect_mapRows_ref hconf fun r hr => by rw [hev r.vals hr]).symm
  | where_ v =>
    have h := planRVal_refN O v fms
    simp only [applyRF, whereRF, filterR]
    cases hp : planRVal O v fms with
    | error e => rw [hp] at h; simp only [RefOk] at h; simp [ResRef, h]
    | ok p =>
      rw [hp] at h
      obtain ⟨hty, hev⟩ := h
      simp only [hty, Option.bind_some]
      by_cases hb : p.1.dt = .boolean
      · by_cases hr : p.1.required = true
        · simp only [hb, hr, ne_eq, not_true_eq_false, if_false, Bool.not_true, Bool.false_eq_true, beq_self_eq_true,
            Bool.and_self, if_true, ResRef]
          congr 2
          rw [collect_whereStream]
          cases hc : collect s with
          | none => rfl
          | some l =>
            simp only [Option.bind_some]
            have := collect_eq_okRows hc
            subst this
            exact whereTable_congr fun r hr => (hev r.vals (hconf r hr)).symm
        · have : p.1.required = false := by simpa using hr
          simp [hb, this, ResRef]
      · have : (p.1.dt == DataType.boolean) = false := by simpa using hb
        simp [hb, this, ResRef]

theorem applyRFs_refN (fix : Bool) : ∀ (fs : List (RFilter D)) {fms : List FieldMeta} {s : RStream D}, RSound (fms, s) →
    ResRef (applyRFs O fix fs (fms, s)) (filtersR O fix fs (fms, collect s))
  | [], fms, s, _ => by simp [applyRFs, filtersR, ResRef]
  | f :: fs, fms, s, hs => by
    have h1 := applyRF_refN O fix f hs
    simp only [applyRFs, filtersR, bind, Except.bind]
    cases hr : applyRF O fix f (fms, s) with
    | error e => rw [hr] at h1; simp only [ResRef] at h1; simp [ResRef, h1]
    | ok r1 =>
      obtain ⟨fms1, s1⟩ := r1
      rw [hr] at h1
      simp only [ResRef] at h1
      simp only [h1, Option.bind_some]
      exact applyRFs_refN fix fs (applyRF_sound O hs hr)

/-! ## the reference is lazy in the rows: without rows it still computes the same metadata -/

theorem filterR_rows_none (fix : Bool) (f : RFilter D) (fms : List FieldMeta) (rows : Option (List (Row D))) :
    filterR O fix f (fms, none) = (filterR O fix f (fms, rows)).map fun r => (r.1, none) := by
  cases f with
  | append v afm =>
    simp only [filterR, mapTable, Option.bind_none]
    cases typeField O v afm fms with
    | none => rfl
    | some fm => simp only [Option.bind_some]; split <;> rfl
  | drop urns =>
    simp only [filterR, mapTable, Option.bind_none]
    split <;> rfl
  | select fs =>
    simp only [filterR, mapTable, Option.bind_none]
    split
    · rfl
    · cases selectMetas O fms fs [] <;> rfl
  | replace urn v afm =>
    simp only [filterR, mapTable, Option.bind_none]
    cases findIdx? (fun m => m.urn == urn) fms with
    | none => rfl
    | some idx =>
      simp only [Option.bind_some]
      cases typeField O v afm fms with
      | none => rfl
      | some fm => simp only [Option.bind_some]; split <;> rfl
  | single v afm =>
    simp only [filterR, mapTable, Option.bind_none]
    cases typeField O v afm fms <;> rfl
  | override u nu nn c =>
    simp only [filterR]
    cases findIdx? (fun m => m.urn == u) fms with
    | none => rfl
    | some idx =>
      simp only [Option.bind_some]
      cases fms[idx]? with
      | none => rfl
      | some orig =>
        simp only [Option.bind_some]
        split
        · rfl
        · split <;> rfl
  | where_ v =>
    simp only [filterR, Option.bind_none]
    cases typeR O v fms with
    | none => rfl
    | some vm => simp only [Option.bind_some]; split <;> rfl

theorem filtersR_rows_none (fix : Bool) : ∀ (fs : List (RFilter D)) (fms : List FieldMeta)
    (rows : Option (List (Row D))),
    filtersR O fix fs (fms, none) = (filtersR O fix fs (fms, rows)).map fun r => (r.1, none)
  | [], _, _ => rfl
  | f :: fs, fms, rows => by
    simp only [filtersR]
    rw [filterR_rows_none O fix f fms rows]
    cases filterR O fix f (fms, rows) with
    | none => rfl
    | some r =>
      obtain ⟨fms1, rows1⟩ := r
      simp only [Option.map_some, Option.bind_some]
      exact filtersR_rows_none fix fs fms1 rows1

end ShpanVerif.Proofs.Query
