/-
C04, elementary facts that make the list-level reference semantics (`Spec/PipeSpec.lean`) recognisable as
the property's words: which windows `Spec.windows` contains, what `Spec.runs` / `Spec.clusterOut` are,
how long `Spec.zipRows` is.  Nothing here mentions the operational model.
-/
import ShpanVerif.Proofs.PipeC04Cluster

namespace ShpanVerif.Proofs.PipeC04
open ShpanVerif.Model.Pipe ShpanVerif

/-! ### Window -/

/-- **Exactly which windows are emitted.**  Window number `i` (0-based) is the run of `size` elements
    starting at source index `i * step` as long as a full run is available there; the first position where
    fewer than `size` elements are left contributes those (non-empty) leftovers iff partial windows are not
    omitted and `step ≠ 1`; nothing follows. -/
theorem windows_getElem? {α : Type} (s st : Nat) (o : Bool) (hs : 0 < s) (hst : 0 < st) :
    ∀ (n : Nat) (l : List α), l.length < n → ∀ i : Nat,
      (Spec.windows s st o n l)[i]? =
        if s ≤ (l.drop (i * st)).length then some ((l.drop (i * st)).take s)
        else if (i = 0 ∨ s ≤ (l.drop ((i - 1) * st)).length) ∧ l.drop (i * st) ≠ [] ∧ o = false ∧ st ≠ 1
          then some (l.drop (i * st))
        else none
  | 0, _, h, _ => by omega
  | n+1, l, hn, i => by
    rw [Spec.windows]
    by_cases hl : s ≤ l.length
    · rw [if_pos hl]
      cases i with
      | zero => simp [hl]
      | succ j =>
        have hd : (l.drop st).length < n := by simp only [List.length_drop]; omega
        rw [List.getElem?_cons_succ, windows_getElem? s st o hs hst n (l.drop st) hd j]
        have e1 : List.drop (j * st) (List.drop st l) = List.drop ((j + 1) * st) l := by
          rw [List.drop_drop]; congr 1; rw [Nat.add_mul]; omega
        rw [e1]
        have e2 : (j = 0 ∨ s ≤ (List.drop ((j - 1) * st) (List.drop st l)).length) ↔
            (j + 1 = 0 ∨ s ≤ (List.drop ((j + 1 - 1) * st) l).length) := by
          cases j with
          | zero => simp [hl]
          | succ j' =>
            have : List.drop ((j' + 1 - 1) * st) (List.drop st l) = List.drop ((j' + 1 + 1 - 1) * st) l := by
              rw [List.drop_drop]; congr 1
              simp only [Nat.add_sub_cancel]; rw [Nat.add_mul]; omega
            rw [this]; simp
        simp only [e2]
    · rw [if_neg hl]
      have hshort : ∀ m, ¬ s ≤ (l.drop m).length := by
        intro m; simp only [List.length_drop]; omega
      rw [if_neg (hshort _)]
      cases i with
      | zero =>
        simp only [Nat.zero_mul, List.drop_zero, true_or, true_and]
        by_cases hc : (!l.isEmpty && !o && st != 1) = true
        · rw [if_pos hc]
          have : l ≠ [] ∧ o = false ∧ st ≠ 1 := by
            simp only [Bool.and_eq_true, Bool.not_eq_eq_eq_not, Bool.not_true, bne_iff_ne, ne_eq,
              List.isEmpty_eq_false_iff] at hc
            exact ⟨hc.1.1, hc.1.2, hc.2⟩
          rw [if_pos this]; rfl
        · rw [if_neg hc]
          have : ¬ (l ≠ [] ∧ o = false ∧ st ≠ 1) := by
            intro ⟨h1, h2, h3⟩
            apply hc
            simp [h1, h2, h3]
          rw [if_neg this]; rfl
      | succ j =>
        have : ¬ ((j + 1 = 0 ∨ s ≤ (List.drop ((j + 1 - 1) * st) l).length) ∧
            List.drop ((j + 1) * st) l ≠ [] ∧ o = false ∧ st ≠ 1) := by
          intro ⟨h1, _⟩
          rcases h1 with h1 | h1
          · omega
          · exact hshort _ h1
        rw [if_neg this]
        split <;> simp

/-- every window except possibly the last one has exactly `size` elements -/
theorem windows_length_of_not_last {α : Type} (s st : Nat) (o : Bool) (hs : 0 < s) (hst : 0 < st) (l : List α) (i : Nat)
    (w w' : List α)
    (h : (Spec.windows s st o (l.length + 1) l)[i]? = some w)
    (h' : (Spec.windows s st o (l.length + 1) l)[i + 1]? = some w') : w.length = s := by
  rw [windows_getElem? s st o hs hst _ l (Nat.lt_succ_self _)] at h h'
  have hfull : s ≤ (l.drop (i * st)).length := by
    by_cases hf : s ≤ (l.drop ((i + 1) * st)).length
    · simp only [List.length_drop] at hf ⊢
      have : i * st ≤ (i + 1) * st := Nat.mul_le_mul_right _ (Nat.le_succ _)
      omega
    · rw [if_neg hf] at h'
      split at h'
      · rename_i hc
        rcases hc.1 with h0 | h0
        · omega
        · simpa using h0
      · cases h'
  rw [if_pos hfull] at h
  cases h
  simp only [List.length_take]; omega

/-! ### ZipN -/

theorem zipRows_length (l : List V) (ls : List (List V)) :
    (Spec.zipRows (l :: ls)).length = minLen l.length (l :: ls) := by
  simp only [Spec.zipRows, List.length_map, List.length_range]
  rfl

theorem minLen_le_of_mem (a : Nat) (ls : List (List V)) (l : List V) (h : l ∈ ls) : minLen a ls ≤ l.length := by
  induction ls generalizing a with
  | nil => simp at h
  | cons x ls ih =>
    rw [minLen_cons]
    rcases List.mem_cons.mp h with rfl | h
    · exact Nat.le_trans (minLen_le _ _) (Nat.min_le_right _ _)
    · exact ih _ h

/-- ZipN stops with the shortest input -/
theorem zipRows_length_le (ls : List (List V)) (l : List V) (h : l ∈ ls) : (Spec.zipRows ls).length ≤ l.length := by
  cases ls with
  | nil => simp at h
  | cons x ls => rw [zipRows_length]; exact minLen_le_of_mem _ _ l h

/-- row `i` of ZipN consists of the `i`-th elements of all inputs, in input order -/
theorem zipRows_getElem? (ls : List (List V)) (i : Nat) (h : i < (Spec.zipRows ls).length) :
    (Spec.zipRows ls)[i]? = some (V.arr ((ls.map (fun l => (l[i]?.map V.flat).getD [])).flatten)) := by
  cases ls with
  | nil => simp [Spec.zipRows] at h
  | cons x ls =>
    simp only [Spec.zipRows, List.length_map, List.length_range] at h
    simp only [Spec.zipRows, List.getElem?_map, List.getElem?_range h, Option.map_some]

/-! ### ClusterSortedStream -/

/-- induction principle along `Spec.runs` -/
theorem runs_induction (k : Int) (P : List V → List (List V) → Prop) (h0 : P [] [])
    (hstep : ∀ a l, P (l.dropWhile (inCls k (classify k a))) (Spec.runs k (l.dropWhile (inCls k (classify k a)))) →
      P (a :: l) ((a :: l.takeWhile (inCls k (classify k a))) :: Spec.runs k (l.dropWhile (inCls k (classify k a))))) :
    ∀ (n : Nat) (l : List V), l.length ≤ n → P l (Spec.runs k l)
  | _, [], _ => by rw [runs_nil]; exact h0
  | 0, a :: l, h => by simp at h
  | n+1, a :: l, h => by
    have hr : Spec.runs k (a :: l) = (a :: l.takeWhile (inCls k (classify k a))) ::
        Spec.runs k (l.dropWhile (inCls k (classify k a))) := runs_cons k a l
    rw [hr]
    apply hstep
    apply runs_induction k P h0 hstep n
    have := (List.dropWhile_sublist (inCls k (classify k a)) (l := l)).length_le
    simp only [List.length_cons] at h; omega

/-- every element is in exactly one cluster, order preserved -/
theorem runs_flatten (k : Int) (l : List V) : (Spec.runs k l).flatten = l := by
  refine runs_induction k (fun l gs => gs.flatten = l) rfl ?_ l.length l (Nat.le_refl _)
  intro a l ih
  simp only [List.flatten_cons, ih, List.cons_append, List.takeWhile_append_dropWhile]

/-- no cluster is empty -/
theorem runs_ne_nil (k : Int) (l : List V) : ∀ g ∈ Spec.runs k l, g ≠ [] := by
  refine runs_induction k (fun _ gs => ∀ g ∈ gs, g ≠ []) (by simp) ?_ l.length l (Nat.le_refl _)
  intro a l ih g hg
  rcases List.mem_cons.mp hg with rfl | hg
  · simp
  · exact ih g hg

/-- all elements of a cluster have the classifier of its first element -/
theorem runs_same_class (k : Int) (l : List V) :
    ∀ g ∈ Spec.runs k l, ∀ a ∈ g.head?, ∀ b ∈ g, classify k b = classify k a := by
  refine runs_induction k (fun _ gs => ∀ g ∈ gs, ∀ a ∈ g.head?, ∀ b ∈ g, classify k b = classify k a)
    (by simp) ?_ l.length l (Nat.le_refl _)
  intro a l ih g hg
  rcases List.mem_cons.mp hg with rfl | hg
  · intro a' ha' b hb
    simp only [List.head?_cons, Option.mem_def, Option.some.injEq] at ha'
    subst ha'
    rcases List.mem_cons.mp hb with rfl | hb
    · rfl
    · have := mem_takeWhile_pos _ l b hb
      simpa [inCls] using this
  · exact ih g hg

/-- clusters are maximal: the element following a cluster has a different classifier -/
theorem runs_maximal (k : Int) (l : List V) :
    ∀ (i : Nat) g g', (Spec.runs k l)[i]? = some g → (Spec.runs k l)[i+1]? = some g' →
      ∀ a ∈ g.head?, ∀ b ∈ g'.head?, classify k b ≠ classify k a := by
  refine runs_induction k (fun _ gs => ∀ (i : Nat) g g', gs[i]? = some g → gs[i+1]? = some g' →
      ∀ a ∈ g.head?, ∀ b ∈ g'.head?, classify k b ≠ classify k a) (by simp) ?_ l.length l (Nat.le_refl _)
  intro a l ih i g g' hg hg'
  cases i with
  | succ j =>
    simp only [List.getElem?_cons_succ] at hg hg'
    exact ih j g g' hg hg'
  | zero =>
    simp only [List.getElem?_cons_zero, Option.some.injEq, Nat.zero_add, List.getElem?_cons_succ] at hg hg'
    subst hg
    intro a' ha' b hb
    simp only [List.head?_cons, Option.mem_def, Option.some.injEq] at ha'
    subst ha'
    -- g' is the first run of the remainder, its head is the head of the remainder
    have hhead : g'.head? = (l.dropWhile (inCls k (classify k a))).head? := by
      cases hrest : l.dropWhile (inCls k (classify k a)) with
      | nil => rw [hrest, runs_nil] at hg'; simp at hg'
      | cons x xs =>
        rw [hrest, runs_cons] at hg'
        simp only [List.getElem?_cons_zero, Option.some.injEq] at hg'
        subst hg'; rfl
    rw [hhead] at hb
    have := List.head?_dropWhile_not (inCls k (classify k a)) l
    simp only [Option.mem_def] at hb
    rw [hb] at this
    simp only [inCls, beq_eq_false_iff_ne, ne_eq] at this
    exact this

/-- for a classifier-sorted source the classifiers of successive clusters strictly increase, so no two
    clusters share a classifier: the clusters are the classes -/
theorem runs_count_le (k : Int) (l : List V) : (Spec.runs k l).length ≤ l.length := by
  refine runs_induction k (fun l gs => gs.length ≤ l.length) (Nat.le_refl _) ?_ l.length l (Nat.le_refl _)
  intro a l ih
  have := (List.dropWhile_sublist (inCls k (classify k a)) (l := l)).length_le
  simp only [List.length_cons]; omega

/-- **What each cluster's factory gets and returns.**  Output `i` is the factory applied to
    (classifier of run `i`, the prefix of run `i` the factory asked for, `prev`), where `prev` is nothing for
    the first run and the TRUE LAST element of run `i-1` otherwise — however little of run `i-1` its
    factory consumed. -/
theorem clusterOut_getElem? (k : Int) (fac : Fac) : ∀ (gs : List (List V)) (prev : Option V) (i : Nat),
    (Spec.clusterOut k fac prev gs)[i]? =
      gs[i]?.map (fun g =>
        facResult fac (match g with | x :: _ => classify k x | [] => 0) (takeWant (facWant fac) g)
          (if i = 0 then prev else (gs[i-1]?.bind List.getLast?)))
  | [], _, _ => by simp [Spec.clusterOut]
  | g :: gs, prev, 0 => by
    simp only [Spec.clusterOut, List.getElem?_cons_zero, Option.map_some, if_true, takeWant]
    rfl
  | g :: gs, prev, i+1 => by
    simp only [Spec.clusterOut, List.getElem?_cons_succ]
    rw [clusterOut_getElem? k fac gs g.getLast? i]
    cases i with
    | zero => simp
    | succ j => simp

theorem clusterOut_length (k : Int) (fac : Fac) : ∀ (gs : List (List V)) (prev : Option V),
    (Spec.clusterOut k fac prev gs).length = gs.length
  | [], _ => rfl
  | g :: gs, prev => by simp only [Spec.clusterOut, List.length_cons, clusterOut_length k fac gs]

end ShpanVerif.Proofs.PipeC04
