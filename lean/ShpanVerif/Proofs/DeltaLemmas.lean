/-
C15 helper lemmas: DeltaStream as consecutive differences (telescoping), the counter rule, exact seconds,
the aligned stream of the delta aligner over the runs of the cluster machine, erasure of Locations.
-/
import ShpanVerif.Model.Delta
import ShpanVerif.Proofs.ClusterLemmas1415

namespace ShpanVerif.Proofs.Dl
open List ShpanVerif.Model.TsB ShpanVerif.Model.Reduce ShpanVerif.Model.Delta ShpanVerif.Proofs.Cl1415

variable {ν δ : Type}

/-- The laws of subtraction / addition the telescoping identity needs (any commutative group has them). -/
structure SubLaws (N : Num ν δ) : Prop where
  add_sub : ∀ a b c, N.add (N.sub b a) (N.sub c b) = N.sub c a
  sub_self : ∀ a, N.sub a a = N.zero

/-- sum of a list of values with the carrier's addition -/
def vsum (N : Num ν δ) (l : List ν) : ν := l.foldr N.add N.zero

/-- every record is strictly later than the one before, starting after `pr` -/
def StrictFrom : Rec ν → List (Rec ν) → Prop
  | _, [] => True
  | pr, x :: xs => pr.ts.inst < x.ts.inst ∧ StrictFrom x xs

/-- the differences of consecutive records, each stamped with the later timestamp -/
def diffs (N : Num ν δ) : Rec ν → List (Rec ν) → List (Rec ν)
  | _, [] => []
  | pr, x :: xs => { ts := x.ts, v := N.sub x.v pr.v } :: diffs N x xs

def lastOf : Rec ν → List (Rec ν) → Rec ν
  | pr, [] => pr
  | _, x :: xs => lastOf x xs

theorem deltaGo_strict (N : Num ν δ) : ∀ (xs : List (Rec ν)) (pr : Rec ν), StrictFrom pr xs →
    deltaGo N (some pr) xs = (diffs N pr xs, none) := by
  intro xs
  induction xs with
  | nil => intro pr _; rfl
  | cons x xs ih =>
    intro pr h
    obtain ⟨h1, h2⟩ := h
    simp [deltaGo, diffs, h1, ih x h2]

theorem deltaGo_err_iff (N : Num ν δ) : ∀ (xs : List (Rec ν)) (pr : Rec ν),
    ((deltaGo N (some pr) xs).2 = none ↔ StrictFrom pr xs) ∧
    ((deltaGo N (some pr) xs).2 = none ∨ (deltaGo N (some pr) xs).2 = some .notAfter) := by
  intro xs
  induction xs with
  | nil => intro pr; simp [deltaGo, StrictFrom]
  | cons x xs ih =>
    intro pr
    by_cases h : pr.ts.inst < x.ts.inst
    · obtain ⟨i1, i2⟩ := ih x
      simp only [deltaGo, StrictFrom, h, decide_true, Bool.not_true, Bool.false_eq_true, if_false, true_and]
      exact ⟨i1, i2⟩
    · simp [deltaGo, StrictFrom, h]

theorem diffs_stamps (N : Num ν δ) : ∀ (xs : List (Rec ν)) (pr : Rec ν),
    (diffs N pr xs).map (·.ts) = xs.map (·.ts) := by
  intro xs
  induction xs with
  | nil => intro _; rfl
  | cons x xs ih => intro pr; simp [diffs, ih x]

theorem diffs_telescope (N : Num ν δ) (hN : SubLaws N) : ∀ (xs : List (Rec ν)) (pr : Rec ν),
    vsum N ((diffs N pr xs).map (·.v)) = N.sub (lastOf pr xs).v pr.v := by
  intro xs
  induction xs with
  | nil => intro pr; simp [diffs, vsum, lastOf, hN.sub_self]
  | cons x xs ih =>
    intro pr
    have := ih x
    simp only [vsum] at this
    simp only [diffs, map_cons, vsum, foldr_cons, lastOf, this, hN.add_sub]

theorem subLaws_int (D : Dec δ) : SubLaws (Num.int D) := by
  constructor <;> intros <;> simp [Num.int] <;> omega

theorem subLaws_rat : SubLaws (Num.dec Dec.rat) := by
  constructor <;> intros <;> simp [Num.dec, Dec.rat] <;> grind

/-- invariant of the remaining runs `rs` and the last record `lp` before them -/
def RunsInv (p : Period) (lp : Option (Rec ν)) (rs : List (Int × List (Rec ν))) : Prop :=
  (∀ kg ∈ rs, kg.2 ≠ [] ∧ ∀ x ∈ kg.2, p.start x.ts.inst = kg.1) ∧
  (rs.map (·.1)).Pairwise (· < ·) ∧
  (rs.flatMap (·.2)).Pairwise (fun a b => a.ts.inst ≤ b.ts.inst) ∧
  (∀ l, lp = some l → (∀ kg ∈ rs, p.start l.ts.inst < kg.1) ∧ ∀ x ∈ rs.flatMap (·.2), l.ts.inst ≤ x.ts.inst)

theorem runsInv_tail {p : Period} {lp : Option (Rec ν)} {k : Int} {g : List (Rec ν)} {rest : List (Int × List (Rec ν))}
    (h : RunsInv p lp ((k, g) :: rest)) : RunsInv p g.getLast? rest := by
  obtain ⟨h1, h2, h3, _⟩ := h
  refine ⟨fun kg hkg => h1 kg (by simp [hkg]), (pairwise_cons.mp h2).2, ?_, ?_⟩
  · simp only [flatMap_cons] at h3
    exact (pairwise_append.mp h3).2.1
  · intro l hl
    have hlg : l ∈ g := mem_of_getLast? hl
    constructor
    · intro kg hkg
      have := (pairwise_cons.mp h2).1 kg.1 (mem_map.mpr ⟨kg, hkg, rfl⟩)
      rw [(h1 (k, g) (by simp)).2 l hlg]
      exact this
    · intro x hx
      simp only [flatMap_cons] at h3
      exact (pairwise_append.mp h3).2.2 l hlg x hx

/-- the cluster factory of the delta aligner succeeds under the invariant -/
theorem adFactory_ok (N : Num ν δ) (D : Dec δ) {p : Period} (hT : Tiles p) (lp : Option (Rec ν)) (k : Int)
    (lf : Rec ν) (g' : List (Rec ν)) (hk : p.start lf.ts.inst = k)
    (hlp : ∀ l, lp = some l → p.start l.ts.inst < k ∧ l.ts.inst ≤ lf.ts.inst) :
    ∃ a, adFactory N D p k lp (lf :: g') = .ok a ∧ a.ts = ⟨k, p.loc⟩ ∧
      ((lp = none ∨ lf.ts.inst = k) → a.v = lf.v) := by
  cases lp with
  | none => exact ⟨⟨⟨k, p.loc⟩, lf.v⟩, rfl, rfl, fun _ => rfl⟩
  | some l =>
    obtain ⟨h1, h2⟩ := hlp l rfl
    simp only [adFactory, head?_cons]
    by_cases hb : lf.ts.inst = k
    · simp only [hb, beq_self_eq_true, if_true]
      exact ⟨_, rfl, rfl, fun _ => rfl⟩
    · have hb' : (lf.ts.inst == k) = false := by simpa using hb
      have hne : l.ts.inst ≠ lf.ts.inst := by intro h; rw [h, hk] at h1; omega
      have hlt : l.ts.inst < k := by
        by_cases hc : l.ts.inst < k
        · exact hc
        · have := hT.same_start lf.ts.inst l.ts.inst (by omega) h2
          omega
      have hle := hT.start_le lf.ts.inst
      have c1 : (l.ts.inst == lf.ts.inst) = false := by simpa using hne
      have c2 : (decide (k < l.ts.inst) || decide (lf.ts.inst < k)) = false := by
        simp only [Bool.or_eq_false_iff, decide_eq_false_iff_not]; omega
      simp only [hb', Bool.false_eq_true, if_false, twa, c1, c2, Except.map]
      exact ⟨_, rfl, rfl, fun h => by rcases h with h | h; · cases h
                                      · exact absurd h hb⟩

/-- two lists related position by position -/
inductive All2 {α β : Type} (R : α → β → Prop) : List α → List β → Prop where
  | nil : All2 R [] []
  | cons {a b as bs} : R a b → All2 R as bs → All2 R (a :: as) (b :: bs)

/-- elementwise relation between the aligned records and the clusters they come from -/
def AlignedRel (p : Period) (a : Rec ν) (c : Int × Option (Rec ν) × List (Rec ν)) : Prop :=
  a.ts = ⟨c.1, p.loc⟩ ∧ ∀ lf, c.2.2.head? = some lf → (c.2.1 = none ∨ lf.ts.inst = c.1) → a.v = lf.v

/-- **The aligned stream of the delta aligner**: no factory call fails; one record per run, stamped with the
period start; it carries the run's first value exactly when the run is the first one or starts on the boundary. -/
theorem aligned_ok (N : Num ν δ) (D : Dec δ) {p : Period} (hT : Tiles p) :
    ∀ (rs : List (Int × List (Rec ν))) (lp : Option (Rec ν)), RunsInv p lp rs →
      ∃ A, mapUntilErr (fun c => adFactory N D p c.1 c.2.1 c.2.2) (attachPrev lp rs) = (A, none) ∧
        All2 (AlignedRel p) A (attachPrev lp rs) := by
  intro rs
  induction rs with
  | nil => intro lp _; exact ⟨[], rfl, All2.nil⟩
  | cons r rs ih =>
    intro lp hinv
    obtain ⟨k, g⟩ := r
    obtain ⟨hne, hkeys⟩ := hinv.1 (k, g) (by simp)
    obtain ⟨lf, g', rfl⟩ := exists_cons_of_ne_nil hne
    obtain ⟨a, ha, hats, hav⟩ := adFactory_ok N D hT lp k lf g' (hkeys lf (by simp)) (by
      intro l hl
      obtain ⟨q1, q2⟩ := hinv.2.2.2 l hl
      exact ⟨q1 (k, lf :: g') (by simp), q2 lf (by simp [flatMap_cons])⟩)
    obtain ⟨A, hA, hrel⟩ := ih (lf :: g').getLast? (runsInv_tail hinv)
    refine ⟨a :: A, by simp [attachPrev, mapUntilErr, ha, hA], ?_⟩
    simp only [attachPrev]
    refine All2.cons ⟨hats, ?_⟩ hrel
    intro lf' hlf' hcond
    simp only [head?_cons, Option.some.injEq] at hlf'
    subst hlf'
    exact hav hcond

/-! #### assembling AlignDeltaStream -/

theorem All2.length_eq {α β : Type} {R : α → β → Prop} {A : List α} {B : List β} (h : All2 R A B) :
    A.length = B.length := by
  induction h with
  | nil => rfl
  | cons _ _ ih => simp [ih]

theorem All2.getLast {α β : Type} {R : α → β → Prop} {A : List α} {B : List β} (h : All2 R A B) :
    ∀ b, B.getLast? = some b → ∃ a, A.getLast? = some a ∧ R a b := by
  induction h with
  | nil => intro b hb; simp at hb
  | @cons a b as bs hr hrest ih =>
    intro b' hb'
    cases bs with
    | nil =>
      cases hrest
      simp only [getLast?_singleton, Option.some.injEq] at hb'
      subst hb'
      exact ⟨a, by simp, hr⟩
    | cons b2 bs' =>
      cases hrest with
      | cons hr2 hrest2 =>
        rw [getLast?_cons_cons] at hb'
        obtain ⟨a', ha', hR⟩ := ih b' hb'
        exact ⟨a', by rw [getLast?_cons_cons]; exact ha', hR⟩

theorem All2.map_eq {α β γ : Type} {R : α → β → Prop} {A : List α} {B : List β} (f : α → γ) (g : β → γ)
    (h : All2 R A B) (hfg : ∀ a b, R a b → f a = g b) : A.map f = B.map g := by
  induction h with
  | nil => rfl
  | cons hr _ ih => simp [hfg _ _ hr, ih]

theorem attachPrev_keys {α : Type} (lp : Option α) (rs : List (Int × List α)) :
    (attachPrev lp rs).map (·.1) = rs.map (·.1) := by
  induction rs generalizing lp with
  | nil => rfl
  | cons r rs ih => obtain ⟨k, g⟩ := r; simp [attachPrev, ih]

/-- the last cluster: its items are the last run; its predecessor is missing only for a single first run -/
theorem attachPrev_getLast {α : Type} (rs : List (Int × List α)) (hne : ∀ kg ∈ rs, kg.2 ≠ []) :
    ∀ (lp : Option α) (c : Int × Option α × List α), (attachPrev lp rs).getLast? = some c →
      rs.getLast? = some (c.1, c.2.2) ∧ (c.2.1 = none → lp = none ∧ rs.length = 1) := by
  induction rs with
  | nil => intro lp c h; simp [attachPrev] at h
  | cons r rs ih =>
    intro lp c h
    obtain ⟨k, g⟩ := r
    cases rs with
    | nil =>
      simp only [attachPrev, getLast?_singleton, Option.some.injEq] at h
      subst h
      exact ⟨rfl, fun h => ⟨h, rfl⟩⟩
    | cons r2 rs' =>
      obtain ⟨k2, g2⟩ := r2
      simp only [attachPrev] at h
      rw [getLast?_cons_cons] at h
      have := ih (fun kg hkg => hne kg (by simp [hkg])) g.getLast? c (by simpa [attachPrev] using h)
      refine ⟨by rw [getLast?_cons_cons]; exact this.1, ?_⟩
      intro hc
      obtain ⟨hnone, _⟩ := this.2 hc
      have hg : g ≠ [] := hne (k, g) (by simp)
      obtain ⟨y, hy⟩ := exists_mem_of_ne_nil _ hg
      cases hgl : g.getLast? with
      | none => exact absurd (getLast?_eq_none_iff.mp hgl) hg
      | some z => rw [hgl] at hnone; cases hnone

theorem flatMap_getLast {α : Type} (rs : List (Int × List α)) (hne : ∀ kg ∈ rs, kg.2 ≠ []) :
    (rs.flatMap (·.2)).getLast? = rs.getLast?.bind (fun kg => kg.2.getLast?) := by
  induction rs with
  | nil => rfl
  | cons r rs ih =>
    cases rs with
    | nil => simp
    | cons r2 rs' =>
      have ih' := ih (fun kg hkg => hne kg (by simp [hkg]))
      rw [getLast?_cons_cons, ← ih', flatMap_cons, getLast?_append]
      have : ((r2 :: rs').flatMap (·.2)) ≠ [] := by
        simp only [flatMap_cons, ne_eq, append_eq_nil_iff, not_and]
        intro h; exact absurd h (hne r2 (by simp))
      cases hl : ((r2 :: rs').flatMap (·.2)).getLast? with
      | none => exact absurd (getLast?_eq_none_iff.mp hl) this
      | some z => simp

theorem strictFrom_of_pairwise : ∀ (xs : List (Rec ν)) (pr : Rec ν),
    (pr :: xs).Pairwise (fun a b => a.ts.inst < b.ts.inst) → StrictFrom pr xs := by
  intro xs
  induction xs with
  | nil => intro _ _; trivial
  | cons x xs ih =>
    intro pr h
    obtain ⟨h1, h2⟩ := pairwise_cons.mp h
    exact ⟨h1 x (by simp), ih x h2⟩

theorem pairwise_of_strictFrom : ∀ (xs : List (Rec ν)) (pr : Rec ν), StrictFrom pr xs →
    (pr :: xs).Pairwise (fun a b => a.ts.inst < b.ts.inst) := by
  intro xs
  induction xs with
  | nil => intro _ _; simp
  | cons x xs ih =>
    intro pr h
    obtain ⟨h1, h2⟩ := h
    have := ih x h2
    rw [pairwise_cons]
    refine ⟨?_, this⟩
    intro y hy
    rcases mem_cons.mp hy with rfl | hy
    · exact h1
    · have := (pairwise_cons.mp this).1 y hy; omega

theorem lastOf_eq_getLast : ∀ (xs : List (Rec ν)) (pr : Rec ν), some (lastOf pr xs) = (pr :: xs).getLast? := by
  intro xs
  induction xs with
  | nil => intro _; rfl
  | cons x xs ih => intro pr; rw [getLast?_cons_cons]; exact ih x

theorem lastOf_append_singleton (xs : List (Rec ν)) (pr t : Rec ν) : lastOf pr (xs ++ [t]) = t := by
  have := lastOf_eq_getLast (xs ++ [t]) pr
  rw [← cons_append, getLast?_append] at this
  simpa using this

theorem tiles_mono' {p : Period} (hT : Tiles p) {u t : Int} (h : u ≤ t) : p.start u ≤ p.start t := by
  by_cases hlt : p.start u ≤ p.start t
  · exact hlt
  · have h1 := hT.start_le u
    have := hT.same_start t u (by omega) h
    omega

theorem runsInv_init {p : Period} (hT : Tiles p) (xs : List (Rec ν))
    (hs : xs.Pairwise (fun a b => a.ts.inst ≤ b.ts.inst)) :
    RunsInv p none (runs (fun (r : Rec ν) => p.start r.ts.inst) xs) := by
  have hk : xs.Pairwise (fun a b => p.start a.ts.inst ≤ p.start b.ts.inst) :=
    hs.imp (fun {a b : Rec ν} (h : a.ts.inst ≤ b.ts.inst) => tiles_mono' hT h)
  refine ⟨runs_keys _ xs, (runs_sorted _ xs hk).1, ?_, by simp⟩
  rw [runs_flatten]; exact hs


/-- exact value of a dynamic numeric value -/
def valQ : Val Rat → Rat
  | .i n => (n : Rat)
  | .d x => x

theorem secs_rat (d : Int) : secs Dec.rat d = (d : Rat) / 1000000000 := by
  have h := Int.mul_tdiv_add_tmod d 1000000000
  have h2 : (d : Rat) = ((1000000000 * d.tdiv 1000000000 + d.tmod 1000000000 : Int) : Rat) := by rw [h]
  rw [h2]
  simp only [secs, Dec.rat, Rat.intCast_add, Rat.intCast_mul]
  grind

theorem toFloat64_rat (dt : DType) (hnum : dt.isNumeric = true) (v : Val Rat) (hv : v.dtype = dt) :
    toFloat64 Dec.rat dt v = .ok (valQ v) := by
  cases dt <;> simp [DType.isNumeric] at hnum <;> cases v <;> simp [Val.dtype] at hv <;>
    simp [toFloat64, valQ, Dec.rat]

theorem ratTrunc_nonneg (q : Rat) (h : 0 ≤ q) : 0 ≤ ratTrunc q := by
  unfold ratTrunc
  exact Int.tdiv_nonneg (Rat.num_nonneg.mpr h) (by exact_mod_cast Nat.zero_le q.den)

/-- **The counter rule** (non_negative_delta.go) over exact values. -/
theorem nonNegDelta_rule (mx curr prev : Rat) :
    nonNegDelta Dec.rat mx curr prev =
      if curr < 0 then (0, false)
      else if curr < prev then (if 0 < mx then (mx - prev) + curr else curr, true)
      else (curr - prev, true) := by
  simp only [nonNegDelta, Dec.rat, decide_eq_true_eq]
  split <;> split <;> (try split) <;> simp_all

theorem nonNegDelta_nonneg (mx curr prev : Rat) (hc : 0 ≤ curr) (hp : 0 < mx → prev ≤ mx) :
    (nonNegDelta Dec.rat mx curr prev).2 = true ∧ 0 ≤ (nonNegDelta Dec.rat mx curr prev).1 := by
  rw [nonNegDelta_rule]
  have h1 : ¬ curr < 0 := by grind
  simp only [h1, if_false]
  split
  · split
    · rename_i h2 h3; have := hp h3; exact ⟨rfl, by simp only; grind⟩
    · exact ⟨rfl, hc⟩
  · exact ⟨rfl, by simp only; grind⟩

theorem nonNegDelta_drop (mx curr prev : Rat) (hc : curr < 0) : (nonNegDelta Dec.rat mx curr prev).2 = false := by
  rw [nonNegDelta_rule]; simp [hc]

/-- typed subtraction of well-typed values: the exact difference, of the same type -/
theorem subVal_rat (dt : DType) (hnum : dt.isNumeric = true) (a b : Val Rat) (ha : a.dtype = dt) (hb : b.dtype = dt) :
    ∃ v, subVal Dec.rat dt a b = .ok v ∧ v.dtype = dt ∧ valQ v = valQ a - valQ b := by
  cases dt <;> simp [DType.isNumeric] at hnum <;> cases a <;> simp [Val.dtype] at ha <;> cases b <;>
    simp [Val.dtype] at hb <;>
    simp [subVal, asInt, asDec, bind, Except.bind, pure, Except.pure, Val.dtype, valQ, Dec.rat, Rat.intCast_sub]

theorem fromFloat64_rat (dt : DType) (hnum : dt.isNumeric = true) (q : Rat) (hq : 0 ≤ q) :
    ∃ v, fromFloat64 Dec.rat dt q = .ok v ∧ v.dtype = dt ∧ 0 ≤ valQ v := by
  cases dt <;> simp [DType.isNumeric] at hnum
  · exact ⟨.i (ratTrunc q), rfl, rfl, by simpa [valQ, Rat.intCast_nonneg] using ratTrunc_nonneg q hq⟩
  · exact ⟨.d q, rfl, rfl, hq⟩


/-- forget the Location a timestamp is expressed in -/
def er (r : Rec ν) : Rec ν := { ts := ⟨r.ts.inst, 0⟩, v := r.v }

theorem runs_map_er (p : Period) (xs : List (Rec ν)) :
    runs (fun (r : Rec ν) => p.start r.ts.inst) (xs.map er) =
      (runs (fun (r : Rec ν) => p.start r.ts.inst) xs).map (fun kg => (kg.1, kg.2.map er)) := by
  induction xs with
  | nil => rfl
  | cons x xs ih =>
    simp only [map_cons, runs, ih]
    cases runs (fun (r : Rec ν) => p.start r.ts.inst) xs with
    | nil => simp [er]
    | cons kg rest =>
      obtain ⟨k, g⟩ := kg
      simp only [map_cons, er]
      split <;> simp_all [er]

theorem attachPrev_map_er (lp : Option (Rec ν)) (rs : List (Int × List (Rec ν))) :
    attachPrev (lp.map er) (rs.map (fun kg => (kg.1, kg.2.map er))) =
      (attachPrev lp rs).map (fun c => (c.1, c.2.1.map er, c.2.2.map er)) := by
  induction rs generalizing lp with
  | nil => rfl
  | cons r rs ih =>
    obtain ⟨k, g⟩ := r
    simp only [map_cons, attachPrev, getLast?_map, ih]

theorem adFactory_er (N : Num ν δ) (D : Dec δ) (p : Period) (c : Int) (lp : Option (Rec ν)) (g : List (Rec ν)) :
    adFactory N D p c (lp.map er) (g.map er) = adFactory N D p c lp g := by
  cases g with
  | nil => rfl
  | cons lf g' => cases lp <;> simp [adFactory, er]

theorem mapUntilErr_map {α β γ : Type} (f : β → Except Err γ) (h : α → β) (l : List α) :
    mapUntilErr f (l.map h) = mapUntilErr (fun a => f (h a)) l := by
  induction l with
  | nil => rfl
  | cons a l ih => simp only [map_cons, mapUntilErr, ih]

theorem adTail_er (p : Period) (gf gl : Option (Rec ν)) : adTail p (gf.map er) (gl.map er) = adTail p gf gl := by
  cases gf <;> cases gl <;> simp [adTail, er, Period.endTime]

/-- AlignDeltaStream sees only the instants and the values of its input. -/
theorem alignDelta_er (N : Num ν δ) (D : Dec δ) (p : Period) (xs : List (Rec ν)) :
    alignDelta N D p (xs.map er) = alignDelta N D p xs := by
  unfold alignDelta
  simp only [clustersAll_eq_runs, runs_map_er]
  have h := attachPrev_map_er none (runs (fun (r : Rec ν) => p.start r.ts.inst) xs)
  simp only [Option.map_none] at h
  rw [h, mapUntilErr_map]
  simp only [adFactory_er]
  have hgf : ((attachPrev none (runs (fun (r : Rec ν) => p.start r.ts.inst) xs)).map
        (fun c => (c.1, c.2.1.map er, c.2.2.map er))).head?.bind (fun c => c.2.2.head?) =
      ((attachPrev none (runs (fun (r : Rec ν) => p.start r.ts.inst) xs)).head?.bind (fun c => c.2.2.head?)).map er := by
    cases attachPrev none (runs (fun (r : Rec ν) => p.start r.ts.inst) xs) with
    | nil => rfl
    | cons c cs => simp [head?_map]
  have hgl : ((attachPrev none (runs (fun (r : Rec ν) => p.start r.ts.inst) xs)).map
        (fun c => (c.1, c.2.1.map er, c.2.2.map er))).getLast?.bind (fun c => c.2.2.getLast?) =
      ((attachPrev none (runs (fun (r : Rec ν) => p.start r.ts.inst) xs)).getLast?.bind (fun c => c.2.2.getLast?)).map er := by
    rw [getLast?_map]
    cases (attachPrev none (runs (fun (r : Rec ν) => p.start r.ts.inst) xs)).getLast? with
    | none => rfl
    | some c => simp [getLast?_map]
  rw [hgf, hgl, adTail_er]

/-- DeltaStream copies the later timestamp; everything else depends on instants and values only. -/
theorem deltaGo_er (N : Num ν δ) : ∀ (xs : List (Rec ν)) (pr : Option (Rec ν)),
    deltaGo N (pr.map er) (xs.map er) = ((deltaGo N pr xs).1.map er, (deltaGo N pr xs).2) := by
  intro xs
  induction xs with
  | nil => intro pr; cases pr <;> rfl
  | cons x xs ih =>
    intro pr
    cases pr with
    | none => simpa [deltaGo] using ih (some x)
    | some q =>
      have := ih (some x)
      simp only [Option.map_some] at this
      simp only [map_cons, Option.map_some, deltaGo, this]
      by_cases hlt : q.ts.inst < x.ts.inst <;> simp [er, hlt]


end ShpanVerif.Proofs.Dl
