/-
C11 helper: the executable model (Model/Query.lean, Model/QueryExec.lean) agrees with the reference interpreter
(Model/QueryRef.lean).  Part 1: operator tables and field values.
-/
import ShpanVerif.Model.QueryRef
import ShpanVerif.Proofs.QueryDs

namespace ShpanVerif.Proofs.Query
open ShpanVerif.Model.Query ShpanVerif.Model.Query.Ref List

variable {D : Type} (O : Ops D)

/-! ## tables -/

theorem castFunc_isSome (s t : DataType) : (castFunc O s t).isSome = castAllowed s t := by
  cases s <;> cases t <;> rfl

theorem castFunc_eq {s t : DataType} {cf : Val D → Option (Val D)} (h : castFunc O s t = some cf) {v : Val D}
    (hv : hasTag s v) : cf v = castVal O t v := by
  cases s <;> cases t <;> simp [castFunc] at h <;> subst h <;> cases v <;> simp_all [tagOk, castVal]

theorem condFunc_isSome (op : CondOp) (dt : DataType) : (condFunc O op dt).isSome = condAllowed op dt := by
  cases op <;> cases dt <;> rfl

theorem condFunc_eq {op : CondOp} {dt : DataType} {cf : Val D → Val D → Option Bool} (h : condFunc O op dt = some cf)
    {x y : Val D} (hx : hasTag dt x) (hy : hasTag dt y) : cf x y = cmpVal O op x y := by
  cases dt <;> cases op <;> simp [condFunc, condInt, condDec] at h <;> subst h <;> cases x <;> cases y <;>
    simp_all [tagOk, cmpVal, cmpInt, cmpDec]

theorem binFunc_isSome (op : BinOp) (dt : DataType) :
    (binFunc O op dt).isSome = (dt.isNumeric && op != .bogus && (op != .mod || dt == .integer)) := by
  cases op <;> cases dt <;> rfl

theorem binFunc_eq {op : BinOp} {dt : DataType} {f : Val D → Val D → Option (Val D)} (h : binFunc O op dt = some f)
    {x y : Val D} (hx : hasTag dt x) (hy : hasTag dt y) : f x y = arithVal O op x y := by
  cases dt <;> cases op <;> simp [binFunc, binInt, binDec] at h <;> subst h <;> cases x <;> cases y <;>
    simp_all [tagOk, arithVal, arithInt, arithDec]

theorem unFunc_isSome (op : UnOp) (dt : DataType) : (unFunc O op dt).isSome = unAllowed op dt := by
  cases op <;> cases dt <;> rfl

theorem unFunc_eq {op : UnOp} {dt : DataType} {f : Val D → Option (Val D)} (h : unFunc O op dt = some f)
    {x : Val D} (hx : hasTag dt x) : f x = unaryVal O op x := by
  cases dt <;> cases op <;> simp [unFunc, unInt] at h <;> subst h <;> cases x <;> simp_all [tagOk, unaryVal]

theorem logicFunc_isSome (op : LogicOp) : (logicFunc (D := D) op).isSome = (op != .bogus) := by
  cases op <;> rfl

theorem logicFunc_eq {op : LogicOp} {f : Val D → Val D → Option (Val D)} (h : logicFunc op = some f)
    {x y : Val D} (hx : hasTag .boolean x) (hy : hasTag .boolean y) : f x y = logicVal op x y := by
  cases op <;> simp [logicFunc] at h <;> subst h <;> cases x <;> cases y <;> simp_all [tagOk, logicVal] <;>
    rename_i a b <;> cases a <;> cases b <;> rfl

end ShpanVerif.Proofs.Query

namespace ShpanVerif.Proofs.Query
open ShpanVerif.Model.Query ShpanVerif.Model.Query.Ref List

variable {D : Type} (O : Ops D)

/-! ## field values -/

/-- the planned value has the reference type/metadata and evaluates like the reference on conforming rows -/
def Agrees (fms : List FieldMeta) (v : RVal D) (p : Planned (List (Val D)) D) : Prop :=
  typeR O v fms = some p.1 ∧ ∀ row, Conforms fms row → p.2 row = evalR O v fms row

/-- plan result vs reference: accepted → agrees; rejected → the reference type checker rejects -/
def RefOk (fms : List FieldMeta) (v : RVal D) (r : Except PlanErr (Planned (List (Val D)) D)) : Prop :=
  match r with
  | .ok p => Agrees O fms v p
  | .error _ => typeR O v fms = none

theorem constK_ref (fms : List FieldMeta) (vm : ValueMeta) (c : Val D) :
    RefOk O fms (.const vm c) (constK O vm c) := by
  cases c with
  | nil =>
    simp only [constK]
    split
    · rename_i h; simp [RefOk, typeR, h]
    · rename_i h; simp [RefOk, Agrees, typeR, evalR, h]
  | int _ | dec _ | str _ | bool _ | ts _ =>
    simp only [constK]
    split
    · rename_i h; simp [RefOk, typeR, h]
    · rename_i v' h; simp [RefOk, Agrees, typeR, evalR, h]

theorem findField_find {urn : String} : ∀ {fms : List FieldMeta},
    (findField urn fms).map (·.1) = fms.find? (fun m => m.urn == urn) ∧
    (findField urn fms).map (·.2) = fms.findIdx? (fun m => m.urn == urn)
  | [] => by simp [findField]
  | m :: ms => by
    obtain ⟨h1, h2⟩ := findField_find (urn := urn) (fms := ms)
    simp only [findField, find?_cons, findIdx?_cons]
    by_cases hm : m.urn = urn
    · simp [hm]
    · have : (m.urn == urn) = false := by simpa using hm
      simp only [hm, if_false, this, Option.map_map]
      refine ⟨by simpa [Function.comp_def] using h1, ?_⟩
      rw [← h2]
      cases findField urn ms <;> simp

theorem refR_ref (fms : List FieldMeta) (urn : String) : RefOk O fms (.ref urn) (refR (D := D) urn fms) := by
  obtain ⟨h1, h2⟩ := findField_find (urn := urn) (fms := fms)
  simp only [refR]
  cases hf : findField urn fms with
  | none =>
    rw [hf] at h1
    simp only [RefOk, typeR]
    rw [← h1]; rfl
  | some p =>
    obtain ⟨m, idx⟩ := p
    rw [hf] at h1 h2
    simp only [RefOk, Agrees, typeR, evalR]
    rw [← h1, ← h2]
    simp

variable {fms : List FieldMeta}

theorem castK_ref (t : DataType) {s : RVal D} {ps : Planned (List (Val D)) D} (hs : Agrees O fms s ps)
    (hsound : SoundP (Conforms fms) ps) : RefOk O fms (.cast s t) (castK O t ps) := by
  obtain ⟨hty, hev⟩ := hs
  have hsome := castFunc_isSome O ps.1.dt t
  simp only [castK]
  cases hcf : castFunc O ps.1.dt t with
  | none =>
    rw [hcf] at hsome
    simp only [RefOk, typeR, hty, Option.bind_some]
    simp [← hsome]
  | some cf =>
    rw [hcf] at hsome
    simp only [RefOk, Agrees, typeR, hty, Option.bind_some, evalR]
    refine ⟨by simp [← hsome], fun row hrow => ?_⟩
    rw [← hev row hrow]
    cases hv : ps.2 row with
    | none => rfl
    | some v =>
      have htag := hsound row hrow v hv
      simp only [Option.bind_some]
      by_cases hr : ps.1.required = true
      · simp only [hr, if_true]
        rw [hr] at htag
        rw [castFunc_eq O hcf htag]
        cases v <;> simp_all [tagOk]
      · simp only [hr]
        cases v with
        | nil => rfl
        | int _ | dec _ | str _ | bool _ | ts _ =>
          simp only [Bool.false_eq_true, ↓reduceIte, nilWrap1]
          exact castFunc_eq O hcf (hasTag_of_tagOk htag rfl)

def isOk {ε α : Type} : Except ε α → Bool
  | .ok _ => true
  | .error _ => false

theorem condK_isOk {ρ : Type} (op : CondOp) (pa pb : Planned ρ D) :
    isOk (condK O op pa pb) = (pa.1.dt == pb.1.dt && condAllowed op pa.1.dt) := by
  simp only [condK]
  cases hda : pa.1.dt <;> cases hdb : pb.1.dt <;> cases op <;> simp [condFunc, condInt, condDec, condAllowed, isOk]

theorem condK_ok_shape {ρ : Type} {op : CondOp} {pa pb p : Planned ρ D} (h : condK O op pa pb = .ok p) :
    pa.1.dt = pb.1.dt ∧ ∃ cf, condFunc O op pa.1.dt = some cf ∧
      p = ({ dt := .boolean, unit := "", required := pa.1.required && pb.1.required, custom := none },
        fun row => (pa.2 row).bind fun x => (pb.2 row).bind fun y =>
          ((if !pa.1.required || !pb.1.required then fun x y => if x.isNil || y.isNil then some false else cf x y
            else cf) x y).map Val.bool) := by
  simp only [condK] at h
  split at h
  · simp at h
  · rename_i heq
    simp only [ne_eq, Decidable.not_not] at heq
    split at h
    · simp at h
    · rename_i cf hcf
      simp only [Except.ok.injEq] at h
      exact ⟨heq, cf, hcf, h.symm⟩

theorem condK_ref (op : CondOp) {a b : RVal D} {pa pb : Planned (List (Val D)) D}
    (ha : Agrees O fms a pa) (hb : Agrees O fms b pb)
    (hsa : SoundP (Conforms fms) pa) (hsb : SoundP (Conforms fms) pb) :
    RefOk O fms (.cond op a b) (condK O op pa pb) := by
  obtain ⟨hta, hea⟩ := ha
  obtain ⟨htb, heb⟩ := hb
  have hok := condK_isOk O op pa pb
  cases hr : condK O op pa pb with
  | error e =>
    rw [hr] at hok
    simp only [isOk] at hok
    simp only [RefOk, typeR, hta, htb, Option.bind_some]
    rw [← hok]; rfl
  | ok p =>
    rw [hr] at hok
    simp only [isOk] at hok
    obtain ⟨heq, cf, hcf, rfl⟩ := condK_ok_shape O hr
    simp only [RefOk, Agrees, typeR, hta, htb, Option.bind_some, evalR]
    rw [← hok]
    refine ⟨rfl, fun row hrow => ?_⟩
    rw [← hea row hrow, ← heb row hrow]
    cases hx : pa.2 row with
    | none => rfl
    | some x =>
      cases hy : pb.2 row with
      | none => rfl
      | some y =>
        have htx := hsa row hrow x hx
        have hty := hsb row hrow y hy
        rw [← heq] at hty
        simp only [Option.bind_some]
        congr 1
        by_cases hr' : (!pa.1.required || !pb.1.required) = true
        · simp only [hr', if_true]
          by_cases hn : (x.isNil || y.isNil) = true
          · simp only [hn, if_true]
            cases x <;> cases y <;> simp_all [Val.isNil, cmpVal]
          · simp only [hn]
            simp only [Bool.or_eq_true, not_or, Bool.not_eq_true] at hn
            exact condFunc_eq O hcf (hasTag_of_tagOk htx hn.1) (hasTag_of_tagOk hty hn.2)
        · simp only [hr']
          simp only [Bool.or_eq_true, Bool.not_eq_eq_eq_not, Bool.not_true, not_or, Bool.not_eq_false] at hr'
          exact condFunc_eq O hcf (hasTag_of_required htx hr'.1) (hasTag_of_required hty hr'.2)

theorem numK_isOk {ρ : Type} (op : BinOp) (pa pb : Planned ρ D) :
    isOk (numK O op pa pb) =
      (pa.1.dt.isNumeric && pa.1.dt == pb.1.dt && op != .bogus && (op != .mod || pa.1.dt == .integer)) := by
  simp only [numK]
  cases hda : pa.1.dt <;> cases hdb : pb.1.dt <;> cases op <;>
    simp [binFunc, binInt, binDec, DataType.isNumeric, isOk]

theorem numK_ok_shape {ρ : Type} {op : BinOp} {pa pb p : Planned ρ D} (h : numK O op pa pb = .ok p) :
    pa.1.dt = pb.1.dt ∧ ∃ f, binFunc O op pa.1.dt = some f ∧
      p = ({ dt := pa.1.dt, unit := if pa.1.unit = pb.1.unit then pa.1.unit else "",
             required := pa.1.required && pb.1.required, custom := mergeCustom pb.1.custom pa.1.custom },
        fun row => (pa.2 row).bind fun x => (pb.2 row).bind fun y =>
          (if !(pa.1.required && pb.1.required) then nilWrap2 f else f) x y) := by
  simp only [numK] at h
  split at h
  · simp at h
  split at h
  · simp at h
  split at h
  · simp at h
  rename_i heq
  simp only [ne_eq, Decidable.not_not] at heq
  split at h
  · simp at h
  split at h
  · simp at h
  · rename_i f hf
    simp only [Except.ok.injEq] at h
    exact ⟨heq, f, hf, h.symm⟩

theorem numK_ref (op : BinOp) {a b : RVal D} {pa pb : Planned (List (Val D)) D}
    (ha : Agrees O fms a pa) (hb : Agrees O fms b pb)
    (hsa : SoundP (Conforms fms) pa) (hsb : SoundP (Conforms fms) pb) :
    RefOk O fms (.num op a b) (numK O op pa pb) := by
  obtain ⟨hta, hea⟩ := ha
  obtain ⟨htb, heb⟩ := hb
  have hok := numK_isOk O op pa pb
  cases hr : numK O op pa pb with
  | error e =>
    rw [hr] at hok
    simp only [isOk] at hok
    simp only [RefOk, typeR, hta, htb, Option.bind_some]
    rw [← hok]; rfl
  | ok p =>
    rw [hr] at hok
    simp only [isOk] at hok
    obtain ⟨heq, f, hf, rfl⟩ := numK_ok_shape O hr
    simp only [RefOk, Agrees, typeR, hta, htb, Option.bind_some, evalR]
    rw [← hok]
    refine ⟨by simp, fun row hrow => ?_⟩
    rw [← hea row hrow, ← heb row hrow]
    cases hx : pa.2 row with
    | none => rfl
    | some x =>
      cases hy : pb.2 row with
      | none => rfl
      | some y =>
        have htx := hsa row hrow x hx
        have hty := hsb row hrow y hy
        rw [← heq] at hty
        simp only [Option.bind_some]
        by_cases hr' : (pa.1.required && pb.1.required) = true
        · simp only [hr', Bool.not_true, Bool.false_eq_true, ↓reduceIte]
          simp only [Bool.and_eq_true] at hr'
          exact binFunc_eq O hf (hasTag_of_required htx hr'.1) (hasTag_of_required hty hr'.2)
        · simp only [hr', Bool.not_false, ↓reduceIte, nilWrap2]
          by_cases hn : (x.isNil || y.isNil) = true
          · simp only [hn, if_true]
            cases x <;> cases y <;> simp_all [Val.isNil, arithVal]
          · simp only [hn]
            simp only [Bool.or_eq_true, not_or, Bool.not_eq_true] at hn
            exact binFunc_eq O hf (hasTag_of_tagOk htx hn.1) (hasTag_of_tagOk hty hn.2)

end ShpanVerif.Proofs.Query

namespace ShpanVerif.Proofs.Query
open ShpanVerif.Model.Query ShpanVerif.Model.Query.Ref List

variable {D : Type} (O : Ops D) {fms : List FieldMeta}

theorem unK_isOk {ρ : Type} (op : UnOp) (pa : Planned ρ D) : isOk (unK O op pa) = unAllowed op pa.1.dt := by
  simp only [unK]
  cases hda : pa.1.dt <;> cases op <;> simp [unFunc, unInt, unAllowed, DataType.isNumeric, isOk]

theorem unK_ok_shape {ρ : Type} {op : UnOp} {pa p : Planned ρ D} (h : unK O op pa = .ok p) :
    ∃ f, unFunc O op pa.1.dt = some f ∧
      p = ({ dt := pa.1.dt, unit := pa.1.unit, required := pa.1.required, custom := pa.1.custom },
        fun row => (pa.2 row).bind (if !pa.1.required then nilWrap1 f else f)) := by
  simp only [unK] at h
  split at h
  · simp at h
  split at h
  · simp at h
  · rename_i f hf
    simp only [Except.ok.injEq] at h
    exact ⟨f, hf, h.symm⟩

theorem unK_ref (op : UnOp) {a : RVal D} {pa : Planned (List (Val D)) D} (ha : Agrees O fms a pa)
    (hsa : SoundP (Conforms fms) pa) : RefOk O fms (.un op a) (unK O op pa) := by
  obtain ⟨hta, hea⟩ := ha
  have hok := unK_isOk O op pa
  cases hr : unK O op pa with
  | error e =>
    rw [hr] at hok
    simp only [isOk] at hok
    simp only [RefOk, typeR, hta, Option.bind_some]
    rw [← hok]; rfl
  | ok p =>
    rw [hr] at hok
    simp only [isOk] at hok
    obtain ⟨f, hf, rfl⟩ := unK_ok_shape O hr
    simp only [RefOk, Agrees, typeR, hta, Option.bind_some, evalR]
    rw [← hok]
    refine ⟨rfl, fun row hrow => ?_⟩
    rw [← hea row hrow]
    cases hx : pa.2 row with
    | none => rfl
    | some x =>
      have htx := hsa row hrow x hx
      simp only [Option.bind_some]
      by_cases hr' : pa.1.required = true
      · simp only [hr', Bool.not_true, Bool.false_eq_true, ↓reduceIte]
        exact unFunc_eq O hf (hasTag_of_required htx hr')
      · simp only [hr', Bool.not_false, ↓reduceIte]
        cases x with
        | nil => rfl
        | int _ | dec _ | str _ | bool _ | ts _ =>
          simp only [nilWrap1]
          exact unFunc_eq O hf (hasTag_of_tagOk htx rfl)

theorem logicK_isOk {ρ : Type} (op : LogicOp) (pa pb : Planned ρ D) :
    isOk (logicK op pa pb) =
      (pa.1.required && pb.1.required && pa.1.dt == .boolean && pb.1.dt == .boolean && op != .bogus) := by
  simp only [logicK]
  cases hra : pa.1.required <;> cases hrb : pb.1.required <;> cases hda : pa.1.dt <;> cases hdb : pb.1.dt <;>
    cases op <;> simp [logicFunc, isOk]

theorem logicK_ok_shape {ρ : Type} {op : LogicOp} {pa pb p : Planned ρ D} (h : logicK op pa pb = .ok p) :
    pa.1.required = true ∧ pb.1.required = true ∧ pa.1.dt = .boolean ∧ pb.1.dt = .boolean ∧
    ∃ f, logicFunc (D := D) op = some f ∧
      p = ({ dt := .boolean, unit := "", required := pa.1.required && pb.1.required, custom := none },
        fun row => (pa.2 row).bind fun x => (pb.2 row).bind fun y => f x y) := by
  simp only [logicK] at h
  split at h
  · simp at h
  rename_i h1
  split at h
  · simp at h
  rename_i h2
  split at h
  · simp at h
  rename_i h3
  split at h
  · simp at h
  rename_i h4
  split at h
  · simp at h
  · rename_i f hf
    simp only [Except.ok.injEq] at h
    refine ⟨by simpa using h1, by simpa using h2, by simpa using h3, by simpa using h4, f, hf, h.symm⟩

theorem logicK_ref (op : LogicOp) {a b : RVal D} {pa pb : Planned (List (Val D)) D}
    (ha : Agrees O fms a pa) (hb : Agrees O fms b pb)
    (hsa : SoundP (Conforms fms) pa) (hsb : SoundP (Conforms fms) pb) :
    RefOk O fms (.logic op a b) (logicK op pa pb) := by
  obtain ⟨hta, hea⟩ := ha
  obtain ⟨htb, heb⟩ := hb
  have hok := logicK_isOk op pa pb
  cases hr : logicK op pa pb with
  | error e =>
    rw [hr] at hok
    simp only [isOk] at hok
    simp only [RefOk, typeR, hta, htb, Option.bind_some]
    rw [← hok]; rfl
  | ok p =>
    rw [hr] at hok
    simp only [isOk] at hok
    obtain ⟨hra, hrb, hda, hdb, f, hf, rfl⟩ := logicK_ok_shape hr
    simp only [RefOk, Agrees, typeR, hta, htb, Option.bind_some, evalR]
    rw [← hok]
    refine ⟨by simp [hra, hrb], fun row hrow => ?_⟩
    rw [← hea row hrow, ← heb row hrow]
    cases hx : pa.2 row with
    | none => rfl
    | some x =>
      cases hy : pb.2 row with
      | none => rfl
      | some y =>
        have htx := hsa row hrow x hx
        have hty := hsb row hrow y hy
        rw [hda, hra] at htx
        rw [hdb, hrb] at hty
        simp only [Option.bind_some]
        exact logicFunc_eq hf htx hty

theorem nvlK_ref {s alt : RVal D} {ps pa : Planned (List (Val D)) D}
    (hs : Agrees O fms s ps) (ha : Agrees O fms alt pa) (hss : SoundP (Conforms fms) ps) :
    RefOk O fms (.nvl s alt) (nvlK ps pa) := by
  obtain ⟨hts, hes⟩ := hs
  obtain ⟨hta, hea⟩ := ha
  simp only [nvlK]
  split
  · rename_i hne
    have : (ps.1.dt == pa.1.dt) = false := by simpa using hne
    simp [RefOk, typeR, hts, hta, this] <;> (intros; simp_all)
  · rename_i heq
    simp only [ne_eq, Decidable.not_not] at heq
    have heq' : (ps.1.dt == pa.1.dt) = true := by simpa using heq
    split
    · rename_i hreq
      have : pa.1.required = false := by simpa using hreq
      simp [RefOk, typeR, hts, hta, this] <;> (intros; simp_all)
    · rename_i hreq
      have hreq' : pa.1.required = true := by simpa using hreq
      simp only [RefOk, Agrees, typeR, hts, hta, Option.bind_some, evalR, heq', hreq', Bool.and_self, if_true]
      refine ⟨by simp, fun row hrow => ?_⟩
      rw [← hes row hrow, ← hea row hrow]
      by_cases hr : ps.1.required = true
      · simp only [hr, if_true]
        cases hx : ps.2 row with
        | none => rfl
        | some x =>
          have htx := hss row hrow x hx
          rw [hr] at htx
          cases x <;> simp_all [tagOk]
      · simp only [hr]
        cases hx : ps.2 row with
        | none => rfl
        | some x => cases x <;> rfl

theorem selK_ref {c t f : RVal D} {pc pt pf : Planned (List (Val D)) D}
    (hc : Agrees O fms c pc) (ht : Agrees O fms t pt) (hf : Agrees O fms f pf) :
    RefOk O fms (.sel c t f) (selK pc pt pf) := by
  obtain ⟨htc, hec⟩ := hc
  obtain ⟨htt, het⟩ := ht
  obtain ⟨htf, hef⟩ := hf
  simp only [selK]
  split
  · rename_i h
    have : (pc.1.dt == DataType.boolean) = false := by simpa using h
    simp [RefOk, typeR, htc, htt, htf, this] <;> (intros; simp_all)
  rename_i h1
  have h1' : (pc.1.dt == DataType.boolean) = true := by simpa using h1
  split
  · rename_i h
    have : pc.1.required = false := by simpa using h
    simp [RefOk, typeR, htc, htt, htf, this] <;> (intros; simp_all)
  rename_i h2
  have h2' : pc.1.required = true := by simpa using h2
  split
  · rename_i h
    have : (pt.1.dt == pf.1.dt) = false := by simpa using h
    simp [RefOk, typeR, htc, htt, htf, this] <;> (intros; simp_all)
  rename_i h3
  have h3' : (pt.1.dt == pf.1.dt) = true := by simpa using h3
  split
  · rename_i h
    have : (pt.1.unit == pf.1.unit) = false := by simpa using h
    simp [RefOk, typeR, htc, htt, htf, this] <;> (intros; simp_all)
  rename_i h4
  have h4' : (pt.1.unit == pf.1.unit) = true := by simpa using h4
  split
  · rename_i h
    have : (pt.1.required == pf.1.required) = false := by simpa using h
    simp [RefOk, typeR, htc, htt, htf, this] <;> (intros; simp_all)
  rename_i h5
  have h5' : (pt.1.required == pf.1.required) = true := by simpa using h5
  simp only [RefOk, Agrees, typeR, htc, htt, htf, Option.bind_some, evalR, h1', h2', h3', h4', h5', Bool.and_self,
    if_true]
  refine ⟨by simp, fun row hrow => ?_⟩
  rw [← hec row hrow, ← het row hrow, ← hef row hrow]
  cases hx : pc.2 row with
  | none => rfl
  | some x =>
    cases x with
    | bool b => cases b <;> rfl
    | nil | int _ | dec _ | str _ | ts _ => rfl

end ShpanVerif.Proofs.Query

namespace ShpanVerif.Proofs.Query
open ShpanVerif.Model.Query ShpanVerif.Model.Query.Ref List

variable {D : Type} (O : Ops D) {fms : List FieldMeta}

/-! ## reduce over all fields -/

theorem allInts_of_tags : ∀ {vs : List (Val D)}, (∀ v ∈ vs, hasTag .integer v) → ∃ l, allInts vs = some l
  | [], _ => ⟨[], rfl⟩
  | v :: vs, h => by
    obtain ⟨l, hl⟩ := allInts_of_tags (vs := vs) fun x hx => h x (mem_cons_of_mem _ hx)
    have := h v (by simp)
    cases v <;> simp_all [tagOk, allInts]

theorem allDecs_of_tags : ∀ {vs : List (Val D)}, (∀ v ∈ vs, hasTag .decimal v) → ∃ l, allDecs vs = some l
  | [], _ => ⟨[], rfl⟩
  | v :: vs, h => by
    obtain ⟨l, hl⟩ := allDecs_of_tags (vs := vs) fun x hx => h x (mem_cons_of_mem _ hx)
    have := h v (by simp)
    cases v <;> simp_all [tagOk, allDecs]

theorem allDecs_some {vs : List (Val D)} {l : List D} (h : allDecs vs = some l) : l.length = vs.length := by
  induction vs generalizing l with
  | nil => simp [allDecs] at h; subst h; rfl
  | cons v vs ih =>
    cases v <;> simp [allDecs] at h
    obtain ⟨l', hl, rfl⟩ := h
    simp [ih hl]

theorem redFunc_isSome (rt : RedType) (dt : DataType) : (redFunc O rt dt).isSome = (rt != .bogus) := by
  cases rt <;> rfl

theorem redFunc_eq {rt : RedType} {dt : DataType} {rf : List (Val D) → Option (Val D)}
    (h : redFunc O rt dt = some rf) (hnum : dt.isNumeric = true) {vs : List (Val D)} (hne : vs ≠ [])
    (htags : ∀ v ∈ vs, hasTag dt v) : rf vs = reduceVals O rt vs := by
  have hdt : dt = .integer ∨ dt = .decimal := by cases dt <;> simp_all [DataType.isNumeric]
  rcases hdt with rfl | rfl
  · obtain ⟨l, hl⟩ := allInts_of_tags htags
    have hlen := allInts_some hl
    cases rt <;> simp only [redFunc, Option.some.injEq, reduceCtorEq] at h <;> subst h <;>
      simp [reduceVals, hl] <;> first | (cases l <;> rfl) | omega
  · obtain ⟨l, hl⟩ := allDecs_of_tags htags
    have hni : allInts vs = none := by
      cases vs with
      | nil => exact absurd rfl hne
      | cons v vs =>
        have := htags v (by simp)
        cases v <;> simp_all [tagOk, allInts]
    have hlen := allDecs_some hl
    cases rt <;> simp only [redFunc, Option.some.injEq, reduceCtorEq] at h <;> subst h <;>
      simp [reduceVals, hl, hni] <;> first | (cases l <;> rfl) | omega

theorem reduceCheckRest_iff (dt : DataType) : ∀ (ms : List FieldMeta),
    isOk (reduceCheckRest dt ms) = ms.all fun m => m.dt == dt && m.required
  | [] => rfl
  | m :: ms => by
    simp only [reduceCheckRest, all_cons]
    by_cases h1 : m.dt = dt
    · by_cases h2 : m.required = true
      · simp [h1, h2, reduceCheckRest_iff dt ms]
      · simp [h1, h2, isOk]
    · have : (m.dt == dt) = false := by simpa using h1
      simp [h1, this, isOk]

theorem reduceCheckRest_ok {dt : DataType} : ∀ {ms : List FieldMeta}, reduceCheckRest dt ms = .ok () →
    ∀ m ∈ ms, m.dt = dt ∧ m.required = true
  | [], _, m, hm => by simp at hm
  | m0 :: ms, h, m, hm => by
    simp only [reduceCheckRest] at h
    split at h
    · simp at h
    · split at h
      · simp at h
      · rename_i h1 h2
        rcases mem_cons.mp hm with rfl | hm
        · exact ⟨by simpa using h1, by simpa using h2⟩
        · exact reduceCheckRest_ok h m hm

theorem Conforms_all_tag {dt : DataType} : ∀ {ms : List FieldMeta} {vs : List (Val D)}, Conforms ms vs →
    (∀ m ∈ ms, m.dt = dt ∧ m.required = true) → ∀ v ∈ vs, hasTag dt v
  | [], [], _, _, v, hv => by simp at hv
  | m :: ms, x :: vs, hc, hm, v, hv => by
    rcases mem_cons.mp hv with rfl | hv
    · have := hm m (by simp)
      have h1 := hc.1
      rw [this.1, this.2] at h1
      exact h1
    · exact Conforms_all_tag hc.2 (fun m' hm' => hm m' (mem_cons_of_mem _ hm')) v hv
  | [], _ :: _, hc, _, _, _ => by simp [Conforms] at hc
  | _ :: _, [], hc, _, _, _ => by simp [Conforms] at hc

theorem mapM_length {α β : Type} {f : α → Option β} : ∀ {l : List α} {out : List β}, l.mapM f = some out →
    out.length = l.length
  | [], out, h => by simp at h; subst h; rfl
  | a :: l, out, h => by
    simp only [mapM_cons, Option.bind_eq_bind, Option.bind_eq_some_iff, Option.pure_def, Option.some.injEq] at h
    obtain ⟨b, _, bs, hbs, rfl⟩ := h
    simp [mapM_length hbs]

theorem reduceAll_ref (rt : RedType) (fms : List FieldMeta) :
    RefOk O fms (.reduce rt none) (reduceR O rt none fms) := by
  cases fms with
  | nil => simp [RefOk, reduceR, reducePick, reduceIsMissing, typeR, reduceFields, reduceType]
  | cons m0 tl =>
    have hz : (m0 :: tl).zipIdx = (m0, 0) :: tl.zipIdx 1 := by simp [zipIdx_cons]
    have hfst : (tl.zipIdx 1).map (·.1) = tl := zipIdx_map_fst 1 tl
    have hrest' := reduceCheckRest_iff m0.dt tl
    have hsome := redFunc_isSome O rt m0.dt
    simp only [reduceR, reducePick, reduceIsMissing, Bool.false_eq_true, ↓reduceIte, hz, hfst]
    simp only [RefOk, typeR, reduceFields, reduceAllFound, hz, map_cons, hfst, reduceType, all_cons, beq_self_eq_true,
      Bool.true_and]
    by_cases hnum : m0.dt.isNumeric = true
    · by_cases hreq : m0.required = true
      · simp only [hnum, hreq, Bool.not_true, Bool.false_eq_true, ↓reduceIte, Bool.true_and, Bool.and_true]
        cases hc : reduceCheckRest m0.dt tl with
        | error e' =>
          rw [hc] at hrest'
          simp only [isOk] at hrest'
          simp [← hrest']
        | ok u =>
          rw [hc] at hrest'
          simp only [isOk] at hrest'
          cases hrf : redFunc O rt m0.dt with
          | none =>
            rw [hrf] at hsome
            have : (rt != RedType.bogus) = false := by simpa using hsome.symm
            simp [this]
          | some rf =>
            rw [hrf] at hsome
            have hb : (rt != RedType.bogus) = true := by simpa using hsome.symm
            simp only [hb, ← hrest', Bool.and_self, if_true, Agrees, typeR, reduceFields, reduceAllFound, hz, map_cons,
              hfst, reduceType, all_cons, beq_self_eq_true, Bool.true_and, hnum, hreq, evalR]
            refine ⟨by simp [allSameUnit], fun row hrow => ?_⟩
            rw [← hz]
            cases hm : ((m0 :: tl).zipIdx.mapM fun q => row[q.2]?) with
            | none => rfl
            | some vs =>
              simp only [Option.bind_some]
              have hconf := hrow.pick (l := (m0 :: tl).zipIdx) (fun q hq => mem_zipIdx_iff_getElem?.mp hq) hm
              rw [zipIdx_map_fst] at hconf
              have hall : ∀ m ∈ m0 :: tl, m.dt = m0.dt ∧ m.required = true := by
                intro m hm'
                rcases mem_cons.mp hm' with rfl | hm'
                · exact ⟨rfl, hreq⟩
                · cases u; exact reduceCheckRest_ok hc m hm'
              have hlen := mapM_length hm
              refine redFunc_eq O hrf hnum ?_ (Conforms_all_tag hconf hall)
              intro hnil
              subst hnil
              simp at hlen
      · have : m0.required = false := by simpa using hreq
        simp [hnum, this]
    · have : m0.dt.isNumeric = false := by simpa using hnum
      simp [this]

end ShpanVerif.Proofs.Query

namespace ShpanVerif.Proofs.Query
open ShpanVerif.Model.Query ShpanVerif.Model.Query.Ref List

variable {D : Type} (O : Ops D)

/-- no `reduce` over an explicit urn list inside the value (that form is compared by the correspondence check only) -/
def NoNamedReduce : RVal D → Prop
  | .const _ _ => True
  | .ref _ => True
  | .cast s _ => NoNamedReduce s
  | .cond _ a b => NoNamedReduce a ∧ NoNamedReduce b
  | .num _ a b => NoNamedReduce a ∧ NoNamedReduce b
  | .un _ a => NoNamedReduce a
  | .logic _ a b => NoNamedReduce a ∧ NoNamedReduce b
  | .nvl s alt => NoNamedReduce s ∧ NoNamedReduce alt
  | .sel c t f => NoNamedReduce c ∧ NoNamedReduce t ∧ NoNamedReduce f
  | .reduce _ none => True
  | .reduce _ (some _) => False

theorem typeR_bind_none1 {fms : List FieldMeta} {s : RVal D} {t : DataType} (h : typeR O s fms = none) :
    typeR O (.cast s t) fms = none := by simp [typeR, h]

/-- `C11_plan_eq_ref` at value level: the planned value agrees with the reference type checker and evaluator;
a rejected value is rejected by the reference type checker -/
theorem planRVal_ref : ∀ (v : RVal D), NoNamedReduce v → ∀ (fms : List FieldMeta), RefOk O fms v (planRVal O v fms)
  | .const vm c, _, fms => by simpa [planRVal] using constK_ref O fms vm c
  | .ref urn, _, fms => by simpa [planRVal] using refR_ref O fms urn
  | .cast s t, hn, fms => by
    have ih := planRVal_ref s hn fms
    simp only [planRVal, bind, Except.bind]
    cases hs : planRVal O s fms with
    | error e => rw [hs] at ih; simp [RefOk, typeR] at ih ⊢; simp [ih]
    | ok ps => rw [hs] at ih; exact castK_ref O t ih (planRVal_sound O s hs)
  | .cond op a b, hn, fms => by
    have iha := planRVal_ref a hn.1 fms
    have ihb := planRVal_ref b hn.2 fms
    simp only [planRVal, bind, Except.bind]
    cases ha : planRVal O a fms with
    | error e => rw [ha] at iha; simp [RefOk, typeR] at iha ⊢; simp [iha]
    | ok pa =>
      rw [ha] at iha
      cases hb : planRVal O b fms with
      | error e => rw [hb] at ihb; simp [RefOk, typeR] at ihb ⊢; simp [ihb]
      | ok pb => rw [hb] at ihb; exact condK_ref O op iha ihb (planRVal_sound O a ha) (planRVal_sound O b hb)
  | .num op a b, hn, fms => by
    have iha := planRVal_ref a hn.1 fms
    have ihb := planRVal_ref b hn.2 fms
    simp only [planRVal, bind, Except.bind]
    cases ha : planRVal O a fms with
    | error e => rw [ha] at iha; simp [RefOk, typeR] at iha ⊢; simp [iha]
    | ok pa =>
      rw [ha] at iha
      cases hb : planRVal O b fms with
      | error e => rw [hb] at ihb; simp [RefOk, typeR] at ihb ⊢; simp [ihb]
      | ok pb => rw [hb] at ihb; exact numK_ref O op iha ihb (planRVal_sound O a ha) (planRVal_sound O b hb)
  | .un op a, hn, fms => by
    have ih := planRVal_ref a hn fms
    simp only [planRVal, bind, Except.bind]
    cases ha : planRVal O a fms with
    | error e => rw [ha] at ih; simp [RefOk, typeR] at ih ⊢; simp [ih]
    | ok pa => rw [ha] at ih; exact unK_ref O op ih (planRVal_sound O a ha)
  | .logic op a b, hn, fms => by
    have iha := planRVal_ref a hn.1 fms
    have ihb := planRVal_ref b hn.2 fms
    simp only [planRVal, bind, Except.bind]
    cases ha : planRVal O a fms with
    | error e => rw [ha] at iha; simp [RefOk, typeR] at iha ⊢; simp [iha]
    | ok pa =>
      rw [ha] at iha
      cases hb : planRVal O b fms with
      | error e => rw [hb] at ihb; simp [RefOk, typeR] at ihb ⊢; simp [ihb]
      | ok pb => rw [hb] at ihb; exact logicK_ref O op iha ihb (planRVal_sound O a ha) (planRVal_sound O b hb)
  | .nvl s alt, hn, fms => by
    have ihs := planRVal_ref s hn.1 fms
    have iha := planRVal_ref alt hn.2 fms
    simp only [planRVal, bind, Except.bind]
    cases hs : planRVal O s fms with
    | error e => rw [hs] at ihs; simp [RefOk, typeR] at ihs ⊢; simp [ihs]
    | ok ps =>
      rw [hs] at ihs
      cases ha : planRVal O alt fms with
      | error e => rw [ha] at iha; simp [RefOk, typeR] at iha ⊢; simp [iha]
      | ok pa => rw [ha] at iha; exact nvlK_ref O ihs iha (planRVal_sound O s hs)
  | .sel c t f, hn, fms => by
    have ihc := planRVal_ref c hn.1 fms
    have iht := planRVal_ref t hn.2.1 fms
    have ihf := planRVal_ref f hn.2.2 fms
    simp only [planRVal, bind, Except.bind]
    cases hc : planRVal O c fms with
    | error e => rw [hc] at ihc; simp [RefOk, typeR] at ihc ⊢; simp [ihc]
    | ok pc =>
      rw [hc] at ihc
      cases ht : planRVal O t fms with
      | error e => rw [ht] at iht; simp [RefOk, typeR] at iht ⊢; simp [iht]
      | ok pt =>
        rw [ht] at iht
        cases hf : planRVal O f fms with
        | error e => rw [hf] at ihf; simp [RefOk, typeR] at ihf ⊢; simp [ihf]
        | ok pf => rw [hf] at ihf; exact selK_ref O ihc iht ihf
  | .reduce rt none, _, fms => by simpa [planRVal] using reduceAll_ref O rt fms
  | .reduce _ (some _), hn, _ => by simp [NoNamedReduce] at hn

end ShpanVerif.Proofs.Query

namespace ShpanVerif.Proofs.Query
open ShpanVerif.Model.Query ShpanVerif.Model.Query.Ref List

variable {D : Type} (O : Ops D)

/-! ## filters and join-free datasources against the whole-table reference -/

theorem mapM_cons_opt {α β : Type} (f : α → Option β) (a : α) (l : List α) :
    (a :: l).mapM f = (f a).bind fun b => (l.mapM f).map (b :: ·) := by
  simp only [mapM_cons]
  cases f a with
  | none => rfl
  | some b => cases l.mapM f <;> rfl

theorem collect_map_bind {α β : Type} (g : α → Option β) : ∀ (s : List (Option α)),
    collect (s.map (·.bind g)) = (collect s).bind fun l => l.mapM g
  | [] => rfl
  | none :: s => by simp [collect]
  | some a :: s => by
    have ih := collect_map_bind g s
    simp only [map_cons, Option.bind_some, collect]
    generalize collect s = c at ih ⊢
    cases hg : g a with
    | none =>
      simp only [collect]
      cases c with
      | none => rfl
      | some l => simp only [Option.map_some, Option.bind_some, mapM_cons_opt, hg, Option.bind_none]
    | some b =>
      simp only [collect, ih]
      cases c with
      | none => rfl
      | some l => simp only [Option.map_some, Option.bind_some, mapM_cons_opt, hg]

theorem collect_eq_okRows {α : Type} : ∀ {s : List (Option α)} {l : List α}, collect s = some l → l = okRows s
  | [], l, h => by simp [collect] at h; subst h; rfl
  | none :: s, l, h => by simp [collect] at h
  | some a :: s, l, h => by
    simp only [collect, Option.map_eq_some_iff] at h
    obtain ⟨l', hl', rfl⟩ := h
    have := collect_eq_okRows hl'
    simp [okRows] at this ⊢
    exact this

theorem mapM_congr {α β : Type} {f g : α → Option β} : ∀ {l : List α}, (∀ a ∈ l, f a = g a) → l.mapM f = l.mapM g
  | [], _ => rfl
  | a :: l, h => by
    rw [mapM_cons_opt, mapM_cons_opt, h a (by simp), mapM_congr fun x hx => h x (mem_cons_of_mem _ hx)]

/-- a mapped stream against the reference's whole-table map, for row functions that agree on conforming rows -/
theorem collect_mapRows_ref {fms : List FieldMeta} {s : RStream D} {g g' : Row D → Option (Row D)}
    (hconf : ∀ r ∈ okRows s, Conforms fms r.vals)
    (hg : ∀ r, Conforms fms r.vals → g r = g' r) :
    collect (mapRows g s) = mapTable g' (collect s) := by
  simp only [mapRows, collect_map_bind, mapTable]
  cases hc : collect s with
  | none => rfl
  | some l =>
    simp only [Option.bind_some]
    have := collect_eq_okRows hc
    subst this
    exact mapM_congr fun r hr => hg r (hconf r hr)

theorem mkMeta_prepareK {ρ : Type} (afm : AddFieldMeta) (p : Planned ρ D) :
    (match prepareK afm p with
      | .ok (fm, fn) => mkMeta afm p.1 = some fm ∧ fn = p.2
      | .error _ => mkMeta afm p.1 = none) := by
  simp only [prepareK, newFieldMeta, mkMeta]
  by_cases hu : afm.urn = ""
  · simp [hu]
  · by_cases hv : p.1.dt.valid = true
    · simp [hu, hv]
    · have : p.1.dt.valid = false := by simpa using hv
      simp [hu, this]

/-- value + `PrepareField` against the reference (`typeR` then `mkMeta`) -/
theorem planPrepare_ref {v : RVal D} (hn : NoNamedReduce v) (afm : AddFieldMeta) (fms : List FieldMeta) :
    (match planRVal O v fms >>= prepareK afm with
      | .ok (fm, fn) => (typeR O v fms).bind (mkMeta afm) = some fm ∧
          ∀ row, Conforms fms row → fn row = evalR O v fms row
      | .error _ => (typeR O v fms).bind (mkMeta afm) = none) := by
  have h := planRVal_ref O v hn fms
  simp only [bind, Except.bind]
  cases hp : planRVal O v fms with
  | error e => rw [hp] at h; simp only [RefOk] at h; simp [h]
  | ok p =>
    rw [hp] at h
    obtain ⟨hty, hev⟩ := h
    have hm := mkMeta_prepareK afm p
    simp only
    cases hq : prepareK afm p with
    | error e => rw [hq] at hm; simp [hty, hm]
    | ok q =>
      obtain ⟨fm, fn⟩ := q
      rw [hq] at hm
      obtain ⟨hm1, rfl⟩ := hm
      exact ⟨by simp [hty, hm1], hev⟩

/-- report filters covered by the reference-equality theorem: no `drop`, no `select`, no named `reduce` -/
def RefFilter : RFilter D → Prop
  | .append v _ => NoNamedReduce v
  | .drop _ => False
  | .select _ => False
  | .replace _ v _ => NoNamedReduce v
  | .single v _ => NoNamedReduce v
  | .override _ _ _ _ => True
  | .where_ v => NoNamedReduce v

/-- model result vs reference result: rejected alike, or same metadata and `collect` of the stream = reference rows -/
def ResRef (r : Except PlanErr (RResult D)) (ref : RRes D) : Prop :=
  match r with
  | .ok (fms, s) => ref = some (fms, collect s)
  | .error _ => ref = none

theorem hasField_any (fms : List FieldMeta) (u : String) : hasField fms u = fms.any (fun m => m.urn == u) := rfl

theorem findField_findIdx {urn : String} {fms : List FieldMeta} :
    fms.findIdx? (fun m => m.urn == urn) = (findField urn fms).map (·.2) := (findField_find (urn := urn)).2.symm

theorem collect_whereStream {α : Type} (p : α → Option (Val D)) : ∀ (s : List (Option α)),
    collect (whereStream p s) = (collect s).bind (whereTable p)
  | [] => rfl
  | none :: s => by simp [whereStream, collect]
  | some a :: s => by
    have ih := collect_whereStream p s
    simp only [whereStream, filterMap_cons] at ih ⊢
    simp only [collect]
    generalize collect s = c at ih ⊢
    cases hp : p a with
    | none =>
      simp only [collect]
      cases c with
      | none => rfl
      | some l => simp only [Option.map_some, Option.bind_some, whereTable, hp]
    | some v =>
      cases v with
      | bool b =>
        cases b
        · simp only [ih]
          cases c with
          | none => rfl
          | some l => simp only [Option.map_some, Option.bind_some, whereTable, hp]
        · simp only [collect, ih]
          cases c with
          | none => rfl
          | some l => simp only [Option.map_some, Option.bind_some, whereTable, hp]
      | nil | int _ | dec _ | str _ | ts _ =>
        simp only [collect]
        cases c with
        | none => rfl
        | some l => simp only [Option.map_some, Option.bind_some, whereTable, hp]

theorem whereTable_congr {α : Type} {p q : α → Option (Val D)} : ∀ {l : List α}, (∀ a ∈ l, p a = q a) →
    whereTable p l = whereTable q l
  | [], _ => rfl
  | a :: l, h => by
    simp only [whereTable, h a (by simp)]
    rw [whereTable_congr fun x hx => h x (mem_cons_of_mem _ hx)]

end ShpanVerif.Proofs.Query

namespace ShpanVerif.Proofs.Query
open ShpanVerif.Model.Query ShpanVerif.Model.Query.Ref List

variable {D : Type} (O : Ops D)

theorem overrideCustom_ref (fix : Bool) (c : CustomMeta) (orig : FieldMeta) :
    overrideCustom fix c orig = refCustom fix c orig := by
  cases fix <;> cases c <;> rfl

theorem applyRF_ref (fix : Bool) {f : RFilter D} (hf : RefFilter f) {fms : List FieldMeta} {s : RStream D}
    (hconf : ∀ r ∈ okRows s, Conforms fms r.vals) (hvalid : ∀ m ∈ fms, m.dt.valid = true) :
    ResRef (applyRF O fix f (fms, s)) (filterR O fix f (fms, collect s)) := by
  cases f with
  | drop _ => simp [RefFilter] at hf
  | select _ => simp [RefFilter] at hf
  | append v afm =>
    have hp := planPrepare_ref O hf afm fms
    simp only [applyRF, appendF, filterR, typeField]
    cases hq : planRVal O v fms >>= prepareK afm with
    | error e => rw [hq] at hp; simp only at hp; simp [ResRef, hp]
    | ok q =>
      obtain ⟨fm, fn⟩ := q
      rw [hq] at hp
      obtain ⟨hm, hev⟩ := hp
      simp only [hm, Option.bind_some, ← hasField_any]
      by_cases hh : hasField fms afm.urn = true
      · simp only [hh, if_true, ResRef]
      · simp only [hh, Bool.false_eq_true, if_false, ResRef]
        congr 2
        exact (collect_mapRows_ref hconf fun r hr => by rw [hev r.vals hr]).symm
  | single v afm =>
    have hp := planPrepare_ref O hf afm fms
    simp only [applyRF, singleF, filterR, typeField]
    cases hq : planRVal O v fms >>= prepareK afm with
    | error e => rw [hq] at hp; simp only at hp; simp [ResRef, hp]
    | ok q =>
      obtain ⟨fm, fn⟩ := q
      rw [hq] at hp
      obtain ⟨hm, hev⟩ := hp
      simp only [hm, Option.map_some, ResRef]
      congr 2
      exact (collect_mapRows_ref hconf fun r hr => by rw [hev r.vals hr]).symm
  | replace urn v afm =>
    have hp := planPrepare_ref O hf afm fms
    simp only [applyRF, replaceF, filterR, typeField, findField_findIdx]
    cases hfind : findField urn fms with
    | none => simp [ResRef]
    | some p0 =>
      obtain ⟨m0, idx⟩ := p0
      simp only [Option.map_some, Option.bind_some]
      cases hq : planRVal O v fms >>= prepareK afm with
      | error e => rw [hq] at hp; simp only at hp; simp [ResRef, hp]
      | ok q =>
        obtain ⟨fm, fn⟩ := q
        rw [hq] at hp
        obtain ⟨hm, hev⟩ := hp
        simp only [hm, Option.bind_some, ← hasField_any]
        by_cases hd : fm.urn ≠ urn ∧ hasField fms fm.urn = true
        · have : (fm.urn != urn && hasField fms fm.urn) = true := by simp [hd.1, hd.2]
          simp [hd, this, ResRef]
        · have : (fm.urn != urn && hasField fms fm.urn) = false := by
            by_cases h1 : fm.urn = urn
            · simp [h1]
            · have : hasField fms fm.urn = false := by
                cases hh : hasField fms fm.urn
                · rfl
                · exact absurd ⟨h1, hh⟩ hd
              simp [this]
          simp only [hd, this, if_false, Bool.false_eq_true, ResRef, setAt]
          congr 2
          exact (collect_mapRows_ref hconf fun r hr => by rw [hev r.vals hr]).symm
  | override u nu nn c =>
    simp only [applyRF, overrideRF, filterR, findField_findIdx]
    cases hfind : findField u fms with
    | none => simp [ResRef]
    | some p0 =>
      obtain ⟨orig, idx⟩ := p0
      obtain ⟨hidx, _⟩ := findField_spec hfind
      have hov := hvalid orig (mem_of_getElem? hidx)
      simp only [Option.map_some, Option.bind_some, hidx, ← hasField_any, overrideCustom_ref]
      cases nu with
      | none =>
        simp only [overrideUrn, Option.getD_none, bne_self_eq_false, Bool.false_and, Bool.false_eq_true, if_false,
          newFieldMeta, hov, Bool.not_true]
        by_cases he : orig.urn = ""
        · simp [he, ResRef]
        · have : (orig.urn == "") = false := by simpa using he
          simp [he, this, ResRef, setAt]
      | some w =>
        simp only [overrideUrn, Option.getD_some]
        by_cases hw : w = orig.urn
        · subst hw
          simp only [ne_eq, not_true_eq_false, if_false, bne_self_eq_false, Bool.false_and, Bool.false_eq_true,
            newFieldMeta, hov, Bool.not_true]
          by_cases he : orig.urn = ""
          · simp [he, ResRef]
          · have : (orig.urn == "") = false := by simpa using he
            simp [he, this, ResRef, setAt]
        · have hb : (w != orig.urn) = true := by simpa using hw
          simp only [ne_eq, hw, not_false_eq_true, if_true, hb, Bool.true_and]
          by_cases hh : hasField fms w = true
          · simp [hh, ResRef]
          · have hh' : hasField fms w = false := by simpa using hh
            simp only [hh', Bool.false_eq_true, if_false, newFieldMeta, hov, Bool.not_true]
            by_cases he : w = ""
            · simp [he, ResRef]
            · have : (w == "") = false := by simpa using he
              simp [he, this, ResRef, setAt]
  | where_ v =>
    have h := planRVal_ref O v hf fms
    simp only [applyRF, whereRF, filterR]
    cases hp : planRVal O v fms with
    | error e => rw [hp] at h; simp only [RefOk] at h; simp [ResRef, h]
    | ok p =>
      rw [hp] at h
      obtain ⟨hty, hev⟩ := h
      simp only [hty, Option.bind_some]
      by_cases hb : p.1.dt = .boolean
      · by_cases hr : p.1.required = true
        · simp only [hb, hr, ne_eq, not_true_eq_false, if_false, Bool.not_true, Bool.false_eq_true, beq_self_eq_true,
            Bool.and_self, if_true, ResRef]
          congr 2
          rw [collect_whereStream]
          cases hc : collect s with
          | none => rfl
          | some l =>
            simp only [Option.bind_some]
            have := collect_eq_okRows hc
            subst this
            exact whereTable_congr fun r hr => (hev r.vals (hconf r hr)).symm
        · have : p.1.required = false := by simpa using hr
          simp [hb, this, ResRef]
      · have : (p.1.dt == DataType.boolean) = false := by simpa using hb
        simp [hb, this, ResRef]

end ShpanVerif.Proofs.Query

namespace ShpanVerif.Proofs.Query
open ShpanVerif.Model.Query ShpanVerif.Model.Query.Ref List

variable {D : Type} (O : Ops D)

theorem applyRFs_ref (fix : Bool) : ∀ (fs : List (RFilter D)), (∀ f ∈ fs, RefFilter f) →
    ∀ {fms : List FieldMeta} {s : RStream D}, RSound (fms, s) →
    ResRef (applyRFs O fix fs (fms, s)) (filtersR O fix fs (fms, collect s))
  | [], _, fms, s, _ => by simp [applyRFs, filtersR, ResRef]
  | f :: fs, hfs, fms, s, hs => by
    have h1 := applyRF_ref O fix (hfs f (by simp)) hs.rows (fun m hm => (hs.valid m hm).2)
    simp only [applyRFs, filtersR, bind, Except.bind]
    cases hr : applyRF O fix f (fms, s) with
    | error e => rw [hr] at h1; simp only [ResRef] at h1; simp [ResRef, h1]
    | ok r1 =>
      obtain ⟨fms1, s1⟩ := r1
      rw [hr] at h1
      simp only [ResRef] at h1
      simp only [h1, Option.bind_some]
      exact applyRFs_ref fix fs (fun g hg => hfs g (mem_cons_of_mem _ hg)) (applyRF_sound O hs hr)

theorem liftVal_noNamedReduce (urn : String) : ∀ (v : DVal D), NoNamedReduce (liftVal urn v)
  | .const _ _ => trivial
  | .ref => trivial
  | .cast s _ => liftVal_noNamedReduce urn s
  | .cond _ a b => ⟨liftVal_noNamedReduce urn a, liftVal_noNamedReduce urn b⟩
  | .num _ a b => ⟨liftVal_noNamedReduce urn a, liftVal_noNamedReduce urn b⟩
  | .un _ a => liftVal_noNamedReduce urn a
  | .logic _ a b => ⟨liftVal_noNamedReduce urn a, liftVal_noNamedReduce urn b⟩
  | .nvl s alt => ⟨liftVal_noNamedReduce urn s, liftVal_noNamedReduce urn alt⟩
  | .sel c t f => ⟨liftVal_noNamedReduce urn c, liftVal_noNamedReduce urn t, liftVal_noNamedReduce urn f⟩

theorem liftFilters_refFilter : ∀ (fs : List (DFilter D)) (urn : String), ∀ f ∈ liftFilters urn fs, RefFilter f
  | [], _, f, hf => by simp [liftFilters] at hf
  | g :: fs, urn, f, hf => by
    simp only [liftFilters, mem_cons] at hf
    rcases hf with rfl | hf
    · cases g with
      | fval v afm => exact liftVal_noNamedReduce urn v
      | where_ v => exact liftVal_noNamedReduce urn v
      | override _ _ _ => trivial
    · exact liftFilters_refFilter fs _ f hf

theorem hasDupUrn_of_nodup : ∀ {ms : List FieldMeta} {seen : List String},
    (ms.map (·.urn)).Nodup → (∀ m ∈ ms, m.urn ∉ seen) → hasDupUrn ms seen = false
  | [], _, _, _ => rfl
  | m :: ms, seen, hnd, hs => by
    simp only [map_cons, nodup_cons] at hnd
    simp only [hasDupUrn, Bool.or_eq_false_iff]
    refine ⟨?_, hasDupUrn_of_nodup hnd.2 ?_⟩
    · have := hs m (by simp)
      simpa using this
    · intro m' hm' hmem
      rcases mem_cons.mp hmem with h | h
      · exact hnd.1 (mem_map.mpr ⟨m', hm', h⟩)
      · exact hs m' (mem_cons_of_mem _ hm') h

theorem collect_map_some {α : Type} : ∀ (l : List α), collect (l.map some) = some l
  | [] => rfl
  | a :: l => by simp [collect, collect_map_some l]

theorem collect_map_map {α β : Type} (f : α → β) : ∀ (s : List (Option α)),
    collect (s.map fun e => e.map f) = (collect s).map (·.map f)
  | [] => rfl
  | none :: s => by simp [collect]
  | some a :: s => by
    simp only [map_cons, Option.map_some, collect, collect_map_map f s]
    cases collect s <;> rfl

end ShpanVerif.Proofs.Query
