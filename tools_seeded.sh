#!/usr/bin/env bash
# usage: tools_seeded.sh <srcdir> <name> <pkgdir-for-test-demo|-> <Cxx> [Cxx...]
# Imports a seeded defect (patch.diff + demonstration) produced by an independent sub-agent, re-verifies it on
# scratch copies of /repo (builds, existing tests pass, demo fails with the change and passes without), runs the
# given checks against the mutated copy and records everything in /verif/seeded/<name>/.
set -u
export GOFLAGS=-mod=mod GOPROXY=off GOSUMDB=off GOTOOLCHAIN=local
# scratch copies live under changing paths: give them a build cache of their own and drop it at the end
export GOCACHE=/tmp/verif-gocache-alt
src=$1; name=$2; pkg=$3; shift 3
dst=/verif/seeded/$name
mkdir -p $dst && cp -r $src/. $dst/ 2>/dev/null
mut=/tmp/sd-mut-$$; clean=/tmp/sd-clean-$$
rsync -a --exclude .git --exclude SEEDED /repo/ $mut/; rsync -a --exclude .git --exclude SEEDED /repo/ $clean/
(cd $mut && patch -p1 -s < $dst/patch.diff) || { echo "PATCH FAILED"; rm -rf $mut $clean; exit 2; }
(cd $mut && go build ./... ) || { echo "MUTANT DOES NOT BUILD"; rm -rf $mut $clean; exit 2; }
tests=$(cd $mut && go test -vet=off -count=1 ./... 2>&1 | grep -v "no test files" | grep -cv "^ok")
echo "existing tests on mutant: non-ok lines = $tests"
rundemo() { # $1 = repo copy
  local d=$1
  local dd=$dst; [ -d $dst/demo ] && dd=$dst/demo
  if [ -f $dd/go.mod ] && grep -q "replace" $dd/go.mod; then
    local w=/tmp/sd-demo-$$; rm -rf $w; mkdir -p $w; cp $dd/*.go $dd/go.mod $w/ 2>/dev/null; cp $d/go.sum $w/
    sed -i "s#=> /tmp/wt[0-9]*-[A-Za-z0-9]*#=> $d#; s#=> \.\./\.\./\.\.#=> $d#; s#=> \.\./\.\.#=> $d#" $w/go.mod
    local rc
    if ls $w/*_test.go >/dev/null 2>&1; then
      (cd $w && go test -vet=off -count=1 ./... 2>&1 | tail -4; exit ${PIPESTATUS[0]}); rc=$?
    else
      (cd $w && go run . 2>&1 | tail -4; exit ${PIPESTATUS[0]}); rc=$?
    fi
    rm -rf $w; return $rc
  else
    for f in $dd/*_test.go.txt; do [ -f "$f" ] && cp $f $dd/$(basename $f .txt); done
    for f in $dd/*_test.go; do cp $f $d/$pkg/; done
    (cd $d && go test -tags seeded -vet=off -count=1 ./$pkg/ 2>&1 | tail -3)
    (cd $d && go test -tags seeded -vet=off -count=1 ./$pkg/ >/dev/null 2>&1); local rc=$?
    for f in $dd/*_test.go; do rm -f $d/$pkg/$(basename $f); done
    return $rc
  fi
}
echo "--- demo on mutant (must fail):"; rundemo $mut; rcm=$?
echo "--- demo on clean tree (must pass):"; rundemo $clean; rcc=$?
echo "demo exit: mutant=$rcm clean=$rcc"
results=""
for p in "$@"; do
  out=$(cd /verif && VERIF_REPO=$mut ./check $p quick 2>&1 | grep -v WARNING)
  v=$(echo "$out" | grep -c "^VIOLATION")
  echo "== $name vs $p: $v violation line(s)"; echo "$out" | grep "^VIOLATION\|quick seed" | head -3
  rp=$(echo "$out" | grep "^VIOLATION" | head -1 | sed 's/.*replay=\([^ ]*\).*/\1/')
  if [ -n "$rp" ] && [ -f "$rp" ]; then cp $rp $dst/detected-by-$p.case; fi
  results="$results $p:$v"
done
python3 - "$dst" "$name" "$tests" "$rcm" "$rcc" "$results" <<'PY'
import json,sys,os
dst,name,tests,rcm,rcc,results=sys.argv[1:7]
meta_path=os.path.join(dst,'meta.json')
meta=json.load(open(meta_path)) if os.path.exists(meta_path) else {}
meta.update({"name":name,"existing_tests_non_ok_lines_on_mutant":int(tests),"demo_exit_on_mutant":int(rcm),"demo_exit_on_clean":int(rcc),
 "checks_run":{r.split(':')[0]:int(r.split(':')[1]) for r in results.split()},
 "how_run":"scratch copies of /repo (rsync), patch applied to one; existing suite run on the mutant; demonstration run on mutant and clean copy; ./check <id> quick run with VERIF_REPO=<mutant copy>"})
json.dump(meta,open(meta_path,'w'),indent=1)
PY
rm -rf $mut $clean
