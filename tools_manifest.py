#!/usr/bin/env python3
"""Regenerates MANIFEST.json from props.json (claimed properties) + the fixed list of property ids."""
import json, os, subprocess
ROOT = os.path.dirname(os.path.abspath(__file__))
import glob
reg = {os.path.basename(p)[:-5]: json.load(open(p)) for p in sorted(glob.glob(os.path.join(ROOT, "props.d", "C*.json")))}
ids = [json.loads(l)["id"] for l in open(os.path.join(ROOT, "properties.jsonl"))]
fixes = subprocess.run(["git", "-C", "/repo", "log", "--format=%h %s", "--grep=^fix:"], capture_output=True, text=True).stdout.strip().split("\n")
checks, na = [], []
for pid in ids:
    r = reg.get(pid)
    if not r or not r.get("claimed", True):
        na.append({"property_id": pid, "reason": (r or {}).get("na_reason", "not claimed yet: model, theorems and correspondence runner for this property are still under construction (see DESIGN.md section 5)")})
        continue
    checks.append({
        "property_id": pid,
        "quick_cmd": f"./check {pid} quick",
        "thorough_cmd": f"./check {pid} thorough",
        "evidence_file": f"evidence/{pid}.json",
        "replay_cmd_template": f"./check {pid} --replay {{path}}",
        "engine": "lean-model+go-harness",
        "level_claimed": {"category": "proof", "text": r.get("level_text", ""), "design_ref": r.get("design_ref", f"DESIGN.md section 5, {pid}")},
        "level_note": r.get("level_note", "") or ("; ".join(r.get("assumptions", []) + r.get("trusted_base", []))),
        "technique": r.get("technique", "Lean 4 theorems about an executable model of the code + differential correspondence check model vs real code"),
    })
man = {
    "version": 1,
    "setup_cmd": "./setup.sh",
    "hooks": {"guard": "verif", "enable": "go build -tags verif (harness module with replace => /repo); no hook commits were needed: all observation points are public API",
              "baseline_off_cmd": "cd /repo && for m in . integrations/sql integrations/ws; do (cd $m && GOFLAGS=-mod=mod go test -vet=off -count=1 ./...) || exit 1; done",
              "source_commits": [], "add_only": True},
    "engines": [
        {"name": "lean-model", "path": "lean/", "serves_properties": [c["property_id"] for c in checks], "kind_free_text": "Lean 4 executable models (ShpanVerif/Model), property theorems (ShpanVerif/Props), line-protocol driver (Driver.lean, compiled)"},
        {"name": "go-harness", "path": "harness/", "serves_properties": [c["property_id"] for c in checks], "kind_free_text": "Go module built against /repo's working tree on every run; runs the real library on generated/corpus cases and prints case/obs lines"},
        {"name": "check", "path": "check", "serves_properties": [c["property_id"] for c in checks], "kind_free_text": "python3 driver: build, axiom audit, correspondence, decision, evidence"},
    ],
    "checks": checks,
    "not_applicable": na,
    "notes": "All checks decide by machine-checked proof in Lean 4 about a hand-written model tied to /repo by a differential correspondence run on every invocation. fix: commits in /repo: " + "; ".join(fixes),
}
json.dump(man, open(os.path.join(ROOT, "MANIFEST.json"), "w"), indent=1)
print("claimed", len(checks), "not claimed", len(na))
