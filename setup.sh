#!/usr/bin/env bash
# Builds the framework from files on disk only (offline): Lean project (all modules + compiled driver) and Go harness.
set -e
cd "$(dirname "$0")"
export GOFLAGS=-mod=mod GOPROXY=off GOSUMDB=off GOTOOLCHAIN=local
mkdir -p .work evidence replays
(cd lean && lake build ShpanVerif driver)
cp /repo/go.sum harness/go.sum 2>/dev/null || true
(cd harness && go build -tags verif -o ../.work/corr-setup ./cmd/corr && rm -f ../.work/corr-setup)
echo setup done
