#!/usr/bin/env bash
# usage: tools_harmless.sh <srcdir> <name> <Cxx> [Cxx...]
# Imports a behaviour-preserving rewrite (patch.diff + demonstration) produced by an independent sub-agent, re-verifies it on a
# scratch copy of /repo (builds, existing tests pass, demo passes with the change), runs the given checks against the rewritten
# copy and records in /verif/harmless/<name>/meta.json which of them stayed quiet.
set -u
export GOFLAGS=-mod=mod GOPROXY=off GOSUMDB=off GOTOOLCHAIN=local
export GOCACHE=/tmp/verif-gocache-alt
src=$1; name=$2; shift 2
dst=/verif/harmless/$name
mkdir -p $dst && cp -r $src/. $dst/ 2>/dev/null
mut=/tmp/hl-mut-$$
rsync -a --exclude .git --exclude SEEDED --exclude HARMLESS /repo/ $mut/
(cd $mut && patch -p1 -s < $dst/patch.diff) || { echo "PATCH FAILED"; rm -rf $mut; exit 2; }
(cd $mut && go build ./... ) || { echo "REWRITE DOES NOT BUILD"; rm -rf $mut; exit 2; }
tests=$(cd $mut && go test -vet=off -count=1 ./... 2>&1 | grep -v "no test files" | grep -cv "^ok")
echo "existing tests on rewrite: non-ok lines = $tests"
w=/tmp/hl-demo-$$; rm -rf $w; mkdir -p $w; cp $dst/*.go $dst/go.mod $w/ 2>/dev/null; cp $mut/go.sum $w/
sed -i "s#=> /tmp/hw[0-9]*-[A-Za-z0-9]*#=> $mut#" $w/go.mod
(cd $w && go run . 2>&1 | tail -3; exit ${PIPESTATUS[0]}); rcm=$?
rm -rf $w
echo "demo exit on rewrite: $rcm"
results=""
for p in "$@"; do
  out=$(cd /verif && VERIF_REPO=$mut ./check $p quick 2>&1 | grep -v WARNING)
  v=$(echo "$out" | grep -c "^VIOLATION")
  echo "== $name vs $p: $v violation line(s)"; echo "$out" | grep "^VIOLATION\|quick seed" | head -3
  rp=$(echo "$out" | grep "^VIOLATION" | head -1 | sed 's/.*replay=\([^ ]*\).*/\1/')
  if [ -n "$rp" ] && [ -f "$rp" ]; then cp $rp $dst/alarm-by-$p.case; fi
  results="$results $p:$v"
done
python3 - "$dst" "$name" "$tests" "$rcm" "$results" <<'PY'
import json,sys,os
dst,name,tests,rcm,results=sys.argv[1:6]
meta_path=os.path.join(dst,'meta.json')
meta=json.load(open(meta_path)) if os.path.exists(meta_path) else {}
meta.update({"name":name,"kind":"behaviour-preserving rewrite (the property still holds)","existing_tests_non_ok_lines_on_rewrite":int(tests),"demo_exit_on_rewrite":int(rcm),
 "checks_run":{r.split(':')[0]:int(r.split(':')[1]) for r in results.split()},
 "how_run":"scratch copy of /repo (rsync), patch applied; existing suite and the demonstration run on it; ./check <id> quick run with VERIF_REPO=<copy>; 0 = the check stayed quiet"})
json.dump(meta,open(meta_path,'w'),indent=1)
PY
rm -rf $mut
