#!/usr/bin/env bash
# usage: tools_mutate.sh <name> <patch-file|revert:COMMIT> <Cxx> [Cxx...]
# Applies a patch (or the reverse of a /repo commit) to a scratch copy of /repo and runs the given checks against it.
set -u
name=$1; patch=$2; shift 2
dir=/tmp/mut-$name-$$
rsync -a --exclude .git /repo/ $dir/
if [[ $patch == revert:* ]]; then
  git -C /repo show ${patch#revert:} | (cd $dir && patch -R -p1 -s) || { echo "PATCH FAILED"; rm -rf $dir; exit 2; }
else
  (cd $dir && patch -p1 -s < $patch) || { echo "PATCH FAILED"; rm -rf $dir; exit 2; }
fi
(cd $dir && GOFLAGS=-mod=mod GOPROXY=off go build ./... ) || { echo "MUTANT DOES NOT BUILD"; rm -rf $dir; exit 2; }
for p in "$@"; do
  out=$(cd /verif && VERIF_REPO=$dir ./check $p quick 2>&1 | grep -v WARNING)
  echo "== $name vs $p: $(echo "$out" | grep -c VIOLATION) violation line(s)"
  echo "$out" | tail -3
done
rm -rf $dir
