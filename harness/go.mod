module shpanverif/harness

go 1.23

require github.com/shpandrak/shpanstream v0.0.0

replace github.com/shpandrak/shpanstream => /repo
