// corr runs the real shpanstream code on generated (or replayed) cases and prints case/obs lines.
package main

import (
	"bufio"
	"flag"
	"fmt"
	"io"
	"log/slog"
	"os"
	"strings"

	"shpanverif/harness/run"
)

func main() {
	prop := flag.String("prop", "", "property id (C01..C20)")
	tier := flag.String("tier", "quick", "quick|thorough")
	seed := flag.Uint64("seed", 1, "PRNG seed (VERIF_SEED)")
	replay := flag.String("replay", "", "file with case lines to re-run instead of generating")
	list := flag.Bool("list", false, "list registered properties")
	one := flag.String("one", "", "execute this single case text and print only its observation (child-process mode)")
	flag.Parse()
	// the library logs every recovered panic with a stack trace: not part of any observation
	slog.SetDefault(slog.New(slog.NewTextHandler(io.Discard, nil)))
	if *list {
		fmt.Println(strings.Join(run.Ids(), " "))
		return
	}
	fam, ok := run.Lookup(*prop)
	if !ok {
		fmt.Fprintf(os.Stderr, "no runner for %q\n", *prop)
		os.Exit(2)
	}
	if *one != "" {
		fmt.Println(fam.Exec(*one))
		return
	}
	c := run.NewCtx(*prop, *tier == "thorough", *seed, fam)
	defer c.Flush()
	if *replay != "" {
		for _, f := range strings.Split(*replay, ",") {
			fh, err := os.Open(f)
			if err != nil {
				fmt.Fprintln(os.Stderr, err)
				os.Exit(2)
			}
			sc := bufio.NewScanner(fh)
			sc.Buffer(make([]byte, 1<<20), 1<<26)
			for sc.Scan() {
				line := sc.Text()
				if !strings.HasPrefix(line, "case ") {
					continue
				}
				rest := strings.TrimPrefix(line, "case ")
				nontrivial := false
				if strings.HasPrefix(rest, "T ") {
					nontrivial = true
					rest = rest[2:]
				} else if strings.HasPrefix(rest, "N ") {
					rest = rest[2:]
				}
				c.Case(nontrivial, rest)
			}
			fh.Close()
		}
		return
	}
	fam.Gen(c)
}
