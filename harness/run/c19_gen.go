package run

import (
	"encoding/json"
	"fmt"
	"sort"
	"strconv"
	"strings"
	"time"
)

// ---------------------------------------------------------------------------------------------
// ordering cases

// c19EdgeExpr: the deterministic expression used by the exhaustive scope for a set of referenced urns.
func c19EdgeExpr(refs []int) string {
	switch len(refs) {
	case 0:
		return "k"
	case 1:
		return fmt.Sprintf("r %d", refs[0])
	}
	return fmt.Sprintf("x r %d %s", refs[0], c19EdgeExpr(refs[1:]))
}

func c19EmitOrd(c *Ctx, fields []string, nontrivial bool) {
	c.Case(nontrivial, strings.TrimSpace("ord "+strings.Join(fields, " ; ")))
}

// all digraphs on n labelled nodes (self loops optional): bit (i*n+j) = field i references field j
func c19AllGraphs(c *Ctx, n int, selfLoops bool) {
	var pairs [][2]int
	for i := 0; i < n; i++ {
		for j := 0; j < n; j++ {
			if i != j || selfLoops {
				pairs = append(pairs, [2]int{i, j})
			}
		}
	}
	for mask := 0; mask < 1<<len(pairs); mask++ {
		refs := make([][]int, n)
		edges := 0
		for b, p := range pairs {
			if mask&(1<<b) != 0 {
				refs[p[0]] = append(refs[p[0]], p[1])
				if p[0] != p[1] {
					edges++
				}
			}
		}
		fields := make([]string, n)
		for i := 0; i < n; i++ {
			fields[i] = fmt.Sprintf("%d : %s", i, c19EdgeExpr(refs[i]))
		}
		c19EmitOrd(c, fields, edges > 0)
	}
}

// random expression over references drawn from pick()
func c19RandExpr(r *Rng, depth int, pick func() int) string {
	if depth <= 0 || r.Intn(4) == 0 {
		switch r.Intn(8) {
		case 0:
			return "k"
		case 1:
			return "z"
		case 2:
			n := r.Intn(4)
			p := []string{"d", strconv.Itoa(n)}
			for i := 0; i < n; i++ {
				p = append(p, strconv.Itoa(pick()))
			}
			return strings.Join(p, " ")
		case 3:
			if r.Intn(6) == 0 {
				return "w"
			}
			fallthrough
		default:
			return fmt.Sprintf("r %d", pick())
		}
	}
	sub := func() string { return c19RandExpr(r, depth-1, pick) }
	switch r.Intn(8) {
	case 0:
		return "c " + sub() + " " + sub()
	case 1:
		return "l " + sub() + " " + sub()
	case 2:
		return "s " + sub() + " " + sub() + " " + sub()
	case 3:
		return "n " + sub() + " " + sub()
	case 4:
		return "t " + sub()
	case 5:
		return "y " + sub()
	default:
		return "x " + sub() + " " + sub()
	}
}

func c19RandomOrd(c *Ctx) {
	r := c.Rng
	n := 1 + r.Small(24)
	urns := make([]int, n)
	for i := range urns {
		urns[i] = i
	}
	// shuffle the urn labels so that input order and label order differ
	for i := n - 1; i > 0; i-- {
		j := r.Intn(i + 1)
		urns[i], urns[j] = urns[j], urns[i]
	}
	dupUrns := r.Intn(12) == 0 && n >= 2 // outside the property (duplicate URNs): correspondence only
	if dupUrns {
		urns[r.Intn(n)] = urns[r.Intn(n)]
	}
	mode := r.Intn(4) // 0: DAG-ish (refs only to earlier positions), 1: sparse random, 2: dense random, 3: mostly DAG with one back edge
	fields := make([]string, n)
	for i := 0; i < n; i++ {
		i := i
		pick := func() int {
			switch {
			case r.Intn(12) == 0:
				return 100 + r.Intn(5) // outside the set
			case r.Intn(15) == 0:
				return urns[i] // self reference
			case (mode == 0 || mode == 3) && i > 0:
				return urns[r.Intn(i)]
			default:
				return urns[r.Intn(n)]
			}
		}
		depth := 0
		switch mode {
		case 1:
			depth = r.Intn(2)
		case 2:
			depth = 1 + r.Intn(3)
		default:
			depth = r.Intn(3)
		}
		if mode == 1 && r.Intn(2) == 0 {
			fields[i] = fmt.Sprintf("%d : k", urns[i])
			continue
		}
		fields[i] = fmt.Sprintf("%d : %s", urns[i], c19RandExpr(r, depth, pick))
	}
	if mode == 3 && n >= 2 {
		a := r.Intn(n - 1)
		fields[a] = fmt.Sprintf("%d : x %s r %d", urns[a], strings.SplitN(fields[a], " : ", 2)[1], urns[a+1+r.Intn(n-1-a)])
	}
	c19EmitOrd(c, fields, !dupUrns && n >= 2)
}

// ---------------------------------------------------------------------------------------------
// query trees

type c19Col struct {
	urn      string
	dt       string
	required bool
}

type c19Gen struct {
	r    *Rng
	next int
	base time.Time // first instant of the generated data: winter, summer, or the evening before a daylight-saving switch
}

func (g *c19Gen) urn() string { g.next++; return fmt.Sprintf("f%d", g.next) }

var c19Zones = []string{"UTC", "~", "Europe/Berlin", "America/New_York", "Asia/Kolkata"}

func (g *c19Gen) pickS(l ...string) string { return l[g.r.Intn(len(l))] }

func (g *c19Gen) ts(i int) *sx {
	if g.base.IsZero() {
		switch g.r.Intn(4) {
		case 0:
			g.base = time.Date(2025, 7, 1, 0, 0, 0, 0, time.UTC)
		case 1:
			g.base = time.Date(2025, 3, 29, 22, 0, 0, 0, time.UTC)
		default:
			g.base = time.Date(2025, 1, 1, 0, 0, 0, 0, time.UTC)
		}
	}
	return sxAtom(g.base.Add(time.Duration(i) * 20 * time.Minute).Format(time.RFC3339Nano))
}

// dyadic decimal d:<m>:<e> with value k/4
func (g *c19Gen) dec(lo, hi int) *sx {
	k := g.r.Range(lo*4, hi*4)
	switch {
	case k%4 == 0:
		return sxAtom(fmt.Sprintf("d:%d:0", k/4))
	case k%2 == 0:
		return sxAtom(fmt.Sprintf("d:%d:1", k/2*5))
	default:
		return sxAtom(fmt.Sprintf("d:%d:2", k*25))
	}
}

func (g *c19Gen) cm() *sx {
	if g.r.Intn(4) != 0 {
		return sxList("cm")
	}
	kids := []*sx{sxAtom(g.pickS("source", "site")), sxAtom(g.pickS("meter", "plant-7"))}
	if g.r.Intn(3) == 0 {
		kids = append(kids, sxAtom("zone"), sxAtom("b2"))
	}
	return sxList("cm", kids...)
}

func (g *c19Gen) unit() string { return g.pickS("~", "~", "kWh", "m3") }

func (g *c19Gen) am(uri string) *sx { return sxList("am", sxAtom(uri), sxAtom(g.unit()), g.cm()) }

func (g *c19Gen) period() *sx {
	if g.r.Intn(2) == 0 {
		return sxList("custom", sxAtom(g.pickS("1200000", "1800000", "3600000", "7200000", "600000")), sxAtom(g.pickS(c19Zones...)))
	}
	return sxList("cal", sxAtom(g.pickS("hour", "hour", "quarterHour", "day", "week", "month", "quarter", "halfYear", "year")), sxAtom(g.pickS(c19Zones...)))
}

func (g *c19Gen) al() *sx {
	return sxList("al", g.period(), sxAtom(g.pickS("~", "~", "linear", "forwardFill")))
}

func (g *c19Gen) pick1(xs ...*sx) *sx { return xs[g.r.Intn(len(xs))] }

func (g *c19Gen) decConst() *sx {
	return sxList("const", sxAtom("decimal"), g.dec(-4, 6), sxAtom("1"), sxAtom(g.unit()))
}

// numeric query field over the current (decimal) value
func (g *c19Gen) qNum(depth int) *sx {
	if depth <= 0 || g.r.Intn(3) == 0 {
		if g.r.Intn(3) == 0 {
			if g.r.Intn(5) == 0 {
				return g.nilDec()
			}
			return g.decConst()
		}
		return sxList("ref")
	}
	switch g.r.Intn(6) {
	case 0:
		return sxList("un", sxAtom(g.pickS("abs", "negate", "floor", "ceil")), g.qNum(depth-1))
	case 1:
		return sxList("sel", g.qBool(depth-1), g.qNum(depth-1), g.qNum(depth-1))
	case 2:
		return sxList("nvl", g.qNum(depth-1), g.decConst())
	case 3:
		return sxList("cast", sxList("cast", g.qNum(depth-1), sxAtom("integer")), sxAtom("decimal"))
	default:
		return sxList("num", sxAtom(g.pickS("+", "-", "*", "-", "/")), g.qNum(depth-1), g.qNum(depth-1))
	}
}

func (g *c19Gen) qBool(depth int) *sx {
	if depth > 0 && g.r.Intn(4) == 0 {
		return sxList("logic", sxAtom(g.pickS("and", "or")), g.qBool(depth-1), g.qBool(depth-1))
	}
	return sxList("cond", sxAtom(g.pickS("greater_than", "less_than", "greater_equal", "less_equal", "equals", "not_equals")), g.qNum(depth-1), g.qNum(depth-1))
}

// a filter applicable to a required decimal datasource; returns the filter and the new column
func (g *c19Gen) flt(col c19Col) (*sx, c19Col) {
	switch g.r.Intn(9) {
	case 0:
		return sxList("faligner", g.al()), col
	case 1:
		return sxList("fcond", g.qBool(2)), col
	case 2, 3:
		u := g.urn()
		return sxList("fvalue", g.qNum(2), g.am(u)), c19Col{u, "decimal", true}
	case 4:
		u := g.pickS("~", g.urn())
		nc := col
		if u != "~" {
			nc.urn = u
		}
		return sxList("fover", sxAtom(u), sxAtom(g.unit()), g.cm()), nc
	case 5:
		nn := g.r.Bool()
		mx := "d:0:0"
		if nn && g.r.Bool() {
			mx = "d:100:0"
		}
		return sxList("fdelta", sxAtom(map[bool]string{true: "1", false: "0"}[nn]), sxAtom(mx)), col
	case 6:
		nn := g.r.Bool()
		mx := "d:0:0"
		if nn && g.r.Bool() {
			mx = "d:1005:1"
		}
		return sxList("frate", sxAtom(g.unit()), sxAtom(g.pickS("~", "0", "1", "3600")), sxAtom(map[bool]string{true: "1", false: "0"}[nn]), sxAtom(mx)), c19Col{col.urn, "decimal", true}
	case 7:
		// deliberately questionable input: counter rule violated / bogus fill mode / bad zone (both paths must reject)
		switch g.r.Intn(3) {
		case 0:
			return sxList("fdelta", sxAtom("0"), sxAtom("d:5:0")), col
		case 1:
			return sxList("faligner", sxList("al", g.period(), sxAtom("cubic"))), col
		default:
			return sxList("faligner", sxList("al", sxList("custom", sxAtom(g.pickS("0", "-5", "9223372036855", "60000")), sxAtom(g.pickS("UTC", "Mars/Olympus"))), sxAtom("~"))), col
		}
	default:
		return sxList("fcond", sxList("cond", sxAtom("greater_than"), sxList("ref"), g.decConst())), col
	}
}

func (g *c19Gen) staticDs() (*sx, c19Col) {
	u := g.urn()
	kids := []*sx{sxList("fm", sxAtom(u), sxAtom("decimal"), sxAtom("1"), sxAtom(g.unit()), g.cm())}
	n := 2 + g.r.Intn(5)
	i := g.r.Intn(3)
	for k := 0; k < n; k++ {
		kids = append(kids, sxList("pt", g.ts(i), g.dec(-2, 9)))
		i += 1 + g.r.Intn(4)
	}
	return sxList("static", kids...), c19Col{u, "decimal", true}
}

func (g *c19Gen) ds(depth int) (*sx, c19Col) {
	if depth <= 0 {
		return g.staticDs()
	}
	switch g.r.Intn(7) {
	case 0:
		return g.staticDs()
	case 1, 2, 3:
		inner, col := g.ds(depth - 1)
		kids := []*sx{inner}
		n := g.r.Intn(4)
		if g.r.Intn(10) == 0 {
			n = 0
		}
		for i := 0; i < n; i++ {
			var f *sx
			f, col = g.flt(col)
			kids = append(kids, f)
		}
		return sxList("filtered", kids...), col
	case 4, 5:
		u := g.urn()
		m := g.mds(depth - 1)
		empty := sxAtom("~")
		switch g.r.Intn(9) {
		case 0, 1, 2:
			empty = g.decConst()
		case 3:
			// a fallback that is not a static value (a cast of a constant, nvl, ref): both engines must treat it alike
			// (the directly assembled one refuses it when executed)
			empty = g.pick1(sxList("cast", g.decConst(), sxAtom("decimal")), sxList("nvl", g.decConst(), g.decConst()), sxList("ref"))
		}
		rt := g.pickS("sum", "avg", "min", "max", "count")
		dt := "decimal"
		if rt == "count" {
			dt = "integer"
		}
		return sxList("reduction", sxAtom(rt), g.al(), m, g.am(u), empty), c19Col{u, dt, true}
	default:
		r, cols := g.rds(depth - 1)
		pick := c19Col{"f1", "decimal", true}
		if len(cols) > 0 {
			pick = cols[g.r.Intn(len(cols))]
		}
		if g.r.Intn(12) == 0 {
			pick = c19Col{"nope", "decimal", true}
		}
		return sxList("fromReport", r, sxAtom(pick.urn)), pick
	}
}

func (g *c19Gen) mds(depth int) *sx {
	if depth > 0 && g.r.Intn(4) == 0 {
		inner := g.mds(depth - 1)
		kids := []*sx{inner}
		for i := g.r.Intn(3); i > 0; i-- {
			switch g.r.Intn(3) {
			case 0:
				kids = append(kids, sxList("fvalue", g.qNum(1), g.am(g.urn())))
			case 1:
				kids = append(kids, sxList("fcond", g.qBool(1)))
			default:
				kids = append(kids, sxList("fover", sxAtom("~"), sxAtom("W"), sxList("cm")))
			}
		}
		return sxList("mfiltered", kids...)
	}
	var kids []*sx
	for i := g.r.Intn(4); i > 0; i-- {
		d, col := g.ds(depth)
		if col.dt != "decimal" {
			d = sxList("filtered", d, sxList("fvalue", sxList("cast", sxList("ref"), sxAtom("decimal")), g.am(g.urn())))
		}
		kids = append(kids, d)
	}
	return sxList("mlist", kids...)
}

func (g *c19Gen) staticRds() (*sx, []c19Col) {
	nf := 1 + g.r.Intn(3)
	var cols []c19Col
	var metas []*sx
	for i := 0; i < nf; i++ {
		c := c19Col{g.urn(), g.pickS("decimal", "decimal", "decimal", "boolean", "string"), true}
		cols = append(cols, c)
		metas = append(metas, sxList("fm", sxAtom(c.urn), sxAtom(c.dt), sxAtom("1"), sxAtom(g.unit()), g.cm()))
	}
	kids := []*sx{sxList("metas", metas...)}
	n := 2 + g.r.Intn(4)
	i := g.r.Intn(3)
	for k := 0; k < n; k++ {
		row := []*sx{g.ts(i)}
		for _, c := range cols {
			switch c.dt {
			case "decimal":
				row = append(row, g.dec(-2, 9))
			case "boolean":
				row = append(row, sxAtom(g.pickS("tt", "ff")))
			default:
				row = append(row, sxAtom("s:"+g.pickS("a", "b", "on")))
			}
		}
		kids = append(kids, sxList("row", row...))
		i += 1 + g.r.Intn(3)
	}
	return sxList("rstatic", kids...), cols
}

func c19Decimals(cols []c19Col) []c19Col {
	var out []c19Col
	for _, c := range cols {
		if c.dt == "decimal" {
			out = append(out, c)
		}
	}
	return out
}

// a typed absent value (`nil` field value): data type and unit only
func (g *c19Gen) nilDec() *sx { return sxList("nil", sxAtom("decimal"), sxAtom(g.unit())) }

func (g *c19Gen) rNum(depth int, nums []c19Col) *sx {
	if len(nums) == 0 || (depth <= 0 && g.r.Intn(4) == 0) {
		if g.r.Intn(4) == 0 {
			return g.nilDec()
		}
		return g.decConst()
	}
	if depth <= 0 || g.r.Intn(3) == 0 {
		return sxList("ref", sxAtom(nums[g.r.Intn(len(nums))].urn))
	}
	switch g.r.Intn(7) {
	case 0:
		return sxList("un", sxAtom(g.pickS("abs", "negate", "floor")), g.rNum(depth-1, nums))
	case 1:
		return sxList("sel", g.rBool(depth-1, nums), g.rNum(depth-1, nums), g.rNum(depth-1, nums))
	case 2:
		return sxList("nvl", g.rNum(depth-1, nums), g.decConst())
	case 3:
		kids := []*sx{sxAtom(g.pickS("sum", "avg", "min", "max"))}
		if g.r.Bool() {
			for _, c := range nums {
				if g.r.Bool() {
					kids = append(kids, sxAtom(c.urn))
				}
			}
		}
		return sxList("reduce", kids...)
	default:
		return sxList("num", sxAtom(g.pickS("+", "-", "*", "-", "/")), g.rNum(depth-1, nums), g.rNum(depth-1, nums))
	}
}

func (g *c19Gen) rBool(depth int, nums []c19Col) *sx {
	if depth > 0 && g.r.Intn(4) == 0 {
		return sxList("logic", sxAtom(g.pickS("and", "or")), g.rBool(depth-1, nums), g.rBool(depth-1, nums))
	}
	return sxList("cond", sxAtom(g.pickS("greater_than", "less_than", "greater_equal", "less_equal")), g.rNum(depth-1, nums), g.rNum(depth-1, nums))
}

func (g *c19Gen) rflt(cols []c19Col) (*sx, []c19Col) {
	nums := c19Decimals(cols)
	switch g.r.Intn(9) {
	case 0:
		if len(nums) == len(cols) {
			return sxList("raligner", g.al()), cols
		}
		fallthrough
	case 1:
		return sxList("rcond", g.rBool(2, nums)), cols
	case 2, 3:
		u := g.urn()
		return sxList("rappend", g.rNum(2, nums), g.am(u)), append(append([]c19Col{}, cols...), c19Col{u, "decimal", true})
	case 4:
		if len(cols) >= 2 {
			k := g.r.Intn(len(cols))
			rest := append(append([]c19Col{}, cols[:k]...), cols[k+1:]...)
			return sxList("rdrop", sxAtom(cols[k].urn)), rest
		}
		// dropping from a one-field report: the D23 shapes
		return sxList("rdrop", sxAtom(cols[0].urn), sxAtom("ghost")), cols
	case 5:
		u := g.urn()
		return sxList("rsingle", g.rNum(2, nums), g.am(u)), []c19Col{{u, "decimal", true}}
	case 6:
		var keep []c19Col
		var kids []*sx
		for _, c := range cols {
			if g.r.Bool() {
				keep = append(keep, c)
				kids = append(kids, sxAtom(c.urn))
			}
		}
		if len(keep) == 0 {
			keep = cols[:1]
			kids = []*sx{sxAtom(cols[0].urn)}
		}
		if g.r.Intn(10) == 0 {
			kids = append(kids, sxAtom("ghost"))
		}
		if g.r.Intn(8) == 0 {
			// a repeated urn (adjacent or not): the engine built directly rejects it (duplicate urn) at execution; a parser
			// that silently de-duplicates yields a different engine
			kids = append(kids, kids[g.r.Intn(len(kids))])
			if g.r.Bool() {
				kids[0], kids[len(kids)-1] = kids[len(kids)-1], kids[0]
			}
		}
		return sxList("rproj", kids...), keep
	case 7:
		// empty urn lists: both paths must reject
		return sxList(g.pickS("rdrop", "rproj")), cols
	default:
		return sxList("rdrop", sxAtom("ghost"), sxAtom(cols[0].urn)), cols
	}
}

func (g *c19Gen) rds(depth int) (*sx, []c19Col) {
	if depth <= 0 {
		return g.staticRds()
	}
	switch g.r.Intn(7) {
	case 0:
		return g.staticRds()
	case 1:
		d, col := g.ds(depth - 1)
		return sxList("fromDs", d), []c19Col{col}
	case 2, 3:
		var kids []*sx
		var cols []c19Col
		n := 1 + g.r.Intn(3)
		for i := 0; i < n; i++ {
			r, cs := g.rds(depth - 1)
			kids = append(kids, r)
			cols = append(cols, cs...)
		}
		m := sxList("rmlist", kids...)
		if g.r.Intn(4) == 0 {
			m = sxList("rmfiltered", m, sxList("rcond", sxList("cond", sxAtom("equals"), g.decConst(), g.decConst())))
		}
		if g.r.Intn(5) == 0 {
			mm := g.mds(depth - 1)
			return sxList("join", sxAtom(g.pickS("inner", "left", "full")), sxList("rmfrom", mm)), nil
		}
		jt := g.pickS("inner", "left", "full", "inner")
		if g.r.Intn(15) == 0 {
			jt = "outer"
		}
		return sxList("join", sxAtom(jt), m), cols
	default:
		inner, cols := g.rds(depth - 1)
		if len(cols) == 0 {
			return inner, cols
		}
		kids := []*sx{inner}
		for i := 1 + g.r.Intn(3); i > 0; i-- {
			var f *sx
			f, cols = g.rflt(cols)
			kids = append(kids, f)
		}
		return sxList("rfiltered", kids...), cols
	}
}

func (g *c19Gen) tree(depth int) (string, *sx) {
	if g.r.Bool() {
		t, _ := g.ds(depth)
		return "ds", t
	}
	t, cols := g.rds(depth)
	if len(cols) == 0 {
		// join over rmfrom: the column set is not tracked; fine as a top-level tree
		return "rds", t
	}
	return "rds", t
}

// ---------------------------------------------------------------------------------------------
// malformed documents: structure-aware mutations of a valid document

type c19Path struct {
	parent any // map[string]any or []any
	key    string
	idx    int
}

func c19Walk(v any, visit func(p c19Path, v any)) {
	switch x := v.(type) {
	case map[string]any:
		keys := make([]string, 0, len(x))
		for k := range x {
			keys = append(keys, k)
		}
		sort.Strings(keys)
		for _, k := range keys {
			visit(c19Path{parent: x, key: k}, x[k])
			c19Walk(x[k], visit)
		}
	case []any:
		for i, e := range x {
			visit(c19Path{parent: x, idx: i}, e)
			c19Walk(e, visit)
		}
	}
}

func (p c19Path) set(v any) {
	switch x := p.parent.(type) {
	case map[string]any:
		x[p.key] = v
	case []any:
		x[p.idx] = v
	}
}

var c19Durations = []string{"0", "-1", "-60000", "60000", "1800000", "9223372036854", "9223372036855", "9223372036856",
	"18446744073709", "18446744073710", "27670116110564", "9223372036854775807", "9223372036854775808", "-9223372036854775808",
	"-9223372036854775809", "1.5", "60000.0", "123456789012345678901234567890"}

func c19Junk(r *Rng, orig any) any {
	for {
		var v any
		switch r.Intn(7) {
		case 0:
			v = nil
		case 1:
			v = "x"
		case 2:
			v = json.Number(strconv.Itoa(r.Range(-3, 12)))
		case 3:
			v = r.Bool()
		case 4:
			v = []any{}
		case 5:
			v = map[string]any{}
		default:
			v = json.Number("2.5")
		}
		// a string is never replaced by another string (timestamps / zone ids need a valid text)
		if _, isStr := orig.(string); isStr {
			if _, isStr2 := v.(string); isStr2 {
				continue
			}
		}
		return v
	}
}

// c19Mutate applies one mutation in place; returns a label (for the distribution) or "" if not applicable.
func c19Mutate(r *Rng, root map[string]any) string {
	type site struct {
		p c19Path
		v any
	}
	var all, objs, types, durs, counters, fills, zones, urnLists []site
	c19Walk(root, func(p c19Path, v any) {
		s := site{p, v}
		all = append(all, s)
		if _, ok := v.(map[string]any); ok {
			objs = append(objs, s)
		}
		if _, isMap := p.parent.(map[string]any); isMap {
			switch p.key {
			case "type":
				types = append(types, s)
			case "durationInMillis":
				durs = append(durs, s)
			case "fillMode":
				fills = append(fills, s)
			case "zoneId":
				zones = append(zones, s)
			case "fieldUrns":
				urnLists = append(urnLists, s)
			}
		}
		if m, ok := v.(map[string]any); ok {
			if t, _ := m["type"].(string); t == "delta" || t == "rate" {
				counters = append(counters, s)
			}
		}
	})
	pick := func(l []site) (site, bool) {
		if len(l) == 0 {
			return site{}, false
		}
		return l[r.Intn(len(l))], true
	}
	switch r.Intn(12) {
	case 0: // unknown discriminator at depth
		if s, ok := pick(types); ok {
			s.p.set([]any{"bogus", "", "Static", "filteredX", "reduce", "nil", "aligner", "list"}[r.Intn(8)])
			return "disc-unknown"
		}
	case 1: // discriminator of the wrong JSON type / missing
		if s, ok := pick(types); ok {
			if r.Bool() {
				delete(s.p.parent.(map[string]any), "type")
				return "disc-missing"
			}
			s.p.set(c19Junk(r, "s"))
			return "disc-type"
		}
	case 2: // missing member
		if s, ok := pick(objs); ok {
			m := s.v.(map[string]any)
			keys := make([]string, 0, len(m))
			for k := range m {
				keys = append(keys, k)
			}
			sort.Strings(keys)
			if len(keys) > 0 {
				delete(m, keys[r.Intn(len(keys))])
				return "member-missing"
			}
		}
	case 3, 4: // wrong JSON type anywhere
		if s, ok := pick(all); ok {
			orig := s.v
			switch s.p.key {
			case "timestamp", "from", "to", "zoneId":
				// members whose TEXT is validated by Go (RFC 3339 timestamps, zone ids) and not by the model: after an
				// earlier mutation such a member may hold null, so look at the key, not only at the current value
				orig = "s"
			}
			s.p.set(c19Junk(r, orig))
			return "wrong-type"
		}
	case 5, 6: // extreme durations
		if s, ok := pick(durs); ok {
			s.p.set(json.Number(c19Durations[r.Intn(len(c19Durations))]))
			return "duration"
		}
	case 7: // counter options
		if s, ok := pick(counters); ok {
			m := s.v.(map[string]any)
			m["maxCounterValue"] = json.Number([]string{"5", "0.5", "-3", "0", "1000000"}[r.Intn(5)])
			switch r.Intn(3) {
			case 0:
				delete(m, "nonNegative")
			case 1:
				m["nonNegative"] = false
			default:
				m["nonNegative"] = true
			}
			return "counter"
		}
	case 8: // fill mode
		if s, ok := pick(fills); ok {
			s.p.set([]any{"cubic", "", "Linear", json.Number("1"), nil}[r.Intn(5)])
			return "fill"
		}
	case 9: // zone
		if s, ok := pick(zones); ok {
			s.p.set([]any{"Mars/Olympus", "Not_A_Zone", "", "UTC", json.Number("0")}[r.Intn(5)])
			return "zone"
		}
	case 10: // urn lists
		if s, ok := pick(urnLists); ok {
			s.p.set([]any{[]any{}, nil, []any{"ghost", "ghost2"}, []any{json.Number("1")}, []any{nil}, "f1"}[r.Intn(6)])
			return "urns"
		}
	default: // replace a whole sub-object
		if s, ok := pick(objs); ok {
			s.p.set(c19Junk(r, s.v))
			return "subtree"
		}
	}
	return ""
}

func c19MalCase(c *Ctx, g *c19Gen) {
	kind, tree := g.tree(1 + c.Rng.Intn(3))
	doc := c19Doc(kind, tree)
	v, err := c19Decode(doc)
	c19Must(err)
	root, ok := v.(map[string]any)
	if !ok {
		return
	}
	n := 1 + c.Rng.Intn(3)
	applied := 0
	for tries := 0; tries < 12 && applied < n; tries++ {
		if c19Mutate(c.Rng, root) != "" {
			applied++
		}
	}
	// domain of the parser model: it does not validate the TEXT of RFC 3339 timestamps (Go's decoder does), so a
	// document in which some mutation sequence left a non-timestamp string in a timestamp member is not generated
	badTime := false
	c19Walk(root, func(p c19Path, v any) {
		if s, ok := v.(string); ok && (p.key == "timestamp" || p.key == "from" || p.key == "to") {
			if _, err := time.Parse(time.RFC3339Nano, s); err != nil {
				badTime = true
			}
		}
	})
	if badTime {
		return
	}
	var b strings.Builder
	c19Canon(&b, root)
	text := b.String()
	if strings.ContainsAny(text, " \\") {
		return
	}
	c.Case(applied > 0, "mal "+kind+" "+text)
}

// ---------------------------------------------------------------------------------------------

func genC19(c *Ctx) {
	// (1) ordering: exhaustive small scope, then random larger graphs
	c19EmitOrd(c, nil, false)
	for n := 1; n <= 3; n++ {
		c19AllGraphs(c, n, true) // with self references: 2 + 16 + 512
	}
	c19AllGraphs(c, 4, false) // 4096
	if c.Thorough {
		c19AllGraphs(c, 5, false) // 1048576
	}
	for i := c.Pick(6000, 60000); i > 0; i-- {
		c19RandomOrd(c)
	}
	// (2) round trip / equivalence
	g := &c19Gen{r: c.Rng}
	for i := c.Pick(2500, 30000); i > 0; i-- {
		g.next = 0
		g.base = time.Time{}
		kind, tree := g.tree(c.Rng.Intn(4))
		text := "rt " + kind + " " + tree.String()
		obs, nt := c19Rt(kind, strings.Fields(tree.String()))
		c.Raw(nt, text, obs)
	}
	// (3) malformed stream
	for i := c.Pick(5000, 60000); i > 0; i-- {
		g.next = 0
		g.base = time.Time{}
		c19MalCase(c, g)
	}
}
