package run

import "fmt"

// C02: provider calls are serialised and confined to the open window, for every asynchronous operator wrapped in
// every early-terminating context.  Case lines: conc_util.go.  The observation carries the linearised log of the
// probe provider's calls (o = Open returned, s<g> = Emit started on goroutine g, r<g>{v,e,x,c} = Emit returned
// value / EOF / error / ctx error, C<g>:<k> = Close called with k Emits running) interleaved with the environment's
// actions (m<i>, d, e<k>, x), plus the violations the provider itself saw (flags).

func init() {
	Register("C02", Family{Gen: genC02, Exec: execConc("C02")})
}

// concWrappers enumerates the early-terminating contexts for an operator and a source of n elements.
func concWrappers(op string, n int) []string {
	w := []string{""}
	for k := 1; k <= n && k <= 3; k++ {
		w = append(w, fmt.Sprintf(" limit=%d", k))
		w = append(w, fmt.Sprintf(" cf=%d", k))
	}
	if n >= 1 {
		w = append(w, " first=1")
	}
	for i := 0; i < n && i < 3; i++ {
		if op != "buf" && op != "pipe" {
			w = append(w, fmt.Sprintf(" mf=%d", i))
		}
	}
	for k := 0; k <= n && k <= 3; k++ {
		w = append(w, fmt.Sprintf(" se=%d", k))
	}
	return w
}

func genC02(c *Ctx) {
	var cases []concGenCase
	emit := func(nt bool, text string) { cases = append(cases, concGenCase{nt, text}) }
	defer func() { concEmitAll(c, "C02", cases) }()

	// (a) the D5 recipe and its neighbours, exhaustively: the reader parks inside Emit call k (until its ctx is
	//     cancelled), the consumer ends after j elements by Limit / FindFirst / consumer error / cancel
	maxN := c.Pick(3, 5)
	for _, op := range []string{"cmap", "ccons", "buf", "nest"} {
		for n := 1; n <= maxN; n++ {
			for park := 0; park <= n; park++ {
				var ends []string
				for j := 1; j <= park && j <= 3; j++ {
					if op != "ccons" {
						ends = append(ends, fmt.Sprintf(" limit=%d", j), fmt.Sprintf(" cf=%d", j))
					}
				}
				if op == "ccons" {
					for i := 0; i < park && i < 3; i++ {
						ends = append(ends, fmt.Sprintf(" mf=%d", i))
					}
				}
				for t := 0; t <= 2; t++ {
					ends = append(ends, fmt.Sprintf(" cancel=%d", t))
				}
				for _, e := range ends {
					for cc := 1; cc <= 2; cc++ {
						if (op == "buf") && cc > 1 {
							continue
						}
						emit(park >= 1, fmt.Sprintf("%s c=%d n=%d size=%d sync=1 mg=0 park=%d%s script=-", op, cc, n, 2+cc, park, e))
						if n <= 3 && park >= 1 {
							emit(true, fmt.Sprintf("%s c=%d n=%d size=%d sync=1 mg=0 park=%d%s lcx=%d script=-", op, cc, n, 2+cc, park, e, cc))
						}
					}
				}
			}
		}
	}
	// (a') the same stream value materialised 2-3 times: the recipe of (a) must hold in EVERY materialisation (state kept
	//      in the provider object across materialisations, e.g. a once-only guard, shows from the second run on)
	for _, op := range []string{"cmap", "ccons", "buf", "nest"} {
		for rep := 2; rep <= 3; rep++ {
			for n := 1; n <= 3; n++ {
				for park := 0; park <= n; park++ {
					var ends []string
					if op != "ccons" {
						if park >= 1 {
							ends = append(ends, " limit=1", " cf=1", " first=1")
						}
					} else if park >= 1 {
						ends = append(ends, " mf=0")
					}
					ends = append(ends, " cancel=0", " cancel=1")
					for _, e := range ends {
						emit(park >= 1, fmt.Sprintf("%s c=%d n=%d size=3 sync=1 mg=0 park=%d%s rep=%d script=-", op, 1+n%2, n, park, e, rep))
					}
				}
			}
		}
	}
	// (a'') a bare provider function as the source (no lifecycle elements), slow to return after cancellation, the same
	//       stream value materialised again: the reader of the first materialisation must have left the provider
	//       function before the terminal returns, otherwise the next reader meets it there
	//       (`slowret`: the cancelled Emit call stays inside the provider until the environment lets it go; the next
	//       materialisation starts as soon as the terminal has returned and everything left is blocked).  The same with
	//       an ordinary provider (Open/Close): there the late reader would also Close under the next one's Emit.
	for _, op := range []string{"cmap", "buf", "nest", "ccons", "pipe"} {
		for _, bare := range []string{" bare=1", ""} {
			for n := 2; n <= 4; n++ {
				for park := 1; park < n; park++ {
					// `dl=1`: the caller's context ends by its deadline (Err() = DeadlineExceeded), not by a cancel call
					ends := []string{" limit=1", " cf=1", " first=1", " cancel=1", " cancel=1 dl=1"}
					if op == "ccons" {
						ends = []string{" mf=0", " cancel=1", " cancel=1 dl=1"}
					}
					if op == "pipe" {
						// the consumer returns after the chunks of `park` elements ("[", v, ",", v, ...) were read
						ends = []string{fmt.Sprintf(" reads=%d", 2*park), " cancel=1 reads=-1", " cancel=1 reads=-1 dl=1"}
					}
					if op == "pipe" {
						ends = append(ends, fmt.Sprintf(" reads=%d cerr=1", 2*park))
					}
					for _, e := range ends {
						emit(true, fmt.Sprintf("%s c=%d n=%d size=3 sync=1 mg=0 park=%d%s%s slowret=150 rep=%d script=-", op, 1+n%2, n+6, park, e, bare, 2+n%2))
						if bare == "" && op != "pipe" {
							// the provider under one or two further lifecycle elements (a lock, an added lifecycle)
							emit(true, fmt.Sprintf("%s c=%d n=%d size=3 sync=1 mg=0 park=%d%s lcx=%d slowret=150 rep=%d script=-", op, 1+n%2, n+6, park, e, 1+n%2, 2+n%2))
						}
					}
				}
			}
		}
	}
	// (a3a) a COMPLETE materialisation first, then the early-stopped one with the reader inside a slow Emit, then a third:
	//       whatever the stage remembers of a run that reached the end must not shorten a later run's wait for its reader
	for _, op := range []string{"buf", "cmap", "nest", "ccons", "pipe"} {
		e := " limit=1"
		if op == "ccons" {
			e = " mf=0"
		}
		if op == "pipe" {
			e = " reads=2"
		}
		for n := 3; n <= 4; n++ {
			emit(true, fmt.Sprintf("%s c=1 n=%d size=3 sync=1 mg=0 park=1%s slowret=150 firstfull=1 rep=3 script=-", op, n+4, e))
		}
	}
	// (a3b) the same with a source that stays inside its cancelled Emit call for well over two seconds: however long the
	//       reader needs, the terminal returns only after it has left the provider (no grace period)
	for _, op := range []string{"pipe", "buf", "cmap", "ccons"} {
		e := " limit=1"
		if op == "ccons" {
			e = " mf=0"
		}
		if op == "pipe" {
			e = " reads=2"
		}
		emit(true, fmt.Sprintf("%s c=1 n=8 size=3 sync=1 mg=0 park=1%s slowret=150 slowhold=2300 rep=2 script=-", op, e))
	}
	// (a4) a lifecycle element placed after the asynchronous stage whose Open fails (error / panic) while the stage's reader
	//      sits inside a slow-to-cancel Emit; the same stream value materialised again: the failed open must have
	//      closed the stage (stopped and joined its reader) before the terminal returns
	for _, op := range []string{"cmap", "buf", "nest"} {
		for _, of := range []string{"err", "panic"} {
			for n := 2; n <= 4; n++ {
				for park := 0; park < n-1; park++ {
					emit(true, fmt.Sprintf("%s c=%d n=%d size=3 sync=1 mg=0 park=%d ofail=%s slowret=150 rep=%d script=-", op, 1+n%2, n+6, park, of, 2+n%2))
				}
			}
		}
	}
	// (a5) two passes over one provider (ConcatStreams(s, s)): under every reader, alone and with an early stop
	for _, op := range []string{"cmap", "ccons", "buf", "nest", "pipe"} {
		for n := 0; n <= 3; n++ {
			emit(true, fmt.Sprintf("%s c=%d n=%d size=3 sync=1 mg=0 twice=1 script=-", op, 1+n%2, n))
			if op != "pipe" && op != "ccons" {
				emit(true, fmt.Sprintf("%s c=2 n=%d size=3 sync=0 mg=0 twice=1 yield=1 script=-", op, n+2))
				emit(n >= 1, fmt.Sprintf("%s c=1 n=%d size=3 sync=1 mg=0 twice=1 limit=%d script=-", op, n+1, n+2))
			}
		}
	}
	// (a3) the probe provider as the first inner stream of Concat(stream of streams) whose outer stream fails next: every
	//      asynchronous reader on top of it
	for _, op := range []string{"cmap", "ccons", "buf", "nest", "pipe"} {
		for n := 0; n <= 3; n++ {
			emit(true, fmt.Sprintf("%s c=%d n=%d size=3 sync=1 mg=0 outerr=1 script=-", op, 1+n%2, n))
			if op != "pipe" && op != "ccons" {
				emit(true, fmt.Sprintf("%s c=2 n=%d size=3 sync=0 mg=0 outerr=1 yield=1 script=-", op, n+2))
			}
		}
	}
	// (b) gated callbacks, every wrapper, scripted in quiescent states (seeded random scripts)
	nr := c.Pick(500, 6000)
	ops := []string{"cmap", "cmap", "ccons", "buf", "nest", "pipe"}
	for i := 0; i < nr; i++ {
		op := ops[c.Rng.Intn(len(ops))]
		cc := c.Rng.Range(1, c.Pick(3, 6))
		n := c.Rng.Range(0, c.Pick(6, 4*cc+3))
		size := c.Rng.Range(2, 5)
		ws := concWrappers(op, n)
		w := ws[c.Rng.Intn(len(ws))]
		mg, cg, sg := c.Rng.Intn(2), c.Rng.Intn(2), 0
		if c.Rng.Intn(3) == 0 {
			sg = 1
		}
		if op == "ccons" {
			cg = 0
		}
		if op == "buf" || op == "pipe" {
			mg = 0
		}
		extra := ""
		if c.Rng.Intn(3) == 0 {
			extra += fmt.Sprintf(" cancel=%d", c.Rng.Intn(2*n+3))
		}
		if op == "pipe" {
			cg = 0
			extra += fmt.Sprintf(" reads=%d", c.Rng.Range(-1, 2*n+2))
			if w != "" && w[1] != 's' { // only source errors apply to the pipe
				w = ""
			}
		}
		script := make([]int, 3*n+6)
		for j := range script {
			script[j] = c.Rng.Intn(16)
		}
		emit(n >= 2 && (w != "" || extra != ""), fmt.Sprintf("%s c=%d n=%d size=%d sync=1 mg=%d cg=%d sg=%d%s%s script=%s", op, cc, n, size, mg, cg, sg, w, extra, concScript(script)))
	}
	// (c) free-running with early termination
	nf := c.Pick(300, 4000)
	for i := 0; i < nf; i++ {
		op := ops[c.Rng.Intn(len(ops))]
		cc := c.Rng.Range(1, c.Pick(4, 8))
		n := c.Rng.Range(0, 4*cc+3)
		size := c.Rng.Range(2, 5)
		ws := concWrappers(op, n)
		w := ws[c.Rng.Intn(len(ws))]
		extra := ""
		if op == "pipe" {
			extra = fmt.Sprintf(" reads=%d", c.Rng.Range(-1, 2*n+2))
			if w != "" && w[1] != 's' {
				w = ""
			}
		}
		emit(n >= 2 && w != "", fmt.Sprintf("%s c=%d n=%d size=%d sync=0 mg=0 yield=%d%s%s script=-", op, cc, n, size, c.Rng.Intn(3), w, extra))
	}
}
