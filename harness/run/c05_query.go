package run

import (
	"context"
	"fmt"
	"strings"
)

// C05 (laziness), tsquery part: planning a timeseries query with Execute / Filter opens nothing, pulls no element and
// calls no provider; work happens only inside the terminal operation.
//
// Case lines start with the token Q and otherwise use the grammar of notes/C10-protocol.md:
//
//	Q rep|ds <exact|mask> <from> <to> <tree>
//
// plus, inside Q trees only, the filters  ( align periodNanos )  ( alignfill periodNanos linear|forward )  for both
// packages and  ( delta nonNegative maxCounter )  ( rate 'unit perSeconds nonNegative maxCounter )  for the
// datasource package.  Every static datasource sits on a probe provider that counts its Open / Emit (incl. the call
// that answers EOF) / Close calls.
//
// Observation:  pre=<probe events from construction until Execute has returned> | post=<probe events during the
// terminal (Collect)> | accept | accept-rowerr | reject <class> | planpanic
//
// These functions are NOT registered as a family of their own: the C05 runner wires the Q cases in.

// ExecC05Query runs one Q case on the real library.
func ExecC05Query(caseText string) (obs string) {
	toks, err := qTokens(caseText)
	if err != nil || len(toks) < 6 || toks[0] != "Q" {
		return "bad-case"
	}
	kind := toks[1]
	mode, from, to, tree, err := qParseHeader(toks[2:])
	if err != nil || (mode != "exact" && mode != "mask") {
		return "bad-case"
	}
	b := newQBuilder()
	b.ext = true
	defer func() {
		if r := recover(); r != nil {
			qDebugPanic(r)
			obs = fmt.Sprintf("pre=%d | post=0 | planpanic", b.events())
		}
	}()
	ctx, cancel := context.WithTimeout(context.Background(), qExecTimeout)
	defer cancel()
	var collect func() error
	switch kind {
	case "rep":
		ds, err := b.rds(tree)
		if err != nil {
			if o, ok := qBuildErrObs(err); ok {
				return fmt.Sprintf("pre=%d | post=0 | %s", b.events(), strings.TrimSuffix(o, " prepull=0"))
			}
			return "bad-case"
		}
		res, err := ds.Execute(ctx, qInstant(from), qInstant(to))
		if err != nil {
			return fmt.Sprintf("pre=%d | post=0 | reject %s", b.events(), qClassify(err))
		}
		_ = res.FieldsMeta()
		collect = func() error { _, e := res.Stream().Collect(ctx); return e }
	case "ds":
		ds, err := b.dds(tree)
		if err != nil {
			if o, ok := qBuildErrObs(err); ok {
				return fmt.Sprintf("pre=%d | post=0 | %s", b.events(), strings.TrimSuffix(o, " prepull=0"))
			}
			return "bad-case"
		}
		res, err := ds.Execute(ctx, qInstant(from), qInstant(to))
		if err != nil {
			return fmt.Sprintf("pre=%d | post=0 | reject %s", b.events(), qClassify(err))
		}
		_ = res.Meta()
		collect = func() error { _, e := res.Data().Collect(ctx); return e }
	default:
		return "bad-case"
	}
	pre := b.events()
	cerr := collect()
	post := b.events() - pre
	if cerr != nil {
		return fmt.Sprintf("pre=%d | post=%d | accept-rowerr", pre, post)
	}
	return fmt.Sprintf("pre=%d | post=%d | accept", pre, post)
}

// ---- generator

const (
	c05From = 0
	c05To   = 20_000_000_000
)

func c05Rows1(vals ...string) string {
	parts := []string{"rows"}
	for i, v := range vals {
		parts = append(parts, qT("r", fmt.Sprint(int64(i+1)*1_000_000_000), v))
	}
	return qT(parts...)
}

// c05D is a one-field numeric datasource-package static over a probe (three rows, or none).
func c05D(urn, dt string, empty bool) string {
	cell := map[string][]string{"int": {"i:7", "i:2", "i:9"}, "dec": {"d:3ff8000000000000", "d:4000000000000000", "d:4012000000000000"}}[dt]
	if empty {
		cell = nil
	}
	return qT("dstatic", qT("fm", qQ(urn), dt, "1", "'", "nil"), c05Rows1(cell...))
}

// c05R is a two-field report static over a probe.
func c05R(u1, u2 string, empty bool) string {
	rows := []string{"rows"}
	if !empty {
		rows = append(rows, qT("r", "1000000000", "i:1", "d:3ff8000000000000"), qT("r", "2000000000", "i:0", "d:4000000000000000"),
			qT("r", "4000000000", "i:5", "d:4012000000000000"))
	}
	return qT("rstatic", qT("metas", qT("fm", qQ(u1), "int", "1", "'", "nil"), qT("fm", qQ(u2), "dec", "1", "'", "nil")), qT(rows...))
}

func c05Afm(urn string) string { return qT("afm", qQ(urn), "'", "nil") }

// GenC05Query emits the Q cases: a structured sweep over every datasource and filter kind of both packages
// (accepted and rejected variants), then seeded random trees from the C10/C11 generator.
func GenC05Query(c *Ctx) {
	emit := func(kind, tree string) {
		text := fmt.Sprintf("Q %s exact %d %d %s", kind, int64(c05From), int64(c05To), tree)
		obs := ExecC05Query(text)
		// non-trivial: the probes were exercised by the terminal, or the query was rejected at planning time
		nontrivial := strings.Contains(obs, "| reject ") || (strings.Contains(obs, "| post=") && !strings.Contains(obs, "| post=0 |"))
		c.Raw(nontrivial, text, obs)
	}
	refA := qT("ref", "'a")
	constI := qT("const", qT("vm", "int", "1", "'", "nil"), "i:3")
	condOk := qT("cond", "gt", refA, constI)
	dref := qT("ref")
	dcond := qT("cond", "gt", dref, constI)
	for _, empty := range []bool{false, true} {
		base := c05R("a", "b", empty)
		// report filters, one at a time and all together; accepted and rejected variants
		rfs := []string{
			qT("append", qT("num", "add", refA, refA), c05Afm("z")),
			qT("append", refA, c05Afm("a")), // duplicate urn: reject
			qT("drop", "'b"),
			qT("drop", "'a", "'b"), // reject
			qT("select", qT(qT("num", "mul", refA, constI), c05Afm("s")), qT(qT("ref", "'s"), c05Afm("t"))),
			qT("select"), // reject
			qT("replace", "'a", qT("cast", refA, "dec"), c05Afm("a2")),
			qT("replace", "'zz", refA, c05Afm("q")), // reject
			qT("single", qT("nvl", refA, constI), c05Afm("only")),
			qT("override", "'a", "'renamed", "nil", "nil"),
			qT("override", "'a", "'b", "nil", "nil"), // reject
			qT("where", condOk),
			qT("where", refA), // reject (not boolean)
			qT("align", "1000000000"),
			qT("align", "2000000000"),
			qT("alignfill", "1000000000", "linear"),
			qT("alignfill", "1000000000", "forward"),
			qT("append", qT("reduce", "sum", "all"), c05Afm("r")), // reject (mixed types)
			qT("append", qT("reduce", "max", "'b"), c05Afm("r")),
			qT("append", qT("sel", condOk, refA, constI), c05Afm("sl")),
			qT("append", qT("logic", "and", condOk, condOk), c05Afm("lg")),
			qT("append", qT("un", "neg", refA), c05Afm("un")),
			qT("append", qT("num", "div", refA, refA), c05Afm("dz")), // row error on the zero divisor
		}
		for _, f := range rfs {
			emit("rep", qT("rfilt", base, f))
		}
		emit("rep", qT(append([]string{"rfilt", base}, rfs[0], rfs[2], rfs[11], rfs[13])...))
		emit("rep", base)
		// datasource-package filters
		for _, dt := range []string{"int", "dec"} {
			d := c05D("a", dt, empty)
			dfs := []string{
				qT("fval", qT("num", "add", dref, dref), c05Afm("z")),
				qT("fval", dref, c05Afm("")), // reject
				qT("where", dcond),
				qT("where", dref), // reject
				qT("override", "'n", "'kb", "nil"),
				qT("override", "'", "nil", "nil"), // reject
				qT("align", "1000000000"),
				qT("align", "3000000000"),
				qT("alignfill", "1000000000", "linear"),
				qT("alignfill", "1000000000", "forward"),
				qT("delta", "0", "0"),
				qT("delta", "1", "100"),
				qT("rate", "'", "1", "0", "0"),
				qT("rate", "'kb", "60", "1", "100"),
			}
			if dt == "dec" {
				dfs[2] = qT("where", qT("cond", "gt", dref, qT("const", qT("vm", "dec", "1", "'", "nil"), "d:4000000000000000")))
			}
			for _, f := range dfs {
				emit("ds", qT("dfilt", d, f))
			}
			emit("ds", qT(append([]string{"dfilt", d}, dfs[0], dfs[6], dfs[10])...))
			emit("ds", d)
			// bridges
			emit("rep", qT("fromds", d))
			emit("rep", qT("rfilt", qT("fromds", qT("dfilt", d, dfs[0])), qT("append", qT("ref", "'z"), c05Afm("y"))))
			emit("ds", qT("tods", qT("fromds", d), "'a"))
			emit("ds", qT("tods", qT("fromds", d), "'zz")) // reject
			emit("ds", qT("tods", base, "'b"))
			// reductions with 0..3 datasources, every reduction type, with and without fallback
			for _, rt := range qRts {
				for n := 0; n <= 3; n++ {
					parts := []string{"reduction", rt, "1000000000", c05Afm("red"), "none"}
					for i := 0; i < n; i++ {
						parts = append(parts, c05D(fmt.Sprintf("s%d", i), dt, empty && i == 0))
					}
					emit("ds", qT(parts...))
					parts[4] = qT("const", qT("vm", dt, "1", "'", "nil"), map[string]string{"int": "i:0", "dec": "d:0000000000000000"}[dt])
					emit("ds", qT(parts...))
				}
			}
			emit("ds", qT("reduction", "sum", "0", c05Afm("red"), "none", d))                           // reject: no period
			emit("ds", qT("reduction", "sum", "1000000000", c05Afm(""), "none", d))                     // reject: no urn
			emit("ds", qT("reduction", "sum", "1000000000", c05Afm("red"), dref, d))                    // reject: fallback not static
			emit("ds", qT("reduction", "sum", "1000000000", c05Afm("red"), "none", d, c05D("o", "int", false), c05D("p", "dec", false))) // mixed types
			emit("rep", qT("fromds", qT("reduction", "avg", "2000000000", c05Afm("red"), "none", d, c05D("o", dt, false))))
		}
		// joins: every type with 1..3 sides (and 0), sources of every datasource kind, plus a shared urn
		others := []string{
			c05R("c", "d", false),
			qT("fromds", c05D("e", "int", false)),
			qT("rfilt", c05R("g", "h", false), qT("where", qT("cond", "gt", qT("ref", "'g"), constI))),
			qT("fromds", qT("reduction", "sum", "1000000000", c05Afm("k"), "none", c05D("k1", "dec", false), c05D("k2", "dec", true))),
		}
		for _, jt := range []string{"inner", "left", "full"} {
			emit("rep", qT("join", jt))
			emit("rep", qT("join", jt, base))
			for i := range others {
				emit("rep", qT("join", jt, base, others[i]))
				emit("rep", qT("join", jt, others[i], base))
				for j := range others {
					if i != j {
						emit("rep", qT("join", jt, base, others[i], others[j]))
					}
				}
			}
			emit("rep", qT("join", jt, base, c05R("a", "x", false)))                              // shared urn: reject
			emit("rep", qT("join", jt, base, qT("rfilt", c05R("c", "d", false), qT("drop", "'zz")))) // a side rejects
			emit("ds", qT("tods", qT("join", jt, base, others[0]), "'d"))
			emit("rep", qT("rfilt", qT("join", jt, base, others[1]), qT("append", qT("nvl", qT("ref", "'e"), constI), c05Afm("ne"))))
		}
	}
	// seeded random trees of the C10/C11 generator (all constructors of the q grammar, well-typed and mutated)
	g := &qgen{r: c.Rng}
	n := c.Pick(3000, 30000)
	for i := 0; i < n; i++ {
		text, _ := g.randomQ()
		if !strings.HasPrefix(text, "q ") {
			continue
		}
		text = "Q" + text[1:]
		obs := ExecC05Query(text)
		nontrivial := strings.Contains(obs, "| reject ") || !strings.Contains(obs, "| post=0 |")
		c.Raw(nontrivial, text, obs)
	}
}
