package run

// C19 helpers: s-expression query trees, the two ways of turning a tree into an engine
// (generated From* helpers + JSON + real parser  vs.  Go constructors directly), execution and
// canonical printing.
//
// Tree grammar (atoms contain no spaces or parentheses; "~" is the empty string / absent value):
//
//	period := (custom <ms> <zone>) | (cal <kind> <zone>)
//	al     := (al <period> <fill|~>)
//	cm     := (cm k v k v ...)                       custom metadata, string values
//	am     := (am <uri> <overrideUnit> <cm>)         ApiAddFieldMeta
//	fm     := (fm <uri> <dataType> <0|1> <unit> <cm>) ApiQueryFieldMeta
//	val    := nul | tt | ff | d:<mantissa>:<digits> | s:<text>
//	qf     := (const dt val req unit) (cond op a b) (logic op a b) (ref) (sel s t f) (nvl s a)
//	          (cast s target) (num op a b) (un op a) (nil dt unit)
//	rf     := as qf, with (ref <urn>) and (reduce <rt> urn...)
//	flt    := (faligner al) (fcond qf) (fvalue qf am) (fover urn unit cm) (fdelta nn mx) (frate unit ps|~ nn mx)
//	rflt   := (raligner al) (rcond rf) (rappend rf am) (rdrop urn...) (rsingle rf am) (rproj urn...)
//	ds     := (static fm (pt ts val)...) (filtered ds flt...) (reduction rt al mds am qf|~) (fromReport rds urn)
//	mds    := (mlist ds...) (mfiltered mds flt...)
//	rds    := (rstatic (metas fm...) (row ts val...)...) (join jt rmds) (fromDs ds) (rfiltered rds rflt...)
//	rmds   := (rmlist rds...) (rmfrom mds) (rmfiltered rmds rflt...)
import (
	"bytes"
	"context"
	"encoding/json"
	"errors"
	"fmt"
	"math"
	"regexp"
	"sort"
	"strconv"
	"strings"
	"time"

	"github.com/shpandrak/shpanstream/stream"
	"github.com/shpandrak/shpanstream/utils/timeseries"
	"github.com/shpandrak/shpanstream/utils/timeseries/tsquery"
	"github.com/shpandrak/shpanstream/utils/timeseries/tsquery/datasource"
	qo "github.com/shpandrak/shpanstream/utils/timeseries/tsquery/queryopenapi"
	"github.com/shpandrak/shpanstream/utils/timeseries/tsquery/report"
)

// ---------------------------------------------------------------------------------------------
// s-expressions

type sx struct {
	atom string
	kids []*sx // nil for atoms
	list bool
}

func sxAtom(s string) *sx {
	if s == "" {
		s = "~"
	}
	return &sx{atom: s}
}
func sxList(head string, kids ...*sx) *sx {
	return &sx{list: true, kids: append([]*sx{sxAtom(head)}, kids...)}
}

func (s *sx) write(b *strings.Builder) {
	if !s.list {
		b.WriteString(s.atom)
		return
	}
	b.WriteString("(")
	for _, k := range s.kids {
		b.WriteString(" ")
		k.write(b)
	}
	b.WriteString(" )")
}

func (s *sx) String() string { var b strings.Builder; s.write(&b); return b.String() }

func sxParse(toks []string) (*sx, []string, error) {
	if len(toks) == 0 {
		return nil, nil, errors.New("eof")
	}
	if toks[0] == ")" {
		return nil, nil, errors.New("unexpected )")
	}
	if toks[0] != "(" {
		return &sx{atom: toks[0]}, toks[1:], nil
	}
	out := &sx{list: true}
	toks = toks[1:]
	for {
		if len(toks) == 0 {
			return nil, nil, errors.New("eof in list")
		}
		if toks[0] == ")" {
			return out, toks[1:], nil
		}
		k, rest, err := sxParse(toks)
		if err != nil {
			return nil, nil, err
		}
		out.kids = append(out.kids, k)
		toks = rest
	}
}

type c19Bad struct{ msg string }

func c19bad(format string, a ...any) { panic(c19Bad{fmt.Sprintf(format, a...)}) }

func (s *sx) head() string {
	if !s.list || len(s.kids) == 0 || s.kids[0].list {
		c19bad("not a node: %s", s)
	}
	return s.kids[0].atom
}
func (s *sx) args() []*sx { return s.kids[1:] }
func (s *sx) need(n int) []*sx {
	if len(s.kids)-1 != n {
		c19bad("arity of %s", s)
	}
	return s.kids[1:]
}
func (s *sx) str() string {
	if s.list {
		c19bad("atom expected: %s", s)
	}
	if s.atom == "~" {
		return ""
	}
	return s.atom
}
func (s *sx) strs() []string {
	out := make([]string, 0, len(s.kids))
	for _, k := range s.kids {
		out = append(out, k.str())
	}
	return out
}
func (s *sx) boolean() bool { return s.str() == "1" }
func (s *sx) absent() bool  { return !s.list && s.atom == "~" }

// ---------------------------------------------------------------------------------------------
// leaf values

func c19Val(s *sx) any {
	a := s.str()
	switch {
	case a == "nul":
		return nil
	case a == "tt":
		return true
	case a == "ff":
		return false
	case strings.HasPrefix(a, "s:"):
		return a[2:]
	case strings.HasPrefix(a, "d:"):
		return c19Dec(a)
	}
	c19bad("bad value %q", a)
	return nil
}

// c19Dec: "d:<m>:<e>" = m / 10^e (generators keep these exactly representable)
func c19Dec(a string) float64 {
	p := strings.Split(a, ":")
	if len(p) != 3 {
		c19bad("bad decimal %q", a)
	}
	m, err1 := strconv.ParseInt(p[1], 10, 64)
	e, err2 := strconv.Atoi(p[2])
	if err1 != nil || err2 != nil || e < 0 || e > 12 {
		c19bad("bad decimal %q", a)
	}
	return float64(m) / math.Pow10(e)
}

func c19Time(s *sx) time.Time {
	t, err := time.Parse(time.RFC3339Nano, s.str())
	if err != nil {
		c19bad("bad time %s", s)
	}
	return t
}

func c19Cm(s *sx) map[string]any {
	if s.head() != "cm" {
		c19bad("cm expected")
	}
	a := s.args()
	if len(a) == 0 {
		return nil
	}
	if len(a)%2 != 0 {
		c19bad("cm arity")
	}
	m := map[string]any{}
	for i := 0; i < len(a); i += 2 {
		m[a[i].str()] = a[i+1].str()
	}
	return m
}

// ---------------------------------------------------------------------------------------------
// path 1: generated Api types (From* helpers)

func apiAm(s *sx) qo.ApiAddFieldMeta {
	if s.head() != "am" {
		c19bad("am expected")
	}
	a := s.need(3)
	return qo.ApiAddFieldMeta{Uri: a[0].str(), OverrideUnit: a[1].str(), CustomMetadata: c19Cm(a[2])}
}

func apiFm(s *sx) qo.ApiQueryFieldMeta {
	if s.head() != "fm" {
		c19bad("fm expected")
	}
	a := s.need(5)
	return qo.ApiQueryFieldMeta{Uri: a[0].str(), DataType: tsquery.DataType(a[1].str()), Required: a[2].boolean(), Unit: a[3].str(), CustomMetadata: c19Cm(a[4])}
}

func apiPeriod(s *sx) qo.ApiAlignmentPeriod {
	var p qo.ApiAlignmentPeriod
	switch s.head() {
	case "custom":
		a := s.need(2)
		ms, err := strconv.ParseInt(a[0].str(), 10, 64)
		if err != nil {
			c19bad("ms")
		}
		c19Must(p.FromApiCustomAlignmentPeriod(qo.ApiCustomAlignmentPeriod{DurationInMillis: ms, ZoneId: a[1].str()}))
	case "cal":
		a := s.need(2)
		c19Must(p.FromApiCalendarAlignmentPeriod(qo.ApiCalendarAlignmentPeriod{AlignmentPeriodType: qo.ApiCalendarPeriodType(a[0].str()), ZoneId: a[1].str()}))
	default:
		c19bad("period %s", s)
	}
	return p
}

func apiAl(s *sx) qo.ApiAlignerFilter {
	if s.head() != "al" {
		c19bad("al expected")
	}
	a := s.need(2)
	out := qo.ApiAlignerFilter{AlignerPeriod: apiPeriod(a[0])}
	if !a[1].absent() {
		fm := timeseries.FillMode(a[1].str())
		out.FillMode = &fm
	}
	return out
}

func apiQf(s *sx) qo.ApiQueryFieldValue {
	var v qo.ApiQueryFieldValue
	a := s.args()
	switch s.head() {
	case "const":
		s.need(4)
		c19Must(v.FromApiConstantQueryFieldValue(qo.ApiConstantQueryFieldValue{DataType: tsquery.DataType(a[0].str()), FieldValue: c19Val(a[1]), Required: a[2].boolean(), Unit: a[3].str()}))
	case "cond":
		s.need(3)
		c19Must(v.FromApiConditionQueryFieldValue(qo.ApiConditionQueryFieldValue{OperatorType: tsquery.ConditionOperatorType(a[0].str()), Operand1: apiQf(a[1]), Operand2: apiQf(a[2])}))
	case "logic":
		s.need(3)
		c19Must(v.FromApiLogicalExpressionQueryFieldValue(qo.ApiLogicalExpressionQueryFieldValue{LogicalOperatorType: tsquery.LogicalOperatorType(a[0].str()), Operand1: apiQf(a[1]), Operand2: apiQf(a[2])}))
	case "ref":
		s.need(0)
		c19Must(v.FromApiRefQueryFieldValue(qo.ApiRefQueryFieldValue{}))
	case "sel":
		s.need(3)
		c19Must(v.FromApiSelectorQueryFieldValue(qo.ApiSelectorQueryFieldValue{SelectorBooleanField: apiQf(a[0]), TrueField: apiQf(a[1]), FalseField: apiQf(a[2])}))
	case "nvl":
		s.need(2)
		c19Must(v.FromApiNvlQueryFieldValue(qo.ApiNvlQueryFieldValue{Source: apiQf(a[0]), AltField: apiQf(a[1])}))
	case "cast":
		s.need(2)
		c19Must(v.FromApiCastQueryFieldValue(qo.ApiCastQueryFieldValue{Source: apiQf(a[0]), TargetType: tsquery.DataType(a[1].str())}))
	case "num":
		s.need(3)
		c19Must(v.FromApiNumericExpressionQueryFieldValue(qo.ApiNumericExpressionQueryFieldValue{Op: tsquery.BinaryNumericOperatorType(a[0].str()), Op1: apiQf(a[1]), Op2: apiQf(a[2])}))
	case "un":
		s.need(2)
		c19Must(v.FromApiUnaryNumericOperatorQueryFieldValue(qo.ApiUnaryNumericOperatorQueryFieldValue{Op: tsquery.UnaryNumericOperatorType(a[0].str()), Operand: apiQf(a[1])}))
	case "nil":
		s.need(2)
		c19Must(v.FromApiNilQueryFieldValue(qo.ApiNilQueryFieldValue{DataType: tsquery.DataType(a[0].str()), Unit: a[1].str()}))
	default:
		c19bad("qf %s", s)
	}
	return v
}

func apiRf(s *sx) qo.ApiReportFieldValue {
	var v qo.ApiReportFieldValue
	a := s.args()
	switch s.head() {
	case "const":
		s.need(4)
		c19Must(v.FromApiConstantReportFieldValue(qo.ApiConstantReportFieldValue{DataType: tsquery.DataType(a[0].str()), FieldValue: c19Val(a[1]), Required: a[2].boolean(), Unit: a[3].str()}))
	case "cond":
		s.need(3)
		c19Must(v.FromApiConditionReportFieldValue(qo.ApiConditionReportFieldValue{OperatorType: tsquery.ConditionOperatorType(a[0].str()), Operand1: apiRf(a[1]), Operand2: apiRf(a[2])}))
	case "logic":
		s.need(3)
		c19Must(v.FromApiLogicalExpressionReportFieldValue(qo.ApiLogicalExpressionReportFieldValue{LogicalOperatorType: tsquery.LogicalOperatorType(a[0].str()), Operand1: apiRf(a[1]), Operand2: apiRf(a[2])}))
	case "ref":
		s.need(1)
		c19Must(v.FromApiRefReportFieldValue(qo.ApiRefReportFieldValue{Urn: a[0].str()}))
	case "sel":
		s.need(3)
		c19Must(v.FromApiSelectorReportFieldValue(qo.ApiSelectorReportFieldValue{SelectorBooleanField: apiRf(a[0]), TrueField: apiRf(a[1]), FalseField: apiRf(a[2])}))
	case "nvl":
		s.need(2)
		c19Must(v.FromApiNvlReportFieldValue(qo.ApiNvlReportFieldValue{Source: apiRf(a[0]), AltField: apiRf(a[1])}))
	case "cast":
		s.need(2)
		c19Must(v.FromApiCastReportFieldValue(qo.ApiCastReportFieldValue{Source: apiRf(a[0]), TargetType: tsquery.DataType(a[1].str())}))
	case "num":
		s.need(3)
		c19Must(v.FromApiNumericExpressionReportFieldValue(qo.ApiNumericExpressionReportFieldValue{Op: tsquery.BinaryNumericOperatorType(a[0].str()), Op1: apiRf(a[1]), Op2: apiRf(a[2])}))
	case "un":
		s.need(2)
		c19Must(v.FromApiUnaryNumericOperatorReportFieldValue(qo.ApiUnaryNumericOperatorReportFieldValue{Op: tsquery.UnaryNumericOperatorType(a[0].str()), Operand: apiRf(a[1])}))
	case "reduce":
		if len(a) < 1 {
			c19bad("reduce")
		}
		c19Must(v.FromApiReduceReportFieldValue(qo.ApiReduceReportFieldValue{ReductionType: tsquery.ReductionType(a[0].str()), FieldUrns: (&sx{list: true, kids: a[1:]}).strs()}))
	case "nil":
		s.need(2)
		c19Must(v.FromApiNilReportFieldValue(qo.ApiNilReportFieldValue{DataType: tsquery.DataType(a[0].str()), Unit: a[1].str()}))
	default:
		c19bad("rf %s", s)
	}
	return v
}

func c19DecArg(s *sx) float64 { return c19Dec(s.str()) }

func apiFlt(s *sx) qo.ApiQueryFilter {
	var v qo.ApiQueryFilter
	a := s.args()
	switch s.head() {
	case "faligner":
		s.need(1)
		c19Must(v.FromApiAlignerFilter(apiAl(a[0])))
	case "fcond":
		s.need(1)
		c19Must(v.FromApiConditionFilter(qo.ApiConditionFilter{BooleanField: apiQf(a[0])}))
	case "fvalue":
		s.need(2)
		c19Must(v.FromApiFieldValueFilter(qo.ApiFieldValueFilter{FieldValue: apiQf(a[0]), FieldMeta: apiAm(a[1])}))
	case "fover":
		s.need(3)
		c19Must(v.FromApiOverrideFieldMetadataFilter(qo.ApiOverrideFieldMetadataFilter{UpdatedUrn: a[0].str(), UpdatedUnit: a[1].str(), UpdatedCustomMeta: c19Cm(a[2])}))
	case "fdelta":
		s.need(2)
		c19Must(v.FromApiDeltaFilter(qo.ApiDeltaFilter{NonNegative: a[0].boolean(), MaxCounterValue: c19DecArg(a[1])}))
	case "frate":
		s.need(4)
		f := qo.ApiRateFilter{OverrideUnit: a[0].str(), NonNegative: a[2].boolean(), MaxCounterValue: c19DecArg(a[3])}
		if !a[1].absent() {
			ps, err := strconv.Atoi(a[1].str())
			if err != nil {
				c19bad("perSeconds")
			}
			f.PerSeconds = &ps
		}
		c19Must(v.FromApiRateFilter(f))
	default:
		c19bad("flt %s", s)
	}
	return v
}

func apiRflt(s *sx) qo.ApiReportFilter {
	var v qo.ApiReportFilter
	a := s.args()
	switch s.head() {
	case "raligner":
		s.need(1)
		c19Must(v.FromApiAlignerFilter(apiAl(a[0])))
	case "rcond":
		s.need(1)
		c19Must(v.FromApiConditionReportFilter(qo.ApiConditionReportFilter{BooleanField: apiRf(a[0])}))
	case "rappend":
		s.need(2)
		c19Must(v.FromApiAppendFieldReportFilter(qo.ApiAppendFieldReportFilter{FieldValue: apiRf(a[0]), FieldMeta: apiAm(a[1])}))
	case "rdrop":
		c19Must(v.FromApiDropFieldsReportFilter(qo.ApiDropFieldsReportFilter{FieldUrns: (&sx{list: true, kids: a}).strs()}))
	case "rsingle":
		s.need(2)
		c19Must(v.FromApiSingleFieldReportFilter(qo.ApiSingleFieldReportFilter{FieldValue: apiRf(a[0]), FieldMeta: apiAm(a[1])}))
	case "rproj":
		c19Must(v.FromApiProjectionReportFilter(qo.ApiProjectionReportFilter{FieldUrns: (&sx{list: true, kids: a}).strs()}))
	default:
		c19bad("rflt %s", s)
	}
	return v
}

func apiDs(s *sx) qo.ApiQueryDatasource {
	var v qo.ApiQueryDatasource
	a := s.args()
	switch s.head() {
	case "static":
		if len(a) < 1 {
			c19bad("static")
		}
		data := make([]qo.ApiMeasurementValue, 0, len(a)-1)
		for _, p := range a[1:] {
			if p.head() != "pt" {
				c19bad("pt expected")
			}
			pa := p.need(2)
			data = append(data, qo.ApiMeasurementValue{Timestamp: c19Time(pa[0]), Value: c19Val(pa[1])})
		}
		c19Must(v.FromApiStaticQueryDatasource(qo.ApiStaticQueryDatasource{FieldMeta: apiFm(a[0]), Data: data}))
	case "filtered":
		if len(a) < 1 {
			c19bad("filtered")
		}
		fl := make([]qo.ApiQueryFilter, 0, len(a)-1)
		for _, f := range a[1:] {
			fl = append(fl, apiFlt(f))
		}
		c19Must(v.FromApiFilteredQueryDatasource(qo.ApiFilteredQueryDatasource{Datasource: apiDs(a[0]), Filters: fl}))
	case "reduction":
		s.need(5)
		r := qo.ApiReductionQueryDatasource{ReductionType: tsquery.ReductionType(a[0].str()), Aligner: apiAl(a[1]), MultiDatasource: apiMds(a[2]), FieldMeta: apiAm(a[3])}
		if !a[4].absent() {
			e := apiQf(a[4])
			r.EmptyDatasourceValue = &e
		}
		c19Must(v.FromApiReductionQueryDatasource(r))
	case "fromReport":
		s.need(2)
		c19Must(v.FromApiFromReportQueryDatasource(qo.ApiFromReportQueryDatasource{ReportDatasource: apiRds(a[0]), FieldUrn: a[1].str()}))
	default:
		c19bad("ds %s", s)
	}
	return v
}

func apiMds(s *sx) qo.ApiMultiDatasource {
	var v qo.ApiMultiDatasource
	a := s.args()
	switch s.head() {
	case "mlist":
		l := make([]qo.ApiQueryDatasource, 0, len(a))
		for _, d := range a {
			l = append(l, apiDs(d))
		}
		c19Must(v.FromApiListMultiDatasource(qo.ApiListMultiDatasource{Datasources: l}))
	case "mfiltered":
		if len(a) < 1 {
			c19bad("mfiltered")
		}
		fl := make([]qo.ApiQueryFilter, 0, len(a)-1)
		for _, f := range a[1:] {
			fl = append(fl, apiFlt(f))
		}
		c19Must(v.FromApiFilteredMultiDatasource(qo.ApiFilteredMultiDatasource{MultiDatasource: apiMds(a[0]), Filters: fl}))
	default:
		c19bad("mds %s", s)
	}
	return v
}

func apiRds(s *sx) qo.ApiReportDatasource {
	var v qo.ApiReportDatasource
	a := s.args()
	switch s.head() {
	case "rstatic":
		if len(a) < 1 || a[0].head() != "metas" {
			c19bad("rstatic")
		}
		ms := make([]qo.ApiQueryFieldMeta, 0)
		for _, m := range a[0].args() {
			ms = append(ms, apiFm(m))
		}
		rows := make([]qo.ApiReportMeasurementRow, 0, len(a)-1)
		for _, r := range a[1:] {
			if r.head() != "row" || len(r.args()) < 1 {
				c19bad("row expected")
			}
			vals := make([]any, 0)
			for _, x := range r.args()[1:] {
				vals = append(vals, c19Val(x))
			}
			rows = append(rows, qo.ApiReportMeasurementRow{Timestamp: c19Time(r.args()[0]), Values: vals})
		}
		c19Must(v.FromApiStaticReportDatasource(qo.ApiStaticReportDatasource{FieldsMeta: ms, Data: rows}))
	case "join":
		s.need(2)
		c19Must(v.FromApiJoinReportDatasource(qo.ApiJoinReportDatasource{JoinType: qo.ApiJoinType(a[0].str()), MultiDatasource: apiRmds(a[1])}))
	case "fromDs":
		s.need(1)
		c19Must(v.FromApiFromDatasourceReportDatasource(qo.ApiFromDatasourceReportDatasource{Datasource: apiDs(a[0])}))
	case "rfiltered":
		if len(a) < 1 {
			c19bad("rfiltered")
		}
		fl := make([]qo.ApiReportFilter, 0, len(a)-1)
		for _, f := range a[1:] {
			fl = append(fl, apiRflt(f))
		}
		c19Must(v.FromApiFilteredReportDatasource(qo.ApiFilteredReportDatasource{ReportDatasource: apiRds(a[0]), Filters: fl}))
	default:
		c19bad("rds %s", s)
	}
	return v
}

func apiRmds(s *sx) qo.ApiReportMultiDatasource {
	var v qo.ApiReportMultiDatasource
	a := s.args()
	switch s.head() {
	case "rmlist":
		l := make([]qo.ApiReportDatasource, 0, len(a))
		for _, d := range a {
			l = append(l, apiRds(d))
		}
		c19Must(v.FromApiListReportMultiDatasource(qo.ApiListReportMultiDatasource{Datasources: l}))
	case "rmfrom":
		s.need(1)
		c19Must(v.FromApiFromMultiDatasourceReportMultiDatasource(qo.ApiFromMultiDatasourceReportMultiDatasource{MultiDatasource: apiMds(a[0])}))
	case "rmfiltered":
		if len(a) < 1 {
			c19bad("rmfiltered")
		}
		fl := make([]qo.ApiReportFilter, 0, len(a)-1)
		for _, f := range a[1:] {
			fl = append(fl, apiRflt(f))
		}
		c19Must(v.FromApiFilteredReportMultiDatasource(qo.ApiFilteredReportMultiDatasource{ReportMultiDatasource: apiRmds(a[0]), Filters: fl}))
	default:
		c19bad("rmds %s", s)
	}
	return v
}

// ---------------------------------------------------------------------------------------------
// path 2: the same tree assembled directly with the Go constructors

type c19BuildErr struct{ err error }

func c19fail(format string, a ...any) { panic(c19BuildErr{fmt.Errorf(format, a...)}) }

func dirAm(s *sx) tsquery.AddFieldMeta {
	a := s.need(3)
	return tsquery.AddFieldMeta{Urn: a[0].str(), OverrideUnit: a[1].str(), CustomMeta: c19Cm(a[2])}
}

func dirFm(s *sx) tsquery.FieldMeta {
	a := s.need(5)
	m, err := tsquery.NewFieldMetaWithCustomData(a[0].str(), tsquery.DataType(a[1].str()), a[2].boolean(), a[3].str(), c19Cm(a[4]))
	if err != nil {
		panic(c19BuildErr{err})
	}
	return *m
}

func dirPeriod(s *sx) timeseries.AlignmentPeriod {
	a := s.need(2)
	loc, err := time.LoadLocation(a[1].str())
	if err != nil {
		panic(c19BuildErr{err})
	}
	switch s.head() {
	case "custom":
		ms, _ := strconv.ParseInt(a[0].str(), 10, 64)
		if ms <= 0 {
			c19fail("duration must be positive")
		}
		if ms > math.MaxInt64/1000000 {
			c19fail("duration is too large")
		}
		return timeseries.NewFixedAlignmentPeriod(time.Duration(ms)*time.Millisecond, loc)
	case "cal":
		switch a[0].str() {
		case "month":
			return timeseries.NewMonthAlignmentPeriod(loc)
		case "week":
			return timeseries.NewWeekAlignmentPeriod(loc)
		case "day":
			return timeseries.NewDayAlignmentPeriod(loc)
		case "hour":
			return timeseries.NewFixedAlignmentPeriod(time.Hour, loc)
		case "quarterHour":
			return timeseries.NewFixedAlignmentPeriod(15*time.Minute, loc)
		case "quarter":
			return timeseries.NewQuarterAlignmentPeriod(loc)
		case "year":
			return timeseries.NewYearAlignmentPeriod(loc)
		case "halfYear":
			return timeseries.NewHalfYearAlignmentPeriod(loc)
		}
		c19fail("unsupported calendar period")
	}
	c19bad("period")
	return nil
}

func dirFill(s *sx) (timeseries.FillMode, bool) {
	if s.absent() {
		return "", false
	}
	fm := timeseries.FillMode(s.str())
	if fm != timeseries.FillModeLinear && fm != timeseries.FillModeForwardFill {
		c19fail("unsupported fill mode")
	}
	return fm, true
}

func dirAl(s *sx) datasource.AlignerFilter {
	a := s.need(2)
	p := dirPeriod(a[0])
	if fm, ok := dirFill(a[1]); ok {
		return datasource.NewInterpolatingAlignerFilter(p, fm)
	}
	return datasource.NewAlignerFilter(p)
}

func dirRal(s *sx) report.Filter {
	a := s.need(2)
	p := dirPeriod(a[0])
	if fm, ok := dirFill(a[1]); ok {
		return report.NewInterpolatingAlignerFilter(p, fm)
	}
	return report.NewAlignerFilter(p)
}

func dirQf(s *sx) datasource.Value {
	a := s.args()
	switch s.head() {
	case "const":
		return datasource.NewConstantFieldValue(tsquery.ValueMeta{DataType: tsquery.DataType(a[0].str()), Required: a[2].boolean(), Unit: a[3].str()}, c19Val(a[1]))
	case "cond":
		return datasource.NewConditionFieldValue(tsquery.ConditionOperatorType(a[0].str()), dirQf(a[1]), dirQf(a[2]))
	case "logic":
		return datasource.NewLogicalExpressionFieldValue(tsquery.LogicalOperatorType(a[0].str()), dirQf(a[1]), dirQf(a[2]))
	case "ref":
		return datasource.NewRefFieldValue()
	case "sel":
		return datasource.NewSelectorFieldValue(dirQf(a[0]), dirQf(a[1]), dirQf(a[2]))
	case "nvl":
		return datasource.NewNvlFieldValue(dirQf(a[0]), dirQf(a[1]))
	case "cast":
		return datasource.NewCastFieldValue(dirQf(a[0]), tsquery.DataType(a[1].str()))
	case "num":
		return datasource.NewNumericExpressionFieldValue(dirQf(a[1]), tsquery.BinaryNumericOperatorType(a[0].str()), dirQf(a[2]))
	case "un":
		return datasource.NewUnaryNumericOperatorFieldValue(dirQf(a[1]), tsquery.UnaryNumericOperatorType(a[0].str()))
	case "nil":
		return datasource.NewConstantFieldValue(tsquery.ValueMeta{DataType: tsquery.DataType(a[0].str()), Required: false, Unit: a[1].str()}, nil)
	}
	c19bad("qf")
	return nil
}

func dirRf(s *sx) report.Value {
	a := s.args()
	switch s.head() {
	case "const":
		return report.NewConstantFieldValue(tsquery.ValueMeta{DataType: tsquery.DataType(a[0].str()), Required: a[2].boolean(), Unit: a[3].str()}, c19Val(a[1]))
	case "cond":
		return report.NewConditionFieldValue(tsquery.ConditionOperatorType(a[0].str()), dirRf(a[1]), dirRf(a[2]))
	case "logic":
		return report.NewLogicalExpressionFieldValue(tsquery.LogicalOperatorType(a[0].str()), dirRf(a[1]), dirRf(a[2]))
	case "ref":
		return report.NewRefFieldValue(a[0].str())
	case "sel":
		return report.NewSelectorFieldValue(dirRf(a[0]), dirRf(a[1]), dirRf(a[2]))
	case "nvl":
		return report.NewNvlFieldValue(dirRf(a[0]), dirRf(a[1]))
	case "cast":
		return report.NewCastFieldValue(dirRf(a[0]), tsquery.DataType(a[1].str()))
	case "num":
		return report.NewNumericExpressionFieldValue(dirRf(a[1]), tsquery.BinaryNumericOperatorType(a[0].str()), dirRf(a[2]))
	case "un":
		return report.NewUnaryNumericOperatorFieldValue(dirRf(a[1]), tsquery.UnaryNumericOperatorType(a[0].str()))
	case "reduce":
		urns := (&sx{list: true, kids: a[1:]}).strs()
		if len(urns) == 0 {
			return report.NewReduceAllFieldValues(tsquery.ReductionType(a[0].str()))
		}
		return report.NewReduceFieldValues(urns, tsquery.ReductionType(a[0].str()))
	case "nil":
		return report.NewConstantFieldValue(tsquery.ValueMeta{DataType: tsquery.DataType(a[0].str()), Required: false, Unit: a[1].str()}, nil)
	}
	c19bad("rf")
	return nil
}

func dirFlt(s *sx) datasource.Filter {
	a := s.args()
	switch s.head() {
	case "faligner":
		return dirAl(a[0])
	case "fcond":
		return datasource.NewConditionFilter(dirQf(a[0]))
	case "fvalue":
		return datasource.NewFieldValueFilter(dirQf(a[0]), dirAm(a[1]))
	case "fover":
		var urn, unit *string
		if u := a[0].str(); u != "" {
			urn = &u
		}
		if u := a[1].str(); u != "" {
			unit = &u
		}
		return datasource.NewOverrideFieldMetadataFilter(urn, unit, c19Cm(a[2]))
	case "fdelta":
		mx := c19DecArg(a[1])
		if mx > 0 && !a[0].boolean() {
			c19fail("maxCounterValue can only be used when nonNegative is true")
		}
		return datasource.NewDeltaFilter(a[0].boolean(), mx)
	case "frate":
		mx := c19DecArg(a[3])
		if mx > 0 && !a[2].boolean() {
			c19fail("maxCounterValue can only be used when nonNegative is true")
		}
		ps := 0
		if !a[1].absent() {
			ps, _ = strconv.Atoi(a[1].str())
		}
		return datasource.NewRateFilter(a[0].str(), ps, a[2].boolean(), mx)
	}
	c19bad("flt")
	return nil
}

func dirRflt(s *sx) report.Filter {
	a := s.args()
	switch s.head() {
	case "raligner":
		return dirRal(a[0])
	case "rcond":
		return report.NewConditionFilter(dirRf(a[0]))
	case "rappend":
		return report.NewAppendFieldFilter(dirRf(a[0]), dirAm(a[1]))
	case "rdrop":
		urns := (&sx{list: true, kids: a}).strs()
		if len(urns) == 0 {
			c19fail("drop fields filter requires at least one field URN")
		}
		return report.NewDropFieldsFilter(urns...)
	case "rsingle":
		return report.NewSingleFieldFilter(dirRf(a[0]), dirAm(a[1]))
	case "rproj":
		urns := (&sx{list: true, kids: a}).strs()
		if len(urns) == 0 {
			c19fail("projection filter requires at least one field URN")
		}
		sel := make([]report.SelectedField, 0, len(urns))
		for _, u := range urns {
			sel = append(sel, report.SelectedField{Value: report.NewRefFieldValue(u), Meta: tsquery.AddFieldMeta{Urn: u}})
		}
		return report.NewSelectFieldsFilter(sel)
	}
	c19bad("rflt")
	return nil
}

func dirDs(s *sx) datasource.DataSource {
	a := s.args()
	switch s.head() {
	case "static":
		fm := dirFm(a[0])
		recs := make([]timeseries.TsRecord[any], 0, len(a)-1)
		for _, p := range a[1:] {
			pa := p.need(2)
			recs = append(recs, timeseries.TsRecord[any]{Timestamp: c19Time(pa[0]), Value: c19Val(pa[1])})
		}
		ds, err := datasource.NewStaticDatasource(fm, stream.FromSlice(recs))
		if err != nil {
			panic(c19BuildErr{err})
		}
		return ds
	case "filtered":
		inner := dirDs(a[0])
		if len(a) == 1 {
			return inner
		}
		var fl []datasource.Filter
		for _, f := range a[1:] {
			fl = append(fl, dirFlt(f))
		}
		return datasource.NewFilteredDataSource(inner, fl...)
	case "reduction":
		al := dirAl(a[1])
		m := dirMds(a[2])
		am := dirAm(a[3])
		if !a[4].absent() {
			return datasource.NewReductionDatasourceWithEmptyFallback(tsquery.ReductionType(a[0].str()), al, m, am, dirQf(a[4]))
		}
		return datasource.NewReductionDatasource(tsquery.ReductionType(a[0].str()), al, m, am)
	case "fromReport":
		return report.ToDatasource(dirRds(a[0]), a[1].str())
	}
	c19bad("ds")
	return nil
}

func dirMds(s *sx) datasource.MultiDataSource {
	a := s.args()
	switch s.head() {
	case "mlist":
		l := make([]datasource.DataSource, 0, len(a))
		for _, d := range a {
			l = append(l, dirDs(d))
		}
		return datasource.NewListMultiDatasource(l)
	case "mfiltered":
		inner := dirMds(a[0])
		var fl []datasource.Filter
		for _, f := range a[1:] {
			fl = append(fl, dirFlt(f))
		}
		return datasource.NewFilteredMultiDatasource(inner, fl)
	}
	c19bad("mds")
	return nil
}

func dirRds(s *sx) report.DataSource {
	a := s.args()
	switch s.head() {
	case "rstatic":
		var ms []tsquery.FieldMeta
		for _, m := range a[0].args() {
			ms = append(ms, dirFm(m))
		}
		recs := make([]timeseries.TsRecord[[]any], 0, len(a)-1)
		for _, r := range a[1:] {
			vals := make([]any, 0)
			for _, x := range r.args()[1:] {
				vals = append(vals, c19Val(x))
			}
			recs = append(recs, timeseries.TsRecord[[]any]{Timestamp: c19Time(r.args()[0]), Value: vals})
		}
		ds, err := report.NewStaticDatasource(ms, stream.FromSlice(recs))
		if err != nil {
			panic(c19BuildErr{err})
		}
		return ds
	case "join":
		var jt report.JoinType
		switch a[0].str() {
		case "inner":
			jt = report.InnerJoin
		case "left":
			jt = report.LeftJoin
		case "full":
			jt = report.FullJoin
		default:
			c19fail("unsupported join type")
		}
		return report.NewJoinDatasource(dirRmds(a[1]), jt)
	case "fromDs":
		return report.FromDatasource(dirDs(a[0]))
	case "rfiltered":
		inner := dirRds(a[0])
		fl := make([]report.Filter, 0, len(a)-1)
		for _, f := range a[1:] {
			fl = append(fl, dirRflt(f))
		}
		return report.NewFilteredDataSource(inner, fl...)
	}
	c19bad("rds")
	return nil
}

func dirRmds(s *sx) report.MultiDataSource {
	a := s.args()
	switch s.head() {
	case "rmlist":
		l := make([]report.DataSource, 0, len(a))
		for _, d := range a {
			l = append(l, dirRds(d))
		}
		return report.NewListMultiDatasource(l)
	case "rmfrom":
		return report.FromMultiDatasource(dirMds(a[0]))
	case "rmfiltered":
		inner := dirRmds(a[0])
		var fl []report.Filter
		for _, f := range a[1:] {
			fl = append(fl, dirRflt(f))
		}
		return report.NewFilteredMultiDatasource(inner, fl)
	}
	c19bad("rmds")
	return nil
}

// ---------------------------------------------------------------------------------------------
// execution and canonical summaries

var (
	c19From = time.Date(2024, 12, 31, 0, 0, 0, 0, time.UTC)
	c19To   = time.Date(2025, 1, 4, 0, 0, 0, 0, time.UTC)
	c19Hex  = regexp.MustCompile(`0x[0-9a-fA-F]+`)
	c19Brk  = regexp.MustCompile(`\[[^\]]*\]`)
)

func c19FmtVal(v any) string {
	switch x := v.(type) {
	case nil:
		return "nil"
	case float64:
		return fmt.Sprintf("f:%016x", math.Float64bits(x))
	case int64:
		return fmt.Sprintf("i:%d", x)
	case int:
		return fmt.Sprintf("int:%d", x)
	case bool:
		return fmt.Sprintf("b:%v", x)
	case string:
		return "s:" + x
	case time.Time:
		return fmt.Sprintf("t:%d", x.UnixNano())
	}
	return fmt.Sprintf("%T:%v", v, v)
}

func c19FmtMeta(m tsquery.FieldMeta) string {
	keys := make([]string, 0)
	for k := range m.CustomMeta() {
		keys = append(keys, k)
	}
	sort.Strings(keys)
	var cm []string
	for _, k := range keys {
		cm = append(cm, k+"="+c19FmtVal(m.CustomMeta()[k]))
	}
	return fmt.Sprintf("%s|%s|%v|%s|{%s}", m.Urn(), m.DataType(), m.Required(), m.Unit(), strings.Join(cm, ","))
}

// c19ErrText: error class = message without addresses and without bracketed lists (map iteration order)
func c19ErrText(err error) string {
	return c19Brk.ReplaceAllString(c19Hex.ReplaceAllString(err.Error(), "0x"), "[]")
}

// c19RunDs executes a datasource and summarises metadata and rows (or the error).
func c19RunDs(ds datasource.DataSource) (string, int) {
	ctx, cancel := context.WithTimeout(context.Background(), 8*time.Second)
	defer cancel()
	// an engine can be executed again and again: a first execution that stops after one row, then the one that is
	// summarised (a parsed engine holding once-only state differs here from the directly assembled one)
	if pre, perr := ds.Execute(ctx, c19From, c19To); perr == nil {
		_, _ = pre.Data().Limit(1).Collect(ctx)
	}
	res, err := ds.Execute(ctx, c19From, c19To)
	if err != nil {
		return "exec-err " + c19ErrText(err), 0
	}
	rows, err := res.Data().Collect(ctx)
	if err != nil {
		return "stream-err " + c19FmtMeta(res.Meta()) + " " + c19ErrText(err), 0
	}
	var b strings.Builder
	b.WriteString("ok " + c19FmtMeta(res.Meta()))
	for _, r := range rows {
		fmt.Fprintf(&b, " %d=%s", r.Timestamp.UnixNano(), c19FmtVal(r.Value))
	}
	return b.String(), len(rows)
}

func c19RunRds(ds report.DataSource) (string, int) {
	ctx, cancel := context.WithTimeout(context.Background(), 8*time.Second)
	defer cancel()
	if pre, perr := ds.Execute(ctx, c19From, c19To); perr == nil {
		_, _ = pre.Stream().Limit(1).Collect(ctx)
	}
	res, err := ds.Execute(ctx, c19From, c19To)
	if err != nil {
		return "exec-err " + c19ErrText(err), 0
	}
	var ms []string
	for _, m := range res.FieldsMeta() {
		ms = append(ms, c19FmtMeta(m))
	}
	rows, err := res.Stream().Collect(ctx)
	if err != nil {
		return "stream-err " + strings.Join(ms, ";") + " " + c19ErrText(err), 0
	}
	var b strings.Builder
	b.WriteString("ok " + strings.Join(ms, ";"))
	for _, r := range rows {
		vals := make([]string, 0, len(r.Value))
		for _, v := range r.Value {
			vals = append(vals, c19FmtVal(v))
		}
		fmt.Fprintf(&b, " %d=[%s]", r.Timestamp.UnixNano(), strings.Join(vals, ","))
	}
	return b.String(), len(rows)
}

// c19Watch runs f with a watchdog; a panic inside f is re-raised in the caller. true = timed out.
func c19Watch(f func()) bool {
	done := make(chan any, 1)
	go func() {
		defer func() {
			if r := recover(); r != nil {
				done <- r
				return
			}
			done <- nil
		}()
		f()
	}()
	select {
	case r := <-done:
		if r != nil {
			panic(r)
		}
		return false
	case <-time.After(60 * time.Second):
		return true
	}
}

// c19Canon prints a decoded JSON value (UseNumber) canonically: sorted keys, no spaces, number literals as written.
func c19Canon(b *strings.Builder, v any) {
	switch x := v.(type) {
	case nil:
		b.WriteString("null")
	case bool:
		if x {
			b.WriteString("true")
		} else {
			b.WriteString("false")
		}
	case json.Number:
		b.WriteString(string(x))
	case string:
		b.WriteString(`"` + x + `"`)
	case []any:
		b.WriteString("[")
		for i, e := range x {
			if i > 0 {
				b.WriteString(",")
			}
			c19Canon(b, e)
		}
		b.WriteString("]")
	case map[string]any:
		keys := make([]string, 0, len(x))
		for k := range x {
			keys = append(keys, k)
		}
		sort.Strings(keys)
		b.WriteString("{")
		for i, k := range keys {
			if i > 0 {
				b.WriteString(",")
			}
			b.WriteString(`"` + k + `":`)
			c19Canon(b, x[k])
		}
		b.WriteString("}")
	default:
		b.WriteString(fmt.Sprintf(`"?%T"`, v))
	}
}

func c19Decode(doc []byte) (any, error) {
	dec := json.NewDecoder(bytes.NewReader(doc))
	dec.UseNumber()
	var v any
	if err := dec.Decode(&v); err != nil {
		return nil, err
	}
	return v, nil
}

func c19CanonDoc(doc []byte) string {
	v, err := c19Decode(doc)
	if err != nil {
		return "undecodable"
	}
	var b strings.Builder
	c19Canon(&b, v)
	return b.String()
}

// c19Doc serialises the tree with the generated helpers.
func c19Doc(kind string, tree *sx) []byte {
	var doc []byte
	var err error
	if kind == "ds" {
		doc, err = json.Marshal(apiDs(tree))
	} else {
		doc, err = json.Marshal(apiRds(tree))
	}
	c19Must(err)
	return doc
}

// c19ViaParser: document -> real parser -> engine -> execute. class: "reject" | summary.
func c19ViaParser(kind string, doc []byte) (summary string, rows int, parsed bool) {
	pCtx := qo.NewParsingContext(context.Background(), nil)
	if kind == "ds" {
		var api qo.ApiQueryDatasource
		if err := json.Unmarshal(doc, &api); err != nil {
			return "build-err", 0, false
		}
		ds, err := qo.ParseDatasource(pCtx, api)
		if err != nil {
			return "build-err", 0, false
		}
		s, n := c19RunDs(ds)
		return s, n, true
	}
	var api qo.ApiReportDatasource
	if err := json.Unmarshal(doc, &api); err != nil {
		return "build-err", 0, false
	}
	ds, err := qo.ParseReportDatasource(pCtx, api)
	if err != nil {
		return "build-err", 0, false
	}
	s, n := c19RunRds(ds)
	return s, n, true
}

func c19Direct(kind string, tree *sx) (summary string, rows int) {
	defer func() {
		if r := recover(); r != nil {
			if _, ok := r.(c19BuildErr); ok {
				summary, rows = "build-err", 0
				return
			}
			panic(r)
		}
	}()
	if kind == "ds" {
		return c19RunDs(dirDs(tree))
	}
	return c19RunRds(dirRds(tree))
}

func c19PanicText(r any) string {
	if b, ok := r.(c19Bad); ok {
		return "BADCASE " + b.msg
	}
	return c19Clean(fmt.Sprint(r))
}

// execC19Rt: returns the observation and (for the generator) whether the case is non-trivial.
func execC19Rt(kind string, toks []string) string {
	obs, _ := c19Rt(kind, toks)
	return obs
}

func c19Rt(kind string, toks []string) (obs string, nontrivial bool) {
	defer func() {
		if r := recover(); r != nil {
			t := c19PanicText(r)
			if strings.HasPrefix(t, "BADCASE") {
				obs = "bad-case"
			} else {
				obs = "panic " + t
			}
		}
	}()
	c19SetWindow(strings.Join(toks, " "))
	if kind != "ds" && kind != "rds" {
		return "bad-case", false
	}
	tree, rest, err := sxParse(toks)
	if err != nil || len(rest) != 0 {
		return "bad-case", false
	}
	var doc []byte
	var viaParser, direct string
	var n1, n2 int
	accepted := false
	if c19Watch(func() {
		doc = c19Doc(kind, tree)
		viaParser, n1, accepted = c19ViaParser(kind, doc)
		direct, n2 = c19Direct(kind, tree)
	}) {
		return "hang", false
	}
	if viaParser != direct {
		return "differ parsed=" + c19Clean(viaParser) + " direct=" + c19Clean(direct), false
	}
	verdict := "reject"
	if accepted {
		verdict = "accept"
	}
	return "equal " + verdict + " " + c19CanonDoc(doc), strings.HasPrefix(viaParser, "ok ") && n1 > 0 && n1 == n2
}

func execC19Mal(kind, doc string) (obs string) {
	defer func() {
		if r := recover(); r != nil {
			obs = "panic " + c19PanicText(r)
		}
	}()
	if kind != "ds" && kind != "rds" {
		return "bad-case"
	}
	parsed := false
	if c19Watch(func() { _, _, parsed = c19ViaParser(kind, []byte(doc)) }) {
		return "hang"
	}
	if parsed {
		return "engine"
	}
	return "reject"
}
