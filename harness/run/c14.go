package run

import (
	"context"
	"fmt"
	"io"
	"math"
	"strconv"
	"strings"
	"time"

	"github.com/shpandrak/shpanstream/lazy"
	"github.com/shpandrak/shpanstream/stream"
	"github.com/shpandrak/shpanstream/utils/timeseries"
	"github.com/shpandrak/shpanstream/utils/timeseries/tsquery"
	"github.com/shpandrak/shpanstream/utils/timeseries/tsquery/datasource"
	"github.com/shpandrak/shpanstream/utils/timeseries/tsquery/report"
)

// C14: reductions. Case / observation grammar: see lean/ShpanVerif/Drive/C14.lean.
//   ar <red> <i|f> <periodNs> | <recs>                         timeseries.AlignReduceStream
//   mm <min|max|minlazy|maxlazy> <i|f> | <vals>                 stream.Min / Max / MinLazy / MaxLazy
//   rd <red> <periodNs> | <dt><req> <recs> | ...                datasource.ReductionDatasource
//   rf <red> <all|urns> | <urn><dt><req>,... | <row>;<row>...   report.ReduceFieldValue

func init() {
	Register("C14", Family{Gen: genC14, Exec: execC14})
}

const hourNs1415 = int64(3600) * 1e9

// fmod1415 is the floor modulus (result in [0,d)).
func fmod1415(t, d int64) int64 { return ((t % d) + d) % d }

func execC14(caseText string) string {
	return guard1415(func() string {
		parts := strings.Split(caseText, " | ")
		head := strings.Fields(parts[0])
		if len(head) == 0 {
			return "bad-case"
		}
		switch head[0] {
		case "ar":
			if len(head) != 4 || len(parts) != 2 {
				return "bad-case"
			}
			d, err := strconv.ParseInt(head[3], 10, 64)
			if err != nil || d <= 0 {
				return "bad-case"
			}
			if head[2] == "i" {
				return execAr1415[int64](head[1], d, strings.TrimSpace(parts[1]), parseI1415, fmtI1415)
			}
			return execAr1415[float64](head[1], d, strings.TrimSpace(parts[1]), parseFbits1415, fbits1415)
		case "mm":
			if len(head) != 3 || len(parts) != 2 {
				return "bad-case"
			}
			if head[2] == "i" {
				return execMm1415[int64](head[1], strings.TrimSpace(parts[1]), parseI1415, fmtI1415)
			}
			return execMm1415[float64](head[1], strings.TrimSpace(parts[1]), parseFbits1415, fbits1415)
		case "rd":
			return execRd1415(head, parts[1:])
		case "rf":
			return execRf1415(head, parts[1:])
		}
		return "bad-case"
	})
}

func parseI1415(s string) (int64, error) { return strconv.ParseInt(s, 10, 64) }
func fmtI1415(v int64) string            { return strconv.FormatInt(v, 10) }

func execAr1415[N timeseries.Number](red string, d int64, recsTxt string, parse func(string) (N, error), fmtV func(N) string) string {
	recs, err := parseRecs1415(recsTxt)
	if err != nil {
		return "bad-case"
	}
	var in []timeseries.TsRecord[N]
	for _, r := range recs {
		v, err := parse(r.V)
		if err != nil {
			return "bad-case"
		}
		in = append(in, timeseries.TsRecord[N]{Timestamp: r.Time(), Value: v})
	}
	// "<red>@h": the aligned-and-reduced stream VALUE is materialised a few times before the run that is observed - stopped
	// after its first element, after two, and with a context cancelled beforehand: every period of the observed run must
	// still carry the reduction of exactly its own values
	hist := strings.HasSuffix(red, "@h")
	red = strings.TrimSuffix(red, "@h")
	var reducer timeseries.Reducer[N]
	switch red {
	case "sum":
		reducer = timeseries.Sum[N]
	case "avg":
		reducer = timeseries.Avg[N]
	case "min":
		reducer = timeseries.Min[N]
	case "max":
		reducer = timeseries.Max[N]
	default:
		return "bad-case"
	}
	aligned := timeseries.AlignReduceStream(stream.Just(in...), timeseries.NewFixedAlignmentPeriod(time.Duration(d), time.UTC), reducer)
	if hist {
		_, _ = aligned.FindFirst().GetOptional(context.Background())
		_, _ = aligned.Limit(2).Collect(context.Background())
		cctx, cancel := context.WithCancel(context.Background())
		cancel()
		_, _ = aligned.Collect(cctx)
	}
	out, err := aligned.Collect(context.Background())
	if err != nil {
		return "err " + errClass1415(err)
	}
	ps := make([]string, len(out))
	for i, r := range out {
		ps[i] = fmt.Sprintf("%d:%s", r.Timestamp.UnixNano(), fmtV(r.Value))
	}
	if len(ps) == 0 {
		return "ok -"
	}
	return "ok " + strings.Join(ps, ",")
}

func execMm1415[N int64 | float64](op string, valsTxt string, parse func(string) (N, error), fmtV func(N) string) string {
	var in []N
	if valsTxt != "-" {
		for _, p := range strings.Split(valsTxt, ",") {
			v, err := parse(p)
			if err != nil {
				return "bad-case"
			}
			in = append(in, v)
		}
	}
	ctx := context.Background()
	var v N
	var err error
	// "<op>@ch" / "<op>@cur": the same over a one-shot source (a channel, a cursor provider): the extremum of "any
	// non-empty stream", not only of a replayable one
	src := stream.Just(in...)
	if i := strings.IndexByte(op, '@'); i >= 0 {
		switch op[i+1:] {
		case "ch":
			ch := make(chan N, len(in))
			for _, x := range in {
				ch <- x
			}
			close(ch)
			src = stream.FromChannel[N](ch)
		case "cur":
			pos := 0
			src = stream.NewSimpleStream(func(ctx context.Context) (N, error) {
				if pos >= len(in) {
					var zero N
					return zero, io.EOF
				}
				pos++
				return in[pos-1], nil
			})
		default:
			return "bad-case"
		}
		op = op[:i]
	}
	switch op {
	case "min":
		v, err = stream.Min(ctx, src)
	case "max":
		v, err = stream.Max(ctx, src)
	case "minlazy":
		var l lazy.Lazy[N] = stream.MinLazy(src)
		v, err = l.Get(ctx)
	case "maxlazy":
		var l lazy.Lazy[N] = stream.MaxLazy(src)
		v, err = l.Get(ctx)
	default:
		return "bad-case"
	}
	if err != nil {
		return "err " + errClass1415(err)
	}
	return "ok " + fmtV(v)
}

func dtype1415(c byte) (tsquery.DataType, bool) {
	switch c {
	case 'i':
		return tsquery.DataTypeInteger, true
	case 'f':
		return tsquery.DataTypeDecimal, true
	case 's':
		return tsquery.DataTypeString, true
	case 'b':
		return tsquery.DataTypeBoolean, true
	case 't':
		return tsquery.DataTypeTimestamp, true
	}
	return "", false
}

func reduction1415(s string) (tsquery.ReductionType, bool) {
	switch s {
	case "sum":
		return tsquery.ReductionTypeSum, true
	case "avg":
		return tsquery.ReductionTypeAvg, true
	case "min":
		return tsquery.ReductionTypeMin, true
	case "max":
		return tsquery.ReductionTypeMax, true
	case "count":
		return tsquery.ReductionTypeCount, true
	}
	return "", false
}

// value of a field / datasource declared dt: decimal = float bits, anything else = decimal integer (int64)
func parseAny1415(dt tsquery.DataType, s string) (any, error) {
	if dt == tsquery.DataTypeDecimal {
		return parseFbits1415(s)
	}
	return strconv.ParseInt(s, 10, 64)
}

func execRd1415(head []string, dsParts []string) string {
	if len(head) != 3 {
		return "bad-case"
	}
	rt, ok := reduction1415(head[1])
	d, err := strconv.ParseInt(head[2], 10, 64)
	if !ok || err != nil || d <= 0 {
		return "bad-case"
	}
	var dss []datasource.DataSource
	for i, p := range dsParts {
		toks := strings.Fields(p)
		if len(toks) != 2 || len(toks[0]) != 2 {
			return "bad-case"
		}
		dt, ok := dtype1415(toks[0][0])
		if !ok {
			return "bad-case"
		}
		recs, err := parseRecs1415(toks[1])
		if err != nil {
			return "bad-case"
		}
		var rows []timeseries.TsRecord[any]
		for _, r := range recs {
			v, err := parseAny1415(dt, r.V)
			if err != nil {
				return "bad-case"
			}
			rows = append(rows, timeseries.TsRecord[any]{Timestamp: r.Time(), Value: v})
		}
		fm, err := tsquery.NewFieldMetaWithCustomData(fmt.Sprintf("ds%d", i), dt, toks[0][1] == '+', "u", nil)
		if err != nil {
			return "bad-case"
		}
		ds, err := datasource.NewStaticDatasource(*fm, stream.FromSlice(rows))
		if err != nil {
			return "bad-case"
		}
		dss = append(dss, ds)
	}
	rds := datasource.NewReductionDatasource(rt,
		datasource.NewAlignerFilter(timeseries.NewFixedAlignmentPeriod(time.Duration(d), time.UTC)),
		datasource.NewListMultiDatasource(dss), tsquery.AddFieldMeta{Urn: "out"})
	ctx := context.Background()
	res, err := rds.Execute(ctx, time.Time{}, time.Date(3000, 1, 1, 0, 0, 0, 0, time.UTC))
	if err != nil {
		return "err " + errClass1415(err)
	}
	meta := res.Meta()
	out, err := res.Data().Collect(ctx)
	if err != nil {
		return fmt.Sprintf("dataerr %s %s", meta.DataType(), errClass1415(err))
	}
	ps := make([]string, len(out))
	for i, r := range out {
		ps[i] = fmt.Sprintf("%d:%s", r.Timestamp.UnixNano(), tagVal1415(r.Value))
	}
	if len(ps) == 0 {
		return fmt.Sprintf("ok %s -", meta.DataType())
	}
	return fmt.Sprintf("ok %s %s", meta.DataType(), strings.Join(ps, ","))
}

func execRf1415(head []string, parts []string) string {
	if len(head) != 3 || len(parts) != 2 {
		return "bad-case"
	}
	rt, ok := reduction1415(head[1])
	if !ok {
		return "bad-case"
	}
	var metas []tsquery.FieldMeta
	var dts []tsquery.DataType
	for _, f := range strings.Split(strings.TrimSpace(parts[0]), ",") {
		if len(f) < 3 {
			return "bad-case"
		}
		dt, ok := dtype1415(f[len(f)-2])
		if !ok {
			return "bad-case"
		}
		fm, err := tsquery.NewFieldMetaWithCustomData("u"+f[:len(f)-2], dt, f[len(f)-1] == '+', "", nil)
		if err != nil {
			return "bad-case"
		}
		metas = append(metas, *fm)
		dts = append(dts, dt)
	}
	var rfv report.ReduceFieldValue
	if head[2] == "all" {
		rfv = report.NewReduceAllFieldValues(rt)
	} else {
		var urns []string
		if head[2] != "-" {
			for _, u := range strings.Split(head[2], ",") {
				urns = append(urns, "u"+u)
			}
		}
		rfv = report.NewReduceFieldValues(urns, rt)
	}
	ctx := context.Background()
	vm, supplier, err := rfv.Execute(ctx, metas)
	if err != nil {
		return "err " + errClass1415(err)
	}
	var outs []string
	rowsTxt := strings.TrimSpace(parts[1])
	if rowsTxt != "-" {
		for ri, rowTxt := range strings.Split(rowsTxt, ";") {
			cells := strings.Split(rowTxt, ",")
			if len(cells) != len(metas) {
				return "bad-case"
			}
			row := make([]any, len(cells))
			for i, c := range cells {
				v, err := parseAny1415(dts[i], c)
				if err != nil {
					return "bad-case"
				}
				row[i] = v
			}
			v, err := supplier(ctx, timeseries.TsRecord[[]any]{Timestamp: time.Unix(int64(ri)*3600, 0).UTC(), Value: row})
			if err != nil {
				return fmt.Sprintf("dataerr %s %s", vm.DataType, errClass1415(err))
			}
			outs = append(outs, tagVal1415(v))
		}
	}
	if len(outs) == 0 {
		return fmt.Sprintf("ok %s -", vm.DataType)
	}
	return fmt.Sprintf("ok %s %s", vm.DataType, strings.Join(outs, ";"))
}

// ---------------------------------------------------------------- generators

// value alphabets: all-negative / all-positive / mixed groups arise from these
var intAlpha1415 = []int64{-3, -1, 2, 5}
var fltAlpha1415 = []float64{-1.5, -0.25, 0.75, 2}

func valTxt1415(ty string, idx int) string {
	if ty == "i" {
		return fmtI1415(intAlpha1415[idx])
	}
	return fbits1415(fltAlpha1415[idx])
}

// rndVal1415: a value text for type ty: small integers / dyadic grid k/8 / (sometimes) arbitrary doubles
func rndVal1415(r *Rng, ty string) string {
	if ty == "i" {
		switch r.Intn(4) {
		case 0:
			return fmtI1415(int64(r.Range(-5, 5)))
		case 1:
			return fmtI1415(int64(r.Range(-1000000, -1)))
		default:
			return fmtI1415(int64(r.Range(-1000, 1000)))
		}
	}
	switch r.Intn(5) {
	case 0:
		return fbits1415(float64(r.Range(-8000, 8000)) / 8)
	case 1:
		return fbits1415(-float64(r.Range(1, 8000)) / 8)
	case 2:
		return fbits1415(float64(r.Range(1, 8000)) / 8)
	case 3:
		// arbitrary double in about [-1e6, 1e6] (off the dyadic grid: rounding happens)
		return fbits1415((float64(int64(r.Next()>>11))/float64(1<<53) - 0.5) * 2e6)
	default:
		return fbits1415(float64(r.Range(-40, 40)) / 4)
	}
}

func genC14(c *Ctx) {
	genAr1415(c)
	genMm1415(c)
	genRf1415(c)
	genRd1415(c)
}

func genAr1415(c *Ctx) {
	reds := []string{"sum", "avg", "min", "max"}
	// exhaustive small scope: every value sequence of length 1..L over the 4-letter alphabet, cut into 1..3
	// consecutive groups (= periods), x reducers x {int64, float64}
	maxLen := c.Pick(3, 5)
	var seqs [][]int
	var build func(cur []int)
	build = func(cur []int) {
		if len(cur) > 0 {
			seqs = append(seqs, append([]int(nil), cur...))
		}
		if len(cur) >= maxLen {
			return
		}
		for k := 0; k < 4; k++ {
			build(append(cur, k))
		}
	}
	build(nil)
	for _, seq := range seqs {
		n := len(seq)
		// cuts: bitmask over the n-1 gaps with at most 2 cuts
		for mask := 0; mask < 1<<(n-1); mask++ {
			cuts := 0
			for b := 0; b < n-1; b++ {
				if mask>>b&1 == 1 {
					cuts++
				}
			}
			if cuts > 2 {
				continue
			}
			for _, ty := range []string{"i", "f"} {
				var recs []string
				period, within := int64(0), int64(0)
				for j, k := range seq {
					if j > 0 && mask>>(j-1)&1 == 1 {
						period += 1 + int64(j%2) // sometimes skip an empty period
						within = 0
					}
					// first element of a group sits on the boundary when j is even
					off := within * 600 * 1e9
					if j%2 == 1 {
						off += 7 * 1e9
					}
					recs = append(recs, fmt.Sprintf("%d:%s", period*hourNs1415+off, valTxt1415(ty, k)))
					within++
				}
				for _, red := range reds {
					c.Case(n >= 2, fmt.Sprintf("ar %s %s %d | %s", red, ty, hourNs1415, strings.Join(recs, ",")))
				}
				if n >= 2 {
					c.Case(true, fmt.Sprintf("ar %s@h %s %d | %s", reds[n%len(reds)], ty, hourNs1415, strings.Join(recs, ",")))
				}
			}
		}
	}
	// floating values of large magnitude: the mean / extremum of a period is representable although the plain sum of the
	// period is not (kept within (n-1)*max|v| <= MaxFloat64, the range in which the running update itself cannot overflow;
	// beyond it - three values of 1.5e308 - the running mean is +Inf like any sum-based mean: IEEE range, outside C14)
	for gi, g := range [][]float64{{1.5e308, 1.5e308}, {-1.5e308, -1.5e308}, {0.6e308, 0.6e308, 0.6e308}, {1.7e308, 1.2e308},
		{-0.55e308, -0.6e308, -0.5e308}, {math.MaxFloat64, math.MaxFloat64}, {1.0e308, -1.0e308, 1.0e308}} {
		var recs []string
		for i, v := range g {
			recs = append(recs, fmt.Sprintf("%d:%s", int64(gi%2)*hourNs1415+int64(i)*600e9, fbits1415(v)))
		}
		recs = append(recs, fmt.Sprintf("%d:%s", 5*hourNs1415, fbits1415(2.5)))
		for _, red := range []string{"avg", "min", "max", "avg@h"} {
			c.Case(true, fmt.Sprintf("ar %s f %d | %s", red, hourNs1415, strings.Join(recs, ",")))
		}
	}
	c.Case(false, fmt.Sprintf("ar sum i %d | -", hourNs1415))
	c.Case(false, fmt.Sprintf("ar avg f %d | -", hourNs1415))
	// sub-second alignment periods: datasources whose non-empty periods differ within one second must not be paired
	for _, red := range []string{"sum", "avg", "min", "max", "count"} {
		c.Case(true, fmt.Sprintf("rd %s 250000000 | i+ 0:1,250000000:2,750000000:3,1000000000:4 | i+ 0:5,500000000:7,750000000:9,1000000000:11", red))
		c.Case(true, fmt.Sprintf("rd %s 250000000 | i+ 250000000:2,1250000000:3 | i+ 500000000:7,1250000000:9 | i+ 750000000:1,1250000000:5", red))
		c.Case(true, fmt.Sprintf("rd %s 1000000 | i+ 0:1,1000000:2,3000000:3 | i+ 0:5,2000000:7,3000000:9", red))
	}
	// large integers (above 2^53): integer sum / min / max / count stay exact (no detour through float64)
	for _, base := range []int64{1 << 53, (1 << 60) + 1, -(1 << 55) - 3} {
		for _, red := range []string{"sum", "min", "max"} {
			c.Case(true, fmt.Sprintf("ar %s i %d | 0:%d,600000000000:%d,1200000000000:%d,%d:%d,%d:%d", red, hourNs1415,
				base+1, base+2, base+3, hourNs1415, base+5, hourNs1415+7e9, base+4))
			c.Case(true, fmt.Sprintf("mm %s i | %d,%d,%d", map[string]string{"sum": "max", "min": "min", "max": "max"}[red], base+1, base+3, base+2))
		}
		for _, red := range []string{"sum", "min", "max", "count"} {
			c.Case(true, fmt.Sprintf("rf %s all | 0i+,1i+,2i+ | %d,%d,%d;%d,%d,%d", red, base+1, base+2, base+3, base+7, base+6, base+5))
			c.Case(true, fmt.Sprintf("rd %s %d | i+ 0:%d,3600000000000:%d | i+ 0:%d,3600000000000:%d", red, hourNs1415, base+1, base+3, base+2, base+5))
		}
	}
	// integers more than MaxInt64 apart: min / max must compare, not subtract
	for _, row := range [][]int64{{9223372036854775807, -2}, {-9223372036854775808, 1}, {6000000000000000000, -6000000000000000000},
		{1, 6000000000000000000, -6000000000000000000, 0}, {-2, 9223372036854775807, -9223372036854775808}} {
		var vs, fs []string
		for i, v := range row {
			vs = append(vs, fmt.Sprintf("%d", v))
			fs = append(fs, fmt.Sprintf("%di+", i))
		}
		for _, red := range []string{"min", "max", "count"} {
			c.Case(true, fmt.Sprintf("rf %s all | %s | %s", red, strings.Join(fs, ","), strings.Join(vs, ",")))
			var dss []string
			for _, v := range row {
				dss = append(dss, fmt.Sprintf("i+ 0:%d,3600000000000:%d", v, v))
			}
			c.Case(true, fmt.Sprintf("rd %s %d | %s", red, hourNs1415, strings.Join(dss, " | ")))
			if red != "count" {
				c.Case(true, fmt.Sprintf("mm %s i | %s", red, strings.Join(vs, ",")))
				var recs []string
				for i, v := range row {
					recs = append(recs, fmt.Sprintf("%d:%d", int64(i)*600*1e9, v))
				}
				c.Case(true, fmt.Sprintf("ar %s i %d | %s", red, hourNs1415, strings.Join(recs, ",")))
			}
		}
	}
	// seeded random: longer series, other period lengths, instants before 1970, records carried in other locations
	durs := []int64{hourNs1415, 60 * 1e9, 900 * 1e9, 86400 * 1e9, 7 * 1e9, 1000000007}
	n := c.Pick(3000, 200000)
	for i := 0; i < n; i++ {
		d := durs[c.Rng.Intn(len(durs))]
		ty := []string{"i", "f"}[c.Rng.Intn(2)]
		ln := 1 + c.Rng.Small(40)
		t := int64(c.Rng.Range(-50, 50)) * d
		if c.Rng.Intn(3) == 0 {
			t += int64(c.Rng.Intn(int(d / 1000)))
		}
		var recs []string
		for j := 0; j < ln; j++ {
			if j > 0 {
				switch c.Rng.Intn(6) {
				case 0:
					// same instant again (still sorted)
				case 1:
					t += d * int64(c.Rng.Range(1, 3))
				case 2:
					t += d - fmod1415(t, d) - 1 + int64(c.Rng.Intn(3)) // around the next boundary
				default:
					t += int64(c.Rng.Intn(int(d/4))) + 1
				}
			}
			loc := ""
			if c.Rng.Intn(4) == 0 {
				loc = fmt.Sprintf("@%d", c.Rng.Intn(len(locs1415)))
			}
			recs = append(recs, fmt.Sprintf("%d%s:%s", t, loc, rndVal1415(c.Rng, ty)))
		}
		c.Case(ln >= 2, fmt.Sprintf("ar %s %s %d | %s", reds[c.Rng.Intn(4)], ty, d, strings.Join(recs, ",")))
	}
}

func genMm1415(c *Ctx) {
	ops := []string{"min", "max", "minlazy", "maxlazy"}
	maxLen := c.Pick(4, 6)
	var rec func(cur []int)
	rec = func(cur []int) {
		for _, ty := range []string{"i", "f"} {
			vs := make([]string, len(cur))
			for i, k := range cur {
				vs[i] = valTxt1415(ty, k)
			}
			txt := "-"
			if len(vs) > 0 {
				txt = strings.Join(vs, ",")
			}
			for _, op := range ops {
				for _, src := range []string{"", "@ch", "@cur"} {
					c.Case(len(cur) >= 2, fmt.Sprintf("mm %s%s %s | %s", op, src, ty, txt))
				}
			}
		}
		if len(cur) >= maxLen {
			return
		}
		for k := 0; k < 4; k++ {
			rec(append(cur, k))
		}
	}
	rec(nil)
	n := c.Pick(1500, 100000)
	for i := 0; i < n; i++ {
		ty := []string{"i", "f"}[c.Rng.Intn(2)]
		ln := c.Rng.Small(30)
		vs := make([]string, ln)
		for j := range vs {
			vs[j] = rndVal1415(c.Rng, ty)
		}
		txt := "-"
		if ln > 0 {
			txt = strings.Join(vs, ",")
		}
		c.Case(ln >= 2, fmt.Sprintf("mm %s%s %s | %s", ops[c.Rng.Intn(4)], []string{"", "@ch", "@cur"}[c.Rng.Intn(3)], ty, txt))
	}
}

var reds1415 = []string{"sum", "avg", "min", "max", "count"}

func genRf1415(c *Ctx) {
	// exhaustive: 1..4 fields, every {i,f} typing, every non-empty selection + "all", 5 reductions, 2 random rows
	for nf := 1; nf <= 4; nf++ {
		for typing := 0; typing < 1<<nf; typing++ {
			fields := make([]string, nf)
			tys := make([]string, nf)
			for i := 0; i < nf; i++ {
				tys[i] = []string{"i", "f"}[typing>>i&1]
				fields[i] = fmt.Sprintf("%d%s+", i, tys[i])
			}
			for selMask := 0; selMask < 1<<nf; selMask++ {
				sel := "all"
				nsel := nf
				if selMask > 0 {
					var us []string
					for i := 0; i < nf; i++ {
						if selMask>>i&1 == 1 {
							us = append(us, strconv.Itoa(i))
						}
					}
					sel = strings.Join(us, ",")
					nsel = len(us)
				}
				var rows []string
				for r := 0; r < 2; r++ {
					cells := make([]string, nf)
					for i := range cells {
						cells[i] = rndVal1415(c.Rng, tys[i])
					}
					rows = append(rows, strings.Join(cells, ","))
				}
				for _, red := range reds1415 {
					c.Case(nsel >= 2, fmt.Sprintf("rf %s %s | %s | %s", red, sel, strings.Join(fields, ","), strings.Join(rows, ";")))
				}
			}
		}
	}
	// rejections: optional / non-numeric / unknown urn / duplicate request, and random mixes
	extra := []string{
		"rf sum all | 0i?,1i+ | 1,2",
		"rf sum all | 0i+,1i? | 1,2",
		"rf avg all | 0s+ | 1",
		"rf max all | 0b+,1i+ | 1,2",
		"rf min 1 | 0t+,1f+ | 1,3ff0000000000000",
		"rf count 0,7 | 0i+,1i+ | 1,2",
		"rf sum 7 | 0i+ | 1",
		"rf sum 0,0,1 | 0i+,1i+ | 1,2",
		"rf sum - | 0i+ | 1",
		"rf sum 1 | 0i+,1i+,1i+ | 1,2,3",
		"rf sum all | 0i+,1i+ | -",
	}
	for _, e := range extra {
		c.Case(true, e)
	}
	n := c.Pick(1500, 100000)
	dts := []string{"i", "i", "i", "f", "f", "f", "s", "b", "t"}
	for i := 0; i < n; i++ {
		nf := c.Rng.Range(1, 6)
		uniform := c.Rng.Intn(3) > 0
		base := dts[c.Rng.Intn(6)]
		fields := make([]string, nf)
		tys := make([]string, nf)
		for j := 0; j < nf; j++ {
			tys[j] = base
			if !uniform {
				tys[j] = dts[c.Rng.Intn(len(dts))]
			}
			req := "+"
			if c.Rng.Intn(12) == 0 {
				req = "?"
			}
			fields[j] = fmt.Sprintf("%d%s%s", j, tys[j], req)
		}
		sel := "all"
		if c.Rng.Bool() {
			var us []string
			for j := 0; j < nf; j++ {
				if c.Rng.Bool() {
					us = append(us, strconv.Itoa(j))
				}
			}
			if c.Rng.Intn(15) == 0 {
				us = append(us, strconv.Itoa(nf+3))
			}
			if len(us) > 0 {
				sel = strings.Join(us, ",")
			}
		}
		nr := c.Rng.Range(0, 3)
		var rows []string
		for r := 0; r < nr; r++ {
			cells := make([]string, nf)
			for j := range cells {
				t := tys[j]
				if t != "f" {
					t = "i"
				}
				cells[j] = rndVal1415(c.Rng, t)
			}
			rows = append(rows, strings.Join(cells, ","))
		}
		rowsTxt := "-"
		if nr > 0 {
			rowsTxt = strings.Join(rows, ";")
		}
		c.Case(nf >= 2 && nr > 0, fmt.Sprintf("rf %s %s | %s | %s", reds1415[c.Rng.Intn(5)], sel, strings.Join(fields, ","), rowsTxt))
	}
}

func genRd1415(c *Ctx) {
	// exhaustive: k = 1..3 (thorough 4) datasources, each present in any subset of 3 aligned slots (records on the
	// boundaries, so alignment keeps them), 5 reductions x {integer, decimal}; values drawn from the mixed-sign alphabets
	maxK := c.Pick(3, 4)
	for k := 1; k <= maxK; k++ {
		total := 1
		for i := 0; i < k; i++ {
			total *= 8
		}
		for combo := 0; combo < total; combo++ {
			for _, ty := range []string{"i", "f"} {
				var dsTxt []string
				x := combo
				for i := 0; i < k; i++ {
					pres := x % 8
					x /= 8
					var recs []string
					for slot := 0; slot < 3; slot++ {
						if pres>>slot&1 == 1 {
							recs = append(recs, fmt.Sprintf("%d:%s", int64(slot)*hourNs1415, valTxt1415(ty, c.Rng.Intn(4))))
						}
					}
					rt := "-"
					if len(recs) > 0 {
						rt = strings.Join(recs, ",")
					}
					dsTxt = append(dsTxt, fmt.Sprintf("%s+ %s", ty, rt))
				}
				for _, red := range reds1415 {
					c.Case(true, fmt.Sprintf("rd %s %d | %s", red, hourNs1415, strings.Join(dsTxt, " | ")))
				}
			}
		}
	}
	// every declaration of 1..2 datasources over {i,f,s} x {required, optional}: acceptance / rejection and result types
	decl := []string{"i+", "i?", "f+", "f?", "s+", "s?"}
	recFor := func(d string) string {
		if d[0] == 'f' {
			return fmt.Sprintf("0:%s,%d:%s", fbits1415(-2.5), hourNs1415, fbits1415(4))
		}
		return fmt.Sprintf("0:-7,%d:3", hourNs1415)
	}
	for _, red := range reds1415 {
		c.Case(false, fmt.Sprintf("rd %s %d", red, hourNs1415))
		for _, a := range decl {
			c.Case(true, fmt.Sprintf("rd %s %d | %s %s", red, hourNs1415, a, recFor(a)))
			for _, b := range decl {
				c.Case(true, fmt.Sprintf("rd %s %d | %s %s | %s %s", red, hourNs1415, a, recFor(a), b, recFor(b)))
			}
		}
	}
	// seeded random: 1..5 datasources, several records per period, off the boundaries (interpolated alignment),
	// gaps, other period lengths, other locations
	durs := []int64{hourNs1415, 900 * 1e9, 60 * 1e9, 86400 * 1e9}
	n := c.Pick(2500, 150000)
	for i := 0; i < n; i++ {
		d := durs[c.Rng.Intn(len(durs))]
		ty := []string{"i", "f"}[c.Rng.Intn(2)]
		k := c.Rng.Range(1, 5)
		if c.Rng.Intn(5) == 0 {
			k = 1
		}
		base := int64(c.Rng.Range(-20, 20)) * d
		// a common set of periods (with gaps); every datasource has records in most of them
		np := c.Rng.Range(1, 6)
		periods := make([]int64, np)
		cur := base
		for x := range periods {
			periods[x] = cur
			cur += d * int64(1+c.Rng.Intn(5)/4)
		}
		var dsTxt []string
		for j := 0; j < k; j++ {
			var recs []string
			for _, ps := range periods {
				if c.Rng.Intn(6) == 0 {
					continue
				}
				cnt := 1 + c.Rng.Intn(3)
				off := int64(0)
				if c.Rng.Intn(3) > 0 {
					off = int64(c.Rng.Intn(int(d/1e9/2))) * 1e9
				}
				for x := 0; x < cnt && off < d; x++ {
					loc := ""
					if c.Rng.Intn(5) == 0 {
						loc = fmt.Sprintf("@%d", c.Rng.Intn(len(locs1415)))
					}
					recs = append(recs, fmt.Sprintf("%d%s:%s", ps+off, loc, rndVal1415(c.Rng, ty)))
					off += int64(c.Rng.Intn(int(d/1e9/4))) * 1e9 // 0 = the same instant again (still sorted)
				}
			}
			rt := "-"
			if len(recs) > 0 {
				rt = strings.Join(recs, ",")
			}
			dsTxt = append(dsTxt, fmt.Sprintf("%s+ %s", ty, rt))
		}
		c.Case(k >= 2, fmt.Sprintf("rd %s %d | %s", reds1415[c.Rng.Intn(5)], d, strings.Join(dsTxt, " | ")))
	}
}
