package run

// C17, case kind M: custom-metadata MAPS of field metadata (planning time).
//
//	M <seq|join> src=<cm>,<cm>,... | <chain P> | <chain Q>
//	    cm    := "-" nil map | "e" empty non-nil map | k:v+k:v...   (key k is the string "k<k>", value the int v)
//	    chain := "-" | stage.stage...
//	    stage := A<item> AppendFieldFilter | S<item>;<item>.. SelectFieldsFilter | R<idx>=<item> ReplaceFieldFilter(field idx)
//	    item  := <expr>@<cm>         cm = AddFieldMeta.CustomMeta of the new field
//	    expr  := r<idx> ref to field idx of the fields available to the stage (select: incoming ++ selected so far)
//	           | c<int>~<cm> constant whose ValueMeta carries CustomMeta cm | x(<expr>,<expr>) numeric expression (+)
//	    The caller makes ONE Go map per non-nil cm, in textual order (source fields, chain P, chain Q): caller map i.
//	    One shared static source (fields s0.. with the src maps, 2 rows).
//	    seq : P planned and collected, Q planned and collected, P planned again (same filter objects).
//	          observation "P=<fields> Q=<fields> P'=<fields> P2=<fields> u=<1|0:changed caller maps>":
//	          P= is formatted right after P ran, Q= after Q ran, P'= is P's FIRST result formatted again after Q ran.
//	    join: P and Q are the sides of an inner JoinDatasource; "J=<fields> J'=<fields> J2=<fields> u=": J= after the first
//	          Execute, J' the first result again after the second Execute, J2 the second result.
//	    field := "n" nil | {k:v+..}#c<i> the caller's map object i itself | {k:v+..}#f<j> a map object made by the
//	          library (j = order of first appearance in the observation).
//	    u compares every caller map with a copy taken when it was made.

import (
	"context"
	"fmt"
	"reflect"
	"runtime"
	"sort"
	"strconv"
	"strings"
	"time"

	"github.com/shpandrak/shpanstream/stream"
	"github.com/shpandrak/shpanstream/utils/timeseries"
	"github.com/shpandrak/shpanstream/utils/timeseries/tsquery"
	"github.com/shpandrak/shpanstream/utils/timeseries/tsquery/report"
)

type c17CM struct {
	isNil bool
	kv    [][2]int
}

type c17MExpr struct {
	kind byte // r c x
	n    int
	cm   c17CM
	a, b *c17MExpr
}

type c17MItem struct {
	e  *c17MExpr
	cm c17CM
}

type c17MStage struct {
	kind  byte // A S R
	idx   int
	items []c17MItem
}

func c17ParseCM(s string) (c17CM, bool) {
	switch s {
	case "-":
		return c17CM{isNil: true}, true
	case "e":
		return c17CM{}, true
	}
	var out c17CM
	for _, t := range strings.Split(s, "+") {
		ks, vs, ok := strings.Cut(t, ":")
		k, e1 := strconv.Atoi(ks)
		v, e2 := strconv.Atoi(vs)
		if !ok || e1 != nil || e2 != nil || k < 0 {
			return c17CM{}, false
		}
		out.kv = append(out.kv, [2]int{k, v})
	}
	return out, true
}

func c17IsCMChar(c byte) bool {
	return (c >= '0' && c <= '9') || c == ':' || c == '+' || c == '-' || c == 'e'
}

func c17Digits(s string) (int, string, bool) {
	i := 0
	for i < len(s) && s[i] >= '0' && s[i] <= '9' {
		i++
	}
	if i == 0 {
		return 0, s, false
	}
	n, err := strconv.Atoi(s[:i])
	return n, s[i:], err == nil
}

func c17ParseMExpr(s string, depth int) (*c17MExpr, string, bool) {
	if depth > 32 || s == "" {
		return nil, s, false
	}
	switch s[0] {
	case 'r':
		n, rest, ok := c17Digits(s[1:])
		return &c17MExpr{kind: 'r', n: n}, rest, ok
	case 'c':
		n, rest, ok := c17Digits(s[1:])
		if !ok || rest == "" || rest[0] != '~' {
			return nil, s, false
		}
		rest = rest[1:]
		i := 0
		for i < len(rest) && c17IsCMChar(rest[i]) {
			i++
		}
		cm, ok := c17ParseCM(rest[:i])
		return &c17MExpr{kind: 'c', n: n, cm: cm}, rest[i:], ok
	case 'x':
		if len(s) < 2 || s[1] != '(' {
			return nil, s, false
		}
		a, rest, ok := c17ParseMExpr(s[2:], depth+1)
		if !ok || rest == "" || rest[0] != ',' {
			return nil, s, false
		}
		b, rest, ok := c17ParseMExpr(rest[1:], depth+1)
		if !ok || rest == "" || rest[0] != ')' {
			return nil, s, false
		}
		return &c17MExpr{kind: 'x', a: a, b: b}, rest[1:], true
	}
	return nil, s, false
}

func c17ParseMItem(s string) (c17MItem, bool) {
	e, rest, ok := c17ParseMExpr(s, 0)
	if !ok || rest == "" || rest[0] != '@' {
		return c17MItem{}, false
	}
	cm, ok := c17ParseCM(rest[1:])
	return c17MItem{e: e, cm: cm}, ok
}

func c17ParseMChain(s string) ([]c17MStage, bool) {
	s = strings.TrimSpace(s)
	if s == "-" {
		return nil, true
	}
	var out []c17MStage
	for _, t := range strings.Split(s, ".") {
		if t == "" {
			return nil, false
		}
		switch t[0] {
		case 'A':
			it, ok := c17ParseMItem(t[1:])
			if !ok {
				return nil, false
			}
			out = append(out, c17MStage{kind: 'A', items: []c17MItem{it}})
		case 'S':
			var its []c17MItem
			for _, x := range strings.Split(t[1:], ";") {
				it, ok := c17ParseMItem(x)
				if !ok {
					return nil, false
				}
				its = append(its, it)
			}
			out = append(out, c17MStage{kind: 'S', items: its})
		case 'R':
			idx, rest, ok := c17Digits(t[1:])
			if !ok || rest == "" || rest[0] != '=' {
				return nil, false
			}
			it, ok := c17ParseMItem(rest[1:])
			if !ok {
				return nil, false
			}
			out = append(out, c17MStage{kind: 'R', idx: idx, items: []c17MItem{it}})
		default:
			return nil, false
		}
	}
	return out, true
}

// the caller's maps, in the order they were made
type c17CallerMaps struct {
	maps  []map[string]any
	snaps []map[string]any
}

func (cm *c17CallerMaps) mk(lit c17CM) map[string]any {
	if lit.isNil {
		return nil
	}
	m := make(map[string]any)
	snap := make(map[string]any)
	for _, kv := range lit.kv {
		m["k"+strconv.Itoa(kv[0])] = kv[1]
		snap["k"+strconv.Itoa(kv[0])] = kv[1]
	}
	cm.maps = append(cm.maps, m)
	cm.snaps = append(cm.snaps, snap)
	return m
}

func (cm *c17CallerMaps) unchanged() string {
	var bad []string
	for i, m := range cm.maps {
		same := len(m) == len(cm.snaps[i])
		for k, v := range cm.snaps[i] {
			if w, ok := m[k]; !ok || w != v {
				same = false
			}
		}
		if !same {
			bad = append(bad, "c"+strconv.Itoa(i))
		}
	}
	if len(bad) == 0 {
		return "u=1"
	}
	return "u=0:" + strings.Join(bad, ",")
}

func c17MValue(e *c17MExpr, avail []string, cms *c17CallerMaps) (report.Value, error) {
	switch e.kind {
	case 'r':
		if e.n >= len(avail) {
			return nil, fmt.Errorf("ref out of range")
		}
		return report.NewRefFieldValue(avail[e.n]), nil
	case 'c':
		return report.NewConstantFieldValue(tsquery.ValueMeta{DataType: tsquery.DataTypeInteger, Required: true, CustomMeta: cms.mk(e.cm)}, int64(e.n)), nil
	}
	a, err := c17MValue(e.a, avail, cms)
	if err != nil {
		return nil, err
	}
	b, err := c17MValue(e.b, avail, cms)
	if err != nil {
		return nil, err
	}
	return report.NewNumericExpressionFieldValue(a, tsquery.BinaryNumericOperatorAdd, b), nil
}

// filters of a chain (the caller's maps are made here, in textual order) and the urns of its result
func c17MFilters(chain []c17MStage, urns []string, tag string, cms *c17CallerMaps) ([]report.Filter, []string, error) {
	cur := append([]string(nil), urns...)
	var fs []report.Filter
	for si, st := range chain {
		switch st.kind {
		case 'A', 'R':
			it := st.items[0]
			val, err := c17MValue(it.e, cur, cms)
			if err != nil {
				return nil, nil, err
			}
			urn := fmt.Sprintf("%s%d", tag, si)
			meta := tsquery.AddFieldMeta{Urn: urn, CustomMeta: cms.mk(it.cm)}
			if st.kind == 'A' {
				fs = append(fs, report.NewAppendFieldFilter(val, meta))
				cur = append(append([]string(nil), cur...), urn)
			} else {
				if st.idx >= len(cur) {
					return nil, nil, fmt.Errorf("replace out of range")
				}
				fs = append(fs, report.NewReplaceFieldFilter(cur[st.idx], val, meta))
				cur = append([]string(nil), cur...)
				cur[st.idx] = urn
			}
		case 'S':
			var sel []report.SelectedField
			var nu []string
			for j, it := range st.items {
				avail := append(append([]string(nil), cur...), nu...)
				val, err := c17MValue(it.e, avail, cms)
				if err != nil {
					return nil, nil, err
				}
				urn := fmt.Sprintf("%s%d_%d", tag, si, j)
				sel = append(sel, report.SelectedField{Value: val, Meta: tsquery.AddFieldMeta{Urn: urn, CustomMeta: cms.mk(it.cm)}})
				nu = append(nu, urn)
			}
			fs = append(fs, report.NewSelectFieldsFilter(sel))
			cur = nu
		}
	}
	return fs, cur, nil
}

// names map objects: caller map i -> c<i>, anything else -> f<order of first appearance>
type c17MapNamer struct {
	caller map[uintptr]int
	fresh  map[uintptr]int
}

func c17NewNamer(cms *c17CallerMaps) *c17MapNamer {
	n := &c17MapNamer{caller: map[uintptr]int{}, fresh: map[uintptr]int{}}
	for i, m := range cms.maps {
		n.caller[reflect.ValueOf(m).Pointer()] = i
	}
	return n
}

func (n *c17MapNamer) field(m map[string]any) string {
	if m == nil {
		return "n"
	}
	type kv struct {
		k int
		v string
	}
	var kvs []kv
	for k, v := range m {
		ki, err := strconv.Atoi(strings.TrimPrefix(k, "k"))
		if err != nil {
			ki = -1
		}
		kvs = append(kvs, kv{ki, fmt.Sprint(v)})
	}
	sort.Slice(kvs, func(i, j int) bool { return kvs[i].k < kvs[j].k })
	parts := make([]string, len(kvs))
	for i, x := range kvs {
		parts[i] = fmt.Sprintf("%d:%s", x.k, x.v)
	}
	p := reflect.ValueOf(m).Pointer()
	tag := ""
	if i, ok := n.caller[p]; ok {
		tag = "c" + strconv.Itoa(i)
	} else {
		j, ok := n.fresh[p]
		if !ok {
			j = len(n.fresh)
			n.fresh[p] = j
		}
		tag = "f" + strconv.Itoa(j)
	}
	return "{" + strings.Join(parts, "+") + "}#" + tag
}

func (n *c17MapNamer) fields(meta []tsquery.FieldMeta) string {
	if len(meta) == 0 {
		return "-"
	}
	parts := make([]string, len(meta))
	for i, f := range meta {
		parts[i] = n.field(f.CustomMeta())
	}
	return strings.Join(parts, ",")
}

func c17ExecM(text string) string {
	parts := strings.Split(text, " | ")
	if len(parts) != 3 {
		return "bad-case"
	}
	hf := strings.Fields(parts[0])
	if len(hf) != 2 || !strings.HasPrefix(hf[1], "src=") {
		return "bad-case"
	}
	mode := hf[0]
	chP, ok1 := c17ParseMChain(parts[1])
	chQ, ok2 := c17ParseMChain(parts[2])
	if !ok1 || !ok2 || (mode != "seq" && mode != "join") {
		return "bad-case"
	}
	cms := &c17CallerMaps{}
	var meta []tsquery.FieldMeta
	var urns []string
	for j, t := range strings.Split(strings.TrimPrefix(hf[1], "src="), ",") {
		lit, ok := c17ParseCM(t)
		if !ok {
			return "bad-case"
		}
		urn := fmt.Sprintf("s%d", j)
		fm, err := tsquery.NewFieldMetaWithCustomData(urn, tsquery.DataTypeInteger, true, "", cms.mk(lit))
		if err != nil {
			return "bad-case"
		}
		meta = append(meta, *fm)
		urns = append(urns, urn)
	}
	if len(meta) == 0 || len(meta) > 16 {
		return "bad-case"
	}
	var recs []timeseries.TsRecord[[]any]
	for i := 0; i < 2; i++ {
		row := make([]any, len(meta))
		for j := range row {
			row[j] = int64(100*i + j + 1)
		}
		recs = append(recs, timeseries.TsRecord[[]any]{Timestamp: c17Base.Add(time.Duration(i) * time.Second), Value: row})
	}
	fP, _, err := c17MFilters(chP, urns, "p", cms)
	if err != nil {
		return "bad-case"
	}
	fQ, _, err := c17MFilters(chQ, urns, "q", cms)
	if err != nil {
		return "bad-case"
	}
	namer := c17NewNamer(cms)
	mkds := func() report.DataSource {
		ds, err := report.NewStaticDatasource(meta, stream.FromSlice(recs))
		if err != nil {
			panic(err)
		}
		return ds
	}
	ctx := context.Background()
	from, to := c17Base, c17Base.Add(time.Hour)
	run := func(ds report.DataSource, what string) (report.Result, string) {
		res, err := ds.Execute(ctx, from, to)
		if err != nil {
			return res, "err exec" + what
		}
		if _, err := res.Stream().Collect(ctx); err != nil {
			return res, "err collect" + what
		}
		return res, ""
	}
	switch mode {
	case "seq":
		ds := mkds()
		dsP, dsQ := c17Wrap(c17NewPool(), ds, fP), c17Wrap(c17NewPool(), ds, fQ)
		resP, e := run(dsP, "P")
		if e != "" {
			return e
		}
		sP := namer.fields(resP.FieldsMeta())
		resQ, e := run(dsQ, "Q")
		if e != "" {
			return e
		}
		sQ := namer.fields(resQ.FieldsMeta())
		sP1 := namer.fields(resP.FieldsMeta())
		resP2, e := run(dsP, "P2")
		if e != "" {
			return e
		}
		sP2 := namer.fields(resP2.FieldsMeta())
		out := fmt.Sprintf("P=%s Q=%s P'=%s P2=%s %s", sP, sQ, sP1, sP2, cms.unchanged())
		runtime.KeepAlive(resP)
		runtime.KeepAlive(resQ)
		runtime.KeepAlive(resP2)
		return out
	default:
		var j report.DataSource = report.NewJoinDatasource(report.NewListMultiDatasource(
			[]report.DataSource{c17Wrap(c17NewPool(), mkds(), fP), c17Wrap(c17NewPool(), mkds(), fQ)}), report.InnerJoin)
		res1, e := run(j, "J")
		if e != "" {
			return e
		}
		s1 := namer.fields(res1.FieldsMeta())
		res2, e := run(j, "J2")
		if e != "" {
			return e
		}
		s1b := namer.fields(res1.FieldsMeta())
		s2 := namer.fields(res2.FieldsMeta())
		out := fmt.Sprintf("J=%s J'=%s J2=%s %s", s1, s1b, s2, cms.unchanged())
		runtime.KeepAlive(res1)
		runtime.KeepAlive(res2)
		return out
	}
}

// ---------------------------------------------------------------------------------------------
// generator
// ---------------------------------------------------------------------------------------------

func c17EmitM(c *Ctx, mode, src, p, q string) {
	// non-trivial: some source field carries a map and some new field whose value refers to fields can meet it with a
	// second map (its AddFieldMeta map, or the other operand of a numeric expression)
	srcHas := false
	for _, t := range strings.Split(src, ",") {
		if t != "-" {
			srcHas = true
		}
	}
	second := false
	for _, ch := range []string{p, q} {
		for _, st := range strings.Split(ch, ".") {
			for _, it := range strings.Split(st, ";") {
				i := strings.LastIndexByte(it, '@')
				if i < 0 {
					continue
				}
				e, cm := it[:i], it[i+1:]
				if j := strings.IndexByte(e, '='); j >= 0 {
					e = e[j+1:]
				} else if len(e) > 0 {
					e = e[1:]
				}
				if strings.ContainsRune(e, 'r') && (cm != "-" || strings.Contains(e, "x(")) {
					second = true
				}
			}
		}
	}
	c.Case(srcHas && second && (p != "-" || q != "-"), fmt.Sprintf("M %s src=%s | %s | %s", mode, src, p, q))
}

// stage alphabet of the exhaustive scope for rows of width wd (>= 2); full = the larger alphabet
func c17MAlphabet(wd int, full bool) (all []string, selects []string) {
	vals := []string{"r0", "r1", "x(r0,r1)", "x(r1,r0)", "c7~4:4", "c7~-", "x(r0,c7~4:4)"}
	cms := []string{"-", "e", "3:1", "1:9"}
	if !full {
		vals = []string{"r0", "x(r0,r1)", "c7~4:4"}
		cms = []string{"-", "3:1", "1:9"}
	}
	for _, v := range vals {
		for _, cm := range cms {
			all = append(all, "A"+v+"@"+cm)
		}
	}
	for _, v := range []string{"r0", "x(r0,r1)"} {
		for _, cm := range []string{"-", "3:1"} {
			all = append(all, "R1="+v+"@"+cm)
		}
	}
	for _, v := range []string{"r0", "c7~4:4"} {
		for _, cc := range [][2]string{{"-", "3:1"}, {"3:1", "-"}, {"1:9", "3:1"}} {
			s := fmt.Sprintf("S%s@%s;x(r%d,r0)@%s", v, cc[0], wd, cc[1])
			all = append(all, s)
			selects = append(selects, s)
		}
	}
	return
}

func c17MWidthAfter(stage string, wd int) int {
	switch stage[0] {
	case 'A':
		return wd + 1
	case 'S':
		return strings.Count(stage, ";") + 1
	}
	return wd
}

func genC17M(c *Ctx) {
	srcs := []string{"1:5,1:6+2:7", "1:5,-", "e,1:5"}
	if c.Thorough {
		srcs = append(srcs, "-,1:6", "-,-")
	}
	one, sels := c17MAlphabet(2, true)
	withEmpty := append([]string{"-"}, one...)
	// exhaustive: every pair of chains of length <= 1 over the full alphabet, every source configuration;
	// join when Q is a select (so the sides have no common urn)
	for _, src := range srcs {
		for _, p := range withEmpty {
			for _, q := range withEmpty {
				c17EmitM(c, "seq", src, p, q)
			}
			for _, q := range sels {
				c17EmitM(c, "join", src, p, q)
			}
		}
	}
	// chains of two stages for P (second stage over the width the first one leaves) against one-stage Qs
	first, _ := c17MAlphabet(2, c.Thorough)
	qs := []string{"-", "Ar0@3:1", "Ax(r1,r0)@1:9", sels[2]}
	if c.Thorough {
		qs = withEmpty
	}
	for si, src := range srcs {
		if !c.Thorough && si > 0 {
			break
		}
		for _, a := range first {
			second, _ := c17MAlphabet(c17MWidthAfter(a, 2), c.Thorough)
			for _, b := range second {
				for _, q := range qs {
					c17EmitM(c, "seq", src, a+"."+b, q)
				}
			}
		}
	}
	// seeded random larger ones: 1..4 source fields, chains of up to 4 stages, expressions of depth <= 3
	cnt := c.Pick(400, 15000)
	for i := 0; i < cnt; i++ {
		randCM := func() string {
			switch c.Rng.Intn(5) {
			case 0:
				return "-"
			case 1:
				return "e"
			}
			n := c.Rng.Range(1, 3)
			seen := map[int]bool{}
			var parts []string
			for len(parts) < n {
				k := c.Rng.Intn(6)
				if seen[k] {
					continue
				}
				seen[k] = true
				parts = append(parts, fmt.Sprintf("%d:%d", k, c.Rng.Intn(10)))
			}
			return strings.Join(parts, "+")
		}
		var randExpr func(avail, depth int) string
		randExpr = func(avail, depth int) string {
			r := c.Rng.Intn(6)
			switch {
			case depth > 0 && r < 2:
				return "x(" + randExpr(avail, depth-1) + "," + randExpr(avail, depth-1) + ")"
			case r == 2:
				return fmt.Sprintf("c%d~%s", c.Rng.Intn(20), randCM())
			}
			return fmt.Sprintf("r%d", c.Rng.Intn(avail))
		}
		randChain := func(wd int, mustSelect bool) string {
			var st []string
			n := c.Rng.Intn(5)
			if mustSelect && n == 0 {
				n = 1
			}
			for s := 0; s < n; s++ {
				k := c.Rng.Intn(5)
				if mustSelect && s == n-1 {
					k = 4
				}
				switch k {
				case 0, 1:
					st = append(st, "A"+randExpr(wd, 3)+"@"+randCM())
					wd++
				case 2:
					st = append(st, fmt.Sprintf("R%d=%s@%s", c.Rng.Intn(wd), randExpr(wd, 2), randCM()))
				default:
					m := c.Rng.Range(1, 3)
					var its []string
					for j := 0; j < m; j++ {
						its = append(its, randExpr(wd+j, 2)+"@"+randCM())
					}
					st = append(st, "S"+strings.Join(its, ";"))
					wd = m
				}
			}
			if len(st) == 0 {
				return "-"
			}
			return strings.Join(st, ".")
		}
		w := c.Rng.Range(1, 4)
		var src []string
		for j := 0; j < w; j++ {
			src = append(src, randCM())
		}
		mode := "seq"
		if c.Rng.Intn(4) == 0 {
			mode = "join"
		}
		c17EmitM(c, mode, strings.Join(src, ","), randChain(w, false), randChain(w, mode == "join"))
	}
}
