package run

import (
	"cmp"
	"context"
	"fmt"
	"strconv"
	"strings"

	"github.com/shpandrak/shpanstream/stream"
)

// C08: MergeSortedStreams over tagged elements (key, tag); the comparator looks at the key only,
// the globally unique tag makes ties and stability observable.
// case := "<head> | <in> | <in> ..."   in := "-" | "key:tag,key:tag,..."
// head := "merge" (cmp.Compare) | "mergeD" (difference comparator a.K-b.K) | "mergeS" (7*sign): the property holds for
// every legal three-way comparator, not only for those that answer -1/0/+1

type kt struct {
	K int64
	T int
}

func fmtKts(l []kt) string {
	if len(l) == 0 {
		return "-"
	}
	parts := make([]string, len(l))
	for i, e := range l {
		parts[i] = fmt.Sprintf("%d:%d", e.K, e.T)
	}
	return strings.Join(parts, ",")
}

func parseKts(s string) ([]kt, error) {
	if s == "-" {
		return nil, nil
	}
	var out []kt
	for _, p := range strings.Split(s, ",") {
		a, b, ok := strings.Cut(p, ":")
		if !ok {
			return nil, fmt.Errorf("bad elem %q", p)
		}
		k, err := strconv.ParseInt(a, 10, 64)
		if err != nil {
			return nil, err
		}
		t, err := strconv.Atoi(b)
		if err != nil {
			return nil, err
		}
		out = append(out, kt{k, t})
	}
	return out, nil
}

func errClass(err error) string {
	if err == nil {
		return "nil"
	}
	return "err " + strings.ReplaceAll(err.Error(), "\n", " ")
}

func init() {
	Register("C08", Family{Gen: genC08, Exec: execC08})
}

func execC08(caseText string) string {
	parts := strings.Split(caseText, " | ")
	if len(parts) < 1 {
		return "bad-case"
	}
	var cmpf func(a, b kt) int
	if strings.TrimSpace(parts[0]) == "mergeZ" {
		// elements of a zero-size type (all equal under any comparator): only their number is observable
		var zs []stream.Stream[struct{}]
		for _, p := range parts[1:] {
			l, err := parseKts(strings.TrimSpace(p))
			if err != nil {
				return "bad-case"
			}
			zs = append(zs, stream.Just(make([]struct{}, len(l))...))
		}
		res, err := stream.MergeSortedStreams(func(a, b struct{}) int { return 0 }, zs...).Collect(context.Background())
		if err != nil {
			return errClass(err)
		}
		return fmt.Sprintf("ok z%d", len(res))
	}
	switch strings.TrimSpace(parts[0]) {
	case "merge":
		cmpf = func(a, b kt) int { return cmp.Compare(a.K, b.K) }
	case "mergeD":
		cmpf = func(a, b kt) int { return int(a.K - b.K) }
	case "mergeS":
		cmpf = func(a, b kt) int { return 7 * cmp.Compare(a.K, b.K) }
	case "mergeN", "mergeR":
		// nested: the first two (mergeN) / last two (mergeR) inputs are merged first and that merged stream is one input of
		// the outer merge - a merged stream is itself a sorted stream, and it is exhausted / re-polled while the others go on
		cmpf = func(a, b kt) int { return cmp.Compare(a.K, b.K) }
	case "mergeA":
		// the inputs are passed as a slice (inputs...) which the caller re-uses for other streams afterwards: the merged
		// stream must still be the merge of the streams it was built from
		cmpf = func(a, b kt) int { return cmp.Compare(a.K, b.K) }
	default:
		return "bad-case"
	}
	var streams []stream.Stream[kt]
	for _, p := range parts[1:] {
		l, err := parseKts(strings.TrimSpace(p))
		if err != nil {
			return "bad-case"
		}
		streams = append(streams, stream.Just(l...))
	}
	if h := strings.TrimSpace(parts[0]); (h == "mergeN" || h == "mergeR") && len(streams) >= 2 {
		if h == "mergeN" {
			streams = append([]stream.Stream[kt]{stream.MergeSortedStreams(cmpf, streams[0], streams[1])}, streams[2:]...)
		} else {
			n := len(streams)
			streams = append(streams[:n-2:n-2], stream.MergeSortedStreams(cmpf, streams[n-2], streams[n-1]))
		}
	}
	merged := stream.MergeSortedStreams(cmpf, streams...)
	if strings.TrimSpace(parts[0]) == "mergeA" {
		for i := range streams {
			streams[i] = stream.Just(kt{K: int64(1000 + i), T: 9000 + i})
		}
	}
	res, err := merged.Collect(context.Background())
	if err != nil {
		return errClass(err)
	}
	return "ok " + fmtKts(res)
}

var c08n int

func emitC08(c *Ctx, ins [][]kt) {
	total := 0
	nonEmpty := 0
	for _, l := range ins {
		total += len(l)
		if len(l) > 0 {
			nonEmpty++
		}
	}
	var parts []string
	for _, l := range ins {
		parts = append(parts, fmtKts(l))
	}
	// non-trivial: at least two non-empty inputs (something to interleave)
	c08n++
	head := "merge"
	switch c08n % 8 {
	case 1, 5:
		head = "mergeD"
	case 3:
		head = "mergeS"
	case 7:
		head = "mergeA"
	}
	if c08n%16 == 8 {
		head = "mergeZ"
	}
	if c08n%16 == 2 && len(ins) >= 2 {
		head = "mergeN"
	}
	if c08n%16 == 10 && len(ins) >= 2 {
		head = "mergeR"
	}
	c.Case(nonEmpty >= 2, strings.Join(append([]string{head}, parts...), " | "))
	_ = total
}

func genC08(c *Ctx) {
	// exhaustive small scope: all tuples of k sorted sequences over keys {0,1,2}, total length bound
	maxK, maxTotal := 3, c.Pick(5, 7)
	if c.Thorough {
		maxK = 4
	}
	var seqs [][]int64 // all sorted sequences over {0,1,2} up to length maxTotal
	var build func(cur []int64, lo int64)
	build = func(cur []int64, lo int64) {
		seqs = append(seqs, append([]int64(nil), cur...))
		if len(cur) >= maxTotal {
			return
		}
		for k := lo; k <= 2; k++ {
			build(append(cur, k), k)
		}
	}
	build(nil, 0)
	var rec func(k int, chosen [][]int64, total int)
	rec = func(k int, chosen [][]int64, total int) {
		if len(chosen) == k {
			tag := 0
			ins := make([][]kt, k)
			for i, s := range chosen {
				for _, key := range s {
					ins[i] = append(ins[i], kt{key, tag})
					tag++
				}
			}
			emitC08(c, ins)
			return
		}
		for _, s := range seqs {
			if total+len(s) > maxTotal {
				continue
			}
			rec(k, append(chosen, s), total+len(s))
		}
	}
	for k := 0; k <= maxK; k++ {
		rec(k, nil, 0)
	}
	// many inputs (more than 64 / 128: index sets kept in machine words, fixed-size scratch arrays)
	for _, k := range []int{63, 64, 65, 70, 129, 260} {
		ins := make([][]kt, k)
		tag := 0
		for j := 0; j < k; j++ {
			for x := 0; x < 1+j%3; x++ {
				ins[j] = append(ins[j], kt{int64((j*7+x*5)%11 + x*11), tag})
				tag++
			}
		}
		emitC08(c, ins)
		// the same with every third input empty
		for j := 0; j < k; j += 3 {
			ins[j] = nil
		}
		emitC08(c, ins)
	}
	// seeded random larger ones
	n := c.Pick(2000, 40000)
	for i := 0; i < n; i++ {
		k := c.Rng.Range(1, 6)
		keyRange := c.Rng.Range(1, 8)
		ins := make([][]kt, k)
		tag := 0
		for j := 0; j < k; j++ {
			ln := c.Rng.Small(30)
			cur := int64(c.Rng.Range(-3, 3))
			for x := 0; x < ln; x++ {
				if c.Rng.Intn(3) > 0 {
					cur += int64(c.Rng.Intn(keyRange))
				}
				ins[j] = append(ins[j], kt{cur, tag})
				tag++
			}
		}
		emitC08(c, ins)
	}
}
