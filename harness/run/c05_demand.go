package run

// C05, "T" cases: demand of operators outside the pipeline model, observed on instrumented inputs.
//
//	T ats <n> <take>                 timeseries.AlignedTimestampsStream over n one-minute periods through a COUNTING
//	                                 AlignmentPeriod; take := "all" | <k> (Limit(k)) | "isempty" | "first"
//	    obs: build=<GetEndTime calls while the stream was built> run=<calls during the terminal> got=<elements delivered>
//	T j2i|j2l <k> | <left> | <right>  JoinSortedStreams / LeftJoinSortedStreams over counting sources, Limit(k).Collect
//	    obs: got=<rows> hl=<elements the left source handed out> hr=<… the right source>   (EOF answers are not counted)

import (
	"cmp"
	"context"
	"fmt"
	shpanstream "github.com/shpandrak/shpanstream"
	"io"
	"strconv"
	"strings"
	"time"

	"github.com/shpandrak/shpanstream/stream"
	"github.com/shpandrak/shpanstream/utils/timeseries"
)

type c05CountingPeriod struct {
	inner timeseries.AlignmentPeriod
	ends  *int
}

func (p c05CountingPeriod) GetStartTime(t time.Time) time.Time { return p.inner.GetStartTime(t) }
func (p c05CountingPeriod) GetEndTime(t time.Time) time.Time {
	*p.ends++
	if *p.ends > 1000000 {
		panic("fuse: more than 1e6 period ends computed")
	}
	return p.inner.GetEndTime(t)
}

func c05CountingSource(l []kt, handed *int) stream.Stream[kt] {
	i := 0
	return stream.NewSimpleStream(func(ctx context.Context) (kt, error) {
		if i >= len(l) {
			return kt{}, io.EOF
		}
		i++
		*handed++
		return l[i-1], nil
	})
}

func execC05Demand(caseText string) (obs string) {
	defer func() {
		if r := recover(); r != nil {
			obs = "panic " + strings.ReplaceAll(fmt.Sprint(r), " ", "_")
		}
	}()
	ctx, cancel := context.WithTimeout(context.Background(), 10*time.Second)
	defer cancel()
	parts := strings.Split(caseText, " | ")
	head := strings.Fields(parts[0])
	if len(head) < 2 {
		return "bad-case"
	}
	switch head[1] {
	case "ats":
		if len(head) != 4 {
			return "bad-case"
		}
		n, err := strconv.Atoi(head[2])
		if err != nil || n < 0 {
			return "bad-case"
		}
		ends := 0
		from := time.Date(2024, 5, 1, 10, 0, 30, 0, time.UTC)
		to := from.Truncate(time.Minute).Add(time.Duration(n) * time.Minute)
		s := timeseries.AlignedTimestampsStream(c05CountingPeriod{timeseries.NewFixedAlignmentPeriod(time.Minute, time.UTC), &ends}, from, to)
		build := ends
		got := 0
		switch head[3] {
		case "all":
			l, err := s.Collect(ctx)
			if err != nil {
				return "err"
			}
			got = len(l)
		case "isempty":
			e, err := s.IsEmpty(ctx)
			if err != nil {
				return "err"
			}
			if !e {
				got = 1
			}
		case "first":
			o, err := s.FindFirst().GetOptional(ctx)
			if err != nil {
				return "err"
			}
			if o != nil {
				got = 1
			}
		default:
			k, err := strconv.Atoi(head[3])
			if err != nil {
				return "bad-case"
			}
			l, err := s.Limit(k).Collect(ctx)
			if err != nil {
				return "err"
			}
			got = len(l)
		}
		return fmt.Sprintf("build=%d run=%d got=%d", build, ends-build, got)
	case "fi1", "fi2":
		// FromIterator / FromIterator2 over a generator of n elements that counts its steps: nothing runs when the stream is
		// built, a prefix-only terminal advances the generator by the prefix (it is stopped, not drained, at close)
		if len(head) != 4 {
			return "bad-case"
		}
		n, err := strconv.Atoi(head[2])
		if err != nil || n < 0 {
			return "bad-case"
		}
		steps := 0
		var s stream.Stream[int]
		if head[1] == "fi1" {
			s = stream.FromIterator(func(yield func(int) bool) {
				for i := 0; i < n; i++ {
					steps++
					if !yield(i) {
						return
					}
				}
			})
		} else {
			s = stream.Map(stream.FromIterator2(func(yield func(int, int) bool) {
				for i := 0; i < n; i++ {
					steps++
					if !yield(i, i*i) {
						return
					}
				}
			}), func(e shpanstream.Entry[int, int]) int { return e.Key })
		}
		build := steps
		got := 0
		switch head[3] {
		case "all":
			l, err := s.Collect(ctx)
			if err != nil {
				return "err"
			}
			got = len(l)
		case "isempty":
			e, err := s.IsEmpty(ctx)
			if err != nil {
				return "err"
			}
			if !e {
				got = 1
			}
		case "first":
			o, err := s.FindFirst().GetOptional(ctx)
			if err != nil {
				return "err"
			}
			if o != nil {
				got = 1
			}
		default:
			k, err := strconv.Atoi(head[3])
			if err != nil {
				return "bad-case"
			}
			l, err := s.Limit(k).Collect(ctx)
			if err != nil {
				return "err"
			}
			got = len(l)
		}
		return fmt.Sprintf("build=%d run=%d got=%d", build, steps-build, got)
	case "jni":
		// N-way inner join over counting sources under Limit(k)
		if len(head) != 3 || len(parts) < 2 {
			return "bad-case"
		}
		k, err := strconv.Atoi(head[2])
		if err != nil {
			return "bad-case"
		}
		handed := make([]int, len(parts)-1)
		var ins []stream.Stream[kt]
		for i, p := range parts[1:] {
			l, err := parseKts(strings.TrimSpace(p))
			if err != nil {
				return "bad-case"
			}
			ins = append(ins, c05CountingSource(l, &handed[i]))
		}
		rows, err := stream.JoinMultipleSortedStreams(ins, func(a, b kt) int { return cmp.Compare(a.K, b.K) },
			func(vs []kt) int { return len(vs) }).Limit(k).Collect(ctx)
		if err != nil {
			return "err"
		}
		hs := make([]string, len(handed))
		for i, h := range handed {
			hs[i] = strconv.Itoa(h)
		}
		return fmt.Sprintf("got=%d h=%s", len(rows), strings.Join(hs, ","))
	case "j2i", "j2l":
		if len(head) != 3 || len(parts) != 3 {
			return "bad-case"
		}
		k, err := strconv.Atoi(head[2])
		if err != nil {
			return "bad-case"
		}
		l, err1 := parseKts(strings.TrimSpace(parts[1]))
		r, err2 := parseKts(strings.TrimSpace(parts[2]))
		if err1 != nil || err2 != nil {
			return "bad-case"
		}
		hl, hr := 0, 0
		keyOf := func(e kt) int64 { return e.K }
		got := 0
		if head[1] == "j2i" {
			rows, err := stream.JoinSortedStreams(c05CountingSource(l, &hl), c05CountingSource(r, &hr), keyOf, keyOf, cmp.Compare[int64]).Limit(k).Collect(ctx)
			if err != nil {
				return "err"
			}
			got = len(rows)
		} else {
			rows, err := stream.LeftJoinSortedStreams(c05CountingSource(l, &hl), c05CountingSource(r, &hr), keyOf, keyOf, cmp.Compare[int64]).Limit(k).Collect(ctx)
			if err != nil {
				return "err"
			}
			got = len(rows)
		}
		return fmt.Sprintf("got=%d hl=%d hr=%d", got, hl, hr)
	}
	return "bad-case"
}

func genC05Demand(c *Ctx) {
	for _, n := range []int{0, 1, 2, 5, 40, 3000} {
		for _, take := range []string{"all", "isempty", "first", "0", "1", "2", "7"} {
			if take == "all" && n > 100 {
				continue
			}
			c.Case(n >= 2, fmt.Sprintf("T ats %d %s", n, take))
		}
	}
	// an effectively unbounded range: only a prefix is ever asked for
	for _, take := range []string{"isempty", "first", "3"} {
		c.Case(true, fmt.Sprintf("T ats 100000000 %s", take))
	}
	// iterator-backed sources: the generator is advanced by what the terminal takes, never walked ahead
	for _, kind := range []string{"fi1", "fi2"} {
		for _, n := range []int{0, 1, 2, 5, 40} {
			for _, take := range []string{"all", "isempty", "first", "0", "1", "2", "7"} {
				c.Case(n >= 2, fmt.Sprintf("T %s %d %s", kind, n, take))
			}
		}
		for _, take := range []string{"isempty", "first", "3"} {
			c.Case(true, fmt.Sprintf("T %s 30000000 %s", kind, take))
		}
	}
	// N-way inner join: all pairs / triples of strictly increasing inputs over {0..3} (+ one long input that lags behind),
	// every prefix length: a lagging input advances one element per round, it is not read on until it catches up
	{
		strict := c09Seqs(3, 4, 0)
		long := []int64{0, 1, 2, 3, 4, 5, 6, 7, 8, 9, 10, 11, 12, 13, 14, 15, 16, 17, 18, 19, 20}
		emitN := func(k int, ins ...[]int64) {
			tag := 0
			var parts []string
			nonEmpty := 0
			for _, ks := range ins {
				x := make([]kt, len(ks))
				for j, key := range ks {
					x[j] = kt{key, tag}
					tag++
				}
				if len(ks) > 0 {
					nonEmpty++
				}
				parts = append(parts, fmtKts(x))
			}
			c.Case(nonEmpty >= 2, fmt.Sprintf("T jni %d | %s", k, strings.Join(parts, " | ")))
		}
		for k := 0; k <= 2; k++ {
			for _, a := range strict {
				for _, b := range strict {
					emitN(k, a, b)
					emitN(k, long, a, append(append([]int64(nil), b...), 1000))
					if len(a)+len(b) <= 4 {
						for _, d := range strict {
							if len(d) <= 2 {
								emitN(k, a, b, d)
							}
						}
					}
				}
			}
		}
	}
	// two-stream joins: every non-decreasing left x strictly increasing right over {0..3}, every prefix length
	nondec := c09Seqs(3, c.Pick(3, 4), 1)
	strict := c09Seqs(3, 4, 0)
	for _, v := range []string{"j2i", "j2l"} {
		for _, l := range nondec {
			for _, r := range strict {
				for k := 0; k <= 2; k++ {
					tag := 0
					mk := func(ks []int64) string {
						x := make([]kt, len(ks))
						for j, key := range ks {
							x[j] = kt{key, tag}
							tag++
						}
						return fmtKts(x)
					}
					c.Case(len(l) > 0 || len(r) > 0, fmt.Sprintf("T %s %d | %s | %s", v, k, mk(l), mk(r)))
				}
			}
		}
	}
}
