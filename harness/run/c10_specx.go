package run

import (
	"fmt"
	"math"
	"strconv"
)

// C10, spec-only cases for the filters that are NOT in the Lean model (stand-alone aligner / aligner with fill mode
// of both packages, delta and rate filters of the datasource package):
//
//	X rep|ds <exact|mask> <from> <to> <tree>
//
// grammar of notes/C10-protocol.md plus ( align pNanos ) ( alignfill pNanos linear|forward ) [both packages] and
// ( delta nn max ) ( rate 'unit perSeconds nn max ) [datasource package].  The observation is the usual typed one
// (declared metadata + rows with the dynamic Go type of every cell); the Lean driver evaluates only C10's spec
// predicate on it and returns the observation as the model text: for these filters C10 is decided on the real code
// alone (no model, no theorem).  All inputs of X cases are schema-conforming by construction.

func execXLineX(toks []string) (obs string, inputFail bool) {
	defer func() {
		if r := recover(); r != nil {
			qDebugPanic(r)
			obs, inputFail = "planpanic", false
		}
	}()
	if len(toks) < 6 || toks[0] != "X" {
		return "bad-case", false
	}
	mode, from, to, tree, err := qParseHeader(toks[2:])
	if err != nil || (mode != "exact" && mode != "mask") {
		return "bad-case", false
	}
	b := newQBuilder()
	b.ext = true
	switch toks[1] {
	case "rep":
		ds, err := b.rds(tree)
		if err != nil {
			return qBuildErrObs(err)
		}
		return qObsReport(ds, b, mode == "mask", from, to), false
	case "ds":
		ds, err := b.dds(tree)
		if err != nil {
			return qBuildErrObs(err)
		}
		return qObsDs(ds, b, mode == "mask", from, to), false
	}
	return "bad-case", false
}

type xSeries struct {
	ts   []int64
	vals []int64 // readings in eighths for dec, units for int
}

func xCell(dt string, v int64, isNil bool) string {
	if isNil {
		return "nil"
	}
	if dt == "int" {
		return "i:" + strconv.FormatInt(v, 10)
	}
	return fmt.Sprintf("d:%016x", math.Float64bits(float64(v)/8))
}

func xDstatic(urn, dt string, req bool, s xSeries, nilEvery int) string {
	rows := []string{"rows"}
	for i, t := range s.ts {
		isNil := !req && nilEvery > 0 && i%nilEvery == nilEvery-1
		rows = append(rows, qT("r", strconv.FormatInt(t, 10), xCell(dt, s.vals[i], isNil)))
	}
	r := "0"
	if req {
		r = "1"
	}
	return qT("dstatic", qT("fm", qQ(urn), dt, r, "'", "nil"), qT(rows...))
}

func xRstatic(s xSeries, optional bool) string {
	rows := []string{"rows"}
	for i, t := range s.ts {
		oi := xCell("int", s.vals[i]*2, optional && i%3 == 1)
		od := xCell("dec", s.vals[i]*3, optional && i%4 == 2)
		rows = append(rows, qT("r", strconv.FormatInt(t, 10), xCell("int", s.vals[i], false), xCell("dec", s.vals[i], false), oi, od))
	}
	return qT("rstatic", qT("metas", qT("fm", "'ri", "int", "1", "'", "nil"), qT("fm", "'rd", "dec", "1", "'kb", "nil"),
		qT("fm", "'oi", "int", "0", "'", "nil"), qT("fm", "'od", "dec", "0", "'", "nil")), qT(rows...))
}

func xConst(dt string, v int64) string {
	return qT("const", qT("vm", dt, "1", "'", "nil"), xCell(dt, v, false))
}

var xFixedSeries = []xSeries{
	// monotone, reset, negative reading, wrap-around candidates; on the 1 s grid
	{ts: []int64{1e9, 2e9, 3e9, 4e9, 5e9, 6e9, 7e9, 8e9, 9e9, 10e9}, vals: []int64{0, 5, 12, 3, 9, -4, 7, 100, 1, 50}},
	// off-grid readings with gaps (periods without data), decreasing run
	{ts: []int64{500e6, 1500e6, 1700e6, 4200e6, 9e9, 9500e6, 15e9}, vals: []int64{40, 30, 20, 10, 90, 95, 2}},
	// boundary-aligned, one reading per 2 s period
	{ts: []int64{0, 2e9, 4e9, 6e9, 8e9}, vals: []int64{8, 16, 16, 4, 120}},
	{ts: []int64{3e9}, vals: []int64{7}},
	{ts: nil, vals: nil},
}

func xExtFilters() []string {
	out := []string{}
	for _, p := range []string{"1000000000", "2000000000", "3000000000"} {
		out = append(out, qT("align", p), qT("alignfill", p, "linear"), qT("alignfill", p, "forward"))
	}
	for _, nn := range []string{"0", "1"} {
		for _, mx := range []string{"0", "16", "100"} {
			out = append(out, qT("delta", nn, mx))
			out = append(out, qT("rate", "'", "1", nn, mx), qT("rate", "'kb", "60", nn, mx))
		}
	}
	out = append(out, qT("rate", "'", "0", "1", "100"))
	return out
}

// xAfter: data type of the single field after an extension filter
func xAfter(f string, dt string) string {
	if len(f) > 7 && f[:7] == "( rate " {
		return "dec"
	}
	return dt
}

func genC10X(e *qEmitter, c *Ctx) {
	emit := func(kind string, from, to int64, tree string) {
		e.emit(fmt.Sprintf("X %s exact %d %d %s", kind, from, to, tree), false)
	}
	exts := xExtFilters()
	afm := func(u string) string { return qT("afm", qQ(u), "'", "nil") }
	// structured sweep: every extension filter over every series, int and dec, required and optional,
	// alone and stacked with modelled filters / values / bridges / joins / reductions
	for si, s := range xFixedSeries {
		for _, dt := range []string{"int", "dec"} {
			for _, req := range []bool{true, false} {
				d := xDstatic("counter", dt, req, s, 3)
				for _, f := range exts {
					dt2 := xAfter(f, dt)
					emit("ds", -5e9, 30e9, qT("dfilt", d, f))
					if si > 2 && !req {
						continue
					}
					// value on top: "delta + 1", cast below, condition / override after
					emit("ds", -5e9, 30e9, qT("dfilt", d, f, qT("fval", qT("num", "add", qT("ref"), xConst(dt2, 8)), afm("plus1"))))
					emit("ds", 2e9, 9e9, qT("dfilt", d, qT("fval", qT("num", "mul", qT("ref"), xConst(dt, 16)), afm("x2")), f,
						qT("where", qT("cond", "ge", qT("ref"), xConst(dt2, 0))), qT("override", "'renamed", "nil", "nil")))
					// bridges, report filters on top
					emit("rep", -5e9, 30e9, qT("rfilt", qT("fromds", qT("dfilt", d, f)),
						qT("append", qT("un", "abs", qT("ref", "'counter")), afm("absd")), qT("append", qT("cast", qT("ref", "'counter"), "str"), afm("s"))))
				}
				// two extension filters stacked
				for _, pair := range [][2]int{{0, 9}, {9, 0}, {1, 10}, {2, 11}, {12, 1}, {3, 15}, {16, 6}} {
					emit("ds", -5e9, 30e9, qT("dfilt", d, exts[pair[0]], exts[pair[1]]))
				}
				// reduction over delta'd / rate'd sources; join of aligned sources
				for _, f := range []string{exts[9], exts[13], exts[10], exts[16]} {
					src := qT("dfilt", d, f)
					src2 := qT("dfilt", xDstatic("other", dt, req, xFixedSeries[(si+1)%3], 0), f)
					emit("ds", -5e9, 30e9, qT("reduction", "sum", "1000000000", afm("red"), "none", src, src2))
					emit("ds", -5e9, 30e9, qT("reduction", "avg", "2000000000", afm("red"), "none", src))
					for _, jt := range []string{"inner", "left", "full"} {
						emit("rep", -5e9, 30e9, qT("join", jt, qT("fromds", src), qT("rfilt", qT("fromds", src2), qT("override", "'other", "'o2", "nil", "nil"))))
					}
				}
			}
		}
		// report aligners over a four-column table (required and optional numeric columns)
		for _, opt := range []bool{false, true} {
			r := xRstatic(s, opt)
			for _, f := range exts[:9] {
				emit("rep", -5e9, 30e9, qT("rfilt", r, f))
				emit("rep", 1e9, 8e9, qT("rfilt", r, qT("append", qT("num", "add", qT("ref", "'ri"), qT("ref", "'ri")), afm("sum")), f,
					qT("append", qT("num", "sub", qT("ref", "'rd"), qT("ref", "'rd")), afm("zero")), qT("drop", "'oi")))
				emit("ds", -5e9, 30e9, qT("tods", qT("rfilt", r, f), "'rd"))
				emit("ds", -5e9, 30e9, qT("dfilt", qT("tods", qT("rfilt", r, f), "'ri"), exts[12]))
			}
		}
	}
	// seeded random: random counter series (increments, resets, negative readings, wrap candidates), random gaps and
	// off-grid offsets, stacks of 1..3 extension filters interleaved with modelled filters
	r := c.Rng
	n := c.Pick(4000, 40000)
	for i := 0; i < n; i++ {
		ln := r.Small(12)
		s := xSeries{}
		t := int64(r.Intn(3)) * 1e9
		v := int64(r.Intn(40))
		for k := 0; k < ln; k++ {
			off := int64(0)
			if r.Intn(3) == 0 {
				off = int64(r.Intn(9)+1) * 100e6
			}
			s.ts = append(s.ts, t+off)
			s.vals = append(s.vals, v)
			t += int64(1+r.Intn(4)) * 1e9
			switch r.Intn(8) {
			case 0:
				v = int64(r.Intn(5)) // reset / wrap
			case 1:
				v = -int64(r.Intn(20)) - 1 // negative reading
			case 2:
				v -= int64(r.Intn(10)) // small decrease
			default:
				v += int64(r.Intn(25))
			}
		}
		dt := []string{"int", "dec"}[r.Intn(2)]
		req := r.Intn(4) != 0
		cur := dt
		parts := []string{"dfilt", xDstatic("counter", dt, req, s, 2+r.Intn(3))}
		k := 1 + r.Intn(3)
		for j := 0; j < k; j++ {
			if r.Intn(3) == 0 {
				parts = append(parts, qT("fval", qT("num", []string{"add", "sub", "mul"}[r.Intn(3)], qT("ref"), xConst(cur, int64(r.Intn(30)-5))), afm("counter")))
			}
			f := exts[r.Intn(len(exts))]
			parts = append(parts, f)
			cur = xAfter(f, cur)
		}
		lastUrn := "counter"
		if r.Bool() {
			parts = append(parts, qT("fval", qT("num", "add", qT("ref"), xConst(cur, 8)), afm("plus1")))
			lastUrn = "plus1"
		}
		from, to := int64(-5e9), int64(60e9)
		if r.Intn(4) == 0 && len(s.ts) > 0 {
			from = s.ts[r.Intn(len(s.ts))]
			to = from + int64(1+r.Intn(10))*1e9
		}
		tree := qT(parts...)
		if r.Intn(3) == 0 {
			emit("rep", from, to, qT("rfilt", qT("fromds", tree), qT("append", qT("cast", qT("ref", "'"+lastUrn), "dec"), afm("asdec"))))
		} else {
			emit("ds", from, to, tree)
		}
	}
}
