package run

import (
	"fmt"
	"math"
	"strconv"
	"strings"
	"time"

	"github.com/shpandrak/shpanstream/stream"
	"github.com/shpandrak/shpanstream/utils/timeseries/tsquery/report"
)

// C10, the stream filters: aligner / aligner with fill mode (both packages), delta and rate filter (datasource
// package).  They are part of the Lean model (RDs.xfiltered / DDs.xfiltered, chains via chainR / chainD), so the
// cases generated here are ordinary model-compared `q` cases:
//
//	( align pNanos ) ( alignfill pNanos linear|forward|bogus ) [both packages; fixed period, UTC]
//	( delta nn max ) ( rate 'unit perSeconds nn max ) [datasource package; max: int64 or d:<bits>]
//
// Aligner filters over CALENDAR alignment periods are model-compared `q` cases as well (genC10Cal): the filter carries the
// zone's offset table for the Lean model,
// ( aligncal day|week|month|quarter|halfyear|year 'zone init table ) / ( aligncalfill unit 'zone init table mode ),
// table = C12's encoding (when:off,when:off,... | -), recovered from the real zone through ZoneBounds (c12Extract).
// The table-less forms ( aligncal unit 'zone ) / ( aligncalfill unit 'zone mode ) remain valid in `X rep|ds ...` lines
// (spec predicate on the observation only; no longer generated) and in C05's Q lines.
// All inputs generated in this file are schema-conforming by construction.

func execXLineX(toks []string) (obs string, inputFail bool) {
	defer func() {
		if r := recover(); r != nil {
			qDebugPanic(r)
			obs, inputFail = "planpanic", false
		}
	}()
	if len(toks) == 3 && toks[0] == "X" && toks[1] == "ss" {
		return execXStruct(toks[2]), false
	}
	if len(toks) < 6 || toks[0] != "X" {
		return "bad-case", false
	}
	mode, from, to, tree, err := qParseHeader(toks[2:])
	if err != nil || (mode != "exact" && mode != "mask") {
		return "bad-case", false
	}
	b := newQBuilder()
	b.ext = true
	switch toks[1] {
	case "rep":
		ds, err := b.rds(tree)
		if err != nil {
			return qBuildErrObs(err)
		}
		return qObsReport(ds, b, mode == "mask", from, to), false
	case "ds":
		ds, err := b.dds(tree)
		if err != nil {
			return qBuildErrObs(err)
		}
		return qObsDs(ds, b, mode == "mask", from, to), false
	}
	return "bad-case", false
}

type xSeries struct {
	ts   []int64
	vals []int64 // readings in eighths for dec, units for int
}

func xCell(dt string, v int64, isNil bool) string {
	if isNil {
		return "nil"
	}
	if dt == "int" {
		return "i:" + strconv.FormatInt(v, 10)
	}
	return fmt.Sprintf("d:%016x", math.Float64bits(float64(v)/8))
}

func xDstatic(urn, dt string, req bool, s xSeries, nilEvery int) string {
	rows := []string{"rows"}
	for i, t := range s.ts {
		isNil := !req && nilEvery > 0 && i%nilEvery == nilEvery-1
		rows = append(rows, qT("r", strconv.FormatInt(t, 10), xCell(dt, s.vals[i], isNil)))
	}
	r := "0"
	if req {
		r = "1"
	}
	return qT("dstatic", qT("fm", qQ(urn), dt, r, "'", "nil"), qT(rows...))
}

func xRstatic(s xSeries, optional bool) string {
	rows := []string{"rows"}
	for i, t := range s.ts {
		oi := xCell("int", s.vals[i]*2, optional && i%3 == 1)
		od := xCell("dec", s.vals[i]*3, optional && i%4 == 2)
		rows = append(rows, qT("r", strconv.FormatInt(t, 10), xCell("int", s.vals[i], false), xCell("dec", s.vals[i], false), oi, od))
	}
	return qT("rstatic", qT("metas", qT("fm", "'ri", "int", "1", "'", "nil"), qT("fm", "'rd", "dec", "1", "'kb", "nil"),
		qT("fm", "'oi", "int", "0", "'", "nil"), qT("fm", "'od", "dec", "0", "'", "nil")), qT(rows...))
}

func xConst(dt string, v int64) string {
	return qT("const", qT("vm", dt, "1", "'", "nil"), xCell(dt, v, false))
}

var xFixedSeries = []xSeries{
	// monotone, reset, negative reading, wrap-around candidates; on the 1 s grid
	{ts: []int64{1e9, 2e9, 3e9, 4e9, 5e9, 6e9, 7e9, 8e9, 9e9, 10e9}, vals: []int64{0, 5, 12, 3, 9, -4, 7, 100, 1, 50}},
	// off-grid readings with gaps (periods without data), decreasing run
	{ts: []int64{500e6, 1500e6, 1700e6, 4200e6, 9e9, 9500e6, 15e9}, vals: []int64{40, 30, 20, 10, 90, 95, 2}},
	// boundary-aligned, one reading per 2 s period
	{ts: []int64{0, 2e9, 4e9, 6e9, 8e9}, vals: []int64{8, 16, 16, 4, 120}},
	{ts: []int64{3e9}, vals: []int64{7}},
	{ts: nil, vals: nil},
}

func xExtFilters() []string {
	out := []string{}
	for _, p := range []string{"1000000000", "2000000000", "3000000000"} {
		out = append(out, qT("align", p), qT("alignfill", p, "linear"), qT("alignfill", p, "forward"))
	}
	for _, nn := range []string{"0", "1"} {
		for _, mx := range []string{"0", "16", "100"} {
			out = append(out, qT("delta", nn, mx))
			out = append(out, qT("rate", "'", "1", nn, mx), qT("rate", "'kb", "60", nn, mx))
		}
	}
	out = append(out, qT("rate", "'", "0", "1", "100"))
	// index 28..: unsupported fill mode, negative perSeconds, negative / fractional / NaN / +Inf maxCounterValue
	out = append(out, qT("alignfill", "1000000000", "bogus"), qT("rate", "'u", "-3", "0", "0"),
		qT("delta", "1", "-5"), qT("delta", "1", "d:3fe0000000000000"), qT("delta", "1", "d:7ff8000000000001"),
		qT("rate", "'", "1", "1", "d:7ff0000000000000"))
	return out
}

// xAfter: data type of the single field after an extension filter
func xAfter(f string, dt string) string {
	if len(f) > 7 && f[:7] == "( rate " {
		return "dec"
	}
	return dt
}

func genC10Stream(e *qEmitter, c *Ctx) {
	emit := func(kind string, from, to int64, tree string) {
		e.emit(fmt.Sprintf("q %s exact %d %d %s", kind, from, to, tree), false)
	}
	exts := xExtFilters()
	genC10StreamSmallScope(e)
	afm := func(u string) string { return qT("afm", qQ(u), "'", "nil") }
	// structured sweep: every extension filter over every series, int and dec, required and optional,
	// alone and stacked with modelled filters / values / bridges / joins / reductions
	for si, s := range xFixedSeries {
		for _, dt := range []string{"int", "dec"} {
			for _, req := range []bool{true, false} {
				d := xDstatic("counter", dt, req, s, 3)
				for _, f := range exts {
					dt2 := xAfter(f, dt)
					emit("ds", -5e9, 30e9, qT("dfilt", d, f))
					if si > 2 && !req {
						continue
					}
					// value on top: "delta + 1", cast below, condition / override after
					emit("ds", -5e9, 30e9, qT("dfilt", d, f, qT("fval", qT("num", "add", qT("ref"), xConst(dt2, 8)), afm("plus1"))))
					emit("ds", 2e9, 9e9, qT("dfilt", d, qT("fval", qT("num", "mul", qT("ref"), xConst(dt, 16)), afm("x2")), f,
						qT("where", qT("cond", "ge", qT("ref"), xConst(dt2, 0))), qT("override", "'renamed", "nil", "nil")))
					// bridges, report filters on top
					emit("rep", -5e9, 30e9, qT("rfilt", qT("fromds", qT("dfilt", d, f)),
						qT("append", qT("un", "abs", qT("ref", "'counter")), afm("absd")), qT("append", qT("cast", qT("ref", "'counter"), "str"), afm("s"))))
				}
				// two extension filters stacked
				for _, pair := range [][2]int{{0, 9}, {9, 0}, {1, 10}, {2, 11}, {12, 1}, {3, 15}, {16, 6}} {
					emit("ds", -5e9, 30e9, qT("dfilt", d, exts[pair[0]], exts[pair[1]]))
				}
				// reduction over delta'd / rate'd sources; join of aligned sources
				for _, f := range []string{exts[9], exts[13], exts[10], exts[16]} {
					src := qT("dfilt", d, f)
					src2 := qT("dfilt", xDstatic("other", dt, req, xFixedSeries[(si+1)%3], 0), f)
					emit("ds", -5e9, 30e9, qT("reduction", "sum", "1000000000", afm("red"), "none", src, src2))
					emit("ds", -5e9, 30e9, qT("reduction", "avg", "2000000000", afm("red"), "none", src))
					for _, jt := range []string{"inner", "left", "full"} {
						emit("rep", -5e9, 30e9, qT("join", jt, qT("fromds", src), qT("rfilt", qT("fromds", src2), qT("override", "'other", "'o2", "nil", "nil"))))
					}
				}
			}
		}
		// report aligners over a four-column table (required and optional numeric columns)
		for _, opt := range []bool{false, true} {
			r := xRstatic(s, opt)
			for _, f := range append(append([]string(nil), exts[:9]...), exts[28]) {
				emit("rep", -5e9, 30e9, qT("rfilt", r, f))
				emit("rep", 1e9, 8e9, qT("rfilt", r, qT("append", qT("num", "add", qT("ref", "'ri"), qT("ref", "'ri")), afm("sum")), f,
					qT("append", qT("num", "sub", qT("ref", "'rd"), qT("ref", "'rd")), afm("zero")), qT("drop", "'oi")))
				emit("ds", -5e9, 30e9, qT("tods", qT("rfilt", r, f), "'rd"))
				emit("ds", -5e9, 30e9, qT("dfilt", qT("tods", qT("rfilt", r, f), "'ri"), exts[12]))
			}
		}
	}
	// seeded random: random counter series (increments, resets, negative readings, wrap candidates), random gaps and
	// off-grid offsets, stacks of 1..3 extension filters interleaved with modelled filters
	r := c.Rng
	n := c.Pick(4000, 40000)
	for i := 0; i < n; i++ {
		ln := r.Small(12)
		s := xSeries{}
		t := int64(r.Intn(3)) * 1e9
		v := int64(r.Intn(40))
		for k := 0; k < ln; k++ {
			off := int64(0)
			if r.Intn(3) == 0 {
				off = int64(r.Intn(9)+1) * 100e6
			}
			s.ts = append(s.ts, t+off)
			s.vals = append(s.vals, v)
			t += int64(1+r.Intn(4)) * 1e9
			switch r.Intn(8) {
			case 0:
				v = int64(r.Intn(5)) // reset / wrap
			case 1:
				v = -int64(r.Intn(20)) - 1 // negative reading
			case 2:
				v -= int64(r.Intn(10)) // small decrease
			default:
				v += int64(r.Intn(25))
			}
		}
		dt := []string{"int", "dec"}[r.Intn(2)]
		req := r.Intn(4) != 0
		cur := dt
		parts := []string{"dfilt", xDstatic("counter", dt, req, s, 2+r.Intn(3))}
		k := 1 + r.Intn(3)
		for j := 0; j < k; j++ {
			if r.Intn(3) == 0 {
				parts = append(parts, qT("fval", qT("num", []string{"add", "sub", "mul"}[r.Intn(3)], qT("ref"), xConst(cur, int64(r.Intn(30)-5))), afm("counter")))
			}
			f := exts[r.Intn(len(exts))]
			parts = append(parts, f)
			cur = xAfter(f, cur)
		}
		lastUrn := "counter"
		if r.Bool() {
			parts = append(parts, qT("fval", qT("num", "add", qT("ref"), xConst(cur, 8)), afm("plus1")))
			lastUrn = "plus1"
		}
		from, to := int64(-5e9), int64(60e9)
		if r.Intn(4) == 0 && len(s.ts) > 0 {
			from = s.ts[r.Intn(len(s.ts))]
			to = from + int64(1+r.Intn(10))*1e9
		}
		tree := qT(parts...)
		if r.Intn(3) == 0 {
			emit("rep", from, to, qT("rfilt", qT("fromds", tree), qT("append", qT("cast", qT("ref", "'"+lastUrn), "dec"), afm("asdec"))))
		} else {
			emit("ds", from, to, tree)
		}
	}
}

// genC10StreamSmallScope: the exhaustive small scope of the stream filters (valid and invalid uses):
//   - every stream filter over each of the ten typed columns of the fixed table (5 types x required/optional):
//     non-numeric -> rejected, optional -> rejected by delta / rate, accepted by the aligners (nils forwarded, or the
//     interpolation fails at row level);
//   - every report aligner over the whole ten-column table (rejected), over every single column and over every pair
//     of numeric columns (+ one numeric/string pair);
//   - every ordered pair of stream filters over a required integer and a required decimal counter.
func genC10StreamSmallScope(e *qEmitter) {
	exts := xExtFilters()
	p := newQP1()
	for _, col := range p.cols {
		d := qP1Dstatic(col)
		for _, f := range exts {
			e.emit(fmt.Sprintf("q ds exact %d %d %s", qP1From, qP1To, qT("dfilt", d, f)), false)
		}
	}
	aligners := append(append([]string(nil), exts[:9]...), exts[28])
	sel := func(urns ...string) string {
		parts := []string{"select"}
		for _, u := range urns {
			parts = append(parts, qT(qT("ref", qQ(u)), qT("afm", qQ(u), "'", "nil")))
		}
		return qT(parts...)
	}
	numeric := []string{"ri", "oi", "rd", "od"}
	for _, f := range aligners {
		e.emit(fmt.Sprintf("q rep exact %d %d %s", qP1From, qP1To, qT("rfilt", p.t0, f)), false)
		for _, col := range p.cols {
			e.emit(fmt.Sprintf("q rep exact %d %d %s", qP1From, qP1To, qT("rfilt", p.t0, sel(col.col.urn), f)), false)
		}
		for i, a := range numeric {
			for _, b := range numeric[i+1:] {
				e.emit(fmt.Sprintf("q rep exact %d %d %s", qP1From, qP1To, qT("rfilt", p.t0, sel(a, b), f)), false)
			}
		}
		e.emit(fmt.Sprintf("q rep exact %d %d %s", qP1From, qP1To, qT("rfilt", p.t0, sel("ri", "rs"), f)), false)
	}
	for _, dt := range []string{"int", "dec"} {
		d := xDstatic("counter", dt, true, xFixedSeries[0], 0)
		for _, f1 := range exts {
			for _, f2 := range exts {
				e.emit(fmt.Sprintf("q ds exact %d %d %s", int64(-5e9), int64(30e9), qT("dfilt", d, f1, f2)), false)
			}
		}
	}
}

// calZone renders the zone's offset table for the window of the generated data (2024-01-01 .. 2026-01-01, +-800 days):
// "init table" in C12's encoding.  The table is what the REAL zone answers through ZoneBounds/Zone (c12Extract).
var calZoneCache = map[string][2]string{}

func calZone(name string) (init, table string) {
	if v, ok := calZoneCache[name]; ok {
		return v[0], v[1]
	}
	loc, err := c12LoadLocation(name)
	if err != nil {
		panic("C10 calendar cases: zone " + name + " not available: " + err.Error())
	}
	z := c12Extract(name, loc)
	f := strings.Fields(z.part(1704067200, 1767225600)) // zone <name> <init> <table>
	calZoneCache[name] = [2]string{f[2], f[3]}
	return f[2], f[3]
}

func calAlign(unit, zone, mode string) string {
	init, table := calZone(zone)
	if mode == "" {
		return qT("aligncal", unit, qQ(zone), init, table)
	}
	return qT("aligncalfill", unit, qQ(zone), init, table, mode)
}

// genC10Cal: aligner filters over CALENDAR alignment periods, MODEL-COMPARED q cases (the Lean model interprets the
// period through Model/Period.lean with the zone table carried by the filter).  Zones whose DST switches are not at
// local midnight (known finding D14 is about the others: there the laws C10_sound asks of a period fail).
func genC10Cal(e *qEmitter, c *Ctx) {
	emit := func(kind string, tree string) {
		e.emit(fmt.Sprintf("q %s exact %d %d %s", kind, int64(0), int64(4e18), tree), false)
	}
	const base = int64(1711584000) * 1e9 // 2024-03-28T00:00:00Z: the European DST switch (03-31) is inside the series
	mk := func(n int, step int64) xSeries {
		s := xSeries{}
		v := int64(3)
		for i := 0; i < n; i++ {
			s.ts = append(s.ts, base+int64(i)*step+int64(i%5)*977e9)
			s.vals = append(s.vals, v)
			v += int64((i*7)%11) - 3
		}
		return s
	}
	hours := mk(60, 7*3600e9)   // 17 days, several readings per day
	weeks := mk(40, 11*86400e9) // 440 days, one reading every 11 days
	// readings exactly on local midnights of Europe/Berlin around the switch (boundary-aligned clusters: no
	// interpolation), with a two-day hole
	onGrid := xSeries{}
	for i, t := range []int64{1711666800, 1711753200, 1711839600, 1711922400, 1712181600, 1712268000} {
		onGrid.ts = append(onGrid.ts, t*1e9)
		onGrid.vals = append(onGrid.vals, int64(8*(i+1)))
	}
	zones := []string{"UTC", "Europe/Berlin", "America/New_York", "Asia/Kolkata"}
	units := []string{"day", "week", "month", "quarter", "halfyear", "year"}
	afm := func(u string) string { return qT("afm", qQ(u), "'", "nil") }
	for _, z := range zones {
		for _, unit := range units {
			s := weeks
			if unit == "day" || unit == "week" {
				s = hours
			}
			fs := []string{calAlign(unit, z, ""), calAlign(unit, z, "linear"), calAlign(unit, z, "forward")}
			for _, f := range fs {
				for _, dt := range []string{"int", "dec"} {
					for _, req := range []bool{true, false} {
						d := xDstatic("counter", dt, req, s, 4)
						emit("ds", qT("dfilt", d, f))
						emit("ds", qT("dfilt", d, f, qT("fval", qT("num", "add", qT("ref"), xConst(dt, 8)), afm("plus1"))))
						if req {
							emit("ds", qT("dfilt", d, f, qT("delta", "1", "100")))
							emit("ds", qT("dfilt", d, qT("rate", "'kb", "60", "0", "0"), f))
						}
					}
				}
				for _, opt := range []bool{false, true} {
					emit("rep", qT("rfilt", xRstatic(s, opt), f))
					emit("ds", qT("tods", qT("rfilt", xRstatic(s, opt), f), "'rd"))
				}
			}
			// the typing rule does not depend on the period: non-numeric fields are rejected; the unsupported fill mode
			// is a row error; a calendar aligner after a fixed one and before another calendar one (coarser unit, other zone)
			d := xDstatic("counter", "dec", true, s, 0)
			emit("ds", qT("dfilt", qT("dstatic", qT("fm", "'s", "str", "1", "'", "nil"), qT("rows", qT("r", strconv.FormatInt(base, 10), "'a"))), fs[0]))
			emit("ds", qT("dfilt", qT("dstatic", qT("fm", "'b", "bool", "0", "'", "nil"), qT("rows")), fs[1]))
			emit("rep", qT("rfilt", xRstatic(s, false), qT("append", qT("cast", qT("ref", "'ri"), "str"), afm("s")), fs[2]))
			emit("ds", qT("dfilt", d, calAlign(unit, z, "bogus")))
			emit("ds", qT("dfilt", d, qT("alignfill", "3600000000000", "linear"), fs[0]))
			emit("ds", qT("dfilt", d, calAlign("day", z, "forward"), calAlign(unit, zones[(len(unit)+len(z))%len(zones)], "linear")))
			emit("rep", qT("join", "full", qT("fromds", qT("dfilt", d, fs[0])),
				qT("rfilt", qT("fromds", qT("dfilt", xDstatic("other", "int", true, hours, 0), calAlign(unit, "UTC", ""))), qT("override", "'other", "'o2", "nil", "nil"))))
			emit("ds", qT("dfilt", xDstatic("counter", "int", true, onGrid, 0), fs[1]))
			emit("ds", qT("dfilt", xDstatic("counter", "dec", false, onGrid, 3), fs[2]))
		}
	}
	// zones INSIDE known finding D14 (a period-start midnight skipped in the window of the data: America/Havana
	// 2024-03-10 00:00 -> 01:00, Asia/Beirut 2024-03-31 00:00 -> 01:00): aligners WITHOUT fill mode only (the gap filler
	// does not terminate where GetEndTime x = x).  C10_sound's period hypothesis fails there (C10_witness_D14_gapfill), the
	// correspondence still has to hold: the model interprets the same time.Date rule.
	d14 := []struct {
		zone  string
		start int64
	}{{"America/Havana", 1709856000}, {"Asia/Beirut", 1711584000}}
	for _, z := range d14 {
		for _, unit := range []string{"day", "week", "month"} {
			for _, step := range []int64{3 * 3600, 7 * 1800} {
				s := xSeries{}
				v := int64(3)
				for i := 0; i < 40; i++ {
					s.ts = append(s.ts, (z.start+int64(i)*step)*1e9+int64(i%5)*977e9)
					s.vals = append(s.vals, v)
					v += int64((i*7)%11) - 3
				}
				emit("ds", qT("dfilt", xDstatic("counter", "int", true, s, 0), calAlign(unit, z.zone, "")))
				emit("rep", qT("rfilt", xRstatic(s, true), calAlign(unit, z.zone, "")))
			}
		}
	}
	// seeded random: random series over a few weeks, random unit / zone / fill
	r := c.Rng
	n := c.Pick(300, 3000)
	for i := 0; i < n; i++ {
		s := xSeries{}
		t := base + int64(r.Intn(86400))*1e9
		if r.Intn(3) == 0 {
			t = 1730246400e9 + int64(r.Intn(86400))*1e9 // 2024-10-30: the autumn switches (Berlin 10-27 is before, New York 11-03 inside)
		}
		v := int64(r.Intn(40))
		for k := r.Small(14); k > 0; k-- {
			s.ts = append(s.ts, t)
			s.vals = append(s.vals, v)
			t += int64(1+r.Intn(200)) * 1800e9
			v += int64(r.Intn(25)) - 6
		}
		dt := []string{"int", "dec"}[r.Intn(2)]
		unit := units[r.Intn(3)]
		if r.Intn(4) == 0 {
			unit = units[3+r.Intn(3)]
		}
		f := calAlign(unit, zones[r.Intn(len(zones))], "")
		if r.Intn(3) > 0 {
			f = calAlign(unit, zones[r.Intn(len(zones))], []string{"linear", "forward"}[r.Intn(2)])
		}
		emit("ds", qT("dfilt", xDstatic("counter", dt, r.Intn(4) != 0, s, 2+r.Intn(3)), f))
		if i%10 == 0 && len(s.ts) > 0 {
			// the same series moved next to the skipped midnight of a D14 zone, plain aligner
			z := d14[r.Intn(len(d14))]
			for k := range s.ts {
				s.ts[k] += (z.start + 86400 - base/1e9) * 1e9
			}
			emit("ds", qT("dfilt", xDstatic("counter", dt, true, s, 0), calAlign(units[r.Intn(3)], z.zone, "")))
		}
	}
}

// ---------------------------------------------------------------- StaticStructDatasource (reflection over a struct type)

// `X ss <variant>`: a report datasource built by reflection from a Go struct type. Whatever the field types are, the
// constructor either refuses the type or every row conforms to the metadata it declared (an int64 for "integer", …).
type c10Celsius float64
type c10Count int64
type c10Label string
type c10Flag bool

type c10SsPlain struct {
	At   time.Time
	N    int64
	V    float64
	Name string
	Ok   bool
	priv int
}
type c10SsNamed struct {
	At time.Time
	T  c10Celsius
	N  c10Count
	L  c10Label
	F  c10Flag
}
type c10SsInt struct {
	At    time.Time
	Count int
}
type c10SsInt32 struct {
	At time.Time
	C  int32
}
type c10SsUint struct {
	At time.Time
	C  uint64
}
type c10SsF32 struct {
	At time.Time
	C  float32
}
type c10SsPtr struct {
	At time.Time
	C  *int64
}
type c10SsTwoTimes struct {
	At, Until time.Time
	C         int64
}
type c10SsNoTime struct{ C int64 }

func c10SsObs[T any](rows ...T) string {
	ds, err := report.NewStaticStructDatasource[T](stream.Just(rows...))
	if err != nil {
		return "reject struct prepull=0"
	}
	return qObsReport(ds, newQBuilder(), false, 0, 4102444800000000000)
}

func execXStruct(variant string) (obs string) {
	defer func() {
		if r := recover(); r != nil {
			obs = "planpanic"
		}
	}()
	t1, t2 := time.Unix(1000, 0).UTC(), time.Unix(2000, 0).UTC()
	var seven int64 = 7
	switch variant {
	case "plain":
		return c10SsObs(c10SsPlain{t1, 1, 1.5, "a", true, 0}, c10SsPlain{t2, -2, 0, "", false, 1})
	case "named":
		return c10SsObs(c10SsNamed{t1, 21.5, 3, "x", true}, c10SsNamed{t2, -1, 0, "", false})
	case "int":
		return c10SsObs(c10SsInt{t1, 1}, c10SsInt{t2, 2})
	case "int32":
		return c10SsObs(c10SsInt32{t1, 1})
	case "uint":
		return c10SsObs(c10SsUint{t1, 1})
	case "f32":
		return c10SsObs(c10SsF32{t1, 1})
	case "ptr":
		return c10SsObs(c10SsPtr{t1, &seven}, c10SsPtr{t2, nil})
	case "twotimes":
		return c10SsObs(c10SsTwoTimes{t1, t2, 1})
	case "notime":
		return c10SsObs(c10SsNoTime{1})
	}
	return "bad-case"
}

func genC10Struct(c *Ctx) {
	for _, v := range []string{"plain", "named", "int", "int32", "uint", "f32", "ptr", "twotimes", "notime"} {
		c.Case(true, "X ss "+v)
	}
}
