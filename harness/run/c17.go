package run

// C17 — derived streams and executed queries never disturb one another (no aliasing).
//
// Two case kinds (first token):
//
//	D r<0|1|2> <derivations> | <order> ; <order> ...
//	    derivations := "-" | <parent><kind>,...    stream 0 is the root, derivation j creates stream j
//	    kind := W WithAdditionalLifecycle(probe j) | K WithLockWhileMaterializing(probe locker j)
//	            F Filter(even) | M stream.Map(+10) | L Limit(2) | S Skip(1) | P Peek
//	            C stream.Map(+10, WithConcurrentMapOption(2)): the child's list is a producer-stop guard (no probe)
//	              followed by the parent's list; its elements come in an unspecified order
//	    root: r0 NewSimpleStream(f) (nil lifecycle slice), r1 NewSimpleStream(f, open, close) (probe 0),
//	          r2 NewStream(provider) (probe 0 = the provider)
//	    observation: "solo <i>:<opened>/<closed>/<elements> ..." — the forest is rebuilt for every i and ONLY stream i is
//	    materialised — then for every order "; all <i>:<opened>/<closed> ..." — the forest is built once and every
//	    stream value is materialised in that order.
//	    <elements>: the exact sequence; sorted when a C lies on the stream's path; "#<count>" when an L or S lies
//	    below a C on the path (which elements pass is schedule dependent, how many is not), "?" when a Filter lies
//	    below that (even the number depends on the schedule).  Ids are read after the
//	    terminal operation returned (it waits for the goroutines of a concurrent map).
//	    An <order> may also be an OVERLAPPING materialisation (round 7):
//	      zip <i>,<j>[,<k>..] <i>,<j> ...    for every group: the forest is rebuilt and stream.ZipN over the listed
//	            stream values (also the same value twice, parent and child, siblings) is collected: all of them are
//	            open at the same time
//	      nest <i>,<j>[,<k>..] ...           for every group: the forest is rebuilt, stream i is consumed and stream j is
//	            materialised INSIDE i's consumer callback at i's first element (k inside j's, ...); a stream that
//	            delivers nothing has the rest of its group materialised right after it returned
//	    observation "; zip <group>:<opened, sorted>/<closed, sorted> ..." / "; nest ...": the ids as MULTISETS after
//	    everything returned (lock probes count Lock / Unlock calls per id: they can be held more than once).  Elements
//	    are not compared (one root cursor is shared by overlapping materialisations: F6).  Streams below a concurrent
//	    map are never part of a group (its channel fields are shared by overlapping materialisations: F7; the
//	    observation of such a group is "<group>:skip").
//
//	Q <sep|pack|sepn|packn> n=<rows> w=<width> caps=<k:m,...> <mode> | <chain P> | <chain Q> | <chain post>
//	    (implementation: c17_query.go)
//	    chain := "-" | stage.stage...      val := c<int> | r<idx> | n(v,v) nvl | p(v,v) numeric + | g(a,b,t,f) selector over the
//	                                              condition a > b | k(v) cast integer -> decimal -> integer
//	                                              | u<s|a|m|x|c>(<idx>+<idx>..) ReduceFieldValue over the named columns: sum,
//	                                                avg (cast back to integer), min, max, count; u<op>(*) over all columns
//	    stage := A<val> append field | S<val>+<val>.. select fields (a ref may name an already selected field)
//	           | D drop the rows of odd seconds (harness filter, hands rows on)
//	           | R<idx>=<val> ReplaceField | O<idx> OverrideFieldMetadata (rows handed on) | X<idx>+.. DropFields
//	           | F<val> SingleField | C<val>,<val> Condition val > val (rows handed on)
//	           | B<idx>[d|r|a<p>|f<p>|l<p>|o] ToDatasource(column idx) -> [Delta | Rate, cast back to integer | datasource
//	             aligner without fill / forward fill / linear, period p half seconds | datasource-level
//	             OverrideFieldMetadata (new urn + a custom-metadata map)] -> FromDatasource
//	    (O and B<idx>o hand the library a caller-made custom-metadata map.)
//	    STAGE OBJECTS ARE SHARED: every field value / filter / datasource filter is made once per distinct list of
//	    construction arguments (refs and reduced columns by urn, new urns by name) and that one Go object is used for
//	    every occurrence in P, Q, the post chain(s) and every execution.
//	           | G<p>[f|l] report AlignerFilter (fixed period of p half seconds; forward fill / linear gap filling)
//	    One shared static source: n rows one second apart, cell j of row i = 100 i + j + 1 (layouts with the suffix n: the
//	    last column is optional and nil in the rows i = 1 mod 3); row slices with spare capacity k (sep: make([]any,w,w+k)
//	    per row; pack: all rows carved out of one backing array without a capacity limit, so the spare capacity of a row
//	    IS the following rows, plus k cells at the end) and THREE metadata slices make([]FieldMeta,w,w+m) over the same
//	    rows (urns s*, t*, v*, so that the same rows can enter one join more than once); spare cells hold sentinels.
//	    modes: seq   P(S), Q(S) executed, then collected one after the other (one datasource object)
//	           alt   the same, pulled alternately through iter.Pull (one datasource object per pipeline over the SAME
//	                 caller slices)
//	           joinI|joinL|joinF   post(Join[P(S), Q(S)])        j3I|j3L|j3F   post(Join[P(S), T, Q(V)])  (T, V: the
//	                 plain source under the t / v metadata: the middle side's rows are the caller's rows)
//	           tj<I|L|F><s|a>   J1 = post(Join[S, P(T)]) and J2 = post(Join[S, Q(T)]) over the shared rows, consumed one
//	                 after the other (s) or alternately (a);  tk…: the sides swapped (Join[P(T), S], Join[Q(T), S])
//	           seqs | alts | tj<I|L|F><s|a>s | tk..s   the same with ONE tag: the new urns of Q are named like P's, so equal
//	                 stages at equal positions over equal columns are the same filter object in both pipelines
//	    After all consumption ended the plain static source and then every result datasource are executed AGAIN.
//	    observation: for every k:m "[k:m P=<rows> aP=<memory of every row: c<i> the caller's row i, f its own, d<j> shared
//	    with the earlier row j> mP=<urns> Q=<rows> aQ=.. mQ=<urns> u=<caller data unchanged>
//	    x=<the source executed again delivers the original rows> y=<every pipeline executed again delivers what it did>
//	    k=<everything reachable from the construction-time objects the caller handed over (urn lists, selected-field
//	    lists, override maps, filter lists, datasource lists; unexported fields, maps and spare capacity included) hashes as
//	    it did when they were made>]"
//	    (one result: J=, mJ=).  Everything is formatted at the very end.  Timestamps: seconds after the base instant
//	    ("<n>h" = n half seconds when not whole).

import (
	"context"
	"fmt"
	"io"
	"runtime"
	"sort"
	"strconv"
	"strings"
	"time"

	"github.com/shpandrak/shpanstream/stream"
)

func init() {
	Register("C17", Family{Gen: genC17, Exec: execC17})
}

func execC17(caseText string) (obs string) {
	defer func() {
		if r := recover(); r != nil {
			obs = "panic " + strings.ReplaceAll(fmt.Sprint(r), "\n", " ")
			if len(obs) > 200 {
				obs = obs[:200]
			}
		}
	}()
	done := make(chan string, 1)
	go func() {
		defer func() {
			if r := recover(); r != nil {
				s := "panic " + strings.ReplaceAll(fmt.Sprint(r), "\n", " ")
				if len(s) > 200 {
					s = s[:200]
				}
				done <- s
			}
		}()
		switch {
		case strings.HasPrefix(caseText, "D "):
			done <- c17ExecD(caseText[2:])
		case strings.HasPrefix(caseText, "Q "):
			done <- c17ExecQ(caseText[2:])
		case strings.HasPrefix(caseText, "M "):
			done <- c17ExecM(caseText[2:])
		default:
			done <- "bad-case"
		}
	}()
	select {
	case s := <-done:
		return s
	case <-time.After(20 * time.Second):
		return "hang"
	}
}

// ---------------------------------------------------------------------------------------------
// D: derivation forests
// ---------------------------------------------------------------------------------------------

type c17Rec struct{ opened, closed []int }

type c17Probe struct {
	id  int
	rec *c17Rec
}

func (p *c17Probe) Open(context.Context) error { p.rec.opened = append(p.rec.opened, p.id); return nil }
func (p *c17Probe) Close()                     { p.rec.closed = append(p.rec.closed, p.id) }

type c17Locker struct {
	id  int
	rec *c17Rec
}

func (l *c17Locker) Lock()   { l.rec.opened = append(l.rec.opened, l.id) }
func (l *c17Locker) Unlock() { l.rec.closed = append(l.rec.closed, l.id) }

// root provider for r2: probe 0 is the provider itself
type c17Provider struct {
	rec *c17Rec
	cur int
}

func (p *c17Provider) Open(context.Context) error {
	p.rec.opened = append(p.rec.opened, 0)
	p.cur = 0
	return nil
}
func (p *c17Provider) Close() { p.rec.closed = append(p.rec.closed, 0) }
func (p *c17Provider) Emit(ctx context.Context) (int, error) {
	if p.cur >= 4 {
		return 0, io.EOF
	}
	p.cur++
	return p.cur - 1, nil
}

type c17Deriv struct {
	parent int
	kind   byte
}

func c17ParseDerivs(s string) ([]c17Deriv, bool) {
	if s == "-" {
		return nil, true
	}
	var out []c17Deriv
	for _, t := range strings.Split(s, ",") {
		if len(t) < 2 {
			return nil, false
		}
		p, err := strconv.Atoi(t[:len(t)-1])
		if err != nil || p < 0 || p > len(out) {
			return nil, false
		}
		k := t[len(t)-1]
		if !strings.ContainsRune("WKFMLSPC", rune(k)) {
			return nil, false
		}
		out = append(out, c17Deriv{p, k})
	}
	return out, true
}

// builds the whole forest, in creation order
func c17BuildForest(root byte, ds []c17Deriv, rec *c17Rec) []stream.Stream[int] {
	var s0 stream.Stream[int]
	switch root {
	case '2':
		s0 = stream.NewStream[int](&c17Provider{rec: rec})
	default:
		cur := 0
		f := func(ctx context.Context) (int, error) {
			if cur >= 4 {
				return 0, io.EOF
			}
			cur++
			return cur - 1, nil
		}
		if root == '1' {
			s0 = stream.NewSimpleStream[int](f,
				stream.WithOpenFuncOption(func(context.Context) error { rec.opened = append(rec.opened, 0); cur = 0; return nil }),
				stream.WithCloseFuncOption(func() { rec.closed = append(rec.closed, 0) }))
		} else {
			s0 = stream.NewSimpleStream[int](f)
		}
	}
	all := []stream.Stream[int]{s0}
	for j, d := range ds {
		id := j + 1
		p := all[d.parent]
		var c stream.Stream[int]
		switch d.kind {
		case 'W':
			c = p.WithAdditionalLifecycle(&c17Probe{id: id, rec: rec})
		case 'K':
			c = p.WithLockWhileMaterializing(&c17Locker{id: id, rec: rec})
		case 'F':
			c = p.Filter(func(v int) bool { return v%2 == 0 })
		case 'M':
			c = stream.Map(p, func(v int) int { return v + 10 })
		case 'L':
			c = p.Limit(2)
		case 'S':
			c = p.Skip(1)
		case 'P':
			c = p.Peek(func(int) {})
		case 'C':
			c = stream.Map(p, func(v int) int { return v + 10 }, stream.WithConcurrentMapOption(2))
		}
		all = append(all, c)
	}
	return all
}

func c17Ints(l []int) string {
	if len(l) == 0 {
		return "-"
	}
	parts := make([]string, len(l))
	for i, v := range l {
		parts[i] = strconv.Itoa(v)
	}
	return strings.Join(parts, ",")
}

// how the elements of every stream are compared: 0 exact, 1 sorted, 2 count only, 3 not at all (see the header)
func c17DataModes(ds []c17Deriv) []int {
	modes := make([]int, len(ds)+1)
	for j, d := range ds {
		m := modes[d.parent]
		switch {
		case d.kind == 'C':
			if m < 1 {
				m = 1
			}
		case (d.kind == 'L' || d.kind == 'S') && m == 1:
			m = 2
		case d.kind == 'F' && m >= 2:
			m = 3
		}
		modes[j+1] = m
	}
	return modes
}

func c17FmtData(mode int, data []int) string {
	switch mode {
	case 0:
		return c17Ints(data)
	case 1:
		cp := append([]int(nil), data...)
		sort.Ints(cp)
		return c17Ints(cp)
	}
	if mode == 2 {
		return "#" + strconv.Itoa(len(data))
	}
	return "?"
}

// Materialises one stream value.  When a concurrent map lies on its path the call also waits until the helper
// goroutines of that materialisation are gone: the mapper's channel fields are shared by all materialisations of the
// stream value (and of every stream derived from it) and its workers touch them for a short while after the terminal
// returned, so opening it again at once can crash the process ("send on closed channel") — an observation outside
// C17, see notes/C17.md; C17 is about what was written at derivation time, not about that window.
func c17Collect(ctx context.Context, s stream.Stream[int], async bool) ([]int, error) {
	if !async {
		return s.Collect(ctx)
	}
	base := runtime.NumGoroutine()
	data, err := s.Collect(ctx)
	deadline := time.Now().Add(5 * time.Second)
	for runtime.NumGoroutine() > base && time.Now().Before(deadline) {
		runtime.Gosched()
		if runtime.NumGoroutine() > base {
			time.Sleep(20 * time.Microsecond)
		}
	}
	return data, err
}

func c17ExecD(text string) string {
	head, ordText, ok := strings.Cut(text, " | ")
	if !ok {
		return "bad-case"
	}
	hf := strings.Fields(head)
	if len(hf) != 2 || len(hf[0]) != 2 || hf[0][0] != 'r' {
		return "bad-case"
	}
	root := hf[0][1]
	ds, ok := c17ParseDerivs(hf[1])
	if !ok {
		return "bad-case"
	}
	ctx := context.Background()
	modes := c17DataModes(ds)
	var sb strings.Builder
	sb.WriteString("solo")
	for i := 0; i <= len(ds); i++ {
		rec := &c17Rec{}
		all := c17BuildForest(root, ds, rec)
		data, err := c17Collect(ctx, all[i], modes[i] > 0)
		if err != nil {
			fmt.Fprintf(&sb, " %d:err", i)
			continue
		}
		fmt.Fprintf(&sb, " %d:%s/%s/%s", i, c17Ints(rec.opened), c17Ints(rec.closed), c17FmtData(modes[i], data))
	}
	for _, ord := range strings.Split(ordText, " ; ") {
		ord = strings.TrimSpace(ord)
		if ord == "" {
			continue
		}
		if kind, groups, isOv := c17CutOverlap(ord); isOv {
			sb.WriteString(" ; " + kind)
			for _, g := range strings.Fields(groups) {
				res, ok := c17Overlap(ctx, root, ds, kind, g)
				if !ok {
					return "bad-case"
				}
				sb.WriteString(" " + g + ":" + res)
			}
			continue
		}
		rec := &c17Rec{}
		all := c17BuildForest(root, ds, rec)
		sb.WriteString(" ; all")
		for _, t := range strings.Split(ord, ",") {
			i, err := strconv.Atoi(t)
			if err != nil || i < 0 || i >= len(all) {
				return "bad-case"
			}
			rec.opened, rec.closed = nil, nil
			if _, err := c17Collect(ctx, all[i], modes[i] > 0); err != nil {
				fmt.Fprintf(&sb, " %d:err", i)
				continue
			}
			fmt.Fprintf(&sb, " %d:%s/%s", i, c17Ints(rec.opened), c17Ints(rec.closed))
		}
	}
	return sb.String()
}

func c17CutOverlap(ord string) (kind, groups string, ok bool) {
	for _, k := range []string{"zip", "nest"} {
		if strings.HasPrefix(ord, k+" ") {
			return k, ord[len(k)+1:], true
		}
	}
	return "", "", false
}

// does a concurrent map lie on the path of stream i?
func c17ConcOnPath(ds []c17Deriv) []bool {
	out := make([]bool, len(ds)+1)
	for j, d := range ds {
		out[j+1] = out[d.parent] || d.kind == 'C'
	}
	return out
}

func c17SortedInts(l []int) string {
	cp := append([]int(nil), l...)
	sort.Ints(cp)
	return c17Ints(cp)
}

// one overlapping materialisation of the stream values listed in group (a fresh forest): all of them are open at the
// same time (zip) / each one is materialised inside the consumer callback of the one before (nest)
func c17Overlap(ctx context.Context, root byte, ds []c17Deriv, kind, group string) (string, bool) {
	var idx []int
	for _, t := range strings.Split(group, ",") {
		i, err := strconv.Atoi(t)
		if err != nil || i < 0 || i > len(ds) {
			return "", false
		}
		idx = append(idx, i)
	}
	if len(idx) == 0 || len(idx) > 6 {
		return "", false
	}
	conc := c17ConcOnPath(ds)
	for _, i := range idx {
		if conc[i] {
			return "skip", true
		}
	}
	rec := &c17Rec{}
	all := c17BuildForest(root, ds, rec)
	failed := false
	if kind == "zip" {
		srcs := make([]stream.Stream[int], len(idx))
		for k, i := range idx {
			srcs[k] = all[i]
		}
		if _, err := stream.ZipN(srcs...).Collect(ctx); err != nil {
			failed = true
		}
	} else {
		var run func(k int)
		run = func(k int) {
			ran := false
			err := all[idx[k]].Consume(ctx, func(int) {
				if !ran {
					ran = true
					if k+1 < len(idx) {
						run(k + 1)
					}
				}
			})
			if err != nil {
				failed = true
			}
			if !ran && k+1 < len(idx) {
				run(k + 1)
			}
		}
		run(0)
	}
	if failed {
		return "err", true
	}
	return c17SortedInts(rec.opened) + "/" + c17SortedInts(rec.closed), true
}

// ---------------------------------------------------------------------------------------------
// generators
// ---------------------------------------------------------------------------------------------

func c17FmtDerivs(ds []c17Deriv) string {
	if len(ds) == 0 {
		return "-"
	}
	parts := make([]string, len(ds))
	for i, d := range ds {
		parts[i] = fmt.Sprintf("%d%c", d.parent, d.kind)
	}
	return strings.Join(parts, ",")
}

func c17Orders(c *Ctx, n int) string {
	// forward, reverse, one seeded permutation
	fw := make([]int, n)
	for i := range fw {
		fw[i] = i
	}
	rv := make([]int, n)
	for i := range rv {
		rv[i] = n - 1 - i
	}
	pm := append([]int(nil), fw...)
	for i := n - 1; i > 0; i-- {
		j := c.Rng.Intn(i + 1)
		pm[i], pm[j] = pm[j], pm[i]
	}
	return c17Ints(fw) + " ; " + c17Ints(rv) + " ; " + c17Ints(pm)
}

func c17EmitD(c *Ctx, root byte, ds []c17Deriv) {
	// non-trivial: some stream has at least two children (fan-out) and at least two lifecycle-adding derivations, or a
	// concurrent-map child is derived from a parent whose list has 3+ elements (spare capacity under Go's growth)
	kids := map[int]int{}
	adding := 0
	fan := false
	concSpare := false
	lens := []int{1}
	if root == '0' {
		lens[0] = 0
	}
	for _, d := range ds {
		kids[d.parent]++
		if kids[d.parent] >= 2 {
			fan = true
		}
		l := lens[d.parent]
		switch d.kind {
		case 'W', 'K':
			adding++
			l++
		case 'C':
			if l >= 3 {
				concSpare = true
			}
			l = 1 // the child's own list is the one-element wrapper
		}
		lens = append(lens, l)
	}
	ords := c17Orders(c, len(ds)+1)
	over := ""
	if !(c.Thorough && len(ds) == 5 && c.Rng.Intn(2) == 0) { // (thorough: every second forest of exactly 5 derivations)
		over = c17RandOverlaps(c, ds)
	}
	c.Case((fan && adding >= 2) || concSpare, fmt.Sprintf("D r%c %s | %s%s", root, c17FmtDerivs(ds), ords, over))
}

func c17FmtGroup(g []int) string {
	parts := make([]string, len(g))
	for i, v := range g {
		parts[i] = strconv.Itoa(v)
	}
	return strings.Join(parts, ",")
}

// a seeded group of stream values to materialise at overlapping times: the same value twice, child and parent (either
// order), two siblings, any two, any three — never a stream below a concurrent map
func c17RandGroup(c *Ctx, ds []c17Deriv, elig []int) []int {
	pick := func() int { return elig[c.Rng.Intn(len(elig))] }
	isElig := map[int]bool{}
	for _, i := range elig {
		isElig[i] = true
	}
	switch c.Rng.Intn(6) {
	case 0:
		i := pick()
		return []int{i, i}
	case 1, 2:
		// child and parent
		for try := 0; try < 4; try++ {
			i := pick()
			if i > 0 && isElig[ds[i-1].parent] {
				if c.Rng.Bool() {
					return []int{i, ds[i-1].parent}
				}
				return []int{ds[i-1].parent, i}
			}
		}
	case 3:
		// siblings
		for try := 0; try < 4; try++ {
			i := pick()
			if i == 0 {
				continue
			}
			for _, j := range elig {
				if j != i && j > 0 && ds[j-1].parent == ds[i-1].parent {
					return []int{i, j}
				}
			}
		}
	case 4:
		return []int{pick(), pick(), pick()}
	}
	return []int{pick(), pick()}
}

func c17RandOverlaps(c *Ctx, ds []c17Deriv) string {
	conc := c17ConcOnPath(ds)
	var elig []int
	for i, b := range conc {
		if !b {
			elig = append(elig, i)
		}
	}
	if len(elig) == 0 {
		return ""
	}
	var sb strings.Builder
	for _, kind := range []string{"zip", "nest"} {
		sb.WriteString(" ; " + kind)
		for g := 0; g < 2; g++ {
			sb.WriteString(" " + c17FmtGroup(c17RandGroup(c, ds, elig)))
		}
	}
	return sb.String()
}

// every pair of stream values of the forest zipped (i <= j) and nested (both orders, also a value inside itself), and
// all of them at once
func c17EmitDAllOverlaps(c *Ctx, root byte, ds []c17Deriv) {
	n := len(ds) + 1
	var zips, nests []string
	for i := 0; i < n; i++ {
		for j := 0; j < n; j++ {
			if i <= j {
				zips = append(zips, fmt.Sprintf("%d,%d", i, j))
			}
			nests = append(nests, fmt.Sprintf("%d,%d", i, j))
		}
	}
	if n >= 3 {
		var fw, rv []int
		for i := 0; i < n; i++ {
			fw = append(fw, i)
			rv = append(rv, n-1-i)
		}
		zips = append(zips, c17FmtGroup(fw))
		nests = append(nests, c17FmtGroup(fw), c17FmtGroup(rv))
	}
	adding := 0
	for _, d := range ds {
		if d.kind == 'W' || d.kind == 'K' {
			adding++
		}
	}
	// non-trivial: at least one lifecycle-adding derivation with a stream derived from it or next to it
	c.Case(adding >= 1 && n >= 3, fmt.Sprintf("D r%c %s | %s ; zip %s ; nest %s", root, c17FmtDerivs(ds), c17Ints([]int{0}),
		strings.Join(zips, " "), strings.Join(nests, " ")))
}

func c17Substitute(c *Ctx, ds []c17Deriv) []c17Deriv {
	out := append([]c17Deriv(nil), ds...)
	for i := range out {
		if out[i].kind == 'W' {
			if c.Rng.Intn(3) == 0 {
				out[i].kind = 'K'
			}
		} else if out[i].kind != 'C' || c.Rng.Bool() {
			out[i].kind = "FMLSPC"[c.Rng.Intn(6)]
		}
	}
	return out
}

func genC17D(c *Ctx) {
	maxN := c.Pick(4, 5)
	// exhaustive: all recursive trees (every parent choice = every creation order) x kinds {W, F, C}
	// (thorough, up to 4 derivations: {W, K, F, L, C}) x roots.  A parent reaches spare capacity (len 3, cap 4) after
	// two lifecycle derivations below a one-element root (three below r0), so "C under a parent with spare capacity,
	// observed on the parent / a sibling created before or after" is inside 3..4 derivations.
	var rec func(ds []c17Deriv, n int, kinds []byte)
	rec = func(ds []c17Deriv, n int, kinds []byte) {
		if len(ds) == n {
			for _, root := range []byte{'0', '1', '2'} {
				c17EmitD(c, root, ds)
			}
			// one variant with locks and the other sharing operators
			c17EmitD(c, "012"[c.Rng.Intn(3)], c17Substitute(c, ds))
			return
		}
		for p := 0; p <= len(ds); p++ {
			for _, k := range kinds {
				rec(append(append([]c17Deriv(nil), ds...), c17Deriv{p, k}), n, kinds)
			}
		}
	}
	for n := 0; n <= maxN; n++ {
		kinds := []byte{'W', 'F', 'C'}
		if c.Thorough && n <= 4 {
			kinds = []byte{'W', 'K', 'F', 'L', 'C'}
		}
		rec(nil, n, kinds)
	}
	// exhaustive, overlapping materialisation: all forests of up to 3 (thorough 4) derivations over {lifecycle, lock,
	// Filter, Limit} (thorough also Skip, Peek, Map) x roots, EVERY pair of stream values zipped and nested
	{
		okinds := []byte{'W', 'K', 'F', 'L'}
		if c.Thorough {
			okinds = []byte{'W', 'K', 'F', 'L', 'S', 'P', 'M'}
		}
		var orec func(ds []c17Deriv, n int)
		orec = func(ds []c17Deriv, n int) {
			if len(ds) == n {
				for _, root := range []byte{'0', '1', '2'} {
					c17EmitDAllOverlaps(c, root, ds)
				}
				return
			}
			for p := 0; p <= len(ds); p++ {
				for _, k := range okinds {
					orec(append(append([]c17Deriv(nil), ds...), c17Deriv{p, k}), n)
				}
			}
		}
		for n := 0; n <= 3; n++ {
			orec(nil, n)
		}
		if c.Thorough {
			okinds = []byte{'W', 'K', 'F', 'L'}
			orec(nil, 4)
		}
	}
	// seeded random larger forests (up to 10 derivations: lifecycle slices of every length 0..11)
	cnt := c.Pick(400, 20000)
	for i := 0; i < cnt; i++ {
		n := c.Rng.Range(5, 10)
		var ds []c17Deriv
		for j := 0; j < n; j++ {
			// bias: chains (parent = last) and fan-out (parent = a recent one)
			p := j
			switch c.Rng.Intn(4) {
			case 0:
				p = c.Rng.Intn(j + 1)
			case 1:
				if j > 0 {
					p = j - 1
				}
			}
			k := "WWWWKKFMLSPCC"[c.Rng.Intn(13)]
			ds = append(ds, c17Deriv{p, k})
		}
		c17EmitD(c, "012"[c.Rng.Intn(3)], ds)
	}
	// directed: a parent whose lifecycle list has 3..8 elements (built one derivation at a time, so Go's growth leaves
	// spare capacity: 3->cap 4, 4->6, 5->8, 6->10, 7->12, 8->14), below it siblings of EVERY kind in a seeded order
	// with one or two concurrent-map children among them (siblings created before and after), then a few
	// derivations anywhere (also below the concurrent-map children)
	cnt = c.Pick(80, 3000)
	for i := 0; i < cnt; i++ {
		root := "012"[c.Rng.Intn(3)]
		have := 1
		if root == '0' {
			have = 0
		}
		target := c.Rng.Range(3, 8)
		var ds []c17Deriv
		cur := 0
		for have < target {
			k := byte('W')
			switch c.Rng.Intn(6) {
			case 0:
				k = 'K'
			case 1:
				k = "FMP"[c.Rng.Intn(3)] // shares the list, does not lengthen it
			}
			ds = append(ds, c17Deriv{cur, k})
			cur = len(ds)
			if k == 'W' || k == 'K' {
				have++
			}
		}
		sibs := []byte("WKFMLSPC")
		if c.Rng.Bool() {
			sibs = append(sibs, 'C')
		}
		for j := len(sibs) - 1; j > 0; j-- {
			x := c.Rng.Intn(j + 1)
			sibs[j], sibs[x] = sibs[x], sibs[j]
		}
		for _, k := range sibs {
			ds = append(ds, c17Deriv{cur, k})
		}
		for x := c.Rng.Intn(4); x > 0; x-- {
			ds = append(ds, c17Deriv{c.Rng.Intn(len(ds) + 1), "WKFMLSPC"[c.Rng.Intn(8)]})
		}
		c17EmitD(c, root, ds)
	}
}

func genC17(c *Ctx) {
	// run.go seeds splitmix64 with seed*gamma: the stream of seed k+1 is the stream of seed k advanced by one draw, and
	// generators whose consumption depends on the data re-synchronise after a few cases.  Re-seeding from one MIXED
	// output (still a function of VERIF_SEED only) gives unrelated streams for neighbouring seeds.
	c.Rng = NewRng(c.Rng.Next())
	genC17D(c)
	genC17Q(c)
	genC17M(c)
}
