package run

// C17 — derived streams and executed queries never disturb one another (no aliasing).
//
// Two case kinds (first token):
//
//	D r<0|1|2> <derivations> | <order> ; <order> ...
//	    derivations := "-" | <parent><kind>,...    stream 0 is the root, derivation j creates stream j
//	    kind := W WithAdditionalLifecycle(probe j) | K WithLockWhileMaterializing(probe locker j)
//	            F Filter(even) | M stream.Map(+10) | L Limit(2) | S Skip(1) | P Peek
//	            C stream.Map(+10, WithConcurrentMapOption(2)): the child's list is a producer-stop guard (no probe)
//	              followed by the parent's list; its elements come in an unspecified order
//	    root: r0 NewSimpleStream(f) (nil lifecycle slice), r1 NewSimpleStream(f, open, close) (probe 0),
//	          r2 NewStream(provider) (probe 0 = the provider)
//	    observation: "solo <i>:<opened>/<closed>/<elements> ..." — the forest is rebuilt for every i and ONLY stream i is
//	    materialised — then for every order "; all <i>:<opened>/<closed> ..." — the forest is built once and every
//	    stream value is materialised in that order.
//	    <elements>: the exact sequence; sorted when a C lies on the stream's path; "#<count>" when an L or S lies
//	    below a C on the path (which elements pass is schedule dependent, how many is not), "?" when a Filter lies
//	    below that (even the number depends on the schedule).  Ids are read after the
//	    terminal operation returned (it waits for the goroutines of a concurrent map).
//
//	Q <sep|pack|sepn|packn> n=<rows> w=<width> caps=<k:m,...> <mode> | <chain P> | <chain Q> | <chain post>
//	    (implementation: c17_query.go)
//	    chain := "-" | stage.stage...      val := c<int> | r<idx> | n(v,v) nvl | p(v,v) numeric + | g(a,b,t,f) selector over the
//	                                              condition a > b | k(v) cast integer -> decimal -> integer
//	    stage := A<val> append field | S<val>+<val>.. select fields (a ref may name an already selected field)
//	           | D drop the rows of odd seconds (harness filter, hands rows on)
//	           | R<idx>=<val> ReplaceField | O<idx> OverrideFieldMetadata (rows handed on) | X<idx>+.. DropFields
//	           | F<val> SingleField | C<val>,<val> Condition val > val (rows handed on)
//	           | B<idx>[d|r|a<p>|f<p>|l<p>] ToDatasource(column idx) -> [Delta | Rate, cast back to integer | datasource
//	             aligner without fill / forward fill / linear, period p half seconds] -> FromDatasource
//	           | G<p>[f|l] report AlignerFilter (fixed period of p half seconds; forward fill / linear gap filling)
//	    One shared static source: n rows one second apart, cell j of row i = 100 i + j + 1 (layouts with the suffix n: the
//	    last column is optional and nil in the rows i = 1 mod 3); row slices with spare capacity k (sep: make([]any,w,w+k)
//	    per row; pack: all rows carved out of one backing array without a capacity limit, so the spare capacity of a row
//	    IS the following rows, plus k cells at the end) and THREE metadata slices make([]FieldMeta,w,w+m) over the same
//	    rows (urns s*, t*, v*, so that the same rows can enter one join more than once); spare cells hold sentinels.
//	    modes: seq   P(S), Q(S) executed, then collected one after the other (one datasource object)
//	           alt   the same, pulled alternately through iter.Pull (one datasource object per pipeline over the SAME
//	                 caller slices)
//	           joinI|joinL|joinF   post(Join[P(S), Q(S)])        j3I|j3L|j3F   post(Join[P(S), T, Q(V)])  (T, V: the
//	                 plain source under the t / v metadata: the middle side's rows are the caller's rows)
//	           tj<I|L|F><s|a>   J1 = post(Join[S, P(T)]) and J2 = post(Join[S, Q(T)]) over the shared rows, consumed one
//	                 after the other (s) or alternately (a);  tk…: the sides swapped (Join[P(T), S], Join[Q(T), S])
//	    After all consumption ended the plain static source and then every result datasource are executed AGAIN.
//	    observation: for every k:m "[k:m P=<rows> aP=<memory of every row: c<i> the caller's row i, f its own, d<j> shared
//	    with the earlier row j> mP=<urns> Q=<rows> aQ=.. mQ=<urns> u=<caller data unchanged>
//	    x=<the source executed again delivers the original rows> y=<every pipeline executed again delivers what it did>]"
//	    (one result: J=, mJ=).  Everything is formatted at the very end.  Timestamps: seconds after the base instant
//	    ("<n>h" = n half seconds when not whole).

import (
	"context"
	"fmt"
	"io"
	"runtime"
	"sort"
	"strconv"
	"strings"
	"time"

	"github.com/shpandrak/shpanstream/stream"
)

func init() {
	Register("C17", Family{Gen: genC17, Exec: execC17})
}

func execC17(caseText string) (obs string) {
	defer func() {
		if r := recover(); r != nil {
			obs = "panic " + strings.ReplaceAll(fmt.Sprint(r), "\n", " ")
			if len(obs) > 200 {
				obs = obs[:200]
			}
		}
	}()
	done := make(chan string, 1)
	go func() {
		defer func() {
			if r := recover(); r != nil {
				s := "panic " + strings.ReplaceAll(fmt.Sprint(r), "\n", " ")
				if len(s) > 200 {
					s = s[:200]
				}
				done <- s
			}
		}()
		switch {
		case strings.HasPrefix(caseText, "D "):
			done <- c17ExecD(caseText[2:])
		case strings.HasPrefix(caseText, "Q "):
			done <- c17ExecQ(caseText[2:])
		case strings.HasPrefix(caseText, "M "):
			done <- c17ExecM(caseText[2:])
		default:
			done <- "bad-case"
		}
	}()
	select {
	case s := <-done:
		return s
	case <-time.After(20 * time.Second):
		return "hang"
	}
}

// ---------------------------------------------------------------------------------------------
// D: derivation forests
// ---------------------------------------------------------------------------------------------

type c17Rec struct{ opened, closed []int }

type c17Probe struct {
	id  int
	rec *c17Rec
}

func (p *c17Probe) Open(context.Context) error { p.rec.opened = append(p.rec.opened, p.id); return nil }
func (p *c17Probe) Close()                     { p.rec.closed = append(p.rec.closed, p.id) }

type c17Locker struct {
	id  int
	rec *c17Rec
}

func (l *c17Locker) Lock()   { l.rec.opened = append(l.rec.opened, l.id) }
func (l *c17Locker) Unlock() { l.rec.closed = append(l.rec.closed, l.id) }

// root provider for r2: probe 0 is the provider itself
type c17Provider struct {
	rec *c17Rec
	cur int
}

func (p *c17Provider) Open(context.Context) error {
	p.rec.opened = append(p.rec.opened, 0)
	p.cur = 0
	return nil
}
func (p *c17Provider) Close() { p.rec.closed = append(p.rec.closed, 0) }
func (p *c17Provider) Emit(ctx context.Context) (int, error) {
	if p.cur >= 4 {
		return 0, io.EOF
	}
	p.cur++
	return p.cur - 1, nil
}

type c17Deriv struct {
	parent int
	kind   byte
}

func c17ParseDerivs(s string) ([]c17Deriv, bool) {
	if s == "-" {
		return nil, true
	}
	var out []c17Deriv
	for _, t := range strings.Split(s, ",") {
		if len(t) < 2 {
			return nil, false
		}
		p, err := strconv.Atoi(t[:len(t)-1])
		if err != nil || p < 0 || p > len(out) {
			return nil, false
		}
		k := t[len(t)-1]
		if !strings.ContainsRune("WKFMLSPC", rune(k)) {
			return nil, false
		}
		out = append(out, c17Deriv{p, k})
	}
	return out, true
}

// builds the whole forest, in creation order
func c17BuildForest(root byte, ds []c17Deriv, rec *c17Rec) []stream.Stream[int] {
	var s0 stream.Stream[int]
	switch root {
	case '2':
		s0 = stream.NewStream[int](&c17Provider{rec: rec})
	default:
		cur := 0
		f := func(ctx context.Context) (int, error) {
			if cur >= 4 {
				return 0, io.EOF
			}
			cur++
			return cur - 1, nil
		}
		if root == '1' {
			s0 = stream.NewSimpleStream[int](f,
				stream.WithOpenFuncOption(func(context.Context) error { rec.opened = append(rec.opened, 0); cur = 0; return nil }),
				stream.WithCloseFuncOption(func() { rec.closed = append(rec.closed, 0) }))
		} else {
			s0 = stream.NewSimpleStream[int](f)
		}
	}
	all := []stream.Stream[int]{s0}
	for j, d := range ds {
		id := j + 1
		p := all[d.parent]
		var c stream.Stream[int]
		switch d.kind {
		case 'W':
			c = p.WithAdditionalLifecycle(&c17Probe{id: id, rec: rec})
		case 'K':
			c = p.WithLockWhileMaterializing(&c17Locker{id: id, rec: rec})
		case 'F':
			c = p.Filter(func(v int) bool { return v%2 == 0 })
		case 'M':
			c = stream.Map(p, func(v int) int { return v + 10 })
		case 'L':
			c = p.Limit(2)
		case 'S':
			c = p.Skip(1)
		case 'P':
			c = p.Peek(func(int) {})
		case 'C':
			c = stream.Map(p, func(v int) int { return v + 10 }, stream.WithConcurrentMapOption(2))
		}
		all = append(all, c)
	}
	return all
}

func c17Ints(l []int) string {
	if len(l) == 0 {
		return "-"
	}
	parts := make([]string, len(l))
	for i, v := range l {
		parts[i] = strconv.Itoa(v)
	}
	return strings.Join(parts, ",")
}

// how the elements of every stream are compared: 0 exact, 1 sorted, 2 count only, 3 not at all (see the header)
func c17DataModes(ds []c17Deriv) []int {
	modes := make([]int, len(ds)+1)
	for j, d := range ds {
		m := modes[d.parent]
		switch {
		case d.kind == 'C':
			if m < 1 {
				m = 1
			}
		case (d.kind == 'L' || d.kind == 'S') && m == 1:
			m = 2
		case d.kind == 'F' && m >= 2:
			m = 3
		}
		modes[j+1] = m
	}
	return modes
}

func c17FmtData(mode int, data []int) string {
	switch mode {
	case 0:
		return c17Ints(data)
	case 1:
		cp := append([]int(nil), data...)
		sort.Ints(cp)
		return c17Ints(cp)
	}
	if mode == 2 {
		return "#" + strconv.Itoa(len(data))
	}
	return "?"
}

// Materialises one stream value.  When a concurrent map lies on its path the call also waits until the helper
// goroutines of that materialisation are gone: the mapper's channel fields are shared by all materialisations of the
// stream value (and of every stream derived from it) and its workers touch them for a short while after the terminal
// returned, so opening it again at once can crash the process ("send on closed channel") — an observation outside
// C17, see notes/C17.md; C17 is about what was written at derivation time, not about that window.
func c17Collect(ctx context.Context, s stream.Stream[int], async bool) ([]int, error) {
	if !async {
		return s.Collect(ctx)
	}
	base := runtime.NumGoroutine()
	data, err := s.Collect(ctx)
	deadline := time.Now().Add(5 * time.Second)
	for runtime.NumGoroutine() > base && time.Now().Before(deadline) {
		runtime.Gosched()
		if runtime.NumGoroutine() > base {
			time.Sleep(20 * time.Microsecond)
		}
	}
	return data, err
}

func c17ExecD(text string) string {
	head, ordText, ok := strings.Cut(text, " | ")
	if !ok {
		return "bad-case"
	}
	hf := strings.Fields(head)
	if len(hf) != 2 || len(hf[0]) != 2 || hf[0][0] != 'r' {
		return "bad-case"
	}
	root := hf[0][1]
	ds, ok := c17ParseDerivs(hf[1])
	if !ok {
		return "bad-case"
	}
	ctx := context.Background()
	modes := c17DataModes(ds)
	var sb strings.Builder
	sb.WriteString("solo")
	for i := 0; i <= len(ds); i++ {
		rec := &c17Rec{}
		all := c17BuildForest(root, ds, rec)
		data, err := c17Collect(ctx, all[i], modes[i] > 0)
		if err != nil {
			fmt.Fprintf(&sb, " %d:err", i)
			continue
		}
		fmt.Fprintf(&sb, " %d:%s/%s/%s", i, c17Ints(rec.opened), c17Ints(rec.closed), c17FmtData(modes[i], data))
	}
	for _, ord := range strings.Split(ordText, " ; ") {
		ord = strings.TrimSpace(ord)
		if ord == "" {
			continue
		}
		rec := &c17Rec{}
		all := c17BuildForest(root, ds, rec)
		sb.WriteString(" ; all")
		for _, t := range strings.Split(ord, ",") {
			i, err := strconv.Atoi(t)
			if err != nil || i < 0 || i >= len(all) {
				return "bad-case"
			}
			rec.opened, rec.closed = nil, nil
			if _, err := c17Collect(ctx, all[i], modes[i] > 0); err != nil {
				fmt.Fprintf(&sb, " %d:err", i)
				continue
			}
			fmt.Fprintf(&sb, " %d:%s/%s", i, c17Ints(rec.opened), c17Ints(rec.closed))
		}
	}
	return sb.String()
}

// ---------------------------------------------------------------------------------------------
// generators
// ---------------------------------------------------------------------------------------------

func c17FmtDerivs(ds []c17Deriv) string {
	if len(ds) == 0 {
		return "-"
	}
	parts := make([]string, len(ds))
	for i, d := range ds {
		parts[i] = fmt.Sprintf("%d%c", d.parent, d.kind)
	}
	return strings.Join(parts, ",")
}

func c17Orders(c *Ctx, n int) string {
	// forward, reverse, one seeded permutation
	fw := make([]int, n)
	for i := range fw {
		fw[i] = i
	}
	rv := make([]int, n)
	for i := range rv {
		rv[i] = n - 1 - i
	}
	pm := append([]int(nil), fw...)
	for i := n - 1; i > 0; i-- {
		j := c.Rng.Intn(i + 1)
		pm[i], pm[j] = pm[j], pm[i]
	}
	return c17Ints(fw) + " ; " + c17Ints(rv) + " ; " + c17Ints(pm)
}

func c17EmitD(c *Ctx, root byte, ds []c17Deriv) {
	// non-trivial: some stream has at least two children (fan-out) and at least two lifecycle-adding derivations, or a
	// concurrent-map child is derived from a parent whose list has 3+ elements (spare capacity under Go's growth)
	kids := map[int]int{}
	adding := 0
	fan := false
	concSpare := false
	lens := []int{1}
	if root == '0' {
		lens[0] = 0
	}
	for _, d := range ds {
		kids[d.parent]++
		if kids[d.parent] >= 2 {
			fan = true
		}
		l := lens[d.parent]
		switch d.kind {
		case 'W', 'K':
			adding++
			l++
		case 'C':
			if l >= 3 {
				concSpare = true
			}
			l = 1 // the child's own list is the one-element wrapper
		}
		lens = append(lens, l)
	}
	c.Case((fan && adding >= 2) || concSpare, fmt.Sprintf("D r%c %s | %s", root, c17FmtDerivs(ds), c17Orders(c, len(ds)+1)))
}

func c17Substitute(c *Ctx, ds []c17Deriv) []c17Deriv {
	out := append([]c17Deriv(nil), ds...)
	for i := range out {
		if out[i].kind == 'W' {
			if c.Rng.Intn(3) == 0 {
				out[i].kind = 'K'
			}
		} else if out[i].kind != 'C' || c.Rng.Bool() {
			out[i].kind = "FMLSPC"[c.Rng.Intn(6)]
		}
	}
	return out
}

func genC17D(c *Ctx) {
	maxN := c.Pick(4, 5)
	// exhaustive: all recursive trees (every parent choice = every creation order) x kinds {W, F, C}
	// (thorough, up to 4 derivations: {W, K, F, L, C}) x roots.  A parent reaches spare capacity (len 3, cap 4) after
	// two lifecycle derivations below a one-element root (three below r0), so "C under a parent with spare capacity,
	// observed on the parent / a sibling created before or after" is inside 3..4 derivations.
	var rec func(ds []c17Deriv, n int, kinds []byte)
	rec = func(ds []c17Deriv, n int, kinds []byte) {
		if len(ds) == n {
			for _, root := range []byte{'0', '1', '2'} {
				c17EmitD(c, root, ds)
			}
			// one variant with locks and the other sharing operators
			c17EmitD(c, "012"[c.Rng.Intn(3)], c17Substitute(c, ds))
			return
		}
		for p := 0; p <= len(ds); p++ {
			for _, k := range kinds {
				rec(append(append([]c17Deriv(nil), ds...), c17Deriv{p, k}), n, kinds)
			}
		}
	}
	for n := 0; n <= maxN; n++ {
		kinds := []byte{'W', 'F', 'C'}
		if c.Thorough && n <= 4 {
			kinds = []byte{'W', 'K', 'F', 'L', 'C'}
		}
		rec(nil, n, kinds)
	}
	// seeded random larger forests (up to 10 derivations: lifecycle slices of every length 0..11)
	cnt := c.Pick(400, 20000)
	for i := 0; i < cnt; i++ {
		n := c.Rng.Range(5, 10)
		var ds []c17Deriv
		for j := 0; j < n; j++ {
			// bias: chains (parent = last) and fan-out (parent = a recent one)
			p := j
			switch c.Rng.Intn(4) {
			case 0:
				p = c.Rng.Intn(j + 1)
			case 1:
				if j > 0 {
					p = j - 1
				}
			}
			k := "WWWWKKFMLSPCC"[c.Rng.Intn(13)]
			ds = append(ds, c17Deriv{p, k})
		}
		c17EmitD(c, "012"[c.Rng.Intn(3)], ds)
	}
	// directed: a parent whose lifecycle list has 3..8 elements (built one derivation at a time, so Go's growth leaves
	// spare capacity: 3->cap 4, 4->6, 5->8, 6->10, 7->12, 8->14), below it siblings of EVERY kind in a seeded order
	// with one or two concurrent-map children among them (siblings created before and after), then a few
	// derivations anywhere (also below the concurrent-map children)
	cnt = c.Pick(80, 3000)
	for i := 0; i < cnt; i++ {
		root := "012"[c.Rng.Intn(3)]
		have := 1
		if root == '0' {
			have = 0
		}
		target := c.Rng.Range(3, 8)
		var ds []c17Deriv
		cur := 0
		for have < target {
			k := byte('W')
			switch c.Rng.Intn(6) {
			case 0:
				k = 'K'
			case 1:
				k = "FMP"[c.Rng.Intn(3)] // shares the list, does not lengthen it
			}
			ds = append(ds, c17Deriv{cur, k})
			cur = len(ds)
			if k == 'W' || k == 'K' {
				have++
			}
		}
		sibs := []byte("WKFMLSPC")
		if c.Rng.Bool() {
			sibs = append(sibs, 'C')
		}
		for j := len(sibs) - 1; j > 0; j-- {
			x := c.Rng.Intn(j + 1)
			sibs[j], sibs[x] = sibs[x], sibs[j]
		}
		for _, k := range sibs {
			ds = append(ds, c17Deriv{cur, k})
		}
		for x := c.Rng.Intn(4); x > 0; x-- {
			ds = append(ds, c17Deriv{c.Rng.Intn(len(ds) + 1), "WKFMLSPC"[c.Rng.Intn(8)]})
		}
		c17EmitD(c, root, ds)
	}
}

func genC17(c *Ctx) {
	// run.go seeds splitmix64 with seed*gamma: the stream of seed k+1 is the stream of seed k advanced by one draw, and
	// generators whose consumption depends on the data re-synchronise after a few cases.  Re-seeding from one MIXED
	// output (still a function of VERIF_SEED only) gives unrelated streams for neighbouring seeds.
	c.Rng = NewRng(c.Rng.Next())
	genC17D(c)
	genC17Q(c)
	genC17M(c)
}
