package run

// C17 — derived streams and executed queries never disturb one another (no aliasing).
//
// Two case kinds (first token):
//
//	D r<0|1|2> <derivations> | <order> ; <order> ...
//	    derivations := "-" | <parent><kind>,...    stream 0 is the root, derivation j creates stream j
//	    kind := W WithAdditionalLifecycle(probe j) | K WithLockWhileMaterializing(probe locker j)
//	            F Filter(even) | M stream.Map(+10) | L Limit(2) | S Skip(1) | P Peek
//	            C stream.Map(+10, WithConcurrentMapOption(2)): the child's list is a producer-stop guard (no probe)
//	              followed by the parent's list; its elements come in an unspecified order
//	    root: r0 NewSimpleStream(f) (nil lifecycle slice), r1 NewSimpleStream(f, open, close) (probe 0),
//	          r2 NewStream(provider) (probe 0 = the provider)
//	    observation: "solo <i>:<opened>/<closed>/<elements> ..." — the forest is rebuilt for every i and ONLY stream i is
//	    materialised — then for every order "; all <i>:<opened>/<closed> ..." — the forest is built once and every
//	    stream value is materialised in that order.
//	    <elements>: the exact sequence; sorted when a C lies on the stream's path; "#<count>" when an L or S lies
//	    below a C on the path (which elements pass is schedule dependent, how many is not), "?" when a Filter lies
//	    below that (even the number depends on the schedule).  Ids are read after the
//	    terminal operation returned (it waits for the goroutines of a concurrent map).
//
//	Q <sep|pack> n=<rows> w=<width> caps=<k:m,...> <seq|alt|joinI|joinL|joinF|joinsharedI> | <chain P> | <chain Q> | <chain post>
//	    chain := "-" | stage.stage...   stage := A<val> append field | S<val>+<val>.. select fields | D drop odd rows
//	    val := c<int> constant | r<idx> ref to column idx of the row available to that stage
//	    One shared static source: row slices with spare capacity k (sep: make([]any,w,w+k) per row; pack: all rows
//	    carved out of one backing array without a capacity limit, so the spare capacity of a row IS the following
//	    rows, plus k cells at the end) and a metadata slice make([]FieldMeta,w,w+m); spare cells hold sentinels.
//	    seq: P and Q executed, then collected one after the other (one datasource object);
//	    alt: both executed, then pulled alternately through iter.Pull (one datasource object per pipeline over the
//	         SAME caller slices); join*: P and Q are the two sides of a JoinDatasource, post chain on top.
//	    observation: for every k:m "[k:m P=<rows> mP=<urns> Q=<rows> mQ=<urns> u=<caller data unchanged>]"
//	    (join: J=, mJ=).  Everything is formatted after all consumption ended.

import (
	"context"
	"fmt"
	"io"
	"iter"
	"runtime"
	"sort"
	"strconv"
	"strings"
	"time"

	"github.com/shpandrak/shpanstream/stream"
	"github.com/shpandrak/shpanstream/utils/timeseries"
	"github.com/shpandrak/shpanstream/utils/timeseries/tsquery"
	"github.com/shpandrak/shpanstream/utils/timeseries/tsquery/report"
)

func init() {
	Register("C17", Family{Gen: genC17, Exec: execC17})
}

func execC17(caseText string) (obs string) {
	defer func() {
		if r := recover(); r != nil {
			obs = "panic " + strings.ReplaceAll(fmt.Sprint(r), "\n", " ")
			if len(obs) > 200 {
				obs = obs[:200]
			}
		}
	}()
	done := make(chan string, 1)
	go func() {
		defer func() {
			if r := recover(); r != nil {
				s := "panic " + strings.ReplaceAll(fmt.Sprint(r), "\n", " ")
				if len(s) > 200 {
					s = s[:200]
				}
				done <- s
			}
		}()
		switch {
		case strings.HasPrefix(caseText, "D "):
			done <- c17ExecD(caseText[2:])
		case strings.HasPrefix(caseText, "Q "):
			done <- c17ExecQ(caseText[2:])
		case strings.HasPrefix(caseText, "M "):
			done <- c17ExecM(caseText[2:])
		default:
			done <- "bad-case"
		}
	}()
	select {
	case s := <-done:
		return s
	case <-time.After(20 * time.Second):
		return "hang"
	}
}

// ---------------------------------------------------------------------------------------------
// D: derivation forests
// ---------------------------------------------------------------------------------------------

type c17Rec struct{ opened, closed []int }

type c17Probe struct {
	id  int
	rec *c17Rec
}

func (p *c17Probe) Open(context.Context) error { p.rec.opened = append(p.rec.opened, p.id); return nil }
func (p *c17Probe) Close()                     { p.rec.closed = append(p.rec.closed, p.id) }

type c17Locker struct {
	id  int
	rec *c17Rec
}

func (l *c17Locker) Lock()   { l.rec.opened = append(l.rec.opened, l.id) }
func (l *c17Locker) Unlock() { l.rec.closed = append(l.rec.closed, l.id) }

// root provider for r2: probe 0 is the provider itself
type c17Provider struct {
	rec *c17Rec
	cur int
}

func (p *c17Provider) Open(context.Context) error {
	p.rec.opened = append(p.rec.opened, 0)
	p.cur = 0
	return nil
}
func (p *c17Provider) Close() { p.rec.closed = append(p.rec.closed, 0) }
func (p *c17Provider) Emit(ctx context.Context) (int, error) {
	if p.cur >= 4 {
		return 0, io.EOF
	}
	p.cur++
	return p.cur - 1, nil
}

type c17Deriv struct {
	parent int
	kind   byte
}

func c17ParseDerivs(s string) ([]c17Deriv, bool) {
	if s == "-" {
		return nil, true
	}
	var out []c17Deriv
	for _, t := range strings.Split(s, ",") {
		if len(t) < 2 {
			return nil, false
		}
		p, err := strconv.Atoi(t[:len(t)-1])
		if err != nil || p < 0 || p > len(out) {
			return nil, false
		}
		k := t[len(t)-1]
		if !strings.ContainsRune("WKFMLSPC", rune(k)) {
			return nil, false
		}
		out = append(out, c17Deriv{p, k})
	}
	return out, true
}

// builds the whole forest, in creation order
func c17BuildForest(root byte, ds []c17Deriv, rec *c17Rec) []stream.Stream[int] {
	var s0 stream.Stream[int]
	switch root {
	case '2':
		s0 = stream.NewStream[int](&c17Provider{rec: rec})
	default:
		cur := 0
		f := func(ctx context.Context) (int, error) {
			if cur >= 4 {
				return 0, io.EOF
			}
			cur++
			return cur - 1, nil
		}
		if root == '1' {
			s0 = stream.NewSimpleStream[int](f,
				stream.WithOpenFuncOption(func(context.Context) error { rec.opened = append(rec.opened, 0); cur = 0; return nil }),
				stream.WithCloseFuncOption(func() { rec.closed = append(rec.closed, 0) }))
		} else {
			s0 = stream.NewSimpleStream[int](f)
		}
	}
	all := []stream.Stream[int]{s0}
	for j, d := range ds {
		id := j + 1
		p := all[d.parent]
		var c stream.Stream[int]
		switch d.kind {
		case 'W':
			c = p.WithAdditionalLifecycle(&c17Probe{id: id, rec: rec})
		case 'K':
			c = p.WithLockWhileMaterializing(&c17Locker{id: id, rec: rec})
		case 'F':
			c = p.Filter(func(v int) bool { return v%2 == 0 })
		case 'M':
			c = stream.Map(p, func(v int) int { return v + 10 })
		case 'L':
			c = p.Limit(2)
		case 'S':
			c = p.Skip(1)
		case 'P':
			c = p.Peek(func(int) {})
		case 'C':
			c = stream.Map(p, func(v int) int { return v + 10 }, stream.WithConcurrentMapOption(2))
		}
		all = append(all, c)
	}
	return all
}

func c17Ints(l []int) string {
	if len(l) == 0 {
		return "-"
	}
	parts := make([]string, len(l))
	for i, v := range l {
		parts[i] = strconv.Itoa(v)
	}
	return strings.Join(parts, ",")
}

// how the elements of every stream are compared: 0 exact, 1 sorted, 2 count only, 3 not at all (see the header)
func c17DataModes(ds []c17Deriv) []int {
	modes := make([]int, len(ds)+1)
	for j, d := range ds {
		m := modes[d.parent]
		switch {
		case d.kind == 'C':
			if m < 1 {
				m = 1
			}
		case (d.kind == 'L' || d.kind == 'S') && m == 1:
			m = 2
		case d.kind == 'F' && m >= 2:
			m = 3
		}
		modes[j+1] = m
	}
	return modes
}

func c17FmtData(mode int, data []int) string {
	switch mode {
	case 0:
		return c17Ints(data)
	case 1:
		cp := append([]int(nil), data...)
		sort.Ints(cp)
		return c17Ints(cp)
	}
	if mode == 2 {
		return "#" + strconv.Itoa(len(data))
	}
	return "?"
}

// Materialises one stream value.  When a concurrent map lies on its path the call also waits until the helper
// goroutines of that materialisation are gone: the mapper's channel fields are shared by all materialisations of the
// stream value (and of every stream derived from it) and its workers touch them for a short while after the terminal
// returned, so opening it again at once can crash the process ("send on closed channel") — an observation outside
// C17, see notes/C17.md; C17 is about what was written at derivation time, not about that window.
func c17Collect(ctx context.Context, s stream.Stream[int], async bool) ([]int, error) {
	if !async {
		return s.Collect(ctx)
	}
	base := runtime.NumGoroutine()
	data, err := s.Collect(ctx)
	deadline := time.Now().Add(5 * time.Second)
	for runtime.NumGoroutine() > base && time.Now().Before(deadline) {
		runtime.Gosched()
		if runtime.NumGoroutine() > base {
			time.Sleep(20 * time.Microsecond)
		}
	}
	return data, err
}

func c17ExecD(text string) string {
	head, ordText, ok := strings.Cut(text, " | ")
	if !ok {
		return "bad-case"
	}
	hf := strings.Fields(head)
	if len(hf) != 2 || len(hf[0]) != 2 || hf[0][0] != 'r' {
		return "bad-case"
	}
	root := hf[0][1]
	ds, ok := c17ParseDerivs(hf[1])
	if !ok {
		return "bad-case"
	}
	ctx := context.Background()
	modes := c17DataModes(ds)
	var sb strings.Builder
	sb.WriteString("solo")
	for i := 0; i <= len(ds); i++ {
		rec := &c17Rec{}
		all := c17BuildForest(root, ds, rec)
		data, err := c17Collect(ctx, all[i], modes[i] > 0)
		if err != nil {
			fmt.Fprintf(&sb, " %d:err", i)
			continue
		}
		fmt.Fprintf(&sb, " %d:%s/%s/%s", i, c17Ints(rec.opened), c17Ints(rec.closed), c17FmtData(modes[i], data))
	}
	for _, ord := range strings.Split(ordText, " ; ") {
		ord = strings.TrimSpace(ord)
		if ord == "" {
			continue
		}
		rec := &c17Rec{}
		all := c17BuildForest(root, ds, rec)
		sb.WriteString(" ; all")
		for _, t := range strings.Split(ord, ",") {
			i, err := strconv.Atoi(t)
			if err != nil || i < 0 || i >= len(all) {
				return "bad-case"
			}
			rec.opened, rec.closed = nil, nil
			if _, err := c17Collect(ctx, all[i], modes[i] > 0); err != nil {
				fmt.Fprintf(&sb, " %d:err", i)
				continue
			}
			fmt.Fprintf(&sb, " %d:%s/%s", i, c17Ints(rec.opened), c17Ints(rec.closed))
		}
	}
	return sb.String()
}

// ---------------------------------------------------------------------------------------------
// Q: report pipelines over one shared static source
// ---------------------------------------------------------------------------------------------

type c17Val struct {
	ref bool
	n   int
}

type c17Stage struct {
	kind byte // A S D
	vals []c17Val
}

func c17ParseVal(s string) (c17Val, bool) {
	if len(s) < 2 {
		return c17Val{}, false
	}
	n, err := strconv.Atoi(s[1:])
	if err != nil {
		return c17Val{}, false
	}
	switch s[0] {
	case 'c':
		return c17Val{false, n}, true
	case 'r':
		return c17Val{true, n}, n >= 0
	}
	return c17Val{}, false
}

func c17ParseChain(s string) ([]c17Stage, bool) {
	s = strings.TrimSpace(s)
	if s == "-" {
		return nil, true
	}
	var out []c17Stage
	for _, t := range strings.Split(s, ".") {
		if t == "" {
			return nil, false
		}
		switch t[0] {
		case 'D':
			if t != "D" {
				return nil, false
			}
			out = append(out, c17Stage{kind: 'D'})
		case 'A':
			v, ok := c17ParseVal(t[1:])
			if !ok {
				return nil, false
			}
			out = append(out, c17Stage{kind: 'A', vals: []c17Val{v}})
		case 'S':
			var vs []c17Val
			for _, x := range strings.Split(t[1:], "+") {
				v, ok := c17ParseVal(x)
				if !ok {
					return nil, false
				}
				vs = append(vs, v)
			}
			out = append(out, c17Stage{kind: 'S', vals: vs})
		default:
			return nil, false
		}
	}
	return out, true
}

var c17Base = time.Unix(1_000_000, 0).UTC()

// harness-defined filter: drops the rows with an odd index (shares metadata and row slices as they are)
type c17DropOdd struct{}

func (c17DropOdd) Filter(_ context.Context, result report.Result) (report.Result, error) {
	return report.NewResult(result.FieldsMeta(), result.Stream().Filter(func(r timeseries.TsRecord[[]any]) bool {
		return (r.Timestamp.Unix()-c17Base.Unix())%2 == 0
	})), nil
}

func c17Value(v c17Val, avail []string) (report.Value, error) {
	if v.ref {
		if v.n >= len(avail) {
			return nil, fmt.Errorf("ref out of range")
		}
		return report.NewRefFieldValue(avail[v.n]), nil
	}
	return report.NewConstantFieldValue(tsquery.ValueMeta{DataType: tsquery.DataTypeInteger, Required: true}, int64(v.n)), nil
}

// returns the filters of a chain and the urns of its result; urns is never written to
func c17Filters(chain []c17Stage, urns []string, tag string) ([]report.Filter, []string, error) {
	cur := append([]string(nil), urns...)
	var fs []report.Filter
	for si, st := range chain {
		switch st.kind {
		case 'D':
			fs = append(fs, c17DropOdd{})
		case 'A':
			val, err := c17Value(st.vals[0], cur)
			if err != nil {
				return nil, nil, err
			}
			urn := fmt.Sprintf("%s%d", tag, si)
			fs = append(fs, report.NewAppendFieldFilter(val, tsquery.AddFieldMeta{Urn: urn}))
			cur = append(append([]string(nil), cur...), urn)
		case 'S':
			var sel []report.SelectedField
			var nu []string
			for j, v := range st.vals {
				avail := append(append([]string(nil), cur...), nu...)
				val, err := c17Value(v, avail)
				if err != nil {
					return nil, nil, err
				}
				urn := fmt.Sprintf("%s%d_%d", tag, si, j)
				sel = append(sel, report.SelectedField{Value: val, Meta: tsquery.AddFieldMeta{Urn: urn}})
				nu = append(nu, urn)
			}
			fs = append(fs, report.NewSelectFieldsFilter(sel))
			cur = nu
		}
	}
	return fs, cur, nil
}

type c17Source struct {
	rows    [][]any
	recs    []timeseries.TsRecord[[]any]
	meta    []tsquery.FieldMeta
	snapRow [][]any
	snapMet []tsquery.FieldMeta
	urns    []string
}

func c17MustMeta(urn string) tsquery.FieldMeta {
	fm, err := tsquery.NewFieldMeta(urn, tsquery.DataTypeInteger, true)
	if err != nil {
		panic(err)
	}
	return *fm
}

func c17MakeSource(lay string, n, w, k, m int) *c17Source {
	src := &c17Source{}
	var big []any
	if lay == "pack" {
		big = make([]any, n*w+k)
		for j := 0; j < k; j++ {
			big[n*w+j] = int64(-1000 - j)
		}
	}
	for i := 0; i < n; i++ {
		var row []any
		if lay == "pack" {
			row = big[i*w : (i+1)*w]
		} else {
			row = make([]any, w, w+k)
			full := row[:w+k]
			for j := 0; j < k; j++ {
				full[w+j] = int64(-1000 - j)
			}
		}
		for j := 0; j < w; j++ {
			row[j] = int64(100*i + j + 1)
		}
		src.rows = append(src.rows, row)
		src.recs = append(src.recs, timeseries.TsRecord[[]any]{Timestamp: c17Base.Add(time.Duration(i) * time.Second), Value: row})
	}
	src.meta = make([]tsquery.FieldMeta, w, w+m)
	for j := 0; j < w; j++ {
		src.urns = append(src.urns, fmt.Sprintf("s%d", j))
		src.meta[j] = c17MustMeta(src.urns[j])
	}
	fullMeta := src.meta[:w+m]
	for j := 0; j < m; j++ {
		fullMeta[w+j] = c17MustMeta(fmt.Sprintf("zz%d", j))
	}
	// deep copies of everything the caller can reach, spare cells included
	for _, r := range src.rows {
		src.snapRow = append(src.snapRow, append([]any(nil), r[:cap(r)]...))
	}
	src.snapMet = append([]tsquery.FieldMeta(nil), fullMeta...)
	return src
}

func (src *c17Source) unchanged() bool {
	for i, r := range src.rows {
		full := r[:cap(r)]
		if len(full) != len(src.snapRow[i]) {
			return false
		}
		for j := range full {
			if full[j] != src.snapRow[i][j] {
				return false
			}
		}
		if src.recs[i].Value == nil || len(src.recs[i].Value) != len(r) || &src.recs[i].Value[0] != &r[0] {
			return false
		}
	}
	full := src.meta[:cap(src.meta)]
	if len(full) != len(src.snapMet) {
		return false
	}
	for j := range full {
		a, b := full[j], src.snapMet[j]
		if a.Urn() != b.Urn() || a.DataType() != b.DataType() || a.Required() != b.Required() || a.Unit() != b.Unit() {
			return false
		}
	}
	return true
}

func (src *c17Source) datasource() report.DataSource {
	ds, err := report.NewStaticDatasource(src.meta, stream.FromSlice(src.recs))
	if err != nil {
		panic(err)
	}
	return ds
}

func c17FmtRows(rows []timeseries.TsRecord[[]any]) string {
	if len(rows) == 0 {
		return "-"
	}
	parts := make([]string, len(rows))
	for i, r := range rows {
		vals := make([]string, len(r.Value))
		for j, v := range r.Value {
			switch x := v.(type) {
			case nil:
				vals[j] = "n"
			case int64:
				vals[j] = strconv.FormatInt(x, 10)
			default:
				vals[j] = fmt.Sprintf("?%T", v)
			}
		}
		vs := strings.Join(vals, ",")
		if len(vals) == 0 {
			vs = "-"
		}
		parts[i] = fmt.Sprintf("%d:%s", r.Timestamp.Unix()-c17Base.Unix(), vs)
	}
	return strings.Join(parts, ";")
}

func c17FmtMeta(m []tsquery.FieldMeta) string {
	if len(m) == 0 {
		return "-"
	}
	parts := make([]string, len(m))
	for i, f := range m {
		parts[i] = f.Urn()
	}
	return strings.Join(parts, ",")
}

func c17Wrap(ds report.DataSource, fs []report.Filter) report.DataSource {
	if len(fs) == 0 {
		return ds
	}
	return report.NewFilteredDataSource(ds, fs...)
}

func c17RunCombo(lay string, n, w, k, m int, mode string, chP, chQ, chJ []c17Stage) (out string) {
	defer func() {
		if r := recover(); r != nil {
			s := strings.ReplaceAll(fmt.Sprint(r), "\n", " ")
			if len(s) > 120 {
				s = s[:120]
			}
			out = "panic " + s
		}
	}()
	ctx := context.Background()
	from, to := c17Base, c17Base.Add(time.Hour)
	src := c17MakeSource(lay, n, w, k, m)
	fP, urnsP, err := c17Filters(chP, src.urns, "p")
	if err != nil {
		return "bad-case"
	}
	fQ, urnsQ, err := c17Filters(chQ, src.urns, "q")
	if err != nil {
		return "bad-case"
	}
	switch mode {
	case "seq", "alt":
		var dsP, dsQ report.DataSource
		if mode == "seq" {
			ds := src.datasource()
			dsP, dsQ = c17Wrap(ds, fP), c17Wrap(ds, fQ)
		} else {
			dsP, dsQ = c17Wrap(src.datasource(), fP), c17Wrap(src.datasource(), fQ)
		}
		resP, err := dsP.Execute(ctx, from, to)
		if err != nil {
			return "err execP"
		}
		resQ, err := dsQ.Execute(ctx, from, to)
		if err != nil {
			return "err execQ"
		}
		var rowsP, rowsQ []timeseries.TsRecord[[]any]
		if mode == "seq" {
			if rowsP, err = resP.Stream().Collect(ctx); err != nil {
				return "err collectP"
			}
			if rowsQ, err = resQ.Stream().Collect(ctx); err != nil {
				return "err collectQ"
			}
		} else {
			nextP, stopP := iter.Pull(iter.Seq[timeseries.TsRecord[[]any]](resP.Stream().Iterator))
			defer stopP()
			nextQ, stopQ := iter.Pull(iter.Seq[timeseries.TsRecord[[]any]](resQ.Stream().Iterator))
			defer stopQ()
			okP, okQ := true, true
			for okP || okQ {
				if okP {
					var r timeseries.TsRecord[[]any]
					if r, okP = nextP(); okP {
						rowsP = append(rowsP, r)
					}
				}
				if okQ {
					var r timeseries.TsRecord[[]any]
					if r, okQ = nextQ(); okQ {
						rowsQ = append(rowsQ, r)
					}
				}
			}
		}
		_ = urnsP
		_ = urnsQ
		return fmt.Sprintf("P=%s mP=%s Q=%s mQ=%s u=%s", c17FmtRows(rowsP), c17FmtMeta(resP.FieldsMeta()),
			c17FmtRows(rowsQ), c17FmtMeta(resQ.FieldsMeta()), c17Bit(src.unchanged()))
	case "joinI", "joinL", "joinF", "joinsharedI":
		jt := report.InnerJoin
		switch mode {
		case "joinL":
			jt = report.LeftJoin
		case "joinF":
			jt = report.FullJoin
		}
		var dsP, dsQ report.DataSource
		if mode == "joinsharedI" {
			ds := src.datasource()
			dsP, dsQ = c17Wrap(ds, fP), c17Wrap(ds, fQ)
		} else {
			dsP, dsQ = c17Wrap(src.datasource(), fP), c17Wrap(src.datasource(), fQ)
		}
		var j report.DataSource = report.NewJoinDatasource(report.NewListMultiDatasource([]report.DataSource{dsP, dsQ}), jt)
		fJ, _, err := c17Filters(chJ, append(append([]string(nil), urnsP...), urnsQ...), "j")
		if err != nil {
			return "bad-case"
		}
		j = c17Wrap(j, fJ)
		res, err := j.Execute(ctx, from, to)
		if err != nil {
			return "err exec"
		}
		rows, err := res.Stream().Collect(ctx)
		if err != nil {
			return "err collect"
		}
		return fmt.Sprintf("J=%s mJ=%s u=%s", c17FmtRows(rows), c17FmtMeta(res.FieldsMeta()), c17Bit(src.unchanged()))
	}
	return "bad-case"
}

func c17Bit(b bool) string {
	if b {
		return "1"
	}
	return "0"
}

func c17ExecQ(text string) string {
	parts := strings.Split(text, " | ")
	if len(parts) != 4 {
		return "bad-case"
	}
	hf := strings.Fields(parts[0])
	if len(hf) != 5 {
		return "bad-case"
	}
	lay := hf[0]
	if lay != "sep" && lay != "pack" {
		return "bad-case"
	}
	n, err1 := strconv.Atoi(strings.TrimPrefix(hf[1], "n="))
	w, err2 := strconv.Atoi(strings.TrimPrefix(hf[2], "w="))
	if err1 != nil || err2 != nil || n < 0 || n > 64 || w < 1 || w > 16 {
		return "bad-case"
	}
	capsText := strings.TrimPrefix(hf[3], "caps=")
	mode := hf[4]
	chP, ok1 := c17ParseChain(parts[1])
	chQ, ok2 := c17ParseChain(parts[2])
	chJ, ok3 := c17ParseChain(parts[3])
	if !ok1 || !ok2 || !ok3 {
		return "bad-case"
	}
	var sb strings.Builder
	for i, c := range strings.Split(capsText, ",") {
		ks, ms, ok := strings.Cut(c, ":")
		k, e1 := strconv.Atoi(ks)
		m, e2 := strconv.Atoi(ms)
		if !ok || e1 != nil || e2 != nil || k < 0 || m < 0 || k > 64 || m > 64 {
			return "bad-case"
		}
		if i > 0 {
			sb.WriteByte(' ')
		}
		fmt.Fprintf(&sb, "[%d:%d %s]", k, m, c17RunCombo(lay, n, w, k, m, mode, chP, chQ, chJ))
	}
	return sb.String()
}

// ---------------------------------------------------------------------------------------------
// generators
// ---------------------------------------------------------------------------------------------

func c17FmtDerivs(ds []c17Deriv) string {
	if len(ds) == 0 {
		return "-"
	}
	parts := make([]string, len(ds))
	for i, d := range ds {
		parts[i] = fmt.Sprintf("%d%c", d.parent, d.kind)
	}
	return strings.Join(parts, ",")
}

func c17Orders(c *Ctx, n int) string {
	// forward, reverse, one seeded permutation
	fw := make([]int, n)
	for i := range fw {
		fw[i] = i
	}
	rv := make([]int, n)
	for i := range rv {
		rv[i] = n - 1 - i
	}
	pm := append([]int(nil), fw...)
	for i := n - 1; i > 0; i-- {
		j := c.Rng.Intn(i + 1)
		pm[i], pm[j] = pm[j], pm[i]
	}
	return c17Ints(fw) + " ; " + c17Ints(rv) + " ; " + c17Ints(pm)
}

func c17EmitD(c *Ctx, root byte, ds []c17Deriv) {
	// non-trivial: some stream has at least two children (fan-out) and at least two lifecycle-adding derivations, or a
	// concurrent-map child is derived from a parent whose list has 3+ elements (spare capacity under Go's growth)
	kids := map[int]int{}
	adding := 0
	fan := false
	concSpare := false
	lens := []int{1}
	if root == '0' {
		lens[0] = 0
	}
	for _, d := range ds {
		kids[d.parent]++
		if kids[d.parent] >= 2 {
			fan = true
		}
		l := lens[d.parent]
		switch d.kind {
		case 'W', 'K':
			adding++
			l++
		case 'C':
			if l >= 3 {
				concSpare = true
			}
			l = 1 // the child's own list is the one-element wrapper
		}
		lens = append(lens, l)
	}
	c.Case((fan && adding >= 2) || concSpare, fmt.Sprintf("D r%c %s | %s", root, c17FmtDerivs(ds), c17Orders(c, len(ds)+1)))
}

func c17Substitute(c *Ctx, ds []c17Deriv) []c17Deriv {
	out := append([]c17Deriv(nil), ds...)
	for i := range out {
		if out[i].kind == 'W' {
			if c.Rng.Intn(3) == 0 {
				out[i].kind = 'K'
			}
		} else if out[i].kind != 'C' || c.Rng.Bool() {
			out[i].kind = "FMLSPC"[c.Rng.Intn(6)]
		}
	}
	return out
}

func genC17D(c *Ctx) {
	maxN := c.Pick(4, 5)
	// exhaustive: all recursive trees (every parent choice = every creation order) x kinds {W, F, C}
	// (thorough, up to 4 derivations: {W, K, F, L, C}) x roots.  A parent reaches spare capacity (len 3, cap 4) after
	// two lifecycle derivations below a one-element root (three below r0), so "C under a parent with spare capacity,
	// observed on the parent / a sibling created before or after" is inside 3..4 derivations.
	var rec func(ds []c17Deriv, n int, kinds []byte)
	rec = func(ds []c17Deriv, n int, kinds []byte) {
		if len(ds) == n {
			for _, root := range []byte{'0', '1', '2'} {
				c17EmitD(c, root, ds)
			}
			// one variant with locks and the other sharing operators
			c17EmitD(c, "012"[c.Rng.Intn(3)], c17Substitute(c, ds))
			return
		}
		for p := 0; p <= len(ds); p++ {
			for _, k := range kinds {
				rec(append(append([]c17Deriv(nil), ds...), c17Deriv{p, k}), n, kinds)
			}
		}
	}
	for n := 0; n <= maxN; n++ {
		kinds := []byte{'W', 'F', 'C'}
		if c.Thorough && n <= 4 {
			kinds = []byte{'W', 'K', 'F', 'L', 'C'}
		}
		rec(nil, n, kinds)
	}
	// seeded random larger forests (up to 10 derivations: lifecycle slices of every length 0..11)
	cnt := c.Pick(400, 20000)
	for i := 0; i < cnt; i++ {
		n := c.Rng.Range(5, 10)
		var ds []c17Deriv
		for j := 0; j < n; j++ {
			// bias: chains (parent = last) and fan-out (parent = a recent one)
			p := j
			switch c.Rng.Intn(4) {
			case 0:
				p = c.Rng.Intn(j + 1)
			case 1:
				if j > 0 {
					p = j - 1
				}
			}
			k := "WWWWKKFMLSPCC"[c.Rng.Intn(13)]
			ds = append(ds, c17Deriv{p, k})
		}
		c17EmitD(c, "012"[c.Rng.Intn(3)], ds)
	}
	// directed: a parent whose lifecycle list has 3..8 elements (built one derivation at a time, so Go's growth leaves
	// spare capacity: 3->cap 4, 4->6, 5->8, 6->10, 7->12, 8->14), below it siblings of EVERY kind in a seeded order
	// with one or two concurrent-map children among them (siblings created before and after), then a few
	// derivations anywhere (also below the concurrent-map children)
	cnt = c.Pick(80, 3000)
	for i := 0; i < cnt; i++ {
		root := "012"[c.Rng.Intn(3)]
		have := 1
		if root == '0' {
			have = 0
		}
		target := c.Rng.Range(3, 8)
		var ds []c17Deriv
		cur := 0
		for have < target {
			k := byte('W')
			switch c.Rng.Intn(6) {
			case 0:
				k = 'K'
			case 1:
				k = "FMP"[c.Rng.Intn(3)] // shares the list, does not lengthen it
			}
			ds = append(ds, c17Deriv{cur, k})
			cur = len(ds)
			if k == 'W' || k == 'K' {
				have++
			}
		}
		sibs := []byte("WKFMLSPC")
		if c.Rng.Bool() {
			sibs = append(sibs, 'C')
		}
		for j := len(sibs) - 1; j > 0; j-- {
			x := c.Rng.Intn(j + 1)
			sibs[j], sibs[x] = sibs[x], sibs[j]
		}
		for _, k := range sibs {
			ds = append(ds, c17Deriv{cur, k})
		}
		for x := c.Rng.Intn(4); x > 0; x-- {
			ds = append(ds, c17Deriv{c.Rng.Intn(len(ds) + 1), "WKFMLSPC"[c.Rng.Intn(8)]})
		}
		c17EmitD(c, root, ds)
	}
}

func c17FmtVal(v c17Val) string {
	if v.ref {
		return "r" + strconv.Itoa(v.n)
	}
	return "c" + strconv.Itoa(v.n)
}

func c17FmtChain(ch []c17Stage) string {
	if len(ch) == 0 {
		return "-"
	}
	parts := make([]string, len(ch))
	for i, st := range ch {
		switch st.kind {
		case 'D':
			parts[i] = "D"
		case 'A':
			parts[i] = "A" + c17FmtVal(st.vals[0])
		case 'S':
			vs := make([]string, len(st.vals))
			for j, v := range st.vals {
				vs[j] = c17FmtVal(v)
			}
			parts[i] = "S" + strings.Join(vs, "+")
		}
	}
	return strings.Join(parts, ".")
}

// width of the rows a chain delivers over rows of width w, and whether it keeps the source's columns
func c17ChainShape(ch []c17Stage, w int) (width int, keepsSource bool) {
	width, keepsSource = w, true
	for _, st := range ch {
		switch st.kind {
		case 'A':
			width++
		case 'S':
			width = len(st.vals)
			keepsSource = false
		}
	}
	return
}

// the stage alphabet of the exhaustive scope, instantiated for the current row width
func c17Alphabet(width int, salt int) []c17Stage {
	return []c17Stage{
		{kind: 'A', vals: []c17Val{{false, 7 + salt}}},
		{kind: 'A', vals: []c17Val{{true, width - 1}}},
		{kind: 'S', vals: []c17Val{{true, 0}}},
		{kind: 'S', vals: []c17Val{{false, 5 + salt}, {true, width}, {true, width - 1}}},
		{kind: 'D'},
	}
}

func c17AllChains(w, maxLen, salt int) [][]c17Stage {
	var out [][]c17Stage
	var rec func(ch []c17Stage, width int)
	rec = func(ch []c17Stage, width int) {
		out = append(out, append([]c17Stage(nil), ch...))
		if len(ch) >= maxLen {
			return
		}
		for _, st := range c17Alphabet(width, salt+10*len(ch)) {
			nw := width
			switch st.kind {
			case 'A':
				nw++
			case 'S':
				nw = len(st.vals)
			}
			rec(append(append([]c17Stage(nil), ch...), st), nw)
		}
	}
	rec(nil, w)
	return out
}

func c17EmitQ(c *Ctx, lay string, n, w int, caps, mode string, chP, chQ, chJ []c17Stage) {
	// non-trivial: both pipelines (or the join) really extend rows: at least two append/select/join stages overall
	ext := 0
	for _, ch := range [][]c17Stage{chP, chQ, chJ} {
		for _, st := range ch {
			if st.kind != 'D' {
				ext++
			}
		}
	}
	if strings.HasPrefix(mode, "join") {
		ext++
	}
	c.Case(ext >= 2 && n >= 2, fmt.Sprintf("Q %s n=%d w=%d caps=%s %s | %s | %s | %s", lay, n, w, caps, mode,
		c17FmtChain(chP), c17FmtChain(chQ), c17FmtChain(chJ)))
}

const c17CapsDiag = "0:0,1:1,2:2,3:3"
const c17CapsAll = "0:0,0:1,0:2,0:3,1:0,1:1,1:2,1:3,2:0,2:1,2:2,2:3,3:0,3:1,3:2,3:3"

func genC17Q(c *Ctx) {
	n, w := 3, 2
	short := c17AllChains(w, 2, 0)
	shortQ := c17AllChains(w, 2, 100)
	capsShort := c17CapsDiag
	if c.Thorough {
		capsShort = c17CapsAll
	}
	lays := []string{"sep", "pack"}
	joinPost := [][]c17Stage{nil}
	// exhaustive: all pairs of chains of length <= 2, every mode
	idx := 0
	for _, p := range short {
		for _, q := range shortQ {
			lay := lays[idx%2]
			idx++
			c17EmitQ(c, lay, n, w, capsShort, "seq", p, q, nil)
			c17EmitQ(c, lays[idx%2], n, w, capsShort, "alt", p, q, nil)
			_, keepP := c17ChainShape(p, w)
			_, keepQ := c17ChainShape(q, w)
			if keepP && keepQ {
				continue // both sides would carry the source's urns: the join rejects duplicate urns
			}
			wp, _ := c17ChainShape(p, w)
			wq, _ := c17ChainShape(q, w)
			for _, jm := range []string{"joinI", "joinL", "joinF"} {
				post := joinPost[0]
				switch c.Rng.Intn(3) {
				case 1:
					post = []c17Stage{{kind: 'A', vals: []c17Val{{true, c.Rng.Intn(wp + wq)}}}}
				case 2:
					post = []c17Stage{{kind: 'S', vals: []c17Val{{true, wp + wq - 1}, {false, 3}, {true, wp + wq + 1}}}}
				}
				c17EmitQ(c, lay, n, w, capsShort, jm, p, q, post)
			}
		}
	}
	// thorough: P up to 3 stages against Q up to 2, diagonal capacities
	if c.Thorough {
		long := c17AllChains(w, 3, 0)
		for _, p := range long {
			if len(p) < 3 {
				continue
			}
			for _, q := range shortQ {
				lay := lays[idx%2]
				idx++
				mode := []string{"seq", "alt"}[idx%2]
				c17EmitQ(c, lay, n, w, c17CapsDiag, mode, p, q, nil)
				_, keepP := c17ChainShape(p, w)
				_, keepQ := c17ChainShape(q, w)
				if !(keepP && keepQ) {
					c17EmitQ(c, lay, n, w, c17CapsDiag, []string{"joinI", "joinL", "joinF"}[idx%3], p, q, nil)
					c17EmitQ(c, lay, n, w, c17CapsDiag, []string{"joinL", "joinF", "joinI"}[idx%3], q, p, nil)
				}
			}
		}
	}
	// seeded random larger ones
	cnt := c.Pick(300, 12000)
	for i := 0; i < cnt; i++ {
		rn := c.Rng.Range(1, 6)
		rw := c.Rng.Range(1, 4)
		randChain := func(maxLen int, width int) []c17Stage {
			var ch []c17Stage
			ln := c.Rng.Intn(maxLen + 1)
			for s := 0; s < ln; s++ {
				rv := func(avail int) c17Val {
					if c.Rng.Bool() {
						return c17Val{true, c.Rng.Intn(avail)}
					}
					return c17Val{false, c.Rng.Range(-50, 50)}
				}
				switch c.Rng.Intn(5) {
				case 0:
					ch = append(ch, c17Stage{kind: 'D'})
				case 1, 2:
					ch = append(ch, c17Stage{kind: 'A', vals: []c17Val{rv(width)}})
					width++
				default:
					k := c.Rng.Range(1, 4)
					var vs []c17Val
					for j := 0; j < k; j++ {
						vs = append(vs, rv(width+j))
					}
					ch = append(ch, c17Stage{kind: 'S', vals: vs})
					width = k
				}
			}
			return ch
		}
		p := randChain(4, rw)
		q := randChain(4, rw)
		var caps []string
		for x := 0; x < 3; x++ {
			caps = append(caps, fmt.Sprintf("%d:%d", c.Rng.Intn(6), c.Rng.Intn(6)))
		}
		caps = append(caps, "0:0")
		mode := []string{"seq", "alt", "joinI", "joinL", "joinF"}[c.Rng.Intn(5)]
		var post []c17Stage
		if strings.HasPrefix(mode, "join") {
			_, keepP := c17ChainShape(p, rw)
			_, keepQ := c17ChainShape(q, rw)
			if keepP && keepQ {
				q = append(q, c17Stage{kind: 'S', vals: []c17Val{{true, 0}}})
			}
			wp, _ := c17ChainShape(p, rw)
			wq, _ := c17ChainShape(q, rw)
			post = randChain(2, wp+wq)
		}
		c17EmitQ(c, lays[c.Rng.Intn(2)], rn, rw, strings.Join(caps, ","), mode, p, q, post)
	}
}

func genC17(c *Ctx) {
	// run.go seeds splitmix64 with seed*gamma: the stream of seed k+1 is the stream of seed k advanced by one draw, and
	// generators whose consumption depends on the data re-synchronise after a few cases.  Re-seeding from one MIXED
	// output (still a function of VERIF_SEED only) gives unrelated streams for neighbouring seeds.
	c.Rng = NewRng(c.Rng.Next())
	genC17D(c)
	genC17Q(c)
	genC17M(c)
}
