package run

// QUERY family (C10/C11): shared tokenizer, s-expression parser, builders of REAL tsquery objects, executor and
// printers. The binding specification of the grammar and of the observation format is notes/C10-protocol.md.

import (
	"context"
	"errors"
	"fmt"
	"io"
	"log/slog"
	"math"
	"os"
	"runtime/debug"
	"slices"
	"sort"
	"strconv"
	"strings"
	"sync/atomic"
	"time"

	"github.com/shpandrak/shpanstream/stream"
	"github.com/shpandrak/shpanstream/utils/timeseries"
	"github.com/shpandrak/shpanstream/utils/timeseries/tsquery"
	"github.com/shpandrak/shpanstream/utils/timeseries/tsquery/datasource"
	"github.com/shpandrak/shpanstream/utils/timeseries/tsquery/report"
)

func init() {
	// The stream terminal logs every recovered panic (with a stack trace) to the default slog logger.
	slog.SetDefault(slog.New(slog.NewTextHandler(io.Discard, nil)))
}

// ---------------------------------------------------------------------------------------------------------------
// s-expressions

type qsx struct {
	atom   string
	list   []*qsx
	isList bool
}

func (n *qsx) head() string {
	if n == nil || !n.isList || len(n.list) == 0 || n.list[0].isList {
		return ""
	}
	return n.list[0].atom
}

// args returns the children after the head atom.
func (n *qsx) args() []*qsx { return n.list[1:] }

var errQBad = errors.New("bad-case")

// qInputReject: a constructor failed while BUILDING an input; the whole observation is `reject <class> prepull=0`.
type qInputReject struct{ class string }

func (e qInputReject) Error() string { return "input reject " + e.class }

func qTokens(s string) ([]string, error) {
	if s == "" {
		return nil, errQBad
	}
	toks := strings.Split(s, " ")
	for _, t := range toks {
		if t == "" {
			return nil, errQBad
		}
	}
	return toks, nil
}

// qParseSx parses ONE s-expression starting at toks[pos]; returns the node and the next position.
func qParseSx(toks []string, pos int) (*qsx, int, error) {
	if pos >= len(toks) {
		return nil, pos, errQBad
	}
	t := toks[pos]
	if t == ")" {
		return nil, pos, errQBad
	}
	if t != "(" {
		return &qsx{atom: t}, pos + 1, nil
	}
	n := &qsx{isList: true}
	pos++
	for {
		if pos >= len(toks) {
			return nil, pos, errQBad
		}
		if toks[pos] == ")" {
			return n, pos + 1, nil
		}
		c, np, err := qParseSx(toks, pos)
		if err != nil {
			return nil, np, err
		}
		n.list = append(n.list, c)
		pos = np
	}
}

// qParseWhole parses toks as exactly one s-expression.
func qParseWhole(toks []string) (*qsx, error) {
	n, pos, err := qParseSx(toks, 0)
	if err != nil {
		return nil, err
	}
	if pos != len(toks) {
		return nil, errQBad
	}
	return n, nil
}

// ---------------------------------------------------------------------------------------------------------------
// atoms

func qStr(n *qsx) (string, error) {
	if n.isList || !strings.HasPrefix(n.atom, "'") {
		return "", errQBad
	}
	return n.atom[1:], nil
}

func qOptStr(n *qsx) (*string, error) {
	if !n.isList && n.atom == "nil" {
		return nil, nil
	}
	s, err := qStr(n)
	if err != nil {
		return nil, err
	}
	return &s, nil
}

func qBoolFlag(n *qsx) (bool, error) {
	if n.isList {
		return false, errQBad
	}
	switch n.atom {
	case "1":
		return true, nil
	case "0":
		return false, nil
	}
	return false, errQBad
}

var qDtByName = map[string]tsquery.DataType{
	"int":   tsquery.DataTypeInteger,
	"dec":   tsquery.DataTypeDecimal,
	"str":   tsquery.DataTypeString,
	"bool":  tsquery.DataTypeBoolean,
	"ts":    tsquery.DataTypeTimestamp,
	"bogus": tsquery.DataType("bogus"),
}

func qDtAtom(s string) (tsquery.DataType, error) {
	dt, ok := qDtByName[s]
	if !ok {
		return "", errQBad
	}
	return dt, nil
}

func qDt(n *qsx) (tsquery.DataType, error) {
	if n.isList {
		return "", errQBad
	}
	return qDtAtom(n.atom)
}

func qDtName(dt tsquery.DataType) string {
	switch dt {
	case tsquery.DataTypeInteger:
		return "int"
	case tsquery.DataTypeDecimal:
		return "dec"
	case tsquery.DataTypeString:
		return "str"
	case tsquery.DataTypeBoolean:
		return "bool"
	case tsquery.DataTypeTimestamp:
		return "ts"
	}
	return "bogus"
}

func qCellAtom(a string) (any, error) {
	switch {
	case a == "nil":
		return nil, nil
	case strings.HasPrefix(a, "i:"):
		v, err := strconv.ParseInt(a[2:], 10, 64)
		if err != nil {
			return nil, errQBad
		}
		return v, nil
	case strings.HasPrefix(a, "d:"):
		h := a[2:]
		if len(h) != 16 || strings.ToLower(h) != h {
			return nil, errQBad
		}
		u, err := strconv.ParseUint(h, 16, 64)
		if err != nil {
			return nil, errQBad
		}
		return math.Float64frombits(u), nil
	case strings.HasPrefix(a, "'"):
		return a[1:], nil
	case a == "b:1":
		return true, nil
	case a == "b:0":
		return false, nil
	case strings.HasPrefix(a, "t:"):
		v, err := strconv.ParseInt(a[2:], 10, 64)
		if err != nil {
			return nil, errQBad
		}
		return time.Unix(0, v).UTC(), nil
	}
	return nil, errQBad
}

func qCell(n *qsx) (any, error) {
	if n.isList {
		return nil, errQBad
	}
	return qCellAtom(n.atom)
}

func qFmtCell(v any, mask bool) string {
	switch x := v.(type) {
	case nil:
		return "nil"
	case int64:
		return "i:" + strconv.FormatInt(x, 10)
	case float64:
		if mask {
			return "d:*"
		}
		if math.IsNaN(x) {
			return "d:7ff8000000000001" // every NaN prints with the canonical bits, whatever its payload/sign
		}
		return fmt.Sprintf("d:%016x", math.Float64bits(x))
	case string:
		return "'" + x
	case bool:
		if x {
			return "b:1"
		}
		return "b:0"
	case time.Time:
		return "t:" + strconv.FormatInt(x.UnixNano(), 10)
	}
	return "x:" + strings.ReplaceAll(fmt.Sprintf("%T", v), " ", "")
}

func qCm(n *qsx) (map[string]any, error) {
	if !n.isList {
		if n.atom == "nil" {
			return nil, nil
		}
		return nil, errQBad
	}
	if n.head() != "cm" || len(n.args())%2 != 0 {
		return nil, errQBad
	}
	m := map[string]any{}
	a := n.args()
	for i := 0; i < len(a); i += 2 {
		k, err := qStr(a[i])
		if err != nil {
			return nil, err
		}
		v, err := qStr(a[i+1])
		if err != nil {
			return nil, err
		}
		m[k] = v
	}
	return m, nil
}

func qFmtCm(m map[string]any) string {
	if m == nil {
		return "nil"
	}
	keys := make([]string, 0, len(m))
	for k := range m {
		keys = append(keys, k)
	}
	sort.Strings(keys)
	var sb strings.Builder
	sb.WriteString("( cm")
	for _, k := range keys {
		sb.WriteString(" '")
		sb.WriteString(k)
		if s, ok := m[k].(string); ok {
			sb.WriteString(" '" + s)
		} else {
			sb.WriteString(" " + qFmtCell(m[k], false))
		}
	}
	sb.WriteString(" )")
	return sb.String()
}

func qB01(b bool) string {
	if b {
		return "1"
	}
	return "0"
}

func qFmtFm(fm tsquery.FieldMeta) string {
	return "( fm '" + fm.Urn() + " " + qDtName(fm.DataType()) + " " + qB01(fm.Required()) + " '" + fm.Unit() + " " + qFmtCm(fm.CustomMeta()) + " )"
}

// ---------------------------------------------------------------------------------------------------------------
// reject classes: first matching substring of err.Error(), in THIS order

var qRejectTable = [][2]string{
	{"field urn must not be empty", "metaEmptyUrn"},
	{"invalid data type", "metaInvalidType"},
	{"value is required", "constRequiredNil"},
	{"failed validating constant field data", "constBadData"},
	{"not found time series", "refNotFound"},
	{"failed to get cast function", "castUnsupported"},
	{"operand types do not match", "condTypeMismatch"},
	{"failed to get comparison function", "condOpUnsupported"},
	{"op1 field has non-numeric", "numNonNumeric1"},
	{"op2 field has non-numeric", "numNonNumeric2"},
	{"incompatible datatypes for fields :", "numIncompatible"},
	{"mod operator is only supported", "numMod"},
	{"operand field has non-numeric", "unNonNumeric"},
	{"failed to get function implementation", "opUnsupported"},
	{"operand 1 must be of required", "logicOptional1"},
	{"operand 2  must be of required", "logicOptional2"},
	{"operand 1 must be of boolean", "logicNonBool1"},
	{"operand 2 must be of boolean", "logicNonBool2"},
	{"unsupported logical operator type", "logicBadOp"},
	{"incompatible datatypes for fields for nvl", "nvlIncompatible"},
	{"alternative field must be required", "nvlAltOptional"},
	{"selector field must be boolean", "selNonBool"},
	{"selector field must be required", "selOptional"},
	{"incompatible datatypes for true field", "selType"},
	{"incompatible units for true field", "selUnit"},
	{"incompatible required status", "selRequired"},
	{"some fields not found", "reduceMissing"},
	{"no fields to reduce", "reduceNone"},
	{"all fields must have the same data type", "reduceTypeMix"},
	{"all datasources must have the same data type", "reduceTypeMix"},
	{"must be numeric (integer or decimal)", "reduceNonNumeric"},
	{"failed to get reduction function", "reduceBadType"},
	{"alignment period is required", "redNoPeriod"},
	{"must be a static value", "redFallbackNotStatic"},
	{"no datasources to reduce", "redNoSources"},
	{"URN in addFieldMeta is required", "redNoUrn"},
	{"aligner filter can only be applied to numeric", "alignNonNumeric"},
	{": must be required", "reduceOptional"},
	{"cannot append field, since it is duplicate", "appendDup"},
	{"cannot drop all fields", "dropAll"},
	{"cannot drop fields, since they do not exist", "dropMissing"},
	{"list is empty", "selectEmpty"},
	{"cannot select fields: duplicate URN", "selectDup"},
	{"delta filter can only be applied to numeric", "deltaNonNumeric"},
	{"delta filter can only be applied to required", "deltaOptional"},
	{"rate filter can only be applied to numeric", "rateNonNumeric"},
	{"rate filter can only be applied to required", "rateOptional"},
	{"cannot replace field, since it does not exist", "replaceMissing"},
	{"cannot replace field ", "replaceDup"},
	{"since it already exists in the result", "overrideConflict"},
	{"condition filter requires a boolean field", "whereNonBool"},
	{"condition filter requires a required", "whereOptional"},
	{"fieldsMeta cannot be empty", "staticEmpty"},
	{"duplicate field URN found", "staticDup"},
	{"found while joining datasources", "joinDup"},
	{"not found in report datasource", "todsNotFound"},
}

func qClassify(err error) string {
	msg := err.Error()
	for _, e := range qRejectTable {
		if strings.Contains(msg, e[0]) {
			return e[1]
		}
	}
	r := []rune(msg)
	if len(r) > 40 {
		r = r[:40]
	}
	s := string(r)
	s = strings.ReplaceAll(s, " ", "_")
	s = strings.ReplaceAll(s, "\n", "_")
	return "other:" + s
}

// ---------------------------------------------------------------------------------------------------------------
// operators

var qCopByName = map[string]tsquery.ConditionOperatorType{
	"eq": tsquery.ConditionOperatorEquals, "ne": tsquery.ConditionOperatorNotEquals,
	"gt": tsquery.ConditionOperatorGreaterThan, "lt": tsquery.ConditionOperatorLessThan,
	"ge": tsquery.ConditionOperatorGreaterEqual, "le": tsquery.ConditionOperatorLessEqual,
	"bogus": tsquery.ConditionOperatorType("bogus"),
}

var qBopByName = map[string]tsquery.BinaryNumericOperatorType{
	"add": tsquery.BinaryNumericOperatorAdd, "sub": tsquery.BinaryNumericOperatorSub,
	"mul": tsquery.BinaryNumericOperatorMul, "div": tsquery.BinaryNumericOperatorDiv,
	"mod": tsquery.BinaryNumericOperatorMod, "bogus": tsquery.BinaryNumericOperatorType("bogus"),
}

var qUopByName = map[string]tsquery.UnaryNumericOperatorType{
	"abs": tsquery.UnaryNumericOperatorAbs, "neg": tsquery.UnaryNumericOperatorNegate,
	"sqrt": tsquery.UnaryNumericOperatorSqrt, "ceil": tsquery.UnaryNumericOperatorCeil,
	"floor": tsquery.UnaryNumericOperatorFloor, "round": tsquery.UnaryNumericOperatorRound,
	"log": tsquery.UnaryNumericOperatorLog, "log10": tsquery.UnaryNumericOperatorLog10,
	"exp": tsquery.UnaryNumericOperatorExp, "sin": tsquery.UnaryNumericOperatorSin,
	"cos": tsquery.UnaryNumericOperatorCos, "tan": tsquery.UnaryNumericOperatorTan,
	"bogus": tsquery.UnaryNumericOperatorType("bogus"),
}

var qLopByName = map[string]tsquery.LogicalOperatorType{
	"and": tsquery.LogicalOperatorAnd, "or": tsquery.LogicalOperatorOr, "bogus": tsquery.LogicalOperatorType("bogus"),
}

var qRtByName = map[string]tsquery.ReductionType{
	"sum": tsquery.ReductionTypeSum, "avg": tsquery.ReductionTypeAvg, "min": tsquery.ReductionTypeMin,
	"max": tsquery.ReductionTypeMax, "count": tsquery.ReductionTypeCount, "bogus": tsquery.ReductionType("bogus"),
}

var qTranscendental = map[string]bool{"log": true, "log10": true, "exp": true, "sin": true, "cos": true, "tan": true}

func qAtomOf(n *qsx) (string, error) {
	if n.isList {
		return "", errQBad
	}
	return n.atom, nil
}

// ---------------------------------------------------------------------------------------------------------------
// builder: parsed tree -> real library objects (public constructors only)

type qBuilder struct {
	ctr *int64 // the probe: records pulled from the static streams of this build
	ev  *int64 // the probe: provider events (Open / Emit incl. the EOF call / Close) of the static streams [C05 Q cases]
	ext bool   // (historic) the stream filters align / alignfill / delta / rate are part of the grammar for every family now
}

func newQBuilder() *qBuilder { return &qBuilder{ctr: new(int64), ev: new(int64)} }

func (b *qBuilder) pulled() int64 { return atomic.LoadInt64(b.ctr) }

func (b *qBuilder) events() int64 { return atomic.LoadInt64(b.ev) }

// qProbeProvider is the probe under every static datasource: a slice-backed stream.Provider that counts its
// Open / Emit / Close calls (ev) and the records it delivers (ctr).
type qProbeProvider[T any] struct {
	rows []T
	idx  int
	ctr  *int64
	ev   *int64
}

func (p *qProbeProvider[T]) Open(_ context.Context) error {
	atomic.AddInt64(p.ev, 1)
	p.idx = 0
	return nil
}

func (p *qProbeProvider[T]) Emit(_ context.Context) (T, error) {
	atomic.AddInt64(p.ev, 1)
	if p.idx >= len(p.rows) {
		var zero T
		return zero, io.EOF
	}
	v := p.rows[p.idx]
	p.idx++
	atomic.AddInt64(p.ctr, 1)
	return v, nil
}

func (p *qProbeProvider[T]) Close() { atomic.AddInt64(p.ev, 1) }

func qProbeRows[T any](b *qBuilder, rows []T) stream.Stream[T] {
	return stream.NewStream[T](&qProbeProvider[T]{rows: slices.Clone(rows), ctr: b.ctr, ev: b.ev})
}

func (b *qBuilder) fm(n *qsx) (*tsquery.FieldMeta, error) {
	if n.head() != "fm" || len(n.args()) != 5 {
		return nil, errQBad
	}
	a := n.args()
	urn, err := qStr(a[0])
	if err != nil {
		return nil, err
	}
	dt, err := qDt(a[1])
	if err != nil {
		return nil, err
	}
	req, err := qBoolFlag(a[2])
	if err != nil {
		return nil, err
	}
	unit, err := qStr(a[3])
	if err != nil {
		return nil, err
	}
	cm, err := qCm(a[4])
	if err != nil {
		return nil, err
	}
	fm, ferr := tsquery.NewFieldMetaWithCustomData(urn, dt, req, unit, cm)
	if ferr != nil {
		return nil, qInputReject{qClassify(ferr)}
	}
	return fm, nil
}

func (b *qBuilder) vm(n *qsx) (tsquery.ValueMeta, error) {
	var z tsquery.ValueMeta
	if n.head() != "vm" || len(n.args()) != 4 {
		return z, errQBad
	}
	a := n.args()
	dt, err := qDt(a[0])
	if err != nil {
		return z, err
	}
	req, err := qBoolFlag(a[1])
	if err != nil {
		return z, err
	}
	unit, err := qStr(a[2])
	if err != nil {
		return z, err
	}
	cm, err := qCm(a[3])
	if err != nil {
		return z, err
	}
	return tsquery.ValueMeta{DataType: dt, Unit: unit, Required: req, CustomMeta: cm}, nil
}

func (b *qBuilder) afm(n *qsx) (tsquery.AddFieldMeta, error) {
	var z tsquery.AddFieldMeta
	if n.head() != "afm" || len(n.args()) != 3 {
		return z, errQBad
	}
	a := n.args()
	urn, err := qStr(a[0])
	if err != nil {
		return z, err
	}
	unit, err := qStr(a[1])
	if err != nil {
		return z, err
	}
	cm, err := qCm(a[2])
	if err != nil {
		return z, err
	}
	return tsquery.AddFieldMeta{Urn: urn, CustomMeta: cm, OverrideUnit: unit}, nil
}

// rv builds a report-package value.
func (b *qBuilder) rv(n *qsx) (report.Value, error) {
	a := n.list
	switch n.head() {
	case "const":
		if len(a) != 3 {
			return nil, errQBad
		}
		vm, err := b.vm(a[1])
		if err != nil {
			return nil, err
		}
		c, err := qCell(a[2])
		if err != nil {
			return nil, err
		}
		return report.NewConstantFieldValue(vm, c), nil
	case "ref":
		if len(a) != 2 {
			return nil, errQBad
		}
		urn, err := qStr(a[1])
		if err != nil {
			return nil, err
		}
		return report.NewRefFieldValue(urn), nil
	case "cast":
		if len(a) != 3 {
			return nil, errQBad
		}
		src, err := b.rv(a[1])
		if err != nil {
			return nil, err
		}
		dt, err := qDt(a[2])
		if err != nil {
			return nil, err
		}
		return report.NewCastFieldValue(src, dt), nil
	case "cond":
		if len(a) != 4 {
			return nil, errQBad
		}
		opn, err := qAtomOf(a[1])
		if err != nil {
			return nil, err
		}
		op, ok := qCopByName[opn]
		if !ok {
			return nil, errQBad
		}
		v1, err := b.rv(a[2])
		if err != nil {
			return nil, err
		}
		v2, err := b.rv(a[3])
		if err != nil {
			return nil, err
		}
		return report.NewConditionFieldValue(op, v1, v2), nil
	case "num":
		if len(a) != 4 {
			return nil, errQBad
		}
		opn, err := qAtomOf(a[1])
		if err != nil {
			return nil, err
		}
		op, ok := qBopByName[opn]
		if !ok {
			return nil, errQBad
		}
		v1, err := b.rv(a[2])
		if err != nil {
			return nil, err
		}
		v2, err := b.rv(a[3])
		if err != nil {
			return nil, err
		}
		return report.NewNumericExpressionFieldValue(v1, op, v2), nil
	case "un":
		if len(a) != 3 {
			return nil, errQBad
		}
		opn, err := qAtomOf(a[1])
		if err != nil {
			return nil, err
		}
		op, ok := qUopByName[opn]
		if !ok {
			return nil, errQBad
		}
		v1, err := b.rv(a[2])
		if err != nil {
			return nil, err
		}
		return report.NewUnaryNumericOperatorFieldValue(v1, op), nil
	case "logic":
		if len(a) != 4 {
			return nil, errQBad
		}
		opn, err := qAtomOf(a[1])
		if err != nil {
			return nil, err
		}
		op, ok := qLopByName[opn]
		if !ok {
			return nil, errQBad
		}
		v1, err := b.rv(a[2])
		if err != nil {
			return nil, err
		}
		v2, err := b.rv(a[3])
		if err != nil {
			return nil, err
		}
		return report.NewLogicalExpressionFieldValue(op, v1, v2), nil
	case "nvl":
		if len(a) != 3 {
			return nil, errQBad
		}
		v1, err := b.rv(a[1])
		if err != nil {
			return nil, err
		}
		v2, err := b.rv(a[2])
		if err != nil {
			return nil, err
		}
		return report.NewNvlFieldValue(v1, v2), nil
	case "sel":
		if len(a) != 4 {
			return nil, errQBad
		}
		v1, err := b.rv(a[1])
		if err != nil {
			return nil, err
		}
		v2, err := b.rv(a[2])
		if err != nil {
			return nil, err
		}
		v3, err := b.rv(a[3])
		if err != nil {
			return nil, err
		}
		return report.NewSelectorFieldValue(v1, v2, v3), nil
	case "reduce":
		if len(a) < 2 {
			return nil, errQBad
		}
		rtn, err := qAtomOf(a[1])
		if err != nil {
			return nil, err
		}
		rt, ok := qRtByName[rtn]
		if !ok {
			return nil, errQBad
		}
		if len(a) == 3 && !a[2].isList && a[2].atom == "all" {
			return report.NewReduceAllFieldValues(rt), nil
		}
		urns := []string{}
		for _, u := range a[2:] {
			s, err := qStr(u)
			if err != nil {
				return nil, err
			}
			urns = append(urns, s)
		}
		return report.NewReduceFieldValues(urns, rt), nil
	}
	return nil, errQBad
}

// dv builds a datasource-package value.
func (b *qBuilder) dv(n *qsx) (datasource.Value, error) {
	a := n.list
	switch n.head() {
	case "const":
		if len(a) != 3 {
			return nil, errQBad
		}
		vm, err := b.vm(a[1])
		if err != nil {
			return nil, err
		}
		c, err := qCell(a[2])
		if err != nil {
			return nil, err
		}
		return datasource.NewConstantFieldValue(vm, c), nil
	case "ref":
		if len(a) != 1 {
			return nil, errQBad
		}
		return datasource.NewRefFieldValue(), nil
	case "cast":
		if len(a) != 3 {
			return nil, errQBad
		}
		src, err := b.dv(a[1])
		if err != nil {
			return nil, err
		}
		dt, err := qDt(a[2])
		if err != nil {
			return nil, err
		}
		return datasource.NewCastFieldValue(src, dt), nil
	case "cond":
		if len(a) != 4 {
			return nil, errQBad
		}
		opn, err := qAtomOf(a[1])
		if err != nil {
			return nil, err
		}
		op, ok := qCopByName[opn]
		if !ok {
			return nil, errQBad
		}
		v1, err := b.dv(a[2])
		if err != nil {
			return nil, err
		}
		v2, err := b.dv(a[3])
		if err != nil {
			return nil, err
		}
		return datasource.NewConditionFieldValue(op, v1, v2), nil
	case "num":
		if len(a) != 4 {
			return nil, errQBad
		}
		opn, err := qAtomOf(a[1])
		if err != nil {
			return nil, err
		}
		op, ok := qBopByName[opn]
		if !ok {
			return nil, errQBad
		}
		v1, err := b.dv(a[2])
		if err != nil {
			return nil, err
		}
		v2, err := b.dv(a[3])
		if err != nil {
			return nil, err
		}
		return datasource.NewNumericExpressionFieldValue(v1, op, v2), nil
	case "un":
		if len(a) != 3 {
			return nil, errQBad
		}
		opn, err := qAtomOf(a[1])
		if err != nil {
			return nil, err
		}
		op, ok := qUopByName[opn]
		if !ok {
			return nil, errQBad
		}
		v1, err := b.dv(a[2])
		if err != nil {
			return nil, err
		}
		return datasource.NewUnaryNumericOperatorFieldValue(v1, op), nil
	case "logic":
		if len(a) != 4 {
			return nil, errQBad
		}
		opn, err := qAtomOf(a[1])
		if err != nil {
			return nil, err
		}
		op, ok := qLopByName[opn]
		if !ok {
			return nil, errQBad
		}
		v1, err := b.dv(a[2])
		if err != nil {
			return nil, err
		}
		v2, err := b.dv(a[3])
		if err != nil {
			return nil, err
		}
		return datasource.NewLogicalExpressionFieldValue(op, v1, v2), nil
	case "nvl":
		if len(a) != 3 {
			return nil, errQBad
		}
		v1, err := b.dv(a[1])
		if err != nil {
			return nil, err
		}
		v2, err := b.dv(a[2])
		if err != nil {
			return nil, err
		}
		return datasource.NewNvlFieldValue(v1, v2), nil
	case "sel":
		if len(a) != 4 {
			return nil, errQBad
		}
		v1, err := b.dv(a[1])
		if err != nil {
			return nil, err
		}
		v2, err := b.dv(a[2])
		if err != nil {
			return nil, err
		}
		v3, err := b.dv(a[3])
		if err != nil {
			return nil, err
		}
		return datasource.NewSelectorFieldValue(v1, v2, v3), nil
	}
	return nil, errQBad
}

// rf builds a report filter.
func (b *qBuilder) rf(n *qsx) (report.Filter, error) {
	a := n.list
	switch n.head() {
	case "append":
		if len(a) != 3 {
			return nil, errQBad
		}
		v, err := b.rv(a[1])
		if err != nil {
			return nil, err
		}
		m, err := b.afm(a[2])
		if err != nil {
			return nil, err
		}
		return report.NewAppendFieldFilter(v, m), nil
	case "drop":
		var urns []string
		for _, u := range a[1:] {
			s, err := qStr(u)
			if err != nil {
				return nil, err
			}
			urns = append(urns, s)
		}
		return report.NewDropFieldsFilter(urns...), nil
	case "select":
		var sel []report.SelectedField
		for _, e := range a[1:] {
			if !e.isList || len(e.list) != 2 {
				return nil, errQBad
			}
			v, err := b.rv(e.list[0])
			if err != nil {
				return nil, err
			}
			m, err := b.afm(e.list[1])
			if err != nil {
				return nil, err
			}
			sel = append(sel, report.SelectedField{Value: v, Meta: m})
		}
		return report.NewSelectFieldsFilter(sel), nil
	case "replace":
		if len(a) != 4 {
			return nil, errQBad
		}
		urn, err := qStr(a[1])
		if err != nil {
			return nil, err
		}
		v, err := b.rv(a[2])
		if err != nil {
			return nil, err
		}
		m, err := b.afm(a[3])
		if err != nil {
			return nil, err
		}
		return report.NewReplaceFieldFilter(urn, v, m), nil
	case "single":
		if len(a) != 3 {
			return nil, errQBad
		}
		v, err := b.rv(a[1])
		if err != nil {
			return nil, err
		}
		m, err := b.afm(a[2])
		if err != nil {
			return nil, err
		}
		return report.NewSingleFieldFilter(v, m), nil
	case "override":
		if len(a) != 5 {
			return nil, errQBad
		}
		urn, err := qStr(a[1])
		if err != nil {
			return nil, err
		}
		nu, err := qOptStr(a[2])
		if err != nil {
			return nil, err
		}
		nun, err := qOptStr(a[3])
		if err != nil {
			return nil, err
		}
		cm, err := qCm(a[4])
		if err != nil {
			return nil, err
		}
		return report.NewOverrideFieldMetadataFilter(urn, nu, nun, cm), nil
	case "where":
		if len(a) != 2 {
			return nil, errQBad
		}
		v, err := b.rv(a[1])
		if err != nil {
			return nil, err
		}
		return report.NewConditionFilter(v), nil
	case "align", "alignfill", "aligncal", "aligncalfill":
		if !b.ext && strings.HasPrefix(a[0].atom, "aligncal") && !qCalHasTable(a) {
			return nil, errQBad // calendar periods without the zone's offset table: spec-only X cases / C05 Q cases
		}
		ap, fm, err := qAlignArgs(a)
		if err != nil {
			return nil, err
		}
		if fm == nil {
			return report.NewAlignerFilter(ap), nil
		}
		return report.NewInterpolatingAlignerFilter(ap, *fm), nil
	}
	return nil, errQBad
}

// qCalHasTable: ( aligncal unit 'zone init table ) / ( aligncalfill unit 'zone init table mode ) — the model-compared
// form of a calendar aligner: the zone's offset table (C12's encoding: offset before the first listed change, then
// when:off,when:off,... or -) travels in the case line for the Lean model; the real period is built from the zone NAME.
func qCalHasTable(a []*qsx) bool {
	return (a[0].atom == "aligncal" && len(a) == 5) || (a[0].atom == "aligncalfill" && len(a) == 6)
}

// qAlignArgs parses ( align periodNanos ) / ( alignfill periodNanos linear|forward|bogus ) and the calendar forms
// ( aligncal day|week|month|quarter|halfyear|year 'zone [init table] ) / ( aligncalfill unit 'zone [init table] mode ).
func qAlignArgs(a []*qsx) (timeseries.AlignmentPeriod, *timeseries.FillMode, error) {
	if len(a) < 2 {
		return nil, nil, errQBad
	}
	var ap timeseries.AlignmentPeriod
	rest := a[2:]
	filled := false
	switch a[0].atom {
	case "align", "alignfill":
		ps, err := qAtomOf(a[1])
		if err != nil {
			return nil, nil, err
		}
		p, err := qInt64Atom(ps)
		if err != nil || p <= 0 {
			return nil, nil, errQBad
		}
		ap = timeseries.NewFixedAlignmentPeriod(time.Duration(p), time.UTC)
		filled = a[0].atom == "alignfill"
	case "aligncal", "aligncalfill":
		if len(a) < 3 {
			return nil, nil, errQBad
		}
		unit, err := qAtomOf(a[1])
		if err != nil {
			return nil, nil, err
		}
		zone, err := qStr(a[2])
		if err != nil {
			return nil, nil, err
		}
		loc, err := time.LoadLocation(zone)
		if err != nil {
			return nil, nil, errQBad
		}
		switch unit {
		case "day":
			ap = timeseries.NewDayAlignmentPeriod(loc)
		case "week":
			ap = timeseries.NewWeekAlignmentPeriod(loc)
		case "month":
			ap = timeseries.NewMonthAlignmentPeriod(loc)
		case "quarter":
			ap = timeseries.NewQuarterAlignmentPeriod(loc)
		case "halfyear":
			ap = timeseries.NewHalfYearAlignmentPeriod(loc)
		case "year":
			ap = timeseries.NewYearAlignmentPeriod(loc)
		default:
			return nil, nil, errQBad
		}
		rest = a[3:]
		if qCalHasTable(a) {
			// the table is for the model only; it must at least be well formed
			is, err := qAtomOf(a[3])
			if err != nil {
				return nil, nil, err
			}
			if _, err := qInt64Atom(is); err != nil {
				return nil, nil, errQBad
			}
			ts, err := qAtomOf(a[4])
			if err != nil {
				return nil, nil, err
			}
			if _, err := c12ParseTrans(ts); err != nil {
				return nil, nil, errQBad
			}
			rest = a[5:]
		}
		filled = a[0].atom == "aligncalfill"
	default:
		return nil, nil, errQBad
	}
	if !filled {
		if len(rest) != 0 {
			return nil, nil, errQBad
		}
		return ap, nil, nil
	}
	if len(rest) != 1 {
		return nil, nil, errQBad
	}
	ms, err := qAtomOf(rest[0])
	if err != nil {
		return nil, nil, err
	}
	var fm timeseries.FillMode
	switch ms {
	case "linear":
		fm = timeseries.FillModeLinear
	case "forward":
		fm = timeseries.FillModeForwardFill
	case "bogus":
		fm = timeseries.FillMode("bogus")
	default:
		return nil, nil, errQBad
	}
	return ap, &fm, nil
}

// qMaxCounter parses maxCounterValue: a decimal int64 (converted with float64(int64)) or d:<16 hex digits of the bits>.
func qMaxCounter(s string) (float64, error) {
	if strings.HasPrefix(s, "d:") {
		if len(s) != 18 {
			return 0, errQBad
		}
		bits, err := strconv.ParseUint(s[2:], 16, 64)
		if err != nil {
			return 0, errQBad
		}
		return math.Float64frombits(bits), nil
	}
	mx, err := qInt64Atom(s)
	if err != nil {
		return 0, err
	}
	return float64(mx), nil
}

// df builds a datasource filter.
func (b *qBuilder) df(n *qsx) (datasource.Filter, error) {
	a := n.list
	switch n.head() {
	case "fval":
		if len(a) != 3 {
			return nil, errQBad
		}
		v, err := b.dv(a[1])
		if err != nil {
			return nil, err
		}
		m, err := b.afm(a[2])
		if err != nil {
			return nil, err
		}
		return datasource.NewFieldValueFilter(v, m), nil
	case "where":
		if len(a) != 2 {
			return nil, errQBad
		}
		v, err := b.dv(a[1])
		if err != nil {
			return nil, err
		}
		return datasource.NewConditionFilter(v), nil
	case "override":
		if len(a) != 4 {
			return nil, errQBad
		}
		nu, err := qOptStr(a[1])
		if err != nil {
			return nil, err
		}
		nun, err := qOptStr(a[2])
		if err != nil {
			return nil, err
		}
		cm, err := qCm(a[3])
		if err != nil {
			return nil, err
		}
		return datasource.NewOverrideFieldMetadataFilter(nu, nun, cm), nil
	}
	{
		switch n.head() {
		case "align", "alignfill", "aligncal", "aligncalfill":
			if !b.ext && strings.HasPrefix(a[0].atom, "aligncal") && !qCalHasTable(a) {
				return nil, errQBad
			}
			ap, fm, err := qAlignArgs(a)
			if err != nil {
				return nil, err
			}
			if fm == nil {
				return datasource.NewAlignerFilter(ap), nil
			}
			return datasource.NewInterpolatingAlignerFilter(ap, *fm), nil
		case "delta": // ( delta nonNegative maxCounter )
			if len(a) != 3 {
				return nil, errQBad
			}
			nn, err := qBoolFlag(a[1])
			if err != nil {
				return nil, err
			}
			ms, err := qAtomOf(a[2])
			if err != nil {
				return nil, err
			}
			mx, err := qMaxCounter(ms)
			if err != nil {
				return nil, err
			}
			return datasource.NewDeltaFilter(nn, mx), nil
		case "rate": // ( rate 'unit perSeconds nonNegative maxCounter )
			if len(a) != 5 {
				return nil, errQBad
			}
			u, err := qStr(a[1])
			if err != nil {
				return nil, err
			}
			pss, err := qAtomOf(a[2])
			if err != nil {
				return nil, err
			}
			ps, err := qInt64Atom(pss)
			if err != nil {
				return nil, err
			}
			nn, err := qBoolFlag(a[3])
			if err != nil {
				return nil, err
			}
			ms, err := qAtomOf(a[4])
			if err != nil {
				return nil, err
			}
			mx, err := qMaxCounter(ms)
			if err != nil {
				return nil, err
			}
			return datasource.NewRateFilter(u, int(ps), nn, mx), nil
		}
	}
	return nil, errQBad
}

func qRowTs(n *qsx) (time.Time, error) {
	if n.isList {
		return time.Time{}, errQBad
	}
	v, err := strconv.ParseInt(n.atom, 10, 64)
	if err != nil {
		return time.Time{}, errQBad
	}
	return time.Unix(0, v).UTC(), nil
}

func qInt64Atom(s string) (int64, error) {
	v, err := strconv.ParseInt(s, 10, 64)
	if err != nil {
		return 0, errQBad
	}
	return v, nil
}

// rds builds a report datasource.
func (b *qBuilder) rds(n *qsx) (report.DataSource, error) {
	a := n.list
	switch n.head() {
	case "rstatic":
		if len(a) != 3 || a[1].head() != "metas" || a[2].head() != "rows" {
			return nil, errQBad
		}
		metas := []tsquery.FieldMeta{}
		for _, m := range a[1].args() {
			fm, err := b.fm(m)
			if err != nil {
				return nil, err
			}
			metas = append(metas, *fm)
		}
		rows := []timeseries.TsRecord[[]any]{}
		for _, r := range a[2].args() {
			if r.head() != "r" || len(r.list) < 2 {
				return nil, errQBad
			}
			ts, err := qRowTs(r.list[1])
			if err != nil {
				return nil, err
			}
			cells := make([]any, 0, len(r.list)-2)
			for _, c := range r.list[2:] {
				v, err := qCell(c)
				if err != nil {
					return nil, err
				}
				cells = append(cells, v)
			}
			rows = append(rows, timeseries.TsRecord[[]any]{Timestamp: ts, Value: cells})
		}
		ds, err := report.NewStaticDatasource(metas, qProbeRows(b, rows))
		if err != nil {
			return nil, qInputReject{qClassify(err)}
		}
		return ds, nil
	case "rfilt":
		if len(a) < 2 {
			return nil, errQBad
		}
		inner, err := b.rds(a[1])
		if err != nil {
			return nil, err
		}
		var fs []report.Filter
		for _, f := range a[2:] {
			x, err := b.rf(f)
			if err != nil {
				return nil, err
			}
			fs = append(fs, x)
		}
		return report.NewFilteredDataSource(inner, fs...), nil
	case "join":
		if len(a) < 2 {
			return nil, errQBad
		}
		jtn, err := qAtomOf(a[1])
		if err != nil {
			return nil, err
		}
		var jt report.JoinType
		switch jtn {
		case "inner":
			jt = report.InnerJoin
		case "left":
			jt = report.LeftJoin
		case "full":
			jt = report.FullJoin
		default:
			return nil, errQBad
		}
		srcs := []report.DataSource{}
		for _, s := range a[2:] {
			x, err := b.rds(s)
			if err != nil {
				return nil, err
			}
			srcs = append(srcs, x)
		}
		return report.NewJoinDatasource(report.NewListMultiDatasource(srcs), jt), nil
	case "fromds":
		if len(a) != 2 {
			return nil, errQBad
		}
		d, err := b.dds(a[1])
		if err != nil {
			return nil, err
		}
		return report.FromDatasource(d), nil
	}
	return nil, errQBad
}

// dstatic builds ( dstatic fm ( rows ( r ts cell ) ... ) ) and returns the datasource and its field meta.
func (b *qBuilder) dstatic(n *qsx) (datasource.DataSource, *tsquery.FieldMeta, error) {
	a := n.list
	if n.head() != "dstatic" || len(a) != 3 || a[2].head() != "rows" {
		return nil, nil, errQBad
	}
	fm, err := b.fm(a[1])
	if err != nil {
		return nil, nil, err
	}
	rows := []timeseries.TsRecord[any]{}
	for _, r := range a[2].args() {
		if r.head() != "r" || len(r.list) != 3 {
			return nil, nil, errQBad
		}
		ts, err := qRowTs(r.list[1])
		if err != nil {
			return nil, nil, err
		}
		v, err := qCell(r.list[2])
		if err != nil {
			return nil, nil, err
		}
		rows = append(rows, timeseries.TsRecord[any]{Timestamp: ts, Value: v})
	}
	ds, serr := datasource.NewStaticDatasource(*fm, qProbeRows(b, rows))
	if serr != nil {
		return nil, nil, qInputReject{qClassify(serr)}
	}
	return ds, fm, nil
}

// dds builds a datasource-package datasource.
func (b *qBuilder) dds(n *qsx) (datasource.DataSource, error) {
	a := n.list
	switch n.head() {
	case "dstatic":
		ds, _, err := b.dstatic(n)
		return ds, err
	case "dfilt":
		if len(a) < 2 {
			return nil, errQBad
		}
		inner, err := b.dds(a[1])
		if err != nil {
			return nil, err
		}
		var fs []datasource.Filter
		for _, f := range a[2:] {
			x, err := b.df(f)
			if err != nil {
				return nil, err
			}
			fs = append(fs, x)
		}
		return datasource.NewFilteredDataSource(inner, fs...), nil
	case "reduction":
		if len(a) < 5 {
			return nil, errQBad
		}
		rtn, err := qAtomOf(a[1])
		if err != nil {
			return nil, err
		}
		rt, ok := qRtByName[rtn]
		if !ok {
			return nil, errQBad
		}
		pa, err := qAtomOf(a[2])
		if err != nil {
			return nil, err
		}
		period, err := qInt64Atom(pa)
		if err != nil {
			return nil, err
		}
		m, err := b.afm(a[3])
		if err != nil {
			return nil, err
		}
		var fb datasource.Value
		hasFb := true
		if !a[4].isList {
			if a[4].atom != "none" {
				return nil, errQBad
			}
			hasFb = false
		} else {
			fb, err = b.dv(a[4])
			if err != nil {
				return nil, err
			}
		}
		srcs := []datasource.DataSource{}
		for _, s := range a[5:] {
			x, err := b.dds(s)
			if err != nil {
				return nil, err
			}
			srcs = append(srcs, x)
		}
		var af datasource.AlignerFilter
		if period != 0 {
			af = datasource.NewAlignerFilter(timeseries.NewFixedAlignmentPeriod(time.Duration(period), time.UTC))
		}
		multi := datasource.NewListMultiDatasource(srcs)
		if !hasFb {
			return datasource.NewReductionDatasource(rt, af, multi, m), nil
		}
		return datasource.NewReductionDatasourceWithEmptyFallback(rt, af, multi, m, fb), nil
	case "tods":
		if len(a) != 3 {
			return nil, errQBad
		}
		r, err := b.rds(a[1])
		if err != nil {
			return nil, err
		}
		urn, err := qStr(a[2])
		if err != nil {
			return nil, err
		}
		return report.ToDatasource(r, urn), nil
	}
	return nil, errQBad
}

// ---------------------------------------------------------------------------------------------------------------
// executor

const qExecTimeout = 5 * time.Second

// qDebugPanic prints a recovered plan-time panic to stderr when VERIF_QDEBUG is set (diagnosis only).
func qDebugPanic(r any) {
	if os.Getenv("VERIF_QDEBUG") != "" {
		fmt.Fprintf(os.Stderr, "planpanic: %v\n%s\n", r, debug.Stack())
	}
}

// qInstant builds the range bounds. Rows carry UTC timestamps; the bounds deliberately use another representation of
// the same instants (a fixed-offset zone for even values), because range selection is about instants, not about
// time.Time values (== on time.Time compares wall/ext/*Location).
var qZone = time.FixedZone("q+1", 3600)

func qInstant(n int64) time.Time {
	if n%2 == 0 {
		return time.Unix(0, n).In(qZone)
	}
	return time.Unix(0, n).UTC()
}

// qObsReport executes a report datasource and prints the canonical observation.
// qObsReport executes the datasource OBJECT twice (plan + collect each time): a query is a value that can be executed any
// number of times with the same answer; when the second execution answers differently both answers are reported (which no
// model output and no spec predicate accepts).
func qObsReport(ds report.DataSource, b *qBuilder, mask bool, from, to int64) string {
	first := qObsReportOnce(ds, b, mask, from, to)
	if second := qObsReportOnce(ds, b, mask, from, to); second != first {
		return first + " SECOND-EXECUTION-DIFFERS " + second
	}
	return first
}

func qObsReportOnce(ds report.DataSource, b *qBuilder, mask bool, from, to int64) (obs string) {
	base := b.pulled()
	defer func() {
		if r := recover(); r != nil {
			qDebugPanic(r)
			obs = "planpanic"
		}
	}()
	ctx, cancel := context.WithTimeout(context.Background(), qExecTimeout)
	defer cancel()
	res, err := ds.Execute(ctx, qInstant(from), qInstant(to))
	pre := b.pulled() - base
	if err != nil {
		return fmt.Sprintf("reject %s prepull=%d", qClassify(err), pre)
	}
	var sb strings.Builder
	fmt.Fprintf(&sb, "ok prepull=%d meta", pre)
	for _, fm := range res.FieldsMeta() {
		sb.WriteString(" " + qFmtFm(fm))
	}
	sb.WriteString(" |")
	rows, cerr := res.Stream().Collect(ctx)
	if cerr != nil {
		sb.WriteString(" rowerr")
		return sb.String()
	}
	sb.WriteString(" rows")
	for _, r := range rows {
		sb.WriteString(" ( r " + strconv.FormatInt(r.Timestamp.UnixNano(), 10))
		for _, c := range r.Value {
			sb.WriteString(" " + qFmtCell(c, mask))
		}
		sb.WriteString(" )")
	}
	return sb.String()
}

// qObsDs executes a datasource-package datasource and prints the canonical observation.
func qObsDs(ds datasource.DataSource, b *qBuilder, mask bool, from, to int64) string {
	first := qObsDsOnce(ds, b, mask, from, to)
	if second := qObsDsOnce(ds, b, mask, from, to); second != first {
		return first + " SECOND-EXECUTION-DIFFERS " + second
	}
	return first
}

func qObsDsOnce(ds datasource.DataSource, b *qBuilder, mask bool, from, to int64) (obs string) {
	base := b.pulled()
	defer func() {
		if r := recover(); r != nil {
			qDebugPanic(r)
			obs = "planpanic"
		}
	}()
	ctx, cancel := context.WithTimeout(context.Background(), qExecTimeout)
	defer cancel()
	res, err := ds.Execute(ctx, qInstant(from), qInstant(to))
	pre := b.pulled() - base
	if err != nil {
		return fmt.Sprintf("reject %s prepull=%d", qClassify(err), pre)
	}
	var sb strings.Builder
	fmt.Fprintf(&sb, "ok prepull=%d meta %s |", pre, qFmtFm(res.Meta()))
	rows, cerr := res.Data().Collect(ctx)
	if cerr != nil {
		sb.WriteString(" rowerr")
		return sb.String()
	}
	sb.WriteString(" rows")
	for _, r := range rows {
		sb.WriteString(" ( r " + strconv.FormatInt(r.Timestamp.UnixNano(), 10) + " " + qFmtCell(r.Value, mask) + " )")
	}
	return sb.String()
}

func qBuildErrObs(err error) (string, bool) {
	var ir qInputReject
	if errors.As(err, &ir) {
		return "reject " + ir.class + " prepull=0", true
	}
	return "bad-case", false
}

// execQueryX: kind rep|ds. Returns the observation and whether the case was refused while building its inputs.
func execQueryX(kind, mode string, from, to int64, tree *qsx) (obs string, inputFail bool) {
	defer func() {
		if r := recover(); r != nil {
			qDebugPanic(r)
			obs, inputFail = "planpanic", false
		}
	}()
	if mode != "exact" && mode != "mask" {
		return "bad-case", false
	}
	mask := mode == "mask"
	b := newQBuilder()
	switch kind {
	case "rep":
		ds, err := b.rds(tree)
		if err != nil {
			return qBuildErrObs(err)
		}
		return qObsReport(ds, b, mask, from, to), false
	case "ds":
		ds, err := b.dds(tree)
		if err != nil {
			return qBuildErrObs(err)
		}
		return qObsDs(ds, b, mask, from, to), false
	}
	return "bad-case", false
}

func execQuery(kind, mode string, from, to int64, tree *qsx) string {
	obs, _ := execQueryX(kind, mode, from, to, tree)
	return obs
}

// qParseQLine parses "<kind> <mode> <from> <to> <sexpr>" (the tokens after the leading q / after tw with kind "").
func qParseHeader(toks []string) (mode string, from, to int64, tree *qsx, err error) {
	if len(toks) < 4 {
		return "", 0, 0, nil, errQBad
	}
	mode = toks[0]
	from, err = qInt64Atom(toks[1])
	if err != nil {
		return
	}
	to, err = qInt64Atom(toks[2])
	if err != nil {
		return
	}
	tree, err = qParseWhole(toks[3:])
	return
}

// execQLineX handles "q rep|ds <mode> <from> <to> <tree>".
func execQLineX(toks []string) (string, bool) {
	if len(toks) < 6 || toks[0] != "q" {
		return "bad-case", false
	}
	kind := toks[1]
	mode, from, to, tree, err := qParseHeader(toks[2:])
	if err != nil {
		return "bad-case", false
	}
	return execQueryX(kind, mode, from, to, tree)
}

// ---------------------------------------------------------------------------------------------------------------
// three-way (tw) execution  [C11]

// qLift replaces every ( ref ) by ( ref 'cur ), everything else structurally.
func qLift(n *qsx, cur string) *qsx {
	if !n.isList {
		return n
	}
	if n.head() == "ref" && len(n.list) == 1 {
		return &qsx{isList: true, list: []*qsx{{atom: "ref"}, {atom: "'" + cur}}}
	}
	out := &qsx{isList: true, list: make([]*qsx, len(n.list))}
	for i, c := range n.list {
		out.list[i] = qLift(c, cur)
	}
	return out
}

// qTwSplit returns the dstatic node and the DF nodes of a tw tree.
func qTwSplit(tree *qsx) (*qsx, []*qsx, error) {
	switch tree.head() {
	case "dstatic":
		return tree, nil, nil
	case "dfilt":
		if len(tree.list) < 2 || tree.list[1].head() != "dstatic" {
			return nil, nil, errQBad
		}
		return tree.list[1], tree.list[2:], nil
	}
	return nil, nil, errQBad
}

// qTwLifted builds the report filters of variant B (single=true) or C (single=false) and returns the final urn.
func qTwLifted(b *qBuilder, startUrn string, dfs []*qsx, single bool) ([]report.Filter, string, error) {
	cur := startUrn
	var out []report.Filter
	for _, f := range dfs {
		a := f.list
		switch f.head() {
		case "fval":
			if len(a) != 3 {
				return nil, "", errQBad
			}
			v, err := b.rv(qLift(a[1], cur))
			if err != nil {
				return nil, "", err
			}
			m, err := b.afm(a[2])
			if err != nil {
				return nil, "", err
			}
			if single {
				out = append(out, report.NewSingleFieldFilter(v, m))
			} else {
				out = append(out, report.NewReplaceFieldFilter(cur, v, m))
			}
			cur = m.Urn
		case "where":
			if len(a) != 2 {
				return nil, "", errQBad
			}
			v, err := b.rv(qLift(a[1], cur))
			if err != nil {
				return nil, "", err
			}
			out = append(out, report.NewConditionFilter(v))
		case "override":
			if len(a) != 4 {
				return nil, "", errQBad
			}
			nu, err := qOptStr(a[1])
			if err != nil {
				return nil, "", err
			}
			nun, err := qOptStr(a[2])
			if err != nil {
				return nil, "", err
			}
			cm, err := qCm(a[3])
			if err != nil {
				return nil, "", err
			}
			out = append(out, report.NewOverrideFieldMetadataFilter(cur, nu, nun, cm))
			if nu != nil {
				cur = *nu
			}
		default:
			return nil, "", errQBad
		}
	}
	return out, cur, nil
}

// execTwX: three-way build A/B/C of the same single-field pipeline.
func execTwX(mode string, from, to int64, tree *qsx) (obs string, inputFail bool) {
	defer func() {
		if r := recover(); r != nil {
			qDebugPanic(r)
			obs, inputFail = "planpanic", false
		}
	}()
	if mode != "exact" && mode != "mask" {
		return "bad-case", false
	}
	mask := mode == "mask"
	stNode, dfs, err := qTwSplit(tree)
	if err != nil {
		return "bad-case", false
	}
	// A: datasource API
	bA := newQBuilder()
	stA, _, err := bA.dstatic(stNode)
	if err != nil {
		return qBuildErrObs(err)
	}
	var fA []datasource.Filter
	for _, f := range dfs {
		x, err := bA.df(f)
		if err != nil {
			return qBuildErrObs(err)
		}
		fA = append(fA, x)
	}
	// B: report API, fval -> single-field filter
	bB := newQBuilder()
	stB, fmB, err := bB.dstatic(stNode)
	if err != nil {
		return qBuildErrObs(err)
	}
	fB, _, err := qTwLifted(bB, fmB.Urn(), dfs, true)
	if err != nil {
		return qBuildErrObs(err)
	}
	// C: report API, fval -> replace-field filter, back to a datasource
	bC := newQBuilder()
	stC, fmC, err := bC.dstatic(stNode)
	if err != nil {
		return qBuildErrObs(err)
	}
	fC, curC, err := qTwLifted(bC, fmC.Urn(), dfs, false)
	if err != nil {
		return qBuildErrObs(err)
	}
	oA := qObsDs(datasource.NewFilteredDataSource(stA, fA...), bA, mask, from, to)
	oB := qObsReport(report.NewFilteredDataSource(report.FromDatasource(stB), fB...), bB, mask, from, to)
	oC := qObsDs(report.ToDatasource(report.NewFilteredDataSource(report.FromDatasource(stC), fC...), curC), bC, mask, from, to)
	return "A{ " + oA + " } B{ " + oB + " } C{ " + oC + " }", false
}

// execTwLineX handles "tw <mode> <from> <to> <tree>".
func execTwLineX(toks []string) (string, bool) {
	if len(toks) < 5 || toks[0] != "tw" {
		return "bad-case", false
	}
	mode, from, to, tree, err := qParseHeader(toks[1:])
	if err != nil {
		return "bad-case", false
	}
	return execTwX(mode, from, to, tree)
}

// ---------------------------------------------------------------------------------------------------------------
// classification of observations (T/N flag and statistics)

var qTrivialRejects = map[string]bool{
	"refNotFound": true, "todsNotFound": true, "replaceMissing": true, "dropMissing": true, "reduceMissing": true,
}

// qObsKey returns the statistics key of a plain (non-tw) observation and whether it is non-trivial.
func qObsKey(obs string) (string, bool) {
	switch {
	case obs == "planpanic":
		return "planpanic", true
	case obs == "bad-case":
		return "bad-case", false
	case strings.HasPrefix(obs, "reject "):
		f := strings.Fields(obs)
		if len(f) < 2 {
			return "reject:?", false
		}
		return "reject:" + f[1], !qTrivialRejects[f[1]]
	case strings.HasPrefix(obs, "ok "):
		if strings.HasSuffix(obs, "| rowerr") {
			return "rowerr", false
		}
		if strings.HasSuffix(obs, "| rows") {
			return "ok-empty", false
		}
		return "ok-rows", true
	case strings.HasPrefix(obs, "A{ "):
		end := strings.Index(obs, " } B{ ")
		if end < 0 {
			return "tw:?", false
		}
		k, t := qObsKey(obs[3:end])
		return k, t
	}
	return "?", false
}

type qStats struct{ m map[string]int }

func (s *qStats) add(k string) {
	if s.m == nil {
		s.m = map[string]int{}
	}
	s.m[k]++
}

func (s *qStats) String() string {
	keys := make([]string, 0, len(s.m))
	for k := range s.m {
		keys = append(keys, k)
	}
	sort.Strings(keys)
	parts := make([]string, 0, len(keys))
	for _, k := range keys {
		parts = append(parts, fmt.Sprintf("%s=%d", k, s.m[k]))
	}
	return strings.Join(parts, " ")
}
