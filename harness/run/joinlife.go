package run

// JL cases: the sorted-stream joins over probe sources (lifecycle of the joins: C01 / C03), an optional fresh Limit per
// run, one terminal operation per run, all runs on the SAME stream value.
// Lean side: lean/ShpanVerif/Model/JoinLife.lean (model), lean/ShpanVerif/Drive/JoinLife.lean (driver).
//
// case := JL KIND R0:XS0 R1:XS1 [R2:XS2 ...] || RUN || RUN ...
// KIND := join2 | ljoin2 | joinn          (JoinSortedStreams | LeftJoinSortedStreams | JoinMultipleSortedStreams)
// RUN  := <collect|user> <all|take:N> <nofault|KIND@P>
// obs  := per run " || "-joined:  <ok|err:CLASS> <rows> | calls=N pre=N | R:EVENTS;... | seq=TOK.TOK...
//   rows: "-" or comma separated rows, a row = its slots joined by "/", "_" = nil
//   seq : the ordered event log of the run (same tokens and order convention as the DYN cases, pipedyn.go)
// Elements are integers, the key of x is floor(x / 10); the joiner of joinn is a call position (it cannot return an error:
// error kinds are raised as panic(err)).

import (
	"context"
	"fmt"
	"sort"
	"strconv"
	"strings"

	"github.com/shpandrak/shpanstream"
	"github.com/shpandrak/shpanstream/stream"
)

func jlFloorDiv(a, b int64) int64 {
	q := a / b
	if (a%b != 0) && ((a < 0) != (b < 0)) {
		q--
	}
	return q
}

func jlKey(v pv) int64 { return jlFloorDiv(v.I, 10) }

func jlCmpKey(a, b int64) int {
	switch {
	case a < b:
		return -1
	case a > b:
		return 1
	}
	return 0
}

func jlCmpPv(a, b pv) int { return jlCmpKey(jlKey(a), jlKey(b)) }

// jlTerminal runs one terminal operation on s (under a fresh Limit when take != nil) and returns the delivered rows
func jlTerminal[T any](ctx context.Context, w *dynWorld, s stream.Stream[T], take *int, consumer string, row func(T) string) ([]string, error, bool) {
	target := s
	if take != nil {
		target = s.Limit(*take)
	}
	var delivered []string
	var err error
	switch consumer {
	case "collect":
		err = target.Consume(ctx, func(v T) { delivered = append(delivered, row(v)) })
	case "user":
		err = target.ConsumeWithErr(ctx, func(v T) error {
			if e := w.call(); e != nil {
				return e
			}
			delivered = append(delivered, row(v))
			return nil
		})
	default:
		return nil, nil, false
	}
	return delivered, err, true
}

func jlSlot(p *pv) string {
	if p == nil {
		return "_"
	}
	return strconv.FormatInt(p.I, 10)
}

func isJL(caseText string) bool { return strings.HasPrefix(caseText, "JL ") }

// execPipeDynJL: dispatch of the C01 / C03 case streams
func execPipeDynJL(caseText string) string {
	if isJL(caseText) {
		return execJoinLife(caseText)
	}
	return execPipeOrDyn(caseText)
}

// execJoinLife runs one JL case on the real library.
func execJoinLife(caseText string) (obs string) {
	defer func() {
		if rv := recover(); rv != nil {
			obs = fmt.Sprintf("harness-panic %v", rv)
		}
	}()
	parts := strings.Split(strings.TrimPrefix(caseText, "JL "), " || ")
	w := &dynWorld{}
	w.reset()
	head := strings.Fields(parts[0])
	if len(head) < 2 {
		return "bad-case"
	}
	kind := head[0]
	var srcs []stream.Stream[pv]
	seen := map[int]bool{}
	for _, t := range head[1:] {
		rs, xsS, ok := strings.Cut(t, ":")
		r, err := strconv.Atoi(rs)
		if !ok || err != nil || r < 0 || seen[r] {
			return "bad-case"
		}
		seen[r] = true
		xs, xerr := parseInts(xsS)
		if xerr != nil {
			return "bad-case"
		}
		srcs = append(srcs, stream.NewStream[pv](&dynProbeSrc{w: w, r: r, xs: xs}))
	}
	// one terminal operation on the (single) join value
	var term func(ctx context.Context, take *int, consumer string) ([]string, error, bool)
	switch kind {
	case "join2":
		if len(srcs) != 2 {
			return "bad-case"
		}
		s := stream.JoinSortedStreams[pv, pv, int64](srcs[0], srcs[1], jlKey, jlKey, shpanstream.Comparator[int64](jlCmpKey))
		term = func(ctx context.Context, take *int, consumer string) ([]string, error, bool) {
			return jlTerminal(ctx, w, s, take, consumer, func(t shpanstream.Tuple2[pv, pv]) string {
				return jlSlot(&t.A) + "/" + jlSlot(&t.B)
			})
		}
	case "ljoin2":
		if len(srcs) != 2 {
			return "bad-case"
		}
		s := stream.LeftJoinSortedStreams[pv, pv, int64](srcs[0], srcs[1], jlKey, jlKey, shpanstream.Comparator[int64](jlCmpKey))
		term = func(ctx context.Context, take *int, consumer string) ([]string, error, bool) {
			return jlTerminal(ctx, w, s, take, consumer, func(t shpanstream.Tuple2[pv, *pv]) string {
				return jlSlot(&t.A) + "/" + jlSlot(t.B)
			})
		}
	case "joinn":
		if len(srcs) < 1 {
			return "bad-case"
		}
		s := stream.JoinMultipleSortedStreams[pv, []pv](srcs, shpanstream.Comparator[pv](jlCmpPv), func(values []pv) []pv {
			// the joiner: a call position; it cannot return an error, so error kinds panic
			w.callNoErr()
			return append([]pv(nil), values...)
		})
		term = func(ctx context.Context, take *int, consumer string) ([]string, error, bool) {
			return jlTerminal(ctx, w, s, take, consumer, func(vs []pv) string {
				sl := make([]string, len(vs))
				for i := range vs {
					sl[i] = jlSlot(&vs[i])
				}
				return strings.Join(sl, "/")
			})
		}
	default:
		return "bad-case"
	}
	pre := w.nEvents + w.calls
	var outs []string
	for _, run := range parts[1:] {
		f := strings.Fields(run)
		if len(f) != 3 {
			return "bad-case"
		}
		w.reset()
		if f[2] != "nofault" {
			k, posS, ok := strings.Cut(f[2], "@")
			pos, err := strconv.Atoi(posS)
			if !ok || err != nil {
				return "bad-case"
			}
			switch k {
			case "err", "perr", "pval", "cancel", "eoferr", "peof", "errctx":
			default:
				return "bad-case"
			}
			w.faultKind, w.faultPos = k, pos
		}
		var take *int
		if strings.HasPrefix(f[1], "take:") {
			n, err := strconv.Atoi(strings.TrimPrefix(f[1], "take:"))
			if err != nil {
				return "bad-case"
			}
			take = &n
		} else if f[1] != "all" {
			return "bad-case"
		}
		ctx, cancel := context.WithCancel(context.Background())
		w.cancel = cancel
		delivered, err, ok := term(ctx, take, f[0])
		cancel()
		if !ok {
			return "bad-case"
		}
		sort.Ints(w.ids)
		var evs []string
		for _, r := range w.ids {
			evs = append(evs, fmt.Sprintf("%d:%s", r, w.events[r]))
		}
		evStr := strings.Join(evs, ";")
		if evStr == "" {
			evStr = "-"
		}
		seq := strings.Join(w.seq, ".")
		if seq == "" {
			seq = "-"
		}
		rows := strings.Join(delivered, ",")
		if rows == "" {
			rows = "-"
		}
		outs = append(outs, fmt.Sprintf("%s %s | calls=%d pre=%d | %s | seq=%s", classifyErr(err), rows, w.calls, pre, evStr, seq))
		pre = 0
	}
	return strings.Join(outs, " || ")
}

// ---------------------------------------------------------------- generators

func jlCallsOf(caseText string) int {
	obs := execJoinLife(caseText)
	i := strings.Index(obs, "calls=")
	if i < 0 {
		return 0
	}
	rest := obs[i+6:]
	j := strings.IndexByte(rest, ' ')
	if j < 0 {
		return 0
	}
	n, _ := strconv.Atoi(rest[:j])
	return n
}

// jlSweep: the fault-free case, then every call position of the fault-free run x every kind
func jlSweep(c *Ctx, pipe, term string, kinds []string, nontrivial bool) {
	base := pipe + " || " + term + " nofault"
	c.Case(nontrivial, base)
	n := jlCallsOf(base)
	for pos := 0; pos < n; pos++ {
		for _, k := range kinds {
			c.Case(nontrivial, fmt.Sprintf("%s || %s %s@%d", pipe, term, k, pos))
		}
	}
}

// jlKeyLists: every key sequence over {0,1,2} of length <= maxLen (sorted or not); the element at position i with key k
// is 10*k + i, so every element of a list is distinct and names its position
func jlKeyLists(maxLen int) []string {
	out := []string{"-"}
	var rec func(prefix []int, n int)
	rec = func(prefix []int, n int) {
		if n == 0 {
			parts := make([]string, len(prefix))
			for i, k := range prefix {
				parts[i] = strconv.Itoa(10*k + i)
			}
			out = append(out, strings.Join(parts, ","))
			return
		}
		for k := 0; k <= 2; k++ {
			rec(append(append([]int{}, prefix...), k), n-1)
		}
	}
	for n := 1; n <= maxLen; n++ {
		rec(nil, n)
	}
	return out
}

func jlPipe(kind string, xss ...string) string {
	parts := []string{"JL", kind}
	for i, xs := range xss {
		parts = append(parts, fmt.Sprintf("%d:%s", i, xs))
	}
	return strings.Join(parts, " ")
}

var jlTerms = []string{"collect all", "user all", "collect take:0", "collect take:1", "user take:2", "collect take:2", "user take:1"}

// genJoinLife: exhaustive small scope (keys over {0,1,2}, lengths <= 3, every fault position x kind, k in {none,0,1,2}),
// then seeded random larger ones, then histories on one join value.
func genJoinLife(c *Ctx, kinds []string) {
	always := map[string]bool{"collect all": true}
	rot := []string{"user all", "collect take:1", "user take:2", "collect take:0", "collect take:2", "user take:1"}
	emit := func(pipe string, nt bool, sel int, sweep bool) {
		for ti, t := range jlTerms {
			if sweep && ((c.Thorough && sel%4 == 0) || always[t] || t == rot[sel%len(rot)]) {
				jlSweep(c, pipe, t, kinds, nt)
			} else if sweep || c.Thorough || always[t] || (ti+sel)%3 == 0 {
				c.Case(nt, pipe+" || "+t+" nofault")
			}
		}
	}
	// two-stream joins: all pairs of lists up to length 3; quick tier sweeps all pairs up to length 2 and a rotating
	// eighth of the rest (every pair is run fault-free under every terminal)
	l3 := jlKeyLists(3)
	short := 1 + 3 + 9 // lists of length <= 2 come first
	for _, kind := range []string{"join2", "ljoin2"} {
		for xi, xs := range l3 {
			for yi, ys := range l3 {
				sweep := c.Thorough || (xi < short && yi < short) || (xi+3*yi)%16 == 0
				emit(jlPipe(kind, xs, ys), xs != "-" && ys != "-", xi+yi, sweep)
			}
		}
	}
	// N-way inner join: one, two and three inputs
	l2 := jlKeyLists(2)
	for xi, xs := range l2 {
		emit(jlPipe("joinn", xs), xs != "-", xi, true)
		for yi, ys := range l2 {
			emit(jlPipe("joinn", xs, ys), xs != "-" && ys != "-", xi+yi, c.Thorough || (xi+yi)%3 == 0)
			for zi, zs := range l2 {
				sweep := c.Thorough || (xi+2*yi+3*zi)%27 == 0
				if !sweep && (xi+yi+zi)%3 != 0 {
					continue
				}
				emit(jlPipe("joinn", xs, ys, zs), xs != "-" && ys != "-" && zs != "-", xi+yi+zi, sweep)
			}
		}
	}
	for _, p := range []string{
		jlPipe("joinn", "0,10,21", "1,11,12,22", "2,13,23"),
		jlPipe("joinn", "0,11,22", "10,20", "21,30"),
		jlPipe("joinn", "0,1,12", "3,14", "5,6,17", "18,29"),
		jlPipe("join2", "0,1,12,23", "3,14,15,26"),
		jlPipe("ljoin2", "0,1,12,23", "14,15,36"),
	} {
		emit(p, true, 0, true)
	}
	// seeded random larger ones
	n := c.Pick(120, 3000)
	for i := 0; i < n; i++ {
		kind := []string{"join2", "ljoin2", "joinn"}[c.Rng.Intn(3)]
		k := 2
		if kind == "joinn" {
			k = c.Rng.Range(1, 4)
		}
		xss := make([]string, k)
		nt := true
		for j := range xss {
			xss[j] = jlRandXs(c.Rng)
			nt = nt && xss[j] != "-"
		}
		term := []string{"collect", "user"}[c.Rng.Intn(2)]
		if c.Rng.Intn(3) == 0 {
			term += " all"
		} else {
			term += " take:" + strconv.Itoa(c.Rng.Range(-1, 6))
		}
		jlSweep(c, jlPipe(kind, xss...), term, kinds, nt)
	}
	// histories: the same join value materialised again after runs that ended in every way (the joins keep their last
	// keys / buffers across materialisations: the model keeps them too)
	ends := []string{"collect all nofault", "collect take:1 nofault", "user all err@3", "collect all cancel@2", "user all perr@1", "collect all pval@0", "collect take:2 pval@4"}
	var pipes []string
	for _, kind := range []string{"join2", "ljoin2", "joinn"} {
		for _, xs := range []string{"-", "0,11", "0,1,12", "10,1"} {
			for _, ys := range []string{"-", "0", "1,12,13", "10,21"} {
				pipes = append(pipes, jlPipe(kind, xs, ys))
			}
		}
	}
	pipes = append(pipes, jlPipe("joinn", "0,11,22", "1,12,23", "2,13"), jlPipe("joinn", "0,11"))
	hn := c.Pick(6, 200)
	for i := 0; i < hn; i++ {
		kind := []string{"join2", "ljoin2", "joinn"}[c.Rng.Intn(3)]
		pipes = append(pipes, jlPipe(kind, jlRandXs(c.Rng), jlRandXs(c.Rng)))
	}
	for pi, p := range pipes {
		for i, e1 := range ends {
			for j, e2 := range ends {
				if !c.Thorough && (pi+i+j)%3 != 0 {
					continue
				}
				for _, last := range []string{"collect all nofault", "user take:2 nofault"} {
					c.Case(true, strings.Join([]string{p, e1, e2, last}, " || "))
				}
			}
		}
	}
}

// jlRandXs: mostly sorted key sequences over 0..4 (elements 10*key + position), sometimes with one unsorted step
func jlRandXs(r *Rng) string {
	n := r.Small(7)
	if n == 0 {
		return "-"
	}
	parts := make([]string, n)
	key := r.Intn(2)
	for i := range parts {
		switch r.Intn(8) {
		case 0, 1, 2:
			key++
		case 3:
			key += 2
		case 4:
			if r.Intn(3) == 0 && key > 0 {
				key-- // unsorted
			}
		}
		parts[i] = strconv.Itoa(10*key + i%10)
	}
	return strings.Join(parts, ",")
}
