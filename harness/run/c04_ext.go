package run

// C04, second part ("L" cases): the lazy package and its combinators, FromLazy, the terminals
// (FindFirst/FindLast/FindFirstAndLast/IsEmpty/Count/Reduce/Min/Max), the map/set/group collectors,
// random sampling, Iterator/IndexedIterator and the remaining sources / thin operators
// (FromIterator(2), FromMap*, FromChannel, Empty/Error/Just/FromSlice, Peek, Untyped, MapWhileFiltering,
// FlatMap, Page).  The Lean side is Drive/C04Ext.lean (model: Model/Lazy.lean, Model/LazyDsl.lean,
// Model/Terminals.lean; theorems: Props/C04Ext.lean).
//
// case grammar (one line, space separated tokens):
//
//	L lazy   c<0|1> <reader> <lazy expr in prefix notation>
//	L term   c<0|1> <terminal> <src>
//	L coll   c<0|1> <collector> <src>
//	L sample c<0|1> <collect|stream> k=<k> seed=<s> <src>
//	L iter   idx=<0|1> break=<j|-> <src>
//	L src    c<0|1> lim=<n|-> <kind> <src>
//
// src := <ints>  or  <ints>!<E>   (the provider fails with E after delivering the ints), ints := "-" | "1,2,3"
// E   := e<n> (user error n) | eof (io.EOF) | cx (context.Canceled given as a value)
import (
	"context"
	"errors"
	"fmt"
	"io"
	"maps"
	"math/rand"
	"slices"
	"sort"
	"strconv"
	"strings"

	"github.com/shpandrak/shpanstream"
	"github.com/shpandrak/shpanstream/lazy"
	"github.com/shpandrak/shpanstream/stream"
)

// ---------------------------------------------------------------- errors and their classes

type lxUserErr struct{ n int }

func (e *lxUserErr) Error() string { return fmt.Sprintf("uerr%d#", e.n) }

type lxEmptyErr struct{ tag int }

func (e *lxEmptyErr) Error() string { return fmt.Sprintf("cempty%d#", e.tag) }

func lxErrOf(tok string) (error, bool) {
	switch {
	case tok == "nil":
		return nil, true
	case tok == "eof":
		return io.EOF, true
	case tok == "cx":
		return context.Canceled, true
	case strings.HasPrefix(tok, "e"):
		n, err := strconv.Atoi(tok[1:])
		if err != nil {
			return nil, false
		}
		return &lxUserErr{n}, true
	}
	return nil, false
}

func lxClassMsg(msg string) string {
	switch {
	case strings.Contains(msg, "uerr"):
		i := strings.Index(msg, "uerr") + 4
		j := strings.IndexByte(msg[i:], '#')
		if j > 0 {
			return "e" + msg[i:i+j]
		}
	case strings.Contains(msg, "cempty"):
		i := strings.Index(msg, "cempty") + 6
		j := strings.IndexByte(msg[i:], '#')
		if j > 0 {
			return "emptyc" + msg[i:i+j]
		}
	case strings.Contains(msg, "context canceled"):
		return "cx"
	case strings.Contains(msg, "duplicate key"):
		return "dup"
	case msg == "lazy value is empty":
		return "emptyd"
	case strings.Contains(msg, "no \"first element\" in an empty stream"):
		return "nofirst"
	case strings.Contains(msg, "no \"last element\" in an empty stream"):
		return "nolast"
	case strings.Contains(msg, "no \"first and last element\" in an empty stream"):
		return "nofirstlast"
	case strings.HasSuffix(msg, "EOF"):
		return "eof"
	}
	return "other:" + strings.ReplaceAll(msg, " ", "_")
}

// lxClass maps an error to its class: the ROOT error (errors.As / errors.Is), never the message of a wrapper.
func lxClass(err error) string {
	if err == nil {
		return "nil"
	}
	var ue *lxUserErr
	if errors.As(err, &ue) {
		return fmt.Sprintf("e%d", ue.n)
	}
	var ee *lxEmptyErr
	if errors.As(err, &ee) {
		return fmt.Sprintf("emptyc%d", ee.tag)
	}
	if errors.Is(err, context.Canceled) {
		return "cx"
	}
	if errors.Is(err, io.EOF) {
		return "eof"
	}
	return lxClassMsg(err.Error())
}

func lxPanicClass(rv any) string {
	if e, ok := rv.(error); ok {
		return lxClass(e)
	}
	return lxClassMsg(fmt.Sprint(rv))
}

func lxCtx(tok string) (context.Context, bool) {
	switch tok {
	case "c0":
		return context.Background(), true
	case "c1":
		ctx, cancel := context.WithCancel(context.Background())
		cancel()
		return ctx, true
	}
	return nil, false
}

func lxInts(s string) ([]int, bool) {
	if s == "-" {
		return nil, true
	}
	var out []int
	for _, t := range strings.Split(s, ",") {
		n, err := strconv.Atoi(t)
		if err != nil {
			return nil, false
		}
		out = append(out, n)
	}
	return out, true
}

func lxFmtInts(l []int) string {
	if len(l) == 0 {
		return "-"
	}
	ss := make([]string, len(l))
	for i, v := range l {
		ss[i] = strconv.Itoa(v)
	}
	return strings.Join(ss, ",")
}

func lxFmtStrs(l []string) string {
	if len(l) == 0 {
		return "-"
	}
	return strings.Join(l, ",")
}

// lxSrc parses "<ints>" or "<ints>!<E>".
func lxSrc(tok string) (xs []int, fail error, ok bool) {
	body := tok
	if i := strings.IndexByte(tok, '!'); i >= 0 {
		body = tok[:i]
		fail, ok = lxErrOf(tok[i+1:])
		if !ok || fail == nil || fail == io.EOF { // a provider returning io.EOF is the END of the stream, not a failure
			return nil, nil, false
		}
	}
	xs, ok = lxInts(body)
	return xs, fail, ok
}

// lxStream builds a fresh real stream delivering xs and then failing with fail (or ending).
func lxStream(xs []int, fail error) stream.Stream[int] {
	if fail == nil {
		return stream.FromSlice(xs)
	}
	i := 0
	return stream.NewSimpleStream(func(ctx context.Context) (int, error) {
		if i < len(xs) {
			v := xs[i]
			i++
			return v, nil
		}
		return 0, fail
	}, stream.WithOpenFuncOption(func(context.Context) error {
		i = 0 // every materialisation starts over, like FromSlice (a Lazy over this stream may be evaluated again)
		return nil
	}))
}

// ---------------------------------------------------------------- named user functions

func lxTmod(x, m int) int { return x % m } // Go's % truncates, as Int.tmod

func lxPred(name string) (shpanstream.PredicateWithErrAndCtx[int], int) {
	// second result: 0 = pure, 1 = needs Err, 2 = needs Ctx
	switch name {
	case "tt":
		return func(_ context.Context, x int) (bool, error) { return true, nil }, 0
	case "ff":
		return func(_ context.Context, x int) (bool, error) { return false, nil }, 0
	case "even":
		return func(_ context.Context, x int) (bool, error) { return lxTmod(x, 2) == 0, nil }, 0
	case "pos":
		return func(_ context.Context, x int) (bool, error) { return x > 0, nil }, 0
	case "fail":
		return func(_ context.Context, x int) (bool, error) { return false, &lxUserErr{9} }, 1
	case "failodd":
		return func(_ context.Context, x int) (bool, error) {
			if lxTmod(x, 2) != 0 {
				return true, &lxUserErr{9}
			}
			return true, nil
		}, 1
	case "ctx":
		return func(ctx context.Context, x int) (bool, error) {
			if ctx.Err() != nil {
				return true, ctx.Err()
			}
			return true, nil
		}, 2
	}
	return nil, -1
}

func lxFn(name string) (shpanstream.MapperWithErrAndCtx[int, int], int) {
	switch name {
	case "id":
		return func(_ context.Context, x int) (int, error) { return x, nil }, 0
	case "add1":
		return func(_ context.Context, x int) (int, error) { return x + 1, nil }, 0
	case "mul2":
		return func(_ context.Context, x int) (int, error) { return x * 2, nil }, 0
	case "neg":
		return func(_ context.Context, x int) (int, error) { return -x, nil }, 0
	case "fail":
		return func(_ context.Context, x int) (int, error) { return 5, &lxUserErr{8} }, 1
	case "failodd":
		return func(_ context.Context, x int) (int, error) {
			if lxTmod(x, 2) != 0 {
				return x, &lxUserErr{8}
			}
			return x + 10, nil
		}, 1
	case "ctx":
		return func(ctx context.Context, x int) (int, error) {
			if ctx.Err() != nil {
				return x, ctx.Err()
			}
			return x + 100, nil
		}, 2
	}
	return nil, -1
}

func lxPtrFn(name string) (shpanstream.MapperWithErrAndCtx[int, *int], int) {
	switch name {
	case "keep":
		return func(_ context.Context, x int) (*int, error) { return &x, nil }, 0
	case "drop":
		return func(_ context.Context, x int) (*int, error) { return nil, nil }, 0
	case "evenonly":
		return func(_ context.Context, x int) (*int, error) {
			if lxTmod(x, 2) == 0 {
				return &x, nil
			}
			return nil, nil
		}, 0
	case "add1":
		return func(_ context.Context, x int) (*int, error) { y := x + 1; return &y, nil }, 0
	case "fail":
		return func(_ context.Context, x int) (*int, error) { return &x, &lxUserErr{8} }, 1
	case "failodd":
		return func(_ context.Context, x int) (*int, error) {
			if lxTmod(x, 2) != 0 {
				return nil, &lxUserErr{8}
			}
			return &x, nil
		}, 1
	case "ctx":
		return func(ctx context.Context, x int) (*int, error) {
			if ctx.Err() != nil {
				return nil, ctx.Err()
			}
			return &x, nil
		}, 2
	}
	return nil, -1
}

func lxLazyFn(name string) shpanstream.Mapper[int, lazy.Lazy[int]] {
	switch name {
	case "fjust":
		return func(x int) lazy.Lazy[int] { return lazy.Just(x + 1) }
	case "fempty":
		return func(x int) lazy.Lazy[int] { return lazy.Empty[int]() }
	case "ferr":
		return func(x int) lazy.Lazy[int] { return lazy.Error[int](&lxUserErr{7}) }
	case "femptyT":
		return func(x int) lazy.Lazy[int] {
			return lazy.JustOptionalOrElseThrow[int](nil, func() error { return &lxEmptyErr{5} })
		}
	case "fevenT":
		return func(x int) lazy.Lazy[int] {
			if lxTmod(x, 2) == 0 {
				return lazy.Just(x)
			}
			return lazy.JustOptionalOrElseThrow[int](nil, func() error { return &lxEmptyErr{6} })
		}
	}
	return nil
}

func lxConsumer(name string) (func(context.Context, int) error, int) {
	switch name {
	case "cok":
		return func(context.Context, int) error { return nil }, 0
	case "cfail":
		return func(context.Context, int) error { return &lxUserErr{6} }, 1
	case "cfailodd":
		return func(_ context.Context, x int) error {
			if lxTmod(x, 2) != 0 {
				return &lxUserErr{6}
			}
			return nil
		}, 1
	case "cctx":
		return func(ctx context.Context, _ int) error { return ctx.Err() }, 2
	}
	return nil, -1
}

// ---------------------------------------------------------------- lazy expressions

type lxParser struct {
	toks []string
	pos  int
	bad  bool
}

func (p *lxParser) next() string {
	if p.pos >= len(p.toks) {
		p.bad = true
		return ""
	}
	t := p.toks[p.pos]
	p.pos++
	return t
}

func (p *lxParser) int() int {
	n, err := strconv.Atoi(p.next())
	if err != nil {
		p.bad = true
	}
	return n
}

func (p *lxParser) optInt() *int {
	t := p.next()
	if t == "nil" {
		return nil
	}
	n, err := strconv.Atoi(t)
	if err != nil {
		p.bad = true
	}
	return &n
}

func (p *lxParser) err() error {
	e, ok := lxErrOf(p.next())
	if !ok {
		p.bad = true
	}
	return e
}

// fetch result token: v<int> | nil | E
func (p *lxParser) fetchRes() (*int, error) {
	t := p.next()
	if strings.HasPrefix(t, "v") {
		n, err := strconv.Atoi(t[1:])
		if err != nil {
			p.bad = true
		}
		return &n, nil
	}
	if t == "nil" {
		return nil, nil
	}
	e, ok := lxErrOf(t)
	if !ok || e == nil {
		p.bad = true
	}
	return nil, e
}

func lxSup(tag int) func() error { return func() error { return &lxEmptyErr{tag} } }

func (p *lxParser) expr() lazy.Lazy[int] {
	if p.bad {
		return lazy.Empty[int]()
	}
	t := p.next()
	name, arg, _ := strings.Cut(t, ":")
	switch name {
	case "just":
		return lazy.Just(p.int())
	case "jwe":
		v := p.int()
		return lazy.JustWithErr(v, p.err())
	case "jopt":
		return lazy.JustOptional(p.optInt())
	case "jowe":
		v := p.optInt()
		return lazy.JustOptionalWithErr(v, p.err())
	case "joet":
		v := p.optInt()
		return lazy.JustOptionalOrElseThrow(v, lxSup(p.int()))
	case "new":
		v, e := p.fetchRes()
		if v == nil && e == nil {
			p.bad = true
			return lazy.Empty[int]()
		}
		return lazy.NewLazy(func(context.Context) (int, error) {
			if e != nil {
				return 3, e // the value next to an error must be ignored
			}
			return *v, nil
		})
	case "newc":
		return lazy.NewLazy(func(ctx context.Context) (int, error) {
			if ctx.Err() != nil {
				return 0, ctx.Err()
			}
			return 7, nil
		})
	case "nopt":
		v, e := p.fetchRes()
		return lazy.NewLazyOptional(func(context.Context) (*int, error) { return v, e })
	case "noet":
		v, e := p.fetchRes()
		return lazy.NewLazyOptionalOrElseThrow(func(context.Context) (*int, error) { return v, e }, lxSup(p.int()))
	case "empty":
		return lazy.Empty[int]()
	case "error":
		e := p.err()
		if e == nil {
			p.bad = true
		}
		return lazy.Error[int](e)
	case "oet":
		tag, err := strconv.Atoi(arg)
		if err != nil {
			p.bad = true
		}
		return p.expr().OrElseThrow(lxSup(tag))
	case "filter", "filterE", "filterC":
		f, lvl := lxPred(arg)
		x := p.expr()
		if lvl < 0 || (name == "filter" && lvl > 0) || (name == "filterE" && lvl > 1) {
			p.bad = true
			return x
		}
		switch name {
		case "filter":
			return x.Filter(func(v int) bool { b, _ := f(context.Background(), v); return b })
		case "filterE":
			return x.FilterWithErr(func(v int) (bool, error) { return f(context.Background(), v) })
		}
		return x.FilterWithErrAndCtx(f)
	case "map", "mapE", "mapC":
		f, lvl := lxFn(arg)
		x := p.expr()
		if lvl < 0 || (name == "map" && lvl > 0) || (name == "mapE" && lvl > 1) {
			p.bad = true
			return x
		}
		switch name {
		case "map":
			return lazy.Map(x, func(v int) int { r, _ := f(context.Background(), v); return r })
		case "mapE":
			return lazy.MapWithErr(x, func(v int) (int, error) { return f(context.Background(), v) })
		}
		return lazy.MapWithErrAndCtx(x, f)
	case "mwf", "mwfE", "mwfC":
		f, lvl := lxPtrFn(arg)
		x := p.expr()
		if lvl < 0 || (name == "mwf" && lvl > 0) || (name == "mwfE" && lvl > 1) {
			p.bad = true
			return x
		}
		switch name {
		case "mwf":
			return lazy.MapWhileFiltering(x, func(v int) *int { r, _ := f(context.Background(), v); return r })
		case "mwfE":
			return lazy.MapWhileFilteringWithErr(x, func(v int) (*int, error) { return f(context.Background(), v) })
		}
		return lazy.MapWhileFilteringWithErrAndCtx(x, f)
	case "flatmap":
		f := lxLazyFn(arg)
		x := p.expr()
		if f == nil {
			p.bad = true
			return x
		}
		return lazy.FlatMap(x, f)
	case "or":
		a := p.expr()
		b := p.expr()
		return a.Or(b)
	}
	p.bad = true
	return lazy.Empty[int]()
}

func lxFmtOpt(p *int) string {
	if p == nil {
		return "nil"
	}
	return strconv.Itoa(*p)
}

// lxValErr formats (value, err) of a function that must return the zero value next to an error.
func lxValErr(v int, err error) string {
	if err != nil {
		if v != 0 {
			return "err " + lxClass(err) + " nonzero"
		}
		return "err " + lxClass(err)
	}
	return "ok " + strconv.Itoa(v)
}

func lxOptErr(v *int, err error) string {
	if err != nil {
		return "err " + lxClass(err)
	}
	return "ok " + lxFmtOpt(v)
}

func lxBoolErr(b bool, err error) string {
	if err != nil {
		if b {
			return "err " + lxClass(err) + " nonzero"
		}
		return "err " + lxClass(err)
	}
	if b {
		return "ok t"
	}
	return "ok f"
}

// lxMust runs f under recover.
func lxMust(f func() string) (out string) {
	defer func() {
		if rv := recover(); rv != nil {
			out = "panic " + lxPanicClass(rv)
		}
	}()
	return f()
}

func lxExecLazy(toks []string) string {
	if len(toks) < 3 {
		return "bad-case"
	}
	ctx, ok := lxCtx(toks[0])
	if !ok {
		return "bad-case"
	}
	reader, rarg, _ := strings.Cut(toks[1], ":")
	p := &lxParser{toks: toks[2:]}
	l := p.expr()
	if p.bad || p.pos != len(p.toks) {
		return "bad-case"
	}
	argInt := func() int {
		n, err := strconv.Atoi(rarg)
		if err != nil {
			p.bad = true
		}
		return n
	}
	switch reader {
	case "get":
		return lxValErr(l.Get(ctx))
	case "getopt":
		return lxOptErr(l.GetOptional(ctx))
	case "mustgetopt":
		return lxMust(func() string { return "ok " + lxFmtOpt(l.MustGetOptional()) })
	case "mustget":
		return lxMust(func() string { return "ok " + strconv.Itoa(l.MustGet()) })
	case "orelse":
		d := argInt()
		if p.bad {
			return "bad-case"
		}
		return lxValErr(l.OrElse(ctx, d))
	case "mustorelse":
		d := argInt()
		if p.bad {
			return "bad-case"
		}
		return lxMust(func() string { return "ok " + strconv.Itoa(l.MustOrElse(d)) })
	case "orelseget":
		d := argInt()
		if p.bad {
			return "bad-case"
		}
		calls := 0
		r := lxValErr(l.OrElseGet(ctx, func() int { calls++; return d }))
		return fmt.Sprintf("%s alt=%d", r, calls)
	case "mustorelseget":
		d := argInt()
		if p.bad {
			return "bad-case"
		}
		calls := 0
		r := lxMust(func() string { return "ok " + strconv.Itoa(l.MustOrElseGet(func() int { calls++; return d })) })
		return fmt.Sprintf("%s alt=%d", r, calls)
	case "isempty":
		return lxBoolErr(l.IsEmpty(ctx))
	case "mustisempty":
		return lxMust(func() string { return lxBoolErr(l.MustIsEmpty(), nil) })
	case "consume":
		var calls []int
		err := l.Consume(ctx, func(v int) { calls = append(calls, v) })
		return fmt.Sprintf("calls=%s %s", lxFmtInts(calls), lxErrOnly(err))
	case "mustconsume":
		var calls []int
		r := lxMust(func() string { l.MustConsume(func(v int) { calls = append(calls, v) }); return "ok" })
		return fmt.Sprintf("calls=%s %s", lxFmtInts(calls), r)
	case "consumeE", "consumeC":
		f, lvl := lxConsumer(rarg)
		if lvl < 0 || (reader == "consumeE" && lvl > 1) {
			return "bad-case"
		}
		var calls []int
		var err error
		if reader == "consumeE" {
			err = l.ConsumeWithErr(ctx, func(v int) error { calls = append(calls, v); return f(context.Background(), v) })
		} else {
			err = l.ConsumeWithErrAndCtx(ctx, func(c context.Context, v int) error { calls = append(calls, v); return f(c, v) })
		}
		return fmt.Sprintf("calls=%s %s", lxFmtInts(calls), lxErrOnly(err))
	case "fromlazy":
		return lxListErr(stream.FromLazy(l).Collect(ctx))
	case "fromlazycount":
		return lxValErr(stream.FromLazy(l).Count(ctx))
	}
	return "bad-case"
}

func lxErrOnly(err error) string {
	if err != nil {
		return "err " + lxClass(err)
	}
	return "ok"
}

func lxListErr(l []int, err error) string {
	if err != nil {
		if len(l) != 0 {
			return "err " + lxClass(err) + " nonzero"
		}
		return "err " + lxClass(err)
	}
	return "ok " + lxFmtInts(l)
}

// ---------------------------------------------------------------- terminals

func lxReducer(name string) func(acc, v int) (int, error) {
	switch name {
	case "sum":
		return func(acc, v int) (int, error) { return acc + v, nil }
	case "digits":
		return func(acc, v int) (int, error) { return acc*10 + v, nil }
	case "last":
		return func(acc, v int) (int, error) { return v, nil }
	case "rfail2":
		return func(acc, v int) (int, error) {
			if v == 2 {
				return acc, &lxUserErr{5}
			}
			return acc + v, nil
		}
	}
	return nil
}

// lxLazyBoth reads a terminal's Lazy result through Get and GetOptional (a fresh stream for each), and then evaluates ONE
// Lazy value four times (Get, GetOptional, Get, GetOptional): over options a value can be asked for any number of times
// with the same answer, so a Lazy whose pipeline is consumed by its first evaluation shows as a trailing `| again …`.
func lxLazyBoth[T any](ctx context.Context, mk func() lazy.Lazy[T], f func(T) string) string {
	get := func(l lazy.Lazy[T]) string {
		v, err := l.Get(ctx)
		if err != nil {
			return "err " + lxClass(err)
		}
		return "ok " + f(v)
	}
	opt := func(l lazy.Lazy[T]) string {
		o, err := l.GetOptional(ctx)
		switch {
		case err != nil:
			return "err " + lxClass(err)
		case o == nil:
			return "ok nil"
		default:
			return "ok " + f(*o)
		}
	}
	a := get(mk())
	b := opt(mk())
	res := "get " + a + " | opt " + b
	one := mk()
	for i := 0; i < 2; i++ {
		if a2, b2 := get(one), opt(one); a2 != a || b2 != b {
			return res + fmt.Sprintf(" | again#%d get %s | opt %s", i+1, a2, b2)
		}
	}
	return res
}

func lxExecTerm(toks []string) string {
	if len(toks) != 3 {
		return "bad-case"
	}
	ctx, ok := lxCtx(toks[0])
	xs, fail, ok2 := lxSrc(toks[2])
	if !ok || !ok2 {
		return "bad-case"
	}
	mk := func() stream.Stream[int] { return lxStream(xs, fail) }
	parts := strings.Split(toks[1], ":")
	itoa := func(v int) string { return strconv.Itoa(v) }
	switch parts[0] {
	case "collect":
		return lxListErr(mk().Collect(ctx))
	case "mustcollect":
		return lxMust(func() string { return "ok " + lxFmtInts(mk().MustCollect()) })
	case "count":
		return lxValErr(mk().Count(ctx))
	case "mustcount":
		return lxMust(func() string { return "ok " + itoa(mk().MustCount()) })
	case "findfirst":
		return lxLazyBoth(ctx, func() lazy.Lazy[int] { return mk().FindFirst() }, itoa)
	case "findlast":
		return lxLazyBoth(ctx, func() lazy.Lazy[int] { return mk().FindLast() }, itoa)
	case "firstlast":
		return lxLazyBoth(ctx, func() lazy.Lazy[shpanstream.Tuple2[int, int]] { return stream.FindFirstAndLast(mk()) },
			func(t shpanstream.Tuple2[int, int]) string { return fmt.Sprintf("%d:%d", t.A, t.B) })
	case "isempty":
		return lxBoolErr(mk().IsEmpty(ctx))
	case "reduce", "reduceE", "mustreduce", "reducelazy":
		if len(parts) != 3 {
			return "bad-case"
		}
		r := lxReducer(parts[1])
		init, err := strconv.Atoi(parts[2])
		if r == nil || err != nil || (parts[0] != "reduceE" && parts[1] == "rfail2") {
			return "bad-case"
		}
		pure := func(acc, v int) int { x, _ := r(acc, v); return x }
		switch parts[0] {
		case "reduce":
			return lxValErr(stream.Reduce(ctx, mk(), init, pure))
		case "reduceE":
			return lxValErr(stream.ReduceWithErr(ctx, mk(), init, r))
		case "mustreduce":
			return lxMust(func() string { return "ok " + itoa(stream.MustReduce(mk(), init, pure)) })
		default:
			return lxLazyBoth(ctx, func() lazy.Lazy[int] { return stream.ReduceLazy(mk(), init, pure) }, itoa)
		}
	case "min":
		return lxValErr(stream.Min(ctx, mk()))
	case "max":
		return lxValErr(stream.Max(ctx, mk()))
	case "mustmin":
		return lxMust(func() string { return "ok " + itoa(stream.MustMin(mk())) })
	case "mustmax":
		return lxMust(func() string { return "ok " + itoa(stream.MustMax(mk())) })
	case "minlazy":
		return lxLazyBoth(ctx, func() lazy.Lazy[int] { return stream.MinLazy(mk()) }, itoa)
	case "maxlazy":
		return lxLazyBoth(ctx, func() lazy.Lazy[int] { return stream.MaxLazy(mk()) }, itoa)
	}
	return "bad-case"
}

// ---------------------------------------------------------------- collectors

func lxKey(name string) func(int) int {
	switch name {
	case "mod2":
		return func(x int) int { return lxTmod(x, 2) }
	case "mod3":
		return func(x int) int { return lxTmod(x, 3) }
	case "self":
		return func(x int) int { return x }
	case "const":
		return func(x int) int { return 0 }
	}
	return nil
}

func lxFmtMap[V any](m map[int]V, f func(V) string) string {
	if len(m) == 0 {
		return "-"
	}
	keys := slices.Collect(maps.Keys(m))
	sort.Ints(keys)
	ss := make([]string, len(keys))
	for i, k := range keys {
		ss[i] = fmt.Sprintf("%d=%s", k, f(m[k]))
	}
	return strings.Join(ss, ",")
}

func lxMapErr[V any](m map[int]V, err error, f func(V) string) string {
	if err != nil {
		if m != nil {
			return "err " + lxClass(err) + " nonzero"
		}
		return "err " + lxClass(err)
	}
	if m == nil {
		return "ok nilmap"
	}
	return "ok " + lxFmtMap(m, f)
}

func lxExecColl(toks []string) string {
	if len(toks) != 3 {
		return "bad-case"
	}
	ctx, ok := lxCtx(toks[0])
	xs, fail, ok2 := lxSrc(toks[2])
	if !ok || !ok2 {
		return "bad-case"
	}
	s := lxStream(xs, fail)
	name, arg, _ := strings.Cut(toks[1], ":")
	itoa := func(v int) string { return strconv.Itoa(v) }
	btoa := func(b bool) string {
		if b {
			return "t"
		}
		return "f"
	}
	switch name {
	case "tomap":
		k := lxKey(arg)
		if k == nil {
			return "bad-case"
		}
		m, err := stream.CollectToMap(ctx, s, func(x int) (int, int) { return k(x), x*10 + 1 })
		return lxMapErr(m, err, itoa)
	case "toset":
		m, err := stream.CollectToSet(ctx, s)
		return lxMapErr(m, err, btoa)
	case "musttoset":
		return lxMust(func() string { return "ok " + lxFmtMap(stream.MustCollectToSet(s), btoa) })
	case "countby":
		k := lxKey(arg)
		if k == nil {
			return "bad-case"
		}
		m, err := stream.CollectCountGroupedBy(ctx, s, k)
		return lxMapErr(m, err, func(u uint64) string { return strconv.FormatUint(u, 10) })
	case "override":
		k := lxKey(arg)
		if k == nil {
			return "bad-case"
		}
		m, err := stream.CollectToMapOverrideDuplicates(ctx, s, k)
		return lxMapErr(m, err, itoa)
	}
	return "bad-case"
}

// ---------------------------------------------------------------- random sampling

// lxSeedWorks: can the global math/rand source be replayed (rand.Seed honoured)?  If not, no oracle is reported
// and the driver compares only the deterministic facts.
var lxSeedWorks = func() bool {
	rand.Seed(12345) //nolint:staticcheck
	a1, a2, a3 := rand.Intn(1000), rand.Intn(7), rand.Intn(1<<30)
	rand.Seed(12345) //nolint:staticcheck
	b1, b2, b3 := rand.Intn(1000), rand.Intn(7), rand.Intn(1<<30)
	return a1 == b1 && a2 == b2 && a3 == b3
}()

func lxExecSample(toks []string) string {
	if len(toks) != 5 || !strings.HasPrefix(toks[2], "k=") || !strings.HasPrefix(toks[3], "seed=") {
		return "bad-case"
	}
	ctx, ok := lxCtx(toks[0])
	k, err1 := strconv.Atoi(toks[2][2:])
	seed, err2 := strconv.ParseInt(toks[3][5:], 10, 64)
	xs, fail, ok2 := lxSrc(toks[4])
	if !ok || !ok2 || err1 != nil || err2 != nil {
		return "bad-case"
	}
	rand.Seed(seed) //nolint:staticcheck
	var res []int
	var err error
	switch toks[1] {
	case "collect":
		res, err = lxStream(xs, fail).CollectRandomSample(ctx, k)
	case "stream":
		res, err = lxStream(xs, fail).RandomSample(k).Collect(ctx)
	default:
		return "bad-case"
	}
	if err != nil {
		return lxListErr(res, err)
	}
	// replay the answers rand.Intn gave: the algorithm asks rand.Intn(index+1) once for every index >= k
	orc := "?"
	if lxSeedWorks {
		rand.Seed(seed) //nolint:staticcheck
		var answers []int
		if k > 0 {
			for index := k; index < len(xs); index++ {
				answers = append(answers, rand.Intn(index+1))
			}
		}
		orc = lxFmtInts(answers)
	}
	return "ok " + lxFmtInts(res) + " orc=" + orc
}

// lxExecSampleCov: `L samplecov <collect|stream> k=<k> n=<n> draws=<N> seed=<s>` — N samples of size k of the stream
// 0..n-1; the observation is how often each element was included.  (The model of random sampling over a plain slice is
// a uniformly random k-subset: every element is included with probability min(k,n)/n.)
func lxExecSampleCov(toks []string) string {
	if len(toks) != 5 {
		return "bad-case"
	}
	get := func(t, pfx string) (int, bool) {
		if !strings.HasPrefix(t, pfx) {
			return 0, false
		}
		v, err := strconv.Atoi(t[len(pfx):])
		return v, err == nil
	}
	k, ok1 := get(toks[1], "k=")
	n, ok2 := get(toks[2], "n=")
	draws, ok3 := get(toks[3], "draws=")
	seed, ok4 := get(toks[4], "seed=")
	if !ok1 || !ok2 || !ok3 || !ok4 || n < 0 || n > 64 || draws < 1 || draws > 100000 {
		return "bad-case"
	}
	xs := make([]int, n)
	for i := range xs {
		xs[i] = i
	}
	rand.Seed(int64(seed)) //nolint:staticcheck
	inc := make([]int, n)
	ctx := context.Background()
	for d := 0; d < draws; d++ {
		var res []int
		var err error
		if toks[0] == "stream" {
			res, err = stream.Just(xs...).RandomSample(k).Collect(ctx)
		} else {
			res, err = stream.Just(xs...).CollectRandomSample(ctx, k)
		}
		if err != nil {
			return "err " + strings.ReplaceAll(err.Error(), " ", "_")
		}
		want := k
		if want > n {
			want = n
		}
		if want < 0 {
			want = 0
		}
		if len(res) != want {
			return fmt.Sprintf("badlen %d", len(res))
		}
		for _, v := range res {
			if v < 0 || v >= n {
				return "badelem"
			}
			inc[v]++
		}
	}
	return "ok inc=" + lxFmtInts(inc)
}

// ---------------------------------------------------------------- Iterator / IndexedIterator

func lxExecIter(toks []string) string {
	if len(toks) != 3 || !strings.HasPrefix(toks[0], "idx=") || !strings.HasPrefix(toks[1], "break=") {
		return "bad-case"
	}
	xs, fail, ok := lxSrc(toks[2])
	if !ok {
		return "bad-case"
	}
	brk := -1
	if b := toks[1][6:]; b != "-" {
		n, err := strconv.Atoi(b)
		if err != nil || n < 0 {
			return "bad-case"
		}
		brk = n
	}
	var seen []string
	pulled := 0 // elements the loop made the source hand out (a broken-out loop must not drain the rest)
	counted := func() stream.Stream[int] { return lxStream(xs, fail).Peek(func(int) { pulled++ }) }
	res := lxMust(func() string {
		switch toks[0] {
		case "idx=0":
			n := 0
			for v := range counted().Iterator {
				seen = append(seen, strconv.Itoa(v))
				if n == brk {
					break
				}
				n++
			}
		case "idx=1":
			n := 0
			for i, v := range counted().IndexedIterator {
				seen = append(seen, fmt.Sprintf("%d:%d", i, v))
				if n == brk {
					break
				}
				n++
			}
		default:
			return "bad-case"
		}
		return "done"
	})
	if res == "bad-case" {
		return res
	}
	return "seen=" + lxFmtStrs(seen) + " " + res + fmt.Sprintf(" pulled=%d", pulled)
}

// ---------------------------------------------------------------- sources and thin operators

func lxSeq(xs []int) func(yield func(int) bool) {
	return func(yield func(int) bool) {
		for _, x := range xs {
			if !yield(x) {
				return
			}
		}
	}
}

func lxStreamFn(name string) shpanstream.Mapper[int, stream.Stream[int]] {
	switch name {
	case "pair":
		return func(x int) stream.Stream[int] { return stream.Just(x, x+1) }
	case "none":
		return func(x int) stream.Stream[int] { return stream.Empty[int]() }
	case "rep":
		return func(x int) stream.Stream[int] {
			var l []int
			for i := 0; i < x && i < 3; i++ {
				l = append(l, x)
			}
			return stream.FromSlice(l)
		}
	case "errodd":
		return func(x int) stream.Stream[int] {
			if lxTmod(x, 2) != 0 {
				return stream.Error[int](&lxUserErr{4})
			}
			return stream.Just(x)
		}
	}
	return nil
}

func lxExecSrc(toks []string) string {
	if len(toks) != 4 || !strings.HasPrefix(toks[1], "lim=") {
		return "bad-case"
	}
	ctx, ok := lxCtx(toks[0])
	xs, fail, ok2 := lxSrc(toks[3])
	if !ok || !ok2 {
		return "bad-case"
	}
	lim := -1
	if l := toks[1][4:]; l != "-" {
		n, err := strconv.Atoi(l)
		if err != nil || n < 0 {
			return "bad-case"
		}
		lim = n
	}
	kindParts := strings.Split(toks[2], ":")
	kind := kindParts[0]
	collect := func(s stream.Stream[int]) ([]int, error) {
		if lim >= 0 {
			s = s.Limit(lim)
		}
		return s.Collect(ctx)
	}
	base := func() stream.Stream[int] { return lxStream(xs, fail) }
	plain := fail == nil
	sortedInts := func(l []int, err error) string {
		sort.Ints(l)
		return lxListErr(l, err)
	}
	switch kind {
	case "slice":
		if !plain {
			return "bad-case"
		}
		// FromSlice and Just copy: the caller overwrites its slice after building the stream
		buf := append([]int(nil), xs...)
		s := stream.FromSlice(buf)
		for i := range buf {
			buf[i] = 9000 + i
		}
		return lxListErr(collect(s))
	case "just":
		if !plain {
			return "bad-case"
		}
		buf := append([]int(nil), xs...)
		s := stream.Just(buf...)
		for i := range buf {
			buf[i] = 9000 + i
		}
		return lxListErr(collect(s))
	case "empty":
		return lxListErr(collect(stream.Empty[int]()))
	case "error":
		if len(kindParts) != 2 {
			return "bad-case"
		}
		e, ok := lxErrOf(kindParts[1])
		if !ok || e == nil {
			return "bad-case"
		}
		return lxListErr(collect(stream.Error[int](e)))
	case "iter":
		if !plain {
			return "bad-case"
		}
		return lxListErr(collect(stream.FromIterator(lxSeq(xs))))
	case "iter2":
		if !plain {
			return "bad-case"
		}
		s := stream.FromIterator2(func(yield func(int, int) bool) {
			for i, x := range xs {
				if !yield(i, x) {
					return
				}
			}
		})
		if lim >= 0 {
			s = s.Limit(lim)
		}
		es, err := s.Collect(ctx)
		if err != nil {
			return "err " + lxClass(err)
		}
		ss := make([]string, len(es))
		for i, e := range es {
			ss[i] = fmt.Sprintf("%d:%d", e.Key, e.Value)
		}
		return "ok " + lxFmtStrs(ss)
	case "mapkeys", "mapvalues", "mapentries":
		if !plain {
			return "bad-case"
		}
		// the map: key x -> value 10*(index of the LAST occurrence of x) + 1
		m := map[int]int{}
		for i, x := range xs {
			m[x] = 10*i + 1
		}
		switch kind {
		case "mapkeys":
			return sortedInts(collect(stream.FromMapKeys(m)))
		case "mapvalues":
			return sortedInts(collect(stream.FromMapValues(m)))
		}
		s := stream.FromMapEntries(m)
		if lim >= 0 {
			s = s.Limit(lim)
		}
		es, err := s.Collect(ctx)
		if err != nil {
			return "err " + lxClass(err)
		}
		slices.SortFunc(es, func(a, b shpanstream.Entry[int, int]) int { return a.Key - b.Key })
		ss := make([]string, len(es))
		for i, e := range es {
			ss[i] = fmt.Sprintf("%d:%d", e.Key, e.Value)
		}
		return "ok " + lxFmtStrs(ss)
	case "chan":
		if !plain {
			return "bad-case"
		}
		ch := make(chan int, len(xs)+1)
		for _, x := range xs {
			ch <- x
		}
		close(ch)
		return lxListErr(collect(stream.FromChannel(ch)))
	case "peek":
		var calls []int
		r := lxListErr(collect(base().Peek(func(v int) { calls = append(calls, v) })))
		return r + " calls=" + lxFmtInts(calls)
	case "untyped":
		s := stream.Map(base().Untyped(), func(a any) int { return a.(int) })
		return lxListErr(collect(s))
	case "mwf", "mwfE":
		if len(kindParts) != 2 {
			return "bad-case"
		}
		f, lvl := lxPtrFn(kindParts[1])
		if lvl < 0 || lvl > 1 || (kind == "mwf" && lvl > 0) {
			return "bad-case"
		}
		if kind == "mwf" {
			return lxListErr(collect(stream.MapWhileFiltering(base(), func(v int) *int { r, _ := f(context.Background(), v); return r })))
		}
		return lxListErr(collect(stream.MapWhileFilteringWithErr(base(), func(v int) (*int, error) { return f(context.Background(), v) })))
	case "flatmap":
		if len(kindParts) != 2 {
			return "bad-case"
		}
		f := lxStreamFn(kindParts[1])
		if f == nil {
			return "bad-case"
		}
		return lxListErr(collect(stream.FlatMap(base(), f)))
	case "page":
		if len(kindParts) != 3 {
			return "bad-case"
		}
		pn, e1 := strconv.Atoi(kindParts[1])
		ps, e2 := strconv.Atoi(kindParts[2])
		if e1 != nil || e2 != nil {
			return "bad-case"
		}
		return lxListErr(collect(base().Page(pn, ps)))
	}
	return "bad-case"
}

// ExecC04Ext runs the real library on one "L ..." case.
func ExecC04Ext(caseText string) (out string) {
	defer func() {
		if rv := recover(); rv != nil {
			out = "harness-panic " + strings.ReplaceAll(fmt.Sprint(rv), "\n", " ")
		}
	}()
	toks := strings.Fields(caseText)
	if len(toks) < 2 || toks[0] != "L" {
		return "bad-case"
	}
	switch toks[1] {
	case "lazy":
		return lxExecLazy(toks[2:])
	case "term":
		return lxExecTerm(toks[2:])
	case "coll":
		return lxExecColl(toks[2:])
	case "sample":
		return lxExecSample(toks[2:])
	case "samplecov":
		return lxExecSampleCov(toks[2:])
	case "iter":
		return lxExecIter(toks[2:])
	case "src":
		return lxExecSrc(toks[2:])
	}
	return "bad-case"
}
