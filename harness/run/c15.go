package run

import (
	"context"
	"fmt"
	"math"
	"strconv"
	"strings"
	"time"

	"github.com/shpandrak/shpanstream/stream"
	"github.com/shpandrak/shpanstream/utils/timeseries"
	"github.com/shpandrak/shpanstream/utils/timeseries/tsquery"
	"github.com/shpandrak/shpanstream/utils/timeseries/tsquery/datasource"
)

// C15: delta and rate. Case / observation grammar: see lean/ShpanVerif/Drive/C15.lean.
//   ds <i|f> | <recs>                                          timeseries.DeltaStream
//   ad <i|f> <periodNs> | <recs>                               timeseries.AlignDeltaStream (fixed UTC period)
//   df <dt> <+|?> <nn> <max bits> | <recs>                     datasource.DeltaFilter
//   rt <dt> <+|?> <perSeconds> <nn> <max bits> | <recs>        datasource.RateFilter
// Every case is executed three times: with the timestamps expressed in the locations given by the case, with all of
// them in UTC, and with all of them rotated through other locations; the observation (instants only) must not change.

func init() {
	Register("C15", Family{Gen: genC15, Exec: execC15})
}

func execC15(caseText string) string {
	base := guard1415(func() string { return execC15With(caseText, func(r rec1415, i int) rec1415 { return r }) })
	if base == "bad-case" {
		return base
	}
	utc := guard1415(func() string {
		return execC15With(caseText, func(r rec1415, i int) rec1415 { r.Loc = 0; return r })
	})
	rot := guard1415(func() string {
		return execC15With(caseText, func(r rec1415, i int) rec1415 { r.Loc = 1 + (r.Loc+i)%(len(locs1415)-1); return r })
	})
	if utc != base || rot != base {
		return fmt.Sprintf("repr-dependent as-given[%s] utc[%s] rotated[%s]", base, utc, rot)
	}
	return base
}

func execC15With(caseText string, reloc func(rec1415, int) rec1415) string {
	parts := strings.Split(caseText, " | ")
	head := strings.Fields(parts[0])
	if len(head) == 0 || len(parts) != 2 {
		return "bad-case"
	}
	recs, err := parseRecs1415(strings.TrimSpace(parts[1]))
	if err != nil {
		return "bad-case"
	}
	for i := range recs {
		recs[i] = reloc(recs[i], i)
	}
	if head[0] == "dsz" || head[0] == "adz" {
		// the same with the timestamps counted from Go's zero instant
		zeroBase1415 = true
		defer func() { zeroBase1415 = false }()
		head[0] = head[0][:2]
	}
	switch head[0] {
	case "ds":
		if len(head) != 2 {
			return "bad-case"
		}
		if head[1] == "i" {
			return execTyped1415[int64](recs, 0, parseI1415, fmtI1415)
		}
		return execTyped1415[float64](recs, 0, parseFbits1415, fbits1415)
	case "ad":
		if len(head) != 3 {
			return "bad-case"
		}
		d, err := strconv.ParseInt(head[2], 10, 64)
		if err != nil || d <= 0 {
			return "bad-case"
		}
		if head[1] == "i" {
			return execTyped1415[int64](recs, d, parseI1415, fmtI1415)
		}
		return execTyped1415[float64](recs, d, parseFbits1415, fbits1415)
	case "df", "rt":
		return execFilter1415(head, recs)
	}
	return "bad-case"
}

// execTyped1415: d == 0 → DeltaStream, d > 0 → AlignDeltaStream with a fixed UTC period of d ns.
func execTyped1415[N timeseries.Number](recs []rec1415, d int64, parse func(string) (N, error), fmtV func(N) string) string {
	var in []timeseries.TsRecord[N]
	for _, r := range recs {
		v, err := parse(r.V)
		if err != nil {
			return "bad-case"
		}
		in = append(in, timeseries.TsRecord[N]{Timestamp: r.Time(), Value: v})
	}
	var s stream.Stream[timeseries.TsRecord[N]]
	if d == 0 {
		s = timeseries.DeltaStream(stream.Just(in...))
	} else {
		s = timeseries.AlignDeltaStream(stream.Just(in...), timeseries.NewFixedAlignmentPeriod(time.Duration(d), time.UTC))
	}
	out, err := s.Collect(context.Background())
	if err != nil {
		return "err " + errClass1415(err)
	}
	ps := make([]string, len(out))
	for i, r := range out {
		ps[i] = fmt.Sprintf("%d:%s", nanos1415(r.Timestamp), fmtV(r.Value))
	}
	if len(ps) == 0 {
		return "ok -"
	}
	return "ok " + strings.Join(ps, ",")
}

func execFilter1415(head []string, recs []rec1415) string {
	if len(head) < 5 || len(head[1]) != 1 {
		return "bad-case"
	}
	dt, ok := dtype1415(head[1][0])
	if !ok {
		return "bad-case"
	}
	var rows []timeseries.TsRecord[any]
	for _, r := range recs {
		v, err := parseAny1415(dt, r.V)
		if err != nil {
			return "bad-case"
		}
		rows = append(rows, timeseries.TsRecord[any]{Timestamp: r.Time(), Value: v})
	}
	fm, err := tsquery.NewFieldMetaWithCustomData("f", dt, head[2] == "+", "u", nil)
	if err != nil {
		return "bad-case"
	}
	ds, err := datasource.NewStaticDatasource(*fm, stream.FromSlice(rows))
	if err != nil {
		return "bad-case"
	}
	var filter datasource.Filter
	if head[0] == "df" {
		if len(head) != 5 {
			return "bad-case"
		}
		mx, err := parseFbits1415(head[4])
		if err != nil {
			return "bad-case"
		}
		filter = datasource.NewDeltaFilter(head[3] == "1", mx)
	} else {
		if len(head) != 6 {
			return "bad-case"
		}
		ps, err := strconv.Atoi(head[3])
		mx, err2 := parseFbits1415(head[5])
		if err != nil || err2 != nil {
			return "bad-case"
		}
		filter = datasource.NewRateFilter("r", ps, head[4] == "1", mx)
	}
	ctx := context.Background()
	res, err := datasource.NewFilteredDataSource(ds, filter).Execute(ctx, time.Time{}, time.Date(3000, 1, 1, 0, 0, 0, 0, time.UTC))
	if err != nil {
		return "err " + errClass1415(err)
	}
	meta := res.Meta()
	out, err := res.Data().Collect(ctx)
	if err != nil {
		return fmt.Sprintf("dataerr %s %s", meta.DataType(), errClass1415(err))
	}
	psx := make([]string, len(out))
	for i, r := range out {
		psx[i] = fmt.Sprintf("%d:%s", r.Timestamp.UnixNano(), tagVal1415(r.Value))
	}
	if len(psx) == 0 {
		return fmt.Sprintf("ok %s -", meta.DataType())
	}
	return fmt.Sprintf("ok %s %s", meta.DataType(), strings.Join(psx, ","))
}

// ---------------------------------------------------------------- generators

func genC15(c *Ctx) {
	// series that begin at (or around) the zero value of time.Time: "no record yet" must not be told by the timestamp
	// (plain DeltaStream only: fixed alignment periods saturate more than 292 years from the epoch, see DESIGN §C observations)
	for _, ty := range []string{"i", "f"} {
		for _, first := range []int64{0, 1, 5000000000} {
			var recs []string
			for k := 0; k < 4; k++ {
				recs = append(recs, fmt.Sprintf("%d:%s", first+int64(k)*1800e9, gridVal1415(ty, 1+k)))
			}
			c.Case(true, fmt.Sprintf("dsz %s | %s", ty, strings.Join(recs, ",")))
			c.Case(true, fmt.Sprintf("dsz %s | %s", ty, strings.Join(recs[:2], ",")))
		}
	}
	genAd1415(c)
	genDs1415(c)
	genDf1415(c)
	genRt1415(c)
}

const minNs1415 = int64(60) * 1e9

// valGrid1415: counter-like values incl. a negative one and a decrease
var ivals1415 = []int64{-2, 0, 3, 7, 10}
var fvals1415 = []float64{-2, 0, 3.5, 7.25, 10}

func gridVal1415(ty string, k int) string {
	if ty == "f" {
		return fbits1415(fvals1415[k])
	}
	return fmtI1415(ivals1415[k])
}

func locSuffix1415(r *Rng, p int) string {
	if r.Intn(p) == 0 {
		return fmt.Sprintf("@%d", r.Intn(len(locs1415)))
	}
	return ""
}

func genAd1415(c *Ctx) {
	// exhaustive: every strictly increasing choice of 1..4 (thorough 5) instants from a grid around three 1h periods
	// (on / off the boundaries) x every value assignment over 3 values x {int64, float64}
	grid := []int64{0, 20, 40, 60, 80, 120, 150, 185} // minutes
	maxLen := c.Pick(4, 5)
	vals := []int{1, 2, 4} // indices into the value grids: 0, 3(.5), 10
	var rec func(start int, chosen []int64)
	rec = func(start int, chosen []int64) {
		if n := len(chosen); n > 0 {
			total := 1
			for i := 0; i < n; i++ {
				total *= len(vals)
			}
			for combo := 0; combo < total; combo++ {
				for _, ty := range []string{"i", "f", "g"} {
					if ty == "g" && n > 3 {
						continue
					}
					x := combo
					var rs []string
					for i, t := range chosen {
						loc := ""
						if (combo+i)%3 == 0 {
							loc = fmt.Sprintf("@%d", (combo+i)%len(locs1415))
						}
						v := ""
						if ty == "g" {
							// decimals off the dyadic grid: an interpolation with weight 1 does not reproduce them bit for bit
							v = fbits1415([]float64{0.3, 0.9, 0.1}[x%len(vals)])
						} else {
							v = gridVal1415(ty, vals[x%len(vals)])
						}
						rs = append(rs, fmt.Sprintf("%d%s:%s", t*minNs1415, loc, v))
						x /= len(vals)
					}
					tyOut := ty
					if ty == "g" {
						tyOut = "f"
					}
					c.Case(n >= 2, fmt.Sprintf("ad %s %d | %s", tyOut, hourNs1415, strings.Join(rs, ",")))
				}
			}
		}
		if len(chosen) >= maxLen {
			return
		}
		for i := start; i < len(grid); i++ {
			rec(i+1, append(chosen, grid[i]))
		}
	}
	rec(0, nil)
	c.Case(false, fmt.Sprintf("ad i %d | -", hourNs1415))
	c.Case(false, fmt.Sprintf("ad f %d | -", hourNs1415))
	// seeded random: longer series, other periods, pre-1970 instants, equal instants, arbitrary values
	durs := []int64{hourNs1415, 900 * 1e9, 60 * 1e9, 86400 * 1e9, 7 * 1e9}
	n := c.Pick(4000, 250000)
	for i := 0; i < n; i++ {
		d := durs[c.Rng.Intn(len(durs))]
		ty := []string{"i", "f"}[c.Rng.Intn(2)]
		ln := 1 + c.Rng.Small(25)
		t := int64(c.Rng.Range(-30, 30)) * d
		if c.Rng.Intn(3) > 0 {
			t += int64(c.Rng.Intn(int(d/1e9))) * 1e9
		}
		var rs []string
		for j := 0; j < ln; j++ {
			if j > 0 {
				switch c.Rng.Intn(8) {
				case 0:
					if c.Rng.Intn(4) > 0 {
						t++ // 1 ns later; otherwise the same instant again (outside the strict domain)
					}
				case 1:
					t += d - fmod1415(t, d) // exactly the next boundary
				case 2:
					t += d * int64(c.Rng.Range(1, 3))
				case 3:
					t += d - fmod1415(t, d) - 1 // last nanosecond of the period
				default:
					t += (int64(c.Rng.Intn(int(d/1e9/3))) + 1) * 1e9
				}
			}
			rs = append(rs, fmt.Sprintf("%d%s:%s", t, locSuffix1415(c.Rng, 3), rndVal1415(c.Rng, ty)))
		}
		c.Case(ln >= 2, fmt.Sprintf("ad %s %d | %s", ty, d, strings.Join(rs, ",")))
	}
}

// seqs1415 enumerates all sequences of length 0..maxLen over k letters.
func seqs1415(k, maxLen int, f func([]int)) {
	var rec func(cur []int)
	rec = func(cur []int) {
		f(cur)
		if len(cur) >= maxLen {
			return
		}
		for i := 0; i < k; i++ {
			rec(append(cur, i))
		}
	}
	rec(nil)
}

func genDs1415(c *Ctx) {
	// exhaustive: every series of 0..4 points whose time steps are in {0 (same instant), +1ns, +90s} with values over
	// 3 letters; the first step pattern also goes backwards once
	steps := []int64{0, 1, 90 * 1e9, -5}
	maxLen := c.Pick(4, 5)
	seqs1415(3, maxLen, func(vs []int) {
		n := len(vs)
		nsteps := 1
		for i := 1; i < n; i++ {
			nsteps *= len(steps)
		}
		for sc := 0; sc < nsteps; sc++ {
			for _, ty := range []string{"i", "f"} {
				x := sc
				t := int64(-100)
				var rs []string
				for i, v := range vs {
					if i > 0 {
						t += steps[x%len(steps)]
						x /= len(steps)
					}
					loc := ""
					if (sc+i)%4 == 1 {
						loc = fmt.Sprintf("@%d", (sc+i)%len(locs1415))
					}
					rs = append(rs, fmt.Sprintf("%d%s:%s", t, loc, gridVal1415(ty, []int{0, 2, 4}[v])))
				}
				txt := "-"
				if n > 0 {
					txt = strings.Join(rs, ",")
				}
				c.Case(n >= 2, fmt.Sprintf("ds %s | %s", ty, txt))
			}
		}
	})
	n := c.Pick(2000, 120000)
	for i := 0; i < n; i++ {
		ty := []string{"i", "f"}[c.Rng.Intn(2)]
		ln := c.Rng.Small(30)
		t := int64(c.Rng.Range(-1000, 1000)) * 1e9
		var rs []string
		for j := 0; j < ln; j++ {
			if j > 0 {
				switch c.Rng.Intn(12) {
				case 0:
					// same instant
				case 1:
					t -= int64(c.Rng.Intn(1000))
				default:
					t += int64(c.Rng.Intn(100000)) * 1e6
					t++
				}
			}
			rs = append(rs, fmt.Sprintf("%d%s:%s", t, locSuffix1415(c.Rng, 3), rndVal1415(c.Rng, ty)))
		}
		txt := "-"
		if ln > 0 {
			txt = strings.Join(rs, ",")
		}
		c.Case(ln >= 2, fmt.Sprintf("ds %s | %s", ty, txt))
	}
}

// counter options: (nonNegative, maxCounterValue)
var nnOpts1415 = []struct {
	nn string
	mx float64
}{{"0", 0}, {"1", 0}, {"1", 10}, {"1", 10.5}, {"0", 10}, {"1", -1}}

func genDf1415(c *Ctx) {
	// exhaustive: every series of 0..4 (thorough 5) readings over {-2, 0, 3(.5), 7(.25), 10} x counter options x types
	maxLen := c.Pick(4, 5)
	seqs1415(5, maxLen, func(vs []int) {
		n := len(vs)
		for oi, o := range nnOpts1415 {
			for _, ty := range []string{"i", "f"} {
				var rs []string
				for i, v := range vs {
					loc := ""
					if (i+oi)%3 == 0 {
						loc = fmt.Sprintf("@%d", (i+oi)%len(locs1415))
					}
					rs = append(rs, fmt.Sprintf("%d%s:%s", int64(i)*hourNs1415, loc, gridVal1415(ty, v)))
				}
				txt := "-"
				if n > 0 {
					txt = strings.Join(rs, ",")
				}
				c.Case(n >= 2, fmt.Sprintf("df %s + %s %s | %s", ty, o.nn, fbits1415(o.mx), txt))
			}
		}
	})
	// counters that wrap at a very large maximum (2^53, 2^63, 2^64): the wrap delta is (max - prev) + curr - adding the
	// reading to the maximum first loses it to rounding
	for _, mx := range []float64{1 << 53, 1 << 63, 18446744073709551616.0} {
		prevI := int64(mx) - 2
		if mx >= 1<<63 {
			prevI = math.MaxInt64 - 1023
		}
		if mx <= 1<<63 { // an integer counter cannot wrap at 2^64: the delta would not fit the column type
			c.Case(true, fmt.Sprintf("df i + 1 %s | 0:%d,%d:1,%d:100", fbits1415(mx), prevI, hourNs1415, 2*hourNs1415))
			c.Case(true, fmt.Sprintf("rt i + 3600 1 %s | 0:%d,%d:1,%d:100", fbits1415(mx), prevI, hourNs1415, 2*hourNs1415))
		}
		prevF := mx - 4096
		if mx == 1<<53 {
			prevF = mx - 2
		}
		c.Case(true, fmt.Sprintf("df f + 1 %s | 0:%s,%d:%s,%d:%s", fbits1415(mx), fbits1415(prevF), hourNs1415, fbits1415(1000), 2*hourNs1415, fbits1415(1500.5)))
		c.Case(true, fmt.Sprintf("rt f + 3600 1 %s | 0:%s,%d:%s,%d:%s", fbits1415(mx), fbits1415(prevF), hourNs1415, fbits1415(1000), 2*hourNs1415, fbits1415(1500.5)))
	}
	// large counters: integer deltas must stay exact above 2^53 (no detour through float64)
	for _, base := range []int64{1 << 53, 1 << 60, (1 << 62) + 12345, 9007199254740993} {
		for _, incs := range [][]int64{{1, 2, 1, 5}, {1, 98, 1, 256}, {3, 3, 3}, {255, 257, 1}} {
			for _, o := range nnOpts1415 {
				cur := base
				rs := []string{fmt.Sprintf("0:%s", fmtI1415(cur))}
				for i, d := range incs {
					cur += d
					rs = append(rs, fmt.Sprintf("%d:%s", int64(i+1)*hourNs1415, fmtI1415(cur)))
				}
				c.Case(true, fmt.Sprintf("df i + %s %s | %s", o.nn, fbits1415(o.mx), strings.Join(rs, ",")))
			}
		}
	}
	// near-equal decimal readings: a decrease of one ulp .. 1e-6 is a decrease (reset / wrap / dropped), an increase of
	// that size is an increase: no tolerance anywhere
	for _, base := range []float64{0.3, 150, 999.5, 0, -1.5} {
		for _, tiny := range []float64{0, 1e-12, 1e-10, 1e-9, 2e-9, 1e-6} {
			for _, o := range nnOpts1415 {
				for dir := -1; dir <= 1; dir += 2 {
					near := base + float64(dir)*tiny
					if tiny == 0 {
						near = math.Nextafter(base, base+float64(dir))
					}
					vals := []float64{base - 1, base, near, base + 2, near}
					var rs []string
					for i, v := range vals {
						rs = append(rs, fmt.Sprintf("%d:%s", int64(i)*hourNs1415, fbits1415(v)))
					}
					c.Case(true, fmt.Sprintf("df f + %s %s | %s", o.nn, fbits1415(o.mx), strings.Join(rs, ",")))
					c.Case(true, fmt.Sprintf("rt f + 60 %s %s | %s", o.nn, fbits1415(o.mx), strings.Join(rs, ",")))
				}
			}
		}
	}
	// rejections
	for _, e := range []string{"df s + 0 0000000000000000 | 0:1,60000000000:2", "df i ? 0 0000000000000000 | 0:1,60000000000:2",
		"df f ? 1 4024000000000000 | 0:3ff0000000000000", "df b + 1 0000000000000000 | -", "df t ? 0 0000000000000000 | 0:1"} {
		c.Case(true, e)
	}
	n := c.Pick(2500, 150000)
	for i := 0; i < n; i++ {
		ty := []string{"i", "f"}[c.Rng.Intn(2)]
		ln := c.Rng.Small(25)
		mx := float64(0)
		switch c.Rng.Intn(4) {
		case 0:
			mx = float64(c.Rng.Range(1, 4000)) / 4
		case 1:
			mx = 1000
		}
		nn := strconv.Itoa(c.Rng.Intn(4)/3 ^ 1)
		t := int64(c.Rng.Range(-100, 100)) * 1e9
		var rs []string
		cur := int64(c.Rng.Range(0, 500))
		for j := 0; j < ln; j++ {
			t += int64(c.Rng.Intn(5000))*1e6 + 1
			// counter that mostly grows, sometimes resets, sometimes goes negative
			switch c.Rng.Intn(8) {
			case 0:
				cur = int64(c.Rng.Range(0, 20))
			case 1:
				cur = -int64(c.Rng.Range(1, 50))
			default:
				if cur < 0 {
					cur = 0
				}
				cur += int64(c.Rng.Range(0, 200))
			}
			v := fmtI1415(cur)
			if ty == "f" {
				f := float64(cur) + float64(c.Rng.Intn(8))/8
				if c.Rng.Intn(6) == 0 {
					// a hair below / above a plain reading
					f += []float64{-1e-12, -1e-10, -1e-9, 1e-10, -3e-8}[c.Rng.Intn(5)]
				}
				v = fbits1415(f)
				if c.Rng.Intn(10) == 0 {
					v = rndVal1415(c.Rng, "f")
				}
			}
			rs = append(rs, fmt.Sprintf("%d%s:%s", t, locSuffix1415(c.Rng, 4), v))
		}
		txt := "-"
		if ln > 0 {
			txt = strings.Join(rs, ",")
		}
		c.Case(ln >= 2, fmt.Sprintf("df %s + %s %s | %s", ty, nn, fbits1415(mx), txt))
	}
}

func genRt1415(c *Ctx) {
	// exhaustive: every series of 0..3 (thorough 4) readings over 5 values x time steps {1s, 90s, 1.5s, 0} x
	// perSeconds {1, 60, 0, 3600} x counter options x types
	maxLen := c.Pick(3, 4)
	steps := []int64{1e9, 90 * 1e9, 1500000000, 0}
	pss := []int{1, 60, 0, 3600}
	seqs1415(5, maxLen, func(vs []int) {
		n := len(vs)
		for si := 0; si < len(steps); si++ {
			for oi, o := range nnOpts1415[:4] {
				for _, ty := range []string{"i", "f"} {
					t := int64(1000) * 1e9
					var rs []string
					for i, v := range vs {
						if i > 0 {
							t += steps[(si+i)%len(steps)]
						}
						loc := ""
						if (i+oi+si)%3 == 0 {
							loc = fmt.Sprintf("@%d", (i+oi+si)%len(locs1415))
						}
						rs = append(rs, fmt.Sprintf("%d%s:%s", t, loc, gridVal1415(ty, v)))
					}
					txt := "-"
					if n > 0 {
						txt = strings.Join(rs, ",")
					}
					c.Case(n >= 2, fmt.Sprintf("rt %s + %d %s %s | %s", ty, pss[(si+oi+n)%len(pss)], o.nn, fbits1415(o.mx), txt))
				}
			}
		}
	})
	for _, e := range []string{"rt s + 1 0 0000000000000000 | 0:1,60000000000:2", "rt i ? 60 0 0000000000000000 | 0:1,60000000000:2",
		"rt f ? 1 1 4024000000000000 | 0:3ff0000000000000", "rt i + -5 0 0000000000000000 | 0:1,2000000000:7"} {
		c.Case(true, e)
	}
	n := c.Pick(2500, 150000)
	for i := 0; i < n; i++ {
		ty := []string{"i", "f"}[c.Rng.Intn(2)]
		ln := c.Rng.Small(20)
		mx := float64(0)
		if c.Rng.Intn(3) == 0 {
			mx = float64(c.Rng.Range(1, 4000)) / 4
		}
		nn := strconv.Itoa(c.Rng.Intn(2))
		ps := []int{1, 60, 3600, 86400, 0, -1, 7}[c.Rng.Intn(7)]
		t := int64(c.Rng.Range(-100, 100)) * 1e9
		cur := int64(c.Rng.Range(0, 500))
		var rs []string
		for j := 0; j < ln; j++ {
			switch c.Rng.Intn(10) {
			case 0:
				if c.Rng.Intn(3) == 0 {
					break // same instant: zero time difference
				}
				t++
			case 1:
				t += int64(c.Rng.Range(1, 100)) * 1e9
			default:
				t += int64(c.Rng.Intn(100000))*1e6 + 1
			}
			switch c.Rng.Intn(8) {
			case 0:
				cur = int64(c.Rng.Range(0, 20))
			case 1:
				cur = -int64(c.Rng.Range(1, 50))
			default:
				if cur < 0 {
					cur = 0
				}
				cur += int64(c.Rng.Range(0, 200))
			}
			v := fmtI1415(cur)
			if ty == "f" {
				v = fbits1415(float64(cur) + float64(c.Rng.Intn(8))/8)
			}
			rs = append(rs, fmt.Sprintf("%d%s:%s", t, locSuffix1415(c.Rng, 4), v))
		}
		txt := "-"
		if ln > 0 {
			txt = strings.Join(rs, ",")
		}
		c.Case(ln >= 2, fmt.Sprintf("rt %s + %d %s %s | %s", ty, ps, nn, fbits1415(mx), txt))
	}
}
