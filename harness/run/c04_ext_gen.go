package run

import (
	"fmt"
	"strings"
)

// Generator of the "L ..." cases of C04 (see c04_ext.go for the grammar).
// Exhaustive small scope first, then seeded random larger cases (from c.Rng only).
//
// Non-trivial (T): a lazy case with at least one combinator, or any reader on a non-value leaf;
// a terminal / collector / sample / iterator / source case over a non-empty input or a failing stream.

var lxLeavesAll = []string{
	"just 1", "just 2", "empty", "error e1", "error eof", "joet nil 3", "joet 4 3", "jwe 1 e2", "jwe 1 nil",
	"jopt nil", "jopt 5", "jowe 5 e2", "jowe nil nil", "jowe 5 nil", "new v6", "new e3", "newc", "nopt nil", "nopt v1",
	"nopt e1", "noet nil 2", "noet e1 2", "noet v3 2",
}

var lxLeavesCore = []string{"just 1", "just 2", "empty", "error e1", "joet nil 3", "newc"}

var lxUnary = []string{
	"oet:7",
	"filter:tt", "filter:ff", "filter:even", "filter:pos", "filterE:even", "filterE:fail", "filterE:failodd", "filterC:ctx", "filterC:even",
	"map:id", "map:add1", "map:mul2", "map:neg", "mapE:add1", "mapE:fail", "mapE:failodd", "mapC:ctx",
	"mwf:keep", "mwf:drop", "mwf:evenonly", "mwf:add1", "mwfE:fail", "mwfE:failodd", "mwfE:keep", "mwfC:ctx",
	"flatmap:fjust", "flatmap:fempty", "flatmap:ferr", "flatmap:femptyT", "flatmap:fevenT",
}

var lxReaders = []string{
	"get", "getopt", "mustgetopt", "mustget", "orelse:9", "mustorelse:9", "orelseget:9", "mustorelseget:9",
	"isempty", "mustisempty", "consume", "mustconsume", "consumeE:cfailodd", "consumeE:cfail", "consumeC:cctx",
	"consumeC:cok", "fromlazy", "fromlazycount",
}

func lxCtxSensitive(reader, expr string) bool {
	return strings.Contains(expr, "newc") || strings.Contains(expr, "C:ctx") ||
		strings.HasPrefix(reader, "fromlazy") || reader == "consumeC:cctx"
}

func lxEmitLazy(c *Ctx, reader, expr string) {
	nontrivial := strings.ContainsAny(expr, ":") || strings.HasPrefix(expr, "or ") || !strings.HasPrefix(expr, "just")
	c.Case(nontrivial, fmt.Sprintf("L lazy c0 %s %s", reader, expr))
	if lxCtxSensitive(reader, expr) {
		c.Case(nontrivial, fmt.Sprintf("L lazy c1 %s %s", reader, expr))
	}
}

// all integer lists of length <= maxLen over {0..alpha-1}
func lxLists(maxLen, alpha int) []string {
	out := []string{"-"}
	var rec func(prefix []string, n int)
	rec = func(prefix []string, n int) {
		if n == 0 {
			out = append(out, strings.Join(prefix, ","))
			return
		}
		for v := 0; v < alpha; v++ {
			rec(append(append([]string{}, prefix...), fmt.Sprint(v)), n-1)
		}
	}
	for n := 1; n <= maxLen; n++ {
		rec(nil, n)
	}
	return out
}

func lxRandList(r *Rng, maxLen, lo, hi int) string {
	n := r.Small(maxLen)
	if n == 0 {
		return "-"
	}
	ss := make([]string, n)
	for i := range ss {
		ss[i] = fmt.Sprint(r.Range(lo, hi))
	}
	return strings.Join(ss, ",")
}

func lxRandExpr(r *Rng, depth int) string {
	if depth <= 0 || r.Intn(5) == 0 {
		return lxLeavesAll[r.Intn(len(lxLeavesAll))]
	}
	if r.Intn(6) == 0 {
		return "or " + lxRandExpr(r, depth-1) + " " + lxRandExpr(r, depth-1)
	}
	return lxUnary[r.Intn(len(lxUnary))] + " " + lxRandExpr(r, depth-1)
}

var lxTerminals = []string{
	"collect", "mustcollect", "count", "mustcount", "findfirst", "findlast", "firstlast", "isempty",
	"min", "max", "mustmin", "mustmax", "minlazy", "maxlazy",
	"reduce:sum:0", "reduce:digits:1", "reduce:last:7", "reduceE:rfail2:0", "reduceE:sum:5", "mustreduce:digits:0",
	"reducelazy:sum:0", "reducelazy:digits:0",
}

var lxCollectors = []string{
	"tomap:mod2", "tomap:mod3", "tomap:self", "toset", "musttoset", "countby:mod2", "countby:self", "countby:const",
	"override:mod2", "override:mod3", "override:self",
}

var lxSrcKinds = []string{
	"slice", "just", "iter", "chan", "iter2", "mapkeys", "mapvalues", "mapentries", "peek", "untyped",
	"mwf:keep", "mwf:drop", "mwf:evenonly", "mwf:add1", "mwfE:failodd", "mwfE:fail",
	"flatmap:pair", "flatmap:none", "flatmap:rep", "flatmap:errodd",
	"page:0:2", "page:1:2", "page:2:1", "page:-1:2", "page:0:0", "page:1:3", "page:0:-1",
}

// kinds whose real stream is built from the plain slice only (no failing provider underneath)
func lxPlainOnly(kind string) bool {
	switch kind {
	case "slice", "just", "iter", "chan", "iter2", "mapkeys", "mapvalues", "mapentries":
		return true
	}
	return false
}

// GenC04Ext generates the second part of the C04 family.
func GenC04Ext(c *Ctx) {
	// ---------------- lazy: all trees of depth <= 1 x all readers, depth 2 x {get, getopt} (thorough: all readers)
	for _, leaf := range lxLeavesAll {
		for _, rd := range lxReaders {
			lxEmitLazy(c, rd, leaf)
		}
	}
	var depth1 []string // over the core leaves, reused as sub-trees
	for _, u := range lxUnary {
		for _, leaf := range lxLeavesAll {
			e := u + " " + leaf
			for _, rd := range lxReaders {
				lxEmitLazy(c, rd, e)
			}
		}
		for _, leaf := range lxLeavesCore {
			depth1 = append(depth1, u+" "+leaf)
		}
	}
	var ors []string
	for _, a := range lxLeavesAll {
		for _, b := range lxLeavesCore {
			for _, e := range []string{"or " + a + " " + b, "or " + b + " " + a} {
				for _, rd := range lxReaders {
					lxEmitLazy(c, rd, e)
				}
			}
		}
	}
	for _, a := range lxLeavesCore {
		for _, b := range lxLeavesCore {
			ors = append(ors, "or "+a+" "+b)
		}
	}
	depth2Readers := []string{"get", "getopt"}
	if c.Thorough {
		depth2Readers = lxReaders
	}
	sub := append(append([]string{}, depth1...), ors...)
	for _, u := range lxUnary {
		for _, x := range sub {
			for _, rd := range depth2Readers {
				lxEmitLazy(c, rd, u+" "+x)
			}
		}
	}
	for _, x := range sub {
		for _, leaf := range lxLeavesCore {
			for _, rd := range depth2Readers {
				lxEmitLazy(c, rd, "or "+x+" "+leaf)
				lxEmitLazy(c, rd, "or "+leaf+" "+x)
			}
		}
	}
	if c.Thorough {
		// depth 3: every unary over every depth-2 tree (unary spine) and or-combinations, read by get
		for _, u := range lxUnary {
			for _, u2 := range lxUnary {
				for _, x := range sub {
					lxEmitLazy(c, "get", u+" "+u2+" "+x)
				}
			}
		}
		for _, x := range sub {
			for _, y := range sub {
				lxEmitLazy(c, "get", "or "+x+" "+y)
			}
		}
	}
	for i, n := 0, c.Pick(3000, 60000); i < n; i++ {
		lxEmitLazy(c, lxReaders[c.Rng.Intn(len(lxReaders))], lxRandExpr(c.Rng, c.Rng.Range(2, 5)))
	}

	// ---------------- terminals and collectors: all inputs of length <= 4 over {0,1,2}, failing variants
	lists := lxLists(4, 3)
	var srcs []string
	for _, l := range lists {
		srcs = append(srcs, l)
		if len(l) <= 5 { // length <= 3
			srcs = append(srcs, l+"!e3")
		}
	}
	for _, s := range srcs {
		nt := s != "-"
		for _, t := range lxTerminals {
			c.Case(nt, fmt.Sprintf("L term c0 %s %s", t, s))
			if len(s) <= 3 || strings.HasSuffix(s, "!e3") && len(s) <= 6 {
				c.Case(nt, fmt.Sprintf("L term c1 %s %s", t, s))
			}
		}
		for _, t := range lxCollectors {
			c.Case(nt, fmt.Sprintf("L coll c0 %s %s", t, s))
			if len(s) <= 3 {
				c.Case(nt, fmt.Sprintf("L coll c1 %s %s", t, s))
			}
		}
	}
	for i, n := 0, c.Pick(1500, 40000); i < n; i++ {
		s := lxRandList(c.Rng, 12, -9, 9)
		if c.Rng.Intn(6) == 0 {
			s += []string{"!e3", "!e4", "!cx"}[c.Rng.Intn(3)]
		}
		ctx := "c0"
		if c.Rng.Intn(12) == 0 {
			ctx = "c1"
		}
		if c.Rng.Bool() {
			c.Case(s != "-", fmt.Sprintf("L term %s %s %s", ctx, lxTerminals[c.Rng.Intn(len(lxTerminals))], s))
		} else {
			c.Case(s != "-", fmt.Sprintf("L coll %s %s %s", ctx, lxCollectors[c.Rng.Intn(len(lxCollectors))], s))
		}
	}

	// ---------------- random sampling
	seed := 0
	for _, s := range srcs {
		if len(strings.Split(strings.TrimSuffix(s, "!e3"), ",")) > 3 {
			continue
		}
		for _, k := range []int{-1, 0, 1, 2, 3, 5} {
			for _, form := range []string{"collect", "stream"} {
				seed++
				c.Case(s != "-", fmt.Sprintf("L sample c0 %s k=%d seed=%d %s", form, k, seed, s))
				if len(s) <= 3 {
					c.Case(s != "-", fmt.Sprintf("L sample c1 %s k=%d seed=%d %s", form, k, seed, s))
				}
			}
		}
	}
	// distinct elements, n > k: replacements happen; several seeds per shape
	for n := 2; n <= c.Pick(12, 40); n++ {
		ss := make([]string, n)
		for i := range ss {
			ss[i] = fmt.Sprint(10 + i)
		}
		s := strings.Join(ss, ",")
		for _, k := range []int{1, 2, 3, n - 1, n, n + 1} {
			for rep := 0; rep < c.Pick(4, 12); rep++ {
				seed++
				form := []string{"collect", "stream"}[rep%2]
				c.Case(true, fmt.Sprintf("L sample c0 %s k=%d seed=%d %s", form, k, seed, s))
			}
		}
	}
	// inclusion frequencies: every element of 0..n-1 is in a k-sample with probability min(k,n)/n
	for n := 1; n <= c.Pick(6, 10); n++ {
		for k := 1; k <= n+1; k++ {
			for fi, form := range []string{"collect", "stream"} {
				c.Case(k < n, fmt.Sprintf("L samplecov %s k=%d n=%d draws=%d seed=%d", form, k, n, c.Pick(4000, 12000), 7000+100*n+10*k+fi))
			}
		}
	}
	for i, n := 0, c.Pick(500, 20000); i < n; i++ {
		s := lxRandList(c.Rng, 30, -5, 5)
		if c.Rng.Intn(10) == 0 {
			s += "!e3"
		}
		c.Case(s != "-", fmt.Sprintf("L sample c0 %s k=%d seed=%d %s", []string{"collect", "stream"}[c.Rng.Intn(2)],
			c.Rng.Range(-1, 8), c.Rng.Intn(1<<30), s))
	}

	// ---------------- Iterator / IndexedIterator
	for _, s := range srcs {
		for _, idx := range []string{"idx=0", "idx=1"} {
			for _, b := range []string{"-", "0", "1", "2", "3", "4"} {
				c.Case(s != "-", fmt.Sprintf("L iter %s break=%s %s", idx, b, s))
			}
		}
	}
	for i, n := 0, c.Pick(300, 10000); i < n; i++ {
		s := lxRandList(c.Rng, 12, -9, 9)
		if c.Rng.Intn(4) == 0 {
			s += "!e3"
		}
		b := "-"
		if c.Rng.Intn(4) != 0 {
			b = fmt.Sprint(c.Rng.Intn(13))
		}
		c.Case(s != "-", fmt.Sprintf("L iter idx=%d break=%s %s", c.Rng.Intn(2), b, s))
	}

	// ---------------- sources and thin operators
	for _, lim := range []string{"-", "0", "1", "2"} {
		for _, ctx := range []string{"c0", "c1"} {
			for _, k := range []string{"empty", "error:e1", "error:eof", "error:cx"} {
				c.Case(true, fmt.Sprintf("L src %s lim=%s %s -", ctx, lim, k))
			}
		}
	}
	for _, kind := range lxSrcKinds {
		for _, s := range srcs {
			failing := strings.Contains(s, "!")
			if failing && lxPlainOnly(kind) {
				continue
			}
			short := len(strings.Split(strings.TrimSuffix(s, "!e3"), ",")) <= 3
			for _, lim := range []string{"-", "1", "0", "2"} {
				if (lim == "0" || lim == "2") && !short {
					continue
				}
				c.Case(s != "-", fmt.Sprintf("L src c0 lim=%s %s %s", lim, kind, s))
			}
			// cancelled context: every element-producing path answers ctx.Err(); FlatMap over a provider that
			// ignores the context opens its first inner stream before any context check (not modelled)
			if len(s) <= 3 && !(failing && strings.HasPrefix(kind, "flatmap")) {
				c.Case(s != "-", fmt.Sprintf("L src c1 lim=- %s %s", kind, s))
			}
		}
	}
	for i, n := 0, c.Pick(1500, 40000); i < n; i++ {
		kind := lxSrcKinds[c.Rng.Intn(len(lxSrcKinds))]
		if strings.HasPrefix(kind, "page") && c.Rng.Bool() {
			kind = fmt.Sprintf("page:%d:%d", c.Rng.Range(-1, 5), c.Rng.Range(-1, 5))
		}
		s := lxRandList(c.Rng, 12, -9, 9)
		if !lxPlainOnly(kind) && c.Rng.Intn(5) == 0 {
			s += "!e3"
		}
		lim := "-"
		if c.Rng.Intn(3) == 0 {
			lim = fmt.Sprint(c.Rng.Intn(14))
		}
		c.Case(s != "-", fmt.Sprintf("L src c0 lim=%s %s %s", lim, kind, s))
	}
}
