package run

// Sequential pipeline family (C01, C03, C04, C05, C18): the real /repo/stream operators around probes.
//
// case := <pipe> || <run> || <run> ...
// pipe := src R INTS | lc R pipe | map FN pipe | filter PRED pipe | limit N pipe | skip N pipe
//       | concat K pipe*K | zip K pipe*K | merge K pipe*K | window SIZE STEP OMIT01 pipe | cluster K FAC pipe
// FN := id | add:K | mul:K | sum | len        PRED := tt | ff | mod:K:R | lt:K
// FAC := first | sum | firstk:J | none | firstprev
// run := <collect|user> <all|take:N> <nofault | err@P | perr@P | pval@P | cancel@P>
// obs := per run " || "-joined:  <ok|err:CLASS> <delivered> | calls=N pre=N | R:EVENTS;R:EVENTS...
//   EVENTS: O open ok, o open failed, E emit, C close.   delivered: "-" or comma list, arrays as [a;b]

import (
	"cmp"
	"context"
	"errors"
	"fmt"
	"io"
	"os"
	"runtime"
	"slices"
	"sort"
	"strconv"
	"strings"
	"sync"
	"time"

	"github.com/shpandrak/shpanstream"
	"github.com/shpandrak/shpanstream/integrations/file"
	"github.com/shpandrak/shpanstream/stream"
	"github.com/shpandrak/shpanstream/utils/jsonstream"
	"github.com/shpandrak/shpanstream/utils/timeseries"
	"github.com/shpandrak/shpanstream/utils/timeseries/tsquery"
	"github.com/shpandrak/shpanstream/utils/timeseries/tsquery/datasource"
)

type pv struct {
	IsArr bool
	I     int64
	A     []int64
}

func (v pv) flat() []int64 {
	if v.IsArr {
		return v.A
	}
	return []int64{v.I}
}

func (v pv) key() int64 {
	if v.IsArr {
		if len(v.A) > 0 {
			return v.A[0]
		}
		return 0
	}
	return v.I
}

func (v pv) String() string {
	if !v.IsArr {
		return strconv.FormatInt(v.I, 10)
	}
	parts := make([]string, len(v.A))
	for i, x := range v.A {
		parts[i] = strconv.FormatInt(x, 10)
	}
	return "[" + strings.Join(parts, ";") + "]"
}

func fmtPvs(l []pv) string {
	if len(l) == 0 {
		return "-"
	}
	parts := make([]string, len(l))
	for i, v := range l {
		parts[i] = v.String()
	}
	return strings.Join(parts, ",")
}

var errInjected = errors.New("injected-fault")

// probeLocker is the sync.Locker handed to WithLockWhileMaterializing: a mutex that lives as long as the case (all
// materialisations of the stream value share it).  Lock gives up after a while instead of blocking for ever, so that a
// lock leaked by an earlier materialisation shows as the observation `hang:lock` of the run that could not get it.
type probeLocker struct {
	w    *pworld
	mu   sync.Mutex
	held bool
}

func (l *probeLocker) Lock() {
	deadline := time.Now().Add(1500 * time.Millisecond)
	for !l.mu.TryLock() {
		if time.Now().After(deadline) {
			l.w.mu.Lock()
			l.w.lockStuck = true
			l.w.mu.Unlock()
			return
		}
		time.Sleep(200 * time.Microsecond)
	}
	l.held = true
}

func (l *probeLocker) Unlock() {
	if l.held {
		l.held = false
		l.mu.Unlock()
	}
}

type pworld struct {
	lockStuck bool
	lockers   map[int]*probeLocker
	mu        sync.Mutex
	calls     int
	faultPos  int
	faultKind string
	cancel    context.CancelFunc
	events    map[int][]byte
	ids       []int
	nEvents   int
	runIdx    int // index of the materialisation being run (`srcv` sources read their contents for it at Open)
}

func (w *pworld) ev(r int, c byte) {
	w.mu.Lock()
	defer w.mu.Unlock()
	if _, ok := w.events[r]; !ok {
		w.ids = append(w.ids, r)
	}
	w.events[r] = append(w.events[r], c)
	w.nEvents++
}

// call takes the next call position; returns an error to return, or panics, per the fault plan.
func (w *pworld) call() error {
	w.mu.Lock()
	pos := w.calls
	w.calls++
	hit := w.faultKind != "" && pos == w.faultPos
	w.mu.Unlock()
	if hit {
		switch w.faultKind {
		case "err":
			return errInjected
		case "eoferr":
			return errEOF // a user callback / Open returning io.EOF itself
		case "errctx":
			// an upstream failure whose chain also holds context.Canceled (a stage reporting its own cancelled sub-context)
			// while the materialisation's context is alive: a failure like any other
			return errInjectedCtx
		case "perr":
			panic(errInjected)
		case "peof":
			panic(errEOF) // a panic whose value is io.EOF itself: recovered, it must not be taken for the end of the stream
		case "pval":
			panic("injected-panic-value")
		case "cancel":
			if w.cancel != nil {
				w.cancel()
			}
		}
	}
	return nil
}

type probeSrc struct {
	w   *pworld
	r   int
	xs  []int64
	idx int
	// `srcv`: the contents during the i-th materialisation of the case (the last entry repeats); read at Open
	variants [][]int64
}

func (p *probeSrc) Open(ctx context.Context) error {
	defer func() {
		if rv := recover(); rv != nil {
			p.w.ev(p.r, 'o')
			panic(rv)
		}
	}()
	if err := p.w.call(); err != nil {
		p.w.ev(p.r, 'o')
		return err
	}
	p.idx = 0
	if p.variants != nil {
		i := p.w.runIdx
		if i >= len(p.variants) {
			i = len(p.variants) - 1
		}
		p.xs = p.variants[i]
	}
	p.w.ev(p.r, 'O')
	return nil
}

func (p *probeSrc) Close() {
	p.idx = 0
	p.w.ev(p.r, 'C')
}

func (p *probeSrc) Emit(ctx context.Context) (pv, error) {
	p.w.ev(p.r, 'E')
	if err := p.w.call(); err != nil {
		if err == errEOF {
			// for a provider io.EOF IS the end of stream: inject an ordinary error at Emit positions
			err = errInjected
		}
		return pv{}, err
	}
	if p.idx >= len(p.xs) {
		return pv{}, errEOF
	}
	v := p.xs[p.idx]
	p.idx++
	return pv{I: v}, nil
}

type probeLc struct {
	w *pworld
	r int
}

func (p *probeLc) Open(ctx context.Context) error {
	defer func() {
		if rv := recover(); rv != nil {
			p.w.ev(p.r, 'o')
			panic(rv)
		}
	}()
	if err := p.w.call(); err != nil {
		p.w.ev(p.r, 'o')
		return err
	}
	p.w.ev(p.r, 'O')
	return nil
}

func (p *probeLc) Close() { p.w.ev(p.r, 'C') }

// floorDiv is Lean's Int `/` (T-rounding differs from Go for negatives; keep both sides on floor for k > 0)
func floorDiv(a, k int64) int64 {
	q := a / k
	if (a%k != 0) && ((a < 0) != (k < 0)) {
		q--
	}
	return q
}

func emod(a, k int64) int64 {
	m := a % k
	if m < 0 {
		if k < 0 {
			m -= k
		} else {
			m += k
		}
	}
	return m
}

type pparser struct {
	tmpFiles []string
	toks     []string
	pos      int
	w        *pworld
	err      error
}

func (p *pparser) next() string {
	if p.pos >= len(p.toks) {
		p.err = fmt.Errorf("unexpected end of pipe")
		return ""
	}
	t := p.toks[p.pos]
	p.pos++
	return t
}

func (p *pparser) int() int {
	n, err := strconv.Atoi(p.next())
	if err != nil && p.err == nil {
		p.err = err
	}
	return n
}

func parseInts(s string) ([]int64, error) {
	if s == "-" {
		return nil, nil
	}
	var out []int64
	for _, t := range strings.Split(s, ",") {
		n, err := strconv.ParseInt(t, 10, 64)
		if err != nil {
			return nil, err
		}
		out = append(out, n)
	}
	return out, nil
}

func applyFn(name string, v pv) pv {
	kind, arg, _ := strings.Cut(name, ":")
	k, _ := strconv.ParseInt(arg, 10, 64)
	switch kind {
	case "id":
		return v
	case "add":
		if v.IsArr {
			out := make([]int64, len(v.A))
			for i, x := range v.A {
				out[i] = x + k
			}
			return pv{IsArr: true, A: out}
		}
		return pv{I: v.I + k}
	case "mul":
		if v.IsArr {
			out := make([]int64, len(v.A))
			for i, x := range v.A {
				out[i] = x * k
			}
			return pv{IsArr: true, A: out}
		}
		return pv{I: v.I * k}
	case "sum":
		var s int64
		for _, x := range v.flat() {
			s += x
		}
		return pv{I: s}
	case "len":
		return pv{I: int64(len(v.flat()))}
	}
	panic("bad fn " + name)
}

func applyPred(name string, v pv) bool {
	parts := strings.Split(name, ":")
	switch parts[0] {
	case "tt":
		return true
	case "ff":
		return false
	case "mod":
		k, _ := strconv.ParseInt(parts[1], 10, 64)
		r, _ := strconv.ParseInt(parts[2], 10, 64)
		return emod(v.key(), k) == r
	case "lt":
		k, _ := strconv.ParseInt(parts[1], 10, 64)
		return v.key() < k
	}
	panic("bad pred " + name)
}

// withPrev: what the sum / firstk factories return: [sum] followed by lastItemOnPreviousCluster (if any)
func withPrev(sum int64, last *pv) pv {
	out := []int64{sum}
	if last != nil {
		out = append(out, last.flat()...)
	}
	return pv{IsArr: true, A: out}
}

func flattenRow(row []pv) pv {
	out := []int64{}
	for _, v := range row {
		out = append(out, v.flat()...)
	}
	return pv{IsArr: true, A: out}
}

func (p *pparser) pipe() stream.Stream[pv] {
	w := p.w
	switch t := p.next(); t {
	case "src":
		r := p.int()
		xs, err := parseInts(p.next())
		if err != nil && p.err == nil {
			p.err = err
		}
		return stream.NewStream[pv](&probeSrc{w: w, r: r, xs: xs})
	case "srcv":
		r := p.int()
		var vs [][]int64
		for _, alt := range strings.Split(p.next(), "|") {
			xs, err := parseInts(alt)
			if err != nil && p.err == nil {
				p.err = err
			}
			vs = append(vs, xs)
		}
		return stream.NewStream[pv](&probeSrc{w: w, r: r, xs: vs[0], variants: vs})
	case "lc":
		r := p.int()
		return p.pipe().WithAdditionalLifecycle(&probeLc{w: w, r: r})
	case "lcc":
		// a CLOSE-ONLY lifecycle element (NewLifecycle(nil, close)) with id r, followed by an ordinary probe element r+1000:
		// whenever the companion's Open was attempted, the close-only element had been opened (trivially) and is owed
		// exactly one Close (SPEC cases only)
		r := p.int()
		inner := p.pipe()
		return inner.WithAdditionalLifecycle(stream.NewLifecycle(nil, func() { w.ev(r, 'C') })).
			WithAdditionalLifecycle(&probeLc{w: w, r: r + 1000})
	case "srcc":
		// a source made of a bare provider function plus a CLOSE-ONLY option (NewSimpleStream(f, WithCloseFuncOption)),
		// id r, under an ordinary probe element r+1000
		r := p.int()
		xs, err := parseInts(p.next())
		if err != nil && p.err == nil {
			p.err = err
		}
		i := 0
		return stream.NewSimpleStream(func(ctx context.Context) (pv, error) {
			if ctx.Err() != nil {
				return pv{}, ctx.Err()
			}
			if i >= len(xs) {
				return pv{}, io.EOF
			}
			i++
			return pv{I: xs[i-1]}, nil
		}, stream.WithCloseFuncOption(func() { i = 0; w.ev(r, 'C') })).WithAdditionalLifecycle(&probeLc{w: w, r: r + 1000})
	case "lock":
		// WithLockWhileMaterializing over a case-wide mutex (SPEC / ASYNC cases only: not a resource of the Lean model)
		r := p.int()
		if w.lockers == nil {
			w.lockers = map[int]*probeLocker{}
		}
		if w.lockers[r] == nil {
			w.lockers[r] = &probeLocker{w: w}
		}
		return p.pipe().WithLockWhileMaterializing(w.lockers[r])
	case "map":
		fn := p.next()
		return stream.MapWithErr(p.pipe(), func(v pv) (pv, error) {
			if err := w.call(); err != nil {
				return pv{}, err
			}
			return applyFn(fn, v), nil
		})
	case "filter":
		pr := p.next()
		return p.pipe().FilterWithErr(func(v pv) (bool, error) {
			if err := w.call(); err != nil {
				return false, err
			}
			return applyPred(pr, v), nil
		})
	case "buffered":
		n := p.int()
		return stream.Buffered(p.pipe(), n)
	case "cmap":
		c := p.int()
		fn := p.next()
		return stream.MapWithErr(p.pipe(), func(v pv) (pv, error) {
			if err := w.call(); err != nil {
				return pv{}, err
			}
			return applyFn(fn, v), nil
		}, stream.WithConcurrentMapOption(c))
	case "limit":
		n := p.int()
		return p.pipe().Limit(n)
	case "skip":
		n := p.int()
		return p.pipe().Skip(n)
	case "concat", "zip", "merge":
		k := p.int()
		subs := make([]stream.Stream[pv], k)
		for i := 0; i < k; i++ {
			subs[i] = p.pipe()
		}
		switch t {
		case "concat":
			// the caller re-uses its slice of streams afterwards (ConcatStreams hands it to Just, which copies): the result
			// must still be the concatenation of the streams it was built from
			res := stream.ConcatStreams(subs...)
			for i := range subs {
				subs[i] = stream.Just(pv{I: int64(7777 + i)})
			}
			return res
		case "zip":
			return stream.Map(stream.ZipN(subs...), flattenRow)
		default:
			return stream.MergeSortedStreams(func(a, b pv) int { return cmp.Compare(a.key(), b.key()) }, subs...)
		}
	case "window":
		size, step, omit := p.int(), p.int(), p.int()
		opts := []stream.WindowOption{stream.WithSlidingWindowStepOption(step)}
		if omit == 1 {
			opts = append(opts, stream.WithOmitLastPartialWindowOption())
		}
		return stream.Map(stream.Window(p.pipe(), size, opts...), flattenRow)
	case "cluster":
		k := int64(p.int())
		fac := p.next()
		src := p.pipe()
		return stream.ClusterSortedStream(
			func(ctx context.Context, cls int64, cs stream.Stream[pv], last *pv) (pv, error) {
				if err := w.call(); err != nil {
					return pv{}, err
				}
				kind, arg, _ := strings.Cut(fac, ":")
				switch kind {
				case "first":
					return cs.FindFirst().Get(ctx)
				case "sum":
					s, err := stream.Reduce(ctx, cs, int64(0), func(acc int64, v pv) int64 {
						for _, x := range v.flat() {
							acc += x
						}
						return acc
					})
					return withPrev(s, last), err
				case "firstk":
					j, _ := strconv.Atoi(arg)
					items, err := cs.Limit(j).Collect(ctx)
					if err != nil {
						return pv{}, err
					}
					var s int64
					for _, v := range items {
						for _, x := range v.flat() {
							s += x
						}
					}
					return withPrev(s, last), nil
				case "none":
					return pv{I: cls}, nil
				case "firstprev":
					f, err := cs.FindFirst().Get(ctx)
					if err != nil {
						return pv{}, err
					}
					out := append([]int64{}, f.flat()...)
					if last != nil {
						out = append(out, last.flat()...)
					}
					return pv{IsArr: true, A: out}, nil
				}
				panic("bad factory " + fac)
			},
			func(v pv) int64 { return floorDiv(v.key(), k) },
			cmp.Compare[int64],
			src,
		)
	// ---- operators used only by SPEC cases (decided by the spec predicate on the real code; not in the Lean model) ----
	case "jinner", "jleft", "jfull":
		k := p.int()
		subs := make([]stream.Stream[pv], k)
		for i := 0; i < k; i++ {
			subs[i] = p.pipe()
		}
		cmpKey := func(a, b pv) int { return cmp.Compare(a.key(), b.key()) }
		switch t {
		case "jinner":
			return stream.JoinMultipleSortedStreams(subs, cmpKey, func(vs []pv) pv { return flattenRow(vs) })
		case "jleft":
			return stream.LeftJoinMultipleSortedStreams(subs, cmpKey, func(l pv, others []*pv) pv {
				return flattenRow(append([]pv{l}, derefOr(others)...))
			})
		default:
			return stream.FullJoinMultipleSortedStreams(subs, cmpKey, func(vs []*pv) pv { return flattenRow(derefOr(vs)) })
		}
	case "join2", "ljoin2":
		l, r := p.pipe(), p.pipe()
		keyf := func(v pv) int64 { return v.key() }
		if t == "join2" {
			return stream.Map(stream.JoinSortedStreams(l, r, keyf, keyf, cmp.Compare[int64]),
				func(tp shpanstream.Tuple2[pv, pv]) pv { return flattenRow([]pv{tp.A, tp.B}) })
		}
		return stream.Map(stream.LeftJoinSortedStreams(l, r, keyf, keyf, cmp.Compare[int64]),
			func(tp shpanstream.Tuple2[pv, *pv]) pv {
				return flattenRow(append([]pv{tp.A}, derefOr([]*pv{tp.B})...))
			})
	case "sample":
		n := p.int()
		return p.pipe().RandomSample(n) // collector-backed stream: its Open materialises the source
	case "dirfile", "rdirfile":
		// StreamFromFile over a path that is a DIRECTORY: whatever the provider answers (an Open error, an error on the
		// first read), no descriptor may stay open afterwards (leak=)
		d, derr := os.MkdirTemp("", "shpanverif-dir-*")
		if derr != nil {
			p.err = derr
			return stream.Empty[pv]()
		}
		p.tmpFiles = append(p.tmpFiles, d)
		return stream.MapWithErr(file.StreamFromFile(d, t == "rdirfile"), func(b []byte) (pv, error) {
			return pv{I: int64(len(b))}, nil
		})
	case "file", "rfile":
		// StreamFromFile over a temp file with one number per line (file provider; descriptor leaks show as leak=)
		xs, err := parseInts(p.next())
		if err != nil && p.err == nil {
			p.err = err
		}
		f, ferr := os.CreateTemp("", "shpanverif-*.txt")
		if ferr != nil {
			p.err = ferr
			return stream.Empty[pv]()
		}
		for _, x := range xs {
			fmt.Fprintf(f, "%d\n", x)
		}
		f.Close()
		p.tmpFiles = append(p.tmpFiles, f.Name())
		return stream.MapWithErr(file.StreamFromFile(f.Name(), t == "rfile"), func(b []byte) (pv, error) {
			n, err := strconv.ParseInt(strings.TrimSpace(string(b)), 10, 64)
			return pv{I: n}, err
		})
	case "frommap":
		xs, err := parseInts(p.next())
		if err != nil && p.err == nil {
			p.err = err
		}
		m := map[int64]bool{}
		for _, x := range xs {
			m[x] = true
		}
		return stream.Map(stream.FromMapKeys(m), func(x int64) pv { return pv{I: x} })
	case "frommapent", "frommapval":
		xs, err := parseInts(p.next())
		if err != nil && p.err == nil {
			p.err = err
		}
		if t == "frommapval" {
			m := map[int]int64{}
			for i, x := range xs {
				m[i] = x
			}
			return stream.Map(stream.FromMapValues(m), func(x int64) pv { return pv{I: x} })
		}
		m := map[int64]int{}
		for i, x := range xs {
			m[x] = i
		}
		return stream.Map(stream.FromMapEntries(m), func(e shpanstream.Entry[int64, int]) pv { return pv{I: e.Key} })
	case "fromiter2":
		// FromIterator2 over an ordered Seq2 (index, value)
		xs, err := parseInts(p.next())
		if err != nil && p.err == nil {
			p.err = err
		}
		return stream.Map(stream.FromIterator2(slices.All(xs)), func(e shpanstream.Entry[int, int64]) pv { return pv{I: e.Value} })
	case "flatmap":
		return stream.FlatMap(p.pipe(), func(v pv) stream.Stream[pv] { return stream.Just(v, pv{I: v.key() + 100}) })
	case "peek":
		return p.pipe().Peek(func(pv) {})
	case "fromiterp":
		// FromIterator over a sequence function that holds a resource while it runs: acquired when the iteration starts,
		// released by its deferred cleanup (which runs when the sequence ends or when iter.Pull's stop is called)
		r := p.int()
		xs, err := parseInts(p.next())
		if err != nil && p.err == nil {
			p.err = err
		}
		return stream.Map(stream.FromIterator(func(yield func(int64) bool) {
			w.ev(r, 'O')
			defer w.ev(r, 'C')
			for _, x := range xs {
				if !yield(x) {
					return
				}
			}
		}), func(x int64) pv { return pv{I: x} })
	case "fromiter2p":
		// the same over FromIterator2 (key/value sequence, iter.Pull2)
		r := p.int()
		xs, err := parseInts(p.next())
		if err != nil && p.err == nil {
			p.err = err
		}
		return stream.Map(stream.FromIterator2(func(yield func(int, int64) bool) {
			w.ev(r, 'O')
			defer w.ev(r, 'C')
			for i, x := range xs {
				if !yield(i, x) {
					return
				}
			}
		}), func(e shpanstream.Entry[int, int64]) pv { return pv{I: e.Value} })
	case "jsonbad":
		// JSON array whose 3rd element has the wrong type / that is truncated: Emit fails after a successful Open
		r := p.int()
		doc := "[1,2,\"x\",4]"
		if p.int() == 1 {
			doc = "[1,2,{\"a\":"
		}
		return stream.Map(jsonstream.ReadJsonArray[int64](func(ctx context.Context) (io.ReadCloser, error) {
			if err := w.call(); err != nil {
				w.ev(r, 'o')
				return nil, err
			}
			w.ev(r, 'O')
			return &probeReadCloser{Reader: strings.NewReader(doc), w: w, r: r}, nil
		}), func(x int64) pv { return pv{I: x} })
	case "fromiter":
		xs, err := parseInts(p.next())
		if err != nil && p.err == nil {
			p.err = err
		}
		return stream.Map(stream.FromIterator(slices.Values(xs)), func(x int64) pv { return pv{I: x} })
	case "jsonarr":
		r := p.int()
		xs, err := parseInts(p.next())
		if err != nil && p.err == nil {
			p.err = err
		}
		parts := make([]string, len(xs))
		for i, x := range xs {
			parts[i] = strconv.FormatInt(x, 10)
		}
		doc := "[" + strings.Join(parts, ",") + "]"
		return stream.Map(jsonstream.ReadJsonArray[int64](func(ctx context.Context) (io.ReadCloser, error) {
			if err := w.call(); err != nil {
				w.ev(r, 'o')
				return nil, err
			}
			w.ev(r, 'O')
			return &probeReadCloser{Reader: strings.NewReader(doc), w: w, r: r}, nil
		}), func(x int64) pv { return pv{I: x} })
	case "align", "alignsum", "adelta", "gapfill", "dsalign":
		d := p.int()
		period := timeseries.NewFixedAlignmentPeriod(time.Duration(d)*time.Second, time.UTC)
		recs := stream.Map(p.pipe(), func(v pv) timeseries.TsRecord[int64] {
			return timeseries.TsRecord[int64]{Timestamp: time.Unix(v.key(), 0).UTC(), Value: v.key()}
		})
		back := func(r timeseries.TsRecord[int64]) pv { return pv{IsArr: true, A: []int64{r.Timestamp.Unix(), r.Value}} }
		switch t {
		case "align":
			return stream.Map(timeseries.AlignStream(recs, period), back)
		case "alignsum":
			return stream.Map(timeseries.AlignReduceStream(recs, period, timeseries.Sum[int64]), back)
		case "adelta":
			return stream.Map(timeseries.AlignDeltaStream(recs, period), back)
		case "gapfill":
			return stream.Map(timeseries.NewTsGapFillerStream(timeseries.AlignStream(recs, period), period, timeseries.FillModeForwardFill,
				nil, func(v int64) int64 { return v }), back)
		default:
			meta, _ := tsquery.NewFieldMeta("f", tsquery.DataTypeInteger, true)
			anyRecs := stream.Map(recs, func(r timeseries.TsRecord[int64]) timeseries.TsRecord[any] {
				return timeseries.TsRecord[any]{Timestamp: r.Timestamp, Value: r.Value}
			})
			ds, _ := datasource.NewStaticDatasource(*meta, anyRecs)
			res, err := datasource.NewFilteredDataSource(ds, datasource.NewInterpolatingAlignerFilter(period, timeseries.FillModeLinear)).
				Execute(context.Background(), time.Unix(-1<<40, 0), time.Unix(1<<40, 0))
			if err != nil {
				return stream.Error[pv](err)
			}
			return stream.Map(res.Data(), func(r timeseries.TsRecord[any]) pv {
				v, _ := r.Value.(int64)
				return pv{IsArr: true, A: []int64{r.Timestamp.Unix(), v}}
			})
		}
	default:
		if p.err == nil {
			p.err = fmt.Errorf("bad pipe token %q", t)
		}
		return stream.Empty[pv]()
	}
}

func sortedTokens(s string) string {
	if s == "-" {
		return s
	}
	t := strings.Split(s, ",")
	sort.Strings(t)
	return strings.Join(t, ",")
}

// countFds: open file descriptors of this process (file provider leak detector)
func countFds() int {
	ents, err := os.ReadDir("/proc/self/fd")
	if err != nil {
		return -1
	}
	return len(ents)
}

func fdLeak(before int) int {
	after := countFds()
	if before < 0 || after < 0 || after <= before {
		return 0
	}
	return after - before
}

func derefOr(ps []*pv) []pv {
	out := make([]pv, len(ps))
	for i, q := range ps {
		if q != nil {
			out[i] = *q
		} else {
			out[i] = pv{I: -1}
		}
	}
	return out
}

// probeReadCloser: the io.ReadCloser handed to the JSON providers; its Close is the resource's close event
type probeReadCloser struct {
	io.Reader
	w *pworld
	r int
}

func (p *probeReadCloser) Close() error { p.w.ev(p.r, 'C'); return nil }

var errInjectedCtx = fmt.Errorf("fetch page: %w (%w)", errInjected, context.Canceled)

func classifyErr(err error) string {
	switch {
	case err == nil:
		return "ok"
	case errors.Is(err, errInjected), errors.Is(err, errEOF):
		return "err:user"
	case errors.Is(err, context.Canceled):
		return "err:ctx"
	case strings.Contains(err.Error(), "stream recovered error value"):
		return "err:panicval"
	default:
		return "err:lib"
	}
}

// execPipe runs one case (pipe + runs) on the real library.
func execPipe(caseText string) (obs string) {
	defer func() {
		if rv := recover(); rv != nil {
			obs = fmt.Sprintf("harness-panic %v", rv)
		}
	}()
	if strings.HasPrefix(caseText, "SPEC ") {
		// spec-only cases: the observation carries the delivery of the SAME case without the fault (Go vs Go),
		// so that "delivered before the fault is a prefix of the fault-free delivery" can be evaluated
		body := strings.TrimPrefix(caseText, "SPEC ")
		fds0 := countFds()
		obsF := execPipe(body)
		ff := "-"
		hist := strings.Split(body, " || ")
		if len(hist) > 2 {
			// history of materialisations of ONE stream value (C18): every fault-free materialisation must deliver
			// what a FRESH stream value delivers for the same run (as a multiset: map sources have no order)
			verdict := "ok"
			runsObs := strings.Split(obsF, " || ")
			for i, run := range hist[1:] {
				if !strings.HasSuffix(run, " nofault") || i >= len(runsObs) {
					continue
				}
				fresh := strings.Fields(execPipe(hist[0] + " || " + run))
				got := strings.Fields(runsObs[i])
				same := len(fresh) >= 2 && len(got) >= 2 && fresh[0] == got[0]
				if same {
					if strings.Contains(run, " take:") {
						// an early stop over a map source may deliver ANY n of the elements: compare the count only
						same = len(strings.Split(fresh[1], ",")) == len(strings.Split(got[1], ",")) && (fresh[1] == "-") == (got[1] == "-")
					} else {
						same = sortedTokens(fresh[1]) == sortedTokens(got[1])
					}
				}
				if !same {
					verdict = fmt.Sprintf("DIFF:run%d", i)
					break
				}
			}
			return obsF + " | rematerialise=" + verdict
		}
		if i := strings.LastIndex(body, " "); i >= 0 && !strings.HasSuffix(body, " nofault") {
			twin := body[:i] + " nofault"
			o2 := execPipe(twin)
			if f := strings.Fields(o2); len(f) >= 2 {
				ff = f[1]
			}
		}
		return obsF + " | ff=" + ff + " leak=" + strconv.Itoa(fdLeak(fds0))
	}
	async := strings.HasPrefix(caseText, "ASYNC ")
	caseText = strings.TrimPrefix(caseText, "ASYNC ")
	baseGoroutines := runtime.NumGoroutine()
	parts := strings.Split(caseText, " || ")
	w := &pworld{events: map[int][]byte{}}
	pp := &pparser{toks: strings.Fields(parts[0]), w: w}
	s := pp.pipe()
	defer func() {
		for _, f := range pp.tmpFiles {
			os.RemoveAll(f)
		}
	}()
	if pp.err != nil || pp.pos != len(pp.toks) {
		return "bad-case"
	}
	pre := w.nEvents + w.calls
	var outs []string
	for runIdx, run := range parts[1:] {
		w.runIdx = runIdx
		f := strings.Fields(run)
		// optional 4th token `nw`: do not wait for the library's goroutines after this run (the next materialisation
		// starts while goroutines of this one may still be winding down)
		noWait := len(f) == 4 && f[3] == "nw"
		if len(f) != 3 && !noWait {
			return "bad-case"
		}
		w.calls, w.faultKind, w.faultPos = 0, "", 0
		w.events, w.ids, w.nEvents = map[int][]byte{}, nil, 0
		if f[2] != "nofault" {
			kind, posS, ok := strings.Cut(f[2], "@")
			pos, err := strconv.Atoi(posS)
			if !ok || err != nil {
				return "bad-case"
			}
			w.faultKind, w.faultPos = kind, pos
		}
		ctx, cancel := context.WithCancel(context.Background())
		w.cancel = cancel
		target := s
		if strings.HasPrefix(f[1], "take:") {
			n, err := strconv.Atoi(strings.TrimPrefix(f[1], "take:"))
			if err != nil {
				return "bad-case"
			}
			target = s.Limit(n)
		} else if f[1] != "all" {
			return "bad-case"
		}
		var delivered []pv
		var err error
		switch f[0] {
		case "collect":
			err = target.Consume(ctx, func(v pv) { delivered = append(delivered, v) })
		case "ffl":
			// value terminals built on Consume: what they hand back is "delivered" (nothing when they fail)
			var o *shpanstream.Tuple2[pv, pv]
			if o, err = stream.FindFirstAndLast(target).GetOptional(ctx); err == nil && o != nil {
				delivered = []pv{o.A, o.B}
			}
		case "flast":
			var o *pv
			if o, err = target.FindLast().GetOptional(ctx); err == nil && o != nil {
				delivered = []pv{*o}
			}
		case "count":
			var n int
			if n, err = target.Count(ctx); err == nil {
				delivered = []pv{{I: int64(n)}}
			}
		case "user":
			err = target.ConsumeWithErr(ctx, func(v pv) error {
				if e := w.call(); e != nil {
					return e
				}
				delivered = append(delivered, v)
				return nil
			})
		default:
			if !strings.HasPrefix(f[0], "cuser:") {
				return "bad-case"
			}
			c, cerr := strconv.Atoi(strings.TrimPrefix(f[0], "cuser:"))
			if cerr != nil {
				return "bad-case"
			}
			var dmu sync.Mutex
			err = target.ConsumeWithErr(ctx, func(v pv) error {
				if e := w.call(); e != nil {
					return e
				}
				dmu.Lock()
				delivered = append(delivered, v)
				dmu.Unlock()
				return nil
			}, stream.WithConcurrentConsumeOption(c))
		}
		leak := 0
		if async && !noWait {
			// closes of asynchronous stages are due once the library's goroutines have quiesced
			deadline := time.Now().Add(3 * time.Second)
			for runtime.NumGoroutine() > baseGoroutines && time.Now().Before(deadline) {
				time.Sleep(200 * time.Microsecond)
			}
			leak = runtime.NumGoroutine() - baseGoroutines
			if leak < 0 {
				leak = 0
			}
		}
		cancel()
		w.mu.Lock()
		sort.Ints(w.ids)
		var evs []string
		for _, r := range w.ids {
			evs = append(evs, fmt.Sprintf("%d:%s", r, w.events[r]))
		}
		evStr := strings.Join(evs, ";")
		if evStr == "" {
			evStr = "-"
		}
		if async {
			// delivery order of concurrent stages is not part of any property: canonical = sorted
			sort.Slice(delivered, func(i, j int) bool { return delivered[i].String() < delivered[j].String() })
			cls := classifyErr(err)
			if w.lockStuck {
				cls = "hang:lock" // this materialisation could not get the lock an earlier one must have released
			}
			outs = append(outs, fmt.Sprintf("%s %s | calls=%d pre=%d | %s | leak=%d", cls, fmtPvs(delivered), w.calls, pre, evStr, leak))
		} else {
			cls := classifyErr(err)
			if w.lockStuck {
				cls = "hang:lock"
			}
			outs = append(outs, fmt.Sprintf("%s %s | calls=%d pre=%d | %s", cls, fmtPvs(delivered), w.calls, pre, evStr))
		}
		w.mu.Unlock()
		pre = 0
	}
	return strings.Join(outs, " || ")
}
