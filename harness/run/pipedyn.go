package run

// DYN cases: stream.FlatMap over a probe source (with Peek / MapWithErr / FilterWithErr below it), inner streams made
// while the pipeline runs (probe sources, FromIterator over a sequence that holds a resource, Just, Empty, Error), an
// optional fresh Limit per run, one terminal operation per run, all runs on the SAME stream value.
// Lean side: lean/ShpanVerif/Model/PipeDyn.lean (model), lean/ShpanVerif/Drive/PipeDyn.lean (driver).
//
// case := DYN src R0 XS OPS... fm G || RUN || RUN ...
//       | DYN srcv R0 XS1|XS2|... OPS... fm G || RUN || RUN ...    the outer source's contents CHANGE between the
//         materialisations: run i is over XSi (the last entry repeats); the probe source reads its current contents at Open
// OPS  := peek | map FN | filter PRED              (source side first)
// G    := probe B M L | iter B M L | just K | empty | error | alt G G
// RUN  := <collect|user> <all|take:N> <nofault|KIND@P>
// obs  := per run " || "-joined:  <ok|err:CLASS> <delivered> | calls=N pre=N | R:EVENTS;... | seq=TOK.TOK...
//   seq: the ordered event log of the run: #<pos> call position taken, O<r> open ok, o<r> open failed, E<r> emit, C<r> close.
//   Order convention (= World.trace of the model): Open logs #pos then O/o; Emit logs #pos THEN E; callbacks log #pos.

import (
	"context"
	"errors"
	"fmt"
	"sort"
	"strconv"
	"strings"

	"github.com/shpandrak/shpanstream/stream"
)

type dynWorld struct {
	calls     int
	faultPos  int
	faultKind string
	cancel    context.CancelFunc
	events    map[int][]byte
	ids       []int
	nEvents   int
	seq       []string
}

func (w *dynWorld) reset() {
	w.calls, w.faultKind, w.faultPos = 0, "", 0
	w.events, w.ids, w.nEvents, w.seq = map[int][]byte{}, nil, 0, nil
}

func (w *dynWorld) ev(r int, c byte) {
	if _, ok := w.events[r]; !ok {
		w.ids = append(w.ids, r)
	}
	w.events[r] = append(w.events[r], c)
	w.nEvents++
	w.seq = append(w.seq, string(rune(c))+strconv.Itoa(r))
}

// take takes the next call position (logged as #pos) and tells whether the fault plan hits it.
func (w *dynWorld) take() bool {
	pos := w.calls
	w.calls++
	w.seq = append(w.seq, "#"+strconv.Itoa(pos))
	return w.faultKind != "" && pos == w.faultPos
}

// fire applies the fault plan at the call position that was hit: an error to return, a panic, or a cancellation
// (after which the call proceeds normally).
func (w *dynWorld) fire() error {
	switch w.faultKind {
	case "err":
		return errInjected
	case "eoferr":
		return errEOF
	case "errctx":
		return errInjectedCtx
	case "perr":
		panic(errInjected)
	case "peof":
		panic(errEOF)
	case "pval":
		panic("injected-panic-value")
	case "cancel":
		if w.cancel != nil {
			w.cancel()
		}
	}
	return nil
}

func (w *dynWorld) call() error {
	if w.take() {
		return w.fire()
	}
	return nil
}

// callNoErr: a call position inside a callback that cannot return an error: error kinds are raised as panic(err)
func (w *dynWorld) callNoErr() {
	if err := w.call(); err != nil {
		panic(err)
	}
}

// dynProbeSrc: probe source (stream.NewStream provider): Open / Emit are call positions; Open and Close reset the index
type dynProbeSrc struct {
	w   *dynWorld
	r   int
	xs  []int64
	idx int
	// cur (srcv): the contents variable of the source; read when the source is opened
	cur *[]int64
}

func (p *dynProbeSrc) Open(ctx context.Context) error {
	defer func() {
		if rv := recover(); rv != nil {
			p.w.ev(p.r, 'o')
			panic(rv)
		}
	}()
	if err := p.w.call(); err != nil {
		p.w.ev(p.r, 'o')
		return err
	}
	p.idx = 0
	if p.cur != nil {
		p.xs = *p.cur
	}
	p.w.ev(p.r, 'O')
	return nil
}

func (p *dynProbeSrc) Close() {
	p.idx = 0
	p.w.ev(p.r, 'C')
}

func (p *dynProbeSrc) Emit(ctx context.Context) (pv, error) {
	hit := p.w.take()
	p.w.ev(p.r, 'E')
	if hit {
		if err := p.w.fire(); err != nil {
			if err == errEOF {
				// for a provider io.EOF IS the end of stream: inject an ordinary error at Emit positions
				err = errInjected
			}
			return pv{}, err
		}
	}
	if p.idx >= len(p.xs) {
		return pv{}, errEOF
	}
	v := p.xs[p.idx]
	p.idx++
	return pv{I: v}, nil
}

// dynG: description of FlatMap's mapper
type dynG struct {
	kind    string
	b, m, l int
	k       int64
	x, y    *dynG
}

func (p *pparser) dynG(depth int) *dynG {
	if depth > 50 {
		p.err = fmt.Errorf("mapper description too deep")
		return nil
	}
	switch t := p.next(); t {
	case "probe", "iter":
		g := &dynG{kind: t, b: p.int(), m: p.int(), l: p.int()}
		if (g.m < 1 || g.l < 0 || g.b < 0) && p.err == nil {
			p.err = fmt.Errorf("bad %s parameters", t)
		}
		return g
	case "just":
		return &dynG{kind: t, k: int64(p.int())}
	case "empty", "error":
		return &dynG{kind: t}
	case "alt":
		x := p.dynG(depth + 1)
		y := p.dynG(depth + 1)
		return &dynG{kind: t, x: x, y: y}
	default:
		if p.err == nil {
			p.err = fmt.Errorf("bad mapper token %q", t)
		}
		return nil
	}
}

func absI64(x int64) int64 {
	if x < 0 {
		return -x
	}
	return x
}

// build makes the inner stream of element v: fresh objects on every invocation
func (g *dynG) build(w *dynWorld, v pv) stream.Stream[pv] {
	key := v.key()
	a := absI64(key)
	switch g.kind {
	case "probe", "iter":
		r := g.b + int(a%int64(g.m))
		n := int(a % int64(g.l+1))
		ys := make([]int64, n)
		for i := range ys {
			ys[i] = key + int64(i)
		}
		if g.kind == "probe" {
			return stream.NewStream[pv](&dynProbeSrc{w: w, r: r, xs: ys})
		}
		return stream.FromIterator(func(yield func(pv) bool) {
			// the acquisition: a call position; a sequence function cannot return an error, so it panics with it
			func() {
				defer func() {
					if rv := recover(); rv != nil {
						w.ev(r, 'o')
						panic(rv)
					}
				}()
				w.callNoErr()
			}()
			w.ev(r, 'O')
			defer w.ev(r, 'C')
			for _, y := range ys {
				if !yield(pv{I: y}) {
					return
				}
			}
		})
	case "just":
		return stream.Just(v, pv{I: key + g.k})
	case "empty":
		return stream.Empty[pv]()
	case "error":
		return stream.Error[pv](errors.New("dsl-error"))
	case "alt":
		if emod(key, 2) == 0 {
			return g.x.build(w, v)
		}
		return g.y.build(w, v)
	}
	panic("bad mapper description " + g.kind)
}

func execPipeOrDyn(caseText string) string {
	if strings.HasPrefix(caseText, "DYN ") {
		return execPipeDyn(caseText)
	}
	return execPipe(caseText)
}

// execPipeDyn runs one DYN case (pipe + runs) on the real library.
func execPipeDyn(caseText string) (obs string) {
	defer func() {
		if rv := recover(); rv != nil {
			obs = fmt.Sprintf("harness-panic %v", rv)
		}
	}()
	parts := strings.Split(strings.TrimPrefix(caseText, "DYN "), " || ")
	w := &dynWorld{}
	w.reset()
	pp := &pparser{toks: strings.Fields(parts[0])}
	srcTok := pp.next()
	if srcTok != "src" && srcTok != "srcv" {
		return "bad-case"
	}
	r0 := pp.int()
	var perRun [][]int64 // srcv: contents of run 1, 2, ...
	var contents []int64 // srcv: the contents variable the source reads at Open
	var s stream.Stream[pv]
	if srcTok == "src" {
		xs, xerr := parseInts(pp.next())
		if xerr != nil || pp.err != nil {
			return "bad-case"
		}
		s = stream.NewStream[pv](&dynProbeSrc{w: w, r: r0, xs: xs})
	} else {
		for _, t := range strings.Split(pp.next(), "|") {
			xs, xerr := parseInts(t)
			if xerr != nil {
				return "bad-case"
			}
			perRun = append(perRun, xs)
		}
		if pp.err != nil || len(perRun) == 0 {
			return "bad-case"
		}
		s = stream.NewStream[pv](&dynProbeSrc{w: w, r: r0, cur: &contents})
	}
ops:
	for {
		switch t := pp.next(); t {
		case "peek":
			s = s.Peek(func(pv) { w.callNoErr() })
		case "map":
			fn := pp.next()
			s = stream.MapWithErr(s, func(v pv) (pv, error) {
				if err := w.call(); err != nil {
					return pv{}, err
				}
				return applyFn(fn, v), nil
			})
		case "filter":
			pr := pp.next()
			s = s.FilterWithErr(func(v pv) (bool, error) {
				if err := w.call(); err != nil {
					return false, err
				}
				return applyPred(pr, v), nil
			})
		case "fm":
			break ops
		default:
			return "bad-case"
		}
		if pp.err != nil {
			return "bad-case"
		}
	}
	g := pp.dynG(0)
	if pp.err != nil || pp.pos != len(pp.toks) {
		return "bad-case"
	}
	s = stream.FlatMap(s, func(v pv) stream.Stream[pv] {
		// FIRST a call position (a Mapper cannot return an error: error kinds panic), THEN the inner stream is built
		w.callNoErr()
		return g.build(w, v)
	})
	pre := w.nEvents + w.calls
	var outs []string
	for ri, run := range parts[1:] {
		f := strings.Fields(run)
		if len(f) != 3 {
			return "bad-case"
		}
		w.reset()
		if perRun != nil {
			// the source's contents change while the stream value is at rest
			contents = perRun[min(ri, len(perRun)-1)]
		}
		if f[2] != "nofault" {
			kind, posS, ok := strings.Cut(f[2], "@")
			pos, err := strconv.Atoi(posS)
			if !ok || err != nil {
				return "bad-case"
			}
			switch kind {
			case "err", "perr", "pval", "cancel", "eoferr", "peof", "errctx":
			default:
				return "bad-case"
			}
			w.faultKind, w.faultPos = kind, pos
		}
		ctx, cancel := context.WithCancel(context.Background())
		w.cancel = cancel
		target := s
		if strings.HasPrefix(f[1], "take:") {
			n, err := strconv.Atoi(strings.TrimPrefix(f[1], "take:"))
			if err != nil {
				return "bad-case"
			}
			target = s.Limit(n)
		} else if f[1] != "all" {
			return "bad-case"
		}
		var delivered []pv
		var err error
		switch f[0] {
		case "collect":
			err = target.Consume(ctx, func(v pv) { delivered = append(delivered, v) })
		case "user":
			err = target.ConsumeWithErr(ctx, func(v pv) error {
				if e := w.call(); e != nil {
					return e
				}
				delivered = append(delivered, v)
				return nil
			})
		default:
			return "bad-case"
		}
		cancel()
		sort.Ints(w.ids)
		var evs []string
		for _, r := range w.ids {
			evs = append(evs, fmt.Sprintf("%d:%s", r, w.events[r]))
		}
		evStr := strings.Join(evs, ";")
		if evStr == "" {
			evStr = "-"
		}
		seq := strings.Join(w.seq, ".")
		if seq == "" {
			seq = "-"
		}
		outs = append(outs, fmt.Sprintf("%s %s | calls=%d pre=%d | %s | seq=%s", classifyErr(err), fmtPvs(delivered), w.calls, pre, evStr, seq))
		pre = 0
	}
	return strings.Join(outs, " || ")
}

// ---------------------------------------------------------------- generators

func dynCallsOf(caseText string) int {
	obs := execPipeDyn(caseText)
	i := strings.Index(obs, "calls=")
	if i < 0 {
		return 0
	}
	rest := obs[i+6:]
	j := strings.IndexByte(rest, ' ')
	if j < 0 {
		return 0
	}
	n, _ := strconv.Atoi(rest[:j])
	return n
}

// dynSweep: the fault-free case, then every call position of the fault-free run x every kind
func dynSweep(c *Ctx, pipe, term string, kinds []string, nontrivial bool) {
	base := pipe + " || " + term + " nofault"
	c.Case(nontrivial, base)
	if len(kinds) == 0 {
		return
	}
	n := dynCallsOf(base)
	for pos := 0; pos < n; pos++ {
		for _, k := range kinds {
			c.Case(nontrivial, fmt.Sprintf("%s || %s %s@%d", pipe, term, k, pos))
		}
	}
}

var dynGs = []string{
	"probe 10 3 2",
	"iter 10 3 2",
	"just 100",
	"empty",
	"error",
	"alt empty probe 10 1 2",
	"alt probe 10 2 1 error",
	"alt just 5 iter 20 2 3",
	"alt iter 10 1 1 empty",
	"alt error just 1",
	"alt alt empty error probe 10 2 2",
	"probe 10 1 0",
	"alt iter 10 2 2 probe 10 2 2",
}

var dynOps = []string{"", "peek", "filter mod:2:0", "map add:1", "peek map mul:2 filter lt:5"}

func dynXsSmall() []string {
	out := []string{"-"}
	var rec func(prefix []string, n int)
	rec = func(prefix []string, n int) {
		if n == 0 {
			out = append(out, strings.Join(prefix, ","))
			return
		}
		for _, d := range []string{"1", "2"} {
			rec(append(append([]string{}, prefix...), d), n-1)
		}
	}
	for n := 1; n <= 3; n++ {
		rec(nil, n)
	}
	return append(out, "0", "3,0,2", "-1,2", "2,-3,1", "3,3")
}

func dynPipe(xs, ops, g string) string {
	if ops != "" {
		ops += " "
	}
	return "DYN src 0 " + xs + " " + ops + "fm " + g
}

// genPipeDynSweep: exhaustive small scope (fault sweeps), then seeded random larger pipes.
// kinds = nil: fault-free cases only.
func genPipeDynSweep(c *Ctx, kinds []string, randomQuick, randomThorough int) {
	xss := dynXsSmall()
	// (terminal, take) combinations: every one is run fault-free; the ones of `swept` get the full fault sweep
	var terms []string
	for _, t := range []string{"collect", "user"} {
		for _, k := range []string{"all", "take:0", "take:1", "take:2", "take:3"} {
			terms = append(terms, t+" "+k)
		}
	}
	// quick tier: `collect all` is always swept, one of the other four rotates with the pipe
	always := map[string]bool{"collect all": true}
	rot := []string{"user all", "collect take:1", "user take:2", "collect take:3"}
	sweepAll := c.Thorough
	for oi, ops := range dynOps {
		for xi, xs := range xss {
			for gi, g := range dynGs {
				if oi > 0 && (xi+2*gi+oi)%c.Pick(10, 2) != 0 {
					continue // reduced product for ops != none
				}
				pipe := dynPipe(xs, ops, g)
				nt := xs != "-"
				for _, t := range terms {
					if sweepAll || always[t] || t == rot[(xi+gi+oi)%4] {
						dynSweep(c, pipe, t, kinds, nt)
					} else {
						c.Case(nt, pipe+" || "+t+" nofault")
					}
				}
			}
		}
	}
	// seeded random larger pipes
	n := c.Pick(randomQuick, randomThorough)
	for i := 0; i < n; i++ {
		xs, ops, g := dynRandXs(c.Rng), dynRandOps(c.Rng), dynRandG(c.Rng, 3)
		term := []string{"collect", "user"}[c.Rng.Intn(2)]
		if c.Rng.Intn(3) == 0 {
			term += " all"
		} else {
			term += " take:" + strconv.Itoa(c.Rng.Range(-1, 9))
		}
		dynSweep(c, dynPipe(xs, ops, g), term, kinds, xs != "-")
	}
}

// genPipeDynHist: multi-run histories on one stream value
func genPipeDynHist(c *Ctx) {
	ends := []string{"collect all nofault", "collect take:1 nofault", "user all err@2", "collect all cancel@1", "user all perr@1", "collect take:2 pval@3"}
	var pipes []string
	for _, xs := range []string{"-", "1,2", "2,1,2", "3,0,2"} {
		for _, g := range dynGs {
			pipes = append(pipes, dynPipe(xs, "", g))
		}
	}
	for i, g := range dynGs {
		pipes = append(pipes, dynPipe("1,2,3,4", dynOps[1+i%4], g))
	}
	n := c.Pick(10, 400)
	for i := 0; i < n; i++ {
		pipes = append(pipes, dynPipe(dynRandXs(c.Rng), dynRandOps(c.Rng), dynRandG(c.Rng, 3)))
	}
	for _, p := range pipes {
		for _, e1 := range ends {
			for _, e2 := range ends {
				for _, last := range []string{"collect all nofault", "collect take:2 nofault"} {
					c.Case(!strings.HasPrefix(p, "DYN src 0 - "), strings.Join([]string{p, e1, e2, last}, " || "))
				}
			}
		}
	}
	// the same over a source whose contents change between the materialisations
	genPipeDynVar(c, true, false)
}

// genPipeDynVar: histories on one stream value whose outer source CHANGES its contents between the materialisations
// (srcv): an early-stopped / failed / cancelled / complete run, then runs over the EMPTY source and over other contents.
// Every fault-free run must deliver the list-level meaning of ITS contents (what a fresh stream value would deliver).
// full = false: a small selection (C01 / C04); faultFree: only fault-free endings (C04).
func genPipeDynVar(c *Ctx, full, faultFree bool) {
	ends := []string{"collect take:1 nofault", "collect all nofault", "user all err@2", "collect all cancel@1", "user all perr@1",
		"collect take:2 pval@3", "user take:1 err@4", "collect take:1 cancel@3"}
	if faultFree {
		ends = []string{"collect take:1 nofault", "collect all nofault", "user take:2 nofault", "collect take:0 nofault"}
	}
	seqs := []string{"1|-", "1,2|-|2,1", "2,1,2|-|-", "1,2|3|-", "3,0,2|2|1,1", "-|1,2|-", "1|1,2,3|-", "2|-|2", "1,1|0|3,3,3"}
	gs := dynGs
	opss := []string{"", "peek", "filter mod:2:0", "map add:1"}
	if !full {
		seqs = seqs[:5]
		gs = []string{"probe 10 3 2", "iter 10 3 2", "just 100", "alt just 5 iter 20 2 3", "alt probe 10 2 1 error"}
		opss = opss[:2]
	}
	lasts := []string{"collect all nofault", "collect take:2 nofault", "user all nofault"}
	for oi, ops := range opss {
		for si, sq := range seqs {
			for gi, g := range gs {
				if oi > 0 && (si+gi+oi)%3 != 0 {
					continue
				}
				o := ops
				if o != "" {
					o += " "
				}
				p := "DYN srcv 0 " + sq + " " + o + "fm " + g
				for _, e1 := range ends {
					for li, last := range lasts {
						c.Case(true, strings.Join([]string{p, e1, last}, " || "))
						if full || li == 0 {
							c.Case(true, strings.Join([]string{p, e1, last, ends[(si+gi+li)%len(ends)], "collect all nofault"}, " || "))
						}
					}
				}
			}
		}
	}
	n := c.Pick(30, 1500)
	if !full {
		n = c.Pick(10, 200)
	}
	for i := 0; i < n; i++ {
		k := c.Rng.Range(2, 4)
		var parts []string
		for j := 0; j < k; j++ {
			if c.Rng.Intn(3) == 0 {
				parts = append(parts, "-")
			} else {
				parts = append(parts, dynRandXs(c.Rng))
			}
		}
		o := dynRandOps(c.Rng)
		if o != "" {
			o += " "
		}
		p := "DYN srcv 0 " + strings.Join(parts, "|") + " " + o + "fm " + dynRandG(c.Rng, 3)
		runs := []string{p}
		for j := 0; j < k-1; j++ {
			runs = append(runs, ends[c.Rng.Intn(len(ends))])
		}
		runs = append(runs, lasts[c.Rng.Intn(len(lasts))])
		c.Case(true, strings.Join(runs, " || "))
	}
}

// genPipeDyn: the whole DYN stream of a property with fault kinds `kinds`
func genPipeDyn(c *Ctx, kinds []string) {
	genPipeDynSweep(c, kinds, 150, 3000)
	genPipeDynHist(c) // includes the histories over a source whose contents change (genPipeDynVar)
}

func dynRandXs(r *Rng) string {
	n := r.Small(8)
	if n == 0 {
		return "-"
	}
	parts := make([]string, n)
	for i := range parts {
		parts[i] = strconv.Itoa(r.Range(-3, 9))
	}
	return strings.Join(parts, ",")
}

func dynRandOps(r *Rng) string {
	n := r.Intn(4)
	var parts []string
	for i := 0; i < n; i++ {
		switch r.Intn(3) {
		case 0:
			parts = append(parts, "peek")
		case 1:
			parts = append(parts, "map "+[]string{"id", "add:1", "add:-2", "mul:2", "mul:-1", "add:3"}[r.Intn(6)])
		default:
			parts = append(parts, "filter "+[]string{"tt", "mod:2:0", "mod:2:1", "mod:3:1", "lt:5", "ff", "lt:0"}[r.Intn(7)])
		}
	}
	return strings.Join(parts, " ")
}

func dynRandG(r *Rng, depth int) string {
	k := r.Intn(10)
	if depth == 0 && k >= 7 {
		k = r.Intn(7)
	}
	switch k {
	case 0, 1:
		return fmt.Sprintf("probe %d %d %d", 10*r.Range(1, 3), r.Range(1, 3), r.Range(0, 3))
	case 2, 3:
		return fmt.Sprintf("iter %d %d %d", 10*r.Range(1, 3), r.Range(1, 3), r.Range(0, 3))
	case 4:
		return fmt.Sprintf("just %d", r.Range(-2, 100))
	case 5:
		return "empty"
	case 6:
		if r.Intn(3) == 0 {
			return "error"
		}
		return fmt.Sprintf("probe %d %d %d", 10*r.Range(1, 3), r.Range(1, 3), r.Range(1, 3))
	default:
		return "alt " + dynRandG(r, depth-1) + " " + dynRandG(r, depth-1)
	}
}
