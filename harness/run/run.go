// Package run holds the correspondence runners: one file per property (family).
// A runner generates case lines from the PRNG, executes the REAL library on each case and prints
//
//	case <T|N> <case text>      (T = non-trivial by the family's rule, N = trivial)
//	obs <canonical observation>
//
// The same case text is parsed by the Lean driver, which runs the model on it.
package run

import (
	"bufio"
	"bytes"
	"fmt"
	"os"
	"os/exec"
	"sort"
	"strings"
	"syscall"
	"time"
)

// Rng is splitmix64: every random choice of a run derives from VERIF_SEED through it.
type Rng struct{ s uint64 }

// The initial state is a scrambled function of the seed: with the plain `seed*gamma + c` the stream of seed k+1 was the
// stream of seed k advanced by one draw, so neighbouring seeds generated almost the same cases.
func NewRng(seed uint64) *Rng {
	z := seed*0x9E3779B97F4A7C15 + 0x1234567
	z = (z ^ (z >> 30)) * 0xBF58476D1CE4E5B9
	z = (z ^ (z >> 27)) * 0x94D049BB133111EB
	return &Rng{s: z ^ (z >> 31)}
}

func (r *Rng) Next() uint64 {
	r.s += 0x9E3779B97F4A7C15
	z := r.s
	z = (z ^ (z >> 30)) * 0xBF58476D1CE4E5B9
	z = (z ^ (z >> 27)) * 0x94D049BB133111EB
	return z ^ (z >> 31)
}

// Intn returns a value in [0,n).
func (r *Rng) Intn(n int) int {
	if n <= 0 {
		return 0
	}
	return int(r.Next() % uint64(n))
}

// Range returns a value in [lo,hi].
func (r *Rng) Range(lo, hi int) int { return lo + r.Intn(hi-lo+1) }

func (r *Rng) Bool() bool { return r.Next()&1 == 1 }

// Small returns a small non-negative size, skewed towards 0..3 with a long tail up to max.
func (r *Rng) Small(max int) int {
	switch r.Intn(10) {
	case 0, 1, 2:
		return r.Intn(2)
	case 3, 4, 5, 6:
		return r.Intn(4)
	case 7, 8:
		return r.Intn(8)
	default:
		return r.Intn(max + 1)
	}
}

// Family is one property's runner.
type Family struct {
	// Gen generates cases (calling c.Case for each).
	Gen func(c *Ctx)
	// Exec runs the real code on one case text and returns the canonical observation.
	Exec func(caseText string) string
}

var families = map[string]Family{}

func Register(id string, f Family) { families[id] = f }

func Lookup(id string) (Family, bool) { f, ok := families[id]; return f, ok }

func Ids() []string {
	var ids []string
	for k := range families {
		ids = append(ids, k)
	}
	sort.Strings(ids)
	return ids
}

type Ctx struct {
	Prop     string
	Thorough bool
	Rng      *Rng
	fam      Family
	out      *bufio.Writer
	N        int
}

func NewCtx(prop string, thorough bool, seed uint64, fam Family) *Ctx {
	return &Ctx{Prop: prop, Thorough: thorough, Rng: NewRng(seed), fam: fam, out: bufio.NewWriterSize(os.Stdout, 1<<20)}
}

// Case executes the real code on the case and prints the case/obs pair.
func (c *Ctx) Case(nontrivial bool, caseText string) {
	if strings.ContainsAny(caseText, "\n\r") {
		panic("case text must be a single line")
	}
	var obs string
	if strings.HasPrefix(caseText, "ASYNC ") && os.Getenv("VERIF_NO_ISOLATE") == "" {
		// cases with library goroutines run in a child process: a panic on a worker goroutine (no recover) kills the
		// process, and the crash must become an observation of that one case instead of the end of the whole run
		obs = runIsolated(c.Prop, caseText)
	} else {
		obs = c.fam.Exec(caseText)
	}
	flag := "N"
	if nontrivial {
		flag = "T"
	}
	fmt.Fprintf(c.out, "case %s %s\nobs %s\n", flag, caseText, strings.ReplaceAll(obs, "\n", "\\n"))
	c.N++
}

// runIsolated executes one case in a child process (`corr -prop P -one <case>`). A child that does not end within the
// watchdog is asked for its goroutine stacks (SIGQUIT, kept in a file for inspection), killed, and the case is run again
// up to twice: only a case that does not end in any of the three attempts is reported as a hang (a single stall on an
// overloaded machine is not a property of the code, and a hang that cannot be replayed is not a usable report).
func runIsolated(prop, caseText string) string {
	obs := ""
	for attempt := 1; attempt <= 3; attempt++ {
		var hung bool
		obs, hung = runIsolatedOnce(prop, caseText)
		if !hung {
			if attempt > 1 {
				fmt.Fprintf(os.Stderr, "note: case ended on attempt %d after a stalled child: %s %s\n", attempt, prop, caseText)
			}
			return obs
		}
	}
	return obs
}

func runIsolatedOnce(prop, caseText string) (string, bool) {
	cmd := exec.Command(os.Args[0], "-prop", prop, "-one", caseText)
	cmd.Env = append(os.Environ(), "VERIF_NO_ISOLATE=1")
	var out, errb bytes.Buffer
	cmd.Stdout, cmd.Stderr = &out, &errb
	done := make(chan error, 1)
	if err := cmd.Start(); err != nil {
		return "harness-panic cannot start child: " + err.Error(), false
	}
	go func() { done <- cmd.Wait() }()
	select {
	case err := <-done:
		if err != nil {
			msg := errb.String()
			if i := strings.Index(msg, "panic:"); i >= 0 {
				msg = msg[i:]
			}
			if j := strings.IndexByte(msg, '\n'); j >= 0 {
				msg = msg[:j]
			}
			return "crash " + strings.TrimSpace(msg), false
		}
		return strings.TrimRight(out.String(), "\n"), false
	case <-time.After(60 * time.Second):
		_ = cmd.Process.Signal(syscall.SIGQUIT) // the Go runtime prints every goroutine's stack and exits
		select {
		case <-done:
		case <-time.After(5 * time.Second):
			_ = cmd.Process.Kill()
			<-done
		}
		if f, err := os.CreateTemp("", "shpanverif-hang-*.txt"); err == nil {
			fmt.Fprintf(f, "%s %s\n%s", prop, caseText, errb.String())
			f.Close()
			fmt.Fprintf(os.Stderr, "note: child did not end within 60s, goroutine stacks in %s\n", f.Name())
		}
		return "hang (child killed after 60s)", true
	}
}

// Raw prints a pre-computed pair (for runners whose cases are executed in batches).
func (c *Ctx) Raw(nontrivial bool, caseText, obs string) {
	flag := "N"
	if nontrivial {
		flag = "T"
	}
	fmt.Fprintf(c.out, "case %s %s\nobs %s\n", flag, caseText, strings.ReplaceAll(obs, "\n", "\\n"))
	c.N++
}

func (c *Ctx) Flush() { c.out.Flush() }

// Pick returns quick when the tier is quick, thorough otherwise.
func (c *Ctx) Pick(quick, thorough int) int {
	if c.Thorough {
		return thorough
	}
	return quick
}
