// Package run holds the correspondence runners: one file per property (family).
// A runner generates case lines from the PRNG, executes the REAL library on each case and prints
//
//	case <T|N> <case text>      (T = non-trivial by the family's rule, N = trivial)
//	obs <canonical observation>
//
// The same case text is parsed by the Lean driver, which runs the model on it.
package run

import (
	"bufio"
	"fmt"
	"os"
	"sort"
	"strings"
)

// Rng is splitmix64: every random choice of a run derives from VERIF_SEED through it.
type Rng struct{ s uint64 }

func NewRng(seed uint64) *Rng { return &Rng{s: seed*0x9E3779B97F4A7C15 + 0x1234567} }

func (r *Rng) Next() uint64 {
	r.s += 0x9E3779B97F4A7C15
	z := r.s
	z = (z ^ (z >> 30)) * 0xBF58476D1CE4E5B9
	z = (z ^ (z >> 27)) * 0x94D049BB133111EB
	return z ^ (z >> 31)
}

// Intn returns a value in [0,n).
func (r *Rng) Intn(n int) int {
	if n <= 0 {
		return 0
	}
	return int(r.Next() % uint64(n))
}

// Range returns a value in [lo,hi].
func (r *Rng) Range(lo, hi int) int { return lo + r.Intn(hi-lo+1) }

func (r *Rng) Bool() bool { return r.Next()&1 == 1 }

// Small returns a small non-negative size, skewed towards 0..3 with a long tail up to max.
func (r *Rng) Small(max int) int {
	switch r.Intn(10) {
	case 0, 1, 2:
		return r.Intn(2)
	case 3, 4, 5, 6:
		return r.Intn(4)
	case 7, 8:
		return r.Intn(8)
	default:
		return r.Intn(max + 1)
	}
}

// Family is one property's runner.
type Family struct {
	// Gen generates cases (calling c.Case for each).
	Gen func(c *Ctx)
	// Exec runs the real code on one case text and returns the canonical observation.
	Exec func(caseText string) string
}

var families = map[string]Family{}

func Register(id string, f Family) { families[id] = f }

func Lookup(id string) (Family, bool) { f, ok := families[id]; return f, ok }

func Ids() []string {
	var ids []string
	for k := range families {
		ids = append(ids, k)
	}
	sort.Strings(ids)
	return ids
}

type Ctx struct {
	Prop     string
	Thorough bool
	Rng      *Rng
	fam      Family
	out      *bufio.Writer
	N        int
}

func NewCtx(prop string, thorough bool, seed uint64, fam Family) *Ctx {
	return &Ctx{Prop: prop, Thorough: thorough, Rng: NewRng(seed), fam: fam, out: bufio.NewWriterSize(os.Stdout, 1<<20)}
}

// Case executes the real code on the case and prints the case/obs pair.
func (c *Ctx) Case(nontrivial bool, caseText string) {
	if strings.ContainsAny(caseText, "\n\r") {
		panic("case text must be a single line")
	}
	obs := c.fam.Exec(caseText)
	flag := "N"
	if nontrivial {
		flag = "T"
	}
	fmt.Fprintf(c.out, "case %s %s\nobs %s\n", flag, caseText, strings.ReplaceAll(obs, "\n", "\\n"))
	c.N++
}

// Raw prints a pre-computed pair (for runners whose cases are executed in batches).
func (c *Ctx) Raw(nontrivial bool, caseText, obs string) {
	flag := "N"
	if nontrivial {
		flag = "T"
	}
	fmt.Fprintf(c.out, "case %s %s\nobs %s\n", flag, caseText, strings.ReplaceAll(obs, "\n", "\\n"))
	c.N++
}

func (c *Ctx) Flush() { c.out.Flush() }

// Pick returns quick when the tier is quick, thorough otherwise.
func (c *Ctx) Pick(quick, thorough int) int {
	if c.Thorough {
		return thorough
	}
	return quick
}
