package run

// C11: the same single-field pipeline built three ways (datasource API / report API with single-field filters /
// report API with replace-field filters and ToDatasource) must agree. Case grammar: notes/C10-protocol.md
// (`tw` lines, plus ordinary `q` lines run by the shared executor). The generator lives in c10.go.

import (
	"fmt"
)

func init() {
	Register("C11", Family{Gen: genC11, Exec: execC11})
}

func execC11(caseText string) string {
	obs, _ := execC11X(caseText)
	return obs
}

func execC11X(caseText string) (string, bool) {
	toks, err := qTokens(caseText)
	if err != nil {
		return "bad-case", false
	}
	switch toks[0] {
	case "q":
		return execQLineX(toks)
	case "tw":
		return execTwLineX(toks)
	}
	return "bad-case", false
}

func genC11(c *Ctx) {
	e := &qEmitter{c: c, exec: execC11X}
	// phase 1: the exhaustive small-scope values that live over a single column, as three-way cases
	p := newQP1()
	p.emitDs = func(mode, tree string) {
		e.emit(fmt.Sprintf("tw %s %d %d %s", mode, qP1From, qP1To, tree), false)
	}
	p.depth1(c)
	p.depth2(c)
	// phase 2: seeded random, half three-way pipelines, half ordinary queries
	g := &qgen{r: c.Rng}
	n := c.Pick(40000, 600000)
	for i := 0; i < n; i++ {
		var text string
		var nonconf bool
		if i%2 == 0 {
			text, nonconf = g.randomTw()
		} else {
			text, nonconf = g.randomQ()
		}
		e.emit(text, nonconf)
	}
	e.summary("C11")
}
