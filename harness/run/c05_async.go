package run

import (
	"fmt"
	"strconv"
	"strings"
)

// C05, asynchronous clause: Buffered(n) and the concurrent map with concurrency c never run ahead of the consumer by
// more than a bound depending only on n / c.  Not registered as a family of its own: the C05 runner dispatches case
// lines whose first token is `A` to ExecC05Async and calls GenC05Async from its Gen.
//
//	A buffered n=<size> len=<elements> script=<..>
//	A concmap c=<concurrency> len=<elements> script=<..>
//
// The consumer callback is gated; the environment releases it only in quiescent states (every goroutine of the
// materialisation blocked), so at each release the source has run as far ahead as the stage lets it.  Observation:
// the maximum over those states of (source Emit calls that returned a value − elements handed to the consumer
// callback, the held one included), the number of elements, and the bound the harness expects (n, resp. 3c+1).

// ExecC05Async runs one `A ...` case.
func ExecC05Async(caseText string) string {
	f := strings.Fields(caseText)
	if len(f) < 2 || f[0] != "A" {
		return "bad-case"
	}
	kv := map[string]string{}
	for _, t := range f[2:] {
		if k, v, ok := strings.Cut(t, "="); ok {
			kv[k] = v
		}
	}
	ln, _ := strconv.Atoi(kv["len"])
	script := kv["script"]
	if script == "" {
		script = "-"
	}
	var inner string
	var bound int
	// early stop: Limit(k) downstream of the stage; the terminal returns after k elements while the source still has
	// elements, and everything pulled up to the moment the whole materialisation is gone is counted
	extra := ""
	if kv["limit"] != "" && kv["limit"] != "0" {
		extra = " limit=" + kv["limit"]
	}
	switch f[1] {
	case "buffered":
		n, _ := strconv.Atoi(kv["n"])
		if n < 2 {
			return "bad-case buffered needs n>=2"
		}
		inner = fmt.Sprintf("buf c=1 n=%d size=%d sync=1 mg=0 cg=1%s script=%s", ln, n, extra, script)
		bound = n
	case "concmap":
		c, _ := strconv.Atoi(kv["c"])
		if c < 1 {
			return "bad-case concmap needs c>=1"
		}
		inner = fmt.Sprintf("cmap c=%d n=%d sync=1 mg=0 cg=1%s script=%s", c, ln, extra, script)
		bound = 3*c + 1
	case "ccons":
		// concurrent consume: gated callbacks (run-ahead of the producer over the callbacks handed out so far), or an
		// ungated run whose callback fails at element mf (everything pulled until the terminal is gone)
		c, _ := strconv.Atoi(kv["c"])
		if c < 1 {
			return "bad-case ccons needs c>=1"
		}
		if kv["mf"] != "" {
			inner = fmt.Sprintf("ccons c=%d n=%d sync=0 mg=0 mf=%s script=-", c, ln, kv["mf"])
		} else {
			inner = fmt.Sprintf("ccons c=%d n=%d sync=1 mg=1 script=%s", c, ln, script)
		}
		o := execConc("C05")(inner)
		pulled, calls, maxAhead, released := 0, 0, 0, 0
		res, leak := "?", "?"
		for _, t := range strings.Fields(o) {
			switch {
			case strings.HasPrefix(t, "plog="):
				for _, tok := range strings.Split(strings.TrimPrefix(t, "plog="), ",") {
					if strings.HasPrefix(tok, "r") && strings.HasSuffix(tok, "v") {
						pulled++
					}
				}
			case strings.HasPrefix(t, "calls="):
				if v := strings.TrimPrefix(t, "calls="); v != "-" {
					calls = len(strings.Split(v, ","))
				}
			case strings.HasPrefix(t, "res="):
				res = strings.TrimPrefix(t, "res=")
			case strings.HasPrefix(t, "leak="):
				leak = strings.TrimPrefix(t, "leak=")
			case strings.HasPrefix(t, "trace="):
				if v := strings.TrimPrefix(t, "trace="); v != "-" {
					for _, tok := range strings.Split(v, ",") {
						p := strings.Split(tok, ":")
						if len(p) == 3 && strings.HasPrefix(p[0], "m") {
							inflight, _ := strconv.Atoi(p[1])
							em, _ := strconv.Atoi(p[2])
							if a := em - (released + inflight); a > maxAhead {
								maxAhead = a
							}
							released++
						}
					}
				}
			}
		}
		return fmt.Sprintf("res=%s runahead=%d handed=%d len=%d bound=%d leak=%s pulled=%d", res, maxAhead, calls, ln, c+1, leak, pulled)
	default:
		return "bad-case"
	}
	obs := execConc("C05")(inner)
	// run-ahead at each release of the consumer: trace tokens `d:<in flight>:<emitted>`; the k-th `d` token is logged
	// while the consumer holds its k-th element, so `handed` = k
	trace := ""
	res := "?"
	leak := "?"
	for _, t := range strings.Fields(obs) {
		if strings.HasPrefix(t, "trace=") {
			trace = strings.TrimPrefix(t, "trace=")
		}
		if strings.HasPrefix(t, "res=") {
			res = strings.TrimPrefix(t, "res=")
		}
		if strings.HasPrefix(t, "leak=") {
			leak = strings.TrimPrefix(t, "leak=")
		}
	}
	// every source Emit call that returned a value, up to quiescence after the terminal returned (plog `r<g>v`)
	pulled := 0
	for _, t := range strings.Fields(obs) {
		if strings.HasPrefix(t, "plog=") {
			for _, tok := range strings.Split(strings.TrimPrefix(t, "plog="), ",") {
				if strings.HasPrefix(tok, "r") && strings.HasSuffix(tok, "v") {
					pulled++
				}
			}
		}
	}
	maxAhead, handed := 0, 0
	if trace != "-" && trace != "" {
		for _, tok := range strings.Split(trace, ",") {
			if !strings.HasPrefix(tok, "d:") {
				continue
			}
			handed++
			p := strings.Split(tok, ":")
			if len(p) != 3 {
				continue
			}
			em, _ := strconv.Atoi(p[2])
			if em-handed > maxAhead {
				maxAhead = em - handed
			}
		}
	}
	return fmt.Sprintf("res=%s runahead=%d handed=%d len=%d bound=%d leak=%s pulled=%d", res, maxAhead, handed, ln, bound, leak, pulled)
}

// GenC05Async generates the `A ...` cases (through c.Case, i.e. through the registered C05 Exec).
func GenC05Async(c *Ctx) {
	maxN := c.Pick(5, 9)
	for n := 2; n <= maxN; n++ {
		for _, ln := range []int{0, 1, n - 1, n, n + 1, n + 2, 3*n + 5, 40} {
			c.Case(ln > n, fmt.Sprintf("A buffered n=%d len=%d script=-", n, ln))
		}
	}
	maxC := c.Pick(4, 8)
	for cc := 1; cc <= maxC; cc++ {
		for _, ln := range []int{0, 1, 3 * cc, 3*cc + 1, 3*cc + 2, 3*cc + 3, 4*cc + 7, 40} {
			c.Case(ln > 3*cc+1, fmt.Sprintf("A concmap c=%d len=%d script=-", cc, ln))
		}
	}
	// early stop (Limit(k) downstream): pulled in total <= k + bound, also after the terminal returned
	for n := 2; n <= maxN; n++ {
		for _, k := range []int{1, 2, n, n + 3} {
			for _, ln := range []int{k, k + 1, k + n, k + n + 1, 60, 300} {
				c.Case(ln > k+n, fmt.Sprintf("A buffered n=%d len=%d limit=%d script=-", n, ln, k))
			}
		}
	}
	for cc := 1; cc <= maxC; cc++ {
		for _, k := range []int{1, 2, cc + 1, 3*cc + 2} {
			for _, ln := range []int{k, k + 1, k + 3*cc + 1, k + 3*cc + 2, 60, 300} {
				c.Case(ln > k+3*cc+1, fmt.Sprintf("A concmap c=%d len=%d limit=%d script=-", cc, ln, k))
			}
		}
	}
	// concurrent consume: run-ahead over the callbacks (bound c+1), and everything pulled after a callback failed
	for cc := 1; cc <= maxC; cc++ {
		for _, ln := range []int{0, 1, cc + 1, cc + 2, 2*cc + 3, 40} {
			c.Case(ln > cc+1, fmt.Sprintf("A ccons c=%d len=%d script=-", cc, ln))
		}
		for _, k := range []int{0, 1, cc, 2 * cc} {
			c.Case(true, fmt.Sprintf("A ccons c=%d len=300 mf=%d script=-", cc, k))
		}
	}
	nr := c.Pick(40, 600)
	for i := 0; i < nr; i++ {
		if c.Rng.Bool() {
			n := c.Rng.Range(2, 12)
			c.Case(true, fmt.Sprintf("A buffered n=%d len=%d script=-", n, c.Rng.Range(0, 60)))
		} else {
			cc := c.Rng.Range(1, 8)
			c.Case(true, fmt.Sprintf("A concmap c=%d len=%d script=-", cc, c.Rng.Range(0, 60)))
		}
	}
}
