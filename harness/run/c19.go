package run

// C19 — OpenAPI query documents parse to equivalent engines or are rejected cleanly;
// OrderReportFieldUrnsByDependency is a correct topological order.
//
// Three case families (first token of the case text):
//
//	ord <urn> : <polish expr> ; <urn> : <polish expr> ; ...     (ordering; "ord" alone = empty input)
//	    expr := r <urn> | k | c e e | l e e | s e e e | n e e | t e | x e e | y e | d <cnt> <urn>... | z | w
//	    obs  := ok <urn,urn,...|-> | err cyclic <urn,...> | err other
//	rt <ds|rds> <s-expression of the query tree>                 (round trip / equivalence, see c19_tree.go)
//	    obs  := equal <accept|reject> <canonical JSON written by the generated From* helpers> | differ <detail> | panic <msg> | hang
//	mal <ds|rds> <JSON document>                                 (malformed stream)
//	    obs  := engine | reject | panic <msg> | hang
import (
	"fmt"
	"strconv"
	"strings"
	"time"

	qo "github.com/shpandrak/shpanstream/utils/timeseries/tsquery/queryopenapi"
)

func init() {
	Register("C19", Family{Gen: genC19, Exec: execC19})
}

func execC19(caseText string) string {
	toks := strings.Fields(caseText)
	if len(toks) == 0 {
		return "bad-case"
	}
	c19SetWindow(caseText)
	switch toks[0] {
	case "ord":
		return execC19Ord(toks[1:])
	case "rt":
		if len(toks) < 3 {
			return "bad-case"
		}
		return execC19Rt(toks[1], toks[2:])
	case "mal":
		if len(toks) != 3 {
			return "bad-case"
		}
		return execC19Mal(toks[1], toks[2])
	}
	return "bad-case"
}

// ---------------------------------------------------------------------------------------------
// ordering

func c19Must(err error) {
	if err != nil {
		panic("harness: " + err.Error())
	}
}

// c19OrdExpr builds a real ApiReportFieldValue from polish tokens; returns the rest of the tokens.
func c19OrdExpr(toks []string) (qo.ApiReportFieldValue, []string, bool) {
	var v qo.ApiReportFieldValue
	if len(toks) == 0 {
		return v, nil, false
	}
	head, rest := toks[0], toks[1:]
	sub := func(n int) ([]qo.ApiReportFieldValue, bool) {
		out := make([]qo.ApiReportFieldValue, n)
		for i := 0; i < n; i++ {
			var ok bool
			out[i], rest, ok = c19OrdExpr(rest)
			if !ok {
				return nil, false
			}
		}
		return out, true
	}
	switch head {
	case "r":
		if len(rest) == 0 {
			return v, nil, false
		}
		c19Must(v.FromApiRefReportFieldValue(qo.ApiRefReportFieldValue{Urn: rest[0]}))
		return v, rest[1:], true
	case "k":
		c19Must(v.FromApiConstantReportFieldValue(qo.ApiConstantReportFieldValue{DataType: "decimal", FieldValue: 1.0, Required: true}))
	case "c":
		s, ok := sub(2)
		if !ok {
			return v, nil, false
		}
		c19Must(v.FromApiConditionReportFieldValue(qo.ApiConditionReportFieldValue{Operand1: s[0], Operand2: s[1], OperatorType: "greater_than"}))
	case "l":
		s, ok := sub(2)
		if !ok {
			return v, nil, false
		}
		c19Must(v.FromApiLogicalExpressionReportFieldValue(qo.ApiLogicalExpressionReportFieldValue{Operand1: s[0], Operand2: s[1], LogicalOperatorType: "and"}))
	case "s":
		s, ok := sub(3)
		if !ok {
			return v, nil, false
		}
		c19Must(v.FromApiSelectorReportFieldValue(qo.ApiSelectorReportFieldValue{SelectorBooleanField: s[0], TrueField: s[1], FalseField: s[2]}))
	case "n":
		s, ok := sub(2)
		if !ok {
			return v, nil, false
		}
		c19Must(v.FromApiNvlReportFieldValue(qo.ApiNvlReportFieldValue{Source: s[0], AltField: s[1]}))
	case "t":
		s, ok := sub(1)
		if !ok {
			return v, nil, false
		}
		c19Must(v.FromApiCastReportFieldValue(qo.ApiCastReportFieldValue{Source: s[0], TargetType: "decimal"}))
	case "x":
		s, ok := sub(2)
		if !ok {
			return v, nil, false
		}
		c19Must(v.FromApiNumericExpressionReportFieldValue(qo.ApiNumericExpressionReportFieldValue{Op1: s[0], Op: "+", Op2: s[1]}))
	case "y":
		s, ok := sub(1)
		if !ok {
			return v, nil, false
		}
		c19Must(v.FromApiUnaryNumericOperatorReportFieldValue(qo.ApiUnaryNumericOperatorReportFieldValue{Operand: s[0], Op: "abs"}))
	case "d":
		if len(rest) == 0 {
			return v, nil, false
		}
		n, err := strconv.Atoi(rest[0])
		if err != nil || n < 0 || len(rest) < 1+n {
			return v, nil, false
		}
		urns := append([]string{}, rest[1:1+n]...)
		rest = rest[1+n:]
		c19Must(v.FromApiReduceReportFieldValue(qo.ApiReduceReportFieldValue{FieldUrns: urns, ReductionType: "sum"}))
	case "z":
		c19Must(v.FromApiNilReportFieldValue(qo.ApiNilReportFieldValue{DataType: "decimal"}))
	case "w":
		// the zero union value: Discriminator() fails, GetReferencedUrns returns nil
	default:
		return v, nil, false
	}
	return v, rest, true
}

func c19Join(l []string) string {
	if len(l) == 0 {
		return "-"
	}
	return strings.Join(l, ",")
}

func execC19Ord(toks []string) (obs string) {
	defer func() {
		if r := recover(); r != nil {
			obs = "panic " + c19Clean(fmt.Sprint(r))
		}
	}()
	var fields []qo.ReportFieldForOrdering
	for len(toks) > 0 {
		if len(toks) < 2 || toks[1] != ":" {
			return "bad-case"
		}
		urn := toks[0]
		v, rest, ok := c19OrdExpr(toks[2:])
		if !ok {
			return "bad-case"
		}
		fields = append(fields, qo.ReportFieldForOrdering{Uri: urn, Value: v})
		toks = rest
		if len(toks) > 0 {
			if toks[0] != ";" {
				return "bad-case"
			}
			toks = toks[1:]
		}
	}
	var res []string
	var err error
	if c19Watch(func() { res, err = qo.OrderReportFieldUrnsByDependency(fields) }) {
		return "hang"
	}
	if err != nil {
		const pfx = "circular dependency detected involving: "
		if msg := err.Error(); strings.HasPrefix(msg, pfx) {
			nodes := strings.TrimPrefix(msg, pfx)
			if nodes == "" {
				return "err cyclic -"
			}
			return "err cyclic " + c19Join(strings.Split(nodes, ", "))
		}
		return "err other"
	}
	return "ok " + c19Join(res)
}

func c19Clean(s string) string {
	s = strings.Join(strings.Fields(s), "_")
	if len(s) > 160 {
		s = s[:160]
	}
	return s
}

// c19SetWindow: the execution window follows the season of the case's data (see c19Gen.ts): winter, a daylight-saving
// switch, summer.
func c19SetWindow(caseText string) {
	c19From, c19To = time.Date(2024, 12, 31, 0, 0, 0, 0, time.UTC), time.Date(2025, 1, 4, 0, 0, 0, 0, time.UTC)
	switch {
	case strings.Contains(caseText, "2025-07-0"):
		c19From, c19To = time.Date(2025, 6, 30, 0, 0, 0, 0, time.UTC), time.Date(2025, 7, 4, 0, 0, 0, 0, time.UTC)
	case strings.Contains(caseText, "2025-03-29T") || strings.Contains(caseText, "2025-03-30T"):
		c19From, c19To = time.Date(2025, 3, 28, 0, 0, 0, 0, time.UTC), time.Date(2025, 4, 1, 0, 0, 0, 0, time.UTC)
	}
}
