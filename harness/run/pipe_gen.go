package run

import (
	"fmt"
	"io"
	"strconv"
	"strings"
)

var errEOF = io.EOF

// pgen generates pipe texts with distinct resource ids.
type pgen struct {
	rng    *Rng
	nextID int
	// operator set switches
	noWindowCluster bool // reusable subset only (C18)
	srcMax          int
}

func (g *pgen) id() int { g.nextID++; return g.nextID - 1 }

func (g *pgen) ints() string {
	n := g.rng.Small(g.srcMax)
	if n == 0 {
		return "-"
	}
	parts := make([]string, n)
	sorted := g.rng.Intn(5) > 0
	cur := g.rng.Range(-4, 6)
	for i := 0; i < n; i++ {
		if sorted {
			if g.rng.Intn(3) > 0 {
				cur += g.rng.Intn(4)
			}
		} else {
			cur = g.rng.Range(-6, 9)
		}
		parts[i] = strconv.Itoa(cur)
	}
	return strings.Join(parts, ",")
}

func (g *pgen) fn(arr bool) string {
	if arr {
		return []string{"sum", "len", "id", "add:2"}[g.rng.Intn(4)]
	}
	return []string{"id", "add:1", "add:-3", "mul:2", "mul:-1", "add:10"}[g.rng.Intn(6)]
}

func (g *pgen) pred() string {
	return []string{"tt", "ff", "mod:2:0", "mod:2:1", "mod:3:1", "lt:3", "lt:0"}[g.rng.Intn(7)]
}

func (g *pgen) fac() string {
	return []string{"first", "sum", "firstk:2", "firstk:1", "none", "firstprev", "firstk:0"}[g.rng.Intn(7)]
}

// pipe returns (text, element type is array)
func (g *pgen) pipe(depth int) (string, bool) {
	if depth <= 0 || g.rng.Intn(6) == 0 {
		return fmt.Sprintf("src %d %s", g.id(), g.ints()), false
	}
	nOps := 12
	if g.noWindowCluster {
		nOps = 8
	}
	switch g.rng.Intn(nOps) {
	case 0:
		id := g.id()
		p, a := g.pipe(depth - 1)
		return fmt.Sprintf("lc %d %s", id, p), a
	case 1:
		p, a := g.pipe(depth - 1)
		f := g.fn(a)
		return fmt.Sprintf("map %s %s", f, p), a && (f == "id" || strings.HasPrefix(f, "add"))
	case 2:
		p, a := g.pipe(depth - 1)
		return fmt.Sprintf("filter %s %s", g.pred(), p), a
	case 3:
		p, a := g.pipe(depth - 1)
		if g.noWindowCluster {
			// limit/skip are not in the reusable subset: use another map instead
			return fmt.Sprintf("map id %s", p), a
		}
		return fmt.Sprintf("limit %d %s", g.rng.Range(-1, 5), p), a
	case 4:
		p, a := g.pipe(depth - 1)
		if g.noWindowCluster {
			return fmt.Sprintf("filter tt %s", p), a
		}
		return fmt.Sprintf("skip %d %s", g.rng.Range(0, 4), p), a
	case 5, 6, 7:
		k := g.rng.Range(0, 3)
		if g.rng.Intn(4) > 0 && k == 0 {
			k = 2
		}
		kind := []string{"concat", "zip", "merge"}[g.rng.Intn(3)]
		var subs []string
		anyArr := false
		for i := 0; i < k; i++ {
			p, a := g.pipe(depth - 1)
			if a {
				// keep composite inputs integer valued
				p = "map sum " + p
			}
			subs = append(subs, p)
		}
		txt := fmt.Sprintf("%s %d", kind, k)
		if k > 0 {
			txt += " " + strings.Join(subs, " ")
		}
		return txt, (kind == "zip" && k > 0) || anyArr
	case 8, 9:
		p, a := g.pipe(depth - 1)
		if a {
			p = "map sum " + p
		}
		size := g.rng.Range(1, 4)
		step := g.rng.Range(1, size)
		if g.rng.Intn(12) == 0 {
			step = size + 1 // invalid parameters: Error stream
		}
		return fmt.Sprintf("window %d %d %d %s", size, step, g.rng.Intn(2), p), true
	default:
		p, a := g.pipe(depth - 1)
		if a {
			p = "map sum " + p
		}
		fac := g.fac()
		return fmt.Sprintf("cluster %d %s %s", g.rng.Range(1, 4), fac, p), fac != "first" && fac != "none"
	}
}
