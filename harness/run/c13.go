package run

import (
	"context"
	"fmt"
	"io"
	"log/slog"
	"math"
	"sort"
	"strconv"
	"strings"
	"sync"
	"time"

	"github.com/shpandrak/shpanstream/stream"
	"github.com/shpandrak/shpanstream/utils/timeseries"
	"github.com/shpandrak/shpanstream/utils/timeseries/tsquery"
	"github.com/shpandrak/shpanstream/utils/timeseries/tsquery/datasource"
	"github.com/shpandrak/shpanstream/utils/timeseries/tsquery/report"
)

// C13: the four aligners on one series.
//
//	case := "<period> <ty> reloc=<k> x=<0|1> | <pt> <pt> ..."     ("-" for the empty series)
//	period := "fix:<ns>" (fixed duration, UTC) | "fix:<ns>@<offsetSec>" (fixed duration in a fixed-offset zone) | "day" (calendar day, UTC)
//	        | "tab:<day|week|month>@<zone>:<b0>,<b1>,..." (the real calendar period of that zone; b_i = its consecutive starts, computed
//	          by the generator from GetStartTime alone, = the model's period; instants of the case stay inside [b0, b_last))
//	ty := "i" | "f"        declared field type (int64 / float64)
//	reloc=k                how the instants are expressed as time.Time values:
//	                       0 t.UTC(); 1 t.In(America/New_York); 2 t.In(Asia/Kolkata); 3 rotating per index; 4 time.Unix(0,ns) (Local)
//	x=1                    values lie on a small dyadic grid (every value subtraction is exact): the bounded-ness clause is checked
//	pt := "<unixNanos>:<cell>"   cell := "i<dec>" | "f<16 hex of Float64bits>" | "o<n>" (a bool: not numeric)
//	obs := "A=<res> U=<res> D=<res> R=<res>"   res := "ok:<unixNanos>=<cell>,..." | "ok:-" | "err:<class>" | "na"
//	A AlignStream[int64|float64] (na unless every cell has the declared type), U AlignStreamUntyped (one-field rows),
//	D datasource.NewAlignerFilter on a field of the declared type, R report.NewAlignerFilter on one-field rows.

var c13Once sync.Once

func tsQuiet() {
	c13Once.Do(func() { slog.SetDefault(slog.New(slog.NewTextHandler(io.Discard, nil))) })
}

var (
	tsLocNY      *time.Location
	tsLocKolkata *time.Location
)

func init() {
	var err error
	if tsLocNY, err = time.LoadLocation("America/New_York"); err != nil {
		tsLocNY = time.FixedZone("NYfallback", -5*3600)
	}
	if tsLocKolkata, err = time.LoadLocation("Asia/Kolkata"); err != nil {
		tsLocKolkata = time.FixedZone("KOLfallback", 19800)
	}
	Register("C13", Family{Gen: genC13, Exec: execC13})
}

// tsCell is a dynamically typed value: kind 'i' int64, 'f' float64, 'o' bool.
type tsCell struct {
	Kind byte
	I    int64
	F    float64
}

func (c tsCell) any() any {
	switch c.Kind {
	case 'i':
		return c.I
	case 'f':
		return c.F
	default:
		return c.I != 0
	}
}

func (c tsCell) String() string {
	switch c.Kind {
	case 'i':
		return "i" + strconv.FormatInt(c.I, 10)
	case 'f':
		return fmt.Sprintf("f%016x", math.Float64bits(c.F))
	default:
		return "o" + strconv.FormatInt(c.I, 10)
	}
}

func tsCellOfAny(v any) string {
	switch x := v.(type) {
	case int64:
		return "i" + strconv.FormatInt(x, 10)
	case float64:
		return fmt.Sprintf("f%016x", math.Float64bits(x))
	case bool:
		if x {
			return "o1"
		}
		return "o0"
	case nil:
		return "nil"
	default:
		return fmt.Sprintf("?%T", v)
	}
}

func tsParseCell(s string) (tsCell, error) {
	if len(s) < 2 {
		return tsCell{}, fmt.Errorf("bad cell %q", s)
	}
	switch s[0] {
	case 'i', 'o':
		v, err := strconv.ParseInt(s[1:], 10, 64)
		return tsCell{Kind: s[0], I: v}, err
	case 'f':
		b, err := strconv.ParseUint(s[1:], 16, 64)
		return tsCell{Kind: 'f', F: math.Float64frombits(b)}, err
	}
	return tsCell{}, fmt.Errorf("bad cell %q", s)
}

func tsCalendarPeriod(kind string, loc *time.Location) (timeseries.AlignmentPeriod, error) {
	switch kind {
	case "day":
		return timeseries.NewDayAlignmentPeriod(loc), nil
	case "week":
		return timeseries.NewWeekAlignmentPeriod(loc), nil
	case "month":
		return timeseries.NewMonthAlignmentPeriod(loc), nil
	case "quarter":
		return timeseries.NewQuarterAlignmentPeriod(loc), nil
	case "halfyear":
		return timeseries.NewHalfYearAlignmentPeriod(loc), nil
	case "year":
		return timeseries.NewYearAlignmentPeriod(loc), nil
	}
	return nil, fmt.Errorf("bad calendar kind %q", kind)
}

func tsParsePeriod(s string) (timeseries.AlignmentPeriod, error) {
	if s == "day" {
		return timeseries.NewDayAlignmentPeriod(time.UTC), nil
	}
	if strings.HasPrefix(s, "tab:") {
		// tab:<kind>@<zone>:<b0>,<b1>,... - the real calendar period; the table of its starts is for the model only
		parts := strings.SplitN(s[4:], ":", 2)
		kind, zone, ok := strings.Cut(parts[0], "@")
		if !ok {
			return nil, fmt.Errorf("bad table period %q", s)
		}
		loc, err := time.LoadLocation(zone)
		if err != nil {
			return nil, err
		}
		return tsCalendarPeriod(kind, loc)
	}
	if strings.HasPrefix(s, "fix:") {
		body := s[4:]
		loc := time.UTC
		if a, b, ok := strings.Cut(body, "@"); ok {
			off, err := strconv.Atoi(b)
			if err != nil {
				return nil, err
			}
			loc = time.FixedZone("fz"+b, off)
			body = a
		}
		d, err := strconv.ParseInt(body, 10, 64)
		if err != nil || d <= 0 {
			return nil, fmt.Errorf("bad duration %q", body)
		}
		return timeseries.NewFixedAlignmentPeriod(time.Duration(d), loc), nil
	}
	return nil, fmt.Errorf("bad period %q", s)
}

// tsReloc expresses instant ns (unix nanos) as a time.Time in representation k; idx is the position in the series.
func tsReloc(k int, idx int, ns int64) time.Time {
	t := time.Unix(0, ns)
	switch k {
	case 0:
		return t.UTC()
	case 1:
		return t.In(tsLocNY)
	case 2:
		return t.In(tsLocKolkata)
	case 3:
		switch idx % 4 {
		case 0:
			return t.In(tsLocKolkata)
		case 1:
			return t.UTC()
		case 2:
			return t
		default:
			return t.In(tsLocNY)
		}
	default:
		return t
	}
}

// tsErrClass maps an error to its class.
func tsErrClass(err error) string {
	m := err.Error()
	switch {
	case strings.Contains(m, "stream recovered error"):
		return "panic"
	case strings.Contains(m, "are the same"):
		return "same"
	case strings.Contains(m, "out of bounds"):
		return "oob"
	case strings.Contains(m, "not sorted"):
		return "unsorted"
	case strings.Contains(m, "cannot be converted to float64"), strings.Contains(m, "unsupported type"):
		return "nonnum"
	case strings.Contains(m, "first element"):
		return "nofirst"
	case strings.Contains(m, "unsupported fill mode"):
		return "badmode"
	}
	return "other(" + strings.ReplaceAll(m, " ", "_") + ")"
}

type tsPoint struct {
	T int64
	C []tsCell // one cell per field
}

func tsParsePoints(s string, fields int) ([]tsPoint, error) {
	s = strings.TrimSpace(s)
	if s == "-" || s == "" {
		return nil, nil
	}
	var out []tsPoint
	for _, tok := range strings.Fields(s) {
		a, b, ok := strings.Cut(tok, ":")
		if !ok {
			return nil, fmt.Errorf("bad point %q", tok)
		}
		t, err := strconv.ParseInt(a, 10, 64)
		if err != nil {
			return nil, err
		}
		var cells []tsCell
		for _, cs := range strings.Split(b, ";") {
			c, err := tsParseCell(cs)
			if err != nil {
				return nil, err
			}
			cells = append(cells, c)
		}
		if fields > 0 && len(cells) != fields {
			return nil, fmt.Errorf("point %q: want %d fields", tok, fields)
		}
		out = append(out, tsPoint{t, cells})
	}
	return out, nil
}

func tsFmtPoints(pts []tsPoint) string {
	if len(pts) == 0 {
		return "-"
	}
	parts := make([]string, len(pts))
	for i, p := range pts {
		cs := make([]string, len(p.C))
		for j, c := range p.C {
			cs[j] = c.String()
		}
		parts[i] = strconv.FormatInt(p.T, 10) + ":" + strings.Join(cs, ";")
	}
	return strings.Join(parts, " ")
}

// tsGuard runs f, turning a panic that escapes the library into the observation "err:escaped-panic".
func tsGuard(f func() string) (res string) {
	defer func() {
		if r := recover(); r != nil {
			res = "err:escaped-panic"
		}
	}()
	return f()
}

func tsResTyped[N int64 | float64](recs []timeseries.TsRecord[N], err error, cell func(N) string) string {
	if err != nil {
		return "err:" + tsErrClass(err)
	}
	if len(recs) == 0 {
		return "ok:-"
	}
	parts := make([]string, len(recs))
	for i, r := range recs {
		parts[i] = strconv.FormatInt(r.Timestamp.UnixNano(), 10) + "=" + cell(r.Value)
	}
	return "ok:" + strings.Join(parts, ",")
}

func tsResAny(recs []timeseries.TsRecord[any], err error) string {
	if err != nil {
		return "err:" + tsErrClass(err)
	}
	if len(recs) == 0 {
		return "ok:-"
	}
	parts := make([]string, len(recs))
	for i, r := range recs {
		parts[i] = strconv.FormatInt(r.Timestamp.UnixNano(), 10) + "=" + tsCellOfAny(r.Value)
	}
	return "ok:" + strings.Join(parts, ",")
}

func tsResRows(recs []timeseries.TsRecord[[]any], err error) string {
	if err != nil {
		return "err:" + tsErrClass(err)
	}
	if len(recs) == 0 {
		return "ok:-"
	}
	parts := make([]string, len(recs))
	for i, r := range recs {
		cs := make([]string, len(r.Value))
		for j, v := range r.Value {
			cs[j] = tsCellOfAny(v)
		}
		parts[i] = strconv.FormatInt(r.Timestamp.UnixNano(), 10) + "=" + strings.Join(cs, ";")
	}
	return "ok:" + strings.Join(parts, ",")
}

func tsDataType(ty byte) tsquery.DataType {
	if ty == 'i' {
		return tsquery.DataTypeInteger
	}
	return tsquery.DataTypeDecimal
}

func tsKV(tok, key string) (string, bool) {
	if strings.HasPrefix(tok, key+"=") {
		return tok[len(key)+1:], true
	}
	return "", false
}

func execC13(caseText string) string {
	tsQuiet()
	head, body, ok := strings.Cut(caseText, "|")
	if !ok {
		return "bad-case"
	}
	hs := strings.Fields(head)
	if len(hs) != 4 || len(hs[1]) != 1 {
		return "bad-case"
	}
	ty := hs[1][0]
	rs, ok1 := tsKV(hs[2], "reloc")
	_, ok2 := tsKV(hs[3], "x")
	if !ok1 || !ok2 || (ty != 'i' && ty != 'f') {
		return "bad-case"
	}
	reloc, err := strconv.Atoi(rs)
	if err != nil {
		return "bad-case"
	}
	pts, err := tsParsePoints(body, 1)
	if err != nil {
		return "bad-case"
	}
	mkPeriod := func() timeseries.AlignmentPeriod {
		p, err := tsParsePeriod(hs[0])
		if err != nil {
			panic(err)
		}
		return p
	}
	if _, err := tsParsePeriod(hs[0]); err != nil {
		return "bad-case"
	}
	ctx := context.Background()
	wellTyped := true
	for _, p := range pts {
		if p.C[0].Kind != ty {
			wellTyped = false
		}
	}
	// A: AlignStream[N]
	resA := "na"
	if wellTyped {
		resA = tsGuard(func() string {
			if ty == 'i' {
				recs := make([]timeseries.TsRecord[int64], len(pts))
				for i, p := range pts {
					recs[i] = timeseries.TsRecord[int64]{Timestamp: tsReloc(reloc, i, p.T), Value: p.C[0].I}
				}
				out, err := timeseries.AlignStream[int64](stream.Just(recs...), mkPeriod()).Collect(ctx)
				return tsResTyped(out, err, func(v int64) string { return "i" + strconv.FormatInt(v, 10) })
			}
			recs := make([]timeseries.TsRecord[float64], len(pts))
			for i, p := range pts {
				recs[i] = timeseries.TsRecord[float64]{Timestamp: tsReloc(reloc, i, p.T), Value: p.C[0].F}
			}
			out, err := timeseries.AlignStream[float64](stream.Just(recs...), mkPeriod()).Collect(ctx)
			return tsResTyped(out, err, func(v float64) string { return fmt.Sprintf("f%016x", math.Float64bits(v)) })
		})
	}
	rows := func() []timeseries.TsRecord[[]any] {
		recs := make([]timeseries.TsRecord[[]any], len(pts))
		for i, p := range pts {
			recs[i] = timeseries.TsRecord[[]any]{Timestamp: tsReloc(reloc, i, p.T), Value: []any{p.C[0].any()}}
		}
		return recs
	}
	// U: AlignStreamUntyped
	resU := tsGuard(func() string {
		out, err := timeseries.AlignStreamUntyped(stream.Just(rows()...), mkPeriod()).Collect(ctx)
		return tsResRows(out, err)
	})
	// D: datasource aligner filter
	resD := tsGuard(func() string {
		recs := make([]timeseries.TsRecord[any], len(pts))
		for i, p := range pts {
			recs[i] = timeseries.TsRecord[any]{Timestamp: tsReloc(reloc, i, p.T), Value: p.C[0].any()}
		}
		fm, err := tsquery.NewFieldMeta("f0", tsDataType(ty), true)
		if err != nil {
			return "err:meta"
		}
		res, err := datasource.NewAlignerFilter(mkPeriod()).Filter(ctx, datasource.NewResult(*fm, stream.Just(recs...)))
		if err != nil {
			return "err:filter"
		}
		out, err := res.Data().Collect(ctx)
		return tsResAny(out, err)
	})
	// R: report aligner filter
	resR := tsGuard(func() string {
		fm, err := tsquery.NewFieldMeta("f0", tsDataType(ty), true)
		if err != nil {
			return "err:meta"
		}
		res, err := report.NewAlignerFilter(mkPeriod()).Filter(ctx, report.NewResult([]tsquery.FieldMeta{*fm}, stream.Just(rows()...)))
		if err != nil {
			return "err:filter"
		}
		out, err := res.Stream().Collect(ctx)
		return tsResRows(out, err)
	})
	// R3: report aligner filter on three-field rows [constant of the declared type, the value, a ramp of the other numeric
	// type]: every field of an interpolated row carries its own interpolation (a field that does not change included)
	resR3 := tsGuard(func() string {
		oty := byte('f')
		if ty == 'f' {
			oty = 'i'
		}
		var fms []tsquery.FieldMeta
		for j, t := range []byte{ty, ty, oty} {
			fm, err := tsquery.NewFieldMeta(fmt.Sprintf("f%d", j), tsDataType(t), true)
			if err != nil {
				return "err:meta"
			}
			fms = append(fms, *fm)
		}
		recs := make([]timeseries.TsRecord[[]any], len(pts))
		for i, p := range pts {
			var c0, c2 any
			if ty == 'i' {
				c0, c2 = int64(7), float64(i)*0.5
			} else {
				c0, c2 = float64(7.5), int64(3*i)
			}
			recs[i] = timeseries.TsRecord[[]any]{Timestamp: tsReloc(reloc, i, p.T), Value: []any{c0, p.C[0].any(), c2}}
		}
		res, err := report.NewAlignerFilter(mkPeriod()).Filter(ctx, report.NewResult(fms, stream.Just(recs...)))
		if err != nil {
			return "err:filter"
		}
		out, err := res.Stream().Collect(ctx)
		return tsResRows(out, err)
	})
	return "A=" + resA + " U=" + resU + " D=" + resD + " R=" + resR + " R3=" + resR3
}

// ---- generation ----

const tsBase int64 = 1710028800 * 1000000000 // 2024-03-10T00:00:00Z: a day, hour and quarter-hour boundary in UTC

var tsIntPat = [][]int64{
	{10, -7, 3, 25, -2, 14, -9},
	{-3, 9007199254740993, 0, -9007199254740993, 7, 9007199254740995, 1},
}

var tsFltPat = [][]float64{
	{1.5, -2.25, 8, 0.125, -16, 3.75, -0.5},
	{1e16, 1.0, -1e16, 3.0, 0.1, 1e-3, 7e15},
}

// tsStart is the model of the period's start used only to decide the T/N flag (periods touched).
var tsTabCache = map[string][]int64{}

func tsTabBounds(period string) []int64 {
	if b, ok := tsTabCache[period]; ok {
		return b
	}
	var out []int64
	if i := strings.LastIndex(period, ":"); i >= 0 {
		for _, x := range strings.Split(period[i+1:], ",") {
			v, _ := strconv.ParseInt(x, 10, 64)
			out = append(out, v)
		}
	}
	tsTabCache[period] = out
	return out
}

// tsBuildTable returns "tab:<kind>@<zone>:<b0>,...,<b(n-1)>": n consecutive period starts from the period containing
// `from`, obtained from GetStartTime alone (next start = GetStartTime(cur + a step that lands inside the next period)),
// or "" if the table is not consistent with GetStartTime (zones whose local midnight is skipped/repeated: C12's D14).
func tsBuildTable(kind, zone string, from time.Time, n int) (string, []int64) {
	loc, err := time.LoadLocation(zone)
	if err != nil {
		return "", nil
	}
	ap, err := tsCalendarPeriod(kind, loc)
	if err != nil {
		return "", nil
	}
	step := 36 * time.Hour
	switch kind {
	case "week":
		step = (7*24 + 36) * time.Hour
	case "month":
		step = 45 * 24 * time.Hour
	case "quarter":
		step = 135 * 24 * time.Hour
	case "halfyear":
		step = 270 * 24 * time.Hour
	case "year":
		step = 540 * 24 * time.Hour
	}
	cur := ap.GetStartTime(from)
	bs := []int64{cur.UnixNano()}
	for len(bs) < n {
		nxt := ap.GetStartTime(cur.Add(step))
		if !nxt.After(cur) || !ap.GetStartTime(nxt).Equal(nxt) || !ap.GetStartTime(nxt.Add(-1)).Equal(cur) {
			return "", nil
		}
		bs = append(bs, nxt.UnixNano())
		cur = nxt
	}
	parts := make([]string, len(bs))
	for i, b := range bs {
		parts[i] = strconv.FormatInt(b, 10)
	}
	return "tab:" + kind + "@" + zone + ":" + strings.Join(parts, ","), bs
}

type tsTabSpec struct {
	kind, zone string
	from       time.Time
}

// calendar periods around daylight-saving changes (23 h, 25 h, 23.5 h, 24.5 h days; months and weeks containing them)
var tsTabSpecs = []tsTabSpec{
	{"day", "America/New_York", time.Date(2024, 3, 7, 12, 0, 0, 0, time.UTC)},
	{"day", "America/New_York", time.Date(2024, 10, 31, 12, 0, 0, 0, time.UTC)},
	{"day", "Europe/Berlin", time.Date(2024, 3, 28, 12, 0, 0, 0, time.UTC)},
	{"day", "Europe/Berlin", time.Date(2024, 10, 24, 12, 0, 0, 0, time.UTC)},
	{"day", "Australia/Lord_Howe", time.Date(2024, 4, 4, 12, 0, 0, 0, time.UTC)},
	{"day", "Australia/Lord_Howe", time.Date(2024, 10, 3, 12, 0, 0, 0, time.UTC)},
	{"week", "America/New_York", time.Date(2024, 2, 28, 12, 0, 0, 0, time.UTC)},
	// weeks around the change back to standard time (a 169 h week: "start + 168 h" is still inside it)
	{"week", "America/New_York", time.Date(2024, 10, 16, 12, 0, 0, 0, time.UTC)},
	{"week", "Europe/Berlin", time.Date(2024, 10, 9, 12, 0, 0, 0, time.UTC)},
	{"week", "Australia/Lord_Howe", time.Date(2024, 3, 20, 12, 0, 0, 0, time.UTC)},
	{"month", "Europe/Berlin", time.Date(2024, 2, 10, 12, 0, 0, 0, time.UTC)},
	{"month", "America/New_York", time.Date(2024, 9, 10, 12, 0, 0, 0, time.UTC)},
	// the longer calendar periods, in zones far from UTC (the instants of a case are carried in other locations: reloc)
	{"quarter", "Asia/Kolkata", time.Date(2023, 11, 10, 12, 0, 0, 0, time.UTC)},
	{"quarter", "America/New_York", time.Date(2023, 5, 10, 12, 0, 0, 0, time.UTC)},
	{"halfyear", "Europe/Berlin", time.Date(2022, 2, 10, 12, 0, 0, 0, time.UTC)},
	{"year", "America/New_York", time.Date(2019, 6, 10, 12, 0, 0, 0, time.UTC)},
	{"year", "Asia/Kolkata", time.Date(2019, 6, 10, 12, 0, 0, 0, time.UTC)},
}

func tsPeriodKey(period string, t int64) int64 {
	if strings.HasPrefix(period, "tab:") {
		k := int64(-1)
		for _, b := range tsTabBounds(period) {
			if b <= t {
				k++
			}
		}
		return k
	}
	d := int64(86400) * 1000000000
	off := int64(0)
	if strings.HasPrefix(period, "fix:") {
		body := period[4:]
		if a, b, ok := strings.Cut(body, "@"); ok {
			o, _ := strconv.ParseInt(b, 10, 64)
			off = o * 1000000000
			body = a
		}
		d, _ = strconv.ParseInt(body, 10, 64)
	}
	x := t + off
	q := x / d
	if x%d < 0 {
		q--
	}
	return q
}

func emitC13(c *Ctx, period string, ty byte, reloc int, exact bool, pts []tsPoint) {
	sorted := sort.SliceIsSorted(pts, func(i, j int) bool { return pts[i].T < pts[j].T })
	well := true
	for _, p := range pts {
		if p.C[0].Kind != ty {
			well = false
		}
	}
	periods := map[int64]bool{}
	for _, p := range pts {
		periods[tsPeriodKey(period, p.T)] = true
	}
	x := 0
	if exact {
		x = 1
	}
	// non-trivial: sorted, well typed, at least two periods touched (so at least one boundary value is computed)
	c.Case(sorted && well && len(periods) >= 2, fmt.Sprintf("%s %c reloc=%d x=%d | %s", period, ty, reloc, x, tsFmtPoints(pts)))
}

func tsCellFor(ty byte, pat int, i int) tsCell {
	if ty == 'i' {
		p := tsIntPat[pat]
		return tsCell{Kind: 'i', I: p[i%len(p)]}
	}
	p := tsFltPat[pat]
	return tsCell{Kind: 'f', F: p[i%len(p)]}
}

func tsRandFloat(r *Rng, exact bool) float64 {
	if exact {
		// multiples of 1/8 in [-64, 64]
		return float64(r.Range(-512, 512)) / 8
	}
	mant := r.Next() & ((1 << 52) - 1)
	exp := uint64(1023 + r.Range(-20, 56))
	sign := r.Next() & 1
	return math.Float64frombits(sign<<63 | exp<<52 | mant)
}

func genC13(c *Ctx) {
	type pk struct {
		name string
		d    int64
	}
	periods := []pk{{"fix:3600000000000", 3600000000000}, {"fix:900000000000", 900000000000}, {"day", 86400000000000}}
	// exhaustive small scope: all non-decreasing sequences over a grid of offsets relative to period boundaries
	maxLen := c.Pick(4, 5)
	idx := 0
	for _, p := range periods {
		d := p.d
		offs := []int64{0, 1, d / 4, d - 1, d, d + 1, d + d/2, 2 * d, 3*d - 1, 5*d + d/4}
		if c.Thorough {
			offs = []int64{0, 1, d / 4, d / 2, d - 1, d, d + 1, d + d/2, 2 * d, 3*d - 1, 3 * d, 5*d + d/4}
		}
		var rec func(cur []int64, lo int)
		rec = func(cur []int64, lo int) {
			for _, ty := range []byte{'i', 'f'} {
				relocs := []int{0, 1 + idx%4}
				if c.Thorough {
					relocs = []int{0, 1, 2, 3, 4}
				}
				for ri, k := range relocs {
					pat := (idx + ri) % 2
					pts := make([]tsPoint, len(cur))
					for i, o := range cur {
						pts[i] = tsPoint{tsBase + o, []tsCell{tsCellFor(ty, pat, i)}}
					}
					emitC13(c, p.name, ty, k, pat == 0, pts)
				}
				idx++
			}
			if len(cur) >= maxLen {
				return
			}
			for j := lo; j < len(offs); j++ {
				rec(append(cur, offs[j]), j)
			}
		}
		rec(nil, 0)
	}
	// seeded random longer series
	rp := []pk{{"fix:3600000000000", 3600000000000}, {"fix:900000000000", 900000000000}, {"day", 86400000000000},
		{"fix:1000000000", 1000000000}, {"fix:7", 7}, {"fix:3600000000000@19800", 3600000000000}, {"fix:86400000000000@-18000", 86400000000000}}
	n := c.Pick(4000, 200000)
	for it := 0; it < n; it++ {
		r := c.Rng
		p := rp[r.Intn(len(rp))]
		ty := byte('i')
		if r.Bool() {
			ty = 'f'
		}
		exact := r.Intn(3) > 0
		ln := r.Small(30)
		base := tsBase
		switch r.Intn(6) {
		case 0:
			base = -31536000 * 1000000000 // 1969-01-01: instants before the epoch
		case 1:
			base = -3 * p.d // straddles the epoch
		}
		t := base + int64(r.Intn(3))*p.d/2
		pts := make([]tsPoint, 0, ln)
		for i := 0; i < ln; i++ {
			switch r.Intn(8) {
			case 0: // same instant again
			case 1:
				t++
			case 2, 3:
				t += int64(r.Next() % uint64(p.d))
			case 4: // exactly onto the next boundary
				k := tsPeriodKey(p.name, t)
				off := int64(0)
				if _, b, ok := strings.Cut(p.name, "@"); ok {
					o, _ := strconv.ParseInt(b, 10, 64)
					off = o * 1000000000
				}
				t = (k+1)*p.d - off
			case 5: // one ns before some later boundary
				k := tsPeriodKey(p.name, t)
				off := int64(0)
				if _, b, ok := strings.Cut(p.name, "@"); ok {
					o, _ := strconv.ParseInt(b, 10, 64)
					off = o * 1000000000
				}
				t = (k+int64(r.Range(1, 3)))*p.d - off - 1
			case 6:
				t += int64(r.Range(1, 5))*p.d + int64(r.Next()%uint64(p.d))
			default:
				t += p.d / int64(1<<uint(r.Range(1, 4)))
			}
			var cell tsCell
			if ty == 'i' {
				if exact {
					cell = tsCell{Kind: 'i', I: int64(r.Range(-1000, 1000))}
				} else {
					cell = tsCell{Kind: 'i', I: int64(r.Next()>>3) - (1 << 60)}
				}
			} else {
				cell = tsCell{Kind: 'f', F: tsRandFloat(r, exact)}
			}
			pts = append(pts, tsPoint{t, []tsCell{cell}})
		}
		// a few ill-formed inputs keep the error branches of model and code in step (flagged N)
		switch r.Intn(40) {
		case 0:
			if len(pts) >= 2 {
				i, j := r.Intn(len(pts)), r.Intn(len(pts))
				pts[i].T, pts[j].T = pts[j].T, pts[i].T
			}
		case 1:
			if len(pts) >= 1 {
				i := r.Intn(len(pts))
				switch r.Intn(3) {
				case 0:
					pts[i].C[0] = tsCell{Kind: 'o', I: 1}
				case 1:
					pts[i].C[0] = tsCell{Kind: 'i', I: int64(r.Range(-50, 50))}
				default:
					pts[i].C[0] = tsCell{Kind: 'f', F: float64(r.Range(-50, 50)) / 4}
				}
			}
		}
		emitC13(c, p.name, ty, r.Intn(5), exact, pts)
	}
	// calendar periods in zones with daylight-saving changes (period = table of starts taken from GetStartTime)
	nt := c.Pick(150, 1500)
	for _, sp := range tsTabSpecs {
		name, bs := tsBuildTable(sp.kind, sp.zone, sp.from, 9)
		if name == "" {
			continue
		}
		for it := 0; it < nt; it++ {
			r := c.Rng
			ty := byte('i')
			if r.Bool() {
				ty = 'f'
			}
			exact := r.Intn(3) > 0
			ln := r.Small(12)
			var ts []int64
			for i := 0; i < ln; i++ {
				j := r.Intn(len(bs) - 2) // stay inside the table: [b0, b(n-2))
				switch r.Intn(6) {
				case 0:
					ts = append(ts, bs[j])
				case 1:
					ts = append(ts, bs[j]+1)
				case 2:
					ts = append(ts, bs[j+1]-1)
				case 3:
					// within a zone offset of a boundary (the local date differs between the carried locations)
					ts = append(ts, bs[j+1]-int64(r.Range(1, 14*3600))*1000000000)
				default:
					ts = append(ts, bs[j]+int64(r.Next()%uint64(bs[j+1]-bs[j])))
				}
			}
			sort.Slice(ts, func(a, b int) bool { return ts[a] < ts[b] })
			pts := make([]tsPoint, len(ts))
			for i, t := range ts {
				var cell tsCell
				if ty == 'i' {
					cell = tsCell{Kind: 'i', I: int64(r.Range(-1000, 1000))}
					if !exact {
						cell.I = int64(r.Next()>>3) - (1 << 60)
					}
				} else {
					cell = tsCell{Kind: 'f', F: tsRandFloat(r, exact)}
				}
				pts[i] = tsPoint{t, []tsCell{cell}}
			}
			emitC13(c, name, ty, r.Intn(5), exact, pts)
		}
	}
}
