package run

import (
	"fmt"
	"strings"
)

// C06: concurrent map / concurrent consume deliver (invoke) exactly once per element for every completion order;
// never more than c callbacks in flight.  Case lines are described in conc_util.go.

func init() {
	Register("C06", Family{Gen: genC06, Exec: execConc("C06")})
}

func concScript(s []int) string {
	if len(s) == 0 {
		return "-"
	}
	p := make([]string, len(s))
	for i, v := range s {
		p[i] = fmt.Sprint(v)
	}
	return strings.Join(p, ",")
}

// all completion orders: at step t (0-based) the environment chooses one of min(c, n-t) in-flight calls
func concAllOrders(c, n int, f func(script []int)) {
	var rec func(t int, cur []int)
	rec = func(t int, cur []int) {
		if t == n {
			f(append([]int(nil), cur...))
			return
		}
		k := n - t
		if c < k {
			k = c
		}
		for j := 0; j < k; j++ {
			rec(t+1, append(cur, j))
		}
	}
	rec(0, nil)
}

func genC06(c *Ctx) {
	var cases []concGenCase
	emit := func(nt bool, text string) { cases = append(cases, concGenCase{nt, text}) }
	defer func() { concEmitAll(c, "C06", cases) }()
	maxC := c.Pick(3, 4)
	// exhaustive small scope: every completion order of the gated mapper / consumer calls
	for _, op := range []string{"cmap", "ccons"} {
		for cc := 1; cc <= maxC; cc++ {
			maxN := cc + c.Pick(2, 3)
			if maxN > c.Pick(5, 6) {
				maxN = c.Pick(5, 6)
			}
			for n := 0; n <= maxN; n++ {
				concAllOrders(cc, n, func(script []int) {
					emit(cc >= 2 && n >= 2, fmt.Sprintf("%s c=%d n=%d sync=1 mg=1 script=%s", op, cc, n, concScript(script)))
				})
			}
		}
	}
	// slow consumers: every worker busy and the item channel full for more than a second at a stretch - the element the
	// producer holds meanwhile is still owed to a consumer
	emit(true, "ccons c=1 n=5 sync=0 mg=0 cbms=1050 script=-")
	// nil is a result: concurrent map to a pointer type whose mapper returns nil for every third element
	for cc := 1; cc <= maxC; cc++ {
		for _, n := range []int{0, 1, 2, 3, 5, 4*cc + 1} {
			emit(n >= 2, fmt.Sprintf("cmap c=%d n=%d sync=1 mg=0 ptr=1 script=-", cc, n))
			emit(n >= 2, fmt.Sprintf("cmap c=%d n=%d sync=0 mg=0 ptr=1 yield=1 script=-", cc, n))
			// MapWhileFiltering with the concurrent option (kept and filtered elements interleaved, gated completion orders)
			emit(n >= 2, fmt.Sprintf("cmap c=%d n=%d sync=1 mg=1 mwf=1 script=-", cc, n))
			emit(n >= 2, fmt.Sprintf("cmap c=%d n=%d sync=1 mg=0 mwf=1 script=-", cc, n))
			emit(n >= 2, fmt.Sprintf("cmap c=%d n=%d sync=0 mg=0 mwf=1 yield=1 script=-", cc, n))
		}
	}
	// a source that goes quiet for a while in the middle (longer than any plausible idle time-out) and then continues
	for _, cc := range []int{1, 2, 4} {
		emit(true, fmt.Sprintf("ccons c=%d n=%d sync=0 mg=0 slowat=%d slowms=160 script=-", cc, 2*cc+4, cc+2))
		emit(true, fmt.Sprintf("cmap c=%d n=%d sync=0 mg=0 slowat=%d slowms=160 script=-", cc, 2*cc+4, cc+2))
		emit(true, fmt.Sprintf("ccons c=%d n=%d sync=0 mg=0 slowat=0 slowms=160 script=-", cc, 3*cc+2))
	}
	// long streams (thousands of elements, around powers of two): every element exactly once whatever the length
	for _, n := range []int{1023, 1024, 1025, 2500, 4097, 5000} {
		for _, cc := range []int{1, 3, 8} {
			emit(true, fmt.Sprintf("ccons c=%d n=%d sync=0 mg=0 script=-", cc, n))
			emit(true, fmt.Sprintf("cmap c=%d n=%d sync=0 mg=0 script=-", cc, n))
		}
		emit(true, fmt.Sprintf("nest c=2 n=%d size=3 sync=0 mg=0 script=-", n))
		emit(true, fmt.Sprintf("buf c=1 n=%d size=4 sync=0 script=-", n))
	}
	// seeded random: longer streams (0..4c+3), higher concurrency, back-pressure from a gated consumer, gated source
	nr := c.Pick(250, 4000)
	for i := 0; i < nr; i++ {
		op := "cmap"
		if c.Rng.Intn(3) == 0 {
			op = "ccons"
		}
		cc := c.Rng.Range(1, c.Pick(4, 8))
		n := c.Rng.Range(0, 4*cc+3)
		cg, sg := 0, 0
		if op == "cmap" && c.Rng.Intn(2) == 0 {
			cg = 1
		}
		if c.Rng.Intn(4) == 0 {
			sg = 1
		}
		script := make([]int, 3*n+4)
		for j := range script {
			script[j] = c.Rng.Intn(16)
		}
		emit(cc >= 2 && n >= 2, fmt.Sprintf("%s c=%d n=%d sync=1 mg=1 cg=%d sg=%d script=%s", op, cc, n, cg, sg, concScript(script)))
	}
	// free-running: the Go scheduler picks the interleaving; slow and fast sources; gated or immediate callbacks
	nf := c.Pick(250, 4000)
	for i := 0; i < nf; i++ {
		op := []string{"cmap", "ccons", "nest"}[c.Rng.Intn(3)]
		cc := c.Rng.Range(1, c.Pick(4, 8))
		n := c.Rng.Range(0, 4*cc+3)
		mg := c.Rng.Intn(2)
		yield := []int{0, 0, 1, 3}[c.Rng.Intn(4)]
		script := make([]int, n+2)
		for j := range script {
			script[j] = c.Rng.Intn(16)
		}
		size := c.Rng.Range(2, 5)
		emit(cc >= 2 && n >= 2, fmt.Sprintf("%s c=%d n=%d size=%d sync=0 mg=%d yield=%d script=%s", op, cc, n, size, mg, yield, concScript(script)))
	}
}
