package run

import (
	"cmp"
	"context"
	"errors"
	"fmt"
	"regexp"
	"strconv"
	"strings"
	"time"

	"github.com/shpandrak/shpanstream"
	"github.com/shpandrak/shpanstream/stream"
	"github.com/shpandrak/shpanstream/utils/timeseries"
	"github.com/shpandrak/shpanstream/utils/timeseries/tsquery"
	"github.com/shpandrak/shpanstream/utils/timeseries/tsquery/report"
)

// C09: sorted-stream joins over tagged elements (key, tag); comparators look at the key only, the globally unique
// tag makes "which element was paired" observable.
//
// case := "<variant> | <in> | <in> ..."   in := "-" | "key:tag,key:tag,..."
// variant := j2i | j2l | jni | jnl | jnf | tsi | tsl | tsf | dsi:W | dsl:W | dsf:W   (W = fields per source, "2,1,3")
// obs := "ok <rows>" | "err <class> <rows delivered before the error>"   (format: lean/ShpanVerif/Drive/C09.lean)

// c09Time maps a key to its timestamp: neighbouring keys are 250 microseconds apart (inside one millisecond, so a
// comparison at a coarser granularity than the instant itself confuses them), around 2024-03-01T12:00Z.
const c09Base = int64(1709294400) * 1000000000

var c09Locs = []*time.Location{time.UTC, time.FixedZone("p2", 7200), time.FixedZone("m530", -19800)}

func c09Time(k int64) time.Time { return time.Unix(0, c09Base+k*250000) }

func init() {
	Register("C09", Family{Gen: genC09, Exec: execC09})
}

var c09StreamIdx = regexp.MustCompile(`stream (\d+) is not sorted`)

func c09ErrClass(err error) string {
	msg := err.Error()
	switch {
	case errors.Is(err, context.Canceled) || errors.Is(err, context.DeadlineExceeded):
		return "ctx"
	case strings.Contains(msg, "left stream is not sorted"):
		return "left-unsorted"
	case strings.Contains(msg, "right stream is not sorted"):
		return "right-unsorted"
	}
	if m := c09StreamIdx.FindStringSubmatch(msg); m != nil {
		return "stream-unsorted:" + m[1]
	}
	return "other:" + strings.ReplaceAll(strings.ReplaceAll(msg, " ", "_"), "\n", "_")
}

func c09Rows(rows []string) string {
	if len(rows) == 0 {
		return "-"
	}
	return strings.Join(rows, ";")
}

func c09Slot(p *kt) string {
	if p == nil {
		return "_"
	}
	return fmt.Sprintf("%d:%d", p.K, p.T)
}

func c09Tag(p *int) string {
	if p == nil {
		return "_"
	}
	return strconv.Itoa(*p)
}

// c09Consume pulls the stream to its end, keeping the rows delivered before an error.
// The rows are kept as delivered and turned into text only after the stream has ended: a row (or a pointer / slice in it)
// that the join goes on writing to after handing it out shows its later contents.
func c09Consume[T any](ctx context.Context, s stream.Stream[T], f func(T) string) string {
	var kept []T
	err := s.Consume(ctx, func(v T) { kept = append(kept, v) })
	rows := make([]string, len(kept))
	for i, v := range kept {
		rows[i] = f(v)
	}
	if err != nil {
		return "err " + c09ErrClass(err) + " " + c09Rows(rows)
	}
	return "ok " + c09Rows(rows)
}

// c09Timeouts counts the cases that ran into their watchdog: the inputs are tiny and a join that does not end on one of
// them will not end on the next thousand either (each would cost its full watchdog time).
var c09Timeouts int

func execC09(caseText string) (obs string) {
	if c09Timeouts >= 5 {
		return "not-run-after-5-timeouts"
	}
	done := make(chan string, 1)
	ctx, cancel := context.WithTimeout(context.Background(), 3*time.Second)
	defer cancel()
	start := time.Now()
	go func() {
		defer func() {
			if r := recover(); r != nil {
				done <- "panic " + strings.ReplaceAll(fmt.Sprint(r), " ", "_")
			}
		}()
		done <- execC09Inner(ctx, caseText)
	}()
	select {
	case o := <-done:
		if time.Since(start) >= 3*time.Second {
			c09Timeouts++
			return "timeout " + o
		}
		return o
	case <-time.After(10 * time.Second):
		c09Timeouts++
		return "hang"
	}
}

func execC09Inner(ctx context.Context, caseText string) string {
	parts := strings.Split(caseText, " | ")
	variant := strings.TrimSpace(parts[0])
	var ins [][]kt
	for _, p := range parts[1:] {
		l, err := parseKts(strings.TrimSpace(p))
		if err != nil {
			return "bad-case"
		}
		ins = append(ins, l)
	}
	keyOf := func(e kt) int64 { return e.K }
	cmpKt := func(a, b kt) int { return cmp.Compare(a.K, b.K) }
	cmpKey := cmp.Compare[int64]
	// "<variant>D": the same join under a comparator that answers scaled differences (shpanstream.Comparator is any
	// func(a, b) int: only the sign may matter)
	if strings.HasSuffix(variant, "D") && (strings.HasPrefix(variant, "j2") || strings.HasPrefix(variant, "jn")) {
		variant = strings.TrimSuffix(variant, "D")
		cmpKey = func(a, b int64) int { return int(3 * (a - b)) }
		cmpKt = func(a, b kt) int { return int(3 * (a.K - b.K)) }
	}
	streams := make([]stream.Stream[kt], len(ins))
	for i, l := range ins {
		streams[i] = stream.Just(l...)
	}
	switch {
	case variant == "j2i" || variant == "j2l":
		if len(ins) != 2 {
			return "bad-case"
		}
		if variant == "j2i" {
			s := stream.JoinSortedStreams(streams[0], streams[1], keyOf, keyOf, cmpKey)
			return c09Consume(ctx, s, func(t shpanstream.Tuple2[kt, kt]) string {
				return c09Slot(&t.A) + "+" + c09Slot(&t.B)
			})
		}
		s := stream.LeftJoinSortedStreams(streams[0], streams[1], keyOf, keyOf, cmpKey)
		return c09Consume(ctx, s, func(t shpanstream.Tuple2[kt, *kt]) string {
			return c09Slot(&t.A) + "+" + c09Slot(t.B)
		})
	case variant == "jni":
		s := stream.JoinMultipleSortedStreams(streams, cmpKt, func(values []kt) func() string {
			return func() string { // the joiner keeps the slice it was given
				sl := make([]string, len(values))
				for i := range values {
					sl[i] = c09Slot(&values[i])
				}
				return strings.Join(sl, "+")
			}
		})
		return c09Consume(ctx, s, func(r func() string) string { return r() })
	case variant == "jnl":
		s := stream.LeftJoinMultipleSortedStreams(streams, cmpKt, func(left kt, others []*kt) func() string {
			return func() string { // the joiner keeps the slice and the pointers it was given
				sl := []string{c09Slot(&left)}
				for _, o := range others {
					sl = append(sl, c09Slot(o))
				}
				return strings.Join(sl, "+")
			}
		})
		return c09Consume(ctx, s, func(r func() string) string { return r() })
	case variant == "jnf":
		s := stream.FullJoinMultipleSortedStreams(streams, cmpKt, func(values []*kt) func() string {
			return func() string {
				sl := make([]string, len(values))
				for i, o := range values {
					sl[i] = c09Slot(o)
				}
				return strings.Join(sl, "+")
			}
		})
		return c09Consume(ctx, s, func(r func() string) string { return r() })
	case variant == "tsi" || variant == "tsl" || variant == "tsf":
		tss := make([]stream.Stream[timeseries.TsRecord[int]], len(ins))
		for i, l := range ins {
			recs := make([]timeseries.TsRecord[int], len(l))
			for j, e := range l {
				recs[j] = timeseries.TsRecord[int]{Timestamp: c09Time(e.K), Value: e.T}
			}
			tss[i] = stream.Just(recs...)
		}
		// input i carries its instants in location i mod 3 (UTC, +02:00, -05:30): equal instants must meet whatever the
		// representation; the joiners keep what they were given and are read after the stream has ended
		locs := c09Locs
		for i, l := range ins {
			recs := make([]timeseries.TsRecord[int], len(l))
			for j, e := range l {
				recs[j] = timeseries.TsRecord[int]{Timestamp: c09Time(e.K).In(locs[i%3]), Value: e.T}
			}
			tss[i] = stream.Just(recs...)
		}
		var s stream.Stream[timeseries.TsRecord[func() string]]
		switch variant {
		case "tsi":
			s = timeseries.InnerJoinStreams(tss, func(values []int) func() string {
				return func() string {
					sl := make([]string, len(values))
					for i, v := range values {
						sl[i] = strconv.Itoa(v)
					}
					return strings.Join(sl, "+")
				}
			})
		case "tsl":
			s = timeseries.LeftJoinStreams(tss, func(left int, others []*int) func() string {
				return func() string {
					sl := []string{strconv.Itoa(left)}
					for _, o := range others {
						sl = append(sl, c09Tag(o))
					}
					return strings.Join(sl, "+")
				}
			})
		default:
			s = timeseries.FullJoinStreams(tss, func(values []*int) func() string {
				return func() string {
					sl := make([]string, len(values))
					for i, o := range values {
						sl[i] = c09Tag(o)
					}
					return strings.Join(sl, "+")
				}
			})
		}
		return c09Consume(ctx, s, func(r timeseries.TsRecord[func() string]) string {
			return fmt.Sprintf("%d@%s", r.Timestamp.UnixNano(), r.Value())
		})
	case strings.HasPrefix(variant, "dsi:") || strings.HasPrefix(variant, "dsl:") || strings.HasPrefix(variant, "dsf:"):
		var widths []int
		for _, w := range strings.Split(variant[4:], ",") {
			if variant[4:] == "-" {
				break
			}
			n, err := strconv.Atoi(w)
			if err != nil || n < 1 {
				return "bad-case"
			}
			widths = append(widths, n)
		}
		if len(widths) != len(ins) {
			return "bad-case"
		}
		var dss []report.DataSource
		for i, l := range ins {
			w := widths[i]
			metas := make([]tsquery.FieldMeta, w)
			for j := 0; j < w; j++ {
				fm, err := tsquery.NewFieldMeta(fmt.Sprintf("s%df%d", i, j), tsquery.DataTypeInteger, true)
				if err != nil {
					return "err other:fieldmeta"
				}
				metas[j] = *fm
			}
			// all rows of one source are windows of ONE backing array (as a columnar batch would hand them out):
			// a joiner that appends into a source row's spare capacity overwrites the next row (defect D17, repaired)
			backing := make([]any, len(l)*w)
			recs := make([]timeseries.TsRecord[[]any], len(l))
			for r, e := range l {
				for j := 0; j < w; j++ {
					backing[r*w+j] = int64(8*e.T + j)
				}
				recs[r] = timeseries.TsRecord[[]any]{Timestamp: c09Time(e.K).In(c09Locs[i%3]), Value: backing[r*w : (r+1)*w]}
			}
			ds, err := report.NewStaticDatasource(metas, stream.Just(recs...))
			if err != nil {
				return "err other:static"
			}
			dss = append(dss, ds)
		}
		jt := report.InnerJoin
		switch variant[:3] {
		case "dsl":
			jt = report.LeftJoin
		case "dsf":
			jt = report.FullJoin
		}
		res, err := report.NewJoinDatasource(report.NewListMultiDatasource(dss), jt).
			Execute(ctx, time.Unix(-1<<40, 0), time.Unix(1<<40, 0))
		if err != nil {
			return "err " + c09ErrClass(err) + " -"
		}
		return c09Consume(ctx, res.Stream(), func(r timeseries.TsRecord[[]any]) string {
			cells := make([]string, len(r.Value))
			for i, c := range r.Value {
				switch v := c.(type) {
				case nil:
					cells[i] = "n"
				case int64:
					cells[i] = strconv.FormatInt(v, 10)
				default:
					cells[i] = fmt.Sprintf("?%T", c)
				}
			}
			return fmt.Sprintf("%d@%s", r.Timestamp.UnixNano(), strings.Join(cells, ","))
		})
	}
	return "bad-case"
}

// ---- generation ----

var c09NVariants = []string{"jni", "jnl", "jnf", "tsi", "tsl", "tsf", "dsi", "dsl", "dsf"}

// c09Emit tags the key sequences with globally unique tags and emits one case.
func c09Emit(c *Ctx, variant string, keys [][]int64) {
	nonEmpty := 0
	parts := []string{variant}
	if strings.HasPrefix(variant, "ds") {
		// widths: deterministic in the shape of the case (1..3), so that padding of every side is observable
		ws := make([]string, len(keys))
		for i := range keys {
			ws[i] = strconv.Itoa(1 + (i+len(keys[i]))%3)
		}
		parts[0] = variant + ":" + strings.Join(ws, ",")
		if len(keys) == 0 {
			parts[0] = variant + ":-"
		}
	}
	tag := 0
	for _, ks := range keys {
		l := make([]kt, len(ks))
		for j, k := range ks {
			l[j] = kt{k, tag}
			tag++
		}
		if len(l) > 0 {
			nonEmpty++
		}
		parts = append(parts, fmtKts(l))
	}
	// non-trivial: at least two non-empty inputs (something to pair)
	c.Case(nonEmpty >= 2, strings.Join(parts, " | "))
}

// c09Seqs enumerates all sequences over keys 0..maxKey up to length maxLen; mode 0 = strictly increasing,
// 1 = non-decreasing, 2 = any order.
func c09Seqs(maxKey int64, maxLen int, mode int) [][]int64 {
	var out [][]int64
	var build func(cur []int64)
	build = func(cur []int64) {
		out = append(out, append([]int64(nil), cur...))
		if len(cur) >= maxLen {
			return
		}
		for k := int64(0); k <= maxKey; k++ {
			if len(cur) > 0 {
				last := cur[len(cur)-1]
				if (mode == 0 && k <= last) || (mode == 1 && k < last) {
					continue
				}
			}
			build(append(cur, k))
		}
	}
	build(nil)
	return out
}

func c09RandSorted(r *Rng, ln int, strict bool, keyStep int) []int64 {
	out := make([]int64, 0, ln)
	cur := int64(r.Range(-3, 3))
	for i := 0; i < ln; i++ {
		if i > 0 {
			step := int64(r.Intn(keyStep + 1))
			if strict && step == 0 {
				step = 1
			}
			cur += step
		}
		out = append(out, cur)
	}
	return out
}

// c09Break makes a sorted sequence malformed: swap two neighbours, drop in a small key, or duplicate an element.
func c09Break(r *Rng, s []int64) []int64 {
	out := append([]int64(nil), s...)
	if len(out) == 0 {
		return []int64{1, 0}
	}
	i := r.Intn(len(out))
	switch r.Intn(3) {
	case 0:
		if i+1 < len(out) {
			out[i], out[i+1] = out[i+1], out[i]
		} else {
			out = append(out, out[i]-1)
		}
	case 1:
		out = append(out[:i+1], append([]int64{out[i] - int64(r.Range(1, 4))}, out[i+1:]...)...)
	default:
		out = append(out[:i+1], append([]int64{out[i]}, out[i+1:]...)...)
	}
	return out
}

func genC09(c *Ctx) {
	strict := c09Seqs(3, 4, 0)            // the 16 strictly increasing sequences over {0,1,2,3}
	nondec := c09Seqs(3, c.Pick(5, 6), 1) // non-decreasing (left input of the two-stream joins)
	nondecShort := c09Seqs(3, c.Pick(3, 4), 1)
	anyOrder := c09Seqs(2, 3, 2) // every sequence over {0,1,2} up to length 3 (malformed stream)

	// ---- exhaustive small scope, sorted inputs ----
	// two-stream joins: every non-decreasing left × every strictly increasing right
	for _, v := range []string{"j2i", "j2l", "j2iD", "j2lD"} {
		for _, l := range nondec {
			for _, r := range strict {
				c09Emit(c, v, [][]int64{l, r})
			}
		}
	}
	// the N-stream joins under a difference comparator: all pairs and triples over {0..3} (keys up to 3 apart)
	for _, v := range []string{"jniD", "jnlD", "jnfD"} {
		for _, a := range strict {
			for _, b := range strict {
				c09Emit(c, v, [][]int64{a, b})
				for _, d := range strict {
					c09Emit(c, v, [][]int64{a, b, d})
				}
			}
		}
	}
	// N-stream joins + wrappers + datasource: no input, one input, all pairs and all triples of strictly increasing inputs
	for _, v := range c09NVariants {
		c09Emit(c, v, nil)
		for _, a := range strict {
			c09Emit(c, v, [][]int64{a})
			for _, b := range strict {
				c09Emit(c, v, [][]int64{a, b})
				for _, d := range strict {
					c09Emit(c, v, [][]int64{a, b, d})
				}
			}
		}
	}
	// left joins also take duplicate keys on every side (the hypotheses of C09_joinN_left)
	for _, v := range []string{"jnl", "tsl", "dsl"} {
		for _, a := range nondecShort {
			for _, b := range nondecShort {
				c09Emit(c, v, [][]int64{a, b})
				if len(a)+len(b) <= c.Pick(3, 4) {
					for _, d := range nondecShort {
						if len(d) <= 2 {
							c09Emit(c, v, [][]int64{a, b, d})
						}
					}
				}
			}
		}
	}
	if c.Thorough {
		// five keys: every pair and triple of the 32 strictly increasing sequences over {0..4}; two-stream joins likewise
		s5 := c09Seqs(4, 5, 0)
		for _, v := range c09NVariants {
			for _, a := range s5 {
				for _, b := range s5 {
					c09Emit(c, v, [][]int64{a, b})
					for _, d := range s5 {
						c09Emit(c, v, [][]int64{a, b, d})
					}
				}
			}
		}
		nd5 := c09Seqs(4, 5, 1)
		for _, v := range []string{"j2i", "j2l"} {
			for _, l := range nd5 {
				for _, r := range s5 {
					c09Emit(c, v, [][]int64{l, r})
				}
			}
		}
		// four inputs over {0,1,2}
		s3 := c09Seqs(2, 3, 0)
		for _, v := range c09NVariants {
			for _, a := range s3 {
				for _, b := range s3 {
					for _, d := range s3 {
						for _, e := range s3 {
							c09Emit(c, v, [][]int64{a, b, d, e})
						}
					}
				}
			}
		}
	}

	// ---- exhaustive small scope, malformed stream (unsorted / duplicate keys): model and code must still agree ----
	for _, v := range []string{"j2i", "j2l", "jni", "jnl", "jnf"} {
		for _, a := range anyOrder {
			for _, b := range anyOrder {
				c09Emit(c, v, [][]int64{a, b})
			}
		}
	}
	short := c09Seqs(2, 2, 2)
	for _, v := range c09NVariants {
		for _, a := range short {
			for _, b := range short {
				for _, d := range short {
					c09Emit(c, v, [][]int64{a, b, d})
				}
			}
		}
	}

	// ---- seeded random, longer ----
	n := c.Pick(4000, 400000)
	for i := 0; i < n; i++ {
		step := c.Rng.Range(1, 4)
		maxLen := 12
		if c.Rng.Intn(8) == 0 {
			maxLen = 60
		}
		malformed := c.Rng.Intn(5) == 0
		if c.Rng.Intn(3) == 0 {
			v := []string{"j2i", "j2l", "j2iD", "j2lD"}[c.Rng.Intn(4)]
			l := c09RandSorted(c.Rng, c.Rng.Small(maxLen), false, step)
			r := c09RandSorted(c.Rng, c.Rng.Small(maxLen), true, step)
			if malformed {
				if c.Rng.Bool() {
					l = c09Break(c.Rng, l)
				} else {
					r = c09Break(c.Rng, r)
				}
			}
			c09Emit(c, v, [][]int64{l, r})
			continue
		}
		v := c09NVariants[c.Rng.Intn(len(c09NVariants))]
		if v[0] == 'j' && c.Rng.Intn(3) == 0 {
			v += "D"
		}
		k := c.Rng.Range(1, 5)
		keys := make([][]int64, k)
		for j := range keys {
			keys[j] = c09RandSorted(c.Rng, c.Rng.Small(maxLen), true, step)
		}
		if v[2] == 'l' && c.Rng.Intn(3) == 0 {
			keys[0] = c09RandSorted(c.Rng, c.Rng.Small(maxLen), false, step)
		}
		if malformed {
			j := c.Rng.Intn(k)
			keys[j] = c09Break(c.Rng, keys[j])
		}
		c09Emit(c, v, keys)
	}
}
