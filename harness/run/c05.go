package run

import (
	"fmt"
	"os"
	"strconv"
	"strings"
)

// C05 (sequential part): pipelines are lazy and pull no more than they need.
// Long sources under prefix-only terminals; the observation carries the number of Emit calls per source and
// the number of probe events seen before the terminal operation started (must be 0).
func init() {
	Register("C05", Family{
		Gen: func(c *Ctx) {
			genC05(c)
			genPipeDynSweep(c, []string{"cancel"}, 300, 5000) // FlatMap family: fault-free + cancel at every position (pipedyn.go)
			// asynchronous clause: run-ahead of Buffered / concurrent map (cases "A ...", concurrency family)
			GenC05Async(c)
			// tsquery clause: planning with Execute/Filter opens and pulls nothing (cases "Q ...", query family)
			GenC05Query(c)
			genC05Demand(c)
			// broken-out Iterator loops: pulls = elements seen
			for _, src := range []string{"1,2,3,4,5,6,7,8,9,10,11,12", "5", "-", "3,1,2!e3"} {
				for _, idx := range []string{"idx=0", "idx=1"} {
					for _, b := range []string{"-", "0", "1", "3", "11", "20"} {
						c.Case(b != "-", fmt.Sprintf("L iter %s break=%s %s", idx, b, src))
					}
				}
			}
		},
		Exec: func(caseText string) string {
			if strings.HasPrefix(caseText, "A ") {
				// run in-process (the concurrency family's per-case child process is for crash isolation of
				// worker-goroutine panics, which these fault-free run-ahead cases do not need)
				os.Setenv("VERIF_CONC_INPROC", "1")
				return ExecC05Async(caseText)
			}
			if strings.HasPrefix(caseText, "Q ") {
				return ExecC05Query(caseText)
			}
			if strings.HasPrefix(caseText, "T ") {
				return execC05Demand(caseText)
			}
			if strings.HasPrefix(caseText, "L ") {
				// Iterator / IndexedIterator loops with a break (executor and model shared with C04's second part): the
				// observation carries how many elements the loop made the source hand out
				return ExecC04Ext(caseText)
			}
			return execPipeOrDyn(caseText) // DYN cases: FlatMap family (pipedyn.go)
		},
	})
}

func longInts(n, dupEvery int) string {
	parts := make([]string, n)
	v := 0
	for i := 0; i < n; i++ {
		if dupEvery == 0 || i%dupEvery != 0 {
			v++
		}
		parts[i] = strconv.Itoa(v)
	}
	return strings.Join(parts, ",")
}

func genC05(c *Ctx) {
	long := longInts(40, 3)
	long2 := longInts(25, 0)
	unary := []string{
		"map add:1", "filter mod:2:0", "filter mod:3:1", "filter lt:5", "limit 3", "limit 100", "skip 2", "skip 50",
		"window 3 1 0", "window 3 3 0", "window 4 2 1", "window 2 1 1",
		"cluster 2 first", "cluster 3 sum", "cluster 2 firstk:1", "cluster 5 none", "cluster 2 firstprev",
		"lc 7", "limit 2 skip 3", "skip 1 limit 4", "filter mod:2:1 window 2 1 0", "map sum window 2 2 0",
		"cluster 2 first filter mod:2:0", "limit 2 cluster 3 sum", "window 2 1 0 map sum cluster 2 first",
	}
	terms := []string{"collect take:1 nofault", "collect take:2 nofault", "collect take:3 nofault", "collect take:0 nofault", "user take:1 nofault", "collect all nofault"}
	for _, u := range unary {
		for _, t := range terms {
			c.Case(true, fmt.Sprintf("%s src 0 %s || %s", u, long, t))
		}
	}
	for _, k := range []string{"concat", "zip", "merge"} {
		for _, t := range terms {
			c.Case(true, fmt.Sprintf("%s 2 src 0 %s src 1 %s || %s", k, long, long2, t))
			c.Case(true, fmt.Sprintf("%s 3 src 0 1,2 skip 1 src 1 %s filter mod:2:0 src 2 %s || %s", k, long2, long, t))
			c.Case(true, fmt.Sprintf("limit 4 %s 2 window 2 1 0 src 0 %s map sum window 3 3 0 src 1 %s || %s", k, long, long2, t))
		}
	}
	n := c.Pick(4000, 60000)
	for i := 0; i < n; i++ {
		g := &pgen{rng: c.Rng, srcMax: 30}
		txt, _ := g.pipe(c.Rng.Range(1, 4))
		c.Case(len(txt) > 14, txt+" || "+terms[c.Rng.Intn(len(terms))])
	}
}
