package run

import (
	"fmt"
	"strconv"
	"strings"
)

// C01 / C03: every single fault (error / panic(error) / panic(value) / cancel) at every call position of the
// fault-free run, for generated pipelines and terminals.
func init() {
	Register("C01", Family{Gen: func(c *Ctx) {
		genFaults(c, []string{"err", "perr", "pval", "cancel"})
		genPipeDyn(c, []string{"err", "perr", "pval", "cancel"}) // FlatMap family (pipedyn.go)
		genJoinLife(c, []string{"err", "perr", "pval", "cancel"}) // lifecycle of the joins (joinlife.go)
	}, Exec: execPipeDynJL})
	Register("C03", Family{Gen: func(c *Ctx) {
		genFaults(c, []string{"err", "perr", "pval", "eoferr", "peof", "errctx"})
		genPipeDyn(c, []string{"err", "perr", "pval", "eoferr", "peof", "errctx"}) // FlatMap family (pipedyn.go)
		genJoinLife(c, []string{"err", "perr", "pval", "eoferr", "peof", "errctx"}) // lifecycle of the joins (joinlife.go)
	}, Exec: execPipeDynJL})
}

// callsOf runs the case fault-free and returns the number of call positions of its (single) run.
func callsOf(caseText string) int {
	obs := execPipe(caseText)
	i := strings.Index(obs, "calls=")
	if i < 0 {
		return 0
	}
	rest := obs[i+6:]
	j := strings.IndexByte(rest, ' ')
	n, _ := strconv.Atoi(rest[:j])
	return n
}

func faultSweep(c *Ctx, pipe, term string, kinds []string, nontrivial bool) {
	base := pipe + " || " + term + " nofault"
	n := callsOf(base)
	c.Case(nontrivial, base)
	for pos := 0; pos < n; pos++ {
		for _, k := range kinds {
			c.Case(nontrivial, fmt.Sprintf("%s || %s %s@%d", pipe, term, k, pos))
		}
	}
}

func genFaults(c *Ctx, kinds []string) {
	terms := []string{"collect all", "user all", "collect take:1", "user take:2", "collect take:0"}
	// structured: each composite operator over probe sources wrapped in lifecycles, every fault position
	fixed := []string{
		"lc 2 lc 1 src 0 1,2",
		"lc 1 map add:1 lc 2 filter mod:2:0 src 0 1,2,3",
		"limit 2 skip 1 lc 1 src 0 1,2,3,4",
		"concat 3 lc 3 src 0 1 src 1 - lc 4 src 2 2,3",
		"zip 2 lc 2 src 0 1,2 lc 3 src 1 3",
		"merge 3 src 0 1,3 lc 3 src 1 2 src 2 -",
		"window 2 1 0 lc 1 src 0 1,2,3",
		"cluster 2 first lc 1 src 0 0,1,2,3,5",
		"cluster 2 sum src 0 0,1,2",
		"cluster 1 firstprev lc 1 src 0 1,1,2",
		"lc 9 concat 2 zip 2 src 0 1,2 src 1 3,4 lc 8 cluster 2 firstk:1 src 2 0,1,2",
		"merge 2 concat 2 src 0 1 src 1 3 lc 5 window 2 2 0 src 2 2,4",
		"map sum window 2 1 0 concat 2 lc 4 src 0 1 lc 5 src 1 2,3",
		"concat 2 limit 0 lc 1 src 0 1 lc 2 src 1 2",
		"window 2 3 0 lc 1 src 0 1",
	}
	for _, p := range fixed {
		for _, t := range terms {
			faultSweep(c, p, t, kinds, true)
		}
	}
	// value terminals built on Consume (FindFirstAndLast, FindLast, Count): a fault at any position - before the first
	// element, between elements, after the last - must come back as the error, never as "empty" or as a value
	for _, p := range fixed {
		for _, t := range []string{"ffl all", "flast all", "count all"} {
			faultSweep(c, p, t, kinds, true)
		}
	}
	// the same stream VALUE materialised again (and a third time) after runs that ended in every way: every
	// materialisation closes what it opened exactly once, whatever the composite kept from the runs before
	hEnds := []string{"collect all nofault", "collect take:1 nofault", "user all err@2", "collect all cancel@1", "user all perr@1", "collect all pval@0"}
	for _, p := range fixed {
		for _, e1 := range hEnds {
			c.Case(true, strings.Join([]string{p, e1, "collect all nofault"}, " || "))
			c.Case(true, strings.Join([]string{p, e1, "collect take:1 nofault", "user all err@1", "collect all nofault"}, " || "))
		}
	}
	// asynchronous stages (Buffered, concurrent map, concurrent consume): every fault position as well; the
	// observation is taken after the library's goroutines have quiesced. Order across goroutines is schedule
	// dependent, so these cases are decided by the spec predicate only (no comparison with the sequential model).
	asyncPipes := []string{
		"buffered 2 lc 1 src 0 1,2,3",
		"buffered 3 map add:1 lc 1 src 0 1,2,3,4,5,6",
		"lc 2 buffered 4 lc 1 src 0 1,2",
		"cmap 2 add:1 lc 1 src 0 1,2,3,4",
		"cmap 1 mul:2 src 0 1,2,3",
		"cmap 3 add:1 concat 2 lc 2 src 0 1,2 src 1 3",
		"buffered 2 cmap 2 add:1 lc 1 src 0 1,2,3",
		"filter mod:2:0 buffered 3 src 0 1,2,3,4,5,6,7,8",
		// a lifecycle element AFTER an asynchronous stage, source longer than the buffers: when its Open fails the
		// already started goroutines must be released (materialisation ctx cancelled) and the source closed
		"lc 2 buffered 2 lc 1 src 0 1,2,3,4,5,6",
		"lc 2 cmap 1 add:1 lc 1 src 0 1,2,3,4,5,6,7,8",
		"lc 3 buffered 2 cmap 1 add:1 src 0 1,2,3,4,5,6,7,8",
		"zip 2 buffered 2 src 0 1,2,3 buffered 3 lc 2 src 1 4,5,6",
	}
	asyncTerms := []string{"collect all", "user all", "collect take:1", "cuser:2 all", "collect take:3"}
	rounds := c.Pick(1, 4)
	for r := 0; r < rounds; r++ {
		for _, p := range asyncPipes {
			for _, t := range asyncTerms {
				faultSweep(c, "ASYNC "+p, t, kinds, true)
			}
		}
	}
	// operators outside the Lean model, named by the properties' quantifier: joins, collector-backed streams,
	// timeseries / tsquery pipelines, JSON providers, FromIterator. Sequential, so every fault position is on the
	// demand path; decided by the spec predicate on the real code (SPEC cases).
	specPipes := []string{
		// close-only lifecycle elements (NewLifecycle(nil, close), NewSimpleStream(f, WithCloseFuncOption)): closed exactly
		// once whenever they were (trivially) opened, on every exit path and under composites
		"dirfile", "rdirfile", "concat 2 lc 1 src 0 1 dirfile", "zip 2 lc 1 src 0 1,2 rdirfile",
		"lcc 201 lc 1 src 0 1,2,3",
		"lc 2 lcc 201 src 0 1,2,3",
		"map add:1 srcc 202 1,2,3",
		"zip 2 lcc 201 src 0 1,2 srcc 202 3,4",
		"concat 2 srcc 202 1,2 lcc 201 src 0 3",
		"jinner 2 lc 2 src 0 1,2,3 lc 3 src 1 2,3,4",
		"jleft 3 src 0 1,2,3 lc 4 src 1 2,4 src 2 -",
		"jfull 2 lc 2 src 0 1,3 src 1 2,3",
		"join2 lc 2 src 0 1,2,2,3 lc 3 src 1 2,3",
		"ljoin2 src 0 1,2,3 lc 3 src 1 2",
		"limit 2 jfull 3 src 0 1,4 src 1 2,5 lc 5 src 2 3,6",
		"sample 2 lc 1 src 0 1,2,3,4",
		"lc 2 sample 3 map add:1 lc 1 src 0 1,2",
		"concat 2 sample 1 lc 2 src 0 1,2 lc 3 src 1 3",
		"align 10 lc 1 src 0 1,2,11,12,25",
		"alignsum 10 lc 1 src 0 1,2,11,12,25",
		"adelta 10 lc 1 src 0 1,5,11,19,25",
		"gapfill 10 lc 1 src 0 1,2,31,45",
		"dsalign 10 lc 1 src 0 1,12,35",
		"lc 2 jsonarr 0 1,2,3",
		"concat 2 jsonarr 0 1,2 lc 3 jsonarr 1 -",
		"zip 2 jsonarr 0 1,2,3 lc 2 src 1 4,5",
		"lc 1 fromiter 1,2,3",
		"lc 1 map add:1 file 1,2,3",
		"concat 2 lc 1 file 1,2 rfile 3,4",
		"zip 2 file 1,2,3 lc 2 src 0 4,5",
		"filter mod:2:0 lc 3 rfile 1,2,3,4",
		"merge 2 lc 1 fromiter 1,3 lc 2 fromiter 2,4",
		"cluster 10 sum align 5 lc 1 src 0 1,2,7,12,13",
	}
	for _, p := range specPipes {
		for _, t := range terms {
			faultSweep(c, "SPEC "+p, t, kinds, true)
		}
	}
	// provider-internal failures after a successful Open (malformed / truncated JSON element) and iterator sources
	// that hold a resource while iterating, also across several materialisations of one stream value
	for _, p := range []string{"lc 2 jsonbad 0 0", "jsonbad 0 1", "concat 2 jsonbad 0 0 lc 3 src 1 5", "zip 2 jsonbad 0 0 jsonarr 1 7,8,9,10"} {
		for _, t := range terms {
			faultSweep(c, "SPEC "+p, t, kinds, true)
		}
	}
	for _, p := range []string{"lc 1 fromiterp 0 1,2,3", "merge 2 fromiterp 0 1,3 fromiterp 1 2,4", "concat 2 fromiterp 0 1,2 lc 3 fromiterp 1 3",
		"lc 1 fromiter2p 0 1,2,3", "zip 2 fromiter2p 0 1,2,3 fromiterp 1 4,5", "concat 2 fromiter2p 0 1,2 lc 3 fromiter2p 1 3"} {
		for _, t := range terms {
			faultSweep(c, "SPEC "+p, t, kinds, true)
		}
		ends := []string{"collect all nofault", "collect take:1 nofault", "user all err@2", "collect all cancel@2", "user all perr@1"}
		for _, e1 := range ends {
			for _, e2 := range ends {
				c.Case(true, "SPEC "+strings.Join([]string{p, e1, e2, "collect take:1 nofault"}, " || "))
			}
		}
	}
	n := c.Pick(250, 4000)
	for i := 0; i < n; i++ {
		g := &pgen{rng: c.Rng, srcMax: 5}
		txt, _ := g.pipe(c.Rng.Range(1, 4))
		if c.Rng.Intn(2) == 0 {
			txt = fmt.Sprintf("lc %d %s", g.id(), txt)
		}
		faultSweep(c, txt, terms[c.Rng.Intn(len(terms))], kinds, g.nextID >= 2)
	}
}
