package run

// C17, Q cases: report / datasource pipelines over ONE shared static source (see the grammar in c17.go).

import (
	"context"
	"fmt"
	"iter"
	"math"
	"reflect"
	"strconv"
	"strings"
	"time"

	"github.com/shpandrak/shpanstream/stream"
	"github.com/shpandrak/shpanstream/utils/timeseries"
	"github.com/shpandrak/shpanstream/utils/timeseries/tsquery"
	"github.com/shpandrak/shpanstream/utils/timeseries/tsquery/datasource"
	"github.com/shpandrak/shpanstream/utils/timeseries/tsquery/report"
)

// ---------------------------------------------------------------------------------------------
// case syntax
// ---------------------------------------------------------------------------------------------

// value expression: c<int> | r<idx> | n(v,v) nvl | p(v,v) numeric + | g(a,b,t,f) selector over a > b | k(v) cast int->dec->int
// | u<s|a|m|x|c>(<idx>+<idx>..) ReduceFieldValue (sum / avg cast back to integer / min / max / count) over the named
// columns, u<op>(*) over all columns the value sees
type c17Val struct {
	op   byte
	n    int
	args []c17Val
	red  byte  // 'u': reduction type
	idx  []int // 'u': the columns; nil = all
}

func c17Red(red byte, idx ...int) c17Val {
	return c17Val{op: 'u', red: red, idx: append([]int{}, idx...)}
}
func c17RedAll(red byte) c17Val { return c17Val{op: 'u', red: red} }

func c17C(n int) c17Val               { return c17Val{op: 'c', n: n} }
func c17Ref(i int) c17Val             { return c17Val{op: 'r', n: i} }
func c17Nvl(a, b c17Val) c17Val       { return c17Val{op: 'n', args: []c17Val{a, b}} }
func c17Plus(a, b c17Val) c17Val      { return c17Val{op: 'p', args: []c17Val{a, b}} }
func c17Sel(a, b, t, f c17Val) c17Val { return c17Val{op: 'g', args: []c17Val{a, b, t, f}} }
func c17Cast(a c17Val) c17Val         { return c17Val{op: 'k', args: []c17Val{a}} }
func c17StA(v c17Val) c17Stage        { return c17Stage{kind: 'A', vals: []c17Val{v}} }
func c17StS(vs ...c17Val) c17Stage    { return c17Stage{kind: 'S', vals: vs} }
func c17StR(i int, v c17Val) c17Stage { return c17Stage{kind: 'R', idx: []int{i}, vals: []c17Val{v}} }
func c17StF(v c17Val) c17Stage        { return c17Stage{kind: 'F', vals: []c17Val{v}} }
func c17StC(a, b c17Val) c17Stage     { return c17Stage{kind: 'C', vals: []c17Val{a, b}} }
func c17StB(i int, sub byte, p int) c17Stage {
	return c17Stage{kind: 'B', idx: []int{i}, sub: sub, per: p}
}
func c17StG(p int, sub byte) c17Stage { return c17Stage{kind: 'G', per: p, sub: sub} }

// stage kinds:
//
//	A<v> AppendField | S<v>+<v>.. SelectFields | D harness filter: drops the rows of odd seconds (hands rows on)
//	R<idx>=<v> ReplaceField (column idx) | O<idx> OverrideFieldMetadata (new urn; rows handed on)
//	X<idx>+<idx>.. DropFields | F<v> SingleField | C<v>,<v> Condition v > v (rows handed on)
//	B<idx>[d|r|a<p>|f<p>|l<p>] ToDatasource(column idx) -> [Delta | Rate + cast back to integer | datasource aligner
//	     (no fill / forward fill / linear), fixed period of p half seconds] -> FromDatasource
//	G<p>[f|l] report AlignerFilter, fixed period of p half seconds (no fill / forward fill / linear)
type c17Stage struct {
	kind byte
	vals []c17Val
	idx  []int
	sub  byte
	per  int
}

func c17ParseNat(s string, pos int) (int, int, bool) {
	end := pos
	for end < len(s) && s[end] >= '0' && s[end] <= '9' {
		end++
	}
	if end == pos || end-pos > 9 {
		return 0, pos, false
	}
	n, err := strconv.Atoi(s[pos:end])
	return n, end, err == nil
}

func c17ParseValAt(s string, pos int, depth int) (c17Val, int, bool) {
	if pos >= len(s) || depth > 12 {
		return c17Val{}, pos, false
	}
	op := s[pos]
	switch op {
	case 'c':
		p := pos + 1
		neg := false
		if p < len(s) && s[p] == '-' {
			neg = true
			p++
		}
		n, end, ok := c17ParseNat(s, p)
		if !ok {
			return c17Val{}, pos, false
		}
		if neg {
			n = -n
		}
		return c17C(n), end, true
	case 'r':
		n, end, ok := c17ParseNat(s, pos+1)
		if !ok {
			return c17Val{}, pos, false
		}
		return c17Ref(n), end, true
	case 'u':
		if pos+3 >= len(s) || !strings.ContainsRune("samxc", rune(s[pos+1])) || s[pos+2] != '(' {
			return c17Val{}, pos, false
		}
		red := s[pos+1]
		p := pos + 3
		if s[p] == '*' {
			if p+1 >= len(s) || s[p+1] != ')' {
				return c17Val{}, pos, false
			}
			return c17RedAll(red), p + 2, true
		}
		var idx []int
		for {
			n, end, ok := c17ParseNat(s, p)
			if !ok || end >= len(s) {
				return c17Val{}, pos, false
			}
			idx = append(idx, n)
			if s[end] == ')' {
				return c17Red(red, idx...), end + 1, true
			}
			if s[end] != '+' {
				return c17Val{}, pos, false
			}
			p = end + 1
		}
	case 'n', 'p', 'k', 'g':
		want := map[byte]int{'n': 2, 'p': 2, 'k': 1, 'g': 4}[op]
		p := pos + 1
		if p >= len(s) || s[p] != '(' {
			return c17Val{}, pos, false
		}
		p++
		var args []c17Val
		for i := 0; i < want; i++ {
			a, end, ok := c17ParseValAt(s, p, depth+1)
			if !ok {
				return c17Val{}, pos, false
			}
			args = append(args, a)
			p = end
			sep := byte(',')
			if i == want-1 {
				sep = ')'
			}
			if p >= len(s) || s[p] != sep {
				return c17Val{}, pos, false
			}
			p++
		}
		return c17Val{op: op, args: args}, p, true
	}
	return c17Val{}, pos, false
}

func c17ParseValFull(s string) (c17Val, bool) {
	v, end, ok := c17ParseValAt(s, 0, 0)
	return v, ok && end == len(s)
}

func c17ParseStage(t string) (c17Stage, bool) {
	if t == "" {
		return c17Stage{}, false
	}
	rest := t[1:]
	switch t[0] {
	case 'D':
		return c17Stage{kind: 'D'}, rest == ""
	case 'A', 'F':
		v, ok := c17ParseValFull(rest)
		return c17Stage{kind: t[0], vals: []c17Val{v}}, ok
	case 'S':
		var vs []c17Val
		pos := 0
		for {
			v, end, ok := c17ParseValAt(rest, pos, 0)
			if !ok {
				return c17Stage{}, false
			}
			vs = append(vs, v)
			if end == len(rest) {
				return c17Stage{kind: 'S', vals: vs}, true
			}
			if rest[end] != '+' {
				return c17Stage{}, false
			}
			pos = end + 1
		}
	case 'R':
		i, end, ok := c17ParseNat(rest, 0)
		if !ok || end >= len(rest) || rest[end] != '=' {
			return c17Stage{}, false
		}
		v, ok := c17ParseValFull(rest[end+1:])
		return c17StR(i, v), ok
	case 'O':
		i, end, ok := c17ParseNat(rest, 0)
		return c17Stage{kind: 'O', idx: []int{i}}, ok && end == len(rest)
	case 'X':
		var is []int
		for _, x := range strings.Split(rest, "+") {
			i, end, ok := c17ParseNat(x, 0)
			if !ok || end != len(x) {
				return c17Stage{}, false
			}
			is = append(is, i)
		}
		return c17Stage{kind: 'X', idx: is}, true
	case 'C':
		a, end, ok := c17ParseValAt(rest, 0, 0)
		if !ok || end >= len(rest) || rest[end] != ',' {
			return c17Stage{}, false
		}
		b, ok := c17ParseValFull(rest[end+1:])
		return c17StC(a, b), ok
	case 'B':
		i, end, ok := c17ParseNat(rest, 0)
		if !ok {
			return c17Stage{}, false
		}
		if end == len(rest) {
			return c17StB(i, 0, 0), true
		}
		sub := rest[end]
		switch sub {
		case 'd', 'r', 'o':
			return c17StB(i, sub, 0), end+1 == len(rest)
		case 'a', 'f', 'l':
			p, e2, ok := c17ParseNat(rest, end+1)
			return c17StB(i, sub, p), ok && e2 == len(rest) && p > 0
		}
		return c17Stage{}, false
	case 'G':
		p, end, ok := c17ParseNat(rest, 0)
		if !ok || p <= 0 {
			return c17Stage{}, false
		}
		switch rest[end:] {
		case "":
			return c17StG(p, 0), true
		case "f", "l":
			return c17StG(p, rest[end]), true
		}
		return c17Stage{}, false
	}
	return c17Stage{}, false
}

func c17ParseChain(s string) ([]c17Stage, bool) {
	s = strings.TrimSpace(s)
	if s == "-" {
		return nil, true
	}
	var out []c17Stage
	for _, t := range strings.Split(s, ".") {
		st, ok := c17ParseStage(t)
		if !ok {
			return nil, false
		}
		out = append(out, st)
	}
	return out, true
}

func c17FmtVal(v c17Val) string {
	switch v.op {
	case 'c':
		return "c" + strconv.Itoa(v.n)
	case 'r':
		return "r" + strconv.Itoa(v.n)
	case 'u':
		if v.idx == nil {
			return "u" + string(v.red) + "(*)"
		}
		is := make([]string, len(v.idx))
		for i, x := range v.idx {
			is[i] = strconv.Itoa(x)
		}
		return "u" + string(v.red) + "(" + strings.Join(is, "+") + ")"
	}
	parts := make([]string, len(v.args))
	for i, a := range v.args {
		parts[i] = c17FmtVal(a)
	}
	return string(v.op) + "(" + strings.Join(parts, ",") + ")"
}

func c17FmtStage(st c17Stage) string {
	vs := make([]string, len(st.vals))
	for j, v := range st.vals {
		vs[j] = c17FmtVal(v)
	}
	is := make([]string, len(st.idx))
	for j, i := range st.idx {
		is[j] = strconv.Itoa(i)
	}
	switch st.kind {
	case 'D':
		return "D"
	case 'A', 'F':
		return string(st.kind) + vs[0]
	case 'S':
		return "S" + strings.Join(vs, "+")
	case 'R':
		return "R" + is[0] + "=" + vs[0]
	case 'O':
		return "O" + is[0]
	case 'X':
		return "X" + strings.Join(is, "+")
	case 'C':
		return "C" + vs[0] + "," + vs[1]
	case 'B':
		s := "B" + is[0]
		if st.sub != 0 {
			s += string(st.sub)
			if st.per > 0 {
				s += strconv.Itoa(st.per)
			}
		}
		return s
	case 'G':
		s := "G" + strconv.Itoa(st.per)
		if st.sub != 0 {
			s += string(st.sub)
		}
		return s
	}
	return "?"
}

func c17FmtChain(ch []c17Stage) string {
	if len(ch) == 0 {
		return "-"
	}
	parts := make([]string, len(ch))
	for i, st := range ch {
		parts[i] = c17FmtStage(st)
	}
	return strings.Join(parts, ".")
}

// ---------------------------------------------------------------------------------------------
// building the real pipelines
// ---------------------------------------------------------------------------------------------

var c17Base = time.Unix(1_000_000, 0).UTC()

const c17Half = 500 * time.Millisecond

// half seconds since the base instant (all timestamps of a case are whole multiples)
func c17Halves(t time.Time) int64 { return int64(t.Sub(c17Base) / c17Half) }

func c17FloorDiv2(h int64) int64 {
	if h >= 0 || h%2 == 0 {
		return h / 2
	}
	return h/2 - 1
}

// harness-defined filter: drops the rows whose second (relative to the base instant) is odd; shares metadata and row
// slices as they are
type c17DropOdd struct{}

func (c17DropOdd) Filter(_ context.Context, result report.Result) (report.Result, error) {
	return report.NewResult(result.FieldsMeta(), result.Stream().Filter(func(r timeseries.TsRecord[[]any]) bool {
		sec := c17FloorDiv2(c17Halves(r.Timestamp))
		return ((sec%2)+2)%2 == 0
	})), nil
}

// Every stage object of a case (field values, filters, datasource filters) is made ONCE per distinct list of
// construction arguments and used wherever the case names it again: in both pipelines, on both sides of a join, in the
// post chains of both joins, in every execution.  A stage object is an immutable description, so sharing it must not
// change any result (the model has value semantics: two occurrences of a stage cannot be told apart).
type c17Pool struct {
	vals     map[string]report.Value
	filters  map[string]report.Filter
	dfilters map[string]datasource.Filter
	// the containers handed to the library's constructors, with the hash of everything reachable from them (unexported
	// fields, maps, spare capacity included) taken when they were made
	held []c17Held
}

type c17Held struct {
	obj  any
	hash uint64
}

func c17NewPool() *c17Pool {
	return &c17Pool{vals: map[string]report.Value{}, filters: map[string]report.Filter{}, dfilters: map[string]datasource.Filter{}}
}

func (p *c17Pool) hold(obj any) {
	p.held = append(p.held, c17Held{obj, c17HashOf(obj)})
}

// k bit: every construction-time object reads as it did when it was made
func (p *c17Pool) unchanged() bool {
	for _, h := range p.held {
		if c17HashOf(h.obj) != h.hash {
			return false
		}
	}
	return true
}

// the construction arguments of a value: refs / reduced columns by urn
func c17ValKey(sb *strings.Builder, v c17Val, avail []string) {
	sb.WriteByte(v.op)
	switch v.op {
	case 'c':
		sb.WriteString(strconv.Itoa(v.n))
	case 'r':
		if v.n >= 0 && v.n < len(avail) {
			sb.WriteString(avail[v.n])
		}
		sb.WriteByte(';')
	case 'u':
		sb.WriteByte(v.red)
		if v.idx == nil {
			sb.WriteByte('*')
		}
		for _, i := range v.idx {
			if i >= 0 && i < len(avail) {
				sb.WriteString(avail[i])
			}
			sb.WriteByte('+')
		}
		sb.WriteByte(';')
	default:
		sb.WriteByte('(')
		for _, a := range v.args {
			c17ValKey(sb, a, avail)
			sb.WriteByte(',')
		}
		sb.WriteByte(')')
	}
}

var c17RedTypes = map[byte]tsquery.ReductionType{'s': tsquery.ReductionTypeSum, 'a': tsquery.ReductionTypeAvg,
	'm': tsquery.ReductionTypeMin, 'x': tsquery.ReductionTypeMax, 'c': tsquery.ReductionTypeCount}

func c17Value(pool *c17Pool, v c17Val, avail []string) (report.Value, error) {
	var kb strings.Builder
	c17ValKey(&kb, v, avail)
	key := kb.String()
	if x, ok := pool.vals[key]; ok {
		return x, nil
	}
	x, err := c17MakeValue(pool, v, avail)
	if err != nil {
		return nil, err
	}
	pool.vals[key] = x
	return x, nil
}

func c17MakeValue(pool *c17Pool, v c17Val, avail []string) (report.Value, error) {
	var args []report.Value
	for _, a := range v.args {
		x, err := c17Value(pool, a, avail)
		if err != nil {
			return nil, err
		}
		args = append(args, x)
	}
	switch v.op {
	case 'u':
		rt, ok := c17RedTypes[v.red]
		if !ok {
			return nil, fmt.Errorf("bad reduction")
		}
		var red report.Value
		if v.idx == nil {
			red = report.NewReduceAllFieldValues(rt)
		} else {
			urns := make([]string, 0, len(v.idx)+2) // the caller's list, with spare capacity
			for _, i := range v.idx {
				if i < 0 || i >= len(avail) {
					return nil, fmt.Errorf("reduced column out of range")
				}
				urns = append(urns, avail[i])
			}
			pool.hold(urns)
			red = report.NewReduceFieldValues(urns, rt)
		}
		if v.red == 'a' {
			// the average of integers is a decimal: back to an integer (truncation)
			red = report.NewCastFieldValue(red, tsquery.DataTypeInteger)
		}
		return red, nil
	case 'c':
		return report.NewConstantFieldValue(tsquery.ValueMeta{DataType: tsquery.DataTypeInteger, Required: true}, int64(v.n)), nil
	case 'r':
		if v.n < 0 || v.n >= len(avail) {
			return nil, fmt.Errorf("ref out of range")
		}
		return report.NewRefFieldValue(avail[v.n]), nil
	case 'n':
		return report.NewNvlFieldValue(args[0], args[1]), nil
	case 'p':
		return report.NewNumericExpressionFieldValue(args[0], tsquery.BinaryNumericOperatorAdd, args[1]), nil
	case 'g':
		return report.NewSelectorFieldValue(
			report.NewConditionFieldValue(tsquery.ConditionOperatorGreaterThan, args[0], args[1]), args[2], args[3]), nil
	case 'k':
		return report.NewCastFieldValue(report.NewCastFieldValue(args[0], tsquery.DataTypeDecimal), tsquery.DataTypeInteger), nil
	}
	return nil, fmt.Errorf("bad value")
}

func c17Wrap(pool *c17Pool, ds report.DataSource, fs []report.Filter) report.DataSource {
	if len(fs) == 0 {
		return ds
	}
	// the filter list is the caller's slice (NewFilteredDataSource keeps it): exact capacity + two spare cells
	own := make([]report.Filter, len(fs), len(fs)+2)
	copy(own, fs)
	pool.hold(own)
	return report.NewFilteredDataSource(ds, own...)
}

func c17Period(p int) timeseries.AlignmentPeriod {
	return timeseries.NewFixedAlignmentPeriod(time.Duration(p)*c17Half, time.UTC)
}

func c17ValKeys(vals []c17Val, avail []string) string {
	var sb strings.Builder
	for _, v := range vals {
		c17ValKey(&sb, v, avail)
		sb.WriteByte('|')
	}
	return sb.String()
}

// c17Build puts the chain on top of ds; urns are the urns ds delivers (never written to); returns the result's urns.
// Filters are interned in the pool by their construction arguments (see c17Pool).
func c17Build(pool *c17Pool, ds report.DataSource, chain []c17Stage, urns []string, tag string) (report.DataSource, []string, error) {
	cur := append([]string(nil), urns...)
	var fs []report.Filter
	intern := func(key string, mk func() (report.Filter, error)) error {
		f, ok := pool.filters[key]
		if !ok {
			var err error
			if f, err = mk(); err != nil {
				return err
			}
			pool.filters[key] = f
		}
		fs = append(fs, f)
		return nil
	}
	dintern := func(key string, mk func() datasource.Filter) datasource.Filter {
		f, ok := pool.dfilters[key]
		if !ok {
			f = mk()
			pool.dfilters[key] = f
		}
		return f
	}
	for si, st := range chain {
		newUrn := fmt.Sprintf("%s%d", tag, si)
		for _, i := range st.idx {
			if i < 0 || i >= len(cur) {
				return nil, nil, fmt.Errorf("column out of range")
			}
		}
		var err error
		switch st.kind {
		case 'D':
			fs = append(fs, c17DropOdd{})
		case 'A':
			avail := cur
			err = intern("A"+c17ValKeys(st.vals, avail)+">"+newUrn, func() (report.Filter, error) {
				val, err := c17Value(pool, st.vals[0], avail)
				if err != nil {
					return nil, err
				}
				return report.NewAppendFieldFilter(val, tsquery.AddFieldMeta{Urn: newUrn}), nil
			})
			cur = append(append([]string(nil), cur...), newUrn)
		case 'S':
			var nu []string
			for j := range st.vals {
				nu = append(nu, fmt.Sprintf("%s%d_%d", tag, si, j))
			}
			all := append(append([]string(nil), cur...), nu...)
			base := len(cur)
			// (a ref may name an already selected field: value j sees all[:base+j])
			var kb strings.Builder
			kb.WriteString("S")
			for j, v := range st.vals {
				c17ValKey(&kb, v, all[:base+j])
				kb.WriteString(">" + nu[j] + "|")
			}
			err = intern(kb.String(), func() (report.Filter, error) {
				sel := make([]report.SelectedField, 0, len(st.vals)+2) // the caller's list, with spare capacity
				for j, v := range st.vals {
					val, err := c17Value(pool, v, all[:base+j])
					if err != nil {
						return nil, err
					}
					sel = append(sel, report.SelectedField{Value: val, Meta: tsquery.AddFieldMeta{Urn: nu[j]}})
				}
				pool.hold(sel)
				return report.NewSelectFieldsFilter(sel), nil
			})
			cur = nu
		case 'R':
			avail, old := cur, cur[st.idx[0]]
			err = intern("R"+old+"="+c17ValKeys(st.vals, avail)+">"+newUrn, func() (report.Filter, error) {
				val, err := c17Value(pool, st.vals[0], avail)
				if err != nil {
					return nil, err
				}
				return report.NewReplaceFieldFilter(old, val, tsquery.AddFieldMeta{Urn: newUrn}), nil
			})
			cur = append([]string(nil), cur...)
			cur[st.idx[0]] = newUrn
		case 'O':
			old := cur[st.idx[0]]
			err = intern("O"+old+">"+newUrn, func() (report.Filter, error) {
				u := newUrn
				cm := map[string]any{"o": int64(si), "urn": newUrn} // the caller's override map
				pool.hold(cm)
				return report.NewOverrideFieldMetadataFilter(old, &u, nil, cm), nil
			})
			cur = append([]string(nil), cur...)
			cur[st.idx[0]] = newUrn
		case 'X':
			drop := map[int]bool{}
			names := make([]string, 0, len(st.idx)+2) // the caller's list, with spare capacity
			for _, i := range st.idx {
				if drop[i] {
					return nil, nil, fmt.Errorf("column dropped twice")
				}
				drop[i] = true
				names = append(names, cur[i])
			}
			err = intern("X"+strings.Join(names, "+"), func() (report.Filter, error) {
				pool.hold(names)
				return report.NewDropFieldsFilter(names...), nil
			})
			var keep []string
			for i, u := range cur {
				if !drop[i] {
					keep = append(keep, u)
				}
			}
			cur = keep
		case 'F':
			avail := cur
			err = intern("F"+c17ValKeys(st.vals, avail)+">"+newUrn, func() (report.Filter, error) {
				val, err := c17Value(pool, st.vals[0], avail)
				if err != nil {
					return nil, err
				}
				return report.NewSingleFieldFilter(val, tsquery.AddFieldMeta{Urn: newUrn}), nil
			})
			cur = []string{newUrn}
		case 'C':
			avail := cur
			err = intern("C"+c17ValKeys(st.vals, avail), func() (report.Filter, error) {
				a, err := c17Value(pool, st.vals[0], avail)
				if err != nil {
					return nil, err
				}
				b, err := c17Value(pool, st.vals[1], avail)
				if err != nil {
					return nil, err
				}
				return report.NewConditionFilter(report.NewConditionFieldValue(tsquery.ConditionOperatorGreaterThan, a, b)), nil
			})
		case 'G':
			err = intern(fmt.Sprintf("G%d%c", st.per, st.sub), func() (report.Filter, error) {
				switch st.sub {
				case 'f':
					return report.NewInterpolatingAlignerFilter(c17Period(st.per), timeseries.FillModeForwardFill), nil
				case 'l':
					return report.NewInterpolatingAlignerFilter(c17Period(st.per), timeseries.FillModeLinear), nil
				}
				return report.NewAlignerFilter(c17Period(st.per)), nil
			})
		case 'B':
			urn := cur[st.idx[0]]
			single := report.ToDatasource(c17Wrap(pool, ds, fs), urn)
			dfs := make([]datasource.Filter, 0, 4) // the caller's list, with spare capacity
			out := urn
			switch st.sub {
			case 'd':
				dfs = append(dfs, dintern("d", func() datasource.Filter { return datasource.NewDeltaFilter(false, 0) }))
			case 'r':
				dfs = append(dfs, dintern("r", func() datasource.Filter { return datasource.NewRateFilter("", 1, false, 0) }),
					dintern("rk"+urn, func() datasource.Filter {
						return datasource.NewFieldValueFilter(
							datasource.NewCastFieldValue(datasource.NewRefFieldValue(), tsquery.DataTypeInteger),
							tsquery.AddFieldMeta{Urn: urn})
					}))
			case 'a':
				dfs = append(dfs, dintern(fmt.Sprintf("a%d", st.per), func() datasource.Filter { return datasource.NewAlignerFilter(c17Period(st.per)) }))
			case 'f':
				dfs = append(dfs, dintern(fmt.Sprintf("f%d", st.per), func() datasource.Filter {
					return datasource.NewInterpolatingAlignerFilter(c17Period(st.per), timeseries.FillModeForwardFill)
				}))
			case 'l':
				dfs = append(dfs, dintern(fmt.Sprintf("l%d", st.per), func() datasource.Filter {
					return datasource.NewInterpolatingAlignerFilter(c17Period(st.per), timeseries.FillModeLinear)
				}))
			case 'o':
				// datasource-level OverrideFieldMetadata: new urn and a caller-supplied custom-metadata map
				out = newUrn
				dfs = append(dfs, dintern("o"+newUrn, func() datasource.Filter {
					u := newUrn
					cm := map[string]any{"o": int64(si), "urn": newUrn}
					pool.hold(cm)
					return datasource.NewOverrideFieldMetadataFilter(&u, nil, cm)
				}))
			}
			pool.hold(dfs)
			ds = report.FromDatasource(datasource.NewFilteredDataSource(single, dfs...))
			fs = nil
			cur = []string{out}
		default:
			return nil, nil, fmt.Errorf("bad stage")
		}
		if err != nil {
			return nil, nil, err
		}
	}
	return c17Wrap(pool, ds, fs), cur, nil
}

// ---------------------------------------------------------------------------------------------
// construction-time state: a hash of everything reachable from an object (unexported fields, maps, pointers, the spare
// capacity of slices), functions and channels excepted
// ---------------------------------------------------------------------------------------------

// a list of datasources is hashed by the identity of its elements only (what is below them is held separately)
type c17Shallow []report.DataSource

const (
	c17FnvOff   = 14695981039346656037
	c17FnvPrime = 1099511628211
)

type c17Hasher struct {
	h    uint64
	seen map[uintptr]bool
}

func (x *c17Hasher) u64(v uint64) {
	h := (x.h ^ v) * c17FnvPrime
	x.h = h ^ (h >> 29)
}

func (x *c17Hasher) str(s string) {
	x.u64(uint64(len(s)))
	i := 0
	for ; i+8 <= len(s); i += 8 {
		x.u64(uint64(s[i]) | uint64(s[i+1])<<8 | uint64(s[i+2])<<16 | uint64(s[i+3])<<24 |
			uint64(s[i+4])<<32 | uint64(s[i+5])<<40 | uint64(s[i+6])<<48 | uint64(s[i+7])<<56)
	}
	var tail uint64
	for sh := uint(0); i < len(s); i, sh = i+1, sh+8 {
		tail |= uint64(s[i]) << sh
	}
	x.u64(tail)
}

func (x *c17Hasher) walk(v reflect.Value, depth int) {
	if depth > 40 {
		x.u64(0xdeadbeef)
		return
	}
	x.u64(uint64(v.Kind()))
	switch v.Kind() {
	case reflect.Bool:
		if v.Bool() {
			x.u64(1)
		} else {
			x.u64(0)
		}
	case reflect.Int, reflect.Int8, reflect.Int16, reflect.Int32, reflect.Int64:
		x.u64(uint64(v.Int()))
	case reflect.Uint, reflect.Uint8, reflect.Uint16, reflect.Uint32, reflect.Uint64, reflect.Uintptr:
		x.u64(v.Uint())
	case reflect.Float32, reflect.Float64:
		x.u64(math.Float64bits(v.Float()))
	case reflect.String:
		x.str(v.String())
	case reflect.Pointer:
		if v.IsNil() {
			x.u64(0)
			return
		}
		p := v.Pointer()
		if x.seen[p] {
			x.u64(2)
			return
		}
		if x.seen == nil {
			x.seen = map[uintptr]bool{}
		}
		x.seen[p] = true
		x.walk(v.Elem(), depth+1)
	case reflect.Interface:
		if v.IsNil() {
			x.u64(0)
			return
		}
		x.str(v.Elem().Type().String())
		x.walk(v.Elem(), depth+1)
	case reflect.Struct:
		for i := 0; i < v.NumField(); i++ {
			x.walk(v.Field(i), depth+1)
		}
	case reflect.Slice:
		if v.IsNil() {
			x.u64(0)
			return
		}
		x.u64(uint64(v.Len()))
		x.u64(uint64(v.Cap()))
		full := v.Slice(0, v.Cap()) // spare cells included
		for i := 0; i < full.Len(); i++ {
			x.walk(full.Index(i), depth+1)
		}
	case reflect.Array:
		for i := 0; i < v.Len(); i++ {
			x.walk(v.Index(i), depth+1)
		}
	case reflect.Map:
		if v.IsNil() {
			x.u64(0)
			return
		}
		x.u64(uint64(v.Len()))
		// order independent: the sum of the entries' hashes
		var sum uint64
		it := v.MapRange()
		for it.Next() {
			sub := c17Hasher{h: c17FnvOff, seen: x.seen}
			sub.walk(it.Key(), depth+1)
			sub.walk(it.Value(), depth+1)
			x.seen = sub.seen
			sum += sub.h
		}
		x.u64(sum)
	default:
		// functions, channels, unsafe pointers: not state of a description
	}
}

func c17HashOf(obj any) uint64 {
	x := c17Hasher{h: c17FnvOff}
	if sh, ok := obj.(c17Shallow); ok {
		x.u64(uint64(len(sh)))
		x.u64(uint64(cap(sh)))
		for _, d := range sh[:cap(sh)] {
			if d == nil {
				x.u64(0)
				continue
			}
			rv := reflect.ValueOf(d)
			if rv.Kind() == reflect.Pointer {
				x.u64(uint64(rv.Pointer()))
			} else {
				x.str(rv.Type().String())
			}
		}
		return x.h
	}
	x.walk(reflect.ValueOf(obj), 0)
	return x.h
}

// ---------------------------------------------------------------------------------------------
// the caller's data
// ---------------------------------------------------------------------------------------------

type c17Source struct {
	n, w    int
	nilCol  bool
	rows    [][]any
	recs    []timeseries.TsRecord[[]any]
	metas   [3][]tsquery.FieldMeta // three metadata slices ("s", "t", "v" urns) over the SAME rows
	urns    [3][]string
	snapRow [][]any
	snapMet [3][]tsquery.FieldMeta
}

func c17MustMeta(urn string, required bool) tsquery.FieldMeta {
	fm, err := tsquery.NewFieldMeta(urn, tsquery.DataTypeInteger, required)
	if err != nil {
		panic(err)
	}
	return *fm
}

func c17SrcCell(nilCol bool, w, i, j int) any {
	if nilCol && j == w-1 && i%3 == 1 {
		return nil
	}
	return int64(100*i + j + 1)
}

// lay: sep | pack, with the suffix n: the LAST column is optional and nil in the rows i = 1 (mod 3)
func c17MakeSource(lay string, n, w, k, m int) *c17Source {
	src := &c17Source{n: n, w: w, nilCol: strings.HasSuffix(lay, "n")}
	pack := strings.HasPrefix(lay, "pack")
	var big []any
	if pack {
		big = make([]any, n*w+k)
		for j := 0; j < k; j++ {
			big[n*w+j] = int64(-1000 - j)
		}
	}
	for i := 0; i < n; i++ {
		var row []any
		if pack {
			row = big[i*w : (i+1)*w]
		} else {
			row = make([]any, w, w+k)
			full := row[:w+k]
			for j := 0; j < k; j++ {
				full[w+j] = int64(-1000 - j)
			}
		}
		for j := 0; j < w; j++ {
			row[j] = c17SrcCell(src.nilCol, w, i, j)
		}
		src.rows = append(src.rows, row)
		src.recs = append(src.recs, timeseries.TsRecord[[]any]{Timestamp: c17Base.Add(time.Duration(i) * time.Second), Value: row})
	}
	for x, pre := range []string{"s", "t", "v"} {
		md := make([]tsquery.FieldMeta, w, w+m)
		for j := 0; j < w; j++ {
			src.urns[x] = append(src.urns[x], fmt.Sprintf("%s%d", pre, j))
			md[j] = c17MustMeta(src.urns[x][j], !(src.nilCol && j == w-1))
		}
		full := md[:w+m]
		for j := 0; j < m; j++ {
			full[w+j] = c17MustMeta(fmt.Sprintf("z%s%d", pre, j), true)
		}
		src.metas[x] = md
		src.snapMet[x] = append([]tsquery.FieldMeta(nil), full...)
	}
	// deep copies of everything the caller can reach, spare cells included
	for _, r := range src.rows {
		src.snapRow = append(src.snapRow, append([]any(nil), r[:cap(r)]...))
	}
	return src
}

func (src *c17Source) unchanged() bool {
	for i, r := range src.rows {
		full := r[:cap(r)]
		if len(full) != len(src.snapRow[i]) {
			return false
		}
		for j := range full {
			if full[j] != src.snapRow[i][j] {
				return false
			}
		}
		if src.recs[i].Value == nil || len(src.recs[i].Value) != len(r) || &src.recs[i].Value[0] != &r[0] {
			return false
		}
		if !src.recs[i].Timestamp.Equal(c17Base.Add(time.Duration(i) * time.Second)) {
			return false
		}
	}
	for x := range src.metas {
		full := src.metas[x][:cap(src.metas[x])]
		if len(full) != len(src.snapMet[x]) {
			return false
		}
		for j := range full {
			a, b := full[j], src.snapMet[x][j]
			if a.Urn() != b.Urn() || a.DataType() != b.DataType() || a.Required() != b.Required() || a.Unit() != b.Unit() ||
				len(a.CustomMeta()) != len(b.CustomMeta()) {
				return false
			}
		}
	}
	return true
}

// what the untouched source must deliver
func (src *c17Source) original(rows []timeseries.TsRecord[[]any]) bool {
	if len(rows) != src.n {
		return false
	}
	for i, r := range rows {
		if !r.Timestamp.Equal(c17Base.Add(time.Duration(i)*time.Second)) || len(r.Value) != src.w {
			return false
		}
		for j, v := range r.Value {
			if v != c17SrcCell(src.nilCol, src.w, i, j) {
				return false
			}
		}
	}
	return true
}

func (src *c17Source) datasource(which int) report.DataSource {
	ds, err := report.NewStaticDatasource(src.metas[which], stream.FromSlice(src.recs))
	if err != nil {
		panic(err)
	}
	return ds
}

func c17FmtRows(rows []timeseries.TsRecord[[]any]) string {
	if len(rows) == 0 {
		return "-"
	}
	parts := make([]string, len(rows))
	for i, r := range rows {
		vals := make([]string, len(r.Value))
		for j, v := range r.Value {
			switch x := v.(type) {
			case nil:
				vals[j] = "n"
			case int64:
				vals[j] = strconv.FormatInt(x, 10)
			default:
				vals[j] = fmt.Sprintf("?%T", v)
			}
		}
		vs := strings.Join(vals, ",")
		if len(vals) == 0 {
			vs = "-"
		}
		h := c17Halves(r.Timestamp)
		ts := strconv.FormatInt(h/2, 10)
		if h%2 != 0 {
			ts = strconv.FormatInt(h, 10) + "h"
		}
		parts[i] = ts + ":" + vs
	}
	return strings.Join(parts, ";")
}

func c17FmtMeta(m []tsquery.FieldMeta) string {
	if len(m) == 0 {
		return "-"
	}
	parts := make([]string, len(m))
	for i, f := range m {
		parts[i] = f.Urn()
	}
	return strings.Join(parts, ",")
}

// which memory every row of a result is: c<i> the caller's row i (same first cell), d<j> the same first cell as the earlier
// row j of this result, f a row of its own
func (src *c17Source) alias(rows c17Rows) string {
	if len(rows) == 0 {
		return "-"
	}
	toks := make([]string, len(rows))
	for j, r := range rows {
		toks[j] = "f"
		if len(r.Value) == 0 {
			toks[j] = "e"
			continue
		}
		p := &r.Value[0]
		found := false
		for i, cr := range src.rows {
			if len(cr) > 0 && p == &cr[0] {
				toks[j], found = "c"+strconv.Itoa(i), true
				break
			}
		}
		for jj := 0; jj < j && !found; jj++ {
			if len(rows[jj].Value) > 0 && p == &rows[jj].Value[0] {
				toks[j], found = "d"+strconv.Itoa(jj), true
			}
		}
	}
	return strings.Join(toks, ",")
}

func c17Bit(b bool) string {
	if b {
		return "1"
	}
	return "0"
}

type c17Rows = []timeseries.TsRecord[[]any]

// builds the result datasources of a case (one for the join modes, two otherwise); alt = consumed interleaved
// modes with a shared tag: seqs, alts, tj<I|L|F><s|a>s, tk...s — the new urns of Q carry P's tag, so equal stages at equal
// positions over equal columns are THE SAME filter object in both pipelines (in the other modes only values and
// filters that do not name a new urn are shared)
func c17SharedMode(mode string) (base string, shared bool) {
	if mode == "seqs" || mode == "alts" {
		return mode[:3], true
	}
	if len(mode) == 5 && (strings.HasPrefix(mode, "tj") || strings.HasPrefix(mode, "tk")) && mode[4] == 's' {
		return mode[:4], true
	}
	return mode, false
}

func c17Plan(pool *c17Pool, src *c17Source, mode string, chP, chQ, chJ []c17Stage) (outs []report.DataSource, plain report.DataSource, alt bool, err error) {
	mode, shared := c17SharedMode(mode)
	tagQ := "q"
	if shared {
		tagQ = "p"
	}
	jtOf := func(c byte) (report.JoinType, bool) {
		switch c {
		case 'I':
			return report.InnerJoin, true
		case 'L':
			return report.LeftJoin, true
		case 'F':
			return report.FullJoin, true
		}
		return 0, false
	}
	join := func(jt report.JoinType, sides []report.DataSource, urns [][]string) (report.DataSource, error) {
		var all []string
		for _, u := range urns {
			all = append(all, u...)
		}
		own := make([]report.DataSource, len(sides), len(sides)+2) // the caller's list, with spare capacity
		copy(own, sides)
		pool.hold(c17Shallow(own))
		var j report.DataSource = report.NewJoinDatasource(report.NewListMultiDatasource(own), jt)
		j, _, e := c17Build(pool, j, chJ, all, "j")
		return j, e
	}
	plain = src.datasource(0)
	switch {
	case mode == "seq" || mode == "alt":
		dsP, dsQ := plain, plain // seq: one datasource object
		if mode == "alt" {
			dsP, dsQ = src.datasource(0), src.datasource(0)
			alt = true
		}
		p, _, e := c17Build(pool, dsP, chP, src.urns[0], "p")
		if e != nil {
			return nil, nil, false, e
		}
		q, _, e := c17Build(pool, dsQ, chQ, src.urns[0], tagQ)
		if e != nil {
			return nil, nil, false, e
		}
		return []report.DataSource{p, q}, plain, alt, nil
	case strings.HasPrefix(mode, "join") || strings.HasPrefix(mode, "j3"):
		three := strings.HasPrefix(mode, "j3")
		jt, ok := jtOf(mode[len(mode)-1])
		if !ok || (three && len(mode) != 3) || (!three && mode != "joinI" && mode != "joinL" && mode != "joinF" && mode != "joinsharedI") {
			return nil, nil, false, fmt.Errorf("bad mode")
		}
		dsP, dsQ := src.datasource(0), src.datasource(0)
		urnsQ := src.urns[0]
		if mode == "joinsharedI" {
			dsP, dsQ = plain, plain
		}
		if three {
			dsQ, urnsQ = src.datasource(2), src.urns[2]
		}
		p, up, e := c17Build(pool, dsP, chP, src.urns[0], "p")
		if e != nil {
			return nil, nil, false, e
		}
		q, uq, e := c17Build(pool, dsQ, chQ, urnsQ, "q")
		if e != nil {
			return nil, nil, false, e
		}
		sides, urns := []report.DataSource{p, q}, [][]string{up, uq}
		if three {
			sides, urns = []report.DataSource{p, src.datasource(1), q}, [][]string{up, src.urns[1], uq}
		}
		j, e := join(jt, sides, urns)
		if e != nil {
			return nil, nil, false, e
		}
		return []report.DataSource{j}, plain, false, nil
	case (strings.HasPrefix(mode, "tj") || strings.HasPrefix(mode, "tk")) && len(mode) == 4:
		jt, ok := jtOf(mode[2])
		if !ok || (mode[3] != 's' && mode[3] != 'a') {
			return nil, nil, false, fmt.Errorf("bad mode")
		}
		for i, ch := range [][]c17Stage{chP, chQ} {
			side, us, e := c17Build(pool, src.datasource(1), ch, src.urns[1], []string{"p", tagQ}[i])
			if e != nil {
				return nil, nil, false, e
			}
			sides, urns := []report.DataSource{src.datasource(0), side}, [][]string{src.urns[0], us}
			if mode[1] == 'k' {
				sides, urns = []report.DataSource{side, src.datasource(0)}, [][]string{us, src.urns[0]}
			}
			j, e := join(jt, sides, urns)
			if e != nil {
				return nil, nil, false, e
			}
			outs = append(outs, j)
		}
		return outs, plain, mode[3] == 'a', nil
	}
	return nil, nil, false, fmt.Errorf("bad mode")
}

func c17RunCombo(lay string, n, w, k, m int, mode string, chP, chQ, chJ []c17Stage) (out string) {
	defer func() {
		if r := recover(); r != nil {
			s := strings.ReplaceAll(fmt.Sprint(r), "\n", " ")
			if len(s) > 120 {
				s = s[:120]
			}
			out = "panic " + s
		}
	}()
	ctx := context.Background()
	from, to := c17Base.Add(-time.Hour), c17Base.Add(time.Hour)
	src := c17MakeSource(lay, n, w, k, m)
	pool := c17NewPool()
	outs, plain, alt, err := c17Plan(pool, src, mode, chP, chQ, chJ)
	if err != nil {
		return "bad-case"
	}
	// first execution of everything
	res := make([]report.Result, len(outs))
	for i, ds := range outs {
		if res[i], err = ds.Execute(ctx, from, to); err != nil {
			return fmt.Sprintf("err exec%d", i)
		}
	}
	rows := make([]c17Rows, len(outs))
	if alt {
		nexts := make([]func() (timeseries.TsRecord[[]any], bool), len(outs))
		live := make([]bool, len(outs))
		for i := range outs {
			next, stop := iter.Pull(iter.Seq[timeseries.TsRecord[[]any]](res[i].Stream().Iterator))
			defer stop()
			nexts[i], live[i] = next, true
		}
		for more := true; more; {
			more = false
			for i := range outs {
				if live[i] {
					var r timeseries.TsRecord[[]any]
					if r, live[i] = nexts[i](); live[i] {
						rows[i] = append(rows[i], r)
						more = true
					}
				}
			}
		}
	} else {
		for i := range outs {
			if rows[i], err = res[i].Stream().Collect(ctx); err != nil {
				return fmt.Sprintf("err collect%d", i)
			}
		}
	}
	// after all consumption ended: the untouched static source, then every pipeline, executed again
	again, err := plain.Execute(ctx, from, to)
	if err != nil {
		return "err re-exec source"
	}
	plainRows, err := again.Stream().Collect(ctx)
	if err != nil {
		return "err re-collect source"
	}
	rows2 := make([]c17Rows, len(outs))
	metas2 := make([][]tsquery.FieldMeta, len(outs))
	for i, ds := range outs {
		r2, err := ds.Execute(ctx, from, to)
		if err != nil {
			return fmt.Sprintf("err re-exec%d", i)
		}
		if rows2[i], err = r2.Stream().Collect(ctx); err != nil {
			return fmt.Sprintf("err re-collect%d", i)
		}
		metas2[i] = r2.FieldsMeta()
	}
	// everything is formatted at the very end
	same := true
	var sb strings.Builder
	for i := range outs {
		fr, fm := c17FmtRows(rows[i]), c17FmtMeta(res[i].FieldsMeta())
		if fr != c17FmtRows(rows2[i]) || fm != c17FmtMeta(metas2[i]) {
			same = false
		}
		name := "J"
		if len(outs) == 2 {
			name = []string{"P", "Q"}[i]
		}
		fmt.Fprintf(&sb, "%s=%s a%s=%s m%s=%s ", name, fr, name, src.alias(rows[i]), name, fm)
	}
	fmt.Fprintf(&sb, "u=%s x=%s y=%s k=%s", c17Bit(src.unchanged()), c17Bit(src.original(plainRows)), c17Bit(same), c17Bit(pool.unchanged()))
	return sb.String()
}

func c17ExecQ(text string) string {
	parts := strings.Split(text, " | ")
	if len(parts) != 4 {
		return "bad-case"
	}
	hf := strings.Fields(parts[0])
	if len(hf) != 5 {
		return "bad-case"
	}
	lay := hf[0]
	if lay != "sep" && lay != "pack" && lay != "sepn" && lay != "packn" {
		return "bad-case"
	}
	n, err1 := strconv.Atoi(strings.TrimPrefix(hf[1], "n="))
	w, err2 := strconv.Atoi(strings.TrimPrefix(hf[2], "w="))
	if err1 != nil || err2 != nil || n < 0 || n > 64 || w < 1 || w > 16 {
		return "bad-case"
	}
	capsText := strings.TrimPrefix(hf[3], "caps=")
	mode := hf[4]
	chP, ok1 := c17ParseChain(parts[1])
	chQ, ok2 := c17ParseChain(parts[2])
	chJ, ok3 := c17ParseChain(parts[3])
	if !ok1 || !ok2 || !ok3 {
		return "bad-case"
	}
	var sb strings.Builder
	for i, c := range strings.Split(capsText, ",") {
		ks, ms, ok := strings.Cut(c, ":")
		k, e1 := strconv.Atoi(ks)
		m, e2 := strconv.Atoi(ms)
		if !ok || e1 != nil || e2 != nil || k < 0 || m < 0 || k > 64 || m > 64 {
			return "bad-case"
		}
		if i > 0 {
			sb.WriteByte(' ')
		}
		fmt.Fprintf(&sb, "[%d:%d %s]", k, m, c17RunCombo(lay, n, w, k, m, mode, chP, chQ, chJ))
	}
	return sb.String()
}

// ---------------------------------------------------------------------------------------------
// planning at the level of (urn, required) — only used by the generators, to emit well-typed cases
// ---------------------------------------------------------------------------------------------

type c17Col struct {
	urn string
	req bool
}

func c17SrcCols(lay string, w int, pre string) []c17Col {
	cols := make([]c17Col, w)
	for j := range cols {
		cols[j] = c17Col{fmt.Sprintf("%s%d", pre, j), !(strings.HasSuffix(lay, "n") && j == w-1)}
	}
	return cols
}

// required flag of a value over the available columns; ok = the library accepts it
func c17ValReq(v c17Val, cols []c17Col) (req bool, ok bool) {
	rs := make([]bool, len(v.args))
	for i, a := range v.args {
		r, k := c17ValReq(a, cols)
		if !k {
			return false, false
		}
		rs[i] = r
	}
	switch v.op {
	case 'c':
		return true, true
	case 'u':
		// every reduced column must be required (all columns are integers); at least one column
		idx := v.idx
		if idx == nil {
			for i := range cols {
				idx = append(idx, i)
			}
		}
		if len(idx) == 0 || !strings.ContainsRune("samxc", rune(v.red)) {
			return false, false
		}
		for _, i := range idx {
			if i < 0 || i >= len(cols) || !cols[i].req {
				return false, false
			}
		}
		return true, true
	case 'r':
		if v.n < 0 || v.n >= len(cols) {
			return false, false
		}
		return cols[v.n].req, true
	case 'n':
		return true, rs[1] // the alternative must be required
	case 'p':
		return rs[0] && rs[1], true
	case 'g':
		return rs[2], rs[0] && rs[1] && rs[2] == rs[3] // a required condition, branches of the same kind
	case 'k':
		return rs[0], true
	}
	return false, false
}

func c17PlanChain(chain []c17Stage, cols []c17Col, tag string) ([]c17Col, bool) {
	cur := append([]c17Col(nil), cols...)
	for si, st := range chain {
		newUrn := fmt.Sprintf("%s%d", tag, si)
		for _, i := range st.idx {
			if i < 0 || i >= len(cur) {
				return nil, false
			}
		}
		switch st.kind {
		case 'D':
		case 'A':
			r, ok := c17ValReq(st.vals[0], cur)
			if !ok {
				return nil, false
			}
			cur = append(append([]c17Col(nil), cur...), c17Col{newUrn, r})
		case 'S':
			if len(st.vals) == 0 {
				return nil, false
			}
			var nu []c17Col
			for j, v := range st.vals {
				r, ok := c17ValReq(v, append(append([]c17Col(nil), cur...), nu...))
				if !ok {
					return nil, false
				}
				nu = append(nu, c17Col{fmt.Sprintf("%s%d_%d", tag, si, j), r})
			}
			cur = nu
		case 'R':
			r, ok := c17ValReq(st.vals[0], cur)
			if !ok {
				return nil, false
			}
			cur = append([]c17Col(nil), cur...)
			cur[st.idx[0]] = c17Col{newUrn, r}
		case 'O':
			cur = append([]c17Col(nil), cur...)
			cur[st.idx[0]].urn = newUrn
		case 'X':
			drop := map[int]bool{}
			for _, i := range st.idx {
				if drop[i] {
					return nil, false
				}
				drop[i] = true
			}
			if len(drop) == 0 || len(drop) >= len(cur) {
				return nil, false
			}
			var keep []c17Col
			for i, c := range cur {
				if !drop[i] {
					keep = append(keep, c)
				}
			}
			cur = keep
		case 'F':
			r, ok := c17ValReq(st.vals[0], cur)
			if !ok {
				return nil, false
			}
			cur = []c17Col{{newUrn, r}}
		case 'C':
			ra, oka := c17ValReq(st.vals[0], cur)
			rb, okb := c17ValReq(st.vals[1], cur)
			if !oka || !okb || !ra || !rb {
				return nil, false
			}
		case 'G':
			// interpolation converts every cell to a float: no nils
			for _, c := range cur {
				if !c.req {
					return nil, false
				}
			}
			if st.per <= 0 {
				return nil, false
			}
		case 'B':
			c := cur[st.idx[0]]
			if st.sub != 0 && st.sub != 'o' && !c.req {
				return nil, false
			}
			if st.sub == 'o' {
				c.urn = newUrn
			}
			cur = []c17Col{c}
		default:
			return nil, false
		}
	}
	return cur, true
}

func c17PlanJoin(kind byte, sides [][]c17Col) ([]c17Col, bool) {
	seen := map[string]bool{}
	var out []c17Col
	for i, s := range sides {
		for _, c := range s {
			if seen[c.urn] {
				return nil, false
			}
			seen[c.urn] = true
			if (kind == 'F' && len(sides) > 1) || (kind == 'L' && i > 0) {
				c.req = false
			}
			out = append(out, c)
		}
	}
	return out, true
}

// columns every result of the case's join(s) delivers BEFORE the post chain (nil, false: the library rejects the case)
func c17PlanCase(lay string, w int, mode string, chP, chQ []c17Stage) ([][]c17Col, bool) {
	one := func(cols []c17Col, ok bool) ([][]c17Col, bool) { return [][]c17Col{cols}, ok }
	s, t, v := c17SrcCols(lay, w, "s"), c17SrcCols(lay, w, "t"), c17SrcCols(lay, w, "v")
	mode, shared := c17SharedMode(mode)
	tagQ := "q"
	if shared {
		tagQ = "p"
	}
	switch {
	case mode == "seq" || mode == "alt":
		_, ok1 := c17PlanChain(chP, s, "p")
		_, ok2 := c17PlanChain(chQ, s, tagQ)
		return nil, ok1 && ok2
	case strings.HasPrefix(mode, "join"):
		p, ok1 := c17PlanChain(chP, s, "p")
		q, ok2 := c17PlanChain(chQ, s, "q")
		if !ok1 || !ok2 {
			return nil, false
		}
		return one(c17PlanJoin(mode[len(mode)-1], [][]c17Col{p, q}))
	case strings.HasPrefix(mode, "j3"):
		p, ok1 := c17PlanChain(chP, s, "p")
		q, ok2 := c17PlanChain(chQ, v, "q")
		if !ok1 || !ok2 {
			return nil, false
		}
		return one(c17PlanJoin(mode[2], [][]c17Col{p, t, q}))
	case strings.HasPrefix(mode, "tj") || strings.HasPrefix(mode, "tk"):
		var both [][]c17Col
		for i, ch := range [][]c17Stage{chP, chQ} {
			side, ok := c17PlanChain(ch, t, []string{"p", tagQ}[i])
			if !ok {
				return nil, false
			}
			sides := [][]c17Col{s, side}
			if mode[1] == 'k' {
				sides = [][]c17Col{side, s}
			}
			j, ok := c17PlanJoin(mode[2], sides)
			if !ok {
				return nil, false
			}
			both = append(both, j)
		}
		return both, true
	}
	return nil, false
}

// ---------------------------------------------------------------------------------------------
// generators
// ---------------------------------------------------------------------------------------------

// the stage alphabet of the exhaustive scope, instantiated for the columns the stage receives: every filter kind, and
// every value kind reading cells (nvl / numeric expression / selector over a condition / cast inside A, S, R, F)
func c17Alphabet(cols []c17Col, salt int) []c17Stage {
	L := len(cols) - 1
	reqd := func(v c17Val) c17Val {
		if r, _ := c17ValReq(v, cols); r {
			return v
		}
		return c17Nvl(v, c17C(0))
	}
	tr, fl := c17Plus(c17Ref(0), c17Ref(L)), c17Cast(c17Ref(L))
	if a, _ := c17ValReq(tr, cols); a != cols[L].req {
		tr, fl = c17Nvl(tr, c17C(-1)), c17Nvl(fl, c17C(-2))
	}
	out := []c17Stage{
		c17StA(c17C(7 + salt)),
		c17StA(c17Sel(reqd(c17Ref(0)), c17C(150), tr, fl)),
		c17StS(c17Ref(0)),
		c17StS(c17C(5+salt), c17Ref(L+1), c17Nvl(c17Ref(L), c17C(9))),
		{kind: 'D'},
		c17StR(0, c17Plus(c17Ref(0), c17Ref(0))),
		c17StR(L, c17Nvl(c17Ref(L), c17C(9+salt))),
		{kind: 'O', idx: []int{L}},
		c17StF(c17Plus(c17Ref(0), c17Ref(L))),
		c17StC(reqd(c17Ref(0)), c17C(150)),
		c17StB(L, 0, 0),
	}
	if L >= 1 {
		out = append(out, c17Stage{kind: 'X', idx: []int{0}})
	}
	if cols[0].req {
		out = append(out, c17StB(0, 'd', 0), c17StB(0, 'r', 0), c17StB(0, 'l', 3))
	}
	all := true
	for _, c := range cols {
		all = all && c.req
	}
	if all {
		out = append(out, c17StG(3, 0), c17StG(3, 'f'), c17StG(3, 'l'))
	}
	return out
}

// the stage kinds of round 7, instantiated for the columns the stage receives: ReduceFieldValue (explicit urns / all
// fields; sum, avg, min, max, count) inside append / select / replace / single field / condition / a numeric
// expression, OverrideFieldMetadata with a custom-metadata map (report and datasource level).  Stages the library would
// reject (a reduced column that is optional) are left out.
func c17Round7Stages(cols []c17Col, salt int) []c17Stage {
	L := len(cols) - 1
	cand := []c17Stage{
		c17StA(c17Red('s', 0)),
		c17StA(c17RedAll('x')),
		c17StS(c17Red('a', 0, L), c17Ref(0), c17RedAll('m')),
		c17StR(0, c17Red('c', L)),
		c17StR(L, c17RedAll('s')),
		c17StF(c17Red('m', 0, L)),
		c17StC(c17RedAll('s'), c17C(150+salt)),
		c17StA(c17Plus(c17Red('s', 0), c17Ref(L))),
		c17StA(c17RedAll('a')),
		c17StB(L, 'o', 0),
	}
	var out []c17Stage
	for _, st := range cand {
		if _, ok := c17PlanChain([]c17Stage{st}, cols, "x"); ok {
			out = append(out, st)
		}
	}
	return out
}

func c17AllChains(cols []c17Col, maxLen, salt int) [][]c17Stage {
	var out [][]c17Stage
	var rec func(ch []c17Stage, cur []c17Col)
	rec = func(ch []c17Stage, cur []c17Col) {
		out = append(out, append([]c17Stage(nil), ch...))
		if len(ch) >= maxLen {
			return
		}
		for _, st := range c17Alphabet(cur, salt+10*len(ch)) {
			next := append(append([]c17Stage(nil), ch...), st)
			nc, ok := c17PlanChain(next, cols, "x")
			if !ok {
				panic("c17: the alphabet produced a stage the planner rejects: " + c17FmtChain(next))
			}
			rec(next, nc)
		}
	}
	rec(nil, cols)
	return out
}

func c17EmitQ(c *Ctx, lay string, n, w int, caps, mode string, chP, chQ, chJ []c17Stage) {
	// non-trivial: at least two stages / joins that construct rows, over at least two source rows
	ext := 0
	for _, ch := range [][]c17Stage{chP, chQ, chJ} {
		for _, st := range ch {
			if st.kind != 'D' && st.kind != 'O' && st.kind != 'C' {
				ext++
			}
		}
	}
	if base, _ := c17SharedMode(mode); !(base == "seq" || base == "alt") {
		ext++
	}
	c.Case(ext >= 2 && n >= 2, fmt.Sprintf("Q %s n=%d w=%d caps=%s %s | %s | %s | %s", lay, n, w, caps, mode,
		c17FmtChain(chP), c17FmtChain(chQ), c17FmtChain(chJ)))
}

const c17CapsDiag = "0:0,1:1,2:2,3:3"
const c17CapsAll = "0:0,0:1,0:2,0:3,1:0,1:1,1:2,1:3,2:0,2:1,2:2,2:3,3:0,3:1,3:2,3:3"

var c17JoinModes = []string{"joinI", "joinL", "joinF", "j3I", "j3L", "j3F",
	"tjIs", "tjLs", "tjFs", "tjIa", "tjLa", "tjFa", "tkIs", "tkLs", "tkFs", "tkIa", "tkLa", "tkFa"}

// a post chain every result of the case accepts (seeded)
func c17Post(c *Ctx, outs [][]c17Col) []c17Stage {
	post := c17PostFor(c, outs[0])
	for _, cols := range outs {
		if _, ok := c17PlanChain(post, cols, "j"); !ok {
			return nil
		}
	}
	return post
}

func c17PostFor(c *Ctx, cols []c17Col) []c17Stage {
	switch c.Rng.Intn(5) {
	case 4:
		// a reduce field value over the joined row (only planable when every column is required: inner joins)
		return []c17Stage{c17StA(c17RedAll("samxc"[c.Rng.Intn(5)]))}
	case 1:
		return []c17Stage{c17StA(c17Ref(c.Rng.Intn(len(cols))))}
	case 2:
		return []c17Stage{c17StS(c17Ref(len(cols)-1), c17C(3), c17Ref(len(cols)+1))}
	case 3:
		return []c17Stage{c17StR(c.Rng.Intn(len(cols)), c17Nvl(c17Ref(0), c17C(4)))}
	}
	return nil
}

// emits the case in the given join mode if the library accepts it
func c17TryJoin(c *Ctx, lay string, n, w int, caps, mode string, p, q []c17Stage) bool {
	cols, ok := c17PlanCase(lay, w, mode, p, q)
	if !ok {
		return false
	}
	c17EmitQ(c, lay, n, w, caps, mode, p, q, c17Post(c, cols))
	return true
}

func genC17Q(c *Ctx) {
	n, w := 3, 2
	caps := c17CapsDiag
	if c.Thorough {
		caps = c17CapsAll
	}
	plain := c17SrcCols("sep", w, "s")
	withNil := c17SrcCols("sepn", w, "s")
	one, oneQ := c17AllChains(plain, 1, 0), c17AllChains(plain, 1, 100)
	two, twoQ := c17AllChains(plain, 2, 0), c17AllChains(plain, 2, 100)
	lays := []string{"sep", "pack"}
	idx := 0
	// (1) every pair of chains of length <= 1 over the whole alphabet: every mode, both layouts alternating
	for _, p := range one {
		for _, q := range oneQ {
			idx++
			c17EmitQ(c, lays[idx%2], n, w, caps, "seq", p, q, nil)
			c17EmitQ(c, lays[(idx+1)%2], n, w, caps, "alt", p, q, nil)
			for mi, jm := range c17JoinModes {
				c17TryJoin(c, lays[(idx+mi)%2], n, w, caps, jm, p, q)
			}
		}
	}
	// (2) every chain of length 2 (all stage kinds in both positions) against probe pipelines on the other side (the
	// plain source, an append, a select, a self-referring replace), in both roles; sequential, interleaved and two
	// join modes (rotating through all of them)
	probes := [][]c17Stage{nil, {c17StA(c17C(108))}, {c17StS(c17Ref(0))}, {c17StR(0, c17Plus(c17Ref(0), c17Ref(0)))}}
	pairs := func(long [][]c17Stage, role int, capsText string, joins int) {
		for _, ch := range long {
			if len(ch) < 2 {
				continue
			}
			for _, pr := range probes {
				idx++
				p, q := ch, pr
				if role == 1 {
					p, q = pr, ch
				}
				lay := lays[idx%2]
				c17EmitQ(c, lay, n, w, capsText, []string{"seq", "alt"}[(idx/2)%2], p, q, nil)
				if c.Thorough {
					c17EmitQ(c, lays[(idx+1)%2], n, w, capsText, []string{"alt", "seq"}[(idx/2)%2], p, q, nil)
				}
				done := 0
				for off := 0; off < len(c17JoinModes) && done < joins; off++ {
					if c17TryJoin(c, lay, n, w, capsText, c17JoinModes[(idx*5+off)%len(c17JoinModes)], p, q) {
						done++
					}
				}
			}
		}
	}
	pairs(two, 0, caps, c.Pick(2, 4))
	pairs(twoQ, 1, caps, c.Pick(2, 4))
	// (3) a source whose last column is optional and holds nils (nvl / numeric expression / selector / cast / join
	// padding reading nil cells): every chain of length <= 2 against the plain source
	for _, ch := range c17AllChains(withNil, 2, 0) {
		idx++
		lay := []string{"sepn", "packn"}[idx%2]
		c17EmitQ(c, lay, n, w, caps, []string{"seq", "alt"}[(idx/2)%2], ch, nil, nil)
		for off := 0; off < len(c17JoinModes); off++ {
			if c17TryJoin(c, lay, n, w, caps, c17JoinModes[(idx*7+off)%len(c17JoinModes)], ch, nil) {
				break
			}
		}
	}
	// (4) thorough: every pair of chains of length <= 2, diagonal capacities, one consumption mode + one join mode
	if c.Thorough {
		for _, p := range two {
			for _, q := range twoQ {
				if len(p) < 2 || len(q) < 2 {
					continue
				}
				idx++
				lay := lays[idx%2]
				c17EmitQ(c, lay, n, w, c17CapsDiag, []string{"seq", "alt"}[(idx/2)%2], p, q, nil)
				for off := 0; off < len(c17JoinModes); off++ {
					if c17TryJoin(c, lay, n, w, c17CapsDiag, c17JoinModes[(idx*5+off)%len(c17JoinModes)], p, q) {
						break
					}
				}
			}
		}
	}
	// (6) round 7: reduce field values, override maps, and SHARED stage objects (see c17Pool: equal construction
	// arguments = the same object).  Every round-7 stage kind alone and next to every stage kind of the alphabet (both
	// positions); every such chain (a) as P and Q at once under one tag (every filter object shared by two pipelines
	// that are consumed one after the other / alternately / as S JOIN P, S JOIN Q), (b) against its own first stage
	// (prefix shared), (c) against a one-stage pipeline holding the same field value under another tag (the value
	// object shared by two different filters, also on the two sides of one join); every chain of length 2 of the old
	// alphabet as P and Q at once.
	sharedModes := []string{"seqs", "alts", "tjIss", "tjLss", "tjFss", "tjIas", "tjLas", "tjFas", "tkIss", "tkLss", "tkFss", "tkIas", "tkLas", "tkFas"}
	plainModes := append([]string{"seq", "alt"}, c17JoinModes...)
	emitShared := func(lay string, capsText string, ch []c17Stage, k int) {
		done := 0
		for off := 0; off < len(sharedModes) && done < k; off++ {
			mode := sharedModes[(idx*3+off)%len(sharedModes)]
			if cols, ok := c17PlanCase(lay, w, mode, ch, ch); ok {
				var post []c17Stage
				if cols != nil {
					post = c17Post(c, cols)
				}
				c17EmitQ(c, lay, n, w, capsText, mode, ch, ch, post)
				done++
			}
		}
	}
	for li, srcCols := range [][]c17Col{plain, withNil} {
		var chains [][]c17Stage
		add := func(ch []c17Stage) {
			if _, ok := c17PlanChain(ch, srcCols, "x"); ok {
				chains = append(chains, ch)
			}
		}
		for _, e := range c17Round7Stages(srcCols, 0) {
			add([]c17Stage{e})
			after, ok := c17PlanChain([]c17Stage{e}, srcCols, "x")
			if ok {
				for _, x := range c17Alphabet(after, 10) {
					add([]c17Stage{e, x})
				}
				for _, x := range c17Round7Stages(after, 10) {
					add([]c17Stage{e, x})
				}
			}
		}
		for _, x := range c17Alphabet(srcCols, 0) {
			after, ok := c17PlanChain([]c17Stage{x}, srcCols, "x")
			if !ok {
				continue
			}
			for _, e := range c17Round7Stages(after, 10) {
				add([]c17Stage{x, e})
			}
		}
		for _, ch := range chains {
			idx++
			lay := []string{"sep", "pack"}[idx%2]
			if li == 1 {
				lay = []string{"sepn", "packn"}[idx%2]
			}
			// (a) P = Q = ch, one tag
			emitShared(lay, caps, ch, 2)
			// (b) the prefix
			if len(ch) == 2 {
				c17EmitQ(c, lay, n, w, caps, []string{"seqs", "alts"}[(idx/2)%2], ch, ch[:1], nil)
			}
			// (c) the same field value under another tag: sequential / alternating, and one join mode
			other := ch[len(ch)-1:]
			if _, ok := c17PlanChain(other, srcCols, "q"); !ok {
				other = ch[:1]
			}
			c17EmitQ(c, lay, n, w, caps, []string{"seq", "alt"}[(idx/2)%2], ch, other, nil)
			for off := 0; off < len(c17JoinModes); off++ {
				if c17TryJoin(c, lay, n, w, caps, c17JoinModes[(idx*5+off)%len(c17JoinModes)], ch, other) {
					break
				}
			}
		}
	}
	for _, ch := range two {
		if len(ch) == 2 {
			idx++
			emitShared(lays[idx%2], caps, ch, 1)
		}
	}
	// every pair of one-stage pipelines over the round-7 kinds in EVERY mode (thorough: also against the old alphabet)
	{
		r7 := [][]c17Stage{nil}
		for _, e := range c17Round7Stages(plain, 0) {
			r7 = append(r7, []c17Stage{e})
		}
		others := r7
		if c.Thorough {
			others = append(append([][]c17Stage(nil), r7...), one[1:]...)
		}
		for _, p := range r7 {
			for qi, q := range others {
				if len(p) == 0 && len(q) == 0 {
					continue
				}
				idx++
				caps := caps
				if qi >= len(r7) || (len(p) > 0 && len(q) > 0 && c17FmtChain(p) != c17FmtChain(q)) {
					caps = c17CapsDiag // (the capacities are orthogonal to which objects are shared)
				}
				for mi, mode := range append(append([]string(nil), plainModes...), sharedModes...) {
					cols, ok := c17PlanCase(lays[(idx+mi)%2], w, mode, p, q)
					if !ok {
						continue
					}
					var post []c17Stage
					if cols != nil {
						post = c17Post(c, cols)
					}
					c17EmitQ(c, lays[(idx+mi)%2], n, w, caps, mode, p, q, post)
				}
			}
		}
	}
	// (5) seeded random larger ones
	cnt := c.Pick(600, 20000)
	for i := 0; i < cnt; i++ {
		rn := c.Rng.Range(1, 6)
		rw := c.Rng.Range(1, 4)
		lay := []string{"sep", "pack", "sepn", "packn"}[c.Rng.Intn(4)]
		var capList []string
		for x := 0; x < 3; x++ {
			capList = append(capList, fmt.Sprintf("%d:%d", c.Rng.Intn(6), c.Rng.Intn(6)))
		}
		capList = append(capList, "0:0")
		mode := "seq"
		switch c.Rng.Intn(6) {
		case 1:
			mode = "alt"
		case 2, 3, 4:
			mode = c17JoinModes[c.Rng.Intn(len(c17JoinModes))]
		case 5:
			mode = sharedModes[c.Rng.Intn(len(sharedModes))]
		}
		srcP, srcQ := "s", "s"
		switch mode[:2] {
		case "j3":
			srcQ = "v"
		case "tj", "tk":
			srcP, srcQ = "t", "t"
		}
		p := c17RandChain(c, c17SrcCols(lay, rw, srcP), 4, "p")
		q := c17RandChain(c, c17SrcCols(lay, rw, srcQ), 4, "q")
		if _, shared := c17SharedMode(mode); shared {
			// one tag: Q = a prefix of P (the same filter objects) + a tail of its own
			k := c.Rng.Intn(len(p) + 1)
			q = append([]c17Stage(nil), p[:k]...)
			if after, ok := c17PlanChain(q, c17SrcCols(lay, rw, srcQ), "p"); ok && c.Rng.Intn(3) > 0 {
				q = append(q, c17RandChain(c, after, 2, "p")...)
			}
			if _, ok := c17PlanCase(lay, rw, mode, p, q); !ok {
				q = p
			}
		}
		var post []c17Stage
		if mode != "seq" && mode != "alt" {
			cols, ok := c17PlanCase(lay, rw, mode, p, q)
			if !ok {
				// colliding urns (both sides keep source columns): give Q a select in front
				q = append([]c17Stage{c17StS(c17Ref(0))}, q...)
				if _, ok2 := c17PlanChain(q, c17SrcCols(lay, rw, srcQ), "q"); !ok2 {
					q = []c17Stage{c17StS(c17Ref(0))}
				}
				if cols, ok = c17PlanCase(lay, rw, mode, p, q); !ok {
					mode, cols = "seq", nil
				}
			}
			if cols != nil {
				post = c17RandChain(c, cols[0], 2, "j")
				for _, o := range cols {
					if _, ok := c17PlanChain(post, o, "j"); !ok {
						post = nil
					}
				}
			}
		}
		c17EmitQ(c, lay, rn, rw, strings.Join(capList, ","), mode, p, q, post)
	}
}

func c17RandVal(c *Ctx, cols []c17Col, depth int, wantReq int) c17Val {
	// wantReq: 0 any, 1 required, 2 exactly the kind of `cols[0]`-independent "optional allowed"
	var v c17Val
	switch k := c.Rng.Intn(10); {
	case depth <= 0 || k < 2:
		if c.Rng.Bool() {
			v = c17Ref(c.Rng.Intn(len(cols)))
		} else {
			v = c17C(c.Rng.Range(-50, 250))
		}
	case k < 4:
		v = c17Ref(c.Rng.Intn(len(cols)))
	case k < 6:
		v = c17Nvl(c17RandVal(c, cols, depth-1, 0), c17RandVal(c, cols, depth-1, 1))
	case k < 7:
		v = c17Plus(c17RandVal(c, cols, depth-1, 0), c17RandVal(c, cols, depth-1, 0))
	case k < 8:
		// a reduce field value over required columns (explicit list, possibly with a repeated column, or all)
		var reqd []int
		for i, col := range cols {
			if col.req {
				reqd = append(reqd, i)
			}
		}
		red := "samxc"[c.Rng.Intn(5)]
		switch {
		case len(reqd) == 0:
			v = c17C(c.Rng.Range(-50, 250))
		case len(reqd) == len(cols) && c.Rng.Intn(3) == 0:
			v = c17RedAll(red)
		default:
			var idx []int
			for x := c.Rng.Range(1, 3); x > 0; x-- {
				idx = append(idx, reqd[c.Rng.Intn(len(reqd))])
			}
			v = c17Red(red, idx...)
		}
	case k < 9:
		v = c17Cast(c17RandVal(c, cols, depth-1, 0))
	default:
		t, f := c17RandVal(c, cols, depth-1, 0), c17RandVal(c, cols, depth-1, 0)
		rt, _ := c17ValReq(t, cols)
		rf, _ := c17ValReq(f, cols)
		if rt != rf {
			t, f = c17Nvl(t, c17C(-1)), c17Nvl(f, c17C(-2))
		}
		v = c17Sel(c17RandVal(c, cols, depth-1, 1), c17RandVal(c, cols, depth-1, 1), t, f)
	}
	if wantReq == 1 {
		if r, _ := c17ValReq(v, cols); !r {
			v = c17Nvl(v, c17C(c.Rng.Range(0, 9)))
		}
	}
	return v
}

func c17RandChain(c *Ctx, cols []c17Col, maxLen int, tag string) []c17Stage {
	var ch []c17Stage
	cur := cols
	ln := c.Rng.Intn(maxLen + 1)
	for s := 0; s < ln; s++ {
		var st c17Stage
		for try := 0; try < 8; try++ {
			switch c.Rng.Intn(14) {
			case 0:
				st = c17Stage{kind: 'D'}
			case 1, 2:
				st = c17StA(c17RandVal(c, cur, 2, 0))
			case 3, 4:
				k := c.Rng.Range(1, 4)
				st = c17Stage{kind: 'S'}
				avail := append([]c17Col(nil), cur...)
				for j := 0; j < k; j++ {
					v := c17RandVal(c, avail, 2, 0)
					r, _ := c17ValReq(v, avail)
					st.vals = append(st.vals, v)
					avail = append(avail, c17Col{"", r})
				}
			case 5, 6:
				st = c17StR(c.Rng.Intn(len(cur)), c17RandVal(c, cur, 2, 0))
			case 7:
				st = c17Stage{kind: 'O', idx: []int{c.Rng.Intn(len(cur))}}
			case 8:
				st = c17Stage{kind: 'X'}
				for i := range cur {
					if c.Rng.Intn(3) == 0 {
						st.idx = append(st.idx, i)
					}
				}
			case 9:
				st = c17StF(c17RandVal(c, cur, 2, 0))
			case 10:
				st = c17StC(c17RandVal(c, cur, 1, 1), c17C(c.Rng.Range(0, 400)))
			case 11:
				sub := []byte{0, 'd', 'r', 'a', 'f', 'l', 'o'}[c.Rng.Intn(7)]
				per := 0
				if sub == 'a' || sub == 'f' || sub == 'l' {
					per = c.Rng.Range(1, 7)
				}
				st = c17StB(c.Rng.Intn(len(cur)), sub, per)
			default:
				st = c17StG(c.Rng.Range(1, 7), []byte{0, 'f', 'l'}[c.Rng.Intn(3)])
			}
			if _, ok := c17PlanChain(append(append([]c17Stage(nil), ch...), st), cols, tag); ok {
				break
			}
			st = c17Stage{kind: 'D'}
		}
		ch = append(ch, st)
		next, ok := c17PlanChain(ch, cols, tag)
		if !ok {
			ch = ch[:len(ch)-1]
			break
		}
		cur = next
	}
	return ch
}
