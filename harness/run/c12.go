package run

import (
	"bytes"
	"context"
	"encoding/binary"
	"fmt"
	"io/fs"
	"math/big"
	"os"
	"path/filepath"
	"sort"
	"strconv"
	"strings"
	"sync"
	"time"

	"github.com/shpandrak/shpanstream/utils/timeseries"
)

// C12: alignment periods tile the timeline.
//
// Case lines (instants are UnixNano as decimal integers, zone data in seconds):
//
//	P <kind> | zone <name> <initOffset> <when:off,when:off,...|-> | t <i1>,<i2>,...      (instants ascending)
//	    obs: <start>,<end>,<start(start)>,<start(end)>;...          one group per instant, real GetStartTime/GetEndTime
//	S <kind> | zone <name> <initOffset> <trans> | from <i> to <i> budget <n>
//	    obs: ok <i1,...|->        the instants emitted by AlignedTimestampsStream(from,to)
//	         budget <i1,...>      more than <n> instants were emitted (non-termination detector); the first n
//	CAL <day>,<day>,...
//	    obs: <y>/<m>/<d>/<weekday>/<daynumber of y-m-01>;...        Go's civil calendar (UTC) for day numbers since 1970-01-01
//
// kind := day | week | month | quarter | half | year | fixed:<durationNanos>
// name := UTC | Fixed (time.FixedZone(initOffset)) | Synth (a Location built from the listed transitions through
//         time.LoadLocationFromTZData) | an IANA name (time.LoadLocation; the listed transitions are then the zone's
//         offset changes inside a window around the instants, recovered through the public ZoneBounds/Zone API).

const c12ZoneDir = "/usr/share/zoneinfo"

type c12Tr struct {
	When int64 // unix seconds
	Off  int   // offset from then on
}

type c12Zone struct {
	Name  string
	Loc   *time.Location
	Init  int // offset before the first recovered transition
	Trans []c12Tr
}

var (
	c12LocMu    sync.Mutex
	c12LocCache = map[string]*time.Location{}
)

func c12LoadLocation(name string) (*time.Location, error) {
	c12LocMu.Lock()
	defer c12LocMu.Unlock()
	if l, ok := c12LocCache[name]; ok {
		return l, nil
	}
	l, err := time.LoadLocation(name)
	if err != nil {
		return nil, err
	}
	c12LocCache[name] = l
	return l, nil
}

// c12SynthLocation builds a *time.Location with exactly the given offsets (TZif version 2, no rule string).
// Type 0 carries the initial offset and is not referenced by any transition, so lookupFirstZone selects it.
func c12SynthLocation(init int, trans []c12Tr) (*time.Location, error) {
	if len(trans) > 250 {
		return nil, fmt.Errorf("too many transitions")
	}
	var b bytes.Buffer
	hdr := func(ntime, ntype, nchar int) {
		b.WriteString("TZif")
		b.WriteByte('2')
		b.Write(make([]byte, 15))
		for _, v := range []int{0, 0, 0, ntime, ntype, nchar} {
			_ = binary.Write(&b, binary.BigEndian, uint32(v))
		}
	}
	hdr(0, 1, 1) // 32-bit block: one dummy type, skipped by the loader
	b.Write(make([]byte, 6))
	b.WriteByte(0)
	hdr(len(trans), len(trans)+1, 4)
	for _, t := range trans {
		_ = binary.Write(&b, binary.BigEndian, t.When)
	}
	for i := range trans {
		b.WriteByte(byte(i + 1))
	}
	wt := func(off int) {
		_ = binary.Write(&b, binary.BigEndian, int32(off))
		b.WriteByte(0)
		b.WriteByte(0)
	}
	wt(init)
	for _, t := range trans {
		wt(t.Off)
	}
	b.WriteString("SYN\x00")
	b.WriteString("\n\n")
	return time.LoadLocationFromTZData("Synth", b.Bytes())
}

func c12FmtTrans(tr []c12Tr) string {
	if len(tr) == 0 {
		return "-"
	}
	var sb strings.Builder
	for i, t := range tr {
		if i > 0 {
			sb.WriteByte(',')
		}
		sb.WriteString(strconv.FormatInt(t.When, 10))
		sb.WriteByte(':')
		sb.WriteString(strconv.Itoa(t.Off))
	}
	return sb.String()
}

func c12ParseTrans(s string) ([]c12Tr, error) {
	if s == "-" {
		return nil, nil
	}
	var out []c12Tr
	for _, p := range strings.Split(s, ",") {
		a, b, ok := strings.Cut(p, ":")
		if !ok {
			return nil, fmt.Errorf("bad transition %q", p)
		}
		w, err := strconv.ParseInt(a, 10, 64)
		if err != nil {
			return nil, err
		}
		o, err := strconv.Atoi(b)
		if err != nil {
			return nil, err
		}
		out = append(out, c12Tr{w, o})
	}
	return out, nil
}

var c12E9 = big.NewInt(1000000000)

// instants travel as decimal UnixNano of any size (time.Time covers far more than int64 nanoseconds)
func c12ParseInstant(s string) (time.Time, error) {
	if n, err := strconv.ParseInt(s, 10, 64); err == nil {
		return time.Unix(0, n), nil
	}
	v, ok := new(big.Int).SetString(s, 10)
	if !ok {
		return time.Time{}, fmt.Errorf("bad instant %q", s)
	}
	q, r := new(big.Int).DivMod(v, c12E9, new(big.Int)) // Euclidean: 0 <= r < 1e9
	if !q.IsInt64() {
		return time.Time{}, fmt.Errorf("instant out of range %q", s)
	}
	return time.Unix(q.Int64(), r.Int64()), nil
}

func c12FmtInstant(t time.Time) string {
	sec := t.Unix()
	if sec > -9000000000 && sec < 9000000000 {
		return strconv.FormatInt(sec*1000000000+int64(t.Nanosecond()), 10)
	}
	v := new(big.Int).Mul(big.NewInt(sec), c12E9)
	v.Add(v, big.NewInt(int64(t.Nanosecond())))
	return v.String()
}

func c12Period(kind string, loc *time.Location) (ap timeseries.AlignmentPeriod, err error) {
	switch kind {
	case "day":
		return timeseries.NewDayAlignmentPeriod(loc), nil
	case "week":
		return timeseries.NewWeekAlignmentPeriod(loc), nil
	case "month":
		return timeseries.NewMonthAlignmentPeriod(loc), nil
	case "quarter":
		return timeseries.NewQuarterAlignmentPeriod(loc), nil
	case "half":
		return timeseries.NewHalfYearAlignmentPeriod(loc), nil
	case "year":
		return timeseries.NewYearAlignmentPeriod(loc), nil
	}
	if d, ok := strings.CutPrefix(kind, "fixed:"); ok {
		n, err := strconv.ParseInt(d, 10, 64)
		if err != nil {
			return nil, err
		}
		return timeseries.NewFixedAlignmentPeriod(time.Duration(n), loc), nil
	}
	return nil, fmt.Errorf("bad kind %q", kind)
}

func c12ZoneOf(fields []string) (*time.Location, error) {
	// fields: zone <name> <init> <trans>
	if len(fields) != 4 || fields[0] != "zone" {
		return nil, fmt.Errorf("bad zone part")
	}
	init, err := strconv.Atoi(fields[2])
	if err != nil {
		return nil, err
	}
	switch fields[1] {
	case "UTC":
		return time.UTC, nil
	case "Fixed":
		return time.FixedZone("F", init), nil
	case "Synth":
		tr, err := c12ParseTrans(fields[3])
		if err != nil {
			return nil, err
		}
		return c12SynthLocation(init, tr)
	}
	return c12LoadLocation(fields[1])
}

func init() {
	Register("C12", Family{Gen: genC12, Exec: execC12})
}

func execC12(caseText string) (obs string) {
	defer func() {
		if r := recover(); r != nil {
			obs = "panic " + strings.ReplaceAll(fmt.Sprint(r), "\n", " ")
		}
	}()
	parts := strings.Split(caseText, " | ")
	head := strings.Fields(parts[0])
	if len(head) == 0 {
		return "bad-case"
	}
	switch head[0] {
	case "CAL":
		if len(head) != 2 {
			return "bad-case"
		}
		var out []string
		for _, ds := range strings.Split(head[1], ",") {
			d, err := strconv.ParseInt(ds, 10, 64)
			if err != nil {
				return "bad-case"
			}
			t := time.Unix(d*86400, 0).UTC()
			y, m, dd := t.Date()
			ms := time.Date(y, m, 1, 0, 0, 0, 0, time.UTC).Unix()
			if ms%86400 != 0 {
				return "bad-calendar"
			}
			out = append(out, fmt.Sprintf("%d/%d/%d/%d/%d", y, int(m), dd, int(t.Weekday()), ms/86400))
		}
		return strings.Join(out, ";")
	case "P", "S":
		if len(parts) != 3 || len(head) != 2 {
			return "bad-case"
		}
		loc, err := c12ZoneOf(strings.Fields(parts[1]))
		if err != nil {
			return "bad-zone " + strings.ReplaceAll(err.Error(), "\n", " ")
		}
		ap, err := c12Period(head[1], loc)
		if err != nil {
			return "bad-case"
		}
		tail := strings.Fields(parts[2])
		if head[0] == "P" {
			if len(tail) != 2 || tail[0] != "t" {
				return "bad-case"
			}
			var sb strings.Builder
			for i, is := range strings.Split(tail[1], ",") {
				t, err := c12ParseInstant(is)
				if err != nil {
					return "bad-case"
				}
				s := ap.GetStartTime(t)
				e := ap.GetEndTime(t)
				ss := ap.GetStartTime(s)
				se := ap.GetStartTime(e)
				if i > 0 {
					sb.WriteByte(';')
				}
				sb.WriteString(c12FmtInstant(s))
				sb.WriteByte(',')
				sb.WriteString(c12FmtInstant(e))
				sb.WriteByte(',')
				sb.WriteString(c12FmtInstant(ss))
				sb.WriteByte(',')
				sb.WriteString(c12FmtInstant(se))
			}
			return sb.String()
		}
		// S
		if len(tail) != 6 || tail[0] != "from" || tail[2] != "to" || tail[4] != "budget" {
			return "bad-case"
		}
		from, err1 := c12ParseInstant(tail[1])
		to, err2 := c12ParseInstant(tail[3])
		budget, err3 := strconv.Atoi(tail[5])
		if err1 != nil || err2 != nil || err3 != nil || budget < 0 || budget > 100000 {
			return "bad-case"
		}
		ctx, cancel := context.WithTimeout(context.Background(), 20*time.Second)
		defer cancel()
		res, err := timeseries.AlignedTimestampsStream(ap, from, to).Limit(budget + 1).Collect(ctx)
		if err != nil {
			return errClass(err)
		}
		tag := "ok"
		if len(res) > budget {
			tag = "budget"
			res = res[:budget]
		}
		if len(res) == 0 {
			return tag + " -"
		}
		strs := make([]string, len(res))
		for i, t := range res {
			strs[i] = c12FmtInstant(t)
		}
		return tag + " " + strings.Join(strs, ",")
	}
	return "bad-case"
}

// ---------------------------------------------------------------------------------------------
// zone table

var c12Lo = time.Date(1888, 1, 1, 0, 0, 0, 0, time.UTC).Unix()
var c12Hi = time.Date(2112, 1, 1, 0, 0, 0, 0, time.UTC).Unix()
var c12GenLo = time.Date(1900, 1, 1, 0, 0, 0, 0, time.UTC).Unix()
var c12GenHi = time.Date(2100, 1, 1, 0, 0, 0, 0, time.UTC).Unix()

// c12Extract recovers the offset changes of loc in [c12Lo, c12Hi) through ZoneBounds / Zone.
// ZoneBounds also reports boundaries at which the offset does not change (abbreviation changes, and - in the
// range covered by the zone's POSIX rule - the start of every UTC year); those are dropped: time.Date's result
// only depends on the offset function (Props: goDateSec_eq_offsets).  At the table/rule seam and on Dec 31 of leap
// years ZoneBounds can return end <= t; then step forward by an hour.
func c12Extract(name string, loc *time.Location) c12Zone {
	z := c12Zone{Name: name, Loc: loc}
	t := time.Unix(c12Lo, 0).In(loc)
	_, z.Init = t.Zone()
	cur := z.Init
	for guard := 0; guard < 200000; guard++ {
		_, end := t.ZoneBounds()
		if end.IsZero() || end.Unix() >= c12Hi {
			// no more boundaries reported: still probe the remaining range coarsely for safety
			break
		}
		if !end.After(t) {
			t = t.Add(time.Hour)
			_, off := t.Zone()
			if off != cur {
				// an offset change inside a stuck stretch: locate it to the second by bisection
				lo, hi := t.Add(-time.Hour).Unix(), t.Unix()
				for hi-lo > 1 {
					mid := lo + (hi-lo)/2
					if _, o := time.Unix(mid, 0).In(loc).Zone(); o == cur {
						lo = mid
					} else {
						hi = mid
					}
				}
				z.Trans = append(z.Trans, c12Tr{hi, off})
				cur = off
			}
			continue
		}
		_, off := end.Zone()
		if off != cur {
			z.Trans = append(z.Trans, c12Tr{end.Unix(), off})
			cur = off
		}
		t = end
	}
	return z
}

func c12ZoneNames() []string {
	var names []string
	_ = filepath.WalkDir(c12ZoneDir, func(p string, d fs.DirEntry, err error) error {
		if err != nil {
			return nil
		}
		rel, _ := filepath.Rel(c12ZoneDir, p)
		if d.IsDir() {
			if rel == "posix" || rel == "right" {
				return filepath.SkipDir // copies of the same zones (right/ = with leap-second tables)
			}
			return nil
		}
		if rel == "localtime" || rel == "posixrules" || strings.Contains(rel, ".") || rel == "leapseconds" || rel == "Factory" {
			return nil
		}
		names = append(names, filepath.ToSlash(rel))
		return nil
	})
	sort.Strings(names)
	return names
}

var c12Must = []string{"UTC", "America/New_York", "Europe/London", "America/Sao_Paulo", "America/Havana", "Asia/Kolkata",
	"Australia/Lord_Howe", "Pacific/Apia", "America/Phoenix", "Asia/Tehran", "America/Santiago", "Etc/GMT+5"}

// c12Window renders the zone part of a case: the offset changes within [lo-W, hi+W] seconds.
const c12W = 800 * 86400

func (z *c12Zone) part(loSec, hiSec int64) string {
	a := sort.Search(len(z.Trans), func(i int) bool { return z.Trans[i].When >= loSec-c12W })
	b := sort.Search(len(z.Trans), func(i int) bool { return z.Trans[i].When > hiSec+c12W })
	init := z.Init
	if a > 0 {
		init = z.Trans[a-1].Off
	}
	return fmt.Sprintf("zone %s %d %s", z.Name, init, c12FmtTrans(z.Trans[a:b]))
}

func c12Join(ns []int64) string {
	strs := make([]string, len(ns))
	for i, n := range ns {
		strs[i] = strconv.FormatInt(n, 10)
	}
	return strings.Join(strs, ",")
}

func c12SortedUniq(ns []int64) []int64 {
	sort.Slice(ns, func(i, j int) bool { return ns[i] < ns[j] })
	out := ns[:0]
	for i, n := range ns {
		if i == 0 || n != ns[i-1] {
			out = append(out, n)
		}
	}
	return out
}

var c12Kinds = []string{"day", "week", "month", "quarter", "half", "year"}

// fixed durations (ns): 1ms .. 7d, round and odd
var c12Durs = []int64{1e6, 1e9, 60e9, 7 * 60e9, 3600e9, 3 * 3600e9, 86400e9, 7 * 86400e9, 1234567e3, 90061e9 + 1}

func (c *Ctx) c12RandDur() int64 {
	switch c.Rng.Intn(4) {
	case 0:
		return c12Durs[c.Rng.Intn(len(c12Durs))]
	case 1:
		return int64(c.Rng.Range(1, 604800000)) * 1e6 // whole milliseconds up to 7 d
	case 2:
		return int64(c.Rng.Range(1, 7*24)) * 3600e9
	default:
		return 1e6 + int64(c.Rng.Next()%uint64(7*86400e9-1e6+1)) // any ns count in [1ms, 7d]
	}
}

// c12P emits one P line; non-trivial iff the instants fall into at least two different periods.
func (c *Ctx) c12P(kind string, z *c12Zone, inst []int64) {
	inst = c12SortedUniq(inst)
	lo, hi := inst[0]/1e9, inst[len(inst)-1]/1e9
	if strings.HasPrefix(kind, "fixed:") {
		lo, hi = 0, 0 // a fixed period depends on the zone only through its local 1970 epoch
	}
	text := fmt.Sprintf("P %s | %s | t %s", kind, z.part(lo-1, hi+1), c12Join(inst))
	obs := c.fam.Exec(text)
	starts := map[string]bool{}
	for _, g := range strings.Split(obs, ";") {
		s, _, _ := strings.Cut(g, ",")
		starts[s] = true
	}
	c.Raw(len(starts) >= 2, text, obs)
}

func (c *Ctx) c12S(kind string, z *c12Zone, from, to int64, budget int) {
	lo, hi := from/1e9, to/1e9
	if hi < lo {
		lo, hi = hi, lo
	}
	if strings.HasPrefix(kind, "fixed:") {
		lo, hi = 0, 0
	}
	text := fmt.Sprintf("S %s | %s | from %d to %d budget %d", kind, z.part(lo-1, hi+1), from, to, budget)
	obs := c.fam.Exec(text)
	c.Raw(strings.Count(obs, ",") >= 1, text, obs)
}

// nominal length of a period in nanoseconds (for choosing ranges)
func c12Nominal(kind string) int64 {
	switch kind {
	case "day":
		return 86400e9
	case "week":
		return 7 * 86400e9
	case "month":
		return 30 * 86400e9
	case "quarter":
		return 91 * 86400e9
	case "half":
		return 182 * 86400e9
	case "year":
		return 365 * 86400e9
	}
	if d, ok := strings.CutPrefix(kind, "fixed:"); ok {
		n, _ := strconv.ParseInt(d, 10, 64)
		return n
	}
	return 86400e9
}

var c12Around = []int64{-86400e9, -3600e9, -1e9, -1, 0, 1, 1e9, 3600e9, 86400e9}

func genC12(c *Ctx) {
	// ---- 0. calendar: Go's Date()/Date(y,m,1) against the model's civil/monthStart ----------------------------
	{
		var days []int64
		if c.Thorough {
			for d := int64(-25567 - 366); d <= 47482+366; d++ { // every day 1899..2100
				days = append(days, d)
			}
		} else {
			for d := int64(-25567); d <= 47482; d += 37 {
				days = append(days, d)
			}
			for y := 1896; y <= 2104; y += 4 { // Feb 27 .. Mar 2 around every (non-)leap day
				b := time.Date(y, 2, 27, 0, 0, 0, 0, time.UTC).Unix() / 86400
				days = append(days, b, b+1, b+2, b+3, b+4)
			}
		}
		for i := 0; i < 400; i++ { // far away days (incl. negative years and 400-year boundaries)
			days = append(days, int64(c.Rng.Range(-4000000, 4000000)))
		}
		for _, y := range []int{-400, -1, 0, 1, 400, 1600, 2000, 2400, 4000} {
			b := time.Date(y, 1, 1, 0, 0, 0, 0, time.UTC).Unix() / 86400
			days = append(days, b-1, b, b+58, b+59, b+60, b+364, b+365)
		}
		for i := 0; i < len(days); i += 100 {
			j := i + 100
			if j > len(days) {
				j = len(days)
			}
			c.Case(true, "CAL "+c12Join(days[i:j]))
		}
	}

	// ---- 1. exhaustive small scope: synthetic zones with one transition near a local midnight ------------------
	// day A = Monday 2024-01-01 (start of week, month, quarter, half-year and year), day B = Wednesday 2024-03-13.
	dayA := time.Date(2024, 1, 1, 0, 0, 0, 0, time.UTC).Unix()
	dayB := time.Date(2024, 3, 13, 0, 0, 0, 0, time.UTC).Unix()
	inits := []int{-3 * 3600, 0, 3 * 3600, 19800}
	deltas := []int{3600, -3600, 1800, -1800, 7200, 86400}
	// wall clock (seconds relative to the local midnight) shown by the old offset at the transition
	walls := []int64{-3600, -1800, 0, 1800, 3600, 43200}
	for _, day := range []int64{dayA, dayB} {
		for _, init := range inits {
			for _, dl := range deltas {
				for _, w := range walls {
					when := day + w - int64(init)
					z := &c12Zone{Name: "Synth", Init: init, Trans: []c12Tr{{when, init + dl}}}
					var inst []int64
					for _, a := range c12Around {
						inst = append(inst, when*1e9+a)
					}
					// also the instants whose NEW wall clock is at / just before the local midnight, and the midnights as
					// seen by either offset
					for _, m := range []int64{day - int64(init), day - int64(init+dl), day + 86400 - int64(init+dl), day - 86400 - int64(init)} {
						inst = append(inst, m*1e9, m*1e9-1)
					}
					for _, k := range c12Kinds {
						c.c12P(k, z, inst)
					}
					c.c12P("fixed:3600000000000", z, inst)
					c.c12P("fixed:86400000000000", z, inst)
					for _, k := range []string{"day", "week", "month"} {
						n := c12Nominal(k)
						c.c12S(k, z, when*1e9-2*n+5, when*1e9+3*n, 16)
					}
				}
			}
		}
	}
	// synthetic zones whose 1970 local epoch is itself skipped / repeated / after a transition (fixed periods)
	for _, init := range inits {
		for _, dl := range []int{3600, -3600} {
			for _, w := range walls {
				when := w - int64(init)
				z := &c12Zone{Name: "Synth", Init: init, Trans: []c12Tr{{when, init + dl}}}
				var inst []int64
				for _, a := range c12Around {
					inst = append(inst, when*1e9+a, a)
				}
				for _, d := range []int64{1e6, 7 * 60e9, 3600e9, 86400e9} {
					c.c12P(fmt.Sprintf("fixed:%d", d), z, inst)
				}
			}
		}
	}

	// ---- 2. real zones ---------------------------------------------------------------------------------------
	names := c12ZoneNames()
	var zones []*c12Zone
	seen := map[string]string{} // transition signature -> first name
	must := map[string]bool{}
	for _, n := range c12Must {
		must[n] = true
	}
	var all []*c12Zone
	for _, n := range names {
		loc, err := c12LoadLocation(n)
		if err != nil {
			continue // not a zone file
		}
		z := c12Extract(n, loc)
		all = append(all, &z)
	}
	// must zones first so that an alias never displaces them
	sort.SliceStable(all, func(i, j int) bool { return must[all[i].Name] && !must[all[j].Name] })
	for _, z := range all {
		sig := fmt.Sprintf("%d %s", z.Init, c12FmtTrans(z.Trans))
		if first, dup := seen[sig]; dup && !must[z.Name] {
			if os.Getenv("C12_ALIASES") != "" {
				fmt.Fprintf(os.Stderr, "alias %s %s\n", z.Name, first) // same offset table as an earlier name
			}
			continue
		}
		seen[sig] = z.Name
		zones = append(zones, z)
	}
	fixedZ := &c12Zone{Name: "Fixed", Init: 19800 + 17}
	fixedW := &c12Zone{Name: "Fixed", Init: -12*3600 - 1}
	utc := &c12Zone{Name: "UTC", Init: 0}
	var chosen []*c12Zone
	if c.Thorough {
		chosen = zones
	} else {
		var rest []*c12Zone
		for _, z := range zones {
			if must[z.Name] {
				chosen = append(chosen, z)
			} else {
				rest = append(rest, z)
			}
		}
		for i := 0; i < 30 && len(rest) > 0; i++ {
			j := c.Rng.Intn(len(rest))
			chosen = append(chosen, rest[j])
			rest = append(rest[:j], rest[j+1:]...)
		}
	}
	chosen = append(chosen, fixedZ, fixedW, utc)

	for _, z := range chosen {
		// 2a. every offset change 1900-2100 x every calendar kind x {0, +-1ns, +-1s, +-1h, +-1d}
		for _, tr := range z.Trans {
			if tr.When < c12GenLo || tr.When >= c12GenHi {
				continue
			}
			inst := make([]int64, 0, len(c12Around))
			for _, a := range c12Around {
				inst = append(inst, tr.When*1e9+a)
			}
			for _, k := range c12Kinds {
				c.c12P(k, z, append([]int64(nil), inst...))
			}
			c.c12P(fmt.Sprintf("fixed:%d", c.c12RandDur()), z, append([]int64(nil), inst...))
			// a stream across the change (day and one random other kind)
			if c.Thorough || c.Rng.Intn(4) == 0 {
				for _, k := range []string{"day", c12Kinds[c.Rng.Intn(len(c12Kinds))]} {
					n := c12Nominal(k)
					from := tr.When*1e9 - int64(c.Rng.Range(0, 3))*n - int64(c.Rng.Intn(3))
					to := tr.When*1e9 + int64(c.Rng.Range(0, 4))*n + int64(c.Rng.Intn(3)) - 1
					c.c12S(k, z, from, to, 24)
				}
			}
		}
		// 2b. random instants 1900-2100 (before and after 1970), batches of nearby instants
		nb := c.Pick(40, 150)
		for i := 0; i < nb; i++ {
			base := c12GenLo + int64(c.Rng.Next()%uint64(c12GenHi-c12GenLo))
			kind := ""
			if c.Rng.Intn(3) == 0 {
				kind = fmt.Sprintf("fixed:%d", c.c12RandDur())
			} else {
				kind = c12Kinds[c.Rng.Intn(len(c12Kinds))]
			}
			span := 3 * c12Nominal(kind)
			var inst []int64
			for j := 0; j < 8; j++ {
				inst = append(inst, base*1e9+int64(c.Rng.Next()%uint64(2*span+1))-span)
			}
			// period boundaries: the local midnight of the day / of the 1st of the month / (sometimes) of Jan 1st as
			// Go's time package resolves them, and the instant just before
			lt := time.Unix(base, 0).In(z.loc())
			y, mo, d := lt.Date()
			bounds := []time.Time{time.Date(y, mo, d, 0, 0, 0, 0, z.loc()), time.Date(y, mo, 1, 0, 0, 0, 0, z.loc())}
			if c.Rng.Intn(3) == 0 {
				bounds = append(bounds, time.Date(y, 1, 1, 0, 0, 0, 0, z.loc()))
			}
			for _, b := range bounds {
				inst = append(inst, b.UnixNano(), b.UnixNano()-1)
			}
			c.c12P(kind, z, inst)
		}
		// 2c. fixed durations around the zone's local 1970 epoch (the repaired D13 region) and at the pool durations
		ep := time.Date(1970, 1, 1, 0, 0, 0, 0, z.loc()).UnixNano()
		for _, d := range c12Durs {
			var inst []int64
			for _, m := range []int64{-3, -2, -1, 0, 1, 2} {
				inst = append(inst, ep+m*d, ep+m*d-1, ep+m*d+1)
			}
			inst = append(inst, ep+int64(c.Rng.Next()%uint64(d)), ep-int64(c.Rng.Next()%uint64(d)))
			c.c12P(fmt.Sprintf("fixed:%d", d), z, inst)
		}
		// 2d. streams from random instants
		ns := c.Pick(12, 40)
		for i := 0; i < ns; i++ {
			kind := c12Kinds[c.Rng.Intn(len(c12Kinds))]
			if c.Rng.Intn(4) == 0 {
				kind = fmt.Sprintf("fixed:%d", c.c12RandDur())
			}
			n := c12Nominal(kind)
			from := (c12GenLo+int64(c.Rng.Next()%uint64(c12GenHi-c12GenLo)))*1e9 + int64(c.Rng.Intn(1000000000))
			var to int64
			switch c.Rng.Intn(6) {
			case 0:
				to = from - int64(c.Rng.Intn(5))*n // empty range
			case 1:
				to = from + int64(c.Rng.Intn(2)) // inside the first period
			default:
				to = from + int64(c.Rng.Next()%uint64(14*n))
			}
			c.c12S(kind, z, from, to, 40)
		}
	}
}

func (z *c12Zone) loc() *time.Location {
	if z.Loc != nil {
		return z.Loc
	}
	switch z.Name {
	case "UTC":
		return time.UTC
	case "Fixed":
		return time.FixedZone("F", z.Init)
	}
	l, err := c12SynthLocation(z.Init, z.Trans)
	if err != nil {
		panic(err)
	}
	return l
}
