package run

import "fmt"

// C07: terminals terminate, honour cancellation, leave no goroutines behind.  Case lines: conc_util.go.
// Observed per case: the terminal returned within the watchdog (hang=-), its error class, the delivered multiset, and
// the goroutines of the materialisation still alive after a quiescence wait during which nothing more is released
// (leak).  Racy recipes (filt=d7) are repeated `trials` times and the outcome classes are counted.

func init() {
	Register("C07", Family{Gen: genC07, Exec: execConc("C07")})
}

func genC07(c *Ctx) {
	var cases []concGenCase
	emit := func(nt bool, text string) { cases = append(cases, concGenCase{nt, text}) }
	defer func() { concEmitAll(c, "C07", cases) }()

	// (a) exhaustive small scope: cancel injected before every scheduler action of a gated run
	maxN := c.Pick(3, 4)
	for _, op := range []string{"cmap", "ccons", "buf", "nest", "pipe"} {
		for n := 0; n <= maxN; n++ {
			for cc := 1; cc <= 2; cc++ {
				if (op == "buf" || op == "pipe") && cc > 1 {
					continue
				}
				for _, gates := range []string{"mg=1 cg=0 sg=0", "mg=0 cg=1 sg=0", "mg=1 cg=1 sg=0", "mg=0 cg=0 sg=1"} {
					if op == "ccons" && gates[5:9] == "cg=1" {
						continue
					}
					if (op == "buf" || op == "pipe") && gates[0:4] == "mg=1" {
						continue
					}
					if op == "pipe" && gates[5:9] == "cg=1" {
						continue
					}
					steps := 2*n + 2
					for t := 0; t <= steps; t++ {
						for _, sc := range []string{"-", "1,1,1,1,1,1,1,1,1,1,1,1"} {
							extra := ""
							if op == "pipe" {
								extra = fmt.Sprintf(" reads=%d", (t+n)%(2*n+3)-1)
							}
							emit(n >= 2, fmt.Sprintf("%s c=%d n=%d size=%d sync=1 %s cancel=%d%s script=%s", op, cc, n, 2+cc, gates, t, extra, sc))
						}
					}
				}
			}
		}
	}
	// (a2) concurrent consume whose callbacks finish their work regardless of the cancellation (they return nil when the
	//      environment releases them): a cancel that arrives after the source was read to its end but while elements are
	//      still queued must still be reported
	for cc := 1; cc <= 3; cc++ {
		for n := cc + 1; n <= 2*cc+1; n++ {
			for t := 0; t <= 2; t++ {
				emit(true, fmt.Sprintf("ccons c=%d n=%d sync=1 mg=1 ign=1 cancel=%d script=-", cc, n, t))
				emit(true, fmt.Sprintf("ccons c=%d n=%d sync=1 mg=1 ign=1 cancel=%d script=1,0,2,1,0,1", cc, n, t))
			}
		}
	}
	// (a3) concurrent consume with long-running callbacks bound to the context they were given: when one callback fails (or
	//      panics) the library itself has to cancel its siblings, otherwise the terminal never returns
	for cc := 2; cc <= 4; cc++ {
		for _, n := range []int{cc, cc + 1, 2*cc + 1} {
			for f := 0; f < cc && f < 3; f++ {
				emit(true, fmt.Sprintf("ccons c=%d n=%d sync=1 mg=0 ctxbound=1 mf=%d script=-", cc, n, f))
				emit(true, fmt.Sprintf("ccons c=%d n=%d sync=1 mg=0 ctxbound=1 mp=%d script=-", cc, n, f))
			}
		}
	}
	// (b) seeded random: every wrapper / fault / early stop, optional cancel, gated source (reader blocked in Emit)
	nr := c.Pick(500, 6000)
	ops := []string{"cmap", "cmap", "ccons", "buf", "nest", "pipe"}
	for i := 0; i < nr; i++ {
		op := ops[c.Rng.Intn(len(ops))]
		cc := c.Rng.Range(1, c.Pick(3, 6))
		n := c.Rng.Range(0, c.Pick(6, 4*cc+3))
		size := c.Rng.Range(2, 5)
		ws := concWrappers(op, n)
		w := ws[c.Rng.Intn(len(ws))]
		mg, cg, sg := c.Rng.Intn(2), c.Rng.Intn(2), 0
		if c.Rng.Intn(3) == 0 {
			sg = 1
		}
		if op == "ccons" {
			cg = 0
		}
		if op == "buf" || op == "pipe" {
			mg = 0
		}
		extra := ""
		if c.Rng.Intn(2) == 0 {
			extra += fmt.Sprintf(" cancel=%d", c.Rng.Intn(2*n+3))
		}
		if c.Rng.Intn(6) == 0 {
			extra += fmt.Sprintf(" park=%d", c.Rng.Intn(n+1))
		}
		if op == "pipe" {
			cg = 0
			extra += fmt.Sprintf(" reads=%d", c.Rng.Range(-1, 2*n+2))
			if w != "" && w[1] != 's' {
				w = ""
			}
		}
		script := make([]int, 3*n+6)
		for j := range script {
			script[j] = c.Rng.Intn(16)
		}
		emit(n >= 2 && (w != "" || extra != ""), fmt.Sprintf("%s c=%d n=%d size=%d sync=1 mg=%d cg=%d sg=%d%s%s script=%s", op, cc, n, size, mg, cg, sg, w, extra, concScript(script)))
	}
	// (c) free-running (the Go scheduler picks the interleaving), cancel at a random action
	nf := c.Pick(300, 4000)
	for i := 0; i < nf; i++ {
		op := ops[c.Rng.Intn(len(ops))]
		cc := c.Rng.Range(1, c.Pick(4, 8))
		n := c.Rng.Range(0, 4*cc+3)
		size := c.Rng.Range(2, 5)
		ws := concWrappers(op, n)
		w := ws[c.Rng.Intn(len(ws))]
		extra := ""
		mg := c.Rng.Intn(2)
		if op == "buf" || op == "pipe" {
			mg = 0
		}
		if mg == 1 && c.Rng.Intn(2) == 0 {
			extra += fmt.Sprintf(" cancel=%d", c.Rng.Intn(n+1))
		}
		if op == "pipe" {
			extra += fmt.Sprintf(" reads=%d", c.Rng.Range(-1, 2*n+2))
			if w != "" && w[1] != 's' {
				w = ""
			}
		}
		emit(n >= 2 && (w != "" || extra != ""), fmt.Sprintf("%s c=%d n=%d size=%d sync=0 mg=%d yield=%d%s%s script=-", op, cc, n, size, mg, c.Rng.Intn(3), w, extra))
	}
	// (e) hand-off under back-pressure: fill the stage (only source releases) until the channel is full, every worker is
	//     inside its callback and the producer is parked in its NEXT Emit; then make the workers leave through the error
	//     path (a failing callback / a consumer that stops / a cancel) and let the pending Emit fail with the ctx error:
	//     the producer's hand-off of that error must not block (nobody is left to drain), the terminal must return
	zeros := func(k int) []int { return make([]int, k) }
	for cc := 1; cc <= c.Pick(3, 4); cc++ {
		// concurrent consume: c in callbacks + c queued = 2c source releases, then pick the first callback
		fill := append(zeros(2*cc), 1)
		for _, trig := range []string{"mf=0", fmt.Sprintf("mf=%d", cc-1), "mp=0", fmt.Sprintf("cancel=%d", 2*cc)} {
			emit(true, fmt.Sprintf("ccons c=%d n=%d sync=1 mg=1 sg=1 %s script=%s", cc, 2*cc+3, trig, concScript(fill)))
		}
		// concurrent map: c in mappers + c in srcChan, consumer gated: first delivery never happens before the trigger
		for _, trig := range []string{"mf=0", "mp=0", fmt.Sprintf("cancel=%d", 2*cc), "cf=1", "limit=1"} {
			emit(true, fmt.Sprintf("cmap c=%d n=%d sync=1 mg=1 cg=1 sg=1 %s script=%s", cc, 3*cc+4, trig, concScript(fill)))
			emit(true, fmt.Sprintf("nest c=%d n=%d size=2 sync=1 mg=1 cg=1 sg=1 %s script=%s", cc, 3*cc+4, trig, concScript(fill)))
			// the same with the stage as a later inner stream of a Concat (opened while emitting)
			emit(true, fmt.Sprintf("cmap c=%d n=%d sync=1 mg=1 cg=1 sg=1 tail=1 %s script=%s", cc, 3*cc+4, trig, concScript(fill)))
			emit(true, fmt.Sprintf("nest c=%d n=%d size=2 sync=1 mg=1 cg=1 sg=1 tail=1 %s script=%s", cc, 3*cc+4, trig, concScript(fill)))
		}
		for _, trig := range []string{"cf=1", "limit=1", "first=1", "mf=1"} {
			// ungated, the workers run ahead of a consumer that stops by itself: nobody cancels the caller's ctx
			emit(true, fmt.Sprintf("cmap c=%d n=%d sync=0 mg=0 yield=1 tail=1 %s script=-", cc, 6*cc+8, trig))
			emit(true, fmt.Sprintf("nest c=%d n=%d size=2 sync=0 mg=0 yield=1 tail=1 %s script=-", cc, 6*cc+8, trig))
			emit(true, fmt.Sprintf("buf c=1 n=%d size=%d sync=0 yield=1 tail=1 %s script=-", 6*cc+8, cc+1, trig))
		}
		// Buffered: size-1 queued + 1 in hand, then the consumer stops / is cancelled while the filler is in Emit
		for _, trig := range []string{"cf=1", "limit=1", fmt.Sprintf("cancel=%d", cc+2)} {
			emit(true, fmt.Sprintf("buf c=1 n=%d size=%d sync=1 cg=1 sg=1 %s script=%s", cc+6, cc+1, trig, concScript(zeros(cc+3))))
		}
	}
	// (e'') concurrent consume over a concurrent map whose source has gone quiet (parked inside a context-honouring Emit):
	//       a failing / panicking consumer callback must end the terminal (nobody cancels the caller's context)
	for cc := 1; cc <= 3; cc++ {
		for park := 1; park <= 3; park++ {
			for _, trig := range []string{"mf=0", "mp=0", fmt.Sprintf("mf=%d", park-1)} {
				emit(true, fmt.Sprintf("ccons c=%d n=%d sync=0 mg=0 park=%d %s over=cmap script=-", cc, park+4, park, trig))
			}
		}
	}
	// (e') JSON pipe: the source fails while the consumer, having read `reads` chunks, waits on its own context instead of
	//      reading on (a stalled context-aware sink; reads=0: it has not started reading): the helper must end it
	for n := 1; n <= 3; n++ {
		for se := 0; se <= n; se++ {
			// chunks before element se fails: "[" e0 "," e1 ... = 2*se of them; the writer blocks in its next Write unless
			// they are read
			emit(true, fmt.Sprintf("pipe c=1 n=%d sync=0 se=%d reads=%d cwait=1 script=-", n, se, 2*se))
		}
	}
	// (f) a lifecycle element AFTER the asynchronous stage fails to open (error / panic), caller ctx never cancelled,
	//     source longer than the buffers: the terminal returns the open error and every goroutine already started by
	//     the stage must exit (doOpenStream cancels the materialisation ctx)
	for _, of := range []string{"err", "panic"} {
		for cc := 1; cc <= c.Pick(3, 4); cc++ {
			for _, gates := range []string{"mg=0 sg=0", "mg=1 sg=0", "mg=0 sg=1"} {
				emit(true, fmt.Sprintf("cmap c=%d n=%d sync=1 %s ofail=%s script=-", cc, 3*cc+4, gates, of))
				emit(true, fmt.Sprintf("nest c=%d n=%d size=%d sync=1 %s ofail=%s script=-", cc, 3*cc+8, cc+1, gates, of))
			}
			for _, sg := range []int{0, 1} {
				emit(true, fmt.Sprintf("buf c=1 n=%d size=%d sync=1 sg=%d ofail=%s script=-", 2*cc+4, cc+1, sg, of))
				emit(true, fmt.Sprintf("buf c=1 n=%d size=%d sync=0 sg=%d yield=2 ofail=%s script=-", 2*cc+4, cc+1, sg, of))
			}
			emit(true, fmt.Sprintf("cmap c=%d n=%d sync=0 mg=0 yield=1 ofail=%s script=-", cc, 3*cc+4, of))
			// the open fails once the stage is saturated (workers blocked handing over results nobody takes)
			emit(true, fmt.Sprintf("cmap c=%d n=%d sync=0 mg=0 osat=1 ofail=%s script=-", cc, 5*cc+6, of))
			emit(true, fmt.Sprintf("nest c=%d n=%d size=%d sync=0 mg=0 osat=1 ofail=%s script=-", cc, 5*cc+10, cc+1, of))
			emit(true, fmt.Sprintf("buf c=1 n=%d size=%d sync=0 osat=1 ofail=%s script=-", 2*cc+6, cc+1, of))
		}
	}
	// (e'') concurrent consume with one worker: the callback fails on element 0 while element 1 sits in the (full) item channel
	//       and the producer is inside Emit for element 2, which then comes back with an error: the producer has nobody to
	//       hand that error to and must still end
	for _, mg := range []int{0, 1} {
		emit(true, fmt.Sprintf("ccons c=1 n=6 size=3 sync=1 mg=%d park=2 mf=0 script=-", mg))
		emit(true, fmt.Sprintf("ccons c=1 n=6 size=3 sync=1 mg=%d park=2 mf=0 rep=2 script=-", mg))
		emit(true, fmt.Sprintf("ccons c=1 n=6 size=3 sync=1 mg=%d park=2 mp=0 script=-", mg))
	}
	// (f') the SOURCE fails to open: the asynchronous stage never got a reader going; its stop / close sequence must not
	//      wait for one (first materialisation of the stream value, and again after it)
	for cc := 1; cc <= 2; cc++ {
		for _, op := range []string{"cmap", "nest", "buf", "ccons"} {
			emit(true, fmt.Sprintf("%s c=%d n=%d size=3 sync=0 mg=0 sofail=1 script=-", op, cc, 4+cc))
			emit(true, fmt.Sprintf("%s c=%d n=%d size=3 sync=0 mg=0 sofail=1 rep=2 script=-", op, cc, 4+cc))
		}
	}
	// (g) the SAME stream value materialised 2-3 times; a later materialisation ends early while the reader is parked
	//     inside Emit (state kept in the provider object across materialisations shows from the second run on)
	for _, op := range []string{"cmap", "ccons", "buf", "nest"} {
		for rep := 2; rep <= 3; rep++ {
			for n := 2; n <= 3; n++ {
				for park := 1; park <= n; park++ {
					ends := []string{"cancel=0", "cancel=1", fmt.Sprintf("se=%d", park-1)}
					if op != "ccons" {
						ends = append(ends, "limit=1", "cf=1", "first=1")
					} else {
						ends = append(ends, "mf=0")
					}
					for _, e := range ends {
						for lf := 0; lf <= 1; lf++ {
							emit(true, fmt.Sprintf("%s c=%d n=%d size=%d sync=1 mg=0 park=%d %s rep=%d lastfull=%d script=-", op, 1+n%2, n, 2+n%2, park, e, rep, lf))
						}
					}
				}
			}
			// complete runs, several times
			emit(true, fmt.Sprintf("%s c=2 n=5 size=3 sync=1 mg=0 rep=%d lastfull=1 script=-", op, rep))
			if op != "pipe" && op != "ccons" {
				// the next materialisation starts right after the previous terminal returned (free-running)
				emit(true, fmt.Sprintf("%s c=2 n=6 size=3 sync=0 limit=1 rep=%d nowait=1 lastfull=1 child=1 script=-", op, 10*rep))
				emit(true, fmt.Sprintf("%s c=3 n=6 size=3 sync=0 cf=2 rep=%d nowait=1 lastfull=1 child=1 script=-", op, 10*rep))
			}
			if op == "cmap" || op == "ccons" {
				emit(true, fmt.Sprintf("%s c=2 n=5 sync=1 mg=1 rep=%d script=1,0,1,0,0", op, rep))
			}
		}
	}
	// (d) the racy recipes, a few trials each (the corpus runs them with many trials)
	emit(true, "buf c=1 n=20 size=3 sync=1 filt=d7 trials=20 script=-")
	emit(true, "cmap c=1 n=3 sync=1 mg=1 filt=d7 trials=40 script=-")
}
