package run

import (
	"fmt"
	"strings"
)

// C18: reusable streams re-materialise identically, whatever happened before.
// Histories of up to 3 materialisations of ONE stream value over the reusable subset
// (probe sources behave like Just: index reset on Open/Close; Map, Filter, lifecycles, Concat, ZipN, Merge).
func init() {
	Register("C18", Family{Gen: func(c *Ctx) { genC18(c); genPipeDynHist(c) }, Exec: execPipeOrDyn}) // DYN: FlatMap family histories (pipedyn.go)
}

func genC18(c *Ctx) {
	fixed := []string{
		"merge 2 src 0 1,3 src 1 2,4",
		"merge 3 src 0 1,1,5 src 1 - src 2 0,2",
		"concat 2 src 0 1,2 src 1 3",
		"concat 3 src 0 - src 1 1 lc 3 src 2 2,3",
		"zip 2 src 0 1,2,3 src 1 4,5",
		"lc 1 map add:1 filter mod:2:0 src 0 1,2,3,4",
		"merge 2 concat 2 src 0 1 src 1 4 map add:1 src 2 1,2",
		"zip 2 merge 2 src 0 1,3 src 1 2 concat 2 src 2 7 src 3 8,9",
		// an additional lifecycle on the composite itself (its Open may fail after the composite's own builder element opened)
		"lc 3 merge 2 src 0 1,3 src 1 2,4",
		"lc 3 concat 2 src 0 1,2 src 1 3",
		"lc 3 zip 2 src 0 1,2 src 1 3,4",
		"merge 2 lc 3 concat 2 src 0 1 src 1 4 src 2 2,3",
		"lc 4 lc 3 merge 2 src 0 1 src 1 2",
	}
	var pipes []string
	pipes = append(pipes, fixed...)
	n := c.Pick(300, 6000)
	for i := 0; i < n; i++ {
		g := &pgen{rng: c.Rng, srcMax: 5, noWindowCluster: true}
		txt, _ := g.pipe(c.Rng.Range(1, 3))
		pipes = append(pipes, txt)
	}
	// sources / operators of the reusable subset that are outside the Lean model (FromIterator, FromMap*, FlatMap,
	// Peek): spec-only histories, each fault-free materialisation compared with a fresh stream value (Go vs Go)
	specReusable := []string{
		"lc 1 fromiter 1,2,3",
		"merge 2 fromiter 1,3 fromiter 2,4",
		"map add:1 frommap 1,2,3,4",
		"concat 2 frommap 1,2 lc 2 fromiter 3",
		"flatmap lc 1 src 0 1,2,3",
		"zip 2 peek src 0 1,2,3 flatmap fromiter 4,5",
		"flatmap merge 2 src 0 1,3 src 1 2",
		"lc 1 frommapent 1,2,3,4",
		"map add:1 frommapval 5,6,7",
		"lc 1 fromiter2 1,2,3",
		"concat 2 frommapent 1,2,3,4 lc 2 fromiter2 100",
		"merge 2 fromiter2 1,3 fromiter2 2,4",
		"zip 2 fromiter2 1,2,3 fromiter 4,5,6",
		"lock 1 lc 1 src 0 1,2,3",
		"merge 2 map add:1 lock 1 src 0 1,2,3 src 1 4,5",
		"lock 2 lock 1 fromiter 1,2,3",
	}
	specEndings := []string{"collect all cancel@0", "collect all nofault", "collect take:1 nofault", "collect take:2 nofault", "collect take:3 nofault", "collect take:4 nofault", "user all err@1", "user all perr@2", "collect all cancel@2", "user all err@4"}
	for _, p := range specReusable {
		for _, e1 := range specEndings {
			c.Case(true, "SPEC "+strings.Join([]string{p, e1, "collect all nofault"}, " || "))
			for _, e2 := range specEndings {
				c.Case(true, "SPEC "+strings.Join([]string{p, e1, e2, "collect all nofault"}, " || "))
			}
		}
	}
	// asynchronous stages of the reusable subset (Map with the concurrent option, Buffered around it): histories in which
	// the next materialisation starts right after the previous terminal returned (goroutines of the previous one may
	// still be winding down)
	asyncReusable := []string{
		"cmap 2 add:1 src 0 1,2,3,4",
		"cmap 1 mul:2 src 0 1,2,3",
		"cmap 3 add:1 lc 1 src 0 1,2,3,4,5,6",
		"buffered 2 cmap 2 add:1 src 0 1,2,3,4",
		"map add:1 cmap 2 mul:2 concat 2 src 0 1,2 src 1 3,4",
		"buffered 3 lc 1 src 0 1,2,3,4,5",
	}
	asyncEndings := []string{"collect all nofault", "collect take:1 nofault", "collect take:2 nofault", "user all err@2", "collect all cancel@3"}
	for _, p := range asyncReusable {
		for _, e1 := range asyncEndings {
			for _, e2 := range asyncEndings {
				c.Case(true, "ASYNC "+strings.Join([]string{p, e1, e2, "collect take:1 nofault", "collect take:1 nofault", "collect all nofault"}, " || "))
				c.Case(true, "ASYNC "+strings.Join([]string{p, e1 + " nw", e2 + " nw", "collect take:1 nofault nw", "collect take:1 nofault nw", "collect all nofault"}, " || "))
			}
		}
		// many quick early stops in a row
		runs := []string{p}
		for i := 0; i < 40; i++ {
			runs = append(runs, "collect take:1 nofault nw")
		}
		runs = append(runs, "collect all nofault")
		c.Case(true, "ASYNC "+strings.Join(runs, " || "))
		// an early stop directly followed by a complete materialisation, many times over (whatever the first one left
		// running meets the second one)
		for _, stop := range []string{"collect take:1 nofault nw", "collect take:2 nofault nw", "user all err@2 nw", "collect all cancel@3 nw"} {
			runs = []string{p}
			for i := 0; i < 12; i++ {
				runs = append(runs, stop, "collect all nofault nw")
			}
			runs = append(runs, "collect all nofault")
			c.Case(true, "ASYNC "+strings.Join(runs, " || "))
		}
	}
	for pi, p := range pipes {
		nCalls := callsOf(p + " || collect all nofault")
		endings := []string{"collect all nofault", "collect take:1 nofault", "collect take:2 nofault", "collect take:0 nofault"}
		if nCalls > 0 {
			for _, k := range []string{"err", "perr", "cancel"} {
				endings = append(endings, fmt.Sprintf("collect all %s@%d", k, c.Rng.Intn(nCalls)))
				endings = append(endings, fmt.Sprintf("user all %s@%d", k, c.Rng.Intn(nCalls)))
			}
		}
		if pi < len(fixed) {
			// every position of a failing call once
			for k := 0; k < nCalls; k++ {
				endings = append(endings, fmt.Sprintf("collect all err@%d", k))
			}
			// exhaustive: all histories of length <= 2 over the endings, followed by a complete materialisation
			for _, e1 := range endings {
				c.Case(true, strings.Join([]string{p, e1, "collect all nofault"}, " || "))
				for _, e2 := range endings {
					c.Case(true, strings.Join([]string{p, e1, e2, "collect all nofault"}, " || "))
				}
			}
			continue
		}
		for h := 0; h < 4; h++ {
			runs := []string{p}
			for j, m := 0, c.Rng.Range(1, 3); j < m; j++ {
				runs = append(runs, endings[c.Rng.Intn(len(endings))])
			}
			runs = append(runs, "collect all nofault")
			c.Case(len(p) > 12, strings.Join(runs, " || "))
		}
	}
}
