package run

import (
	"fmt"
	"strings"
)

// C04: ordered operators and terminals agree with the in-memory list model (fault-free, single run).
func init() {
	Register("C04", Family{Gen: genC04, Exec: func(caseText string) string {
		if strings.HasPrefix(caseText, "L ") { // second part of the family: c04_ext.go
			return ExecC04Ext(caseText)
		}
		return execPipeOrDyn(caseText) // DYN cases: FlatMap family (pipedyn.go)
	}})
}

func genC04(c *Ctx) {
	// sources whose contents CHANGE between the materialisations of one stream value (`srcv`): an early-stopped / complete /
	// failed run, then runs over other contents - empty ones included: every fault-free run delivers the list-level meaning
	// of the contents it ran over, whatever an earlier run left behind in the operator objects (left out: cluster factories that report
	// `lastItemOnPreviousCluster`, Window, Skip and Limit - their closures keep state that is never reset; they are outside
	// C18's reusable subset and nothing is claimed about a second materialisation of them)
	for _, pipe := range []string{
		"cluster 2 first srcv 0 0,1,2,3,5|-|4,6",
		"cluster 3 first srcv 0 0,4,5,9|-|1|-",
		"filter mod:2:0 cluster 1 first srcv 0 1,2,2,3|-|4,4",
		"merge 2 srcv 0 1,3,5|-|2 src 1 2,4",
		"concat 2 srcv 0 1,2|-|7 srcv 1 3|4,5|-",
		"zip 2 srcv 0 1,2,3|-|9 src 1 4,5",
		"map add:1 concat 2 srcv 0 1|-|6 cluster 2 first srcv 1 0,1,2|-|5",
	} {
		for _, e1 := range []string{"collect take:1 nofault", "collect take:2 nofault", "collect all nofault", "user all err@2", "collect all cancel@1", "user all perr@1"} {
			c.Case(true, strings.Join([]string{pipe, e1, "collect all nofault", "collect all nofault"}, " || "))
			c.Case(true, strings.Join([]string{pipe, e1, "collect take:1 nofault", "collect all nofault"}, " || "))
		}
	}

	genPipeDynSweep(c, nil, 1500, 20000) // FlatMap family, fault-free cases only (pipedyn.go)
	genPipeDynVar(c, false, true)        // ... and fault-free histories over a source whose contents change
	// exhaustive small scope: every unary operator chain of depth <= 2 over small inputs is covered by the
	// structured enumeration below; then seeded random trees
	inputs := []string{"-", "1", "1,1", "0,1,2", "1,2,2,3", "0,0,1,2,2", "2,1,0", "0,1,2,3,4,5,6"}
	unary := []string{
		"map add:1", "map mul:2", "filter mod:2:0", "filter ff", "filter tt", "limit 0", "limit 1", "limit 2", "limit 9",
		"skip 0", "skip 1", "skip 3", "skip 9", "skip -1", "skip -4", "limit -1",
		"window 1 1 0", "window 2 1 0", "window 2 2 0", "window 3 2 0", "window 3 2 1", "window 3 3 0", "window 3 1 1", "window 2 1 1", "window 4 3 0",
		"cluster 1 first", "cluster 2 first", "cluster 2 sum", "cluster 2 firstk:1", "cluster 2 firstk:2", "cluster 3 none", "cluster 2 firstprev", "cluster 1 firstprev", "cluster 2 firstk:0",
	}
	terms := []string{"collect all nofault", "collect take:1 nofault", "collect take:2 nofault", "user all nofault", "collect take:0 nofault"}
	for _, in := range inputs {
		for _, u := range unary {
			for _, t := range terms {
				c.Case(in != "-", fmt.Sprintf("%s src 0 %s || %s", u, in, t))
			}
			// depth 2: second operator must accept the first one's element type; keep int-producing firsts
			for _, u2 := range []string{"map add:1", "filter mod:2:1", "limit 2", "skip 1", "window 2 1 0", "cluster 2 first", "cluster 2 firstprev", "window 3 2 0"} {
				first := u
				if len(u) > 6 && (u[:6] == "window" || (u[:7] == "cluster" && u[len(u)-5:] != "first" && u[len(u)-4:] != "none")) {
					first = "map sum " + u
				}
				c.Case(in != "-", fmt.Sprintf("%s %s src 0 %s || collect all nofault", u2, first, in))
			}
		}
		for _, in2 := range inputs[:5] {
			for _, k := range []string{"concat 2", "zip 2", "merge 2"} {
				c.Case(true, fmt.Sprintf("%s src 0 %s src 1 %s || collect all nofault", k, in, in2))
				c.Case(true, fmt.Sprintf("window 2 1 0 map sum %s src 0 %s skip 1 src 1 %s || collect all nofault", k, in, in2))
			}
			c.Case(true, fmt.Sprintf("concat 3 src 0 %s src 1 - src 2 %s || collect take:3 nofault", in, in2))
		}
	}
	// several consecutive empty inner streams, zero / one input, skip and limit below and above them
	for _, k := range []string{
		"concat 4 src 0 1 src 1 - src 2 - src 3 2", "concat 5 src 0 - src 1 - src 2 1,2 src 3 - src 4 3", "concat 1 src 0 1,2", "concat 0",
		"zip 1 src 0 1,2,3", "zip 0", "merge 1 src 0 1,2", "merge 0", "zip 3 src 0 1,2 src 1 - src 2 3",
		"skip -1 concat 3 src 0 1 src 1 - src 2 2,3", "limit 2 skip -2 src 0 1,2,3", "skip 2 skip -1 skip 1 src 0 1,2,3,4,5",
	} {
		for _, t := range terms {
			c.Case(true, k+" || "+t)
		}
	}
	n := c.Pick(6000, 120000)
	for i := 0; i < n; i++ {
		g := &pgen{rng: c.Rng, srcMax: 9}
		txt, _ := g.pipe(c.Rng.Range(1, 4))
		term := terms[c.Rng.Intn(len(terms))]
		c.Case(g.nextID >= 1 && len(txt) > 12, txt+" || "+term)
	}
	GenC04Ext(c) // lazy package, terminals, collectors, sampling, iterator, remaining sources (c04_ext_gen.go)
}
