package run

import (
	"bufio"
	"bytes"
	"context"
	"encoding/hex"
	"encoding/json"
	"errors"
	"fmt"
	"hash/fnv"
	"io"
	"math"
	"math/big"
	"os"
	"path/filepath"
	"strconv"
	"strings"
	"time"

	"github.com/shpandrak/shpanstream/integrations/file"
	"github.com/shpandrak/shpanstream/lazy"
	"github.com/shpandrak/shpanstream/stream"
	"github.com/shpandrak/shpanstream/utils/jsonstream"
)

// C20: JSON and file adapters. Case kinds and observation formats are described in
// lean/ShpanVerif/Drive/C20.lean (the Lean side parses the same lines).

func init() {
	Register("C20", Family{Gen: genC20, Exec: execC20})
}

// ---------------------------------------------------------------- helpers

func c20hex(b []byte) string { return hex.EncodeToString(b) }

func c20hexList(l [][]byte) string {
	if len(l) == 0 {
		return "-"
	}
	parts := make([]string, len(l))
	for i, e := range l {
		parts[i] = c20hex(e)
	}
	return strings.Join(parts, ",")
}

func c20unhex(s string) ([]byte, bool) {
	if s == "-" {
		return []byte{}, true
	}
	b, err := hex.DecodeString(s)
	return b, err == nil
}

// c20guard runs f with panic recovery and a watchdog.
func c20guard(f func() string) (res string) {
	done := make(chan string, 1)
	go func() {
		defer func() {
			if r := recover(); r != nil {
				done <- "panic"
			}
		}()
		done <- f()
	}()
	select {
	case r := <-done:
		return r
	case <-time.After(20 * time.Second):
		return "timeout"
	}
}

func execC20(caseText string) string {
	ts := strings.Fields(caseText)
	if len(ts) == 0 {
		return "bad-case"
	}
	return c20guard(func() string {
		switch ts[0] {
		case "arr":
			if len(ts) == 4 {
				return c20execArr(ts[1], ts[2] == "1", ts[3])
			}
		case "rdarr":
			if len(ts) == 3 {
				return c20execRdArr(ts[1], ts[2])
			}
		case "rdobj":
			if len(ts) == 3 {
				return c20execRdObj(ts[1], ts[2])
			}
		case "rdbad":
			if len(ts) == 3 {
				doc, ok := c20unhex(ts[2])
				if !ok {
					return "bad-case"
				}
				if ts[1] == "obj" {
					return c20readObj(doc)
				}
				return c20readArrRaw(doc)
			}
		case "lazy":
			if len(ts) == 3 {
				return c20execLazy(ts[1], ts[2])
			}
		case "file":
			if len(ts) >= 5 {
				crlf, crp, ok := c20parseEol(ts[2])
				if !ok {
					return "bad-case"
				}
				return c20execFileDesc(ts[1] == "rev", crlf, crp, ts[3] == "nl", ts[4:])
			}
		case "raw":
			if len(ts) == 3 {
				content, ok := c20unhex(ts[2])
				if !ok {
					return "bad-case"
				}
				return c20execFile(ts[1] == "rev", content, false)
			}
		case "hraw":
			if len(ts) == 4 {
				st := func(t string) (*[]byte, bool) {
					if t == "M" {
						return nil, true
					}
					b, ok := c20unhex(t)
					if b == nil {
						b = []byte{}
					}
					return &b, ok
				}
				a, ok1 := st(ts[2])
				b, ok2 := st(ts[3])
				if !ok1 || !ok2 {
					return "bad-case"
				}
				return c20execFileHist(ts[1] == "rev", a, b)
			}
		case "lzarr":
			if len(ts) == 3 {
				return c20execLzArr(ts[1], ts[2])
			}
		case "latefile":
			if len(ts) == 2 {
				return c20execLateFile(ts[1] == "rev")
			}
		case "missing":
			if len(ts) == 2 {
				return c20execFile(ts[1] == "rev", nil, true)
			}
		}
		return "bad-case"
	})
}

// ---------------------------------------------------------------- JSON writers / readers

var errC20Init = errors.New("init hook failed")

func c20parseElems(s string) ([]any, bool) {
	if s == "-" {
		return nil, true
	}
	var out []any
	for _, t := range strings.Split(s, ",") {
		if t == "X" {
			out = append(out, math.NaN()) // json.Marshal fails: unsupported value
			continue
		}
		if t == "C" || t == "W" {
			out = append(out, c20Stop(t)) // the stream ends here with a cancellation (see c20execArr)
			continue
		}
		b, ok := c20unhex(t)
		if !ok {
			return nil, false
		}
		var v any
		if err := json.Unmarshal(b, &v); err != nil {
			return nil, false
		}
		out = append(out, v)
	}
	return out, true
}

// c20Stop marks the point where the source fails: "C" the caller's context is cancelled and the provider reports it,
// "W" an upstream stage fails with an error wrapping context.Canceled while the context stays alive.
type c20Stop string

func c20werr(err error) string {
	if err == nil {
		return "nil"
	}
	var uv *json.UnsupportedValueError
	switch {
	case errors.Is(err, errC20Init):
		return "init"
	case errors.As(err, &uv):
		return "marshal"
	}
	return "other:" + strings.ReplaceAll(err.Error(), " ", "_")
}

func c20provider(doc []byte) func(ctx context.Context) (io.ReadCloser, error) {
	return func(ctx context.Context) (io.ReadCloser, error) {
		return io.NopCloser(bytes.NewReader(doc)), nil
	}
}

func c20rerr(err error) string {
	if strings.Contains(err.Error(), "failed to open stream") {
		return "open"
	}
	return "emit"
}

func c20execArr(helper string, initOk bool, elems string) string {
	vals, ok := c20parseElems(elems)
	if !ok {
		return "bad-case"
	}
	ctx, cancel := context.WithCancel(context.Background())
	defer cancel()
	src := stream.Just(vals...)
	for _, v := range vals {
		if _, stop := v.(c20Stop); stop {
			i := 0
			src = stream.NewSimpleStream(func(ctx context.Context) (any, error) {
				if i >= len(vals) {
					return nil, io.EOF
				}
				v := vals[i]
				i++
				switch v {
				case c20Stop("C"):
					cancel()
					return nil, ctx.Err()
				case c20Stop("W"):
					return nil, fmt.Errorf("upstream stage: %w", context.Canceled)
				}
				return v, nil
			})
			break
		}
	}
	var out []byte
	var err error
	initS := "-"
	switch helper {
	case "w":
		var buf bytes.Buffer
		err = jsonstream.StreamJsonToWriter(ctx, &buf, src)
		out = buf.Bytes()
	case "wi":
		var buf bytes.Buffer
		n := 0
		err = jsonstream.StreamJsonToWriterWithInit(ctx, &buf, src, func() error {
			n++
			if !initOk {
				return errC20Init
			}
			return nil
		})
		out = buf.Bytes()
		initS = strconv.Itoa(n)
	case "rd":
		out, err = jsonstream.StreamJsonAsReaderAndReturn(ctx, src, func(ctx context.Context, r io.Reader) ([]byte, error) {
			return io.ReadAll(r)
		})
	default:
		return "bad-case"
	}
	back := "skip"
	if err == nil {
		res, rerr := jsonstream.ReadJsonArray[any](c20provider(out)).Collect(context.Background())
		if rerr != nil {
			back = "err:" + c20rerr(rerr)
		} else {
			var l [][]byte
			for _, v := range res {
				b, merr := json.Marshal(v)
				if merr != nil {
					return "bad-remarshal"
				}
				l = append(l, b)
			}
			back = "ok:" + c20hexList(l)
		}
	}
	outS := "-"
	if len(out) > 0 {
		outS = c20hex(out)
	}
	return fmt.Sprintf("out=%s init=%s werr=%s back=%s", outS, initS, c20werr(err), back)
}

// white space between the tokens of hand-built documents (mirrors wsOf in lean/ShpanVerif/Model/JsonText.lean)
func c20ws(ws, i int) string {
	switch ws {
	case 0:
		return ""
	case 1:
		return " "
	case 2:
		switch i % 4 {
		case 0:
			return "\n\t"
		case 1:
			return ""
		case 2:
			return "  \r"
		}
		return "\t"
	}
	switch (i*5 + i/4) % 6 {
	case 0:
		return " "
	case 1:
		return "\r\n"
	case 2:
		return "\t \n\r"
	case 3:
		return ""
	case 4:
		return "\n"
	}
	return "\r"
}

func c20buildArrDoc(ws int, es [][]byte) []byte {
	var b bytes.Buffer
	b.WriteString(c20ws(ws, 7))
	b.WriteByte('[')
	for k, e := range es {
		i := 2 * k
		b.WriteString(c20ws(ws, i))
		b.Write(e)
		b.WriteString(c20ws(ws, i+1))
		if k < len(es)-1 {
			b.WriteByte(',')
		}
	}
	if len(es) == 0 {
		b.WriteString(c20ws(ws, 3))
	}
	b.WriteByte(']')
	b.WriteString(c20ws(ws, 5))
	return b.Bytes()
}

func c20buildObjDoc(ws int, ks, vs [][]byte) []byte {
	var b bytes.Buffer
	b.WriteString(c20ws(ws, 7))
	b.WriteByte('{')
	for k := range ks {
		i := 4 * k
		b.WriteString(c20ws(ws, i))
		b.WriteByte('"')
		b.Write(ks[k])
		b.WriteByte('"')
		b.WriteString(c20ws(ws, i+1))
		b.WriteByte(':')
		b.WriteString(c20ws(ws, i+2))
		b.Write(vs[k])
		b.WriteString(c20ws(ws, i+3))
		if k < len(ks)-1 {
			b.WriteByte(',')
		}
	}
	if len(ks) == 0 {
		b.WriteString(c20ws(ws, 3))
	}
	b.WriteByte('}')
	b.WriteString(c20ws(ws, 5))
	return b.Bytes()
}

func c20readArrRaw(doc []byte) string {
	res, err := jsonstream.ReadJsonArray[json.RawMessage](c20provider(doc)).Collect(context.Background())
	if err != nil {
		return "err " + c20rerr(err)
	}
	l := make([][]byte, len(res))
	for i, r := range res {
		l[i] = r
	}
	return "ok " + c20hexList(l)
}

func c20readObj(doc []byte) string {
	res, err := jsonstream.ReadJsonObject[json.RawMessage](c20provider(doc)).Collect(context.Background())
	if err != nil {
		return "err " + c20rerr(err)
	}
	if len(res) == 0 {
		return "ok -"
	}
	parts := make([]string, len(res))
	for i, e := range res {
		parts[i] = c20hex([]byte(e.Key)) + ":" + c20hex(e.Value)
	}
	return "ok " + strings.Join(parts, ",")
}

func c20execRdArr(wsS, elems string) string {
	ws, err := strconv.Atoi(wsS)
	if err != nil {
		return "bad-case"
	}
	var es [][]byte
	if elems != "-" {
		for _, t := range strings.Split(elems, ",") {
			b, ok := c20unhex(t)
			if !ok {
				return "bad-case"
			}
			es = append(es, b)
		}
	}
	return c20readArrRaw(c20buildArrDoc(ws, es))
}

// c20execLzArr: Lazy elements read through the streaming decoder; every value is asked for only after the whole
// array was collected (a yielded element must keep its value after later elements are pulled)
func c20execLzArr(wsS, elems string) string {
	ws, err := strconv.Atoi(wsS)
	if err != nil {
		return "bad-case"
	}
	var es [][]byte
	if elems != "-" {
		for _, t := range strings.Split(elems, ",") {
			b, ok := c20unhex(t)
			if !ok {
				return "bad-case"
			}
			es = append(es, b)
		}
	}
	res, err := jsonstream.ReadJsonArray[lazy.Lazy[any]](c20provider(c20buildArrDoc(ws, es))).Collect(context.Background())
	if err != nil {
		return "err " + c20rerr(err)
	}
	l := make([][]byte, len(res))
	for i, lz := range res {
		g := c20getStr(lz)
		if !strings.HasPrefix(g, "ok:") {
			return fmt.Sprintf("err get[%d]=%s", i, g)
		}
		b, _ := c20unhex(g[3:])
		l[i] = b
	}
	return "ok " + c20hexList(l)
}

func c20execRdObj(wsS, ents string) string {
	ws, err := strconv.Atoi(wsS)
	if err != nil {
		return "bad-case"
	}
	var ks, vs [][]byte
	if ents != "-" {
		for _, t := range strings.Split(ents, ",") {
			k, v, ok := strings.Cut(t, ":")
			if !ok {
				return "bad-case"
			}
			kb, ok1 := c20unhex(k)
			vb, ok2 := c20unhex(v)
			if !ok1 || !ok2 {
				return "bad-case"
			}
			ks = append(ks, kb)
			vs = append(vs, vb)
		}
	}
	return c20readObj(c20buildObjDoc(ws, ks, vs))
}

// ---------------------------------------------------------------- Lazy

type c20Holder struct {
	A int            `json:"a"`
	L lazy.Lazy[any] `json:"l"`
	Z string         `json:"z"`
}

// c20Money: JSON methods on the pointer receiver only (like math/big.Int)
type c20Money struct{ cents int64 }

func (m *c20Money) MarshalJSON() ([]byte, error) {
	sign := ""
	c := m.cents
	if c < 0 {
		sign, c = "-", -c
	}
	return []byte(fmt.Sprintf("\"%s%d.%02d\"", sign, c/100, c%100)), nil
}

func (m *c20Money) UnmarshalJSON(b []byte) error {
	var s string
	if err := json.Unmarshal(b, &s); err != nil {
		return err
	}
	neg := strings.HasPrefix(s, "-")
	s = strings.TrimPrefix(s, "-")
	a, f, ok := strings.Cut(s, ".")
	if !ok || len(f) != 2 {
		return fmt.Errorf("bad money %q", s)
	}
	x, err1 := strconv.ParseInt(a, 10, 64)
	y, err2 := strconv.ParseInt(f, 10, 64)
	if err1 != nil || err2 != nil {
		return fmt.Errorf("bad money %q", s)
	}
	m.cents = x*100 + y
	if neg {
		m.cents = -m.cents
	}
	return nil
}

type c20Invoice struct {
	ID    string   `json:"id"`
	Total c20Money `json:"total"`
}

type c20HolderT[T any] struct {
	A int          `json:"a"`
	L lazy.Lazy[T] `json:"l"`
	Z string       `json:"z"`
}

// c20LazyTyped: the round trip of a Lazy[T] whose value is given by its canonical JSON text
func c20LazyTyped[T any](field bool, text []byte) (res string) {
	defer func() {
		if r := recover(); r != nil {
			res = "panic"
		}
	}()
	var v T
	if err := json.Unmarshal(text, &v); err != nil {
		return "bad-case"
	}
	if back, err := json.Marshal(&v); err != nil || string(back) != string(text) {
		return "bad-case" // the text is not the canonical one: the case itself is wrong
	}
	l := lazy.Just[T](v)
	var m []byte
	var err error
	if field {
		m, err = json.Marshal(c20HolderT[T]{A: 1, L: l, Z: "x"})
	} else {
		m, err = json.Marshal(l)
	}
	if err != nil {
		return "m=err um=- opt=- get=-"
	}
	var l2 lazy.Lazy[T]
	um := "ok"
	if field {
		var h c20HolderT[T]
		if err := json.Unmarshal(m, &h); err != nil {
			um = "err"
		}
		l2 = h.L
	} else if err := json.Unmarshal(m, &l2); err != nil {
		um = "err"
	}
	opt, get := "err", "err"
	if o, err := l2.GetOptional(context.Background()); err == nil {
		if o == nil {
			opt = "none"
		} else if b, err := json.Marshal(o); err == nil {
			opt = "some:" + c20hex(b)
		}
	}
	if g, err := l2.Get(context.Background()); err == nil {
		if b, err := json.Marshal(&g); err == nil {
			get = "ok:" + c20hex(b)
		}
	} else if strings.Contains(err.Error(), "lazy value is empty") {
		get = "empty"
	}
	return fmt.Sprintf("m=%s um=%s opt=%s get=%s", c20hex(m), um, opt, get)
}

func c20getStr(l lazy.Lazy[any]) (res string) {
	defer func() {
		if r := recover(); r != nil {
			res = "panic"
		}
	}()
	v, err := l.Get(context.Background())
	if err != nil {
		if strings.Contains(err.Error(), "lazy value is empty") {
			return "empty"
		}
		return "err"
	}
	b, err := json.Marshal(v)
	if err != nil {
		return "bad-remarshal"
	}
	return "ok:" + c20hex(b)
}

func c20optStr(l lazy.Lazy[any]) (res string) {
	defer func() {
		if r := recover(); r != nil {
			res = "panic"
		}
	}()
	v, err := l.GetOptional(context.Background())
	if err != nil {
		return "err"
	}
	if v == nil {
		return "none"
	}
	b, err := json.Marshal(*v)
	if err != nil {
		return "bad-remarshal"
	}
	return "some:" + c20hex(b)
}

func c20execLazy(mode, src string) string {
	field := mode == "field"
	var data []byte
	mS := "-"
	if strings.HasPrefix(src, "raw:") {
		d, ok := c20unhex(src[4:])
		if !ok {
			return "bad-case"
		}
		data = d
		if field {
			data = []byte(`{"a":1,"l":` + string(d) + `,"z":"x"}`)
		}
	} else {
		var l lazy.Lazy[any]
		switch {
		case src == "empty":
			l = lazy.Empty[any]()
		case src == "err":
			l = lazy.Error[any](errors.New("boom"))
		case src == "nullv":
			l = lazy.Just[any](nil)
		case strings.HasPrefix(src, "t:"):
			// typed Lazies: element types whose JSON methods have POINTER receivers (encoding/json calls those only on
			// addressable values): t:<kind>:<hex of the value's canonical JSON text>
			kind, hx, _ := strings.Cut(src[2:], ":")
			b, ok := c20unhex(hx)
			if !ok {
				return "bad-case"
			}
			switch kind {
			case "big":
				return c20LazyTyped[big.Int](field, b)
			case "pm":
				return c20LazyTyped[c20Money](field, b)
			case "spm":
				return c20LazyTyped[c20Invoice](field, b)
			}
			return "bad-case"
		case strings.HasPrefix(src, "v:"):
			b, ok := c20unhex(src[2:])
			if !ok {
				return "bad-case"
			}
			var v any
			if err := json.Unmarshal(b, &v); err != nil {
				return "bad-case"
			}
			l = lazy.Just[any](v)
		default:
			return "bad-case"
		}
		var m []byte
		var err error
		if field {
			m, err = json.Marshal(c20Holder{A: 1, L: l, Z: "x"})
		} else {
			m, err = json.Marshal(l)
		}
		if err != nil {
			return "m=err um=- opt=- get=-"
		}
		data = m
		mS = c20hex(m)
	}
	// the targets are not fresh (a decode loop re-using one variable): whatever they held before must be gone
	l2 := lazy.Just[any]("stale")
	um := "ok"
	if field {
		h := c20Holder{A: 9, L: lazy.Just[any]("stale"), Z: "q"}
		if err := json.Unmarshal(data, &h); err != nil {
			um = "err"
		}
		l2 = h.L
	} else {
		if err := json.Unmarshal(data, &l2); err != nil {
			um = "err"
		}
	}
	return fmt.Sprintf("m=%s um=%s opt=%s get=%s", mS, um, c20optStr(l2), c20getStr(l2))
}

// ---------------------------------------------------------------- files

func c20contentByte(idx, j int) byte { return byte(97 + (idx*7+j*3+j/29)%26) }

func c20parseRuns(ts []string) ([]int, bool) {
	if len(ts) == 1 && ts[0] == "-" {
		return nil, true
	}
	var lens []int
	for _, t := range ts {
		if !strings.HasPrefix(t, "L") {
			return nil, false
		}
		a, b, rep := strings.Cut(t[1:], "x")
		n, err := strconv.Atoi(a)
		if err != nil || n < 0 {
			return nil, false
		}
		k := 1
		if rep {
			k, err = strconv.Atoi(b)
			if err != nil || k < 0 {
				return nil, false
			}
		}
		for i := 0; i < k; i++ {
			lens = append(lens, n)
		}
	}
	return lens, true
}

// c20crAt: is byte j of line idx (of n bytes) a lone carriage return under pattern p (0 = never)? Line idx gets the
// pattern q = (p + 5 idx) mod 16 — bit 0: first byte, bit 1: last byte, bit 2: last but one, bit 3: every j with j mod 53 = 17.
// (Drive/C20.lean: crAt)
func c20crAt(p, idx, n, j int) bool {
	if p == 0 {
		return false
	}
	q := (p + 5*idx) % 16
	return (q&1 != 0 && j == 0) || (q&2 != 0 && j+1 == n) || (q&4 != 0 && j+2 == n) || (q&8 != 0 && j%53 == 17)
}

// "lf" | "crlf" | "lf:cr5" | "crlf:cr12"
func c20parseEol(t string) (crlf bool, crp int, ok bool) {
	e, c, has := strings.Cut(t, ":")
	if e != "lf" && e != "crlf" {
		return false, 0, false
	}
	if has {
		if !strings.HasPrefix(c, "cr") {
			return false, 0, false
		}
		n, err := strconv.Atoi(c[2:])
		if err != nil || n < 1 || n > 15 {
			return false, 0, false
		}
		crp = n
	}
	return e == "crlf", crp, true
}

func c20execFileDesc(rev, crlf bool, crp int, nl bool, runs []string) string {
	lens, ok := c20parseRuns(runs)
	if !ok {
		return "bad-case"
	}
	if !nl && len(lens) > 0 && lens[len(lens)-1] == 0 {
		lens = lens[:len(lens)-1]
		nl = true
	}
	var content []byte
	for i, n := range lens {
		for j := 0; j < n; j++ {
			if c20crAt(crp, i, n, j) {
				content = append(content, '\r')
			} else {
				content = append(content, c20contentByte(i, j))
			}
		}
		if i < len(lens)-1 || nl {
			if crlf {
				content = append(content, '\r')
			}
			content = append(content, '\n')
		}
	}
	return c20execFile(rev, content, false)
}

func c20fnv(b []byte) uint64 {
	h := fnv.New64a()
	h.Write(b)
	return h.Sum64()
}

func c20tok(b []byte) string {
	if len(b) <= 16 {
		return "h" + c20hex(b)
	}
	return fmt.Sprintf("d%d:%016x", len(b), c20fnv(b))
}

type c20Pulled struct {
	b []byte
	n int
	h uint64
}

// c20execLateFile: one stream value materialised while its file does not exist yet, then - the file created - completely
// and with an early stop; afterwards no handle on the file may be open in this process (Linux: /proc/self/fd).
func c20execLateFile(rev bool) string {
	dir, err := os.MkdirTemp("", "c20-")
	if err != nil {
		return "err mktemp"
	}
	defer os.RemoveAll(dir)
	p := filepath.Join(dir, "late.txt")
	s := file.StreamFromFile(p, rev)
	ctx := context.Background()
	r1, err1 := s.Collect(ctx)
	if err := os.WriteFile(p, []byte("alpha\nbeta\ngamma\n"), 0o600); err != nil {
		return "err write"
	}
	_, err2 := s.Collect(ctx)
	_, err3 := s.Limit(1).Collect(ctx)
	fds := 0
	if ents, err := os.ReadDir("/proc/self/fd"); err == nil {
		for _, e := range ents {
			if t, err := os.Readlink("/proc/self/fd/" + e.Name()); err == nil && t == p {
				fds++
			}
		}
	} else {
		return "err procfs"
	}
	return fmt.Sprintf("first=%d/%v later-errors=%v/%v fds=%d", len(r1), err1 != nil, err2 != nil, err3 != nil, fds)
}

// c20execFile writes the content to a fresh temp dir, streams the file, and only after the WHOLE stream was
// collected looks at the elements again: their digests then must equal the digests taken when each was pulled.
func c20execFile(rev bool, content []byte, missing bool) string {
	dir, err := os.MkdirTemp("", "c20-")
	if err != nil {
		return "err mktemp"
	}
	defer os.RemoveAll(dir)
	p := filepath.Join(dir, "f.txt")
	if !missing {
		if err := os.WriteFile(p, content, 0o600); err != nil {
			return "err write"
		}
	}
	return c20collectFile(file.StreamFromFile(p, rev), content)
}

// c20execFileHist: ONE stream value over a path whose file changes between two materialisations (nil = the file
// does not exist). The observation is the second materialisation; the first one must equal what a fresh stream
// value gives on the first file state (Go against Go), otherwise "err first-differs".
func c20execFileHist(rev bool, st1, st2 *[]byte) string {
	dir, err := os.MkdirTemp("", "c20-")
	if err != nil {
		return "err mktemp"
	}
	defer os.RemoveAll(dir)
	p := filepath.Join(dir, "f.txt")
	put := func(st *[]byte) bool {
		if st == nil {
			err := os.Remove(p)
			return err == nil || os.IsNotExist(err)
		}
		return os.WriteFile(p, *st, 0o600) == nil
	}
	cont := func(st *[]byte) []byte {
		if st == nil {
			return nil
		}
		return *st
	}
	if !put(st1) {
		return "err write"
	}
	s := file.StreamFromFile(p, rev)
	first := c20collectFile(s, cont(st1))
	fresh := c20collectFile(file.StreamFromFile(p, rev), cont(st1))
	if first != fresh {
		return "err first-differs"
	}
	if !put(st2) {
		return "err write"
	}
	return c20collectFile(s, cont(st2))
}

func c20collectFile(src stream.Stream[[]byte], content []byte) string {
	// a correct scan yields at most one element per newline plus one; the bound only matters when the code under
	// test yields elements forever (then the observation shows the surplus instead of exhausting the memory)
	bound := bytes.Count(content, []byte{'\n'}) + 3
	s := stream.Map(src, func(b []byte) c20Pulled {
		return c20Pulled{b: b, n: len(b), h: c20fnv(b)}
	}).Limit(bound)
	res, err := s.Collect(context.Background())
	if err != nil {
		if errors.Is(err, bufio.ErrTooLong) || errors.Is(err, file.ErrTooLong) {
			return "err toolong"
		}
		return "err other:" + strings.ReplaceAll(err.Error(), " ", "_")
	}
	stable := 1
	toks := make([]string, len(res))
	for i, r := range res {
		if len(r.b) != r.n || c20fnv(r.b) != r.h {
			stable = 0
		}
		toks[i] = c20tok(r.b)
	}
	head := fmt.Sprintf("ok n=%d stable=%d", len(res), stable)
	if len(res) <= 40 {
		return strings.Join(append([]string{head}, toks...), " ")
	}
	return fmt.Sprintf("%s all=%016x", head, c20fnv([]byte(strings.Join(toks, " "))))
}

// ---------------------------------------------------------------- generators

// a JSON value grammar (Go values, marshalled by encoding/json): nested arrays/objects, unicode, empty strings,
// every character class json.Marshal escapes (quote, backslash, control bytes, DEL, < > &, U+2028/2029, invalid UTF-8),
// integral numbers, fractions, numbers json.Marshal writes in exponent form, negative zero
var c20strAlphabet = []string{"a", "b", "Z", " ", "\"", "\\", ",", "[", "]", "{", "}", ":", "é", "日本", "\n", "\t", "<", "&", " ", "😀", "0", "null",
	">", "/", "\r", "\b", "\f", "\x00", "\x01", "\x1f", "\x7f", "\u2028", "\u2029", "\ufffd", "\xff", "\xc3", "\xed\xa0\x80", "\\u0041", "\\\"", "'"}

var c20floats = []float64{0, math.Copysign(0, -1), 1, -1, 0.5, -2.75, 1e20, 1e21, -1e21, 1.5e-7, 1e-6, 1e-7, 123456789012345680000, 1.7976931348623157e308,
	5e-324, -2.2250738585072014e-308, 3.141592653589793, 1e100, 9007199254740993, 0.000001, 1234.5678e-20}

func c20genStringN(r *Rng, max int) string {
	n := r.Small(max)
	var sb strings.Builder
	for i := 0; i < n; i++ {
		sb.WriteString(c20strAlphabet[r.Intn(len(c20strAlphabet))])
	}
	return sb.String()
}

func c20genString(r *Rng) string { return c20genStringN(r, 8) }

func c20genValue(r *Rng, depth int) any {
	k := r.Intn(11)
	if depth <= 0 && k >= 7 {
		k = r.Intn(7)
	}
	switch k {
	case 0:
		return nil
	case 1:
		return r.Bool()
	case 2:
		return float64(r.Range(-1000, 1000))
	case 3:
		return float64(r.Intn(3))
	case 4, 5:
		return c20genString(r)
	case 6:
		if r.Bool() {
			return c20floats[r.Intn(len(c20floats))]
		}
		return math.Float64frombits(r.Next()&^(0x7ff<<52) | uint64(r.Range(1, 2046))<<52) // any finite normal float
	case 7, 8:
		n := r.Small(4)
		l := make([]any, n)
		for i := range l {
			l[i] = c20genValue(r, depth-1)
		}
		return l
	default:
		n := r.Small(4)
		m := map[string]any{}
		for i := 0; i < n; i++ {
			m[c20genString(r)] = c20genValue(r, depth-1)
		}
		return m
	}
}

// c20genDeepValue: a chain of `depth` nested arrays / objects; at every level the nested child sits between siblings
// that are empty arrays, empty objects or scalars (an empty container at every position)
func c20genDeepValue(r *Rng, depth int) any {
	if depth <= 0 {
		switch r.Intn(4) {
		case 0:
			return []any{}
		case 1:
			return map[string]any{}
		}
		return c20genValue(r, 0)
	}
	sib := func() any {
		switch r.Intn(4) {
		case 0:
			return []any{}
		case 1:
			return map[string]any{}
		case 2:
			return c20genValue(r, 1)
		}
		return c20genValue(r, 0)
	}
	child := c20genDeepValue(r, depth-1)
	before, after := r.Intn(3), r.Intn(3)
	if r.Bool() {
		var l []any
		for i := 0; i < before; i++ {
			l = append(l, sib())
		}
		l = append(l, child)
		for i := 0; i < after; i++ {
			l = append(l, sib())
		}
		return l
	}
	m := map[string]any{}
	for i := 0; i < before+after; i++ {
		m[c20genString(r)] = sib()
	}
	m["k"+c20genString(r)] = child
	return m
}

// c20payload: the canonical JSON text of a value: json.Marshal after one round trip (so that invalid UTF-8 has become
// U+FFFD and Marshal(Unmarshal(payload)) == payload)
func c20payload(v any) string {
	b, err := json.Marshal(v)
	if err != nil {
		panic(err)
	}
	var v2 any
	if err := json.Unmarshal(b, &v2); err != nil {
		panic(err)
	}
	b2, err := json.Marshal(v2)
	if err != nil {
		panic(err)
	}
	return c20hex(b2)
}

func c20joinOrDash(l []string) string {
	if len(l) == 0 {
		return "-"
	}
	return strings.Join(l, ",")
}

// ---- JSON TEXTS (not Go values): any RFC 8259 text, with insignificant white space at every legal position.
// Used for the documents read as json.RawMessage (rdarr / rdobj): the reader must hand out exactly the text.

var c20wsBytes = []string{" ", "\t", "\n", "\r"}

// c20tws: white space at one legal position: nothing when ws is off, otherwise 0..3 bytes of the four kinds
func c20tws(r *Rng, ws bool) string {
	if !ws || r.Intn(3) == 0 {
		return ""
	}
	n := 1 + r.Intn(3)
	var sb strings.Builder
	for i := 0; i < n; i++ {
		sb.WriteString(c20wsBytes[r.Intn(4)])
	}
	return sb.String()
}

var c20hexDigits = "0123456789abcdefABCDEF"

func c20u4(r *Rng) string {
	var sb strings.Builder
	sb.WriteString("\\u")
	for i := 0; i < 4; i++ {
		sb.WriteByte(c20hexDigits[r.Intn(len(c20hexDigits))])
	}
	return sb.String()
}

// pieces of a string body in escaped form; `key` restricts the raw bytes to valid UTF-8 (the decoded key is compared)
func c20genBody(r *Rng, n int, key bool) string {
	var sb strings.Builder
	for i := 0; i < n; i++ {
		switch r.Intn(16) {
		case 0, 1, 2:
			sb.WriteString([]string{"a", "b", "Z", "0", " ", "~", "\x7f", "null", "true"}[r.Intn(9)])
		case 3, 4:
			sb.WriteString([]string{"[", "]", "{", "}", ",", ":", "/", "'", "<", ">", "&"}[r.Intn(11)])
		case 5, 6, 7:
			sb.WriteString([]string{"\\\"", "\\\\", "\\/", "\\b", "\\f", "\\n", "\\r", "\\t"}[r.Intn(8)])
		case 8:
			sb.WriteString(c20u4(r))
		case 9:
			sb.WriteString([]string{"\\u0000", "\\u001f", "\\u0022", "\\u005c", "\\u005C", "\\u2028", "\\u2029", "\\uFFFD", "\\ufffe", "\\uffff", "\\u00e9", "\\u003c"}[r.Intn(12)])
		case 10:
			// surrogates: a valid pair, lone high, lone low, high + non-surrogate escape, high + plain byte, low + high
			sb.WriteString([]string{"\\ud83d\\ude00", "\\uD83D\\uDE00", "\\ud800", "\\udfff", "\\ud83d\\u0041", "\\ud83dx", "\\ude00\\ud83d", "\\udbff\\udfff", "\\ud800\\udc00", "\\ud83d\\ud83d\\ude00"}[r.Intn(10)])
		case 11, 12:
			sb.WriteString([]string{"é", "日本", "😀", "\u2028", "\u00a0", "\ufffd", "\U0010ffff", "ß"}[r.Intn(8)])
		case 13:
			if key {
				sb.WriteString("k")
			} else {
				// raw bytes that are not valid UTF-8: the element scanner does not care, RawMessage keeps them
				sb.WriteString([]string{"\xff", "\xc3", "\xed\xa0\x80", "\x80", "\xf8\x88"}[r.Intn(5)])
			}
		default:
			sb.WriteByte(byte('a' + r.Intn(26)))
		}
	}
	return sb.String()
}

func c20genNumberText(r *Rng) string {
	var sb strings.Builder
	if r.Intn(3) == 0 {
		sb.WriteByte('-')
	}
	if r.Intn(3) == 0 {
		sb.WriteByte('0')
	} else {
		sb.WriteByte(byte('1' + r.Intn(9)))
		for n := r.Small(20); n > 0; n-- {
			sb.WriteByte(byte('0' + r.Intn(10)))
		}
	}
	if r.Intn(3) == 0 {
		sb.WriteByte('.')
		for n := 1 + r.Small(12); n > 0; n-- {
			sb.WriteByte(byte('0' + r.Intn(10)))
		}
	}
	if r.Intn(2) == 0 {
		sb.WriteByte("eE"[r.Intn(2)])
		if k := r.Intn(3); k < 2 {
			sb.WriteByte("+-"[k])
		}
		for n := 1 + r.Small(4); n > 0; n-- {
			sb.WriteByte(byte('0' + r.Intn(10)))
		}
	}
	return sb.String()
}

func c20genScalarText(r *Rng, strMax int) string {
	switch r.Intn(8) {
	case 0:
		return "null"
	case 1:
		return "true"
	case 2:
		return "false"
	case 3, 4:
		return c20genNumberText(r)
	}
	return `"` + c20genBody(r, r.Small(strMax), false) + `"`
}

// c20genText: a JSON text of nesting depth <= depth; ws = white space at every legal position
func c20genText(r *Rng, depth int, ws bool) string {
	k := r.Intn(10)
	if depth <= 0 && k >= 6 {
		k = r.Intn(6)
	}
	if k < 6 {
		return c20genScalarText(r, 10)
	}
	n := r.Small(4)
	var sb strings.Builder
	if k < 8 {
		sb.WriteByte('[')
		sb.WriteString(c20tws(r, ws))
		for i := 0; i < n; i++ {
			if i > 0 {
				sb.WriteByte(',')
			}
			sb.WriteString(c20tws(r, ws))
			sb.WriteString(c20genText(r, depth-1, ws))
			sb.WriteString(c20tws(r, ws))
		}
		sb.WriteByte(']')
		return sb.String()
	}
	sb.WriteByte('{')
	sb.WriteString(c20tws(r, ws))
	for i := 0; i < n; i++ {
		if i > 0 {
			sb.WriteByte(',')
		}
		sb.WriteString(c20tws(r, ws))
		sb.WriteString(`"` + c20genBody(r, r.Small(5), false) + `"`)
		sb.WriteString(c20tws(r, ws))
		sb.WriteByte(':')
		sb.WriteString(c20tws(r, ws))
		sb.WriteString(c20genText(r, depth-1, ws))
		sb.WriteString(c20tws(r, ws))
	}
	sb.WriteByte('}')
	return sb.String()
}

// c20genDeepText: a chain of exactly `depth` nested containers around a scalar or an empty container, siblings
// (empty arrays, empty objects, scalars, small texts) before and after the nested child at every level
func c20genDeepText(r *Rng, depth int, ws bool) string {
	if depth <= 0 {
		switch r.Intn(4) {
		case 0:
			return "[" + c20tws(r, ws) + "]"
		case 1:
			return "{" + c20tws(r, ws) + "}"
		}
		return c20genScalarText(r, 6)
	}
	sib := func() string {
		switch r.Intn(4) {
		case 0:
			return "[" + c20tws(r, ws) + "]"
		case 1:
			return "{" + c20tws(r, ws) + "}"
		case 2:
			return c20genText(r, 1, ws)
		}
		return c20genScalarText(r, 6)
	}
	var items []string
	before, after := r.Intn(3), r.Intn(3)
	for i := 0; i < before; i++ {
		items = append(items, sib())
	}
	items = append(items, c20genDeepText(r, depth-1, ws))
	for i := 0; i < after; i++ {
		items = append(items, sib())
	}
	obj := r.Bool()
	var sb strings.Builder
	if obj {
		sb.WriteByte('{')
	} else {
		sb.WriteByte('[')
	}
	sb.WriteString(c20tws(r, ws))
	for i, it := range items {
		if i > 0 {
			sb.WriteByte(',')
		}
		sb.WriteString(c20tws(r, ws))
		if obj {
			sb.WriteString(`"` + c20genBody(r, r.Small(4), false) + `"`)
			sb.WriteString(c20tws(r, ws))
			sb.WriteByte(':')
			sb.WriteString(c20tws(r, ws))
		}
		sb.WriteString(it)
		sb.WriteString(c20tws(r, ws))
	}
	if obj {
		sb.WriteByte('}')
	} else {
		sb.WriteByte(']')
	}
	return sb.String()
}

// c20genLongString: a long string (hundreds to thousands of bytes) holding every escape kind
func c20genLongString(r *Rng, n int) string {
	all := `\"\\\/\b\f\n\r\t\u0000\u001F\u2028\ud83d\ude00\udc00[]{},:`
	return `"` + c20genBody(r, n/2, false) + all + c20genBody(r, n/2, false) + `"`
}

// c20mustBeJson: the text generators only produce well-formed JSON (checked against encoding/json here, and against
// the Lean grammar by the driver)
func c20mustBeJson(t string) string {
	if !json.Valid([]byte(t)) {
		panic("c20 generator produced an invalid JSON text: " + t)
	}
	return c20hex([]byte(t))
}

// object key bodies in escaped form (the bytes between the quotes); the raw bytes are valid UTF-8
func c20genKey(r *Rng) string { return c20genBody(r, r.Small(6), true) }

func genC20(c *Ctx) {
	genC20Json(c)
	genC20Lazy(c)
	genC20Files(c)
}

func genC20Json(c *Ctx) {
	r := c.Rng
	small := []string{"1", `""`, `"a,]"`, "[]", `{"k":[1,"]"]}`, "null"}
	smallHex := make([]string, len(small))
	for i, s := range small {
		smallHex[i] = c20hex([]byte(s))
	}
	helpers := []string{"w", "wi", "rd"}
	// exhaustive small scope: all element lists up to length 3 (thorough 4) over 6 payloads, every helper
	maxLen := c.Pick(3, 4)
	var rec func(cur []string)
	rec = func(cur []string) {
		for _, h := range helpers {
			c.Case(len(cur) >= 2, fmt.Sprintf("arr %s 1 %s", h, c20joinOrDash(cur)))
		}
		c.Case(len(cur) >= 2, fmt.Sprintf("rdarr %d %s", len(cur)%3, c20joinOrDash(cur)))
		if len(cur) >= maxLen {
			return
		}
		for _, p := range smallHex {
			rec(append(cur, p))
		}
	}
	rec(nil)
	// exhaustive small scope of the element scanner: all lists up to length 2 (thorough 3) over 9 texts that stress it
	// (empty containers, nested empties, inner white space of all four kinds, a string of delimiters and escapes, an
	// escaped backslash before the closing quote, an exponent number), every white-space pattern, array and object
	// documents (keys: empty, escaped quote + bracket, a \u escape)
	tricky := []string{"[]", "{}", "[[],{}]", "{\"\":{\"\":[]}}", "[ \t[\r\n]\n, { \"a\"\t:\r[ ] } ]", `"]},\"[{:\\"`, `"\\"`, "-1.5E+3", "0e0"}
	trickyKeys := []string{"", `\"]`, `\u0041\\`}
	maxT := c.Pick(2, 3)
	var recT func(cur []string)
	recT = func(cur []string) {
		for ws := 0; ws < 4; ws++ {
			c.Case(len(cur) >= 2, fmt.Sprintf("rdarr %d %s", ws, c20joinOrDash(cur)))
			ents := make([]string, len(cur))
			for j, e := range cur {
				ents[j] = c20hex([]byte(trickyKeys[(j+ws)%len(trickyKeys)])) + ":" + e
			}
			c.Case(len(cur) >= 2, fmt.Sprintf("rdobj %d %s", ws, c20joinOrDash(ents)))
		}
		if len(cur) >= maxT {
			return
		}
		for _, p := range tricky {
			recT(append(cur, c20mustBeJson(p)))
		}
	}
	recT(nil)
	// error branches of the writers: unmarshalable element at every position of lists up to length 3, failing init hook
	for n := 1; n <= 3; n++ {
		for pos := 0; pos < n; pos++ {
			l := make([]string, n)
			for i := range l {
				l[i] = smallHex[(i+pos)%len(smallHex)]
			}
			l[pos] = "X"
			for _, h := range helpers {
				c.Case(true, fmt.Sprintf("arr %s 1 %s", h, strings.Join(l, ",")))
			}
		}
	}
	for n := 0; n <= 2; n++ {
		c.Case(true, fmt.Sprintf("arr wi 0 %s", c20joinOrDash(smallHex[:n])))
	}
	c.Case(true, "arr wi 0 X")
	// a stream cut by cancellation (the caller's context, or an upstream error wrapping context.Canceled) at every
	// position: the writers must end with an error, never with a complete-looking document
	for n := 1; n <= 4; n++ {
		for pos := 0; pos < n; pos++ {
			for _, stop := range []string{"C", "W"} {
				l := make([]string, n)
				for i := range l {
					l[i] = smallHex[(i+pos)%len(smallHex)]
				}
				l[pos] = stop
				for _, h := range helpers {
					c.Case(true, fmt.Sprintf("arr %s 1 %s", h, strings.Join(l, ",")))
				}
			}
		}
	}
	// hand-made documents: every error branch of the two providers
	bad := []string{"", " ", "3", `"s"`, "[", "{", "]", "}", "[]", "{}", "[1,2", "[1,2}", "[1 2]", "[1,,2]", "[1,2,]", "[,1]", "[1,",
		"[1,2]x", " [ 1 , \"a]\" ]  ", "[[1,2],[3", "[[1,2],[3]]", "[{\"a\":[1,{\"b\":\"}\"}]}]", "[\"a\\\"b\",\"\\\\\"]", "[\"abc",
		`{"a":1`, `{"a":1,`, `{"a":1,}`, `{"a" 1}`, `{"a":}`, `{1:2}`, `{"a":1]`, `{"a":1 "b":2}`, `{"a":1,"a":2}`, `{"":{}}`, `{"a"`, `{"a":`, `{,"a":1}`,
		`{"a":[1,2],"b":{"c":"}"}}`, "null", "true", "[1]]", "{}}",
		"\t[\r\n[[[[[[[]]]]]]] ,\n{\"a\":{\"b\":{\"c\":{\"d\":{\"e\":{\"f\":{}}}}}}}\t", "[[[[[[[]]]]]]],", "\r\n{ \"a\\\"\" :\t[[[[[[{}]]]]]] ,", "{\"k\\u0041\":[[[[[[1]]]]]]]",
		"[\"\\\\\",", "{\"\\\\\":1,", "[1e5 ,\t2E-3\n", "[ [ ] , { } ,",
		// top-level values that are not of the expected kind
		"false", "0", "-1.5e3", `"internal server error"`, " 17 ", "7 [1,2]", `"x" {"a":1}`, "\n\tnull\n"}
	for _, d := range bad {
		h := c20hex([]byte(d))
		if h == "" {
			h = "-"
		}
		c.Case(true, "rdbad arr "+h)
		c.Case(true, "rdbad obj "+h)
	}
	// directed: nesting depth 6..12 (thorough: up to 64), compact through the writers and back, and as texts with
	// white space at every legal position read as raw messages; long strings with every escape kind
	for d := 6; d <= c.Pick(12, 64); d++ {
		for rep := 0; rep < c.Pick(2, 6); rep++ {
			v := c20payload(c20genDeepValue(r, d))
			v2 := c20payload(c20genDeepValue(r, d))
			c.Case(true, fmt.Sprintf("arr %s 1 %s,%s", helpers[(d+rep)%3], v, v2))
			c.Case(true, fmt.Sprintf("rdarr %d %s,%s", (d+rep)%4, v2, v))
			t1 := c20mustBeJson(c20genDeepText(r, d, true))
			t2 := c20mustBeJson(c20genDeepText(r, d, rep%2 == 0))
			c.Case(true, fmt.Sprintf("rdarr %d %s,%s", (d+rep+1)%4, t1, t2))
			c.Case(true, fmt.Sprintf("rdobj %d %s:%s,%s:%s,%s:%s", (d+rep+2)%4, c20hex([]byte(c20genKey(r))), t2, c20hex([]byte(c20genKey(r))), t1, c20hex([]byte(c20genKey(r))), v))
		}
	}
	for _, n := range []int{40, 200, 700, 3000} {
		for rep := 0; rep < c.Pick(1, 4); rep++ {
			ls := c20mustBeJson(c20genLongString(r, n))
			c.Case(true, fmt.Sprintf("rdarr %d %s,%s,%s", (n+rep)%4, ls, c20hex([]byte("[]")), ls))
			c.Case(true, fmt.Sprintf("rdobj %d %s:%s,:%s", (n+rep+1)%4, c20hex([]byte(c20genBody(r, 30, true))), ls, ls))
			lv := c20payload(c20genStringN(r, n))
			c.Case(true, fmt.Sprintf("arr %s 1 %s,%s", helpers[rep%3], lv, lv))
		}
	}
	// seeded random: element sequences over the value grammar through the three writers and back, and
	// hand-built array / object documents with white space
	n := c.Pick(400, 20000)
	for i := 0; i < n; i++ {
		k := r.Small(12)
		es := make([]string, k)
		for j := range es {
			es[j] = c20payload(c20genValue(r, 3))
		}
		h := helpers[r.Intn(3)]
		c.Case(k >= 2, fmt.Sprintf("arr %s 1 %s", h, c20joinOrDash(es)))
		if r.Intn(8) == 0 && k > 0 {
			es2 := append([]string(nil), es...)
			es2[r.Intn(k)] = "X"
			c.Case(true, fmt.Sprintf("arr %s 1 %s", h, strings.Join(es2, ",")))
		}
		// the documents read as raw messages: half of the time the elements are arbitrary JSON TEXTS (any number
		// form, any escape, raw non-UTF-8 bytes in strings, white space at every legal position inside)
		ts := es
		if r.Bool() {
			ts = make([]string, k)
			ws := r.Intn(3) > 0
			for j := range ts {
				ts[j] = c20mustBeJson(c20genText(r, r.Intn(5), ws))
			}
		}
		c.Case(k >= 2, fmt.Sprintf("rdarr %d %s", r.Intn(4), c20joinOrDash(ts)))
		// object: keys in escaped form, may repeat (document order and duplicates must be preserved)
		ents := make([]string, k)
		keys := make([]string, 0, k)
		for j := range ents {
			var key string
			if len(keys) > 0 && r.Intn(5) == 0 {
				key = keys[r.Intn(len(keys))]
			} else {
				key = c20genKey(r)
			}
			keys = append(keys, key)
			ents[j] = c20hex([]byte(key)) + ":" + ts[j]
		}
		c.Case(k >= 2, fmt.Sprintf("rdobj %d %s", r.Intn(4), c20joinOrDash(ents)))
		// truncations of a valid document at token boundaries, wrong closer
		if r.Intn(4) == 0 && k > 0 {
			var raw [][]byte
			for _, e := range ts {
				b, _ := c20unhex(e)
				raw = append(raw, b)
			}
			cut := r.Intn(k)
			doc := c20buildArrDoc(r.Intn(4), raw[:cut+1])
			doc = doc[:bytes.LastIndexByte(doc, ']')] // without "]" and the white space after it
			switch r.Intn(3) {
			case 0:
			case 1:
				doc = append(doc, ',')
			case 2:
				doc = append(doc, '}')
			}
			c.Case(true, "rdbad arr "+c20hex(doc))
		}
	}
}

func genC20Lazy(c *Ctx) {
	r := c.Rng
	for _, mode := range []string{"alone", "field"} {
		for _, src := range []string{"empty", "err", "nullv", "raw:6e756c6c", "raw:" + c20hex([]byte("42")), "raw:" + c20hex([]byte(`{"a":[1,"x"]}`)),
			"v:" + c20hex([]byte("0")), "v:" + c20hex([]byte(`""`)), "v:" + c20hex([]byte(`"null"`)), "v:" + c20hex([]byte("[]")), "v:" + c20hex([]byte("false"))} {
			c.Case(true, fmt.Sprintf("lazy %s %s", mode, src))
		}
		for _, tc := range []string{"big:12345678901234567890", "big:-7", "big:0", "pm:\"12.34\"", "pm:\"-0.05\"", "pm:\"0.00\"",
			"spm:{\"id\":\"inv-1\",\"total\":\"1.05\"}", "spm:{\"id\":\"\",\"total\":\"0.00\"}"} {
			k, txt, _ := strings.Cut(tc, ":")
			c.Case(true, fmt.Sprintf("lazy %s t:%s:%s", mode, k, c20hex([]byte(txt))))
		}
	}
	// Lazy elements through the streaming decoder: documents shorter and (mostly) longer than the decoder's read
	// buffer (512 bytes, doubling), values asked for after the whole array was collected
	c.Case(false, "lzarr 0 -")
	for _, k := range []int{1, 3, 40, 200, 1500} {
		es := make([]string, k)
		for i := range es {
			es[i] = c20hex([]byte(fmt.Sprintf(`{"i":%d,"s":"v%d"}`, i, i*7)))
		}
		c.Case(true, fmt.Sprintf("lzarr %d %s", k%3, strings.Join(es, ",")))
	}
	nl := c.Pick(25, 400)
	for i := 0; i < nl; i++ {
		k := 1 + r.Intn(120)
		es := make([]string, k)
		for j := range es {
			v := c20genValue(r, 2)
			if v == nil {
				v = []any{nil} // a top-level null is the empty Lazy (covered by the "lazy" cases)
			}
			es[j] = c20payload(v)
		}
		c.Case(true, fmt.Sprintf("lzarr %d %s", r.Intn(3), strings.Join(es, ",")))
	}
	n := c.Pick(150, 3000)
	for i := 0; i < n; i++ {
		v := c20genValue(r, 3)
		mode := "alone"
		if r.Bool() {
			mode = "field"
		}
		kind := "v:"
		if r.Intn(3) == 0 {
			kind = "raw:"
		}
		if v == nil && kind == "v:" {
			c.Case(true, fmt.Sprintf("lazy %s nullv", mode))
			continue
		}
		c.Case(true, fmt.Sprintf("lazy %s %s%s", mode, kind, c20payload(v)))
	}
}

func c20runs(lens []int) string {
	if len(lens) == 0 {
		return "-"
	}
	var parts []string
	for i := 0; i < len(lens); {
		j := i
		for j < len(lens) && lens[j] == lens[i] {
			j++
		}
		if j-i == 1 {
			parts = append(parts, fmt.Sprintf("L%d", lens[i]))
		} else {
			parts = append(parts, fmt.Sprintf("L%dx%d", lens[i], j-i))
		}
		i = j
	}
	return strings.Join(parts, " ")
}

func c20fileCase(c *Ctx, rev, crlf, nl bool, lens []int) { c20fileCaseCR(c, rev, crlf, 0, nl, lens) }

// crp > 0: lone carriage returns inside the line contents (c20crAt)
func c20fileCaseCR(c *Ctx, rev, crlf bool, crp int, nl bool, lens []int) {
	if !nl && len(lens) > 0 && lens[len(lens)-1] == 0 {
		nl = true
		lens = lens[:len(lens)-1]
	}
	d, e, t := "fwd", "lf", "nonl"
	if rev {
		d = "rev"
	}
	if crlf {
		e = "crlf"
	}
	if nl {
		t = "nl"
	}
	if crp > 0 {
		e = fmt.Sprintf("%s:cr%d", e, crp)
	}
	c.Case(len(lens) >= 2, fmt.Sprintf("file %s %s %s %s", d, e, t, c20runs(lens)))
}

func c20allVariants(c *Ctx, lens []int) {
	for _, rev := range []bool{false, true} {
		for _, crlf := range []bool{false, true} {
			for _, nl := range []bool{true, false} {
				c20fileCase(c, rev, crlf, nl, lens)
			}
		}
	}
}

func genC20Files(c *Ctx) {
	r := c.Rng
	c.Case(true, "latefile fwd")
	c.Case(true, "latefile rev")
	c.Case(false, "missing fwd")
	c.Case(false, "missing rev")
	// exhaustive small scope, both directions: every file made of up to 6 (thorough 9) units out of {"a", "\n", "\r\n"},
	// and every file made of up to 5 (thorough 7) units out of {"a", "\n", "\r\n", "\r"} — a lone carriage return is
	// line CONTENT (only one '\r' directly before the '\n' belongs to the terminator): "\ra\r\r\n", "a\r", "\r", "\r\r\n",
	// "a\r\na\r" … Each distinct file once.
	seen := map[string]bool{}
	var rec func(units []string, maxUnits int, cur string, k int)
	rec = func(units []string, maxUnits int, cur string, k int) {
		if !seen[cur] {
			seen[cur] = true
			h := c20hex([]byte(cur))
			if h == "" {
				h = "-"
			}
			nt := strings.Count(cur, "\n") >= 2 || (strings.Count(cur, "\n") == 1 && !strings.HasSuffix(cur, "\n"))
			c.Case(nt, "raw fwd "+h)
			c.Case(nt, "raw rev "+h)
		}
		if k >= maxUnits {
			return
		}
		for _, u := range units {
			rec(units, maxUnits, cur+u, k+1)
		}
	}
	rec([]string{"a", "\n", "\r\n"}, c.Pick(6, 9), "", 0)
	rec([]string{"a", "\n", "\r\n", "\r"}, c.Pick(5, 7), "", 0)
	// histories on ONE stream value: the file appears, disappears or changes between two materialisations
	hist := []string{"M", "-", c20hex([]byte("a\n")), c20hex([]byte("a\nbb\nccc")), c20hex([]byte("\nx\r\ny\n")), c20hex([]byte(strings.Repeat("line\n", 1200))),
		c20hex([]byte("\ra\r\r\nb\r\n\r\n"))}
	for _, a := range hist {
		for _, b := range hist {
			c.Case(a != b, "hraw fwd "+a+" "+b)
			c.Case(a != b, "hraw rev "+a+" "+b)
		}
	}
	// line lengths around the scanner buffer boundaries: bufSize/2, bufSize, its doublings, maxTokenSize/2, maxTokenSize
	single := []int{0, 1, 2, 100, 2046, 2047, 2048, 2049, 4094, 4095, 4096, 4097, 8191, 8192, 8193, 12288, 16383, 16384, 16385,
		32765, 32766, 32767, 32768, 32769, 65533, 65534, 65535, 65536, 65537, 70000}
	for _, n := range single {
		c20allVariants(c, []int{n})
		c20allVariants(c, []int{1, n})
		c20allVariants(c, []int{n, 1})
	}
	pair := []int{0, 1, 2047, 2048, 4095, 4096, 4097, 8191, 8192}
	for _, a := range pair {
		for _, b := range pair {
			c20allVariants(c, []int{a, b})
			if c.Thorough {
				c20allVariants(c, []int{a, 7, b})
				c20allVariants(c, []int{3, a, b})
			}
		}
	}
	// many short lines over several buffers (buffer reuse: the D20 shape), and empty lines
	for _, l := range [][]int{c20rep(30, 300), c20rep(0, 5000), c20rep(1, 4100), c20rep(100, 150), c20rep(2047, 7), c20rep(4095, 4), c20rep(4096, 3),
		append(c20rep(0, 3), c20rep(9, 1000)...), append(c20rep(50, 100), 0, 0, 0), {10, 60000, 99, 99, 99, 60000}, append(append([]int{10, 60000}, c20rep(99, 250)...), 60000),
		{65535, 65535, 65535}, {10, 32766, 32766, 100, 100, 100, 65535}} {
		c20fileCase(c, false, false, true, l)
		c20fileCase(c, true, false, true, l)
		c20fileCase(c, true, true, true, l)
		c20fileCase(c, false, true, false, l)
	}
	// seeded random
	boundary := []int{2048, 4096, 8192, 16384, 32768, 65536}
	n := c.Pick(260, 12000)
	for i := 0; i < n; i++ {
		var lens []int
		total := 0
		k := 1 + r.Small(14)
		if r.Intn(6) == 0 {
			k = 20 + r.Intn(400)
		}
		budget := 40000
		if r.Intn(4) == 0 {
			budget = 250000
		}
		for j := 0; j < k && total < budget; j++ {
			var ln int
			switch r.Intn(12) {
			case 0:
				ln = 0
			case 1, 2, 3, 4:
				ln = r.Intn(60)
			case 5, 6:
				ln = r.Intn(3000)
			case 7, 8:
				b := boundary[r.Intn(3)]
				ln = b + r.Range(-3, 3)
			case 9:
				b := boundary[r.Intn(len(boundary))]
				ln = b + r.Range(-3, 3)
			case 10:
				ln = r.Intn(12000)
			default:
				ln = r.Intn(70000)
			}
			if k > 20 {
				ln = ln % 200
			}
			lens = append(lens, ln)
			total += ln + 1
		}
		c20fileCase(c, r.Intn(3) > 0, r.Intn(3) == 0, r.Intn(5) > 0, lens)
	}
	// lone carriage returns INSIDE the line contents (first byte, last byte, last but one, sprinkled), at the buffer
	// boundary lengths: the line is everything up to the '\n' minus at most one '\r', in both directions
	crSingle := []int{1, 2, 3, 2047, 2048, 4095, 4096, 4097, 8192, 16384, 32766, 32767, 65535}
	for _, ln := range crSingle {
		for _, lens := range [][]int{{ln}, {1, ln}, {ln, 1}} {
			for _, p := range []int{1, 2, 15} {
				c20fileCaseCR(c, false, false, p, true, lens)
				c20fileCaseCR(c, true, false, p, true, lens)
				c20fileCaseCR(c, false, true, p, true, lens)
				c20fileCaseCR(c, true, true, p, true, lens)
				c20fileCaseCR(c, false, false, p, false, lens)
			}
		}
	}
	for _, l := range [][]int{c20rep(30, 300), c20rep(1, 4100), c20rep(2, 3000), c20rep(2047, 7), c20rep(4095, 4), c20rep(4096, 3), {10, 32766, 32766, 100, 100, 100, 65535}} {
		for _, p := range []int{3, 7, 9} {
			c20fileCaseCR(c, false, false, p, true, l)
			c20fileCaseCR(c, true, false, p, true, l)
			c20fileCaseCR(c, true, true, p, true, l)
			c20fileCaseCR(c, false, true, p, false, l)
		}
	}
	// seeded random, with lone carriage returns (a loop of its own: the random cases above stay what they were)
	n2 := c.Pick(130, 6000)
	for i := 0; i < n2; i++ {
		var lens []int
		total := 0
		k := 1 + r.Small(14)
		if r.Intn(6) == 0 {
			k = 20 + r.Intn(400)
		}
		budget := 40000
		if r.Intn(4) == 0 {
			budget = 250000
		}
		for j := 0; j < k && total < budget; j++ {
			var ln int
			switch r.Intn(10) {
			case 0, 1, 2:
				ln = r.Intn(5)
			case 3, 4:
				ln = r.Intn(60)
			case 5:
				ln = r.Intn(3000)
			case 6, 7:
				ln = boundary[r.Intn(3)] + r.Range(-3, 3)
			case 8:
				ln = boundary[r.Intn(len(boundary))] + r.Range(-3, 3)
			default:
				ln = r.Intn(40000)
			}
			if k > 20 {
				ln = ln % 200
			}
			lens = append(lens, ln)
			total += ln + 1
		}
		c20fileCaseCR(c, r.Intn(2) > 0, r.Intn(3) == 0, 1+r.Intn(15), r.Intn(5) > 0, lens)
	}
}

func c20rep(n, k int) []int {
	l := make([]int, k)
	for i := range l {
		l[i] = n
	}
	return l
}
